
(** val negb : bool -> bool **)

let negb = function
| true -> false
| false -> true

type nat =
| O
| S of nat

(** val fst : ('a1 * 'a2) -> 'a1 **)

let fst = function
| (x, _) -> x

(** val snd : ('a1 * 'a2) -> 'a2 **)

let snd = function
| (_, y) -> y

(** val app : 'a1 list -> 'a1 list -> 'a1 list **)

let rec app l m =
  match l with
  | [] -> m
  | a :: l1 -> a :: (app l1 m)

type comparison =
| Eq
| Lt
| Gt

(** val compOpp : comparison -> comparison **)

let compOpp = function
| Eq -> Eq
| Lt -> Gt
| Gt -> Lt

module Coq__1 = struct
 (** val add : nat -> nat -> nat **)
 let rec add n0 m =
   match n0 with
   | O -> m
   | S p -> S (add p m)
end
include Coq__1

(** val rev_append : 'a1 list -> 'a1 list -> 'a1 list **)

let rec rev_append l l' =
  match l with
  | [] -> l'
  | a :: l0 -> rev_append l0 (a :: l')

(** val fold_left : ('a1 -> 'a2 -> 'a1) -> 'a2 list -> 'a1 -> 'a1 **)

let rec fold_left f l a0 =
  match l with
  | [] -> a0
  | b :: t0 -> fold_left f t0 (f a0 b)

(** val firstn : nat -> 'a1 list -> 'a1 list **)

let rec firstn n0 l =
  match n0 with
  | O -> []
  | S n1 -> (match l with
             | [] -> []
             | a :: l0 -> a :: (firstn n1 l0))

(** val skipn : nat -> 'a1 list -> 'a1 list **)

let rec skipn n0 l =
  match n0 with
  | O -> l
  | S n1 -> (match l with
             | [] -> []
             | _ :: l0 -> skipn n1 l0)

type positive =
| XI of positive
| XO of positive
| XH

type n =
| N0
| Npos of positive

type z =
| Z0
| Zpos of positive
| Zneg of positive

module Pos =
 struct
  type mask =
  | IsNul
  | IsPos of positive
  | IsNeg
 end

module Coq_Pos =
 struct
  (** val succ : positive -> positive **)

  let rec succ = function
  | XI p -> XO (succ p)
  | XO p -> XI p
  | XH -> XO XH

  (** val add : positive -> positive -> positive **)

  let rec add x y =
    match x with
    | XI p ->
      (match y with
       | XI q -> XO (add_carry p q)
       | XO q -> XI (add p q)
       | XH -> XO (succ p))
    | XO p ->
      (match y with
       | XI q -> XI (add p q)
       | XO q -> XO (add p q)
       | XH -> XI p)
    | XH -> (match y with
             | XI q -> XO (succ q)
             | XO q -> XI q
             | XH -> XO XH)

  (** val add_carry : positive -> positive -> positive **)

  and add_carry x y =
    match x with
    | XI p ->
      (match y with
       | XI q -> XI (add_carry p q)
       | XO q -> XO (add_carry p q)
       | XH -> XI (succ p))
    | XO p ->
      (match y with
       | XI q -> XO (add_carry p q)
       | XO q -> XI (add p q)
       | XH -> XO (succ p))
    | XH ->
      (match y with
       | XI q -> XI (succ q)
       | XO q -> XO (succ q)
       | XH -> XI XH)

  (** val pred_double : positive -> positive **)

  let rec pred_double = function
  | XI p -> XI (XO p)
  | XO p -> XI (pred_double p)
  | XH -> XH

  (** val pred_N : positive -> n **)

  let pred_N = function
  | XI p -> Npos (XO p)
  | XO p -> Npos (pred_double p)
  | XH -> N0

  type mask = Pos.mask =
  | IsNul
  | IsPos of positive
  | IsNeg

  (** val succ_double_mask : mask -> mask **)

  let succ_double_mask = function
  | IsNul -> IsPos XH
  | IsPos p -> IsPos (XI p)
  | IsNeg -> IsNeg

  (** val double_mask : mask -> mask **)

  let double_mask = function
  | IsPos p -> IsPos (XO p)
  | x0 -> x0

  (** val double_pred_mask : positive -> mask **)

  let double_pred_mask = function
  | XI p -> IsPos (XO (XO p))
  | XO p -> IsPos (XO (pred_double p))
  | XH -> IsNul

  (** val sub_mask : positive -> positive -> mask **)

  let rec sub_mask x y =
    match x with
    | XI p ->
      (match y with
       | XI q -> double_mask (sub_mask p q)
       | XO q -> succ_double_mask (sub_mask p q)
       | XH -> IsPos (XO p))
    | XO p ->
      (match y with
       | XI q -> succ_double_mask (sub_mask_carry p q)
       | XO q -> double_mask (sub_mask p q)
       | XH -> IsPos (pred_double p))
    | XH -> (match y with
             | XH -> IsNul
             | _ -> IsNeg)

  (** val sub_mask_carry : positive -> positive -> mask **)

  and sub_mask_carry x y =
    match x with
    | XI p ->
      (match y with
       | XI q -> succ_double_mask (sub_mask_carry p q)
       | XO q -> double_mask (sub_mask p q)
       | XH -> IsPos (pred_double p))
    | XO p ->
      (match y with
       | XI q -> double_mask (sub_mask_carry p q)
       | XO q -> succ_double_mask (sub_mask_carry p q)
       | XH -> double_pred_mask p)
    | XH -> IsNeg

  (** val mul : positive -> positive -> positive **)

  let rec mul x y =
    match x with
    | XI p -> add y (XO (mul p y))
    | XO p -> XO (mul p y)
    | XH -> y

  (** val iter : ('a1 -> 'a1) -> 'a1 -> positive -> 'a1 **)

  let rec iter f x = function
  | XI n' -> f (iter f (iter f x n') n')
  | XO n' -> iter f (iter f x n') n'
  | XH -> f x

  (** val size : positive -> positive **)

  let rec size = function
  | XI p0 -> succ (size p0)
  | XO p0 -> succ (size p0)
  | XH -> XH

  (** val compare_cont : comparison -> positive -> positive -> comparison **)

  let rec compare_cont r x y =
    match x with
    | XI p ->
      (match y with
       | XI q -> compare_cont r p q
       | XO q -> compare_cont Gt p q
       | XH -> Gt)
    | XO p ->
      (match y with
       | XI q -> compare_cont Lt p q
       | XO q -> compare_cont r p q
       | XH -> Gt)
    | XH -> (match y with
             | XH -> r
             | _ -> Lt)

  (** val compare : positive -> positive -> comparison **)

  let compare =
    compare_cont Eq

  (** val eqb : positive -> positive -> bool **)

  let rec eqb p q =
    match p with
    | XI p0 -> (match q with
                | XI q0 -> eqb p0 q0
                | _ -> false)
    | XO p0 -> (match q with
                | XO q0 -> eqb p0 q0
                | _ -> false)
    | XH -> (match q with
             | XH -> true
             | _ -> false)

  (** val coq_Nsucc_double : n -> n **)

  let coq_Nsucc_double = function
  | N0 -> Npos XH
  | Npos p -> Npos (XI p)

  (** val coq_Ndouble : n -> n **)

  let coq_Ndouble = function
  | N0 -> N0
  | Npos p -> Npos (XO p)

  (** val coq_lor : positive -> positive -> positive **)

  let rec coq_lor p q =
    match p with
    | XI p0 ->
      (match q with
       | XI q0 -> XI (coq_lor p0 q0)
       | XO q0 -> XI (coq_lor p0 q0)
       | XH -> p)
    | XO p0 ->
      (match q with
       | XI q0 -> XI (coq_lor p0 q0)
       | XO q0 -> XO (coq_lor p0 q0)
       | XH -> XI p0)
    | XH -> (match q with
             | XO q0 -> XI q0
             | _ -> q)

  (** val coq_land : positive -> positive -> n **)

  let rec coq_land p q =
    match p with
    | XI p0 ->
      (match q with
       | XI q0 -> coq_Nsucc_double (coq_land p0 q0)
       | XO q0 -> coq_Ndouble (coq_land p0 q0)
       | XH -> Npos XH)
    | XO p0 ->
      (match q with
       | XI q0 -> coq_Ndouble (coq_land p0 q0)
       | XO q0 -> coq_Ndouble (coq_land p0 q0)
       | XH -> N0)
    | XH -> (match q with
             | XO _ -> N0
             | _ -> Npos XH)

  (** val shiftl : positive -> n -> positive **)

  let shiftl p = function
  | N0 -> p
  | Npos n1 -> iter (fun x -> XO x) p n1

  (** val iter_op : ('a1 -> 'a1 -> 'a1) -> positive -> 'a1 -> 'a1 **)

  let rec iter_op op p a =
    match p with
    | XI p0 -> op a (iter_op op p0 (op a a))
    | XO p0 -> iter_op op p0 (op a a)
    | XH -> a

  (** val to_nat : positive -> nat **)

  let to_nat x =
    iter_op Coq__1.add x (S O)
 end

module N =
 struct
  (** val succ_double : n -> n **)

  let succ_double = function
  | N0 -> Npos XH
  | Npos p -> Npos (XI p)

  (** val double : n -> n **)

  let double = function
  | N0 -> N0
  | Npos p -> Npos (XO p)

  (** val pred : n -> n **)

  let pred = function
  | N0 -> N0
  | Npos p -> Coq_Pos.pred_N p

  (** val succ_pos : n -> positive **)

  let succ_pos = function
  | N0 -> XH
  | Npos p -> Coq_Pos.succ p

  (** val add : n -> n -> n **)

  let add n0 m =
    match n0 with
    | N0 -> m
    | Npos p -> (match m with
                 | N0 -> n0
                 | Npos q -> Npos (Coq_Pos.add p q))

  (** val sub : n -> n -> n **)

  let sub n0 m =
    match n0 with
    | N0 -> N0
    | Npos n' ->
      (match m with
       | N0 -> n0
       | Npos m' ->
         (match Coq_Pos.sub_mask n' m' with
          | Coq_Pos.IsPos p -> Npos p
          | _ -> N0))

  (** val mul : n -> n -> n **)

  let mul n0 m =
    match n0 with
    | N0 -> N0
    | Npos p -> (match m with
                 | N0 -> N0
                 | Npos q -> Npos (Coq_Pos.mul p q))

  (** val compare : n -> n -> comparison **)

  let compare n0 m =
    match n0 with
    | N0 -> (match m with
             | N0 -> Eq
             | Npos _ -> Lt)
    | Npos n' -> (match m with
                  | N0 -> Gt
                  | Npos m' -> Coq_Pos.compare n' m')

  (** val eqb : n -> n -> bool **)

  let eqb n0 m =
    match n0 with
    | N0 -> (match m with
             | N0 -> true
             | Npos _ -> false)
    | Npos p -> (match m with
                 | N0 -> false
                 | Npos q -> Coq_Pos.eqb p q)

  (** val leb : n -> n -> bool **)

  let leb x y =
    match compare x y with
    | Gt -> false
    | _ -> true

  (** val ltb : n -> n -> bool **)

  let ltb x y =
    match compare x y with
    | Lt -> true
    | _ -> false

  (** val min : n -> n -> n **)

  let min n0 n' =
    match compare n0 n' with
    | Gt -> n'
    | _ -> n0

  (** val max : n -> n -> n **)

  let max n0 n' =
    match compare n0 n' with
    | Gt -> n0
    | _ -> n'

  (** val div2 : n -> n **)

  let div2 = function
  | N0 -> N0
  | Npos p0 -> (match p0 with
                | XI p -> Npos p
                | XO p -> Npos p
                | XH -> N0)

  (** val size : n -> n **)

  let size = function
  | N0 -> N0
  | Npos p -> Npos (Coq_Pos.size p)

  (** val pos_div_eucl : positive -> n -> n * n **)

  let rec pos_div_eucl a b =
    match a with
    | XI a' ->
      let (q, r) = pos_div_eucl a' b in
      let r' = succ_double r in
      if leb b r' then ((succ_double q), (sub r' b)) else ((double q), r')
    | XO a' ->
      let (q, r) = pos_div_eucl a' b in
      let r' = double r in
      if leb b r' then ((succ_double q), (sub r' b)) else ((double q), r')
    | XH ->
      (match b with
       | N0 -> (N0, (Npos XH))
       | Npos p -> (match p with
                    | XH -> ((Npos XH), N0)
                    | _ -> (N0, (Npos XH))))

  (** val div_eucl : n -> n -> n * n **)

  let div_eucl a b =
    match a with
    | N0 -> (N0, N0)
    | Npos na -> (match b with
                  | N0 -> (N0, a)
                  | Npos _ -> pos_div_eucl na b)

  (** val div : n -> n -> n **)

  let div a b =
    fst (div_eucl a b)

  (** val modulo : n -> n -> n **)

  let modulo a b =
    snd (div_eucl a b)

  (** val coq_lor : n -> n -> n **)

  let coq_lor n0 m =
    match n0 with
    | N0 -> m
    | Npos p -> (match m with
                 | N0 -> n0
                 | Npos q -> Npos (Coq_Pos.coq_lor p q))

  (** val coq_land : n -> n -> n **)

  let coq_land n0 m =
    match n0 with
    | N0 -> N0
    | Npos p -> (match m with
                 | N0 -> N0
                 | Npos q -> Coq_Pos.coq_land p q)

  (** val shiftl : n -> n -> n **)

  let shiftl a n0 =
    match a with
    | N0 -> N0
    | Npos a0 -> Npos (Coq_Pos.shiftl a0 n0)

  (** val shiftr : n -> n -> n **)

  let shiftr a = function
  | N0 -> a
  | Npos p -> Coq_Pos.iter div2 a p

  (** val to_nat : n -> nat **)

  let to_nat = function
  | N0 -> O
  | Npos p -> Coq_Pos.to_nat p

  (** val ones : n -> n **)

  let ones n0 =
    pred (shiftl (Npos XH) n0)
 end

module Z =
 struct
  (** val double : z -> z **)

  let double = function
  | Z0 -> Z0
  | Zpos p -> Zpos (XO p)
  | Zneg p -> Zneg (XO p)

  (** val succ_double : z -> z **)

  let succ_double = function
  | Z0 -> Zpos XH
  | Zpos p -> Zpos (XI p)
  | Zneg p -> Zneg (Coq_Pos.pred_double p)

  (** val pred_double : z -> z **)

  let pred_double = function
  | Z0 -> Zneg XH
  | Zpos p -> Zpos (Coq_Pos.pred_double p)
  | Zneg p -> Zneg (XI p)

  (** val pos_sub : positive -> positive -> z **)

  let rec pos_sub x y =
    match x with
    | XI p ->
      (match y with
       | XI q -> double (pos_sub p q)
       | XO q -> succ_double (pos_sub p q)
       | XH -> Zpos (XO p))
    | XO p ->
      (match y with
       | XI q -> pred_double (pos_sub p q)
       | XO q -> double (pos_sub p q)
       | XH -> Zpos (Coq_Pos.pred_double p))
    | XH ->
      (match y with
       | XI q -> Zneg (XO q)
       | XO q -> Zneg (Coq_Pos.pred_double q)
       | XH -> Z0)

  (** val add : z -> z -> z **)

  let add x y =
    match x with
    | Z0 -> y
    | Zpos x' ->
      (match y with
       | Z0 -> x
       | Zpos y' -> Zpos (Coq_Pos.add x' y')
       | Zneg y' -> pos_sub x' y')
    | Zneg x' ->
      (match y with
       | Z0 -> x
       | Zpos y' -> pos_sub y' x'
       | Zneg y' -> Zneg (Coq_Pos.add x' y'))

  (** val opp : z -> z **)

  let opp = function
  | Z0 -> Z0
  | Zpos x0 -> Zneg x0
  | Zneg x0 -> Zpos x0

  (** val sub : z -> z -> z **)

  let sub m n0 =
    add m (opp n0)

  (** val mul : z -> z -> z **)

  let mul x y =
    match x with
    | Z0 -> Z0
    | Zpos x' ->
      (match y with
       | Z0 -> Z0
       | Zpos y' -> Zpos (Coq_Pos.mul x' y')
       | Zneg y' -> Zneg (Coq_Pos.mul x' y'))
    | Zneg x' ->
      (match y with
       | Z0 -> Z0
       | Zpos y' -> Zneg (Coq_Pos.mul x' y')
       | Zneg y' -> Zpos (Coq_Pos.mul x' y'))

  (** val compare : z -> z -> comparison **)

  let compare x y =
    match x with
    | Z0 -> (match y with
             | Z0 -> Eq
             | Zpos _ -> Lt
             | Zneg _ -> Gt)
    | Zpos x' -> (match y with
                  | Zpos y' -> Coq_Pos.compare x' y'
                  | _ -> Gt)
    | Zneg x' ->
      (match y with
       | Zneg y' -> compOpp (Coq_Pos.compare x' y')
       | _ -> Lt)

  (** val leb : z -> z -> bool **)

  let leb x y =
    match compare x y with
    | Gt -> false
    | _ -> true

  (** val ltb : z -> z -> bool **)

  let ltb x y =
    match compare x y with
    | Lt -> true
    | _ -> false

  (** val eqb : z -> z -> bool **)

  let eqb x y =
    match x with
    | Z0 -> (match y with
             | Z0 -> true
             | _ -> false)
    | Zpos p -> (match y with
                 | Zpos q -> Coq_Pos.eqb p q
                 | _ -> false)
    | Zneg p -> (match y with
                 | Zneg q -> Coq_Pos.eqb p q
                 | _ -> false)

  (** val to_nat : z -> nat **)

  let to_nat = function
  | Zpos p -> Coq_Pos.to_nat p
  | _ -> O

  (** val to_N : z -> n **)

  let to_N = function
  | Zpos p -> Npos p
  | _ -> N0

  (** val of_N : n -> z **)

  let of_N = function
  | N0 -> Z0
  | Npos p -> Zpos p

  (** val quotrem : z -> z -> z * z **)

  let quotrem a b =
    match a with
    | Z0 -> (Z0, Z0)
    | Zpos a0 ->
      (match b with
       | Z0 -> (Z0, a)
       | Zpos b0 ->
         let (q, r) = N.pos_div_eucl a0 (Npos b0) in ((of_N q), (of_N r))
       | Zneg b0 ->
         let (q, r) = N.pos_div_eucl a0 (Npos b0) in
         ((opp (of_N q)), (of_N r)))
    | Zneg a0 ->
      (match b with
       | Z0 -> (Z0, a)
       | Zpos b0 ->
         let (q, r) = N.pos_div_eucl a0 (Npos b0) in
         ((opp (of_N q)), (opp (of_N r)))
       | Zneg b0 ->
         let (q, r) = N.pos_div_eucl a0 (Npos b0) in
         ((of_N q), (opp (of_N r))))

  (** val quot : z -> z -> z **)

  let quot a b =
    fst (quotrem a b)
 end

module PositiveMap =
 struct
  type key = positive

  type 'a tree =
  | Leaf
  | Node of 'a tree * 'a option * 'a tree

  type 'a t = 'a tree

  (** val empty : 'a1 t **)

  let empty =
    Leaf

  (** val find : key -> 'a1 t -> 'a1 option **)

  let rec find i = function
  | Leaf -> None
  | Node (l, o, r) ->
    (match i with
     | XI ii -> find ii r
     | XO ii -> find ii l
     | XH -> o)

  (** val add : key -> 'a1 -> 'a1 t -> 'a1 t **)

  let rec add i v = function
  | Leaf ->
    (match i with
     | XI ii -> Node (Leaf, None, (add ii v Leaf))
     | XO ii -> Node ((add ii v Leaf), None, Leaf)
     | XH -> Node (Leaf, (Some v), Leaf))
  | Node (l, o, r) ->
    (match i with
     | XI ii -> Node (l, o, (add ii v r))
     | XO ii -> Node ((add ii v l), o, r)
     | XH -> Node (l, (Some v), r))
 end

(** val frev : 'a1 list -> 'a1 list **)

let frev l =
  rev_append l []

type arr = n PositiveMap.t

(** val aempty : arr **)

let aempty =
  PositiveMap.empty

(** val aget : arr -> n -> n **)

let aget a i =
  match PositiveMap.find (N.succ_pos i) a with
  | Some v -> v
  | None -> N0

(** val aset : arr -> n -> n -> arr **)

let aset a i v =
  PositiveMap.add (N.succ_pos i) v a

(** val arr_fill : n list -> n -> arr -> arr **)

let rec arr_fill l i a =
  match l with
  | [] -> a
  | x :: r -> arr_fill r (N.add i (Npos XH)) (aset a i x)

(** val arr_of_list : n list -> arr **)

let arr_of_list l =
  arr_fill l N0 aempty

(** val static_lit_short_l : n list **)

let static_lit_short_l =
  (Npos (XO (XO (XO (XO (XO (XO (XO (XO (XI (XO (XO (XO (XO (XO (XO (XO (XO
    (XO (XO (XO (XO (XO (XO (XO (XO (XO (XI (XO (XI (XI
    XH))))))))))))))))))))))))))))))) :: ((Npos (XO (XO (XO (XO (XI (XO (XI
    (XO (XO (XO (XO (XO (XO (XO (XO (XO (XO (XO (XO (XO (XO (XO (XO (XO (XO
    (XO (XI (XO (XO (XO (XO XH)))))))))))))))))))))))))))))))) :: ((Npos (XO
    (XO (XO (XO (XI (XO (XO (XO (XO (XO (XO (XO (XO (XO (XO (XO (XO (XO (XO
    (XO (XO (XO (XO (XO (XO (XO (XI (XO (XO (XO (XO
    XH)))))))))))))))))))))))))))))))) :: ((Npos (XI (XO (XO (XO (XI (XI (XI
    (XO (XI (XO (XO (XO (XO (XO (XO (XO (XO (XO (XO (XO (XO (XO (XO (XO (XO
    (XO (XI (XO (XO (XO (XI XH)))))))))))))))))))))))))))))))) :: ((Npos (XI
    (XO (XI (XI (XI (XO (XO (XO (XI (XO (XO (XO (XO (XO (XO (XO (XO (XO (XO
    (XO (XO (XO (XO (XO (XO (XO (XI (XO (XI (XO (XO
    XH)))))))))))))))))))))))))))))))) :: ((Npos (XO (XO (XO (XO (XI (XI (XI
    (XO (XO (XO (XO (XO (XO (XO (XO (XO (XO (XO (XO (XO (XO (XO (XO (XO (XO
    (XO (XI (XO (XO (XO (XO XH)))))))))))))))))))))))))))))))) :: ((Npos (XO
    (XO (XO (XO (XI (XI (XO (XO (XO (XO (XO (XO (XO (XO (XO (XO (XO (XO (XO
    (XO (XO (XO (XO (XO (XO (XO (XI (XO (XO (XO (XO
    XH)))))))))))))))))))))))))))))))) :: ((Npos (XO (XO (XO (XO (XO (XO (XI
    (XI (XO (XO (XO (XO (XO (XO (XO (XO (XO (XO (XO (XO (XO (XO (XO (XO (XO
    (XO (XI (XO (XI (XO (XO XH)))))))))))))))))))))))))))))))) :: ((Npos (XO
    (XO (XO (XI (XO (XO (XO (XO (XI (XO (XO (XO (XO (XO (XO (XO (XO (XO (XO
    (XO (XO (XO (XO (XO (XO (XO (XI (XO (XI (XI
    XH))))))))))))))))))))))))))))))) :: ((Npos (XO (XO (XO (XO (XO (XI (XI
    (XO (XO (XO (XO (XO (XO (XO (XO (XO (XO (XO (XO (XO (XO (XO (XO (XO (XO
    (XO (XI (XO (XO (XO (XO XH)))))))))))))))))))))))))))))))) :: ((Npos (XO
    (XO (XO (XO (XO (XI (XO (XO (XO (XO (XO (XO (XO (XO (XO (XO (XO (XO (XO
    (XO (XO (XO (XO (XO (XO (XO (XI (XO (XO (XO (XO
    XH)))))))))))))))))))))))))))))))) :: ((Npos (XO (XO (XO (XO (XO (XI (XO
    (XI (XO (XO (XO (XO (XO (XO (XO (XO (XO (XO (XO (XO (XO (XO (XO (XO (XO
    (XO (XI (XO (XI (XO (XO XH)))))))))))))))))))))))))))))))) :: ((Npos (XO
    (XO (XO (XO (XO (XO (XO (XO (XO (XO (XO (XO (XO (XO (XO (XO (XO (XO (XO
    (XO (XO (XO (XO (XO (XO (XO (XI (XO (XO (XO (XO
    XH)))))))))))))))))))))))))))))))) :: ((Npos (XO (XO (XO (XO (XO (XO (XO
    (XI (XO (XO (XO (XO (XO (XO (XO (XO (XO (XO (XO (XO (XO (XO (XO (XO (XO
    (XO (XI (XO (XO (XO (XO XH)))))))))))))))))))))))))))))))) :: ((Npos (XO
    (XO (XO (XO (XO (XO (XI (XO (XO (XO (XO (XO (XO (XO (XO (XO (XO (XO (XO
    (XO (XO (XO (XO (XO (XO (XO (XI (XO (XO (XO (XO
    XH)))))))))))))))))))))))))))))))) :: ((Npos (XO (XO (XO (XO (XO (XI (XI
    (XI (XO (XO (XO (XO (XO (XO (XO (XO (XO (XO (XO (XO (XO (XO (XO (XO (XO
    (XO (XI (XO (XI (XO (XO XH)))))))))))))))))))))))))))))))) :: ((Npos (XO
    (XO (XI (XO (XO (XO (XO (XO (XI (XO (XO (XO (XO (XO (XO (XO (XO (XO (XO
    (XO (XO (XO (XO (XO (XO (XO (XI (XO (XI (XI
    XH))))))))))))))))))))))))))))))) :: ((Npos (XO (XO (XO (XI (XI (XO (XI
    (XO (XO (XO (XO (XO (XO (XO (XO (XO (XO (XO (XO (XO (XO (XO (XO (XO (XO
    (XO (XI (XO (XO (XO (XO XH)))))))))))))))))))))))))))))))) :: ((Npos (XO
    (XO (XO (XI (XI (XO (XO (XO (XO (XO (XO (XO (XO (XO (XO (XO (XO (XO (XO
    (XO (XO (XO (XO (XO (XO (XO (XI (XO (XO (XO (XO
    XH)))))))))))))))))))))))))))))))) :: ((Npos (XO (XO (XO (XO (XI (XO (XO
    (XI (XO (XO (XO (XO (XO (XO (XO (XO (XO (XO (XO (XO (XO (XO (XO (XO (XO
    (XO (XI (XO (XI (XO (XO XH)))))))))))))))))))))))))))))))) :: ((Npos (XI
    (XO (XO (XI (XI (XI (XO (XO (XI (XO (XO (XO (XO (XO (XO (XO (XO (XO (XO
    (XO (XO (XO (XO (XO (XO (XO (XI (XO (XO (XI (XO
    XH)))))))))))))))))))))))))))))))) :: ((Npos (XO (XO (XO (XI (XI (XI (XI
    (XO (XO (XO (XO (XO (XO (XO (XO (XO (XO (XO (XO (XO (XO (XO (XO (XO (XO
    (XO (XI (XO (XO (XO (XO XH)))))))))))))))))))))))))))))))) :: ((Npos (XO
    (XO (XO (XI (XI (XI (XO (XO (XO (XO (XO (XO (XO (XO (XO (XO (XO (XO (XO
    (XO (XO (XO (XO (XO (XO (XO (XI (XO (XO (XO (XO
    XH)))))))))))))))))))))))))))))))) :: ((Npos (XO (XO (XO (XO (XI (XO (XI
    (XI (XO (XO (XO (XO (XO (XO (XO (XO (XO (XO (XO (XO (XO (XO (XO (XO (XO
    (XO (XI (XO (XI (XO (XO XH)))))))))))))))))))))))))))))))) :: ((Npos (XI
    (XI (XI (XI (XO (XO (XO (XO (XI (XO (XO (XO (XO (XO (XO (XO (XO (XO (XO
    (XO (XO (XO (XO (XO (XO (XO (XI (XO (XO (XO (XO
    XH)))))))))))))))))))))))))))))))) :: ((Npos (XO (XO (XO (XI (XO (XI (XI
    (XO (XO (XO (XO (XO (XO (XO (XO (XO (XO (XO (XO (XO (XO (XO (XO (XO (XO
    (XO (XI (XO (XO (XO (XO XH)))))))))))))))))))))))))))))))) :: ((Npos (XO
    (XO (XO (XI (XO (XI (XO (XO (XO (XO (XO (XO (XO (XO (XO (XO (XO (XO (XO
    (XO (XO (XO (XO (XO (XO (XO (XI (XO (XO (XO (XO
    XH)))))))))))))))))))))))))))))))) :: ((Npos (XO (XO (XO (XO (XI (XI (XO
    (XI (XO (XO (XO (XO (XO (XO (XO (XO (XO (XO (XO (XO (XO (XO (XO (XO (XO
    (XO (XI (XO (XI (XO (XO XH)))))))))))))))))))))))))))))))) :: ((Npos (XO
    (XO (XO (XI (XO (XO (XO (XO (XO (XO (XO (XO (XO (XO (XO (XO (XO (XO (XO
    (XO (XO (XO (XO (XO (XO (XO (XI (XO (XO (XO (XO
    XH)))))))))))))))))))))))))))))))) :: ((Npos (XO (XO (XO (XI (XO (XO (XO
    (XI (XO (XO (XO (XO (XO (XO (XO (XO (XO (XO (XO (XO (XO (XO (XO (XO (XO
    (XO (XI (XO (XO (XO (XO XH)))))))))))))))))))))))))))))))) :: ((Npos (XO
    (XO (XO (XI (XO (XO (XI (XO (XO (XO (XO (XO (XO (XO (XO (XO (XO (XO (XO
    (XO (XO (XO (XO (XO (XO (XO (XI (XO (XO (XO (XO
    XH)))))))))))))))))))))))))))))))) :: ((Npos (XO (XO (XO (XO (XI (XI (XI
    (XI (XO (XO (XO (XO (XO (XO (XO (XO (XO (XO (XO (XO (XO (XO (XO (XO (XO
    (XO (XI (XO (XI (XO (XO XH)))))))))))))))))))))))))))))))) :: ((Npos (XO
    (XI (XO (XO (XO (XO (XO (XO (XI (XO (XO (XO (XO (XO (XO (XO (XO (XO (XO
    (XO (XO (XO (XO (XO (XO (XO (XI (XO (XI (XI
    XH))))))))))))))))))))))))))))))) :: ((Npos (XO (XO (XI (XO (XI (XO (XI
    (XO (XO (XO (XO (XO (XO (XO (XO (XO (XO (XO (XO (XO (XO (XO (XO (XO (XO
    (XO (XI (XO (XO (XO (XO XH)))))))))))))))))))))))))))))))) :: ((Npos (XO
    (XO (XI (XO (XI (XO (XO (XO (XO (XO (XO (XO (XO (XO (XO (XO (XO (XO (XO
    (XO (XO (XO (XO (XO (XO (XO (XI (XO (XO (XO (XO
    XH)))))))))))))))))))))))))))))))) :: ((Npos (XO (XO (XO (XO (XO (XI (XI
    (XO (XO (XO (XO (XO (XO (XO (XO (XO (XO (XO (XO (XO (XO (XO (XO (XO (XO
    (XI (XI (XO (XI XH)))))))))))))))))))))))))))))) :: ((Npos (XI (XO (XO
    (XI (XO (XI (XO (XO (XI (XO (XO (XO (XO (XO (XO (XO (XO (XO (XO (XO (XO
    (XO (XO (XO (XO (XO (XI (XO (XO (XI (XO
    XH)))))))))))))))))))))))))))))))) :: ((Npos (XO (XO (XI (XO (XI (XI (XI
    (XO (XO (XO (XO (XO (XO (XO (XO (XO (XO (XO (XO (XO (XO (XO (XO (XO (XO
    (XO (XI (XO (XO (XO (XO XH)))))))))))))))))))))))))))))))) :: ((Npos (XO
    (XO (XI (XO (XI (XI (XO (XO (XO (XO (XO (XO (XO (XO (XO (XO (XO (XO (XO
    (XO (XO (XO (XO (XO (XO (XO (XI (XO (XO (XO (XO
    XH)))))))))))))))))))))))))))))))) :: ((Npos (XO (XO (XO (XI (XO (XO (XI
    (XI (XO (XO (XO (XO (XO (XO (XO (XO (XO (XO (XO (XO (XO (XO (XO (XO (XO
    (XO (XI (XO (XI (XO (XO XH)))))))))))))))))))))))))))))))) :: ((Npos (XI
    (XI (XO (XI (XO (XO (XO (XO (XI (XO (XO (XO (XO (XO (XO (XO (XO (XO (XO
    (XO (XO (XO (XO (XO (XO (XO (XI (XO (XO (XO (XO
    XH)))))))))))))))))))))))))))))))) :: ((Npos (XO (XO (XI (XO (XO (XI (XI
    (XO (XO (XO (XO (XO (XO (XO (XO (XO (XO (XO (XO (XO (XO (XO (XO (XO (XO
    (XO (XI (XO (XO (XO (XO XH)))))))))))))))))))))))))))))))) :: ((Npos (XO
    (XO (XI (XO (XO (XI (XO (XO (XO (XO (XO (XO (XO (XO (XO (XO (XO (XO (XO
    (XO (XO (XO (XO (XO (XO (XO (XI (XO (XO (XO (XO
    XH)))))))))))))))))))))))))))))))) :: ((Npos (XO (XO (XO (XI (XO (XI (XO
    (XI (XO (XO (XO (XO (XO (XO (XO (XO (XO (XO (XO (XO (XO (XO (XO (XO (XO
    (XO (XI (XO (XI (XO (XO XH)))))))))))))))))))))))))))))))) :: ((Npos (XO
    (XO (XI (XO (XO (XO (XO (XO (XO (XO (XO (XO (XO (XO (XO (XO (XO (XO (XO
    (XO (XO (XO (XO (XO (XO (XO (XI (XO (XO (XO (XO
    XH)))))))))))))))))))))))))))))))) :: ((Npos (XO (XO (XI (XO (XO (XO (XO
    (XI (XO (XO (XO (XO (XO (XO (XO (XO (XO (XO (XO (XO (XO (XO (XO (XO (XO
    (XO (XI (XO (XO (XO (XO XH)))))))))))))))))))))))))))))))) :: ((Npos (XO
    (XO (XI (XO (XO (XO (XI (XO (XO (XO (XO (XO (XO (XO (XO (XO (XO (XO (XO
    (XO (XO (XO (XO (XO (XO (XO (XI (XO (XO (XO (XO
    XH)))))))))))))))))))))))))))))))) :: ((Npos (XO (XO (XO (XI (XO (XI (XI
    (XI (XO (XO (XO (XO (XO (XO (XO (XO (XO (XO (XO (XO (XO (XO (XO (XO (XO
    (XO (XI (XO (XI (XO (XO XH)))))))))))))))))))))))))))))))) :: ((Npos (XO
    (XI (XI (XO (XO (XO (XO (XO (XI (XO (XO (XO (XO (XO (XO (XO (XO (XO (XO
    (XO (XO (XO (XO (XO (XO (XO (XI (XO (XI (XI
    XH))))))))))))))))))))))))))))))) :: ((Npos (XO (XO (XI (XI (XI (XO (XI
    (XO (XO (XO (XO (XO (XO (XO (XO (XO (XO (XO (XO (XO (XO (XO (XO (XO (XO
    (XO (XI (XO (XO (XO (XO XH)))))))))))))))))))))))))))))))) :: ((Npos (XO
    (XO (XI (XI (XI (XO (XO (XO (XO (XO (XO (XO (XO (XO (XO (XO (XO (XO (XO
    (XO (XO (XO (XO (XO (XO (XO (XI (XO (XO (XO (XO
    XH)))))))))))))))))))))))))))))))) :: ((Npos (XO (XO (XO (XI (XI (XO (XO
    (XI (XO (XO (XO (XO (XO (XO (XO (XO (XO (XO (XO (XO (XO (XO (XO (XO (XO
    (XO (XI (XO (XI (XO (XO XH)))))))))))))))))))))))))))))))) :: ((Npos (XI
    (XO (XO (XO (XI (XO (XI (XO (XI (XO (XO (XO (XO (XO (XO (XO (XO (XO (XO
    (XO (XO (XO (XO (XO (XO (XO (XI (XO (XI (XI (XO
    XH)))))))))))))))))))))))))))))))) :: ((Npos (XO (XO (XI (XI (XI (XI (XI
    (XO (XO (XO (XO (XO (XO (XO (XO (XO (XO (XO (XO (XO (XO (XO (XO (XO (XO
    (XO (XI (XO (XO (XO (XO XH)))))))))))))))))))))))))))))))) :: ((Npos (XO
    (XO (XI (XI (XI (XI (XO (XO (XO (XO (XO (XO (XO (XO (XO (XO (XO (XO (XO
    (XO (XO (XO (XO (XO (XO (XO (XI (XO (XO (XO (XO
    XH)))))))))))))))))))))))))))))))) :: ((Npos (XO (XO (XO (XI (XI (XO (XI
    (XI (XO (XO (XO (XO (XO (XO (XO (XO (XO (XO (XO (XO (XO (XO (XO (XO (XO
    (XO (XI (XO (XI (XO (XO XH)))))))))))))))))))))))))))))))) :: ((Npos (XI
    (XO (XI (XO (XI (XO (XO (XO (XI (XO (XO (XO (XO (XO (XO (XO (XO (XO (XO
    (XO (XO (XO (XO (XO (XO (XO (XI (XO (XI (XO (XO
    XH)))))))))))))))))))))))))))))))) :: ((Npos (XO (XO (XI (XI (XO (XI (XI
    (XO (XO (XO (XO (XO (XO (XO (XO (XO (XO (XO (XO (XO (XO (XO (XO (XO (XO
    (XO (XI (XO (XO (XO (XO XH)))))))))))))))))))))))))))))))) :: ((Npos (XO
    (XO (XI (XI (XO (XI (XO (XO (XO (XO (XO (XO (XO (XO (XO (XO (XO (XO (XO
    (XO (XO (XO (XO (XO (XO (XO (XI (XO (XO (XO (XO
    XH)))))))))))))))))))))))))))))))) :: ((Npos (XO (XO (XO (XI (XI (XI (XO
    (XI (XO (XO (XO (XO (XO (XO (XO (XO (XO (XO (XO (XO (XO (XO (XO (XO (XO
    (XO (XI (XO (XI (XO (XO XH)))))))))))))))))))))))))))))))) :: ((Npos (XO
    (XO (XI (XI (XO (XO (XO (XO (XO (XO (XO (XO (XO (XO (XO (XO (XO (XO (XO
    (XO (XO (XO (XO (XO (XO (XO (XI (XO (XO (XO (XO
    XH)))))))))))))))))))))))))))))))) :: ((Npos (XO (XO (XI (XI (XO (XO (XO
    (XI (XO (XO (XO (XO (XO (XO (XO (XO (XO (XO (XO (XO (XO (XO (XO (XO (XO
    (XO (XI (XO (XO (XO (XO XH)))))))))))))))))))))))))))))))) :: ((Npos (XO
    (XO (XI (XI (XO (XO (XI (XO (XO (XO (XO (XO (XO (XO (XO (XO (XO (XO (XO
    (XO (XO (XO (XO (XO (XO (XO (XI (XO (XO (XO (XO
    XH)))))))))))))))))))))))))))))))) :: ((Npos (XO (XO (XO (XI (XI (XI (XI
    (XI (XO (XO (XO (XO (XO (XO (XO (XO (XO (XO (XO (XO (XO (XO (XO (XO (XO
    (XO (XI (XO (XI (XO (XO XH)))))))))))))))))))))))))))))))) :: ((Npos (XI
    (XO (XO (XO (XO (XO (XO (XO (XI (XO (XO (XO (XO (XO (XO (XO (XO (XO (XO
    (XO (XO (XO (XO (XO (XO (XO (XI (XO (XI (XI
    XH))))))))))))))))))))))))))))))) :: ((Npos (XO (XI (XO (XO (XI (XO (XI
    (XO (XO (XO (XO (XO (XO (XO (XO (XO (XO (XO (XO (XO (XO (XO (XO (XO (XO
    (XO (XI (XO (XO (XO (XO XH)))))))))))))))))))))))))))))))) :: ((Npos (XO
    (XI (XO (XO (XI (XO (XO (XO (XO (XO (XO (XO (XO (XO (XO (XO (XO (XO (XO
    (XO (XO (XO (XO (XO (XO (XO (XI (XO (XO (XO (XO
    XH)))))))))))))))))))))))))))))))) :: ((Npos (XO (XO (XO (XO (XO (XI (XO
    (XO (XO (XO (XO (XO (XO (XO (XO (XO (XO (XO (XO (XO (XO (XO (XO (XO (XO
    (XI (XI (XO (XI XH)))))))))))))))))))))))))))))) :: ((Npos (XI (XO (XO
    (XO (XO (XI (XO (XO (XI (XO (XO (XO (XO (XO (XO (XO (XO (XO (XO (XO (XO
    (XO (XO (XO (XO (XO (XI (XO (XO (XI (XO
    XH)))))))))))))))))))))))))))))))) :: ((Npos (XO (XI (XO (XO (XI (XI (XI
    (XO (XO (XO (XO (XO (XO (XO (XO (XO (XO (XO (XO (XO (XO (XO (XO (XO (XO
    (XO (XI (XO (XO (XO (XO XH)))))))))))))))))))))))))))))))) :: ((Npos (XO
    (XI (XO (XO (XI (XI (XO (XO (XO (XO (XO (XO (XO (XO (XO (XO (XO (XO (XO
    (XO (XO (XO (XO (XO (XO (XO (XI (XO (XO (XO (XO
    XH)))))))))))))))))))))))))))))))) :: ((Npos (XO (XO (XI (XO (XO (XO (XI
    (XI (XO (XO (XO (XO (XO (XO (XO (XO (XO (XO (XO (XO (XO (XO (XO (XO (XO
    (XO (XI (XO (XI (XO (XO XH)))))))))))))))))))))))))))))))) :: ((Npos (XI
    (XO (XO (XI (XO (XO (XO (XO (XI (XO (XO (XO (XO (XO (XO (XO (XO (XO (XO
    (XO (XO (XO (XO (XO (XO (XO (XI (XO (XO (XO (XO
    XH)))))))))))))))))))))))))))))))) :: ((Npos (XO (XI (XO (XO (XO (XI (XI
    (XO (XO (XO (XO (XO (XO (XO (XO (XO (XO (XO (XO (XO (XO (XO (XO (XO (XO
    (XO (XI (XO (XO (XO (XO XH)))))))))))))))))))))))))))))))) :: ((Npos (XO
    (XI (XO (XO (XO (XI (XO (XO (XO (XO (XO (XO (XO (XO (XO (XO (XO (XO (XO
    (XO (XO (XO (XO (XO (XO (XO (XI (XO (XO (XO (XO
    XH)))))))))))))))))))))))))))))))) :: ((Npos (XO (XO (XI (XO (XO (XI (XO
    (XI (XO (XO (XO (XO (XO (XO (XO (XO (XO (XO (XO (XO (XO (XO (XO (XO (XO
    (XO (XI (XO (XI (XO (XO XH)))))))))))))))))))))))))))))))) :: ((Npos (XO
    (XI (XO (XO (XO (XO (XO (XO (XO (XO (XO (XO (XO (XO (XO (XO (XO (XO (XO
    (XO (XO (XO (XO (XO (XO (XO (XI (XO (XO (XO (XO
    XH)))))))))))))))))))))))))))))))) :: ((Npos (XO (XI (XO (XO (XO (XO (XO
    (XI (XO (XO (XO (XO (XO (XO (XO (XO (XO (XO (XO (XO (XO (XO (XO (XO (XO
    (XO (XI (XO (XO (XO (XO XH)))))))))))))))))))))))))))))))) :: ((Npos (XO
    (XI (XO (XO (XO (XO (XI (XO (XO (XO (XO (XO (XO (XO (XO (XO (XO (XO (XO
    (XO (XO (XO (XO (XO (XO (XO (XI (XO (XO (XO (XO
    XH)))))))))))))))))))))))))))))))) :: ((Npos (XO (XO (XI (XO (XO (XI (XI
    (XI (XO (XO (XO (XO (XO (XO (XO (XO (XO (XO (XO (XO (XO (XO (XO (XO (XO
    (XO (XI (XO (XI (XO (XO XH)))))))))))))))))))))))))))))))) :: ((Npos (XI
    (XO (XI (XO (XO (XO (XO (XO (XI (XO (XO (XO (XO (XO (XO (XO (XO (XO (XO
    (XO (XO (XO (XO (XO (XO (XO (XI (XO (XI (XI
    XH))))))))))))))))))))))))))))))) :: ((Npos (XO (XI (XO (XI (XI (XO (XI
    (XO (XO (XO (XO (XO (XO (XO (XO (XO (XO (XO (XO (XO (XO (XO (XO (XO (XO
    (XO (XI (XO (XO (XO (XO XH)))))))))))))))))))))))))))))))) :: ((Npos (XO
    (XI (XO (XI (XI (XO (XO (XO (XO (XO (XO (XO (XO (XO (XO (XO (XO (XO (XO
    (XO (XO (XO (XO (XO (XO (XO (XI (XO (XO (XO (XO
    XH)))))))))))))))))))))))))))))))) :: ((Npos (XO (XO (XI (XO (XI (XO (XO
    (XI (XO (XO (XO (XO (XO (XO (XO (XO (XO (XO (XO (XO (XO (XO (XO (XO (XO
    (XO (XI (XO (XI (XO (XO XH)))))))))))))))))))))))))))))))) :: ((Npos (XI
    (XO (XO (XO (XO (XO (XI (XO (XI (XO (XO (XO (XO (XO (XO (XO (XO (XO (XO
    (XO (XO (XO (XO (XO (XO (XO (XI (XO (XI (XI (XO
    XH)))))))))))))))))))))))))))))))) :: ((Npos (XO (XI (XO (XI (XI (XI (XI
    (XO (XO (XO (XO (XO (XO (XO (XO (XO (XO (XO (XO (XO (XO (XO (XO (XO (XO
    (XO (XI (XO (XO (XO (XO XH)))))))))))))))))))))))))))))))) :: ((Npos (XO
    (XI (XO (XI (XI (XI (XO (XO (XO (XO (XO (XO (XO (XO (XO (XO (XO (XO (XO
    (XO (XO (XO (XO (XO (XO (XO (XI (XO (XO (XO (XO
    XH)))))))))))))))))))))))))))))))) :: ((Npos (XO (XO (XI (XO (XI (XO (XI
    (XI (XO (XO (XO (XO (XO (XO (XO (XO (XO (XO (XO (XO (XO (XO (XO (XO (XO
    (XO (XI (XO (XI (XO (XO XH)))))))))))))))))))))))))))))))) :: ((Npos (XI
    (XO (XO (XO (XI (XO (XO (XO (XI (XO (XO (XO (XO (XO (XO (XO (XO (XO (XO
    (XO (XO (XO (XO (XO (XO (XO (XI (XO (XI (XO (XO
    XH)))))))))))))))))))))))))))))))) :: ((Npos (XO (XI (XO (XI (XO (XI (XI
    (XO (XO (XO (XO (XO (XO (XO (XO (XO (XO (XO (XO (XO (XO (XO (XO (XO (XO
    (XO (XI (XO (XO (XO (XO XH)))))))))))))))))))))))))))))))) :: ((Npos (XO
    (XI (XO (XI (XO (XI (XO (XO (XO (XO (XO (XO (XO (XO (XO (XO (XO (XO (XO
    (XO (XO (XO (XO (XO (XO (XO (XI (XO (XO (XO (XO
    XH)))))))))))))))))))))))))))))))) :: ((Npos (XO (XO (XI (XO (XI (XI (XO
    (XI (XO (XO (XO (XO (XO (XO (XO (XO (XO (XO (XO (XO (XO (XO (XO (XO (XO
    (XO (XI (XO (XI (XO (XO XH)))))))))))))))))))))))))))))))) :: ((Npos (XO
    (XI (XO (XI (XO (XO (XO (XO (XO (XO (XO (XO (XO (XO (XO (XO (XO (XO (XO
    (XO (XO (XO (XO (XO (XO (XO (XI (XO (XO (XO (XO
    XH)))))))))))))))))))))))))))))))) :: ((Npos (XO (XI (XO (XI (XO (XO (XO
    (XI (XO (XO (XO (XO (XO (XO (XO (XO (XO (XO (XO (XO (XO (XO (XO (XO (XO
    (XO (XI (XO (XO (XO (XO XH)))))))))))))))))))))))))))))))) :: ((Npos (XO
    (XI (XO (XI (XO (XO (XI (XO (XO (XO (XO (XO (XO (XO (XO (XO (XO (XO (XO
    (XO (XO (XO (XO (XO (XO (XO (XI (XO (XO (XO (XO
    XH)))))))))))))))))))))))))))))))) :: ((Npos (XO (XO (XI (XO (XI (XI (XI
    (XI (XO (XO (XO (XO (XO (XO (XO (XO (XO (XO (XO (XO (XO (XO (XO (XO (XO
    (XO (XI (XO (XI (XO (XO XH)))))))))))))))))))))))))))))))) :: ((Npos (XI
    (XI (XO (XO (XO (XO (XO (XO (XI (XO (XO (XO (XO (XO (XO (XO (XO (XO (XO
    (XO (XO (XO (XO (XO (XO (XO (XI (XO (XI (XI
    XH))))))))))))))))))))))))))))))) :: ((Npos (XO (XI (XI (XO (XI (XO (XI
    (XO (XO (XO (XO (XO (XO (XO (XO (XO (XO (XO (XO (XO (XO (XO (XO (XO (XO
    (XO (XI (XO (XO (XO (XO XH)))))))))))))))))))))))))))))))) :: ((Npos (XO
    (XI (XI (XO (XI (XO (XO (XO (XO (XO (XO (XO (XO (XO (XO (XO (XO (XO (XO
    (XO (XO (XO (XO (XO (XO (XO (XI (XO (XO (XO (XO
    XH)))))))))))))))))))))))))))))))) :: (N0 :: ((Npos (XI (XO (XO (XO (XI
    (XI (XO (XO (XI (XO (XO (XO (XO (XO (XO (XO (XO (XO (XO (XO (XO (XO (XO
    (XO (XO (XO (XI (XO (XO (XI (XO
    XH)))))))))))))))))))))))))))))))) :: ((Npos (XO (XI (XI (XO (XI (XI (XI
    (XO (XO (XO (XO (XO (XO (XO (XO (XO (XO (XO (XO (XO (XO (XO (XO (XO (XO
    (XO (XI (XO (XO (XO (XO XH)))))))))))))))))))))))))))))))) :: ((Npos (XO
    (XI (XI (XO (XI (XI (XO (XO (XO (XO (XO (XO (XO (XO (XO (XO (XO (XO (XO
    (XO (XO (XO (XO (XO (XO (XO (XI (XO (XO (XO (XO
    XH)))))))))))))))))))))))))))))))) :: ((Npos (XO (XO (XI (XI (XO (XO (XI
    (XI (XO (XO (XO (XO (XO (XO (XO (XO (XO (XO (XO (XO (XO (XO (XO (XO (XO
    (XO (XI (XO (XI (XO (XO XH)))))))))))))))))))))))))))))))) :: ((Npos (XI
    (XO (XI (XI (XO (XO (XO (XO (XI (XO (XO (XO (XO (XO (XO (XO (XO (XO (XO
    (XO (XO (XO (XO (XO (XO (XO (XI (XO (XO (XO (XO
    XH)))))))))))))))))))))))))))))))) :: ((Npos (XO (XI (XI (XO (XO (XI (XI
    (XO (XO (XO (XO (XO (XO (XO (XO (XO (XO (XO (XO (XO (XO (XO (XO (XO (XO
    (XO (XI (XO (XO (XO (XO XH)))))))))))))))))))))))))))))))) :: ((Npos (XO
    (XI (XI (XO (XO (XI (XO (XO (XO (XO (XO (XO (XO (XO (XO (XO (XO (XO (XO
    (XO (XO (XO (XO (XO (XO (XO (XI (XO (XO (XO (XO
    XH)))))))))))))))))))))))))))))))) :: ((Npos (XO (XO (XI (XI (XO (XI (XO
    (XI (XO (XO (XO (XO (XO (XO (XO (XO (XO (XO (XO (XO (XO (XO (XO (XO (XO
    (XO (XI (XO (XI (XO (XO XH)))))))))))))))))))))))))))))))) :: ((Npos (XO
    (XI (XI (XO (XO (XO (XO (XO (XO (XO (XO (XO (XO (XO (XO (XO (XO (XO (XO
    (XO (XO (XO (XO (XO (XO (XO (XI (XO (XO (XO (XO
    XH)))))))))))))))))))))))))))))))) :: ((Npos (XO (XI (XI (XO (XO (XO (XO
    (XI (XO (XO (XO (XO (XO (XO (XO (XO (XO (XO (XO (XO (XO (XO (XO (XO (XO
    (XO (XI (XO (XO (XO (XO XH)))))))))))))))))))))))))))))))) :: ((Npos (XO
    (XI (XI (XO (XO (XO (XI (XO (XO (XO (XO (XO (XO (XO (XO (XO (XO (XO (XO
    (XO (XO (XO (XO (XO (XO (XO (XI (XO (XO (XO (XO
    XH)))))))))))))))))))))))))))))))) :: ((Npos (XO (XO (XI (XI (XO (XI (XI
    (XI (XO (XO (XO (XO (XO (XO (XO (XO (XO (XO (XO (XO (XO (XO (XO (XO (XO
    (XO (XI (XO (XI (XO (XO XH)))))))))))))))))))))))))))))))) :: ((Npos (XI
    (XI (XI (XO (XO (XO (XO (XO (XI (XO (XO (XO (XO (XO (XO (XO (XO (XO (XO
    (XO (XO (XO (XO (XO (XO (XO (XI (XO (XI (XI
    XH))))))))))))))))))))))))))))))) :: ((Npos (XO (XI (XI (XI (XI (XO (XI
    (XO (XO (XO (XO (XO (XO (XO (XO (XO (XO (XO (XO (XO (XO (XO (XO (XO (XO
    (XO (XI (XO (XO (XO (XO XH)))))))))))))))))))))))))))))))) :: ((Npos (XO
    (XI (XI (XI (XI (XO (XO (XO (XO (XO (XO (XO (XO (XO (XO (XO (XO (XO (XO
    (XO (XO (XO (XO (XO (XO (XO (XI (XO (XO (XO (XO
    XH)))))))))))))))))))))))))))))))) :: ((Npos (XO (XO (XI (XI (XI (XO (XO
    (XI (XO (XO (XO (XO (XO (XO (XO (XO (XO (XO (XO (XO (XO (XO (XO (XO (XO
    (XO (XI (XO (XI (XO (XO XH)))))))))))))))))))))))))))))))) :: ((Npos (XI
    (XO (XO (XO (XO (XI (XI (XO (XI (XO (XO (XO (XO (XO (XO (XO (XO (XO (XO
    (XO (XO (XO (XO (XO (XO (XO (XI (XO (XI (XI (XO
    XH)))))))))))))))))))))))))))))))) :: ((Npos (XO (XI (XI (XI (XI (XI (XI
    (XO (XO (XO (XO (XO (XO (XO (XO (XO (XO (XO (XO (XO (XO (XO (XO (XO (XO
    (XO (XI (XO (XO (XO (XO XH)))))))))))))))))))))))))))))))) :: ((Npos (XO
    (XI (XI (XI (XI (XI (XO (XO (XO (XO (XO (XO (XO (XO (XO (XO (XO (XO (XO
    (XO (XO (XO (XO (XO (XO (XO (XI (XO (XO (XO (XO
    XH)))))))))))))))))))))))))))))))) :: ((Npos (XO (XO (XI (XI (XI (XO (XI
    (XI (XO (XO (XO (XO (XO (XO (XO (XO (XO (XO (XO (XO (XO (XO (XO (XO (XO
    (XO (XI (XO (XI (XO (XO XH)))))))))))))))))))))))))))))))) :: ((Npos (XI
    (XO (XO (XI (XI (XO (XO (XO (XI (XO (XO (XO (XO (XO (XO (XO (XO (XO (XO
    (XO (XO (XO (XO (XO (XO (XO (XI (XO (XI (XO (XO
    XH)))))))))))))))))))))))))))))))) :: ((Npos (XO (XI (XI (XI (XO (XI (XI
    (XO (XO (XO (XO (XO (XO (XO (XO (XO (XO (XO (XO (XO (XO (XO (XO (XO (XO
    (XO (XI (XO (XO (XO (XO XH)))))))))))))))))))))))))))))))) :: ((Npos (XO
    (XI (XI (XI (XO (XI (XO (XO (XO (XO (XO (XO (XO (XO (XO (XO (XO (XO (XO
    (XO (XO (XO (XO (XO (XO (XO (XI (XO (XO (XO (XO
    XH)))))))))))))))))))))))))))))))) :: ((Npos (XO (XO (XI (XI (XI (XI (XO
    (XI (XO (XO (XO (XO (XO (XO (XO (XO (XO (XO (XO (XO (XO (XO (XO (XO (XO
    (XO (XI (XO (XI (XO (XO XH)))))))))))))))))))))))))))))))) :: ((Npos (XO
    (XI (XI (XI (XO (XO (XO (XO (XO (XO (XO (XO (XO (XO (XO (XO (XO (XO (XO
    (XO (XO (XO (XO (XO (XO (XO (XI (XO (XO (XO (XO
    XH)))))))))))))))))))))))))))))))) :: ((Npos (XO (XI (XI (XI (XO (XO (XO
    (XI (XO (XO (XO (XO (XO (XO (XO (XO (XO (XO (XO (XO (XO (XO (XO (XO (XO
    (XO (XI (XO (XO (XO (XO XH)))))))))))))))))))))))))))))))) :: ((Npos (XO
    (XI (XI (XI (XO (XO (XI (XO (XO (XO (XO (XO (XO (XO (XO (XO (XO (XO (XO
    (XO (XO (XO (XO (XO (XO (XO (XI (XO (XO (XO (XO
    XH)))))))))))))))))))))))))))))))) :: ((Npos (XO (XO (XI (XI (XI (XI (XI
    (XI (XO (XO (XO (XO (XO (XO (XO (XO (XO (XO (XO (XO (XO (XO (XO (XO (XO
    (XO (XI (XO (XI (XO (XO XH)))))))))))))))))))))))))))))))) :: ((Npos (XO
    (XO (XO (XO (XO (XO (XO (XO (XI (XO (XO (XO (XO (XO (XO (XO (XO (XO (XO
    (XO (XO (XO (XO (XO (XO (XO (XI (XO (XI (XI
    XH))))))))))))))))))))))))))))))) :: ((Npos (XI (XO (XO (XO (XI (XO (XI
    (XO (XO (XO (XO (XO (XO (XO (XO (XO (XO (XO (XO (XO (XO (XO (XO (XO (XO
    (XO (XI (XO (XO (XO (XO XH)))))))))))))))))))))))))))))))) :: ((Npos (XI
    (XO (XO (XO (XI (XO (XO (XO (XO (XO (XO (XO (XO (XO (XO (XO (XO (XO (XO
    (XO (XO (XO (XO (XO (XO (XO (XI (XO (XO (XO (XO
    XH)))))))))))))))))))))))))))))))) :: ((Npos (XO (XO (XO (XO (XO (XO (XO
    (XO (XO (XO (XO (XO (XO (XO (XO (XO (XO (XO (XO (XO (XO (XO (XO (XO (XO
    (XI (XI (XO (XI XH)))))))))))))))))))))))))))))) :: ((Npos (XO (XI (XI
    (XI (XI (XO (XO (XO (XI (XO (XO (XO (XO (XO (XO (XO (XO (XO (XO (XO (XO
    (XO (XO (XO (XO (XO (XI (XO (XI (XO (XO
    XH)))))))))))))))))))))))))))))))) :: ((Npos (XI (XO (XO (XO (XI (XI (XI
    (XO (XO (XO (XO (XO (XO (XO (XO (XO (XO (XO (XO (XO (XO (XO (XO (XO (XO
    (XO (XI (XO (XO (XO (XO XH)))))))))))))))))))))))))))))))) :: ((Npos (XI
    (XO (XO (XO (XI (XI (XO (XO (XO (XO (XO (XO (XO (XO (XO (XO (XO (XO (XO
    (XO (XO (XO (XO (XO (XO (XO (XI (XO (XO (XO (XO
    XH)))))))))))))))))))))))))))))))) :: ((Npos (XO (XI (XO (XO (XO (XO (XI
    (XI (XO (XO (XO (XO (XO (XO (XO (XO (XO (XO (XO (XO (XO (XO (XO (XO (XO
    (XO (XI (XO (XI (XO (XO XH)))))))))))))))))))))))))))))))) :: ((Npos (XO
    (XO (XO (XI (XO (XO (XO (XO (XI (XO (XO (XO (XO (XO (XO (XO (XO (XO (XO
    (XO (XO (XO (XO (XO (XO (XO (XI (XO (XI (XI
    XH))))))))))))))))))))))))))))))) :: ((Npos (XI (XO (XO (XO (XO (XI (XI
    (XO (XO (XO (XO (XO (XO (XO (XO (XO (XO (XO (XO (XO (XO (XO (XO (XO (XO
    (XO (XI (XO (XO (XO (XO XH)))))))))))))))))))))))))))))))) :: ((Npos (XI
    (XO (XO (XO (XO (XI (XO (XO (XO (XO (XO (XO (XO (XO (XO (XO (XO (XO (XO
    (XO (XO (XO (XO (XO (XO (XO (XI (XO (XO (XO (XO
    XH)))))))))))))))))))))))))))))))) :: ((Npos (XO (XI (XO (XO (XO (XI (XO
    (XI (XO (XO (XO (XO (XO (XO (XO (XO (XO (XO (XO (XO (XO (XO (XO (XO (XO
    (XO (XI (XO (XI (XO (XO XH)))))))))))))))))))))))))))))))) :: ((Npos (XI
    (XO (XO (XO (XO (XO (XO (XO (XO (XO (XO (XO (XO (XO (XO (XO (XO (XO (XO
    (XO (XO (XO (XO (XO (XO (XO (XI (XO (XO (XO (XO
    XH)))))))))))))))))))))))))))))))) :: ((Npos (XI (XO (XO (XO (XO (XO (XO
    (XI (XO (XO (XO (XO (XO (XO (XO (XO (XO (XO (XO (XO (XO (XO (XO (XO (XO
    (XO (XI (XO (XO (XO (XO XH)))))))))))))))))))))))))))))))) :: ((Npos (XI
    (XO (XO (XO (XO (XO (XI (XO (XO (XO (XO (XO (XO (XO (XO (XO (XO (XO (XO
    (XO (XO (XO (XO (XO (XO (XO (XI (XO (XO (XO (XO
    XH)))))))))))))))))))))))))))))))) :: ((Npos (XO (XI (XO (XO (XO (XI (XI
    (XI (XO (XO (XO (XO (XO (XO (XO (XO (XO (XO (XO (XO (XO (XO (XO (XO (XO
    (XO (XI (XO (XI (XO (XO XH)))))))))))))))))))))))))))))))) :: ((Npos (XO
    (XO (XI (XO (XO (XO (XO (XO (XI (XO (XO (XO (XO (XO (XO (XO (XO (XO (XO
    (XO (XO (XO (XO (XO (XO (XO (XI (XO (XI (XI
    XH))))))))))))))))))))))))))))))) :: ((Npos (XI (XO (XO (XI (XI (XO (XI
    (XO (XO (XO (XO (XO (XO (XO (XO (XO (XO (XO (XO (XO (XO (XO (XO (XO (XO
    (XO (XI (XO (XO (XO (XO XH)))))))))))))))))))))))))))))))) :: ((Npos (XI
    (XO (XO (XI (XI (XO (XO (XO (XO (XO (XO (XO (XO (XO (XO (XO (XO (XO (XO
    (XO (XO (XO (XO (XO (XO (XO (XI (XO (XO (XO (XO
    XH)))))))))))))))))))))))))))))))) :: ((Npos (XO (XI (XO (XO (XI (XO (XO
    (XI (XO (XO (XO (XO (XO (XO (XO (XO (XO (XO (XO (XO (XO (XO (XO (XO (XO
    (XO (XI (XO (XI (XO (XO XH)))))))))))))))))))))))))))))))) :: ((Npos (XO
    (XI (XO (XI (XI (XI (XO (XO (XI (XO (XO (XO (XO (XO (XO (XO (XO (XO (XO
    (XO (XO (XO (XO (XO (XO (XO (XI (XO (XO (XI (XO
    XH)))))))))))))))))))))))))))))))) :: ((Npos (XI (XO (XO (XI (XI (XI (XI
    (XO (XO (XO (XO (XO (XO (XO (XO (XO (XO (XO (XO (XO (XO (XO (XO (XO (XO
    (XO (XI (XO (XO (XO (XO XH)))))))))))))))))))))))))))))))) :: ((Npos (XI
    (XO (XO (XI (XI (XI (XO (XO (XO (XO (XO (XO (XO (XO (XO (XO (XO (XO (XO
    (XO (XO (XO (XO (XO (XO (XO (XI (XO (XO (XO (XO
    XH)))))))))))))))))))))))))))))))) :: ((Npos (XO (XI (XO (XO (XI (XO (XI
    (XI (XO (XO (XO (XO (XO (XO (XO (XO (XO (XO (XO (XO (XO (XO (XO (XO (XO
    (XO (XI (XO (XI (XO (XO XH)))))))))))))))))))))))))))))))) :: ((Npos (XO
    (XO (XO (XO (XI (XO (XO (XO (XI (XO (XO (XO (XO (XO (XO (XO (XO (XO (XO
    (XO (XO (XO (XO (XO (XO (XO (XI (XO (XO (XO (XO
    XH)))))))))))))))))))))))))))))))) :: ((Npos (XI (XO (XO (XI (XO (XI (XI
    (XO (XO (XO (XO (XO (XO (XO (XO (XO (XO (XO (XO (XO (XO (XO (XO (XO (XO
    (XO (XI (XO (XO (XO (XO XH)))))))))))))))))))))))))))))))) :: ((Npos (XI
    (XO (XO (XI (XO (XI (XO (XO (XO (XO (XO (XO (XO (XO (XO (XO (XO (XO (XO
    (XO (XO (XO (XO (XO (XO (XO (XI (XO (XO (XO (XO
    XH)))))))))))))))))))))))))))))))) :: ((Npos (XO (XI (XO (XO (XI (XI (XO
    (XI (XO (XO (XO (XO (XO (XO (XO (XO (XO (XO (XO (XO (XO (XO (XO (XO (XO
    (XO (XI (XO (XI (XO (XO XH)))))))))))))))))))))))))))))))) :: ((Npos (XI
    (XO (XO (XI (XO (XO (XO (XO (XO (XO (XO (XO (XO (XO (XO (XO (XO (XO (XO
    (XO (XO (XO (XO (XO (XO (XO (XI (XO (XO (XO (XO
    XH)))))))))))))))))))))))))))))))) :: ((Npos (XI (XO (XO (XI (XO (XO (XO
    (XI (XO (XO (XO (XO (XO (XO (XO (XO (XO (XO (XO (XO (XO (XO (XO (XO (XO
    (XO (XI (XO (XO (XO (XO XH)))))))))))))))))))))))))))))))) :: ((Npos (XI
    (XO (XO (XI (XO (XO (XI (XO (XO (XO (XO (XO (XO (XO (XO (XO (XO (XO (XO
    (XO (XO (XO (XO (XO (XO (XO (XI (XO (XO (XO (XO
    XH)))))))))))))))))))))))))))))))) :: ((Npos (XO (XI (XO (XO (XI (XI (XI
    (XI (XO (XO (XO (XO (XO (XO (XO (XO (XO (XO (XO (XO (XO (XO (XO (XO (XO
    (XO (XI (XO (XI (XO (XO XH)))))))))))))))))))))))))))))))) :: ((Npos (XO
    (XI (XO (XO (XO (XO (XO (XO (XI (XO (XO (XO (XO (XO (XO (XO (XO (XO (XO
    (XO (XO (XO (XO (XO (XO (XO (XI (XO (XI (XI
    XH))))))))))))))))))))))))))))))) :: ((Npos (XI (XO (XI (XO (XI (XO (XI
    (XO (XO (XO (XO (XO (XO (XO (XO (XO (XO (XO (XO (XO (XO (XO (XO (XO (XO
    (XO (XI (XO (XO (XO (XO XH)))))))))))))))))))))))))))))))) :: ((Npos (XI
    (XO (XI (XO (XI (XO (XO (XO (XO (XO (XO (XO (XO (XO (XO (XO (XO (XO (XO
    (XO (XO (XO (XO (XO (XO (XO (XI (XO (XO (XO (XO
    XH)))))))))))))))))))))))))))))))) :: ((Npos (XO (XO (XO (XO (XO (XO (XO
    (XO (XO (XI (XO (XO (XO (XO (XO (XO (XO (XO (XO (XO (XO (XO (XO (XO (XO
    (XO (XI (XO (XO (XO (XO XH)))))))))))))))))))))))))))))))) :: ((Npos (XO
    (XI (XO (XI (XO (XI (XO (XO (XI (XO (XO (XO (XO (XO (XO (XO (XO (XO (XO
    (XO (XO (XO (XO (XO (XO (XO (XI (XO (XO (XI (XO
    XH)))))))))))))))))))))))))))))))) :: ((Npos (XI (XO (XI (XO (XI (XI (XI
    (XO (XO (XO (XO (XO (XO (XO (XO (XO (XO (XO (XO (XO (XO (XO (XO (XO (XO
    (XO (XI (XO (XO (XO (XO XH)))))))))))))))))))))))))))))))) :: ((Npos (XI
    (XO (XI (XO (XI (XI (XO (XO (XO (XO (XO (XO (XO (XO (XO (XO (XO (XO (XO
    (XO (XO (XO (XO (XO (XO (XO (XI (XO (XO (XO (XO
    XH)))))))))))))))))))))))))))))))) :: ((Npos (XO (XI (XO (XI (XO (XO (XI
    (XI (XO (XO (XO (XO (XO (XO (XO (XO (XO (XO (XO (XO (XO (XO (XO (XO (XO
    (XO (XI (XO (XI (XO (XO XH)))))))))))))))))))))))))))))))) :: ((Npos (XO
    (XO (XI (XI (XO (XO (XO (XO (XI (XO (XO (XO (XO (XO (XO (XO (XO (XO (XO
    (XO (XO (XO (XO (XO (XO (XO (XI (XO (XO (XO (XO
    XH)))))))))))))))))))))))))))))))) :: ((Npos (XI (XO (XI (XO (XO (XI (XI
    (XO (XO (XO (XO (XO (XO (XO (XO (XO (XO (XO (XO (XO (XO (XO (XO (XO (XO
    (XO (XI (XO (XO (XO (XO XH)))))))))))))))))))))))))))))))) :: ((Npos (XI
    (XO (XI (XO (XO (XI (XO (XO (XO (XO (XO (XO (XO (XO (XO (XO (XO (XO (XO
    (XO (XO (XO (XO (XO (XO (XO (XI (XO (XO (XO (XO
    XH)))))))))))))))))))))))))))))))) :: ((Npos (XO (XI (XO (XI (XO (XI (XO
    (XI (XO (XO (XO (XO (XO (XO (XO (XO (XO (XO (XO (XO (XO (XO (XO (XO (XO
    (XO (XI (XO (XI (XO (XO XH)))))))))))))))))))))))))))))))) :: ((Npos (XI
    (XO (XI (XO (XO (XO (XO (XO (XO (XO (XO (XO (XO (XO (XO (XO (XO (XO (XO
    (XO (XO (XO (XO (XO (XO (XO (XI (XO (XO (XO (XO
    XH)))))))))))))))))))))))))))))))) :: ((Npos (XI (XO (XI (XO (XO (XO (XO
    (XI (XO (XO (XO (XO (XO (XO (XO (XO (XO (XO (XO (XO (XO (XO (XO (XO (XO
    (XO (XI (XO (XO (XO (XO XH)))))))))))))))))))))))))))))))) :: ((Npos (XI
    (XO (XI (XO (XO (XO (XI (XO (XO (XO (XO (XO (XO (XO (XO (XO (XO (XO (XO
    (XO (XO (XO (XO (XO (XO (XO (XI (XO (XO (XO (XO
    XH)))))))))))))))))))))))))))))))) :: ((Npos (XO (XI (XO (XI (XO (XI (XI
    (XI (XO (XO (XO (XO (XO (XO (XO (XO (XO (XO (XO (XO (XO (XO (XO (XO (XO
    (XO (XI (XO (XI (XO (XO XH)))))))))))))))))))))))))))))))) :: ((Npos (XO
    (XI (XI (XO (XO (XO (XO (XO (XI (XO (XO (XO (XO (XO (XO (XO (XO (XO (XO
    (XO (XO (XO (XO (XO (XO (XO (XI (XO (XI (XI
    XH))))))))))))))))))))))))))))))) :: ((Npos (XI (XO (XI (XI (XI (XO (XI
    (XO (XO (XO (XO (XO (XO (XO (XO (XO (XO (XO (XO (XO (XO (XO (XO (XO (XO
    (XO (XI (XO (XO (XO (XO XH)))))))))))))))))))))))))))))))) :: ((Npos (XI
    (XO (XI (XI (XI (XO (XO (XO (XO (XO (XO (XO (XO (XO (XO (XO (XO (XO (XO
    (XO (XO (XO (XO (XO (XO (XO (XI (XO (XO (XO (XO
    XH)))))))))))))))))))))))))))))))) :: ((Npos (XO (XI (XO (XI (XI (XO (XO
    (XI (XO (XO (XO (XO (XO (XO (XO (XO (XO (XO (XO (XO (XO (XO (XO (XO (XO
    (XO (XI (XO (XI (XO (XO XH)))))))))))))))))))))))))))))))) :: ((Npos (XO
    (XI (XO (XO (XI (XO (XI (XO (XI (XO (XO (XO (XO (XO (XO (XO (XO (XO (XO
    (XO (XO (XO (XO (XO (XO (XO (XI (XO (XI (XI (XO
    XH)))))))))))))))))))))))))))))))) :: ((Npos (XI (XO (XI (XI (XI (XI (XI
    (XO (XO (XO (XO (XO (XO (XO (XO (XO (XO (XO (XO (XO (XO (XO (XO (XO (XO
    (XO (XI (XO (XO (XO (XO XH)))))))))))))))))))))))))))))))) :: ((Npos (XI
    (XO (XI (XI (XI (XI (XO (XO (XO (XO (XO (XO (XO (XO (XO (XO (XO (XO (XO
    (XO (XO (XO (XO (XO (XO (XO (XI (XO (XO (XO (XO
    XH)))))))))))))))))))))))))))))))) :: ((Npos (XO (XI (XO (XI (XI (XO (XI
    (XI (XO (XO (XO (XO (XO (XO (XO (XO (XO (XO (XO (XO (XO (XO (XO (XO (XO
    (XO (XI (XO (XI (XO (XO XH)))))))))))))))))))))))))))))))) :: ((Npos (XO
    (XI (XI (XO (XI (XO (XO (XO (XI (XO (XO (XO (XO (XO (XO (XO (XO (XO (XO
    (XO (XO (XO (XO (XO (XO (XO (XI (XO (XI (XO (XO
    XH)))))))))))))))))))))))))))))))) :: ((Npos (XI (XO (XI (XI (XO (XI (XI
    (XO (XO (XO (XO (XO (XO (XO (XO (XO (XO (XO (XO (XO (XO (XO (XO (XO (XO
    (XO (XI (XO (XO (XO (XO XH)))))))))))))))))))))))))))))))) :: ((Npos (XI
    (XO (XI (XI (XO (XI (XO (XO (XO (XO (XO (XO (XO (XO (XO (XO (XO (XO (XO
    (XO (XO (XO (XO (XO (XO (XO (XI (XO (XO (XO (XO
    XH)))))))))))))))))))))))))))))))) :: ((Npos (XO (XI (XO (XI (XI (XI (XO
    (XI (XO (XO (XO (XO (XO (XO (XO (XO (XO (XO (XO (XO (XO (XO (XO (XO (XO
    (XO (XI (XO (XI (XO (XO XH)))))))))))))))))))))))))))))))) :: ((Npos (XI
    (XO (XI (XI (XO (XO (XO (XO (XO (XO (XO (XO (XO (XO (XO (XO (XO (XO (XO
    (XO (XO (XO (XO (XO (XO (XO (XI (XO (XO (XO (XO
    XH)))))))))))))))))))))))))))))))) :: ((Npos (XI (XO (XI (XI (XO (XO (XO
    (XI (XO (XO (XO (XO (XO (XO (XO (XO (XO (XO (XO (XO (XO (XO (XO (XO (XO
    (XO (XI (XO (XO (XO (XO XH)))))))))))))))))))))))))))))))) :: ((Npos (XI
    (XO (XI (XI (XO (XO (XI (XO (XO (XO (XO (XO (XO (XO (XO (XO (XO (XO (XO
    (XO (XO (XO (XO (XO (XO (XO (XI (XO (XO (XO (XO
    XH)))))))))))))))))))))))))))))))) :: ((Npos (XO (XI (XO (XI (XI (XI (XI
    (XI (XO (XO (XO (XO (XO (XO (XO (XO (XO (XO (XO (XO (XO (XO (XO (XO (XO
    (XO (XI (XO (XI (XO (XO XH)))))))))))))))))))))))))))))))) :: ((Npos (XI
    (XO (XO (XO (XO (XO (XO (XO (XI (XO (XO (XO (XO (XO (XO (XO (XO (XO (XO
    (XO (XO (XO (XO (XO (XO (XO (XI (XO (XI (XI
    XH))))))))))))))))))))))))))))))) :: ((Npos (XI (XI (XO (XO (XI (XO (XI
    (XO (XO (XO (XO (XO (XO (XO (XO (XO (XO (XO (XO (XO (XO (XO (XO (XO (XO
    (XO (XI (XO (XO (XO (XO XH)))))))))))))))))))))))))))))))) :: ((Npos (XI
    (XI (XO (XO (XI (XO (XO (XO (XO (XO (XO (XO (XO (XO (XO (XO (XO (XO (XO
    (XO (XO (XO (XO (XO (XO (XO (XI (XO (XO (XO (XO
    XH)))))))))))))))))))))))))))))))) :: ((Npos (XO (XO (XO (XO (XO (XO (XI
    (XO (XO (XO (XO (XO (XO (XO (XO (XO (XO (XO (XO (XO (XO (XO (XO (XO (XO
    (XI (XI (XO (XI XH)))))))))))))))))))))))))))))) :: ((Npos (XO (XI (XO
    (XO (XO (XI (XO (XO (XI (XO (XO (XO (XO (XO (XO (XO (XO (XO (XO (XO (XO
    (XO (XO (XO (XO (XO (XI (XO (XO (XI (XO
    XH)))))))))))))))))))))))))))))))) :: ((Npos (XI (XI (XO (XO (XI (XI (XI
    (XO (XO (XO (XO (XO (XO (XO (XO (XO (XO (XO (XO (XO (XO (XO (XO (XO (XO
    (XO (XI (XO (XO (XO (XO XH)))))))))))))))))))))))))))))))) :: ((Npos (XI
    (XI (XO (XO (XI (XI (XO (XO (XO (XO (XO (XO (XO (XO (XO (XO (XO (XO (XO
    (XO (XO (XO (XO (XO (XO (XO (XI (XO (XO (XO (XO
    XH)))))))))))))))))))))))))))))))) :: ((Npos (XO (XI (XI (XO (XO (XO (XI
    (XI (XO (XO (XO (XO (XO (XO (XO (XO (XO (XO (XO (XO (XO (XO (XO (XO (XO
    (XO (XI (XO (XI (XO (XO XH)))))))))))))))))))))))))))))))) :: ((Npos (XO
    (XI (XO (XI (XO (XO (XO (XO (XI (XO (XO (XO (XO (XO (XO (XO (XO (XO (XO
    (XO (XO (XO (XO (XO (XO (XO (XI (XO (XO (XO (XO
    XH)))))))))))))))))))))))))))))))) :: ((Npos (XI (XI (XO (XO (XO (XI (XI
    (XO (XO (XO (XO (XO (XO (XO (XO (XO (XO (XO (XO (XO (XO (XO (XO (XO (XO
    (XO (XI (XO (XO (XO (XO XH)))))))))))))))))))))))))))))))) :: ((Npos (XI
    (XI (XO (XO (XO (XI (XO (XO (XO (XO (XO (XO (XO (XO (XO (XO (XO (XO (XO
    (XO (XO (XO (XO (XO (XO (XO (XI (XO (XO (XO (XO
    XH)))))))))))))))))))))))))))))))) :: ((Npos (XO (XI (XI (XO (XO (XI (XO
    (XI (XO (XO (XO (XO (XO (XO (XO (XO (XO (XO (XO (XO (XO (XO (XO (XO (XO
    (XO (XI (XO (XI (XO (XO XH)))))))))))))))))))))))))))))))) :: ((Npos (XI
    (XI (XO (XO (XO (XO (XO (XO (XO (XO (XO (XO (XO (XO (XO (XO (XO (XO (XO
    (XO (XO (XO (XO (XO (XO (XO (XI (XO (XO (XO (XO
    XH)))))))))))))))))))))))))))))))) :: ((Npos (XI (XI (XO (XO (XO (XO (XO
    (XI (XO (XO (XO (XO (XO (XO (XO (XO (XO (XO (XO (XO (XO (XO (XO (XO (XO
    (XO (XI (XO (XO (XO (XO XH)))))))))))))))))))))))))))))))) :: ((Npos (XI
    (XI (XO (XO (XO (XO (XI (XO (XO (XO (XO (XO (XO (XO (XO (XO (XO (XO (XO
    (XO (XO (XO (XO (XO (XO (XO (XI (XO (XO (XO (XO
    XH)))))))))))))))))))))))))))))))) :: ((Npos (XO (XI (XI (XO (XO (XI (XI
    (XI (XO (XO (XO (XO (XO (XO (XO (XO (XO (XO (XO (XO (XO (XO (XO (XO (XO
    (XO (XI (XO (XI (XO (XO XH)))))))))))))))))))))))))))))))) :: ((Npos (XI
    (XO (XI (XO (XO (XO (XO (XO (XI (XO (XO (XO (XO (XO (XO (XO (XO (XO (XO
    (XO (XO (XO (XO (XO (XO (XO (XI (XO (XI (XI
    XH))))))))))))))))))))))))))))))) :: ((Npos (XI (XI (XO (XI (XI (XO (XI
    (XO (XO (XO (XO (XO (XO (XO (XO (XO (XO (XO (XO (XO (XO (XO (XO (XO (XO
    (XO (XI (XO (XO (XO (XO XH)))))))))))))))))))))))))))))))) :: ((Npos (XI
    (XI (XO (XI (XI (XO (XO (XO (XO (XO (XO (XO (XO (XO (XO (XO (XO (XO (XO
    (XO (XO (XO (XO (XO (XO (XO (XI (XO (XO (XO (XO
    XH)))))))))))))))))))))))))))))))) :: ((Npos (XO (XI (XI (XO (XI (XO (XO
    (XI (XO (XO (XO (XO (XO (XO (XO (XO (XO (XO (XO (XO (XO (XO (XO (XO (XO
    (XO (XI (XO (XI (XO (XO XH)))))))))))))))))))))))))))))))) :: ((Npos (XO
    (XI (XO (XO (XO (XO (XI (XO (XI (XO (XO (XO (XO (XO (XO (XO (XO (XO (XO
    (XO (XO (XO (XO (XO (XO (XO (XI (XO (XI (XI (XO
    XH)))))))))))))))))))))))))))))))) :: ((Npos (XI (XI (XO (XI (XI (XI (XI
    (XO (XO (XO (XO (XO (XO (XO (XO (XO (XO (XO (XO (XO (XO (XO (XO (XO (XO
    (XO (XI (XO (XO (XO (XO XH)))))))))))))))))))))))))))))))) :: ((Npos (XI
    (XI (XO (XI (XI (XI (XO (XO (XO (XO (XO (XO (XO (XO (XO (XO (XO (XO (XO
    (XO (XO (XO (XO (XO (XO (XO (XI (XO (XO (XO (XO
    XH)))))))))))))))))))))))))))))))) :: ((Npos (XO (XI (XI (XO (XI (XO (XI
    (XI (XO (XO (XO (XO (XO (XO (XO (XO (XO (XO (XO (XO (XO (XO (XO (XO (XO
    (XO (XI (XO (XI (XO (XO XH)))))))))))))))))))))))))))))))) :: ((Npos (XO
    (XI (XO (XO (XI (XO (XO (XO (XI (XO (XO (XO (XO (XO (XO (XO (XO (XO (XO
    (XO (XO (XO (XO (XO (XO (XO (XI (XO (XI (XO (XO
    XH)))))))))))))))))))))))))))))))) :: ((Npos (XI (XI (XO (XI (XO (XI (XI
    (XO (XO (XO (XO (XO (XO (XO (XO (XO (XO (XO (XO (XO (XO (XO (XO (XO (XO
    (XO (XI (XO (XO (XO (XO XH)))))))))))))))))))))))))))))))) :: ((Npos (XI
    (XI (XO (XI (XO (XI (XO (XO (XO (XO (XO (XO (XO (XO (XO (XO (XO (XO (XO
    (XO (XO (XO (XO (XO (XO (XO (XI (XO (XO (XO (XO
    XH)))))))))))))))))))))))))))))))) :: ((Npos (XO (XI (XI (XO (XI (XI (XO
    (XI (XO (XO (XO (XO (XO (XO (XO (XO (XO (XO (XO (XO (XO (XO (XO (XO (XO
    (XO (XI (XO (XI (XO (XO XH)))))))))))))))))))))))))))))))) :: ((Npos (XI
    (XI (XO (XI (XO (XO (XO (XO (XO (XO (XO (XO (XO (XO (XO (XO (XO (XO (XO
    (XO (XO (XO (XO (XO (XO (XO (XI (XO (XO (XO (XO
    XH)))))))))))))))))))))))))))))))) :: ((Npos (XI (XI (XO (XI (XO (XO (XO
    (XI (XO (XO (XO (XO (XO (XO (XO (XO (XO (XO (XO (XO (XO (XO (XO (XO (XO
    (XO (XI (XO (XO (XO (XO XH)))))))))))))))))))))))))))))))) :: ((Npos (XI
    (XI (XO (XI (XO (XO (XI (XO (XO (XO (XO (XO (XO (XO (XO (XO (XO (XO (XO
    (XO (XO (XO (XO (XO (XO (XO (XI (XO (XO (XO (XO
    XH)))))))))))))))))))))))))))))))) :: ((Npos (XO (XI (XI (XO (XI (XI (XI
    (XI (XO (XO (XO (XO (XO (XO (XO (XO (XO (XO (XO (XO (XO (XO (XO (XO (XO
    (XO (XI (XO (XI (XO (XO XH)))))))))))))))))))))))))))))))) :: ((Npos (XI
    (XI (XO (XO (XO (XO (XO (XO (XI (XO (XO (XO (XO (XO (XO (XO (XO (XO (XO
    (XO (XO (XO (XO (XO (XO (XO (XI (XO (XI (XI
    XH))))))))))))))))))))))))))))))) :: ((Npos (XI (XI (XI (XO (XI (XO (XI
    (XO (XO (XO (XO (XO (XO (XO (XO (XO (XO (XO (XO (XO (XO (XO (XO (XO (XO
    (XO (XI (XO (XO (XO (XO XH)))))))))))))))))))))))))))))))) :: ((Npos (XI
    (XI (XI (XO (XI (XO (XO (XO (XO (XO (XO (XO (XO (XO (XO (XO (XO (XO (XO
    (XO (XO (XO (XO (XO (XO (XO (XI (XO (XO (XO (XO
    XH)))))))))))))))))))))))))))))))) :: (N0 :: ((Npos (XO (XI (XO (XO (XI
    (XI (XO (XO (XI (XO (XO (XO (XO (XO (XO (XO (XO (XO (XO (XO (XO (XO (XO
    (XO (XO (XO (XI (XO (XO (XI (XO
    XH)))))))))))))))))))))))))))))))) :: ((Npos (XI (XI (XI (XO (XI (XI (XI
    (XO (XO (XO (XO (XO (XO (XO (XO (XO (XO (XO (XO (XO (XO (XO (XO (XO (XO
    (XO (XI (XO (XO (XO (XO XH)))))))))))))))))))))))))))))))) :: ((Npos (XI
    (XI (XI (XO (XI (XI (XO (XO (XO (XO (XO (XO (XO (XO (XO (XO (XO (XO (XO
    (XO (XO (XO (XO (XO (XO (XO (XI (XO (XO (XO (XO
    XH)))))))))))))))))))))))))))))))) :: ((Npos (XO (XI (XI (XI (XO (XO (XI
    (XI (XO (XO (XO (XO (XO (XO (XO (XO (XO (XO (XO (XO (XO (XO (XO (XO (XO
    (XO (XI (XO (XI (XO (XO XH)))))))))))))))))))))))))))))))) :: ((Npos (XO
    (XI (XI (XI (XO (XO (XO (XO (XI (XO (XO (XO (XO (XO (XO (XO (XO (XO (XO
    (XO (XO (XO (XO (XO (XO (XO (XI (XO (XO (XO (XO
    XH)))))))))))))))))))))))))))))))) :: ((Npos (XI (XI (XI (XO (XO (XI (XI
    (XO (XO (XO (XO (XO (XO (XO (XO (XO (XO (XO (XO (XO (XO (XO (XO (XO (XO
    (XO (XI (XO (XO (XO (XO XH)))))))))))))))))))))))))))))))) :: ((Npos (XI
    (XI (XI (XO (XO (XI (XO (XO (XO (XO (XO (XO (XO (XO (XO (XO (XO (XO (XO
    (XO (XO (XO (XO (XO (XO (XO (XI (XO (XO (XO (XO
    XH)))))))))))))))))))))))))))))))) :: ((Npos (XO (XI (XI (XI (XO (XI (XO
    (XI (XO (XO (XO (XO (XO (XO (XO (XO (XO (XO (XO (XO (XO (XO (XO (XO (XO
    (XO (XI (XO (XI (XO (XO XH)))))))))))))))))))))))))))))))) :: ((Npos (XI
    (XI (XI (XO (XO (XO (XO (XO (XO (XO (XO (XO (XO (XO (XO (XO (XO (XO (XO
    (XO (XO (XO (XO (XO (XO (XO (XI (XO (XO (XO (XO
    XH)))))))))))))))))))))))))))))))) :: ((Npos (XI (XI (XI (XO (XO (XO (XO
    (XI (XO (XO (XO (XO (XO (XO (XO (XO (XO (XO (XO (XO (XO (XO (XO (XO (XO
    (XO (XI (XO (XO (XO (XO XH)))))))))))))))))))))))))))))))) :: ((Npos (XI
    (XI (XI (XO (XO (XO (XI (XO (XO (XO (XO (XO (XO (XO (XO (XO (XO (XO (XO
    (XO (XO (XO (XO (XO (XO (XO (XI (XO (XO (XO (XO
    XH)))))))))))))))))))))))))))))))) :: ((Npos (XO (XI (XI (XI (XO (XI (XI
    (XI (XO (XO (XO (XO (XO (XO (XO (XO (XO (XO (XO (XO (XO (XO (XO (XO (XO
    (XO (XI (XO (XI (XO (XO XH)))))))))))))))))))))))))))))))) :: ((Npos (XI
    (XI (XI (XO (XO (XO (XO (XO (XI (XO (XO (XO (XO (XO (XO (XO (XO (XO (XO
    (XO (XO (XO (XO (XO (XO (XO (XI (XO (XI (XI
    XH))))))))))))))))))))))))))))))) :: ((Npos (XI (XI (XI (XI (XI (XO (XI
    (XO (XO (XO (XO (XO (XO (XO (XO (XO (XO (XO (XO (XO (XO (XO (XO (XO (XO
    (XO (XI (XO (XO (XO (XO XH)))))))))))))))))))))))))))))))) :: ((Npos (XI
    (XI (XI (XI (XI (XO (XO (XO (XO (XO (XO (XO (XO (XO (XO (XO (XO (XO (XO
    (XO (XO (XO (XO (XO (XO (XO (XI (XO (XO (XO (XO
    XH)))))))))))))))))))))))))))))))) :: ((Npos (XO (XI (XI (XI (XI (XO (XO
    (XI (XO (XO (XO (XO (XO (XO (XO (XO (XO (XO (XO (XO (XO (XO (XO (XO (XO
    (XO (XI (XO (XI (XO (XO XH)))))))))))))))))))))))))))))))) :: ((Npos (XO
    (XI (XO (XO (XO (XI (XI (XO (XI (XO (XO (XO (XO (XO (XO (XO (XO (XO (XO
    (XO (XO (XO (XO (XO (XO (XO (XI (XO (XI (XI (XO
    XH)))))))))))))))))))))))))))))))) :: ((Npos (XI (XI (XI (XI (XI (XI (XI
    (XO (XO (XO (XO (XO (XO (XO (XO (XO (XO (XO (XO (XO (XO (XO (XO (XO (XO
    (XO (XI (XO (XO (XO (XO XH)))))))))))))))))))))))))))))))) :: ((Npos (XI
    (XI (XI (XI (XI (XI (XO (XO (XO (XO (XO (XO (XO (XO (XO (XO (XO (XO (XO
    (XO (XO (XO (XO (XO (XO (XO (XI (XO (XO (XO (XO
    XH)))))))))))))))))))))))))))))))) :: ((Npos (XO (XI (XI (XI (XI (XO (XI
    (XI (XO (XO (XO (XO (XO (XO (XO (XO (XO (XO (XO (XO (XO (XO (XO (XO (XO
    (XO (XI (XO (XI (XO (XO XH)))))))))))))))))))))))))))))))) :: ((Npos (XO
    (XI (XO (XI (XI (XO (XO (XO (XI (XO (XO (XO (XO (XO (XO (XO (XO (XO (XO
    (XO (XO (XO (XO (XO (XO (XO (XI (XO (XI (XO (XO
    XH)))))))))))))))))))))))))))))))) :: ((Npos (XI (XI (XI (XI (XO (XI (XI
    (XO (XO (XO (XO (XO (XO (XO (XO (XO (XO (XO (XO (XO (XO (XO (XO (XO (XO
    (XO (XI (XO (XO (XO (XO XH)))))))))))))))))))))))))))))))) :: ((Npos (XI
    (XI (XI (XI (XO (XI (XO (XO (XO (XO (XO (XO (XO (XO (XO (XO (XO (XO (XO
    (XO (XO (XO (XO (XO (XO (XO (XI (XO (XO (XO (XO
    XH)))))))))))))))))))))))))))))))) :: ((Npos (XO (XI (XI (XI (XI (XI (XO
    (XI (XO (XO (XO (XO (XO (XO (XO (XO (XO (XO (XO (XO (XO (XO (XO (XO (XO
    (XO (XI (XO (XI (XO (XO XH)))))))))))))))))))))))))))))))) :: ((Npos (XI
    (XI (XI (XI (XO (XO (XO (XO (XO (XO (XO (XO (XO (XO (XO (XO (XO (XO (XO
    (XO (XO (XO (XO (XO (XO (XO (XI (XO (XO (XO (XO
    XH)))))))))))))))))))))))))))))))) :: ((Npos (XI (XI (XI (XI (XO (XO (XO
    (XI (XO (XO (XO (XO (XO (XO (XO (XO (XO (XO (XO (XO (XO (XO (XO (XO (XO
    (XO (XI (XO (XO (XO (XO XH)))))))))))))))))))))))))))))))) :: ((Npos (XI
    (XI (XI (XI (XO (XO (XI (XO (XO (XO (XO (XO (XO (XO (XO (XO (XO (XO (XO
    (XO (XO (XO (XO (XO (XO (XO (XI (XO (XO (XO (XO
    XH)))))))))))))))))))))))))))))))) :: ((Npos (XO (XI (XI (XI (XI (XI (XI
    (XI (XO (XO (XO (XO (XO (XO (XO (XO (XO (XO (XO (XO (XO (XO (XO (XO (XO
    (XO (XI (XO (XI (XO (XO XH)))))))))))))))))))))))))))))))) :: ((Npos (XO
    (XO (XO (XO (XO (XO (XO (XO (XI (XO (XO (XO (XO (XO (XO (XO (XO (XO (XO
    (XO (XO (XO (XO (XO (XO (XO (XI (XO (XI (XI
    XH))))))))))))))))))))))))))))))) :: ((Npos (XO (XO (XO (XO (XI (XO (XI
    (XO (XO (XO (XO (XO (XO (XO (XO (XO (XO (XO (XO (XO (XO (XO (XO (XO (XO
    (XO (XI (XO (XO (XO (XO XH)))))))))))))))))))))))))))))))) :: ((Npos (XO
    (XO (XO (XO (XI (XO (XO (XO (XO (XO (XO (XO (XO (XO (XO (XO (XO (XO (XO
    (XO (XO (XO (XO (XO (XO (XO (XI (XO (XO (XO (XO
    XH)))))))))))))))))))))))))))))))) :: ((Npos (XO (XI (XO (XO (XI (XI (XI
    (XO (XI (XO (XO (XO (XO (XO (XO (XO (XO (XO (XO (XO (XO (XO (XO (XO (XO
    (XO (XI (XO (XO (XO (XI XH)))))))))))))))))))))))))))))))) :: ((Npos (XI
    (XI (XI (XI (XI (XO (XO (XO (XI (XO (XO (XO (XO (XO (XO (XO (XO (XO (XO
    (XO (XO (XO (XO (XO (XO (XO (XI (XO (XI (XO (XO
    XH)))))))))))))))))))))))))))))))) :: ((Npos (XO (XO (XO (XO (XI (XI (XI
    (XO (XO (XO (XO (XO (XO (XO (XO (XO (XO (XO (XO (XO (XO (XO (XO (XO (XO
    (XO (XI (XO (XO (XO (XO XH)))))))))))))))))))))))))))))))) :: ((Npos (XO
    (XO (XO (XO (XI (XI (XO (XO (XO (XO (XO (XO (XO (XO (XO (XO (XO (XO (XO
    (XO (XO (XO (XO (XO (XO (XO (XI (XO (XO (XO (XO
    XH)))))))))))))))))))))))))))))))) :: ((Npos (XI (XO (XO (XO (XO (XO (XI
    (XI (XO (XO (XO (XO (XO (XO (XO (XO (XO (XO (XO (XO (XO (XO (XO (XO (XO
    (XO (XI (XO (XI (XO (XO XH)))))))))))))))))))))))))))))))) :: ((Npos (XO
    (XO (XO (XI (XO (XO (XO (XO (XI (XO (XO (XO (XO (XO (XO (XO (XO (XO (XO
    (XO (XO (XO (XO (XO (XO (XO (XI (XO (XI (XI
    XH))))))))))))))))))))))))))))))) :: ((Npos (XO (XO (XO (XO (XO (XI (XI
    (XO (XO (XO (XO (XO (XO (XO (XO (XO (XO (XO (XO (XO (XO (XO (XO (XO (XO
    (XO (XI (XO (XO (XO (XO XH)))))))))))))))))))))))))))))))) :: ((Npos (XO
    (XO (XO (XO (XO (XI (XO (XO (XO (XO (XO (XO (XO (XO (XO (XO (XO (XO (XO
    (XO (XO (XO (XO (XO (XO (XO (XI (XO (XO (XO (XO
    XH)))))))))))))))))))))))))))))))) :: ((Npos (XI (XO (XO (XO (XO (XI (XO
    (XI (XO (XO (XO (XO (XO (XO (XO (XO (XO (XO (XO (XO (XO (XO (XO (XO (XO
    (XO (XI (XO (XI (XO (XO XH)))))))))))))))))))))))))))))))) :: ((Npos (XO
    (XO (XO (XO (XO (XO (XO (XO (XO (XO (XO (XO (XO (XO (XO (XO (XO (XO (XO
    (XO (XO (XO (XO (XO (XO (XO (XI (XO (XO (XO (XO
    XH)))))))))))))))))))))))))))))))) :: ((Npos (XO (XO (XO (XO (XO (XO (XO
    (XI (XO (XO (XO (XO (XO (XO (XO (XO (XO (XO (XO (XO (XO (XO (XO (XO (XO
    (XO (XI (XO (XO (XO (XO XH)))))))))))))))))))))))))))))))) :: ((Npos (XO
    (XO (XO (XO (XO (XO (XI (XO (XO (XO (XO (XO (XO (XO (XO (XO (XO (XO (XO
    (XO (XO (XO (XO (XO (XO (XO (XI (XO (XO (XO (XO
    XH)))))))))))))))))))))))))))))))) :: ((Npos (XI (XO (XO (XO (XO (XI (XI
    (XI (XO (XO (XO (XO (XO (XO (XO (XO (XO (XO (XO (XO (XO (XO (XO (XO (XO
    (XO (XI (XO (XI (XO (XO XH)))))))))))))))))))))))))))))))) :: ((Npos (XO
    (XO (XI (XO (XO (XO (XO (XO (XI (XO (XO (XO (XO (XO (XO (XO (XO (XO (XO
    (XO (XO (XO (XO (XO (XO (XO (XI (XO (XI (XI
    XH))))))))))))))))))))))))))))))) :: ((Npos (XO (XO (XO (XI (XI (XO (XI
    (XO (XO (XO (XO (XO (XO (XO (XO (XO (XO (XO (XO (XO (XO (XO (XO (XO (XO
    (XO (XI (XO (XO (XO (XO XH)))))))))))))))))))))))))))))))) :: ((Npos (XO
    (XO (XO (XI (XI (XO (XO (XO (XO (XO (XO (XO (XO (XO (XO (XO (XO (XO (XO
    (XO (XO (XO (XO (XO (XO (XO (XI (XO (XO (XO (XO
    XH)))))))))))))))))))))))))))))))) :: ((Npos (XI (XO (XO (XO (XI (XO (XO
    (XI (XO (XO (XO (XO (XO (XO (XO (XO (XO (XO (XO (XO (XO (XO (XO (XO (XO
    (XO (XI (XO (XI (XO (XO XH)))))))))))))))))))))))))))))))) :: ((Npos (XI
    (XI (XO (XI (XI (XI (XO (XO (XI (XO (XO (XO (XO (XO (XO (XO (XO (XO (XO
    (XO (XO (XO (XO (XO (XO (XO (XI (XO (XO (XI (XO
    XH)))))))))))))))))))))))))))))))) :: ((Npos (XO (XO (XO (XI (XI (XI (XI
    (XO (XO (XO (XO (XO (XO (XO (XO (XO (XO (XO (XO (XO (XO (XO (XO (XO (XO
    (XO (XI (XO (XO (XO (XO XH)))))))))))))))))))))))))))))))) :: ((Npos (XO
    (XO (XO (XI (XI (XI (XO (XO (XO (XO (XO (XO (XO (XO (XO (XO (XO (XO (XO
    (XO (XO (XO (XO (XO (XO (XO (XI (XO (XO (XO (XO
    XH)))))))))))))))))))))))))))))))) :: ((Npos (XI (XO (XO (XO (XI (XO (XI
    (XI (XO (XO (XO (XO (XO (XO (XO (XO (XO (XO (XO (XO (XO (XO (XO (XO (XO
    (XO (XI (XO (XI (XO (XO XH)))))))))))))))))))))))))))))))) :: ((Npos (XI
    (XI (XI (XI (XO (XO (XO (XO (XI (XO (XO (XO (XO (XO (XO (XO (XO (XO (XO
    (XO (XO (XO (XO (XO (XO (XO (XI (XO (XO (XO (XO
    XH)))))))))))))))))))))))))))))))) :: ((Npos (XO (XO (XO (XI (XO (XI (XI
    (XO (XO (XO (XO (XO (XO (XO (XO (XO (XO (XO (XO (XO (XO (XO (XO (XO (XO
    (XO (XI (XO (XO (XO (XO XH)))))))))))))))))))))))))))))))) :: ((Npos (XO
    (XO (XO (XI (XO (XI (XO (XO (XO (XO (XO (XO (XO (XO (XO (XO (XO (XO (XO
    (XO (XO (XO (XO (XO (XO (XO (XI (XO (XO (XO (XO
    XH)))))))))))))))))))))))))))))))) :: ((Npos (XI (XO (XO (XO (XI (XI (XO
    (XI (XO (XO (XO (XO (XO (XO (XO (XO (XO (XO (XO (XO (XO (XO (XO (XO (XO
    (XO (XI (XO (XI (XO (XO XH)))))))))))))))))))))))))))))))) :: ((Npos (XO
    (XO (XO (XI (XO (XO (XO (XO (XO (XO (XO (XO (XO (XO (XO (XO (XO (XO (XO
    (XO (XO (XO (XO (XO (XO (XO (XI (XO (XO (XO (XO
    XH)))))))))))))))))))))))))))))))) :: ((Npos (XO (XO (XO (XI (XO (XO (XO
    (XI (XO (XO (XO (XO (XO (XO (XO (XO (XO (XO (XO (XO (XO (XO (XO (XO (XO
    (XO (XI (XO (XO (XO (XO XH)))))))))))))))))))))))))))))))) :: ((Npos (XO
    (XO (XO (XI (XO (XO (XI (XO (XO (XO (XO (XO (XO (XO (XO (XO (XO (XO (XO
    (XO (XO (XO (XO (XO (XO (XO (XI (XO (XO (XO (XO
    XH)))))))))))))))))))))))))))))))) :: ((Npos (XI (XO (XO (XO (XI (XI (XI
    (XI (XO (XO (XO (XO (XO (XO (XO (XO (XO (XO (XO (XO (XO (XO (XO (XO (XO
    (XO (XI (XO (XI (XO (XO XH)))))))))))))))))))))))))))))))) :: ((Npos (XO
    (XI (XO (XO (XO (XO (XO (XO (XI (XO (XO (XO (XO (XO (XO (XO (XO (XO (XO
    (XO (XO (XO (XO (XO (XO (XO (XI (XO (XI (XI
    XH))))))))))))))))))))))))))))))) :: ((Npos (XO (XO (XI (XO (XI (XO (XI
    (XO (XO (XO (XO (XO (XO (XO (XO (XO (XO (XO (XO (XO (XO (XO (XO (XO (XO
    (XO (XI (XO (XO (XO (XO XH)))))))))))))))))))))))))))))))) :: ((Npos (XO
    (XO (XI (XO (XI (XO (XO (XO (XO (XO (XO (XO (XO (XO (XO (XO (XO (XO (XO
    (XO (XO (XO (XO (XO (XO (XO (XI (XO (XO (XO (XO
    XH)))))))))))))))))))))))))))))))) :: ((Npos (XO (XI (XO (XO (XO (XI (XI
    (XO (XO (XO (XO (XO (XO (XO (XO (XO (XO (XO (XO (XO (XO (XO (XO (XO (XO
    (XI (XI (XO (XI XH)))))))))))))))))))))))))))))) :: ((Npos (XI (XI (XO
    (XI (XO (XI (XO (XO (XI (XO (XO (XO (XO (XO (XO (XO (XO (XO (XO (XO (XO
    (XO (XO (XO (XO (XO (XI (XO (XO (XI (XO
    XH)))))))))))))))))))))))))))))))) :: ((Npos (XO (XO (XI (XO (XI (XI (XI
    (XO (XO (XO (XO (XO (XO (XO (XO (XO (XO (XO (XO (XO (XO (XO (XO (XO (XO
    (XO (XI (XO (XO (XO (XO XH)))))))))))))))))))))))))))))))) :: ((Npos (XO
    (XO (XI (XO (XI (XI (XO (XO (XO (XO (XO (XO (XO (XO (XO (XO (XO (XO (XO
    (XO (XO (XO (XO (XO (XO (XO (XI (XO (XO (XO (XO
    XH)))))))))))))))))))))))))))))))) :: ((Npos (XI (XO (XO (XI (XO (XO (XI
    (XI (XO (XO (XO (XO (XO (XO (XO (XO (XO (XO (XO (XO (XO (XO (XO (XO (XO
    (XO (XI (XO (XI (XO (XO XH)))))))))))))))))))))))))))))))) :: ((Npos (XI
    (XI (XO (XI (XO (XO (XO (XO (XI (XO (XO (XO (XO (XO (XO (XO (XO (XO (XO
    (XO (XO (XO (XO (XO (XO (XO (XI (XO (XO (XO (XO
    XH)))))))))))))))))))))))))))))))) :: ((Npos (XO (XO (XI (XO (XO (XI (XI
    (XO (XO (XO (XO (XO (XO (XO (XO (XO (XO (XO (XO (XO (XO (XO (XO (XO (XO
    (XO (XI (XO (XO (XO (XO XH)))))))))))))))))))))))))))))))) :: ((Npos (XO
    (XO (XI (XO (XO (XI (XO (XO (XO (XO (XO (XO (XO (XO (XO (XO (XO (XO (XO
    (XO (XO (XO (XO (XO (XO (XO (XI (XO (XO (XO (XO
    XH)))))))))))))))))))))))))))))))) :: ((Npos (XI (XO (XO (XI (XO (XI (XO
    (XI (XO (XO (XO (XO (XO (XO (XO (XO (XO (XO (XO (XO (XO (XO (XO (XO (XO
    (XO (XI (XO (XI (XO (XO XH)))))))))))))))))))))))))))))))) :: ((Npos (XO
    (XO (XI (XO (XO (XO (XO (XO (XO (XO (XO (XO (XO (XO (XO (XO (XO (XO (XO
    (XO (XO (XO (XO (XO (XO (XO (XI (XO (XO (XO (XO
    XH)))))))))))))))))))))))))))))))) :: ((Npos (XO (XO (XI (XO (XO (XO (XO
    (XI (XO (XO (XO (XO (XO (XO (XO (XO (XO (XO (XO (XO (XO (XO (XO (XO (XO
    (XO (XI (XO (XO (XO (XO XH)))))))))))))))))))))))))))))))) :: ((Npos (XO
    (XO (XI (XO (XO (XO (XI (XO (XO (XO (XO (XO (XO (XO (XO (XO (XO (XO (XO
    (XO (XO (XO (XO (XO (XO (XO (XI (XO (XO (XO (XO
    XH)))))))))))))))))))))))))))))))) :: ((Npos (XI (XO (XO (XI (XO (XI (XI
    (XI (XO (XO (XO (XO (XO (XO (XO (XO (XO (XO (XO (XO (XO (XO (XO (XO (XO
    (XO (XI (XO (XI (XO (XO XH)))))))))))))))))))))))))))))))) :: ((Npos (XO
    (XI (XI (XO (XO (XO (XO (XO (XI (XO (XO (XO (XO (XO (XO (XO (XO (XO (XO
    (XO (XO (XO (XO (XO (XO (XO (XI (XO (XI (XI
    XH))))))))))))))))))))))))))))))) :: ((Npos (XO (XO (XI (XI (XI (XO (XI
    (XO (XO (XO (XO (XO (XO (XO (XO (XO (XO (XO (XO (XO (XO (XO (XO (XO (XO
    (XO (XI (XO (XO (XO (XO XH)))))))))))))))))))))))))))))))) :: ((Npos (XO
    (XO (XI (XI (XI (XO (XO (XO (XO (XO (XO (XO (XO (XO (XO (XO (XO (XO (XO
    (XO (XO (XO (XO (XO (XO (XO (XI (XO (XO (XO (XO
    XH)))))))))))))))))))))))))))))))) :: ((Npos (XI (XO (XO (XI (XI (XO (XO
    (XI (XO (XO (XO (XO (XO (XO (XO (XO (XO (XO (XO (XO (XO (XO (XO (XO (XO
    (XO (XI (XO (XI (XO (XO XH)))))))))))))))))))))))))))))))) :: ((Npos (XI
    (XI (XO (XO (XI (XO (XI (XO (XI (XO (XO (XO (XO (XO (XO (XO (XO (XO (XO
    (XO (XO (XO (XO (XO (XO (XO (XI (XO (XI (XI (XO
    XH)))))))))))))))))))))))))))))))) :: ((Npos (XO (XO (XI (XI (XI (XI (XI
    (XO (XO (XO (XO (XO (XO (XO (XO (XO (XO (XO (XO (XO (XO (XO (XO (XO (XO
    (XO (XI (XO (XO (XO (XO XH)))))))))))))))))))))))))))))))) :: ((Npos (XO
    (XO (XI (XI (XI (XI (XO (XO (XO (XO (XO (XO (XO (XO (XO (XO (XO (XO (XO
    (XO (XO (XO (XO (XO (XO (XO (XI (XO (XO (XO (XO
    XH)))))))))))))))))))))))))))))))) :: ((Npos (XI (XO (XO (XI (XI (XO (XI
    (XI (XO (XO (XO (XO (XO (XO (XO (XO (XO (XO (XO (XO (XO (XO (XO (XO (XO
    (XO (XI (XO (XI (XO (XO XH)))))))))))))))))))))))))))))))) :: ((Npos (XI
    (XI (XI (XO (XI (XO (XO (XO (XI (XO (XO (XO (XO (XO (XO (XO (XO (XO (XO
    (XO (XO (XO (XO (XO (XO (XO (XI (XO (XI (XO (XO
    XH)))))))))))))))))))))))))))))))) :: ((Npos (XO (XO (XI (XI (XO (XI (XI
    (XO (XO (XO (XO (XO (XO (XO (XO (XO (XO (XO (XO (XO (XO (XO (XO (XO (XO
    (XO (XI (XO (XO (XO (XO XH)))))))))))))))))))))))))))))))) :: ((Npos (XO
    (XO (XI (XI (XO (XI (XO (XO (XO (XO (XO (XO (XO (XO (XO (XO (XO (XO (XO
    (XO (XO (XO (XO (XO (XO (XO (XI (XO (XO (XO (XO
    XH)))))))))))))))))))))))))))))))) :: ((Npos (XI (XO (XO (XI (XI (XI (XO
    (XI (XO (XO (XO (XO (XO (XO (XO (XO (XO (XO (XO (XO (XO (XO (XO (XO (XO
    (XO (XI (XO (XI (XO (XO XH)))))))))))))))))))))))))))))))) :: ((Npos (XO
    (XO (XI (XI (XO (XO (XO (XO (XO (XO (XO (XO (XO (XO (XO (XO (XO (XO (XO
    (XO (XO (XO (XO (XO (XO (XO (XI (XO (XO (XO (XO
    XH)))))))))))))))))))))))))))))))) :: ((Npos (XO (XO (XI (XI (XO (XO (XO
    (XI (XO (XO (XO (XO (XO (XO (XO (XO (XO (XO (XO (XO (XO (XO (XO (XO (XO
    (XO (XI (XO (XO (XO (XO XH)))))))))))))))))))))))))))))))) :: ((Npos (XO
    (XO (XI (XI (XO (XO (XI (XO (XO (XO (XO (XO (XO (XO (XO (XO (XO (XO (XO
    (XO (XO (XO (XO (XO (XO (XO (XI (XO (XO (XO (XO
    XH)))))))))))))))))))))))))))))))) :: ((Npos (XI (XO (XO (XI (XI (XI (XI
    (XI (XO (XO (XO (XO (XO (XO (XO (XO (XO (XO (XO (XO (XO (XO (XO (XO (XO
    (XO (XI (XO (XI (XO (XO XH)))))))))))))))))))))))))))))))) :: ((Npos (XI
    (XO (XO (XO (XO (XO (XO (XO (XI (XO (XO (XO (XO (XO (XO (XO (XO (XO (XO
    (XO (XO (XO (XO (XO (XO (XO (XI (XO (XI (XI
    XH))))))))))))))))))))))))))))))) :: ((Npos (XO (XI (XO (XO (XI (XO (XI
    (XO (XO (XO (XO (XO (XO (XO (XO (XO (XO (XO (XO (XO (XO (XO (XO (XO (XO
    (XO (XI (XO (XO (XO (XO XH)))))))))))))))))))))))))))))))) :: ((Npos (XO
    (XI (XO (XO (XI (XO (XO (XO (XO (XO (XO (XO (XO (XO (XO (XO (XO (XO (XO
    (XO (XO (XO (XO (XO (XO (XO (XI (XO (XO (XO (XO
    XH)))))))))))))))))))))))))))))))) :: ((Npos (XO (XI (XO (XO (XO (XI (XO
    (XO (XO (XO (XO (XO (XO (XO (XO (XO (XO (XO (XO (XO (XO (XO (XO (XO (XO
    (XI (XI (XO (XI XH)))))))))))))))))))))))))))))) :: ((Npos (XI (XI (XO
    (XO (XO (XI (XO (XO (XI (XO (XO (XO (XO (XO (XO (XO (XO (XO (XO (XO (XO
    (XO (XO (XO (XO (XO (XI (XO (XO (XI (XO
    XH)))))))))))))))))))))))))))))))) :: ((Npos (XO (XI (XO (XO (XI (XI (XI
    (XO (XO (XO (XO (XO (XO (XO (XO (XO (XO (XO (XO (XO (XO (XO (XO (XO (XO
    (XO (XI (XO (XO (XO (XO XH)))))))))))))))))))))))))))))))) :: ((Npos (XO
    (XI (XO (XO (XI (XI (XO (XO (XO (XO (XO (XO (XO (XO (XO (XO (XO (XO (XO
    (XO (XO (XO (XO (XO (XO (XO (XI (XO (XO (XO (XO
    XH)))))))))))))))))))))))))))))))) :: ((Npos (XI (XO (XI (XO (XO (XO (XI
    (XI (XO (XO (XO (XO (XO (XO (XO (XO (XO (XO (XO (XO (XO (XO (XO (XO (XO
    (XO (XI (XO (XI (XO (XO XH)))))))))))))))))))))))))))))))) :: ((Npos (XI
    (XO (XO (XI (XO (XO (XO (XO (XI (XO (XO (XO (XO (XO (XO (XO (XO (XO (XO
    (XO (XO (XO (XO (XO (XO (XO (XI (XO (XO (XO (XO
    XH)))))))))))))))))))))))))))))))) :: ((Npos (XO (XI (XO (XO (XO (XI (XI
    (XO (XO (XO (XO (XO (XO (XO (XO (XO (XO (XO (XO (XO (XO (XO (XO (XO (XO
    (XO (XI (XO (XO (XO (XO XH)))))))))))))))))))))))))))))))) :: ((Npos (XO
    (XI (XO (XO (XO (XI (XO (XO (XO (XO (XO (XO (XO (XO (XO (XO (XO (XO (XO
    (XO (XO (XO (XO (XO (XO (XO (XI (XO (XO (XO (XO
    XH)))))))))))))))))))))))))))))))) :: ((Npos (XI (XO (XI (XO (XO (XI (XO
    (XI (XO (XO (XO (XO (XO (XO (XO (XO (XO (XO (XO (XO (XO (XO (XO (XO (XO
    (XO (XI (XO (XI (XO (XO XH)))))))))))))))))))))))))))))))) :: ((Npos (XO
    (XI (XO (XO (XO (XO (XO (XO (XO (XO (XO (XO (XO (XO (XO (XO (XO (XO (XO
    (XO (XO (XO (XO (XO (XO (XO (XI (XO (XO (XO (XO
    XH)))))))))))))))))))))))))))))))) :: ((Npos (XO (XI (XO (XO (XO (XO (XO
    (XI (XO (XO (XO (XO (XO (XO (XO (XO (XO (XO (XO (XO (XO (XO (XO (XO (XO
    (XO (XI (XO (XO (XO (XO XH)))))))))))))))))))))))))))))))) :: ((Npos (XO
    (XI (XO (XO (XO (XO (XI (XO (XO (XO (XO (XO (XO (XO (XO (XO (XO (XO (XO
    (XO (XO (XO (XO (XO (XO (XO (XI (XO (XO (XO (XO
    XH)))))))))))))))))))))))))))))))) :: ((Npos (XI (XO (XI (XO (XO (XI (XI
    (XI (XO (XO (XO (XO (XO (XO (XO (XO (XO (XO (XO (XO (XO (XO (XO (XO (XO
    (XO (XI (XO (XI (XO (XO XH)))))))))))))))))))))))))))))))) :: ((Npos (XI
    (XO (XI (XO (XO (XO (XO (XO (XI (XO (XO (XO (XO (XO (XO (XO (XO (XO (XO
    (XO (XO (XO (XO (XO (XO (XO (XI (XO (XI (XI
    XH))))))))))))))))))))))))))))))) :: ((Npos (XO (XI (XO (XI (XI (XO (XI
    (XO (XO (XO (XO (XO (XO (XO (XO (XO (XO (XO (XO (XO (XO (XO (XO (XO (XO
    (XO (XI (XO (XO (XO (XO XH)))))))))))))))))))))))))))))))) :: ((Npos (XO
    (XI (XO (XI (XI (XO (XO (XO (XO (XO (XO (XO (XO (XO (XO (XO (XO (XO (XO
    (XO (XO (XO (XO (XO (XO (XO (XI (XO (XO (XO (XO
    XH)))))))))))))))))))))))))))))))) :: ((Npos (XI (XO (XI (XO (XI (XO (XO
    (XI (XO (XO (XO (XO (XO (XO (XO (XO (XO (XO (XO (XO (XO (XO (XO (XO (XO
    (XO (XI (XO (XI (XO (XO XH)))))))))))))))))))))))))))))))) :: ((Npos (XI
    (XI (XO (XO (XO (XO (XI (XO (XI (XO (XO (XO (XO (XO (XO (XO (XO (XO (XO
    (XO (XO (XO (XO (XO (XO (XO (XI (XO (XI (XI (XO
    XH)))))))))))))))))))))))))))))))) :: ((Npos (XO (XI (XO (XI (XI (XI (XI
    (XO (XO (XO (XO (XO (XO (XO (XO (XO (XO (XO (XO (XO (XO (XO (XO (XO (XO
    (XO (XI (XO (XO (XO (XO XH)))))))))))))))))))))))))))))))) :: ((Npos (XO
    (XI (XO (XI (XI (XI (XO (XO (XO (XO (XO (XO (XO (XO (XO (XO (XO (XO (XO
    (XO (XO (XO (XO (XO (XO (XO (XI (XO (XO (XO (XO
    XH)))))))))))))))))))))))))))))))) :: ((Npos (XI (XO (XI (XO (XI (XO (XI
    (XI (XO (XO (XO (XO (XO (XO (XO (XO (XO (XO (XO (XO (XO (XO (XO (XO (XO
    (XO (XI (XO (XI (XO (XO XH)))))))))))))))))))))))))))))))) :: ((Npos (XI
    (XI (XO (XO (XI (XO (XO (XO (XI (XO (XO (XO (XO (XO (XO (XO (XO (XO (XO
    (XO (XO (XO (XO (XO (XO (XO (XI (XO (XI (XO (XO
    XH)))))))))))))))))))))))))))))))) :: ((Npos (XO (XI (XO (XI (XO (XI (XI
    (XO (XO (XO (XO (XO (XO (XO (XO (XO (XO (XO (XO (XO (XO (XO (XO (XO (XO
    (XO (XI (XO (XO (XO (XO XH)))))))))))))))))))))))))))))))) :: ((Npos (XO
    (XI (XO (XI (XO (XI (XO (XO (XO (XO (XO (XO (XO (XO (XO (XO (XO (XO (XO
    (XO (XO (XO (XO (XO (XO (XO (XI (XO (XO (XO (XO
    XH)))))))))))))))))))))))))))))))) :: ((Npos (XI (XO (XI (XO (XI (XI (XO
    (XI (XO (XO (XO (XO (XO (XO (XO (XO (XO (XO (XO (XO (XO (XO (XO (XO (XO
    (XO (XI (XO (XI (XO (XO XH)))))))))))))))))))))))))))))))) :: ((Npos (XO
    (XI (XO (XI (XO (XO (XO (XO (XO (XO (XO (XO (XO (XO (XO (XO (XO (XO (XO
    (XO (XO (XO (XO (XO (XO (XO (XI (XO (XO (XO (XO
    XH)))))))))))))))))))))))))))))))) :: ((Npos (XO (XI (XO (XI (XO (XO (XO
    (XI (XO (XO (XO (XO (XO (XO (XO (XO (XO (XO (XO (XO (XO (XO (XO (XO (XO
    (XO (XI (XO (XO (XO (XO XH)))))))))))))))))))))))))))))))) :: ((Npos (XO
    (XI (XO (XI (XO (XO (XI (XO (XO (XO (XO (XO (XO (XO (XO (XO (XO (XO (XO
    (XO (XO (XO (XO (XO (XO (XO (XI (XO (XO (XO (XO
    XH)))))))))))))))))))))))))))))))) :: ((Npos (XI (XO (XI (XO (XI (XI (XI
    (XI (XO (XO (XO (XO (XO (XO (XO (XO (XO (XO (XO (XO (XO (XO (XO (XO (XO
    (XO (XI (XO (XI (XO (XO XH)))))))))))))))))))))))))))))))) :: ((Npos (XI
    (XI (XO (XO (XO (XO (XO (XO (XI (XO (XO (XO (XO (XO (XO (XO (XO (XO (XO
    (XO (XO (XO (XO (XO (XO (XO (XI (XO (XI (XI
    XH))))))))))))))))))))))))))))))) :: ((Npos (XO (XI (XI (XO (XI (XO (XI
    (XO (XO (XO (XO (XO (XO (XO (XO (XO (XO (XO (XO (XO (XO (XO (XO (XO (XO
    (XO (XI (XO (XO (XO (XO XH)))))))))))))))))))))))))))))))) :: ((Npos (XO
    (XI (XI (XO (XI (XO (XO (XO (XO (XO (XO (XO (XO (XO (XO (XO (XO (XO (XO
    (XO (XO (XO (XO (XO (XO (XO (XI (XO (XO (XO (XO
    XH)))))))))))))))))))))))))))))))) :: (N0 :: ((Npos (XI (XI (XO (XO (XI
    (XI (XO (XO (XI (XO (XO (XO (XO (XO (XO (XO (XO (XO (XO (XO (XO (XO (XO
    (XO (XO (XO (XI (XO (XO (XI (XO
    XH)))))))))))))))))))))))))))))))) :: ((Npos (XO (XI (XI (XO (XI (XI (XI
    (XO (XO (XO (XO (XO (XO (XO (XO (XO (XO (XO (XO (XO (XO (XO (XO (XO (XO
    (XO (XI (XO (XO (XO (XO XH)))))))))))))))))))))))))))))))) :: ((Npos (XO
    (XI (XI (XO (XI (XI (XO (XO (XO (XO (XO (XO (XO (XO (XO (XO (XO (XO (XO
    (XO (XO (XO (XO (XO (XO (XO (XI (XO (XO (XO (XO
    XH)))))))))))))))))))))))))))))))) :: ((Npos (XI (XO (XI (XI (XO (XO (XI
    (XI (XO (XO (XO (XO (XO (XO (XO (XO (XO (XO (XO (XO (XO (XO (XO (XO (XO
    (XO (XI (XO (XI (XO (XO XH)))))))))))))))))))))))))))))))) :: ((Npos (XI
    (XO (XI (XI (XO (XO (XO (XO (XI (XO (XO (XO (XO (XO (XO (XO (XO (XO (XO
    (XO (XO (XO (XO (XO (XO (XO (XI (XO (XO (XO (XO
    XH)))))))))))))))))))))))))))))))) :: ((Npos (XO (XI (XI (XO (XO (XI (XI
    (XO (XO (XO (XO (XO (XO (XO (XO (XO (XO (XO (XO (XO (XO (XO (XO (XO (XO
    (XO (XI (XO (XO (XO (XO XH)))))))))))))))))))))))))))))))) :: ((Npos (XO
    (XI (XI (XO (XO (XI (XO (XO (XO (XO (XO (XO (XO (XO (XO (XO (XO (XO (XO
    (XO (XO (XO (XO (XO (XO (XO (XI (XO (XO (XO (XO
    XH)))))))))))))))))))))))))))))))) :: ((Npos (XI (XO (XI (XI (XO (XI (XO
    (XI (XO (XO (XO (XO (XO (XO (XO (XO (XO (XO (XO (XO (XO (XO (XO (XO (XO
    (XO (XI (XO (XI (XO (XO XH)))))))))))))))))))))))))))))))) :: ((Npos (XO
    (XI (XI (XO (XO (XO (XO (XO (XO (XO (XO (XO (XO (XO (XO (XO (XO (XO (XO
    (XO (XO (XO (XO (XO (XO (XO (XI (XO (XO (XO (XO
    XH)))))))))))))))))))))))))))))))) :: ((Npos (XO (XI (XI (XO (XO (XO (XO
    (XI (XO (XO (XO (XO (XO (XO (XO (XO (XO (XO (XO (XO (XO (XO (XO (XO (XO
    (XO (XI (XO (XO (XO (XO XH)))))))))))))))))))))))))))))))) :: ((Npos (XO
    (XI (XI (XO (XO (XO (XI (XO (XO (XO (XO (XO (XO (XO (XO (XO (XO (XO (XO
    (XO (XO (XO (XO (XO (XO (XO (XI (XO (XO (XO (XO
    XH)))))))))))))))))))))))))))))))) :: ((Npos (XI (XO (XI (XI (XO (XI (XI
    (XI (XO (XO (XO (XO (XO (XO (XO (XO (XO (XO (XO (XO (XO (XO (XO (XO (XO
    (XO (XI (XO (XI (XO (XO XH)))))))))))))))))))))))))))))))) :: ((Npos (XI
    (XI (XI (XO (XO (XO (XO (XO (XI (XO (XO (XO (XO (XO (XO (XO (XO (XO (XO
    (XO (XO (XO (XO (XO (XO (XO (XI (XO (XI (XI
    XH))))))))))))))))))))))))))))))) :: ((Npos (XO (XI (XI (XI (XI (XO (XI
    (XO (XO (XO (XO (XO (XO (XO (XO (XO (XO (XO (XO (XO (XO (XO (XO (XO (XO
    (XO (XI (XO (XO (XO (XO XH)))))))))))))))))))))))))))))))) :: ((Npos (XO
    (XI (XI (XI (XI (XO (XO (XO (XO (XO (XO (XO (XO (XO (XO (XO (XO (XO (XO
    (XO (XO (XO (XO (XO (XO (XO (XI (XO (XO (XO (XO
    XH)))))))))))))))))))))))))))))))) :: ((Npos (XI (XO (XI (XI (XI (XO (XO
    (XI (XO (XO (XO (XO (XO (XO (XO (XO (XO (XO (XO (XO (XO (XO (XO (XO (XO
    (XO (XI (XO (XI (XO (XO XH)))))))))))))))))))))))))))))))) :: ((Npos (XI
    (XI (XO (XO (XO (XI (XI (XO (XI (XO (XO (XO (XO (XO (XO (XO (XO (XO (XO
    (XO (XO (XO (XO (XO (XO (XO (XI (XO (XI (XI (XO
    XH)))))))))))))))))))))))))))))))) :: ((Npos (XO (XI (XI (XI (XI (XI (XI
    (XO (XO (XO (XO (XO (XO (XO (XO (XO (XO (XO (XO (XO (XO (XO (XO (XO (XO
    (XO (XI (XO (XO (XO (XO XH)))))))))))))))))))))))))))))))) :: ((Npos (XO
    (XI (XI (XI (XI (XI (XO (XO (XO (XO (XO (XO (XO (XO (XO (XO (XO (XO (XO
    (XO (XO (XO (XO (XO (XO (XO (XI (XO (XO (XO (XO
    XH)))))))))))))))))))))))))))))))) :: ((Npos (XI (XO (XI (XI (XI (XO (XI
    (XI (XO (XO (XO (XO (XO (XO (XO (XO (XO (XO (XO (XO (XO (XO (XO (XO (XO
    (XO (XI (XO (XI (XO (XO XH)))))))))))))))))))))))))))))))) :: ((Npos (XI
    (XI (XO (XI (XI (XO (XO (XO (XI (XO (XO (XO (XO (XO (XO (XO (XO (XO (XO
    (XO (XO (XO (XO (XO (XO (XO (XI (XO (XI (XO (XO
    XH)))))))))))))))))))))))))))))))) :: ((Npos (XO (XI (XI (XI (XO (XI (XI
    (XO (XO (XO (XO (XO (XO (XO (XO (XO (XO (XO (XO (XO (XO (XO (XO (XO (XO
    (XO (XI (XO (XO (XO (XO XH)))))))))))))))))))))))))))))))) :: ((Npos (XO
    (XI (XI (XI (XO (XI (XO (XO (XO (XO (XO (XO (XO (XO (XO (XO (XO (XO (XO
    (XO (XO (XO (XO (XO (XO (XO (XI (XO (XO (XO (XO
    XH)))))))))))))))))))))))))))))))) :: ((Npos (XI (XO (XI (XI (XI (XI (XO
    (XI (XO (XO (XO (XO (XO (XO (XO (XO (XO (XO (XO (XO (XO (XO (XO (XO (XO
    (XO (XI (XO (XI (XO (XO XH)))))))))))))))))))))))))))))))) :: ((Npos (XO
    (XI (XI (XI (XO (XO (XO (XO (XO (XO (XO (XO (XO (XO (XO (XO (XO (XO (XO
    (XO (XO (XO (XO (XO (XO (XO (XI (XO (XO (XO (XO
    XH)))))))))))))))))))))))))))))))) :: ((Npos (XO (XI (XI (XI (XO (XO (XO
    (XI (XO (XO (XO (XO (XO (XO (XO (XO (XO (XO (XO (XO (XO (XO (XO (XO (XO
    (XO (XI (XO (XO (XO (XO XH)))))))))))))))))))))))))))))))) :: ((Npos (XO
    (XI (XI (XI (XO (XO (XI (XO (XO (XO (XO (XO (XO (XO (XO (XO (XO (XO (XO
    (XO (XO (XO (XO (XO (XO (XO (XI (XO (XO (XO (XO
    XH)))))))))))))))))))))))))))))))) :: ((Npos (XI (XO (XI (XI (XI (XI (XI
    (XI (XO (XO (XO (XO (XO (XO (XO (XO (XO (XO (XO (XO (XO (XO (XO (XO (XO
    (XO (XI (XO (XI (XO (XO XH)))))))))))))))))))))))))))))))) :: ((Npos (XO
    (XO (XO (XO (XO (XO (XO (XO (XI (XO (XO (XO (XO (XO (XO (XO (XO (XO (XO
    (XO (XO (XO (XO (XO (XO (XO (XI (XO (XI (XI
    XH))))))))))))))))))))))))))))))) :: ((Npos (XI (XO (XO (XO (XI (XO (XI
    (XO (XO (XO (XO (XO (XO (XO (XO (XO (XO (XO (XO (XO (XO (XO (XO (XO (XO
    (XO (XI (XO (XO (XO (XO XH)))))))))))))))))))))))))))))))) :: ((Npos (XI
    (XO (XO (XO (XI (XO (XO (XO (XO (XO (XO (XO (XO (XO (XO (XO (XO (XO (XO
    (XO (XO (XO (XO (XO (XO (XO (XI (XO (XO (XO (XO
    XH)))))))))))))))))))))))))))))))) :: ((Npos (XO (XI (XO (XO (XO (XO (XO
    (XO (XO (XO (XO (XO (XO (XO (XO (XO (XO (XO (XO (XO (XO (XO (XO (XO (XO
    (XI (XI (XO (XI XH)))))))))))))))))))))))))))))) :: ((Npos (XO (XO (XO
    (XO (XO (XI (XO (XO (XI (XO (XO (XO (XO (XO (XO (XO (XO (XO (XO (XO (XO
    (XO (XO (XO (XO (XO (XI (XO (XI (XO (XO
    XH)))))))))))))))))))))))))))))))) :: ((Npos (XI (XO (XO (XO (XI (XI (XI
    (XO (XO (XO (XO (XO (XO (XO (XO (XO (XO (XO (XO (XO (XO (XO (XO (XO (XO
    (XO (XI (XO (XO (XO (XO XH)))))))))))))))))))))))))))))))) :: ((Npos (XI
    (XO (XO (XO (XI (XI (XO (XO (XO (XO (XO (XO (XO (XO (XO (XO (XO (XO (XO
    (XO (XO (XO (XO (XO (XO (XO (XI (XO (XO (XO (XO
    XH)))))))))))))))))))))))))))))))) :: ((Npos (XI (XI (XO (XO (XO (XO (XI
    (XI (XO (XO (XO (XO (XO (XO (XO (XO (XO (XO (XO (XO (XO (XO (XO (XO (XO
    (XO (XI (XO (XI (XO (XO XH)))))))))))))))))))))))))))))))) :: ((Npos (XO
    (XO (XO (XI (XO (XO (XO (XO (XI (XO (XO (XO (XO (XO (XO (XO (XO (XO (XO
    (XO (XO (XO (XO (XO (XO (XO (XI (XO (XI (XI
    XH))))))))))))))))))))))))))))))) :: ((Npos (XI (XO (XO (XO (XO (XI (XI
    (XO (XO (XO (XO (XO (XO (XO (XO (XO (XO (XO (XO (XO (XO (XO (XO (XO (XO
    (XO (XI (XO (XO (XO (XO XH)))))))))))))))))))))))))))))))) :: ((Npos (XI
    (XO (XO (XO (XO (XI (XO (XO (XO (XO (XO (XO (XO (XO (XO (XO (XO (XO (XO
    (XO (XO (XO (XO (XO (XO (XO (XI (XO (XO (XO (XO
    XH)))))))))))))))))))))))))))))))) :: ((Npos (XI (XI (XO (XO (XO (XI (XO
    (XI (XO (XO (XO (XO (XO (XO (XO (XO (XO (XO (XO (XO (XO (XO (XO (XO (XO
    (XO (XI (XO (XI (XO (XO XH)))))))))))))))))))))))))))))))) :: ((Npos (XI
    (XO (XO (XO (XO (XO (XO (XO (XO (XO (XO (XO (XO (XO (XO (XO (XO (XO (XO
    (XO (XO (XO (XO (XO (XO (XO (XI (XO (XO (XO (XO
    XH)))))))))))))))))))))))))))))))) :: ((Npos (XI (XO (XO (XO (XO (XO (XO
    (XI (XO (XO (XO (XO (XO (XO (XO (XO (XO (XO (XO (XO (XO (XO (XO (XO (XO
    (XO (XI (XO (XO (XO (XO XH)))))))))))))))))))))))))))))))) :: ((Npos (XI
    (XO (XO (XO (XO (XO (XI (XO (XO (XO (XO (XO (XO (XO (XO (XO (XO (XO (XO
    (XO (XO (XO (XO (XO (XO (XO (XI (XO (XO (XO (XO
    XH)))))))))))))))))))))))))))))))) :: ((Npos (XI (XI (XO (XO (XO (XI (XI
    (XI (XO (XO (XO (XO (XO (XO (XO (XO (XO (XO (XO (XO (XO (XO (XO (XO (XO
    (XO (XI (XO (XI (XO (XO XH)))))))))))))))))))))))))))))))) :: ((Npos (XO
    (XO (XI (XO (XO (XO (XO (XO (XI (XO (XO (XO (XO (XO (XO (XO (XO (XO (XO
    (XO (XO (XO (XO (XO (XO (XO (XI (XO (XI (XI
    XH))))))))))))))))))))))))))))))) :: ((Npos (XI (XO (XO (XI (XI (XO (XI
    (XO (XO (XO (XO (XO (XO (XO (XO (XO (XO (XO (XO (XO (XO (XO (XO (XO (XO
    (XO (XI (XO (XO (XO (XO XH)))))))))))))))))))))))))))))))) :: ((Npos (XI
    (XO (XO (XI (XI (XO (XO (XO (XO (XO (XO (XO (XO (XO (XO (XO (XO (XO (XO
    (XO (XO (XO (XO (XO (XO (XO (XI (XO (XO (XO (XO
    XH)))))))))))))))))))))))))))))))) :: ((Npos (XI (XI (XO (XO (XI (XO (XO
    (XI (XO (XO (XO (XO (XO (XO (XO (XO (XO (XO (XO (XO (XO (XO (XO (XO (XO
    (XO (XI (XO (XI (XO (XO XH)))))))))))))))))))))))))))))))) :: ((Npos (XO
    (XO (XI (XI (XI (XI (XO (XO (XI (XO (XO (XO (XO (XO (XO (XO (XO (XO (XO
    (XO (XO (XO (XO (XO (XO (XO (XI (XO (XO (XI (XO
    XH)))))))))))))))))))))))))))))))) :: ((Npos (XI (XO (XO (XI (XI (XI (XI
    (XO (XO (XO (XO (XO (XO (XO (XO (XO (XO (XO (XO (XO (XO (XO (XO (XO (XO
    (XO (XI (XO (XO (XO (XO XH)))))))))))))))))))))))))))))))) :: ((Npos (XI
    (XO (XO (XI (XI (XI (XO (XO (XO (XO (XO (XO (XO (XO (XO (XO (XO (XO (XO
    (XO (XO (XO (XO (XO (XO (XO (XI (XO (XO (XO (XO
    XH)))))))))))))))))))))))))))))))) :: ((Npos (XI (XI (XO (XO (XI (XO (XI
    (XI (XO (XO (XO (XO (XO (XO (XO (XO (XO (XO (XO (XO (XO (XO (XO (XO (XO
    (XO (XI (XO (XI (XO (XO XH)))))))))))))))))))))))))))))))) :: ((Npos (XO
    (XO (XO (XO (XI (XO (XO (XO (XI (XO (XO (XO (XO (XO (XO (XO (XO (XO (XO
    (XO (XO (XO (XO (XO (XO (XO (XI (XO (XO (XO (XO
    XH)))))))))))))))))))))))))))))))) :: ((Npos (XI (XO (XO (XI (XO (XI (XI
    (XO (XO (XO (XO (XO (XO (XO (XO (XO (XO (XO (XO (XO (XO (XO (XO (XO (XO
    (XO (XI (XO (XO (XO (XO XH)))))))))))))))))))))))))))))))) :: ((Npos (XI
    (XO (XO (XI (XO (XI (XO (XO (XO (XO (XO (XO (XO (XO (XO (XO (XO (XO (XO
    (XO (XO (XO (XO (XO (XO (XO (XI (XO (XO (XO (XO
    XH)))))))))))))))))))))))))))))))) :: ((Npos (XI (XI (XO (XO (XI (XI (XO
    (XI (XO (XO (XO (XO (XO (XO (XO (XO (XO (XO (XO (XO (XO (XO (XO (XO (XO
    (XO (XI (XO (XI (XO (XO XH)))))))))))))))))))))))))))))))) :: ((Npos (XI
    (XO (XO (XI (XO (XO (XO (XO (XO (XO (XO (XO (XO (XO (XO (XO (XO (XO (XO
    (XO (XO (XO (XO (XO (XO (XO (XI (XO (XO (XO (XO
    XH)))))))))))))))))))))))))))))))) :: ((Npos (XI (XO (XO (XI (XO (XO (XO
    (XI (XO (XO (XO (XO (XO (XO (XO (XO (XO (XO (XO (XO (XO (XO (XO (XO (XO
    (XO (XI (XO (XO (XO (XO XH)))))))))))))))))))))))))))))))) :: ((Npos (XI
    (XO (XO (XI (XO (XO (XI (XO (XO (XO (XO (XO (XO (XO (XO (XO (XO (XO (XO
    (XO (XO (XO (XO (XO (XO (XO (XI (XO (XO (XO (XO
    XH)))))))))))))))))))))))))))))))) :: ((Npos (XI (XI (XO (XO (XI (XI (XI
    (XI (XO (XO (XO (XO (XO (XO (XO (XO (XO (XO (XO (XO (XO (XO (XO (XO (XO
    (XO (XI (XO (XI (XO (XO XH)))))))))))))))))))))))))))))))) :: ((Npos (XO
    (XI (XO (XO (XO (XO (XO (XO (XI (XO (XO (XO (XO (XO (XO (XO (XO (XO (XO
    (XO (XO (XO (XO (XO (XO (XO (XI (XO (XI (XI
    XH))))))))))))))))))))))))))))))) :: ((Npos (XI (XO (XI (XO (XI (XO (XI
    (XO (XO (XO (XO (XO (XO (XO (XO (XO (XO (XO (XO (XO (XO (XO (XO (XO (XO
    (XO (XI (XO (XO (XO (XO XH)))))))))))))))))))))))))))))))) :: ((Npos (XI
    (XO (XI (XO (XI (XO (XO (XO (XO (XO (XO (XO (XO (XO (XO (XO (XO (XO (XO
    (XO (XO (XO (XO (XO (XO (XO (XI (XO (XO (XO (XO
    XH)))))))))))))))))))))))))))))))) :: ((Npos (XO (XO (XO (XO (XO (XO (XO
    (XO (XO (XI (XO (XO (XO (XO (XO (XO (XO (XO (XO (XO (XO (XO (XO (XO (XO
    (XO (XI (XO (XO (XO (XO XH)))))))))))))))))))))))))))))))) :: ((Npos (XO
    (XO (XI (XI (XO (XI (XO (XO (XI (XO (XO (XO (XO (XO (XO (XO (XO (XO (XO
    (XO (XO (XO (XO (XO (XO (XO (XI (XO (XO (XI (XO
    XH)))))))))))))))))))))))))))))))) :: ((Npos (XI (XO (XI (XO (XI (XI (XI
    (XO (XO (XO (XO (XO (XO (XO (XO (XO (XO (XO (XO (XO (XO (XO (XO (XO (XO
    (XO (XI (XO (XO (XO (XO XH)))))))))))))))))))))))))))))))) :: ((Npos (XI
    (XO (XI (XO (XI (XI (XO (XO (XO (XO (XO (XO (XO (XO (XO (XO (XO (XO (XO
    (XO (XO (XO (XO (XO (XO (XO (XI (XO (XO (XO (XO
    XH)))))))))))))))))))))))))))))))) :: ((Npos (XI (XI (XO (XI (XO (XO (XI
    (XI (XO (XO (XO (XO (XO (XO (XO (XO (XO (XO (XO (XO (XO (XO (XO (XO (XO
    (XO (XI (XO (XI (XO (XO XH)))))))))))))))))))))))))))))))) :: ((Npos (XO
    (XO (XI (XI (XO (XO (XO (XO (XI (XO (XO (XO (XO (XO (XO (XO (XO (XO (XO
    (XO (XO (XO (XO (XO (XO (XO (XI (XO (XO (XO (XO
    XH)))))))))))))))))))))))))))))))) :: ((Npos (XI (XO (XI (XO (XO (XI (XI
    (XO (XO (XO (XO (XO (XO (XO (XO (XO (XO (XO (XO (XO (XO (XO (XO (XO (XO
    (XO (XI (XO (XO (XO (XO XH)))))))))))))))))))))))))))))))) :: ((Npos (XI
    (XO (XI (XO (XO (XI (XO (XO (XO (XO (XO (XO (XO (XO (XO (XO (XO (XO (XO
    (XO (XO (XO (XO (XO (XO (XO (XI (XO (XO (XO (XO
    XH)))))))))))))))))))))))))))))))) :: ((Npos (XI (XI (XO (XI (XO (XI (XO
    (XI (XO (XO (XO (XO (XO (XO (XO (XO (XO (XO (XO (XO (XO (XO (XO (XO (XO
    (XO (XI (XO (XI (XO (XO XH)))))))))))))))))))))))))))))))) :: ((Npos (XI
    (XO (XI (XO (XO (XO (XO (XO (XO (XO (XO (XO (XO (XO (XO (XO (XO (XO (XO
    (XO (XO (XO (XO (XO (XO (XO (XI (XO (XO (XO (XO
    XH)))))))))))))))))))))))))))))))) :: ((Npos (XI (XO (XI (XO (XO (XO (XO
    (XI (XO (XO (XO (XO (XO (XO (XO (XO (XO (XO (XO (XO (XO (XO (XO (XO (XO
    (XO (XI (XO (XO (XO (XO XH)))))))))))))))))))))))))))))))) :: ((Npos (XI
    (XO (XI (XO (XO (XO (XI (XO (XO (XO (XO (XO (XO (XO (XO (XO (XO (XO (XO
    (XO (XO (XO (XO (XO (XO (XO (XI (XO (XO (XO (XO
    XH)))))))))))))))))))))))))))))))) :: ((Npos (XI (XI (XO (XI (XO (XI (XI
    (XI (XO (XO (XO (XO (XO (XO (XO (XO (XO (XO (XO (XO (XO (XO (XO (XO (XO
    (XO (XI (XO (XI (XO (XO XH)))))))))))))))))))))))))))))))) :: ((Npos (XO
    (XI (XI (XO (XO (XO (XO (XO (XI (XO (XO (XO (XO (XO (XO (XO (XO (XO (XO
    (XO (XO (XO (XO (XO (XO (XO (XI (XO (XI (XI
    XH))))))))))))))))))))))))))))))) :: ((Npos (XI (XO (XI (XI (XI (XO (XI
    (XO (XO (XO (XO (XO (XO (XO (XO (XO (XO (XO (XO (XO (XO (XO (XO (XO (XO
    (XO (XI (XO (XO (XO (XO XH)))))))))))))))))))))))))))))))) :: ((Npos (XI
    (XO (XI (XI (XI (XO (XO (XO (XO (XO (XO (XO (XO (XO (XO (XO (XO (XO (XO
    (XO (XO (XO (XO (XO (XO (XO (XI (XO (XO (XO (XO
    XH)))))))))))))))))))))))))))))))) :: ((Npos (XI (XI (XO (XI (XI (XO (XO
    (XI (XO (XO (XO (XO (XO (XO (XO (XO (XO (XO (XO (XO (XO (XO (XO (XO (XO
    (XO (XI (XO (XI (XO (XO XH)))))))))))))))))))))))))))))))) :: ((Npos (XO
    (XO (XI (XO (XI (XO (XI (XO (XI (XO (XO (XO (XO (XO (XO (XO (XO (XO (XO
    (XO (XO (XO (XO (XO (XO (XO (XI (XO (XI (XI (XO
    XH)))))))))))))))))))))))))))))))) :: ((Npos (XI (XO (XI (XI (XI (XI (XI
    (XO (XO (XO (XO (XO (XO (XO (XO (XO (XO (XO (XO (XO (XO (XO (XO (XO (XO
    (XO (XI (XO (XO (XO (XO XH)))))))))))))))))))))))))))))))) :: ((Npos (XI
    (XO (XI (XI (XI (XI (XO (XO (XO (XO (XO (XO (XO (XO (XO (XO (XO (XO (XO
    (XO (XO (XO (XO (XO (XO (XO (XI (XO (XO (XO (XO
    XH)))))))))))))))))))))))))))))))) :: ((Npos (XI (XI (XO (XI (XI (XO (XI
    (XI (XO (XO (XO (XO (XO (XO (XO (XO (XO (XO (XO (XO (XO (XO (XO (XO (XO
    (XO (XI (XO (XI (XO (XO XH)))))))))))))))))))))))))))))))) :: ((Npos (XO
    (XO (XO (XI (XI (XO (XO (XO (XI (XO (XO (XO (XO (XO (XO (XO (XO (XO (XO
    (XO (XO (XO (XO (XO (XO (XO (XI (XO (XI (XO (XO
    XH)))))))))))))))))))))))))))))))) :: ((Npos (XI (XO (XI (XI (XO (XI (XI
    (XO (XO (XO (XO (XO (XO (XO (XO (XO (XO (XO (XO (XO (XO (XO (XO (XO (XO
    (XO (XI (XO (XO (XO (XO XH)))))))))))))))))))))))))))))))) :: ((Npos (XI
    (XO (XI (XI (XO (XI (XO (XO (XO (XO (XO (XO (XO (XO (XO (XO (XO (XO (XO
    (XO (XO (XO (XO (XO (XO (XO (XI (XO (XO (XO (XO
    XH)))))))))))))))))))))))))))))))) :: ((Npos (XI (XI (XO (XI (XI (XI (XO
    (XI (XO (XO (XO (XO (XO (XO (XO (XO (XO (XO (XO (XO (XO (XO (XO (XO (XO
    (XO (XI (XO (XI (XO (XO XH)))))))))))))))))))))))))))))))) :: ((Npos (XI
    (XO (XI (XI (XO (XO (XO (XO (XO (XO (XO (XO (XO (XO (XO (XO (XO (XO (XO
    (XO (XO (XO (XO (XO (XO (XO (XI (XO (XO (XO (XO
    XH)))))))))))))))))))))))))))))))) :: ((Npos (XI (XO (XI (XI (XO (XO (XO
    (XI (XO (XO (XO (XO (XO (XO (XO (XO (XO (XO (XO (XO (XO (XO (XO (XO (XO
    (XO (XI (XO (XO (XO (XO XH)))))))))))))))))))))))))))))))) :: ((Npos (XI
    (XO (XI (XI (XO (XO (XI (XO (XO (XO (XO (XO (XO (XO (XO (XO (XO (XO (XO
    (XO (XO (XO (XO (XO (XO (XO (XI (XO (XO (XO (XO
    XH)))))))))))))))))))))))))))))))) :: ((Npos (XI (XI (XO (XI (XI (XI (XI
    (XI (XO (XO (XO (XO (XO (XO (XO (XO (XO (XO (XO (XO (XO (XO (XO (XO (XO
    (XO (XI (XO (XI (XO (XO XH)))))))))))))))))))))))))))))))) :: ((Npos (XI
    (XO (XO (XO (XO (XO (XO (XO (XI (XO (XO (XO (XO (XO (XO (XO (XO (XO (XO
    (XO (XO (XO (XO (XO (XO (XO (XI (XO (XI (XI
    XH))))))))))))))))))))))))))))))) :: ((Npos (XI (XI (XO (XO (XI (XO (XI
    (XO (XO (XO (XO (XO (XO (XO (XO (XO (XO (XO (XO (XO (XO (XO (XO (XO (XO
    (XO (XI (XO (XO (XO (XO XH)))))))))))))))))))))))))))))))) :: ((Npos (XI
    (XI (XO (XO (XI (XO (XO (XO (XO (XO (XO (XO (XO (XO (XO (XO (XO (XO (XO
    (XO (XO (XO (XO (XO (XO (XO (XI (XO (XO (XO (XO
    XH)))))))))))))))))))))))))))))))) :: ((Npos (XO (XI (XO (XO (XO (XO (XI
    (XO (XO (XO (XO (XO (XO (XO (XO (XO (XO (XO (XO (XO (XO (XO (XO (XO (XO
    (XI (XI (XO (XI XH)))))))))))))))))))))))))))))) :: ((Npos (XO (XO (XI
    (XO (XO (XI (XO (XO (XI (XO (XO (XO (XO (XO (XO (XO (XO (XO (XO (XO (XO
    (XO (XO (XO (XO (XO (XI (XO (XO (XI (XO
    XH)))))))))))))))))))))))))))))))) :: ((Npos (XI (XI (XO (XO (XI (XI (XI
    (XO (XO (XO (XO (XO (XO (XO (XO (XO (XO (XO (XO (XO (XO (XO (XO (XO (XO
    (XO (XI (XO (XO (XO (XO XH)))))))))))))))))))))))))))))))) :: ((Npos (XI
    (XI (XO (XO (XI (XI (XO (XO (XO (XO (XO (XO (XO (XO (XO (XO (XO (XO (XO
    (XO (XO (XO (XO (XO (XO (XO (XI (XO (XO (XO (XO
    XH)))))))))))))))))))))))))))))))) :: ((Npos (XI (XI (XI (XO (XO (XO (XI
    (XI (XO (XO (XO (XO (XO (XO (XO (XO (XO (XO (XO (XO (XO (XO (XO (XO (XO
    (XO (XI (XO (XI (XO (XO XH)))))))))))))))))))))))))))))))) :: ((Npos (XO
    (XI (XO (XI (XO (XO (XO (XO (XI (XO (XO (XO (XO (XO (XO (XO (XO (XO (XO
    (XO (XO (XO (XO (XO (XO (XO (XI (XO (XO (XO (XO
    XH)))))))))))))))))))))))))))))))) :: ((Npos (XI (XI (XO (XO (XO (XI (XI
    (XO (XO (XO (XO (XO (XO (XO (XO (XO (XO (XO (XO (XO (XO (XO (XO (XO (XO
    (XO (XI (XO (XO (XO (XO XH)))))))))))))))))))))))))))))))) :: ((Npos (XI
    (XI (XO (XO (XO (XI (XO (XO (XO (XO (XO (XO (XO (XO (XO (XO (XO (XO (XO
    (XO (XO (XO (XO (XO (XO (XO (XI (XO (XO (XO (XO
    XH)))))))))))))))))))))))))))))))) :: ((Npos (XI (XI (XI (XO (XO (XI (XO
    (XI (XO (XO (XO (XO (XO (XO (XO (XO (XO (XO (XO (XO (XO (XO (XO (XO (XO
    (XO (XI (XO (XI (XO (XO XH)))))))))))))))))))))))))))))))) :: ((Npos (XI
    (XI (XO (XO (XO (XO (XO (XO (XO (XO (XO (XO (XO (XO (XO (XO (XO (XO (XO
    (XO (XO (XO (XO (XO (XO (XO (XI (XO (XO (XO (XO
    XH)))))))))))))))))))))))))))))))) :: ((Npos (XI (XI (XO (XO (XO (XO (XO
    (XI (XO (XO (XO (XO (XO (XO (XO (XO (XO (XO (XO (XO (XO (XO (XO (XO (XO
    (XO (XI (XO (XO (XO (XO XH)))))))))))))))))))))))))))))))) :: ((Npos (XI
    (XI (XO (XO (XO (XO (XI (XO (XO (XO (XO (XO (XO (XO (XO (XO (XO (XO (XO
    (XO (XO (XO (XO (XO (XO (XO (XI (XO (XO (XO (XO
    XH)))))))))))))))))))))))))))))))) :: ((Npos (XI (XI (XI (XO (XO (XI (XI
    (XI (XO (XO (XO (XO (XO (XO (XO (XO (XO (XO (XO (XO (XO (XO (XO (XO (XO
    (XO (XI (XO (XI (XO (XO XH)))))))))))))))))))))))))))))))) :: ((Npos (XI
    (XO (XI (XO (XO (XO (XO (XO (XI (XO (XO (XO (XO (XO (XO (XO (XO (XO (XO
    (XO (XO (XO (XO (XO (XO (XO (XI (XO (XI (XI
    XH))))))))))))))))))))))))))))))) :: ((Npos (XI (XI (XO (XI (XI (XO (XI
    (XO (XO (XO (XO (XO (XO (XO (XO (XO (XO (XO (XO (XO (XO (XO (XO (XO (XO
    (XO (XI (XO (XO (XO (XO XH)))))))))))))))))))))))))))))))) :: ((Npos (XI
    (XI (XO (XI (XI (XO (XO (XO (XO (XO (XO (XO (XO (XO (XO (XO (XO (XO (XO
    (XO (XO (XO (XO (XO (XO (XO (XI (XO (XO (XO (XO
    XH)))))))))))))))))))))))))))))))) :: ((Npos (XI (XI (XI (XO (XI (XO (XO
    (XI (XO (XO (XO (XO (XO (XO (XO (XO (XO (XO (XO (XO (XO (XO (XO (XO (XO
    (XO (XI (XO (XI (XO (XO XH)))))))))))))))))))))))))))))))) :: ((Npos (XO
    (XO (XI (XO (XO (XO (XI (XO (XI (XO (XO (XO (XO (XO (XO (XO (XO (XO (XO
    (XO (XO (XO (XO (XO (XO (XO (XI (XO (XI (XI (XO
    XH)))))))))))))))))))))))))))))))) :: ((Npos (XI (XI (XO (XI (XI (XI (XI
    (XO (XO (XO (XO (XO (XO (XO (XO (XO (XO (XO (XO (XO (XO (XO (XO (XO (XO
    (XO (XI (XO (XO (XO (XO XH)))))))))))))))))))))))))))))))) :: ((Npos (XI
    (XI (XO (XI (XI (XI (XO (XO (XO (XO (XO (XO (XO (XO (XO (XO (XO (XO (XO
    (XO (XO (XO (XO (XO (XO (XO (XI (XO (XO (XO (XO
    XH)))))))))))))))))))))))))))))))) :: ((Npos (XI (XI (XI (XO (XI (XO (XI
    (XI (XO (XO (XO (XO (XO (XO (XO (XO (XO (XO (XO (XO (XO (XO (XO (XO (XO
    (XO (XI (XO (XI (XO (XO XH)))))))))))))))))))))))))))))))) :: ((Npos (XO
    (XO (XI (XO (XI (XO (XO (XO (XI (XO (XO (XO (XO (XO (XO (XO (XO (XO (XO
    (XO (XO (XO (XO (XO (XO (XO (XI (XO (XI (XO (XO
    XH)))))))))))))))))))))))))))))))) :: ((Npos (XI (XI (XO (XI (XO (XI (XI
    (XO (XO (XO (XO (XO (XO (XO (XO (XO (XO (XO (XO (XO (XO (XO (XO (XO (XO
    (XO (XI (XO (XO (XO (XO XH)))))))))))))))))))))))))))))))) :: ((Npos (XI
    (XI (XO (XI (XO (XI (XO (XO (XO (XO (XO (XO (XO (XO (XO (XO (XO (XO (XO
    (XO (XO (XO (XO (XO (XO (XO (XI (XO (XO (XO (XO
    XH)))))))))))))))))))))))))))))))) :: ((Npos (XI (XI (XI (XO (XI (XI (XO
    (XI (XO (XO (XO (XO (XO (XO (XO (XO (XO (XO (XO (XO (XO (XO (XO (XO (XO
    (XO (XI (XO (XI (XO (XO XH)))))))))))))))))))))))))))))))) :: ((Npos (XI
    (XI (XO (XI (XO (XO (XO (XO (XO (XO (XO (XO (XO (XO (XO (XO (XO (XO (XO
    (XO (XO (XO (XO (XO (XO (XO (XI (XO (XO (XO (XO
    XH)))))))))))))))))))))))))))))))) :: ((Npos (XI (XI (XO (XI (XO (XO (XO
    (XI (XO (XO (XO (XO (XO (XO (XO (XO (XO (XO (XO (XO (XO (XO (XO (XO (XO
    (XO (XI (XO (XO (XO (XO XH)))))))))))))))))))))))))))))))) :: ((Npos (XI
    (XI (XO (XI (XO (XO (XI (XO (XO (XO (XO (XO (XO (XO (XO (XO (XO (XO (XO
    (XO (XO (XO (XO (XO (XO (XO (XI (XO (XO (XO (XO
    XH)))))))))))))))))))))))))))))))) :: ((Npos (XI (XI (XI (XO (XI (XI (XI
    (XI (XO (XO (XO (XO (XO (XO (XO (XO (XO (XO (XO (XO (XO (XO (XO (XO (XO
    (XO (XI (XO (XI (XO (XO XH)))))))))))))))))))))))))))))))) :: ((Npos (XI
    (XI (XO (XO (XO (XO (XO (XO (XI (XO (XO (XO (XO (XO (XO (XO (XO (XO (XO
    (XO (XO (XO (XO (XO (XO (XO (XI (XO (XI (XI
    XH))))))))))))))))))))))))))))))) :: ((Npos (XI (XI (XI (XO (XI (XO (XI
    (XO (XO (XO (XO (XO (XO (XO (XO (XO (XO (XO (XO (XO (XO (XO (XO (XO (XO
    (XO (XI (XO (XO (XO (XO XH)))))))))))))))))))))))))))))))) :: ((Npos (XI
    (XI (XI (XO (XI (XO (XO (XO (XO (XO (XO (XO (XO (XO (XO (XO (XO (XO (XO
    (XO (XO (XO (XO (XO (XO (XO (XI (XO (XO (XO (XO
    XH)))))))))))))))))))))))))))))))) :: (N0 :: ((Npos (XO (XO (XI (XO (XI
    (XI (XO (XO (XI (XO (XO (XO (XO (XO (XO (XO (XO (XO (XO (XO (XO (XO (XO
    (XO (XO (XO (XI (XO (XO (XI (XO
    XH)))))))))))))))))))))))))))))))) :: ((Npos (XI (XI (XI (XO (XI (XI (XI
    (XO (XO (XO (XO (XO (XO (XO (XO (XO (XO (XO (XO (XO (XO (XO (XO (XO (XO
    (XO (XI (XO (XO (XO (XO XH)))))))))))))))))))))))))))))))) :: ((Npos (XI
    (XI (XI (XO (XI (XI (XO (XO (XO (XO (XO (XO (XO (XO (XO (XO (XO (XO (XO
    (XO (XO (XO (XO (XO (XO (XO (XI (XO (XO (XO (XO
    XH)))))))))))))))))))))))))))))))) :: ((Npos (XI (XI (XI (XI (XO (XO (XI
    (XI (XO (XO (XO (XO (XO (XO (XO (XO (XO (XO (XO (XO (XO (XO (XO (XO (XO
    (XO (XI (XO (XI (XO (XO XH)))))))))))))))))))))))))))))))) :: ((Npos (XO
    (XI (XI (XI (XO (XO (XO (XO (XI (XO (XO (XO (XO (XO (XO (XO (XO (XO (XO
    (XO (XO (XO (XO (XO (XO (XO (XI (XO (XO (XO (XO
    XH)))))))))))))))))))))))))))))))) :: ((Npos (XI (XI (XI (XO (XO (XI (XI
    (XO (XO (XO (XO (XO (XO (XO (XO (XO (XO (XO (XO (XO (XO (XO (XO (XO (XO
    (XO (XI (XO (XO (XO (XO XH)))))))))))))))))))))))))))))))) :: ((Npos (XI
    (XI (XI (XO (XO (XI (XO (XO (XO (XO (XO (XO (XO (XO (XO (XO (XO (XO (XO
    (XO (XO (XO (XO (XO (XO (XO (XI (XO (XO (XO (XO
    XH)))))))))))))))))))))))))))))))) :: ((Npos (XI (XI (XI (XI (XO (XI (XO
    (XI (XO (XO (XO (XO (XO (XO (XO (XO (XO (XO (XO (XO (XO (XO (XO (XO (XO
    (XO (XI (XO (XI (XO (XO XH)))))))))))))))))))))))))))))))) :: ((Npos (XI
    (XI (XI (XO (XO (XO (XO (XO (XO (XO (XO (XO (XO (XO (XO (XO (XO (XO (XO
    (XO (XO (XO (XO (XO (XO (XO (XI (XO (XO (XO (XO
    XH)))))))))))))))))))))))))))))))) :: ((Npos (XI (XI (XI (XO (XO (XO (XO
    (XI (XO (XO (XO (XO (XO (XO (XO (XO (XO (XO (XO (XO (XO (XO (XO (XO (XO
    (XO (XI (XO (XO (XO (XO XH)))))))))))))))))))))))))))))))) :: ((Npos (XI
    (XI (XI (XO (XO (XO (XI (XO (XO (XO (XO (XO (XO (XO (XO (XO (XO (XO (XO
    (XO (XO (XO (XO (XO (XO (XO (XI (XO (XO (XO (XO
    XH)))))))))))))))))))))))))))))))) :: ((Npos (XI (XI (XI (XI (XO (XI (XI
    (XI (XO (XO (XO (XO (XO (XO (XO (XO (XO (XO (XO (XO (XO (XO (XO (XO (XO
    (XO (XI (XO (XI (XO (XO XH)))))))))))))))))))))))))))))))) :: ((Npos (XI
    (XI (XI (XO (XO (XO (XO (XO (XI (XO (XO (XO (XO (XO (XO (XO (XO (XO (XO
    (XO (XO (XO (XO (XO (XO (XO (XI (XO (XI (XI
    XH))))))))))))))))))))))))))))))) :: ((Npos (XI (XI (XI (XI (XI (XO (XI
    (XO (XO (XO (XO (XO (XO (XO (XO (XO (XO (XO (XO (XO (XO (XO (XO (XO (XO
    (XO (XI (XO (XO (XO (XO XH)))))))))))))))))))))))))))))))) :: ((Npos (XI
    (XI (XI (XI (XI (XO (XO (XO (XO (XO (XO (XO (XO (XO (XO (XO (XO (XO (XO
    (XO (XO (XO (XO (XO (XO (XO (XI (XO (XO (XO (XO
    XH)))))))))))))))))))))))))))))))) :: ((Npos (XI (XI (XI (XI (XI (XO (XO
    (XI (XO (XO (XO (XO (XO (XO (XO (XO (XO (XO (XO (XO (XO (XO (XO (XO (XO
    (XO (XI (XO (XI (XO (XO XH)))))))))))))))))))))))))))))))) :: ((Npos (XO
    (XO (XI (XO (XO (XI (XI (XO (XI (XO (XO (XO (XO (XO (XO (XO (XO (XO (XO
    (XO (XO (XO (XO (XO (XO (XO (XI (XO (XI (XI (XO
    XH)))))))))))))))))))))))))))))))) :: ((Npos (XI (XI (XI (XI (XI (XI (XI
    (XO (XO (XO (XO (XO (XO (XO (XO (XO (XO (XO (XO (XO (XO (XO (XO (XO (XO
    (XO (XI (XO (XO (XO (XO XH)))))))))))))))))))))))))))))))) :: ((Npos (XI
    (XI (XI (XI (XI (XI (XO (XO (XO (XO (XO (XO (XO (XO (XO (XO (XO (XO (XO
    (XO (XO (XO (XO (XO (XO (XO (XI (XO (XO (XO (XO
    XH)))))))))))))))))))))))))))))))) :: ((Npos (XI (XI (XI (XI (XI (XO (XI
    (XI (XO (XO (XO (XO (XO (XO (XO (XO (XO (XO (XO (XO (XO (XO (XO (XO (XO
    (XO (XI (XO (XI (XO (XO XH)))))))))))))))))))))))))))))))) :: ((Npos (XO
    (XO (XI (XI (XI (XO (XO (XO (XI (XO (XO (XO (XO (XO (XO (XO (XO (XO (XO
    (XO (XO (XO (XO (XO (XO (XO (XI (XO (XI (XO (XO
    XH)))))))))))))))))))))))))))))))) :: ((Npos (XI (XI (XI (XI (XO (XI (XI
    (XO (XO (XO (XO (XO (XO (XO (XO (XO (XO (XO (XO (XO (XO (XO (XO (XO (XO
    (XO (XI (XO (XO (XO (XO XH)))))))))))))))))))))))))))))))) :: ((Npos (XI
    (XI (XI (XI (XO (XI (XO (XO (XO (XO (XO (XO (XO (XO (XO (XO (XO (XO (XO
    (XO (XO (XO (XO (XO (XO (XO (XI (XO (XO (XO (XO
    XH)))))))))))))))))))))))))))))))) :: ((Npos (XI (XI (XI (XI (XI (XI (XO
    (XI (XO (XO (XO (XO (XO (XO (XO (XO (XO (XO (XO (XO (XO (XO (XO (XO (XO
    (XO (XI (XO (XI (XO (XO XH)))))))))))))))))))))))))))))))) :: ((Npos (XI
    (XI (XI (XI (XO (XO (XO (XO (XO (XO (XO (XO (XO (XO (XO (XO (XO (XO (XO
    (XO (XO (XO (XO (XO (XO (XO (XI (XO (XO (XO (XO
    XH)))))))))))))))))))))))))))))))) :: ((Npos (XI (XI (XI (XI (XO (XO (XO
    (XI (XO (XO (XO (XO (XO (XO (XO (XO (XO (XO (XO (XO (XO (XO (XO (XO (XO
    (XO (XI (XO (XO (XO (XO XH)))))))))))))))))))))))))))))))) :: ((Npos (XI
    (XI (XI (XI (XO (XO (XI (XO (XO (XO (XO (XO (XO (XO (XO (XO (XO (XO (XO
    (XO (XO (XO (XO (XO (XO (XO (XI (XO (XO (XO (XO
    XH)))))))))))))))))))))))))))))))) :: ((Npos (XI (XI (XI (XI (XI (XI (XI
    (XI (XO (XO (XO (XO (XO (XO (XO (XO (XO (XO (XO (XO (XO (XO (XO (XO (XO
    (XO (XI (XO (XI (XO (XO XH)))))))))))))))))))))))))))))))) :: ((Npos (XO
    (XO (XO (XO (XO (XO (XO (XO (XI (XO (XO (XO (XO (XO (XO (XO (XO (XO (XO
    (XO (XO (XO (XO (XO (XO (XO (XI (XO (XI (XI
    XH))))))))))))))))))))))))))))))) :: ((Npos (XO (XO (XO (XO (XI (XO (XI
    (XO (XO (XO (XO (XO (XO (XO (XO (XO (XO (XO (XO (XO (XO (XO (XO (XO (XO
    (XO (XI (XO (XO (XO (XO XH)))))))))))))))))))))))))))))))) :: ((Npos (XO
    (XO (XO (XO (XI (XO (XO (XO (XO (XO (XO (XO (XO (XO (XO (XO (XO (XO (XO
    (XO (XO (XO (XO (XO (XO (XO (XI (XO (XO (XO (XO
    XH)))))))))))))))))))))))))))))))) :: ((Npos (XI (XI (XO (XO (XI (XI (XI
    (XO (XI (XO (XO (XO (XO (XO (XO (XO (XO (XO (XO (XO (XO (XO (XO (XO (XO
    (XO (XI (XO (XO (XO (XI XH)))))))))))))))))))))))))))))))) :: ((Npos (XI
    (XO (XI (XI (XI (XO (XO (XO (XI (XO (XO (XO (XO (XO (XO (XO (XO (XO (XO
    (XO (XO (XO (XO (XO (XO (XO (XI (XO (XI (XO (XO
    XH)))))))))))))))))))))))))))))))) :: ((Npos (XO (XO (XO (XO (XI (XI (XI
    (XO (XO (XO (XO (XO (XO (XO (XO (XO (XO (XO (XO (XO (XO (XO (XO (XO (XO
    (XO (XI (XO (XO (XO (XO XH)))))))))))))))))))))))))))))))) :: ((Npos (XO
    (XO (XO (XO (XI (XI (XO (XO (XO (XO (XO (XO (XO (XO (XO (XO (XO (XO (XO
    (XO (XO (XO (XO (XO (XO (XO (XI (XO (XO (XO (XO
    XH)))))))))))))))))))))))))))))))) :: ((Npos (XO (XO (XO (XO (XO (XO (XI
    (XI (XO (XO (XO (XO (XO (XO (XO (XO (XO (XO (XO (XO (XO (XO (XO (XO (XO
    (XO (XI (XO (XI (XO (XO XH)))))))))))))))))))))))))))))))) :: ((Npos (XO
    (XO (XO (XI (XO (XO (XO (XO (XI (XO (XO (XO (XO (XO (XO (XO (XO (XO (XO
    (XO (XO (XO (XO (XO (XO (XO (XI (XO (XI (XI
    XH))))))))))))))))))))))))))))))) :: ((Npos (XO (XO (XO (XO (XO (XI (XI
    (XO (XO (XO (XO (XO (XO (XO (XO (XO (XO (XO (XO (XO (XO (XO (XO (XO (XO
    (XO (XI (XO (XO (XO (XO XH)))))))))))))))))))))))))))))))) :: ((Npos (XO
    (XO (XO (XO (XO (XI (XO (XO (XO (XO (XO (XO (XO (XO (XO (XO (XO (XO (XO
    (XO (XO (XO (XO (XO (XO (XO (XI (XO (XO (XO (XO
    XH)))))))))))))))))))))))))))))))) :: ((Npos (XO (XO (XO (XO (XO (XI (XO
    (XI (XO (XO (XO (XO (XO (XO (XO (XO (XO (XO (XO (XO (XO (XO (XO (XO (XO
    (XO (XI (XO (XI (XO (XO XH)))))))))))))))))))))))))))))))) :: ((Npos (XO
    (XO (XO (XO (XO (XO (XO (XO (XO (XO (XO (XO (XO (XO (XO (XO (XO (XO (XO
    (XO (XO (XO (XO (XO (XO (XO (XI (XO (XO (XO (XO
    XH)))))))))))))))))))))))))))))))) :: ((Npos (XO (XO (XO (XO (XO (XO (XO
    (XI (XO (XO (XO (XO (XO (XO (XO (XO (XO (XO (XO (XO (XO (XO (XO (XO (XO
    (XO (XI (XO (XO (XO (XO XH)))))))))))))))))))))))))))))))) :: ((Npos (XO
    (XO (XO (XO (XO (XO (XI (XO (XO (XO (XO (XO (XO (XO (XO (XO (XO (XO (XO
    (XO (XO (XO (XO (XO (XO (XO (XI (XO (XO (XO (XO
    XH)))))))))))))))))))))))))))))))) :: ((Npos (XO (XO (XO (XO (XO (XI (XI
    (XI (XO (XO (XO (XO (XO (XO (XO (XO (XO (XO (XO (XO (XO (XO (XO (XO (XO
    (XO (XI (XO (XI (XO (XO XH)))))))))))))))))))))))))))))))) :: ((Npos (XO
    (XO (XI (XO (XO (XO (XO (XO (XI (XO (XO (XO (XO (XO (XO (XO (XO (XO (XO
    (XO (XO (XO (XO (XO (XO (XO (XI (XO (XI (XI
    XH))))))))))))))))))))))))))))))) :: ((Npos (XO (XO (XO (XI (XI (XO (XI
    (XO (XO (XO (XO (XO (XO (XO (XO (XO (XO (XO (XO (XO (XO (XO (XO (XO (XO
    (XO (XI (XO (XO (XO (XO XH)))))))))))))))))))))))))))))))) :: ((Npos (XO
    (XO (XO (XI (XI (XO (XO (XO (XO (XO (XO (XO (XO (XO (XO (XO (XO (XO (XO
    (XO (XO (XO (XO (XO (XO (XO (XI (XO (XO (XO (XO
    XH)))))))))))))))))))))))))))))))) :: ((Npos (XO (XO (XO (XO (XI (XO (XO
    (XI (XO (XO (XO (XO (XO (XO (XO (XO (XO (XO (XO (XO (XO (XO (XO (XO (XO
    (XO (XI (XO (XI (XO (XO XH)))))))))))))))))))))))))))))))) :: ((Npos (XI
    (XO (XI (XI (XI (XI (XO (XO (XI (XO (XO (XO (XO (XO (XO (XO (XO (XO (XO
    (XO (XO (XO (XO (XO (XO (XO (XI (XO (XO (XI (XO
    XH)))))))))))))))))))))))))))))))) :: ((Npos (XO (XO (XO (XI (XI (XI (XI
    (XO (XO (XO (XO (XO (XO (XO (XO (XO (XO (XO (XO (XO (XO (XO (XO (XO (XO
    (XO (XI (XO (XO (XO (XO XH)))))))))))))))))))))))))))))))) :: ((Npos (XO
    (XO (XO (XI (XI (XI (XO (XO (XO (XO (XO (XO (XO (XO (XO (XO (XO (XO (XO
    (XO (XO (XO (XO (XO (XO (XO (XI (XO (XO (XO (XO
    XH)))))))))))))))))))))))))))))))) :: ((Npos (XO (XO (XO (XO (XI (XO (XI
    (XI (XO (XO (XO (XO (XO (XO (XO (XO (XO (XO (XO (XO (XO (XO (XO (XO (XO
    (XO (XI (XO (XI (XO (XO XH)))))))))))))))))))))))))))))))) :: ((Npos (XI
    (XI (XI (XI (XO (XO (XO (XO (XI (XO (XO (XO (XO (XO (XO (XO (XO (XO (XO
    (XO (XO (XO (XO (XO (XO (XO (XI (XO (XO (XO (XO
    XH)))))))))))))))))))))))))))))))) :: ((Npos (XO (XO (XO (XI (XO (XI (XI
    (XO (XO (XO (XO (XO (XO (XO (XO (XO (XO (XO (XO (XO (XO (XO (XO (XO (XO
    (XO (XI (XO (XO (XO (XO XH)))))))))))))))))))))))))))))))) :: ((Npos (XO
    (XO (XO (XI (XO (XI (XO (XO (XO (XO (XO (XO (XO (XO (XO (XO (XO (XO (XO
    (XO (XO (XO (XO (XO (XO (XO (XI (XO (XO (XO (XO
    XH)))))))))))))))))))))))))))))))) :: ((Npos (XO (XO (XO (XO (XI (XI (XO
    (XI (XO (XO (XO (XO (XO (XO (XO (XO (XO (XO (XO (XO (XO (XO (XO (XO (XO
    (XO (XI (XO (XI (XO (XO XH)))))))))))))))))))))))))))))))) :: ((Npos (XO
    (XO (XO (XI (XO (XO (XO (XO (XO (XO (XO (XO (XO (XO (XO (XO (XO (XO (XO
    (XO (XO (XO (XO (XO (XO (XO (XI (XO (XO (XO (XO
    XH)))))))))))))))))))))))))))))))) :: ((Npos (XO (XO (XO (XI (XO (XO (XO
    (XI (XO (XO (XO (XO (XO (XO (XO (XO (XO (XO (XO (XO (XO (XO (XO (XO (XO
    (XO (XI (XO (XO (XO (XO XH)))))))))))))))))))))))))))))))) :: ((Npos (XO
    (XO (XO (XI (XO (XO (XI (XO (XO (XO (XO (XO (XO (XO (XO (XO (XO (XO (XO
    (XO (XO (XO (XO (XO (XO (XO (XI (XO (XO (XO (XO
    XH)))))))))))))))))))))))))))))))) :: ((Npos (XO (XO (XO (XO (XI (XI (XI
    (XI (XO (XO (XO (XO (XO (XO (XO (XO (XO (XO (XO (XO (XO (XO (XO (XO (XO
    (XO (XI (XO (XI (XO (XO XH)))))))))))))))))))))))))))))))) :: ((Npos (XO
    (XI (XO (XO (XO (XO (XO (XO (XI (XO (XO (XO (XO (XO (XO (XO (XO (XO (XO
    (XO (XO (XO (XO (XO (XO (XO (XI (XO (XI (XI
    XH))))))))))))))))))))))))))))))) :: ((Npos (XO (XO (XI (XO (XI (XO (XI
    (XO (XO (XO (XO (XO (XO (XO (XO (XO (XO (XO (XO (XO (XO (XO (XO (XO (XO
    (XO (XI (XO (XO (XO (XO XH)))))))))))))))))))))))))))))))) :: ((Npos (XO
    (XO (XI (XO (XI (XO (XO (XO (XO (XO (XO (XO (XO (XO (XO (XO (XO (XO (XO
    (XO (XO (XO (XO (XO (XO (XO (XI (XO (XO (XO (XO
    XH)))))))))))))))))))))))))))))))) :: ((Npos (XO (XO (XI (XO (XO (XI (XI
    (XO (XO (XO (XO (XO (XO (XO (XO (XO (XO (XO (XO (XO (XO (XO (XO (XO (XO
    (XI (XI (XO (XI XH)))))))))))))))))))))))))))))) :: ((Npos (XI (XO (XI
    (XI (XO (XI (XO (XO (XI (XO (XO (XO (XO (XO (XO (XO (XO (XO (XO (XO (XO
    (XO (XO (XO (XO (XO (XI (XO (XO (XI (XO
    XH)))))))))))))))))))))))))))))))) :: ((Npos (XO (XO (XI (XO (XI (XI (XI
    (XO (XO (XO (XO (XO (XO (XO (XO (XO (XO (XO (XO (XO (XO (XO (XO (XO (XO
    (XO (XI (XO (XO (XO (XO XH)))))))))))))))))))))))))))))))) :: ((Npos (XO
    (XO (XI (XO (XI (XI (XO (XO (XO (XO (XO (XO (XO (XO (XO (XO (XO (XO (XO
    (XO (XO (XO (XO (XO (XO (XO (XI (XO (XO (XO (XO
    XH)))))))))))))))))))))))))))))))) :: ((Npos (XO (XO (XO (XI (XO (XO (XI
    (XI (XO (XO (XO (XO (XO (XO (XO (XO (XO (XO (XO (XO (XO (XO (XO (XO (XO
    (XO (XI (XO (XI (XO (XO XH)))))))))))))))))))))))))))))))) :: ((Npos (XI
    (XI (XO (XI (XO (XO (XO (XO (XI (XO (XO (XO (XO (XO (XO (XO (XO (XO (XO
    (XO (XO (XO (XO (XO (XO (XO (XI (XO (XO (XO (XO
    XH)))))))))))))))))))))))))))))))) :: ((Npos (XO (XO (XI (XO (XO (XI (XI
    (XO (XO (XO (XO (XO (XO (XO (XO (XO (XO (XO (XO (XO (XO (XO (XO (XO (XO
    (XO (XI (XO (XO (XO (XO XH)))))))))))))))))))))))))))))))) :: ((Npos (XO
    (XO (XI (XO (XO (XI (XO (XO (XO (XO (XO (XO (XO (XO (XO (XO (XO (XO (XO
    (XO (XO (XO (XO (XO (XO (XO (XI (XO (XO (XO (XO
    XH)))))))))))))))))))))))))))))))) :: ((Npos (XO (XO (XO (XI (XO (XI (XO
    (XI (XO (XO (XO (XO (XO (XO (XO (XO (XO (XO (XO (XO (XO (XO (XO (XO (XO
    (XO (XI (XO (XI (XO (XO XH)))))))))))))))))))))))))))))))) :: ((Npos (XO
    (XO (XI (XO (XO (XO (XO (XO (XO (XO (XO (XO (XO (XO (XO (XO (XO (XO (XO
    (XO (XO (XO (XO (XO (XO (XO (XI (XO (XO (XO (XO
    XH)))))))))))))))))))))))))))))))) :: ((Npos (XO (XO (XI (XO (XO (XO (XO
    (XI (XO (XO (XO (XO (XO (XO (XO (XO (XO (XO (XO (XO (XO (XO (XO (XO (XO
    (XO (XI (XO (XO (XO (XO XH)))))))))))))))))))))))))))))))) :: ((Npos (XO
    (XO (XI (XO (XO (XO (XI (XO (XO (XO (XO (XO (XO (XO (XO (XO (XO (XO (XO
    (XO (XO (XO (XO (XO (XO (XO (XI (XO (XO (XO (XO
    XH)))))))))))))))))))))))))))))))) :: ((Npos (XO (XO (XO (XI (XO (XI (XI
    (XI (XO (XO (XO (XO (XO (XO (XO (XO (XO (XO (XO (XO (XO (XO (XO (XO (XO
    (XO (XI (XO (XI (XO (XO XH)))))))))))))))))))))))))))))))) :: ((Npos (XO
    (XI (XI (XO (XO (XO (XO (XO (XI (XO (XO (XO (XO (XO (XO (XO (XO (XO (XO
    (XO (XO (XO (XO (XO (XO (XO (XI (XO (XI (XI
    XH))))))))))))))))))))))))))))))) :: ((Npos (XO (XO (XI (XI (XI (XO (XI
    (XO (XO (XO (XO (XO (XO (XO (XO (XO (XO (XO (XO (XO (XO (XO (XO (XO (XO
    (XO (XI (XO (XO (XO (XO XH)))))))))))))))))))))))))))))))) :: ((Npos (XO
    (XO (XI (XI (XI (XO (XO (XO (XO (XO (XO (XO (XO (XO (XO (XO (XO (XO (XO
    (XO (XO (XO (XO (XO (XO (XO (XI (XO (XO (XO (XO
    XH)))))))))))))))))))))))))))))))) :: ((Npos (XO (XO (XO (XI (XI (XO (XO
    (XI (XO (XO (XO (XO (XO (XO (XO (XO (XO (XO (XO (XO (XO (XO (XO (XO (XO
    (XO (XI (XO (XI (XO (XO XH)))))))))))))))))))))))))))))))) :: ((Npos (XI
    (XO (XI (XO (XI (XO (XI (XO (XI (XO (XO (XO (XO (XO (XO (XO (XO (XO (XO
    (XO (XO (XO (XO (XO (XO (XO (XI (XO (XI (XI (XO
    XH)))))))))))))))))))))))))))))))) :: ((Npos (XO (XO (XI (XI (XI (XI (XI
    (XO (XO (XO (XO (XO (XO (XO (XO (XO (XO (XO (XO (XO (XO (XO (XO (XO (XO
    (XO (XI (XO (XO (XO (XO XH)))))))))))))))))))))))))))))))) :: ((Npos (XO
    (XO (XI (XI (XI (XI (XO (XO (XO (XO (XO (XO (XO (XO (XO (XO (XO (XO (XO
    (XO (XO (XO (XO (XO (XO (XO (XI (XO (XO (XO (XO
    XH)))))))))))))))))))))))))))))))) :: ((Npos (XO (XO (XO (XI (XI (XO (XI
    (XI (XO (XO (XO (XO (XO (XO (XO (XO (XO (XO (XO (XO (XO (XO (XO (XO (XO
    (XO (XI (XO (XI (XO (XO XH)))))))))))))))))))))))))))))))) :: ((Npos (XI
    (XO (XI (XO (XI (XO (XO (XO (XI (XO (XO (XO (XO (XO (XO (XO (XO (XO (XO
    (XO (XO (XO (XO (XO (XO (XO (XI (XO (XI (XO (XO
    XH)))))))))))))))))))))))))))))))) :: ((Npos (XO (XO (XI (XI (XO (XI (XI
    (XO (XO (XO (XO (XO (XO (XO (XO (XO (XO (XO (XO (XO (XO (XO (XO (XO (XO
    (XO (XI (XO (XO (XO (XO XH)))))))))))))))))))))))))))))))) :: ((Npos (XO
    (XO (XI (XI (XO (XI (XO (XO (XO (XO (XO (XO (XO (XO (XO (XO (XO (XO (XO
    (XO (XO (XO (XO (XO (XO (XO (XI (XO (XO (XO (XO
    XH)))))))))))))))))))))))))))))))) :: ((Npos (XO (XO (XO (XI (XI (XI (XO
    (XI (XO (XO (XO (XO (XO (XO (XO (XO (XO (XO (XO (XO (XO (XO (XO (XO (XO
    (XO (XI (XO (XI (XO (XO XH)))))))))))))))))))))))))))))))) :: ((Npos (XO
    (XO (XI (XI (XO (XO (XO (XO (XO (XO (XO (XO (XO (XO (XO (XO (XO (XO (XO
    (XO (XO (XO (XO (XO (XO (XO (XI (XO (XO (XO (XO
    XH)))))))))))))))))))))))))))))))) :: ((Npos (XO (XO (XI (XI (XO (XO (XO
    (XI (XO (XO (XO (XO (XO (XO (XO (XO (XO (XO (XO (XO (XO (XO (XO (XO (XO
    (XO (XI (XO (XO (XO (XO XH)))))))))))))))))))))))))))))))) :: ((Npos (XO
    (XO (XI (XI (XO (XO (XI (XO (XO (XO (XO (XO (XO (XO (XO (XO (XO (XO (XO
    (XO (XO (XO (XO (XO (XO (XO (XI (XO (XO (XO (XO
    XH)))))))))))))))))))))))))))))))) :: ((Npos (XO (XO (XO (XI (XI (XI (XI
    (XI (XO (XO (XO (XO (XO (XO (XO (XO (XO (XO (XO (XO (XO (XO (XO (XO (XO
    (XO (XI (XO (XI (XO (XO XH)))))))))))))))))))))))))))))))) :: ((Npos (XI
    (XO (XO (XO (XO (XO (XO (XO (XI (XO (XO (XO (XO (XO (XO (XO (XO (XO (XO
    (XO (XO (XO (XO (XO (XO (XO (XI (XO (XI (XI
    XH))))))))))))))))))))))))))))))) :: ((Npos (XO (XI (XO (XO (XI (XO (XI
    (XO (XO (XO (XO (XO (XO (XO (XO (XO (XO (XO (XO (XO (XO (XO (XO (XO (XO
    (XO (XI (XO (XO (XO (XO XH)))))))))))))))))))))))))))))))) :: ((Npos (XO
    (XI (XO (XO (XI (XO (XO (XO (XO (XO (XO (XO (XO (XO (XO (XO (XO (XO (XO
    (XO (XO (XO (XO (XO (XO (XO (XI (XO (XO (XO (XO
    XH)))))))))))))))))))))))))))))))) :: ((Npos (XO (XO (XI (XO (XO (XI (XO
    (XO (XO (XO (XO (XO (XO (XO (XO (XO (XO (XO (XO (XO (XO (XO (XO (XO (XO
    (XI (XI (XO (XI XH)))))))))))))))))))))))))))))) :: ((Npos (XI (XO (XI
    (XO (XO (XI (XO (XO (XI (XO (XO (XO (XO (XO (XO (XO (XO (XO (XO (XO (XO
    (XO (XO (XO (XO (XO (XI (XO (XO (XI (XO
    XH)))))))))))))))))))))))))))))))) :: ((Npos (XO (XI (XO (XO (XI (XI (XI
    (XO (XO (XO (XO (XO (XO (XO (XO (XO (XO (XO (XO (XO (XO (XO (XO (XO (XO
    (XO (XI (XO (XO (XO (XO XH)))))))))))))))))))))))))))))))) :: ((Npos (XO
    (XI (XO (XO (XI (XI (XO (XO (XO (XO (XO (XO (XO (XO (XO (XO (XO (XO (XO
    (XO (XO (XO (XO (XO (XO (XO (XI (XO (XO (XO (XO
    XH)))))))))))))))))))))))))))))))) :: ((Npos (XO (XO (XI (XO (XO (XO (XI
    (XI (XO (XO (XO (XO (XO (XO (XO (XO (XO (XO (XO (XO (XO (XO (XO (XO (XO
    (XO (XI (XO (XI (XO (XO XH)))))))))))))))))))))))))))))))) :: ((Npos (XI
    (XO (XO (XI (XO (XO (XO (XO (XI (XO (XO (XO (XO (XO (XO (XO (XO (XO (XO
    (XO (XO (XO (XO (XO (XO (XO (XI (XO (XO (XO (XO
    XH)))))))))))))))))))))))))))))))) :: ((Npos (XO (XI (XO (XO (XO (XI (XI
    (XO (XO (XO (XO (XO (XO (XO (XO (XO (XO (XO (XO (XO (XO (XO (XO (XO (XO
    (XO (XI (XO (XO (XO (XO XH)))))))))))))))))))))))))))))))) :: ((Npos (XO
    (XI (XO (XO (XO (XI (XO (XO (XO (XO (XO (XO (XO (XO (XO (XO (XO (XO (XO
    (XO (XO (XO (XO (XO (XO (XO (XI (XO (XO (XO (XO
    XH)))))))))))))))))))))))))))))))) :: ((Npos (XO (XO (XI (XO (XO (XI (XO
    (XI (XO (XO (XO (XO (XO (XO (XO (XO (XO (XO (XO (XO (XO (XO (XO (XO (XO
    (XO (XI (XO (XI (XO (XO XH)))))))))))))))))))))))))))))))) :: ((Npos (XO
    (XI (XO (XO (XO (XO (XO (XO (XO (XO (XO (XO (XO (XO (XO (XO (XO (XO (XO
    (XO (XO (XO (XO (XO (XO (XO (XI (XO (XO (XO (XO
    XH)))))))))))))))))))))))))))))))) :: ((Npos (XO (XI (XO (XO (XO (XO (XO
    (XI (XO (XO (XO (XO (XO (XO (XO (XO (XO (XO (XO (XO (XO (XO (XO (XO (XO
    (XO (XI (XO (XO (XO (XO XH)))))))))))))))))))))))))))))))) :: ((Npos (XO
    (XI (XO (XO (XO (XO (XI (XO (XO (XO (XO (XO (XO (XO (XO (XO (XO (XO (XO
    (XO (XO (XO (XO (XO (XO (XO (XI (XO (XO (XO (XO
    XH)))))))))))))))))))))))))))))))) :: ((Npos (XO (XO (XI (XO (XO (XI (XI
    (XI (XO (XO (XO (XO (XO (XO (XO (XO (XO (XO (XO (XO (XO (XO (XO (XO (XO
    (XO (XI (XO (XI (XO (XO XH)))))))))))))))))))))))))))))))) :: ((Npos (XI
    (XO (XI (XO (XO (XO (XO (XO (XI (XO (XO (XO (XO (XO (XO (XO (XO (XO (XO
    (XO (XO (XO (XO (XO (XO (XO (XI (XO (XI (XI
    XH))))))))))))))))))))))))))))))) :: ((Npos (XO (XI (XO (XI (XI (XO (XI
    (XO (XO (XO (XO (XO (XO (XO (XO (XO (XO (XO (XO (XO (XO (XO (XO (XO (XO
    (XO (XI (XO (XO (XO (XO XH)))))))))))))))))))))))))))))))) :: ((Npos (XO
    (XI (XO (XI (XI (XO (XO (XO (XO (XO (XO (XO (XO (XO (XO (XO (XO (XO (XO
    (XO (XO (XO (XO (XO (XO (XO (XI (XO (XO (XO (XO
    XH)))))))))))))))))))))))))))))))) :: ((Npos (XO (XO (XI (XO (XI (XO (XO
    (XI (XO (XO (XO (XO (XO (XO (XO (XO (XO (XO (XO (XO (XO (XO (XO (XO (XO
    (XO (XI (XO (XI (XO (XO XH)))))))))))))))))))))))))))))))) :: ((Npos (XI
    (XO (XI (XO (XO (XO (XI (XO (XI (XO (XO (XO (XO (XO (XO (XO (XO (XO (XO
    (XO (XO (XO (XO (XO (XO (XO (XI (XO (XI (XI (XO
    XH)))))))))))))))))))))))))))))))) :: ((Npos (XO (XI (XO (XI (XI (XI (XI
    (XO (XO (XO (XO (XO (XO (XO (XO (XO (XO (XO (XO (XO (XO (XO (XO (XO (XO
    (XO (XI (XO (XO (XO (XO XH)))))))))))))))))))))))))))))))) :: ((Npos (XO
    (XI (XO (XI (XI (XI (XO (XO (XO (XO (XO (XO (XO (XO (XO (XO (XO (XO (XO
    (XO (XO (XO (XO (XO (XO (XO (XI (XO (XO (XO (XO
    XH)))))))))))))))))))))))))))))))) :: ((Npos (XO (XO (XI (XO (XI (XO (XI
    (XI (XO (XO (XO (XO (XO (XO (XO (XO (XO (XO (XO (XO (XO (XO (XO (XO (XO
    (XO (XI (XO (XI (XO (XO XH)))))))))))))))))))))))))))))))) :: ((Npos (XI
    (XO (XO (XO (XI (XO (XO (XO (XI (XO (XO (XO (XO (XO (XO (XO (XO (XO (XO
    (XO (XO (XO (XO (XO (XO (XO (XI (XO (XI (XO (XO
    XH)))))))))))))))))))))))))))))))) :: ((Npos (XO (XI (XO (XI (XO (XI (XI
    (XO (XO (XO (XO (XO (XO (XO (XO (XO (XO (XO (XO (XO (XO (XO (XO (XO (XO
    (XO (XI (XO (XO (XO (XO XH)))))))))))))))))))))))))))))))) :: ((Npos (XO
    (XI (XO (XI (XO (XI (XO (XO (XO (XO (XO (XO (XO (XO (XO (XO (XO (XO (XO
    (XO (XO (XO (XO (XO (XO (XO (XI (XO (XO (XO (XO
    XH)))))))))))))))))))))))))))))))) :: ((Npos (XO (XO (XI (XO (XI (XI (XO
    (XI (XO (XO (XO (XO (XO (XO (XO (XO (XO (XO (XO (XO (XO (XO (XO (XO (XO
    (XO (XI (XO (XI (XO (XO XH)))))))))))))))))))))))))))))))) :: ((Npos (XO
    (XI (XO (XI (XO (XO (XO (XO (XO (XO (XO (XO (XO (XO (XO (XO (XO (XO (XO
    (XO (XO (XO (XO (XO (XO (XO (XI (XO (XO (XO (XO
    XH)))))))))))))))))))))))))))))))) :: ((Npos (XO (XI (XO (XI (XO (XO (XO
    (XI (XO (XO (XO (XO (XO (XO (XO (XO (XO (XO (XO (XO (XO (XO (XO (XO (XO
    (XO (XI (XO (XO (XO (XO XH)))))))))))))))))))))))))))))))) :: ((Npos (XO
    (XI (XO (XI (XO (XO (XI (XO (XO (XO (XO (XO (XO (XO (XO (XO (XO (XO (XO
    (XO (XO (XO (XO (XO (XO (XO (XI (XO (XO (XO (XO
    XH)))))))))))))))))))))))))))))))) :: ((Npos (XO (XO (XI (XO (XI (XI (XI
    (XI (XO (XO (XO (XO (XO (XO (XO (XO (XO (XO (XO (XO (XO (XO (XO (XO (XO
    (XO (XI (XO (XI (XO (XO XH)))))))))))))))))))))))))))))))) :: ((Npos (XI
    (XI (XO (XO (XO (XO (XO (XO (XI (XO (XO (XO (XO (XO (XO (XO (XO (XO (XO
    (XO (XO (XO (XO (XO (XO (XO (XI (XO (XI (XI
    XH))))))))))))))))))))))))))))))) :: ((Npos (XO (XI (XI (XO (XI (XO (XI
    (XO (XO (XO (XO (XO (XO (XO (XO (XO (XO (XO (XO (XO (XO (XO (XO (XO (XO
    (XO (XI (XO (XO (XO (XO XH)))))))))))))))))))))))))))))))) :: ((Npos (XO
    (XI (XI (XO (XI (XO (XO (XO (XO (XO (XO (XO (XO (XO (XO (XO (XO (XO (XO
    (XO (XO (XO (XO (XO (XO (XO (XI (XO (XO (XO (XO
    XH)))))))))))))))))))))))))))))))) :: (N0 :: ((Npos (XI (XO (XI (XO (XI
    (XI (XO (XO (XI (XO (XO (XO (XO (XO (XO (XO (XO (XO (XO (XO (XO (XO (XO
    (XO (XO (XO (XI (XO (XO (XI (XO
    XH)))))))))))))))))))))))))))))))) :: ((Npos (XO (XI (XI (XO (XI (XI (XI
    (XO (XO (XO (XO (XO (XO (XO (XO (XO (XO (XO (XO (XO (XO (XO (XO (XO (XO
    (XO (XI (XO (XO (XO (XO XH)))))))))))))))))))))))))))))))) :: ((Npos (XO
    (XI (XI (XO (XI (XI (XO (XO (XO (XO (XO (XO (XO (XO (XO (XO (XO (XO (XO
    (XO (XO (XO (XO (XO (XO (XO (XI (XO (XO (XO (XO
    XH)))))))))))))))))))))))))))))))) :: ((Npos (XO (XO (XI (XI (XO (XO (XI
    (XI (XO (XO (XO (XO (XO (XO (XO (XO (XO (XO (XO (XO (XO (XO (XO (XO (XO
    (XO (XI (XO (XI (XO (XO XH)))))))))))))))))))))))))))))))) :: ((Npos (XI
    (XO (XI (XI (XO (XO (XO (XO (XI (XO (XO (XO (XO (XO (XO (XO (XO (XO (XO
    (XO (XO (XO (XO (XO (XO (XO (XI (XO (XO (XO (XO
    XH)))))))))))))))))))))))))))))))) :: ((Npos (XO (XI (XI (XO (XO (XI (XI
    (XO (XO (XO (XO (XO (XO (XO (XO (XO (XO (XO (XO (XO (XO (XO (XO (XO (XO
    (XO (XI (XO (XO (XO (XO XH)))))))))))))))))))))))))))))))) :: ((Npos (XO
    (XI (XI (XO (XO (XI (XO (XO (XO (XO (XO (XO (XO (XO (XO (XO (XO (XO (XO
    (XO (XO (XO (XO (XO (XO (XO (XI (XO (XO (XO (XO
    XH)))))))))))))))))))))))))))))))) :: ((Npos (XO (XO (XI (XI (XO (XI (XO
    (XI (XO (XO (XO (XO (XO (XO (XO (XO (XO (XO (XO (XO (XO (XO (XO (XO (XO
    (XO (XI (XO (XI (XO (XO XH)))))))))))))))))))))))))))))))) :: ((Npos (XO
    (XI (XI (XO (XO (XO (XO (XO (XO (XO (XO (XO (XO (XO (XO (XO (XO (XO (XO
    (XO (XO (XO (XO (XO (XO (XO (XI (XO (XO (XO (XO
    XH)))))))))))))))))))))))))))))))) :: ((Npos (XO (XI (XI (XO (XO (XO (XO
    (XI (XO (XO (XO (XO (XO (XO (XO (XO (XO (XO (XO (XO (XO (XO (XO (XO (XO
    (XO (XI (XO (XO (XO (XO XH)))))))))))))))))))))))))))))))) :: ((Npos (XO
    (XI (XI (XO (XO (XO (XI (XO (XO (XO (XO (XO (XO (XO (XO (XO (XO (XO (XO
    (XO (XO (XO (XO (XO (XO (XO (XI (XO (XO (XO (XO
    XH)))))))))))))))))))))))))))))))) :: ((Npos (XO (XO (XI (XI (XO (XI (XI
    (XI (XO (XO (XO (XO (XO (XO (XO (XO (XO (XO (XO (XO (XO (XO (XO (XO (XO
    (XO (XI (XO (XI (XO (XO XH)))))))))))))))))))))))))))))))) :: ((Npos (XI
    (XI (XI (XO (XO (XO (XO (XO (XI (XO (XO (XO (XO (XO (XO (XO (XO (XO (XO
    (XO (XO (XO (XO (XO (XO (XO (XI (XO (XI (XI
    XH))))))))))))))))))))))))))))))) :: ((Npos (XO (XI (XI (XI (XI (XO (XI
    (XO (XO (XO (XO (XO (XO (XO (XO (XO (XO (XO (XO (XO (XO (XO (XO (XO (XO
    (XO (XI (XO (XO (XO (XO XH)))))))))))))))))))))))))))))))) :: ((Npos (XO
    (XI (XI (XI (XI (XO (XO (XO (XO (XO (XO (XO (XO (XO (XO (XO (XO (XO (XO
    (XO (XO (XO (XO (XO (XO (XO (XI (XO (XO (XO (XO
    XH)))))))))))))))))))))))))))))))) :: ((Npos (XO (XO (XI (XI (XI (XO (XO
    (XI (XO (XO (XO (XO (XO (XO (XO (XO (XO (XO (XO (XO (XO (XO (XO (XO (XO
    (XO (XI (XO (XI (XO (XO XH)))))))))))))))))))))))))))))))) :: ((Npos (XI
    (XO (XI (XO (XO (XI (XI (XO (XI (XO (XO (XO (XO (XO (XO (XO (XO (XO (XO
    (XO (XO (XO (XO (XO (XO (XO (XI (XO (XI (XI (XO
    XH)))))))))))))))))))))))))))))))) :: ((Npos (XO (XI (XI (XI (XI (XI (XI
    (XO (XO (XO (XO (XO (XO (XO (XO (XO (XO (XO (XO (XO (XO (XO (XO (XO (XO
    (XO (XI (XO (XO (XO (XO XH)))))))))))))))))))))))))))))))) :: ((Npos (XO
    (XI (XI (XI (XI (XI (XO (XO (XO (XO (XO (XO (XO (XO (XO (XO (XO (XO (XO
    (XO (XO (XO (XO (XO (XO (XO (XI (XO (XO (XO (XO
    XH)))))))))))))))))))))))))))))))) :: ((Npos (XO (XO (XI (XI (XI (XO (XI
    (XI (XO (XO (XO (XO (XO (XO (XO (XO (XO (XO (XO (XO (XO (XO (XO (XO (XO
    (XO (XI (XO (XI (XO (XO XH)))))))))))))))))))))))))))))))) :: ((Npos (XI
    (XO (XO (XI (XI (XO (XO (XO (XI (XO (XO (XO (XO (XO (XO (XO (XO (XO (XO
    (XO (XO (XO (XO (XO (XO (XO (XI (XO (XI (XO (XO
    XH)))))))))))))))))))))))))))))))) :: ((Npos (XO (XI (XI (XI (XO (XI (XI
    (XO (XO (XO (XO (XO (XO (XO (XO (XO (XO (XO (XO (XO (XO (XO (XO (XO (XO
    (XO (XI (XO (XO (XO (XO XH)))))))))))))))))))))))))))))))) :: ((Npos (XO
    (XI (XI (XI (XO (XI (XO (XO (XO (XO (XO (XO (XO (XO (XO (XO (XO (XO (XO
    (XO (XO (XO (XO (XO (XO (XO (XI (XO (XO (XO (XO
    XH)))))))))))))))))))))))))))))))) :: ((Npos (XO (XO (XI (XI (XI (XI (XO
    (XI (XO (XO (XO (XO (XO (XO (XO (XO (XO (XO (XO (XO (XO (XO (XO (XO (XO
    (XO (XI (XO (XI (XO (XO XH)))))))))))))))))))))))))))))))) :: ((Npos (XO
    (XI (XI (XI (XO (XO (XO (XO (XO (XO (XO (XO (XO (XO (XO (XO (XO (XO (XO
    (XO (XO (XO (XO (XO (XO (XO (XI (XO (XO (XO (XO
    XH)))))))))))))))))))))))))))))))) :: ((Npos (XO (XI (XI (XI (XO (XO (XO
    (XI (XO (XO (XO (XO (XO (XO (XO (XO (XO (XO (XO (XO (XO (XO (XO (XO (XO
    (XO (XI (XO (XO (XO (XO XH)))))))))))))))))))))))))))))))) :: ((Npos (XO
    (XI (XI (XI (XO (XO (XI (XO (XO (XO (XO (XO (XO (XO (XO (XO (XO (XO (XO
    (XO (XO (XO (XO (XO (XO (XO (XI (XO (XO (XO (XO
    XH)))))))))))))))))))))))))))))))) :: ((Npos (XO (XO (XI (XI (XI (XI (XI
    (XI (XO (XO (XO (XO (XO (XO (XO (XO (XO (XO (XO (XO (XO (XO (XO (XO (XO
    (XO (XI (XO (XI (XO (XO XH)))))))))))))))))))))))))))))))) :: ((Npos (XO
    (XO (XO (XO (XO (XO (XO (XO (XI (XO (XO (XO (XO (XO (XO (XO (XO (XO (XO
    (XO (XO (XO (XO (XO (XO (XO (XI (XO (XI (XI
    XH))))))))))))))))))))))))))))))) :: ((Npos (XI (XO (XO (XO (XI (XO (XI
    (XO (XO (XO (XO (XO (XO (XO (XO (XO (XO (XO (XO (XO (XO (XO (XO (XO (XO
    (XO (XI (XO (XO (XO (XO XH)))))))))))))))))))))))))))))))) :: ((Npos (XI
    (XO (XO (XO (XI (XO (XO (XO (XO (XO (XO (XO (XO (XO (XO (XO (XO (XO (XO
    (XO (XO (XO (XO (XO (XO (XO (XI (XO (XO (XO (XO
    XH)))))))))))))))))))))))))))))))) :: ((Npos (XO (XO (XI (XO (XO (XO (XO
    (XO (XO (XO (XO (XO (XO (XO (XO (XO (XO (XO (XO (XO (XO (XO (XO (XO (XO
    (XI (XI (XO (XI XH)))))))))))))))))))))))))))))) :: ((Npos (XO (XI (XI
    (XI (XI (XO (XO (XO (XI (XO (XO (XO (XO (XO (XO (XO (XO (XO (XO (XO (XO
    (XO (XO (XO (XO (XO (XI (XO (XI (XO (XO
    XH)))))))))))))))))))))))))))))))) :: ((Npos (XI (XO (XO (XO (XI (XI (XI
    (XO (XO (XO (XO (XO (XO (XO (XO (XO (XO (XO (XO (XO (XO (XO (XO (XO (XO
    (XO (XI (XO (XO (XO (XO XH)))))))))))))))))))))))))))))))) :: ((Npos (XI
    (XO (XO (XO (XI (XI (XO (XO (XO (XO (XO (XO (XO (XO (XO (XO (XO (XO (XO
    (XO (XO (XO (XO (XO (XO (XO (XI (XO (XO (XO (XO
    XH)))))))))))))))))))))))))))))))) :: ((Npos (XO (XI (XO (XO (XO (XO (XI
    (XI (XO (XO (XO (XO (XO (XO (XO (XO (XO (XO (XO (XO (XO (XO (XO (XO (XO
    (XO (XI (XO (XI (XO (XO XH)))))))))))))))))))))))))))))))) :: ((Npos (XO
    (XO (XO (XI (XO (XO (XO (XO (XI (XO (XO (XO (XO (XO (XO (XO (XO (XO (XO
    (XO (XO (XO (XO (XO (XO (XO (XI (XO (XI (XI
    XH))))))))))))))))))))))))))))))) :: ((Npos (XI (XO (XO (XO (XO (XI (XI
    (XO (XO (XO (XO (XO (XO (XO (XO (XO (XO (XO (XO (XO (XO (XO (XO (XO (XO
    (XO (XI (XO (XO (XO (XO XH)))))))))))))))))))))))))))))))) :: ((Npos (XI
    (XO (XO (XO (XO (XI (XO (XO (XO (XO (XO (XO (XO (XO (XO (XO (XO (XO (XO
    (XO (XO (XO (XO (XO (XO (XO (XI (XO (XO (XO (XO
    XH)))))))))))))))))))))))))))))))) :: ((Npos (XO (XI (XO (XO (XO (XI (XO
    (XI (XO (XO (XO (XO (XO (XO (XO (XO (XO (XO (XO (XO (XO (XO (XO (XO (XO
    (XO (XI (XO (XI (XO (XO XH)))))))))))))))))))))))))))))))) :: ((Npos (XI
    (XO (XO (XO (XO (XO (XO (XO (XO (XO (XO (XO (XO (XO (XO (XO (XO (XO (XO
    (XO (XO (XO (XO (XO (XO (XO (XI (XO (XO (XO (XO
    XH)))))))))))))))))))))))))))))))) :: ((Npos (XI (XO (XO (XO (XO (XO (XO
    (XI (XO (XO (XO (XO (XO (XO (XO (XO (XO (XO (XO (XO (XO (XO (XO (XO (XO
    (XO (XI (XO (XO (XO (XO XH)))))))))))))))))))))))))))))))) :: ((Npos (XI
    (XO (XO (XO (XO (XO (XI (XO (XO (XO (XO (XO (XO (XO (XO (XO (XO (XO (XO
    (XO (XO (XO (XO (XO (XO (XO (XI (XO (XO (XO (XO
    XH)))))))))))))))))))))))))))))))) :: ((Npos (XO (XI (XO (XO (XO (XI (XI
    (XI (XO (XO (XO (XO (XO (XO (XO (XO (XO (XO (XO (XO (XO (XO (XO (XO (XO
    (XO (XI (XO (XI (XO (XO XH)))))))))))))))))))))))))))))))) :: ((Npos (XO
    (XO (XI (XO (XO (XO (XO (XO (XI (XO (XO (XO (XO (XO (XO (XO (XO (XO (XO
    (XO (XO (XO (XO (XO (XO (XO (XI (XO (XI (XI
    XH))))))))))))))))))))))))))))))) :: ((Npos (XI (XO (XO (XI (XI (XO (XI
    (XO (XO (XO (XO (XO (XO (XO (XO (XO (XO (XO (XO (XO (XO (XO (XO (XO (XO
    (XO (XI (XO (XO (XO (XO XH)))))))))))))))))))))))))))))))) :: ((Npos (XI
    (XO (XO (XI (XI (XO (XO (XO (XO (XO (XO (XO (XO (XO (XO (XO (XO (XO (XO
    (XO (XO (XO (XO (XO (XO (XO (XI (XO (XO (XO (XO
    XH)))))))))))))))))))))))))))))))) :: ((Npos (XO (XI (XO (XO (XI (XO (XO
    (XI (XO (XO (XO (XO (XO (XO (XO (XO (XO (XO (XO (XO (XO (XO (XO (XO (XO
    (XO (XI (XO (XI (XO (XO XH)))))))))))))))))))))))))))))))) :: ((Npos (XO
    (XI (XI (XI (XI (XI (XO (XO (XI (XO (XO (XO (XO (XO (XO (XO (XO (XO (XO
    (XO (XO (XO (XO (XO (XO (XO (XI (XO (XO (XI (XO
    XH)))))))))))))))))))))))))))))))) :: ((Npos (XI (XO (XO (XI (XI (XI (XI
    (XO (XO (XO (XO (XO (XO (XO (XO (XO (XO (XO (XO (XO (XO (XO (XO (XO (XO
    (XO (XI (XO (XO (XO (XO XH)))))))))))))))))))))))))))))))) :: ((Npos (XI
    (XO (XO (XI (XI (XI (XO (XO (XO (XO (XO (XO (XO (XO (XO (XO (XO (XO (XO
    (XO (XO (XO (XO (XO (XO (XO (XI (XO (XO (XO (XO
    XH)))))))))))))))))))))))))))))))) :: ((Npos (XO (XI (XO (XO (XI (XO (XI
    (XI (XO (XO (XO (XO (XO (XO (XO (XO (XO (XO (XO (XO (XO (XO (XO (XO (XO
    (XO (XI (XO (XI (XO (XO XH)))))))))))))))))))))))))))))))) :: ((Npos (XO
    (XO (XO (XO (XI (XO (XO (XO (XI (XO (XO (XO (XO (XO (XO (XO (XO (XO (XO
    (XO (XO (XO (XO (XO (XO (XO (XI (XO (XO (XO (XO
    XH)))))))))))))))))))))))))))))))) :: ((Npos (XI (XO (XO (XI (XO (XI (XI
    (XO (XO (XO (XO (XO (XO (XO (XO (XO (XO (XO (XO (XO (XO (XO (XO (XO (XO
    (XO (XI (XO (XO (XO (XO XH)))))))))))))))))))))))))))))))) :: ((Npos (XI
    (XO (XO (XI (XO (XI (XO (XO (XO (XO (XO (XO (XO (XO (XO (XO (XO (XO (XO
    (XO (XO (XO (XO (XO (XO (XO (XI (XO (XO (XO (XO
    XH)))))))))))))))))))))))))))))))) :: ((Npos (XO (XI (XO (XO (XI (XI (XO
    (XI (XO (XO (XO (XO (XO (XO (XO (XO (XO (XO (XO (XO (XO (XO (XO (XO (XO
    (XO (XI (XO (XI (XO (XO XH)))))))))))))))))))))))))))))))) :: ((Npos (XI
    (XO (XO (XI (XO (XO (XO (XO (XO (XO (XO (XO (XO (XO (XO (XO (XO (XO (XO
    (XO (XO (XO (XO (XO (XO (XO (XI (XO (XO (XO (XO
    XH)))))))))))))))))))))))))))))))) :: ((Npos (XI (XO (XO (XI (XO (XO (XO
    (XI (XO (XO (XO (XO (XO (XO (XO (XO (XO (XO (XO (XO (XO (XO (XO (XO (XO
    (XO (XI (XO (XO (XO (XO XH)))))))))))))))))))))))))))))))) :: ((Npos (XI
    (XO (XO (XI (XO (XO (XI (XO (XO (XO (XO (XO (XO (XO (XO (XO (XO (XO (XO
    (XO (XO (XO (XO (XO (XO (XO (XI (XO (XO (XO (XO
    XH)))))))))))))))))))))))))))))))) :: ((Npos (XO (XI (XO (XO (XI (XI (XI
    (XI (XO (XO (XO (XO (XO (XO (XO (XO (XO (XO (XO (XO (XO (XO (XO (XO (XO
    (XO (XI (XO (XI (XO (XO XH)))))))))))))))))))))))))))))))) :: ((Npos (XO
    (XI (XO (XO (XO (XO (XO (XO (XI (XO (XO (XO (XO (XO (XO (XO (XO (XO (XO
    (XO (XO (XO (XO (XO (XO (XO (XI (XO (XI (XI
    XH))))))))))))))))))))))))))))))) :: ((Npos (XI (XO (XI (XO (XI (XO (XI
    (XO (XO (XO (XO (XO (XO (XO (XO (XO (XO (XO (XO (XO (XO (XO (XO (XO (XO
    (XO (XI (XO (XO (XO (XO XH)))))))))))))))))))))))))))))))) :: ((Npos (XI
    (XO (XI (XO (XI (XO (XO (XO (XO (XO (XO (XO (XO (XO (XO (XO (XO (XO (XO
    (XO (XO (XO (XO (XO (XO (XO (XI (XO (XO (XO (XO
    XH)))))))))))))))))))))))))))))))) :: ((Npos (XO (XO (XO (XO (XO (XO (XO
    (XO (XO (XI (XO (XO (XO (XO (XO (XO (XO (XO (XO (XO (XO (XO (XO (XO (XO
    (XO (XI (XO (XO (XO (XO XH)))))))))))))))))))))))))))))))) :: ((Npos (XO
    (XI (XI (XI (XO (XI (XO (XO (XI (XO (XO (XO (XO (XO (XO (XO (XO (XO (XO
    (XO (XO (XO (XO (XO (XO (XO (XI (XO (XO (XI (XO
    XH)))))))))))))))))))))))))))))))) :: ((Npos (XI (XO (XI (XO (XI (XI (XI
    (XO (XO (XO (XO (XO (XO (XO (XO (XO (XO (XO (XO (XO (XO (XO (XO (XO (XO
    (XO (XI (XO (XO (XO (XO XH)))))))))))))))))))))))))))))))) :: ((Npos (XI
    (XO (XI (XO (XI (XI (XO (XO (XO (XO (XO (XO (XO (XO (XO (XO (XO (XO (XO
    (XO (XO (XO (XO (XO (XO (XO (XI (XO (XO (XO (XO
    XH)))))))))))))))))))))))))))))))) :: ((Npos (XO (XI (XO (XI (XO (XO (XI
    (XI (XO (XO (XO (XO (XO (XO (XO (XO (XO (XO (XO (XO (XO (XO (XO (XO (XO
    (XO (XI (XO (XI (XO (XO XH)))))))))))))))))))))))))))))))) :: ((Npos (XO
    (XO (XI (XI (XO (XO (XO (XO (XI (XO (XO (XO (XO (XO (XO (XO (XO (XO (XO
    (XO (XO (XO (XO (XO (XO (XO (XI (XO (XO (XO (XO
    XH)))))))))))))))))))))))))))))))) :: ((Npos (XI (XO (XI (XO (XO (XI (XI
    (XO (XO (XO (XO (XO (XO (XO (XO (XO (XO (XO (XO (XO (XO (XO (XO (XO (XO
    (XO (XI (XO (XO (XO (XO XH)))))))))))))))))))))))))))))))) :: ((Npos (XI
    (XO (XI (XO (XO (XI (XO (XO (XO (XO (XO (XO (XO (XO (XO (XO (XO (XO (XO
    (XO (XO (XO (XO (XO (XO (XO (XI (XO (XO (XO (XO
    XH)))))))))))))))))))))))))))))))) :: ((Npos (XO (XI (XO (XI (XO (XI (XO
    (XI (XO (XO (XO (XO (XO (XO (XO (XO (XO (XO (XO (XO (XO (XO (XO (XO (XO
    (XO (XI (XO (XI (XO (XO XH)))))))))))))))))))))))))))))))) :: ((Npos (XI
    (XO (XI (XO (XO (XO (XO (XO (XO (XO (XO (XO (XO (XO (XO (XO (XO (XO (XO
    (XO (XO (XO (XO (XO (XO (XO (XI (XO (XO (XO (XO
    XH)))))))))))))))))))))))))))))))) :: ((Npos (XI (XO (XI (XO (XO (XO (XO
    (XI (XO (XO (XO (XO (XO (XO (XO (XO (XO (XO (XO (XO (XO (XO (XO (XO (XO
    (XO (XI (XO (XO (XO (XO XH)))))))))))))))))))))))))))))))) :: ((Npos (XI
    (XO (XI (XO (XO (XO (XI (XO (XO (XO (XO (XO (XO (XO (XO (XO (XO (XO (XO
    (XO (XO (XO (XO (XO (XO (XO (XI (XO (XO (XO (XO
    XH)))))))))))))))))))))))))))))))) :: ((Npos (XO (XI (XO (XI (XO (XI (XI
    (XI (XO (XO (XO (XO (XO (XO (XO (XO (XO (XO (XO (XO (XO (XO (XO (XO (XO
    (XO (XI (XO (XI (XO (XO XH)))))))))))))))))))))))))))))))) :: ((Npos (XO
    (XI (XI (XO (XO (XO (XO (XO (XI (XO (XO (XO (XO (XO (XO (XO (XO (XO (XO
    (XO (XO (XO (XO (XO (XO (XO (XI (XO (XI (XI
    XH))))))))))))))))))))))))))))))) :: ((Npos (XI (XO (XI (XI (XI (XO (XI
    (XO (XO (XO (XO (XO (XO (XO (XO (XO (XO (XO (XO (XO (XO (XO (XO (XO (XO
    (XO (XI (XO (XO (XO (XO XH)))))))))))))))))))))))))))))))) :: ((Npos (XI
    (XO (XI (XI (XI (XO (XO (XO (XO (XO (XO (XO (XO (XO (XO (XO (XO (XO (XO
    (XO (XO (XO (XO (XO (XO (XO (XI (XO (XO (XO (XO
    XH)))))))))))))))))))))))))))))))) :: ((Npos (XO (XI (XO (XI (XI (XO (XO
    (XI (XO (XO (XO (XO (XO (XO (XO (XO (XO (XO (XO (XO (XO (XO (XO (XO (XO
    (XO (XI (XO (XI (XO (XO XH)))))))))))))))))))))))))))))))) :: ((Npos (XO
    (XI (XI (XO (XI (XO (XI (XO (XI (XO (XO (XO (XO (XO (XO (XO (XO (XO (XO
    (XO (XO (XO (XO (XO (XO (XO (XI (XO (XI (XI (XO
    XH)))))))))))))))))))))))))))))))) :: ((Npos (XI (XO (XI (XI (XI (XI (XI
    (XO (XO (XO (XO (XO (XO (XO (XO (XO (XO (XO (XO (XO (XO (XO (XO (XO (XO
    (XO (XI (XO (XO (XO (XO XH)))))))))))))))))))))))))))))))) :: ((Npos (XI
    (XO (XI (XI (XI (XI (XO (XO (XO (XO (XO (XO (XO (XO (XO (XO (XO (XO (XO
    (XO (XO (XO (XO (XO (XO (XO (XI (XO (XO (XO (XO
    XH)))))))))))))))))))))))))))))))) :: ((Npos (XO (XI (XO (XI (XI (XO (XI
    (XI (XO (XO (XO (XO (XO (XO (XO (XO (XO (XO (XO (XO (XO (XO (XO (XO (XO
    (XO (XI (XO (XI (XO (XO XH)))))))))))))))))))))))))))))))) :: ((Npos (XO
    (XI (XI (XO (XI (XO (XO (XO (XI (XO (XO (XO (XO (XO (XO (XO (XO (XO (XO
    (XO (XO (XO (XO (XO (XO (XO (XI (XO (XI (XO (XO
    XH)))))))))))))))))))))))))))))))) :: ((Npos (XI (XO (XI (XI (XO (XI (XI
    (XO (XO (XO (XO (XO (XO (XO (XO (XO (XO (XO (XO (XO (XO (XO (XO (XO (XO
    (XO (XI (XO (XO (XO (XO XH)))))))))))))))))))))))))))))))) :: ((Npos (XI
    (XO (XI (XI (XO (XI (XO (XO (XO (XO (XO (XO (XO (XO (XO (XO (XO (XO (XO
    (XO (XO (XO (XO (XO (XO (XO (XI (XO (XO (XO (XO
    XH)))))))))))))))))))))))))))))))) :: ((Npos (XO (XI (XO (XI (XI (XI (XO
    (XI (XO (XO (XO (XO (XO (XO (XO (XO (XO (XO (XO (XO (XO (XO (XO (XO (XO
    (XO (XI (XO (XI (XO (XO XH)))))))))))))))))))))))))))))))) :: ((Npos (XI
    (XO (XI (XI (XO (XO (XO (XO (XO (XO (XO (XO (XO (XO (XO (XO (XO (XO (XO
    (XO (XO (XO (XO (XO (XO (XO (XI (XO (XO (XO (XO
    XH)))))))))))))))))))))))))))))))) :: ((Npos (XI (XO (XI (XI (XO (XO (XO
    (XI (XO (XO (XO (XO (XO (XO (XO (XO (XO (XO (XO (XO (XO (XO (XO (XO (XO
    (XO (XI (XO (XO (XO (XO XH)))))))))))))))))))))))))))))))) :: ((Npos (XI
    (XO (XI (XI (XO (XO (XI (XO (XO (XO (XO (XO (XO (XO (XO (XO (XO (XO (XO
    (XO (XO (XO (XO (XO (XO (XO (XI (XO (XO (XO (XO
    XH)))))))))))))))))))))))))))))))) :: ((Npos (XO (XI (XO (XI (XI (XI (XI
    (XI (XO (XO (XO (XO (XO (XO (XO (XO (XO (XO (XO (XO (XO (XO (XO (XO (XO
    (XO (XI (XO (XI (XO (XO XH)))))))))))))))))))))))))))))))) :: ((Npos (XI
    (XO (XO (XO (XO (XO (XO (XO (XI (XO (XO (XO (XO (XO (XO (XO (XO (XO (XO
    (XO (XO (XO (XO (XO (XO (XO (XI (XO (XI (XI
    XH))))))))))))))))))))))))))))))) :: ((Npos (XI (XI (XO (XO (XI (XO (XI
    (XO (XO (XO (XO (XO (XO (XO (XO (XO (XO (XO (XO (XO (XO (XO (XO (XO (XO
    (XO (XI (XO (XO (XO (XO XH)))))))))))))))))))))))))))))))) :: ((Npos (XI
    (XI (XO (XO (XI (XO (XO (XO (XO (XO (XO (XO (XO (XO (XO (XO (XO (XO (XO
    (XO (XO (XO (XO (XO (XO (XO (XI (XO (XO (XO (XO
    XH)))))))))))))))))))))))))))))))) :: ((Npos (XO (XO (XI (XO (XO (XO (XI
    (XO (XO (XO (XO (XO (XO (XO (XO (XO (XO (XO (XO (XO (XO (XO (XO (XO (XO
    (XI (XI (XO (XI XH)))))))))))))))))))))))))))))) :: ((Npos (XO (XI (XI
    (XO (XO (XI (XO (XO (XI (XO (XO (XO (XO (XO (XO (XO (XO (XO (XO (XO (XO
    (XO (XO (XO (XO (XO (XI (XO (XO (XI (XO
    XH)))))))))))))))))))))))))))))))) :: ((Npos (XI (XI (XO (XO (XI (XI (XI
    (XO (XO (XO (XO (XO (XO (XO (XO (XO (XO (XO (XO (XO (XO (XO (XO (XO (XO
    (XO (XI (XO (XO (XO (XO XH)))))))))))))))))))))))))))))))) :: ((Npos (XI
    (XI (XO (XO (XI (XI (XO (XO (XO (XO (XO (XO (XO (XO (XO (XO (XO (XO (XO
    (XO (XO (XO (XO (XO (XO (XO (XI (XO (XO (XO (XO
    XH)))))))))))))))))))))))))))))))) :: ((Npos (XO (XI (XI (XO (XO (XO (XI
    (XI (XO (XO (XO (XO (XO (XO (XO (XO (XO (XO (XO (XO (XO (XO (XO (XO (XO
    (XO (XI (XO (XI (XO (XO XH)))))))))))))))))))))))))))))))) :: ((Npos (XO
    (XI (XO (XI (XO (XO (XO (XO (XI (XO (XO (XO (XO (XO (XO (XO (XO (XO (XO
    (XO (XO (XO (XO (XO (XO (XO (XI (XO (XO (XO (XO
    XH)))))))))))))))))))))))))))))))) :: ((Npos (XI (XI (XO (XO (XO (XI (XI
    (XO (XO (XO (XO (XO (XO (XO (XO (XO (XO (XO (XO (XO (XO (XO (XO (XO (XO
    (XO (XI (XO (XO (XO (XO XH)))))))))))))))))))))))))))))))) :: ((Npos (XI
    (XI (XO (XO (XO (XI (XO (XO (XO (XO (XO (XO (XO (XO (XO (XO (XO (XO (XO
    (XO (XO (XO (XO (XO (XO (XO (XI (XO (XO (XO (XO
    XH)))))))))))))))))))))))))))))))) :: ((Npos (XO (XI (XI (XO (XO (XI (XO
    (XI (XO (XO (XO (XO (XO (XO (XO (XO (XO (XO (XO (XO (XO (XO (XO (XO (XO
    (XO (XI (XO (XI (XO (XO XH)))))))))))))))))))))))))))))))) :: ((Npos (XI
    (XI (XO (XO (XO (XO (XO (XO (XO (XO (XO (XO (XO (XO (XO (XO (XO (XO (XO
    (XO (XO (XO (XO (XO (XO (XO (XI (XO (XO (XO (XO
    XH)))))))))))))))))))))))))))))))) :: ((Npos (XI (XI (XO (XO (XO (XO (XO
    (XI (XO (XO (XO (XO (XO (XO (XO (XO (XO (XO (XO (XO (XO (XO (XO (XO (XO
    (XO (XI (XO (XO (XO (XO XH)))))))))))))))))))))))))))))))) :: ((Npos (XI
    (XI (XO (XO (XO (XO (XI (XO (XO (XO (XO (XO (XO (XO (XO (XO (XO (XO (XO
    (XO (XO (XO (XO (XO (XO (XO (XI (XO (XO (XO (XO
    XH)))))))))))))))))))))))))))))))) :: ((Npos (XO (XI (XI (XO (XO (XI (XI
    (XI (XO (XO (XO (XO (XO (XO (XO (XO (XO (XO (XO (XO (XO (XO (XO (XO (XO
    (XO (XI (XO (XI (XO (XO XH)))))))))))))))))))))))))))))))) :: ((Npos (XI
    (XO (XI (XO (XO (XO (XO (XO (XI (XO (XO (XO (XO (XO (XO (XO (XO (XO (XO
    (XO (XO (XO (XO (XO (XO (XO (XI (XO (XI (XI
    XH))))))))))))))))))))))))))))))) :: ((Npos (XI (XI (XO (XI (XI (XO (XI
    (XO (XO (XO (XO (XO (XO (XO (XO (XO (XO (XO (XO (XO (XO (XO (XO (XO (XO
    (XO (XI (XO (XO (XO (XO XH)))))))))))))))))))))))))))))))) :: ((Npos (XI
    (XI (XO (XI (XI (XO (XO (XO (XO (XO (XO (XO (XO (XO (XO (XO (XO (XO (XO
    (XO (XO (XO (XO (XO (XO (XO (XI (XO (XO (XO (XO
    XH)))))))))))))))))))))))))))))))) :: ((Npos (XO (XI (XI (XO (XI (XO (XO
    (XI (XO (XO (XO (XO (XO (XO (XO (XO (XO (XO (XO (XO (XO (XO (XO (XO (XO
    (XO (XI (XO (XI (XO (XO XH)))))))))))))))))))))))))))))))) :: ((Npos (XO
    (XI (XI (XO (XO (XO (XI (XO (XI (XO (XO (XO (XO (XO (XO (XO (XO (XO (XO
    (XO (XO (XO (XO (XO (XO (XO (XI (XO (XI (XI (XO
    XH)))))))))))))))))))))))))))))))) :: ((Npos (XI (XI (XO (XI (XI (XI (XI
    (XO (XO (XO (XO (XO (XO (XO (XO (XO (XO (XO (XO (XO (XO (XO (XO (XO (XO
    (XO (XI (XO (XO (XO (XO XH)))))))))))))))))))))))))))))))) :: ((Npos (XI
    (XI (XO (XI (XI (XI (XO (XO (XO (XO (XO (XO (XO (XO (XO (XO (XO (XO (XO
    (XO (XO (XO (XO (XO (XO (XO (XI (XO (XO (XO (XO
    XH)))))))))))))))))))))))))))))))) :: ((Npos (XO (XI (XI (XO (XI (XO (XI
    (XI (XO (XO (XO (XO (XO (XO (XO (XO (XO (XO (XO (XO (XO (XO (XO (XO (XO
    (XO (XI (XO (XI (XO (XO XH)))))))))))))))))))))))))))))))) :: ((Npos (XO
    (XI (XO (XO (XI (XO (XO (XO (XI (XO (XO (XO (XO (XO (XO (XO (XO (XO (XO
    (XO (XO (XO (XO (XO (XO (XO (XI (XO (XI (XO (XO
    XH)))))))))))))))))))))))))))))))) :: ((Npos (XI (XI (XO (XI (XO (XI (XI
    (XO (XO (XO (XO (XO (XO (XO (XO (XO (XO (XO (XO (XO (XO (XO (XO (XO (XO
    (XO (XI (XO (XO (XO (XO XH)))))))))))))))))))))))))))))))) :: ((Npos (XI
    (XI (XO (XI (XO (XI (XO (XO (XO (XO (XO (XO (XO (XO (XO (XO (XO (XO (XO
    (XO (XO (XO (XO (XO (XO (XO (XI (XO (XO (XO (XO
    XH)))))))))))))))))))))))))))))))) :: ((Npos (XO (XI (XI (XO (XI (XI (XO
    (XI (XO (XO (XO (XO (XO (XO (XO (XO (XO (XO (XO (XO (XO (XO (XO (XO (XO
    (XO (XI (XO (XI (XO (XO XH)))))))))))))))))))))))))))))))) :: ((Npos (XI
    (XI (XO (XI (XO (XO (XO (XO (XO (XO (XO (XO (XO (XO (XO (XO (XO (XO (XO
    (XO (XO (XO (XO (XO (XO (XO (XI (XO (XO (XO (XO
    XH)))))))))))))))))))))))))))))))) :: ((Npos (XI (XI (XO (XI (XO (XO (XO
    (XI (XO (XO (XO (XO (XO (XO (XO (XO (XO (XO (XO (XO (XO (XO (XO (XO (XO
    (XO (XI (XO (XO (XO (XO XH)))))))))))))))))))))))))))))))) :: ((Npos (XI
    (XI (XO (XI (XO (XO (XI (XO (XO (XO (XO (XO (XO (XO (XO (XO (XO (XO (XO
    (XO (XO (XO (XO (XO (XO (XO (XI (XO (XO (XO (XO
    XH)))))))))))))))))))))))))))))))) :: ((Npos (XO (XI (XI (XO (XI (XI (XI
    (XI (XO (XO (XO (XO (XO (XO (XO (XO (XO (XO (XO (XO (XO (XO (XO (XO (XO
    (XO (XI (XO (XI (XO (XO XH)))))))))))))))))))))))))))))))) :: ((Npos (XI
    (XI (XO (XO (XO (XO (XO (XO (XI (XO (XO (XO (XO (XO (XO (XO (XO (XO (XO
    (XO (XO (XO (XO (XO (XO (XO (XI (XO (XI (XI
    XH))))))))))))))))))))))))))))))) :: ((Npos (XI (XI (XI (XO (XI (XO (XI
    (XO (XO (XO (XO (XO (XO (XO (XO (XO (XO (XO (XO (XO (XO (XO (XO (XO (XO
    (XO (XI (XO (XO (XO (XO XH)))))))))))))))))))))))))))))))) :: ((Npos (XI
    (XI (XI (XO (XI (XO (XO (XO (XO (XO (XO (XO (XO (XO (XO (XO (XO (XO (XO
    (XO (XO (XO (XO (XO (XO (XO (XI (XO (XO (XO (XO
    XH)))))))))))))))))))))))))))))))) :: (N0 :: ((Npos (XO (XI (XI (XO (XI
    (XI (XO (XO (XI (XO (XO (XO (XO (XO (XO (XO (XO (XO (XO (XO (XO (XO (XO
    (XO (XO (XO (XI (XO (XO (XI (XO
    XH)))))))))))))))))))))))))))))))) :: ((Npos (XI (XI (XI (XO (XI (XI (XI
    (XO (XO (XO (XO (XO (XO (XO (XO (XO (XO (XO (XO (XO (XO (XO (XO (XO (XO
    (XO (XI (XO (XO (XO (XO XH)))))))))))))))))))))))))))))))) :: ((Npos (XI
    (XI (XI (XO (XI (XI (XO (XO (XO (XO (XO (XO (XO (XO (XO (XO (XO (XO (XO
    (XO (XO (XO (XO (XO (XO (XO (XI (XO (XO (XO (XO
    XH)))))))))))))))))))))))))))))))) :: ((Npos (XO (XI (XI (XI (XO (XO (XI
    (XI (XO (XO (XO (XO (XO (XO (XO (XO (XO (XO (XO (XO (XO (XO (XO (XO (XO
    (XO (XI (XO (XI (XO (XO XH)))))))))))))))))))))))))))))))) :: ((Npos (XO
    (XI (XI (XI (XO (XO (XO (XO (XI (XO (XO (XO (XO (XO (XO (XO (XO (XO (XO
    (XO (XO (XO (XO (XO (XO (XO (XI (XO (XO (XO (XO
    XH)))))))))))))))))))))))))))))))) :: ((Npos (XI (XI (XI (XO (XO (XI (XI
    (XO (XO (XO (XO (XO (XO (XO (XO (XO (XO (XO (XO (XO (XO (XO (XO (XO (XO
    (XO (XI (XO (XO (XO (XO XH)))))))))))))))))))))))))))))))) :: ((Npos (XI
    (XI (XI (XO (XO (XI (XO (XO (XO (XO (XO (XO (XO (XO (XO (XO (XO (XO (XO
    (XO (XO (XO (XO (XO (XO (XO (XI (XO (XO (XO (XO
    XH)))))))))))))))))))))))))))))))) :: ((Npos (XO (XI (XI (XI (XO (XI (XO
    (XI (XO (XO (XO (XO (XO (XO (XO (XO (XO (XO (XO (XO (XO (XO (XO (XO (XO
    (XO (XI (XO (XI (XO (XO XH)))))))))))))))))))))))))))))))) :: ((Npos (XI
    (XI (XI (XO (XO (XO (XO (XO (XO (XO (XO (XO (XO (XO (XO (XO (XO (XO (XO
    (XO (XO (XO (XO (XO (XO (XO (XI (XO (XO (XO (XO
    XH)))))))))))))))))))))))))))))))) :: ((Npos (XI (XI (XI (XO (XO (XO (XO
    (XI (XO (XO (XO (XO (XO (XO (XO (XO (XO (XO (XO (XO (XO (XO (XO (XO (XO
    (XO (XI (XO (XO (XO (XO XH)))))))))))))))))))))))))))))))) :: ((Npos (XI
    (XI (XI (XO (XO (XO (XI (XO (XO (XO (XO (XO (XO (XO (XO (XO (XO (XO (XO
    (XO (XO (XO (XO (XO (XO (XO (XI (XO (XO (XO (XO
    XH)))))))))))))))))))))))))))))))) :: ((Npos (XO (XI (XI (XI (XO (XI (XI
    (XI (XO (XO (XO (XO (XO (XO (XO (XO (XO (XO (XO (XO (XO (XO (XO (XO (XO
    (XO (XI (XO (XI (XO (XO XH)))))))))))))))))))))))))))))))) :: ((Npos (XI
    (XI (XI (XO (XO (XO (XO (XO (XI (XO (XO (XO (XO (XO (XO (XO (XO (XO (XO
    (XO (XO (XO (XO (XO (XO (XO (XI (XO (XI (XI
    XH))))))))))))))))))))))))))))))) :: ((Npos (XI (XI (XI (XI (XI (XO (XI
    (XO (XO (XO (XO (XO (XO (XO (XO (XO (XO (XO (XO (XO (XO (XO (XO (XO (XO
    (XO (XI (XO (XO (XO (XO XH)))))))))))))))))))))))))))))))) :: ((Npos (XI
    (XI (XI (XI (XI (XO (XO (XO (XO (XO (XO (XO (XO (XO (XO (XO (XO (XO (XO
    (XO (XO (XO (XO (XO (XO (XO (XI (XO (XO (XO (XO
    XH)))))))))))))))))))))))))))))))) :: ((Npos (XO (XI (XI (XI (XI (XO (XO
    (XI (XO (XO (XO (XO (XO (XO (XO (XO (XO (XO (XO (XO (XO (XO (XO (XO (XO
    (XO (XI (XO (XI (XO (XO XH)))))))))))))))))))))))))))))))) :: ((Npos (XO
    (XI (XI (XO (XO (XI (XI (XO (XI (XO (XO (XO (XO (XO (XO (XO (XO (XO (XO
    (XO (XO (XO (XO (XO (XO (XO (XI (XO (XI (XI (XO
    XH)))))))))))))))))))))))))))))))) :: ((Npos (XI (XI (XI (XI (XI (XI (XI
    (XO (XO (XO (XO (XO (XO (XO (XO (XO (XO (XO (XO (XO (XO (XO (XO (XO (XO
    (XO (XI (XO (XO (XO (XO XH)))))))))))))))))))))))))))))))) :: ((Npos (XI
    (XI (XI (XI (XI (XI (XO (XO (XO (XO (XO (XO (XO (XO (XO (XO (XO (XO (XO
    (XO (XO (XO (XO (XO (XO (XO (XI (XO (XO (XO (XO
    XH)))))))))))))))))))))))))))))))) :: ((Npos (XO (XI (XI (XI (XI (XO (XI
    (XI (XO (XO (XO (XO (XO (XO (XO (XO (XO (XO (XO (XO (XO (XO (XO (XO (XO
    (XO (XI (XO (XI (XO (XO XH)))))))))))))))))))))))))))))))) :: ((Npos (XO
    (XI (XO (XI (XI (XO (XO (XO (XI (XO (XO (XO (XO (XO (XO (XO (XO (XO (XO
    (XO (XO (XO (XO (XO (XO (XO (XI (XO (XI (XO (XO
    XH)))))))))))))))))))))))))))))))) :: ((Npos (XI (XI (XI (XI (XO (XI (XI
    (XO (XO (XO (XO (XO (XO (XO (XO (XO (XO (XO (XO (XO (XO (XO (XO (XO (XO
    (XO (XI (XO (XO (XO (XO XH)))))))))))))))))))))))))))))))) :: ((Npos (XI
    (XI (XI (XI (XO (XI (XO (XO (XO (XO (XO (XO (XO (XO (XO (XO (XO (XO (XO
    (XO (XO (XO (XO (XO (XO (XO (XI (XO (XO (XO (XO
    XH)))))))))))))))))))))))))))))))) :: ((Npos (XO (XI (XI (XI (XI (XI (XO
    (XI (XO (XO (XO (XO (XO (XO (XO (XO (XO (XO (XO (XO (XO (XO (XO (XO (XO
    (XO (XI (XO (XI (XO (XO XH)))))))))))))))))))))))))))))))) :: ((Npos (XI
    (XI (XI (XI (XO (XO (XO (XO (XO (XO (XO (XO (XO (XO (XO (XO (XO (XO (XO
    (XO (XO (XO (XO (XO (XO (XO (XI (XO (XO (XO (XO
    XH)))))))))))))))))))))))))))))))) :: ((Npos (XI (XI (XI (XI (XO (XO (XO
    (XI (XO (XO (XO (XO (XO (XO (XO (XO (XO (XO (XO (XO (XO (XO (XO (XO (XO
    (XO (XI (XO (XO (XO (XO XH)))))))))))))))))))))))))))))))) :: ((Npos (XI
    (XI (XI (XI (XO (XO (XI (XO (XO (XO (XO (XO (XO (XO (XO (XO (XO (XO (XO
    (XO (XO (XO (XO (XO (XO (XO (XI (XO (XO (XO (XO
    XH)))))))))))))))))))))))))))))))) :: ((Npos (XO (XI (XI (XI (XI (XI (XI
    (XI (XO (XO (XO (XO (XO (XO (XO (XO (XO (XO (XO (XO (XO (XO (XO (XO (XO
    (XO (XI (XO (XI (XO (XO XH)))))))))))))))))))))))))))))))) :: ((Npos (XO
    (XO (XO (XO (XO (XO (XO (XO (XI (XO (XO (XO (XO (XO (XO (XO (XO (XO (XO
    (XO (XO (XO (XO (XO (XO (XO (XI (XO (XI (XI
    XH))))))))))))))))))))))))))))))) :: ((Npos (XO (XO (XO (XO (XI (XO (XI
    (XO (XO (XO (XO (XO (XO (XO (XO (XO (XO (XO (XO (XO (XO (XO (XO (XO (XO
    (XO (XI (XO (XO (XO (XO XH)))))))))))))))))))))))))))))))) :: ((Npos (XO
    (XO (XO (XO (XI (XO (XO (XO (XO (XO (XO (XO (XO (XO (XO (XO (XO (XO (XO
    (XO (XO (XO (XO (XO (XO (XO (XI (XO (XO (XO (XO
    XH)))))))))))))))))))))))))))))))) :: ((Npos (XO (XO (XI (XO (XI (XI (XI
    (XO (XI (XO (XO (XO (XO (XO (XO (XO (XO (XO (XO (XO (XO (XO (XO (XO (XO
    (XO (XI (XO (XO (XO (XI XH)))))))))))))))))))))))))))))))) :: ((Npos (XI
    (XI (XI (XI (XI (XO (XO (XO (XI (XO (XO (XO (XO (XO (XO (XO (XO (XO (XO
    (XO (XO (XO (XO (XO (XO (XO (XI (XO (XI (XO (XO
    XH)))))))))))))))))))))))))))))))) :: ((Npos (XO (XO (XO (XO (XI (XI (XI
    (XO (XO (XO (XO (XO (XO (XO (XO (XO (XO (XO (XO (XO (XO (XO (XO (XO (XO
    (XO (XI (XO (XO (XO (XO XH)))))))))))))))))))))))))))))))) :: ((Npos (XO
    (XO (XO (XO (XI (XI (XO (XO (XO (XO (XO (XO (XO (XO (XO (XO (XO (XO (XO
    (XO (XO (XO (XO (XO (XO (XO (XI (XO (XO (XO (XO
    XH)))))))))))))))))))))))))))))))) :: ((Npos (XI (XO (XO (XO (XO (XO (XI
    (XI (XO (XO (XO (XO (XO (XO (XO (XO (XO (XO (XO (XO (XO (XO (XO (XO (XO
    (XO (XI (XO (XI (XO (XO XH)))))))))))))))))))))))))))))))) :: ((Npos (XO
    (XO (XO (XI (XO (XO (XO (XO (XI (XO (XO (XO (XO (XO (XO (XO (XO (XO (XO
    (XO (XO (XO (XO (XO (XO (XO (XI (XO (XI (XI
    XH))))))))))))))))))))))))))))))) :: ((Npos (XO (XO (XO (XO (XO (XI (XI
    (XO (XO (XO (XO (XO (XO (XO (XO (XO (XO (XO (XO (XO (XO (XO (XO (XO (XO
    (XO (XI (XO (XO (XO (XO XH)))))))))))))))))))))))))))))))) :: ((Npos (XO
    (XO (XO (XO (XO (XI (XO (XO (XO (XO (XO (XO (XO (XO (XO (XO (XO (XO (XO
    (XO (XO (XO (XO (XO (XO (XO (XI (XO (XO (XO (XO
    XH)))))))))))))))))))))))))))))))) :: ((Npos (XI (XO (XO (XO (XO (XI (XO
    (XI (XO (XO (XO (XO (XO (XO (XO (XO (XO (XO (XO (XO (XO (XO (XO (XO (XO
    (XO (XI (XO (XI (XO (XO XH)))))))))))))))))))))))))))))))) :: ((Npos (XO
    (XO (XO (XO (XO (XO (XO (XO (XO (XO (XO (XO (XO (XO (XO (XO (XO (XO (XO
    (XO (XO (XO (XO (XO (XO (XO (XI (XO (XO (XO (XO
    XH)))))))))))))))))))))))))))))))) :: ((Npos (XO (XO (XO (XO (XO (XO (XO
    (XI (XO (XO (XO (XO (XO (XO (XO (XO (XO (XO (XO (XO (XO (XO (XO (XO (XO
    (XO (XI (XO (XO (XO (XO XH)))))))))))))))))))))))))))))))) :: ((Npos (XO
    (XO (XO (XO (XO (XO (XI (XO (XO (XO (XO (XO (XO (XO (XO (XO (XO (XO (XO
    (XO (XO (XO (XO (XO (XO (XO (XI (XO (XO (XO (XO
    XH)))))))))))))))))))))))))))))))) :: ((Npos (XI (XO (XO (XO (XO (XI (XI
    (XI (XO (XO (XO (XO (XO (XO (XO (XO (XO (XO (XO (XO (XO (XO (XO (XO (XO
    (XO (XI (XO (XI (XO (XO XH)))))))))))))))))))))))))))))))) :: ((Npos (XO
    (XO (XI (XO (XO (XO (XO (XO (XI (XO (XO (XO (XO (XO (XO (XO (XO (XO (XO
    (XO (XO (XO (XO (XO (XO (XO (XI (XO (XI (XI
    XH))))))))))))))))))))))))))))))) :: ((Npos (XO (XO (XO (XI (XI (XO (XI
    (XO (XO (XO (XO (XO (XO (XO (XO (XO (XO (XO (XO (XO (XO (XO (XO (XO (XO
    (XO (XI (XO (XO (XO (XO XH)))))))))))))))))))))))))))))))) :: ((Npos (XO
    (XO (XO (XI (XI (XO (XO (XO (XO (XO (XO (XO (XO (XO (XO (XO (XO (XO (XO
    (XO (XO (XO (XO (XO (XO (XO (XI (XO (XO (XO (XO
    XH)))))))))))))))))))))))))))))))) :: ((Npos (XI (XO (XO (XO (XI (XO (XO
    (XI (XO (XO (XO (XO (XO (XO (XO (XO (XO (XO (XO (XO (XO (XO (XO (XO (XO
    (XO (XI (XO (XI (XO (XO XH)))))))))))))))))))))))))))))))) :: ((Npos (XI
    (XI (XI (XI (XI (XI (XO (XO (XI (XO (XO (XO (XO (XO (XO (XO (XO (XO (XO
    (XO (XO (XO (XO (XO (XO (XO (XI (XO (XO (XI (XO
    XH)))))))))))))))))))))))))))))))) :: ((Npos (XO (XO (XO (XI (XI (XI (XI
    (XO (XO (XO (XO (XO (XO (XO (XO (XO (XO (XO (XO (XO (XO (XO (XO (XO (XO
    (XO (XI (XO (XO (XO (XO XH)))))))))))))))))))))))))))))))) :: ((Npos (XO
    (XO (XO (XI (XI (XI (XO (XO (XO (XO (XO (XO (XO (XO (XO (XO (XO (XO (XO
    (XO (XO (XO (XO (XO (XO (XO (XI (XO (XO (XO (XO
    XH)))))))))))))))))))))))))))))))) :: ((Npos (XI (XO (XO (XO (XI (XO (XI
    (XI (XO (XO (XO (XO (XO (XO (XO (XO (XO (XO (XO (XO (XO (XO (XO (XO (XO
    (XO (XI (XO (XI (XO (XO XH)))))))))))))))))))))))))))))))) :: ((Npos (XI
    (XI (XI (XI (XO (XO (XO (XO (XI (XO (XO (XO (XO (XO (XO (XO (XO (XO (XO
    (XO (XO (XO (XO (XO (XO (XO (XI (XO (XO (XO (XO
    XH)))))))))))))))))))))))))))))))) :: ((Npos (XO (XO (XO (XI (XO (XI (XI
    (XO (XO (XO (XO (XO (XO (XO (XO (XO (XO (XO (XO (XO (XO (XO (XO (XO (XO
    (XO (XI (XO (XO (XO (XO XH)))))))))))))))))))))))))))))))) :: ((Npos (XO
    (XO (XO (XI (XO (XI (XO (XO (XO (XO (XO (XO (XO (XO (XO (XO (XO (XO (XO
    (XO (XO (XO (XO (XO (XO (XO (XI (XO (XO (XO (XO
    XH)))))))))))))))))))))))))))))))) :: ((Npos (XI (XO (XO (XO (XI (XI (XO
    (XI (XO (XO (XO (XO (XO (XO (XO (XO (XO (XO (XO (XO (XO (XO (XO (XO (XO
    (XO (XI (XO (XI (XO (XO XH)))))))))))))))))))))))))))))))) :: ((Npos (XO
    (XO (XO (XI (XO (XO (XO (XO (XO (XO (XO (XO (XO (XO (XO (XO (XO (XO (XO
    (XO (XO (XO (XO (XO (XO (XO (XI (XO (XO (XO (XO
    XH)))))))))))))))))))))))))))))))) :: ((Npos (XO (XO (XO (XI (XO (XO (XO
    (XI (XO (XO (XO (XO (XO (XO (XO (XO (XO (XO (XO (XO (XO (XO (XO (XO (XO
    (XO (XI (XO (XO (XO (XO XH)))))))))))))))))))))))))))))))) :: ((Npos (XO
    (XO (XO (XI (XO (XO (XI (XO (XO (XO (XO (XO (XO (XO (XO (XO (XO (XO (XO
    (XO (XO (XO (XO (XO (XO (XO (XI (XO (XO (XO (XO
    XH)))))))))))))))))))))))))))))))) :: ((Npos (XI (XO (XO (XO (XI (XI (XI
    (XI (XO (XO (XO (XO (XO (XO (XO (XO (XO (XO (XO (XO (XO (XO (XO (XO (XO
    (XO (XI (XO (XI (XO (XO XH)))))))))))))))))))))))))))))))) :: ((Npos (XO
    (XI (XO (XO (XO (XO (XO (XO (XI (XO (XO (XO (XO (XO (XO (XO (XO (XO (XO
    (XO (XO (XO (XO (XO (XO (XO (XI (XO (XI (XI
    XH))))))))))))))))))))))))))))))) :: ((Npos (XO (XO (XI (XO (XI (XO (XI
    (XO (XO (XO (XO (XO (XO (XO (XO (XO (XO (XO (XO (XO (XO (XO (XO (XO (XO
    (XO (XI (XO (XO (XO (XO XH)))))))))))))))))))))))))))))))) :: ((Npos (XO
    (XO (XI (XO (XI (XO (XO (XO (XO (XO (XO (XO (XO (XO (XO (XO (XO (XO (XO
    (XO (XO (XO (XO (XO (XO (XO (XI (XO (XO (XO (XO
    XH)))))))))))))))))))))))))))))))) :: ((Npos (XO (XI (XI (XO (XO (XI (XI
    (XO (XO (XO (XO (XO (XO (XO (XO (XO (XO (XO (XO (XO (XO (XO (XO (XO (XO
    (XI (XI (XO (XI XH)))))))))))))))))))))))))))))) :: ((Npos (XI (XI (XI
    (XI (XO (XI (XO (XO (XI (XO (XO (XO (XO (XO (XO (XO (XO (XO (XO (XO (XO
    (XO (XO (XO (XO (XO (XI (XO (XO (XI (XO
    XH)))))))))))))))))))))))))))))))) :: ((Npos (XO (XO (XI (XO (XI (XI (XI
    (XO (XO (XO (XO (XO (XO (XO (XO (XO (XO (XO (XO (XO (XO (XO (XO (XO (XO
    (XO (XI (XO (XO (XO (XO XH)))))))))))))))))))))))))))))))) :: ((Npos (XO
    (XO (XI (XO (XI (XI (XO (XO (XO (XO (XO (XO (XO (XO (XO (XO (XO (XO (XO
    (XO (XO (XO (XO (XO (XO (XO (XI (XO (XO (XO (XO
    XH)))))))))))))))))))))))))))))))) :: ((Npos (XI (XO (XO (XI (XO (XO (XI
    (XI (XO (XO (XO (XO (XO (XO (XO (XO (XO (XO (XO (XO (XO (XO (XO (XO (XO
    (XO (XI (XO (XI (XO (XO XH)))))))))))))))))))))))))))))))) :: ((Npos (XI
    (XI (XO (XI (XO (XO (XO (XO (XI (XO (XO (XO (XO (XO (XO (XO (XO (XO (XO
    (XO (XO (XO (XO (XO (XO (XO (XI (XO (XO (XO (XO
    XH)))))))))))))))))))))))))))))))) :: ((Npos (XO (XO (XI (XO (XO (XI (XI
    (XO (XO (XO (XO (XO (XO (XO (XO (XO (XO (XO (XO (XO (XO (XO (XO (XO (XO
    (XO (XI (XO (XO (XO (XO XH)))))))))))))))))))))))))))))))) :: ((Npos (XO
    (XO (XI (XO (XO (XI (XO (XO (XO (XO (XO (XO (XO (XO (XO (XO (XO (XO (XO
    (XO (XO (XO (XO (XO (XO (XO (XI (XO (XO (XO (XO
    XH)))))))))))))))))))))))))))))))) :: ((Npos (XI (XO (XO (XI (XO (XI (XO
    (XI (XO (XO (XO (XO (XO (XO (XO (XO (XO (XO (XO (XO (XO (XO (XO (XO (XO
    (XO (XI (XO (XI (XO (XO XH)))))))))))))))))))))))))))))))) :: ((Npos (XO
    (XO (XI (XO (XO (XO (XO (XO (XO (XO (XO (XO (XO (XO (XO (XO (XO (XO (XO
    (XO (XO (XO (XO (XO (XO (XO (XI (XO (XO (XO (XO
    XH)))))))))))))))))))))))))))))))) :: ((Npos (XO (XO (XI (XO (XO (XO (XO
    (XI (XO (XO (XO (XO (XO (XO (XO (XO (XO (XO (XO (XO (XO (XO (XO (XO (XO
    (XO (XI (XO (XO (XO (XO XH)))))))))))))))))))))))))))))))) :: ((Npos (XO
    (XO (XI (XO (XO (XO (XI (XO (XO (XO (XO (XO (XO (XO (XO (XO (XO (XO (XO
    (XO (XO (XO (XO (XO (XO (XO (XI (XO (XO (XO (XO
    XH)))))))))))))))))))))))))))))))) :: ((Npos (XI (XO (XO (XI (XO (XI (XI
    (XI (XO (XO (XO (XO (XO (XO (XO (XO (XO (XO (XO (XO (XO (XO (XO (XO (XO
    (XO (XI (XO (XI (XO (XO XH)))))))))))))))))))))))))))))))) :: ((Npos (XO
    (XI (XI (XO (XO (XO (XO (XO (XI (XO (XO (XO (XO (XO (XO (XO (XO (XO (XO
    (XO (XO (XO (XO (XO (XO (XO (XI (XO (XI (XI
    XH))))))))))))))))))))))))))))))) :: ((Npos (XO (XO (XI (XI (XI (XO (XI
    (XO (XO (XO (XO (XO (XO (XO (XO (XO (XO (XO (XO (XO (XO (XO (XO (XO (XO
    (XO (XI (XO (XO (XO (XO XH)))))))))))))))))))))))))))))))) :: ((Npos (XO
    (XO (XI (XI (XI (XO (XO (XO (XO (XO (XO (XO (XO (XO (XO (XO (XO (XO (XO
    (XO (XO (XO (XO (XO (XO (XO (XI (XO (XO (XO (XO
    XH)))))))))))))))))))))))))))))))) :: ((Npos (XI (XO (XO (XI (XI (XO (XO
    (XI (XO (XO (XO (XO (XO (XO (XO (XO (XO (XO (XO (XO (XO (XO (XO (XO (XO
    (XO (XI (XO (XI (XO (XO XH)))))))))))))))))))))))))))))))) :: ((Npos (XI
    (XI (XI (XO (XI (XO (XI (XO (XI (XO (XO (XO (XO (XO (XO (XO (XO (XO (XO
    (XO (XO (XO (XO (XO (XO (XO (XI (XO (XI (XI (XO
    XH)))))))))))))))))))))))))))))))) :: ((Npos (XO (XO (XI (XI (XI (XI (XI
    (XO (XO (XO (XO (XO (XO (XO (XO (XO (XO (XO (XO (XO (XO (XO (XO (XO (XO
    (XO (XI (XO (XO (XO (XO XH)))))))))))))))))))))))))))))))) :: ((Npos (XO
    (XO (XI (XI (XI (XI (XO (XO (XO (XO (XO (XO (XO (XO (XO (XO (XO (XO (XO
    (XO (XO (XO (XO (XO (XO (XO (XI (XO (XO (XO (XO
    XH)))))))))))))))))))))))))))))))) :: ((Npos (XI (XO (XO (XI (XI (XO (XI
    (XI (XO (XO (XO (XO (XO (XO (XO (XO (XO (XO (XO (XO (XO (XO (XO (XO (XO
    (XO (XI (XO (XI (XO (XO XH)))))))))))))))))))))))))))))))) :: ((Npos (XI
    (XI (XI (XO (XI (XO (XO (XO (XI (XO (XO (XO (XO (XO (XO (XO (XO (XO (XO
    (XO (XO (XO (XO (XO (XO (XO (XI (XO (XI (XO (XO
    XH)))))))))))))))))))))))))))))))) :: ((Npos (XO (XO (XI (XI (XO (XI (XI
    (XO (XO (XO (XO (XO (XO (XO (XO (XO (XO (XO (XO (XO (XO (XO (XO (XO (XO
    (XO (XI (XO (XO (XO (XO XH)))))))))))))))))))))))))))))))) :: ((Npos (XO
    (XO (XI (XI (XO (XI (XO (XO (XO (XO (XO (XO (XO (XO (XO (XO (XO (XO (XO
    (XO (XO (XO (XO (XO (XO (XO (XI (XO (XO (XO (XO
    XH)))))))))))))))))))))))))))))))) :: ((Npos (XI (XO (XO (XI (XI (XI (XO
    (XI (XO (XO (XO (XO (XO (XO (XO (XO (XO (XO (XO (XO (XO (XO (XO (XO (XO
    (XO (XI (XO (XI (XO (XO XH)))))))))))))))))))))))))))))))) :: ((Npos (XO
    (XO (XI (XI (XO (XO (XO (XO (XO (XO (XO (XO (XO (XO (XO (XO (XO (XO (XO
    (XO (XO (XO (XO (XO (XO (XO (XI (XO (XO (XO (XO
    XH)))))))))))))))))))))))))))))))) :: ((Npos (XO (XO (XI (XI (XO (XO (XO
    (XI (XO (XO (XO (XO (XO (XO (XO (XO (XO (XO (XO (XO (XO (XO (XO (XO (XO
    (XO (XI (XO (XO (XO (XO XH)))))))))))))))))))))))))))))))) :: ((Npos (XO
    (XO (XI (XI (XO (XO (XI (XO (XO (XO (XO (XO (XO (XO (XO (XO (XO (XO (XO
    (XO (XO (XO (XO (XO (XO (XO (XI (XO (XO (XO (XO
    XH)))))))))))))))))))))))))))))))) :: ((Npos (XI (XO (XO (XI (XI (XI (XI
    (XI (XO (XO (XO (XO (XO (XO (XO (XO (XO (XO (XO (XO (XO (XO (XO (XO (XO
    (XO (XI (XO (XI (XO (XO XH)))))))))))))))))))))))))))))))) :: ((Npos (XI
    (XO (XO (XO (XO (XO (XO (XO (XI (XO (XO (XO (XO (XO (XO (XO (XO (XO (XO
    (XO (XO (XO (XO (XO (XO (XO (XI (XO (XI (XI
    XH))))))))))))))))))))))))))))))) :: ((Npos (XO (XI (XO (XO (XI (XO (XI
    (XO (XO (XO (XO (XO (XO (XO (XO (XO (XO (XO (XO (XO (XO (XO (XO (XO (XO
    (XO (XI (XO (XO (XO (XO XH)))))))))))))))))))))))))))))))) :: ((Npos (XO
    (XI (XO (XO (XI (XO (XO (XO (XO (XO (XO (XO (XO (XO (XO (XO (XO (XO (XO
    (XO (XO (XO (XO (XO (XO (XO (XI (XO (XO (XO (XO
    XH)))))))))))))))))))))))))))))))) :: ((Npos (XO (XI (XI (XO (XO (XI (XO
    (XO (XO (XO (XO (XO (XO (XO (XO (XO (XO (XO (XO (XO (XO (XO (XO (XO (XO
    (XI (XI (XO (XI XH)))))))))))))))))))))))))))))) :: ((Npos (XI (XI (XI
    (XO (XO (XI (XO (XO (XI (XO (XO (XO (XO (XO (XO (XO (XO (XO (XO (XO (XO
    (XO (XO (XO (XO (XO (XI (XO (XO (XI (XO
    XH)))))))))))))))))))))))))))))))) :: ((Npos (XO (XI (XO (XO (XI (XI (XI
    (XO (XO (XO (XO (XO (XO (XO (XO (XO (XO (XO (XO (XO (XO (XO (XO (XO (XO
    (XO (XI (XO (XO (XO (XO XH)))))))))))))))))))))))))))))))) :: ((Npos (XO
    (XI (XO (XO (XI (XI (XO (XO (XO (XO (XO (XO (XO (XO (XO (XO (XO (XO (XO
    (XO (XO (XO (XO (XO (XO (XO (XI (XO (XO (XO (XO
    XH)))))))))))))))))))))))))))))))) :: ((Npos (XI (XO (XI (XO (XO (XO (XI
    (XI (XO (XO (XO (XO (XO (XO (XO (XO (XO (XO (XO (XO (XO (XO (XO (XO (XO
    (XO (XI (XO (XI (XO (XO XH)))))))))))))))))))))))))))))))) :: ((Npos (XI
    (XO (XO (XI (XO (XO (XO (XO (XI (XO (XO (XO (XO (XO (XO (XO (XO (XO (XO
    (XO (XO (XO (XO (XO (XO (XO (XI (XO (XO (XO (XO
    XH)))))))))))))))))))))))))))))))) :: ((Npos (XO (XI (XO (XO (XO (XI (XI
    (XO (XO (XO (XO (XO (XO (XO (XO (XO (XO (XO (XO (XO (XO (XO (XO (XO (XO
    (XO (XI (XO (XO (XO (XO XH)))))))))))))))))))))))))))))))) :: ((Npos (XO
    (XI (XO (XO (XO (XI (XO (XO (XO (XO (XO (XO (XO (XO (XO (XO (XO (XO (XO
    (XO (XO (XO (XO (XO (XO (XO (XI (XO (XO (XO (XO
    XH)))))))))))))))))))))))))))))))) :: ((Npos (XI (XO (XI (XO (XO (XI (XO
    (XI (XO (XO (XO (XO (XO (XO (XO (XO (XO (XO (XO (XO (XO (XO (XO (XO (XO
    (XO (XI (XO (XI (XO (XO XH)))))))))))))))))))))))))))))))) :: ((Npos (XO
    (XI (XO (XO (XO (XO (XO (XO (XO (XO (XO (XO (XO (XO (XO (XO (XO (XO (XO
    (XO (XO (XO (XO (XO (XO (XO (XI (XO (XO (XO (XO
    XH)))))))))))))))))))))))))))))))) :: ((Npos (XO (XI (XO (XO (XO (XO (XO
    (XI (XO (XO (XO (XO (XO (XO (XO (XO (XO (XO (XO (XO (XO (XO (XO (XO (XO
    (XO (XI (XO (XO (XO (XO XH)))))))))))))))))))))))))))))))) :: ((Npos (XO
    (XI (XO (XO (XO (XO (XI (XO (XO (XO (XO (XO (XO (XO (XO (XO (XO (XO (XO
    (XO (XO (XO (XO (XO (XO (XO (XI (XO (XO (XO (XO
    XH)))))))))))))))))))))))))))))))) :: ((Npos (XI (XO (XI (XO (XO (XI (XI
    (XI (XO (XO (XO (XO (XO (XO (XO (XO (XO (XO (XO (XO (XO (XO (XO (XO (XO
    (XO (XI (XO (XI (XO (XO XH)))))))))))))))))))))))))))))))) :: ((Npos (XI
    (XO (XI (XO (XO (XO (XO (XO (XI (XO (XO (XO (XO (XO (XO (XO (XO (XO (XO
    (XO (XO (XO (XO (XO (XO (XO (XI (XO (XI (XI
    XH))))))))))))))))))))))))))))))) :: ((Npos (XO (XI (XO (XI (XI (XO (XI
    (XO (XO (XO (XO (XO (XO (XO (XO (XO (XO (XO (XO (XO (XO (XO (XO (XO (XO
    (XO (XI (XO (XO (XO (XO XH)))))))))))))))))))))))))))))))) :: ((Npos (XO
    (XI (XO (XI (XI (XO (XO (XO (XO (XO (XO (XO (XO (XO (XO (XO (XO (XO (XO
    (XO (XO (XO (XO (XO (XO (XO (XI (XO (XO (XO (XO
    XH)))))))))))))))))))))))))))))))) :: ((Npos (XI (XO (XI (XO (XI (XO (XO
    (XI (XO (XO (XO (XO (XO (XO (XO (XO (XO (XO (XO (XO (XO (XO (XO (XO (XO
    (XO (XI (XO (XI (XO (XO XH)))))))))))))))))))))))))))))))) :: ((Npos (XI
    (XI (XI (XO (XO (XO (XI (XO (XI (XO (XO (XO (XO (XO (XO (XO (XO (XO (XO
    (XO (XO (XO (XO (XO (XO (XO (XI (XO (XI (XI (XO
    XH)))))))))))))))))))))))))))))))) :: ((Npos (XO (XI (XO (XI (XI (XI (XI
    (XO (XO (XO (XO (XO (XO (XO (XO (XO (XO (XO (XO (XO (XO (XO (XO (XO (XO
    (XO (XI (XO (XO (XO (XO XH)))))))))))))))))))))))))))))))) :: ((Npos (XO
    (XI (XO (XI (XI (XI (XO (XO (XO (XO (XO (XO (XO (XO (XO (XO (XO (XO (XO
    (XO (XO (XO (XO (XO (XO (XO (XI (XO (XO (XO (XO
    XH)))))))))))))))))))))))))))))))) :: ((Npos (XI (XO (XI (XO (XI (XO (XI
    (XI (XO (XO (XO (XO (XO (XO (XO (XO (XO (XO (XO (XO (XO (XO (XO (XO (XO
    (XO (XI (XO (XI (XO (XO XH)))))))))))))))))))))))))))))))) :: ((Npos (XI
    (XI (XO (XO (XI (XO (XO (XO (XI (XO (XO (XO (XO (XO (XO (XO (XO (XO (XO
    (XO (XO (XO (XO (XO (XO (XO (XI (XO (XI (XO (XO
    XH)))))))))))))))))))))))))))))))) :: ((Npos (XO (XI (XO (XI (XO (XI (XI
    (XO (XO (XO (XO (XO (XO (XO (XO (XO (XO (XO (XO (XO (XO (XO (XO (XO (XO
    (XO (XI (XO (XO (XO (XO XH)))))))))))))))))))))))))))))))) :: ((Npos (XO
    (XI (XO (XI (XO (XI (XO (XO (XO (XO (XO (XO (XO (XO (XO (XO (XO (XO (XO
    (XO (XO (XO (XO (XO (XO (XO (XI (XO (XO (XO (XO
    XH)))))))))))))))))))))))))))))))) :: ((Npos (XI (XO (XI (XO (XI (XI (XO
    (XI (XO (XO (XO (XO (XO (XO (XO (XO (XO (XO (XO (XO (XO (XO (XO (XO (XO
    (XO (XI (XO (XI (XO (XO XH)))))))))))))))))))))))))))))))) :: ((Npos (XO
    (XI (XO (XI (XO (XO (XO (XO (XO (XO (XO (XO (XO (XO (XO (XO (XO (XO (XO
    (XO (XO (XO (XO (XO (XO (XO (XI (XO (XO (XO (XO
    XH)))))))))))))))))))))))))))))))) :: ((Npos (XO (XI (XO (XI (XO (XO (XO
    (XI (XO (XO (XO (XO (XO (XO (XO (XO (XO (XO (XO (XO (XO (XO (XO (XO (XO
    (XO (XI (XO (XO (XO (XO XH)))))))))))))))))))))))))))))))) :: ((Npos (XO
    (XI (XO (XI (XO (XO (XI (XO (XO (XO (XO (XO (XO (XO (XO (XO (XO (XO (XO
    (XO (XO (XO (XO (XO (XO (XO (XI (XO (XO (XO (XO
    XH)))))))))))))))))))))))))))))))) :: ((Npos (XI (XO (XI (XO (XI (XI (XI
    (XI (XO (XO (XO (XO (XO (XO (XO (XO (XO (XO (XO (XO (XO (XO (XO (XO (XO
    (XO (XI (XO (XI (XO (XO XH)))))))))))))))))))))))))))))))) :: ((Npos (XI
    (XI (XO (XO (XO (XO (XO (XO (XI (XO (XO (XO (XO (XO (XO (XO (XO (XO (XO
    (XO (XO (XO (XO (XO (XO (XO (XI (XO (XI (XI
    XH))))))))))))))))))))))))))))))) :: ((Npos (XO (XI (XI (XO (XI (XO (XI
    (XO (XO (XO (XO (XO (XO (XO (XO (XO (XO (XO (XO (XO (XO (XO (XO (XO (XO
    (XO (XI (XO (XO (XO (XO XH)))))))))))))))))))))))))))))))) :: ((Npos (XO
    (XI (XI (XO (XI (XO (XO (XO (XO (XO (XO (XO (XO (XO (XO (XO (XO (XO (XO
    (XO (XO (XO (XO (XO (XO (XO (XI (XO (XO (XO (XO
    XH)))))))))))))))))))))))))))))))) :: (N0 :: ((Npos (XI (XI (XI (XO (XI
    (XI (XO (XO (XI (XO (XO (XO (XO (XO (XO (XO (XO (XO (XO (XO (XO (XO (XO
    (XO (XO (XO (XI (XO (XO (XI (XO
    XH)))))))))))))))))))))))))))))))) :: ((Npos (XO (XI (XI (XO (XI (XI (XI
    (XO (XO (XO (XO (XO (XO (XO (XO (XO (XO (XO (XO (XO (XO (XO (XO (XO (XO
    (XO (XI (XO (XO (XO (XO XH)))))))))))))))))))))))))))))))) :: ((Npos (XO
    (XI (XI (XO (XI (XI (XO (XO (XO (XO (XO (XO (XO (XO (XO (XO (XO (XO (XO
    (XO (XO (XO (XO (XO (XO (XO (XI (XO (XO (XO (XO
    XH)))))))))))))))))))))))))))))))) :: ((Npos (XI (XO (XI (XI (XO (XO (XI
    (XI (XO (XO (XO (XO (XO (XO (XO (XO (XO (XO (XO (XO (XO (XO (XO (XO (XO
    (XO (XI (XO (XI (XO (XO XH)))))))))))))))))))))))))))))))) :: ((Npos (XI
    (XO (XI (XI (XO (XO (XO (XO (XI (XO (XO (XO (XO (XO (XO (XO (XO (XO (XO
    (XO (XO (XO (XO (XO (XO (XO (XI (XO (XO (XO (XO
    XH)))))))))))))))))))))))))))))))) :: ((Npos (XO (XI (XI (XO (XO (XI (XI
    (XO (XO (XO (XO (XO (XO (XO (XO (XO (XO (XO (XO (XO (XO (XO (XO (XO (XO
    (XO (XI (XO (XO (XO (XO XH)))))))))))))))))))))))))))))))) :: ((Npos (XO
    (XI (XI (XO (XO (XI (XO (XO (XO (XO (XO (XO (XO (XO (XO (XO (XO (XO (XO
    (XO (XO (XO (XO (XO (XO (XO (XI (XO (XO (XO (XO
    XH)))))))))))))))))))))))))))))))) :: ((Npos (XI (XO (XI (XI (XO (XI (XO
    (XI (XO (XO (XO (XO (XO (XO (XO (XO (XO (XO (XO (XO (XO (XO (XO (XO (XO
    (XO (XI (XO (XI (XO (XO XH)))))))))))))))))))))))))))))))) :: ((Npos (XO
    (XI (XI (XO (XO (XO (XO (XO (XO (XO (XO (XO (XO (XO (XO (XO (XO (XO (XO
    (XO (XO (XO (XO (XO (XO (XO (XI (XO (XO (XO (XO
    XH)))))))))))))))))))))))))))))))) :: ((Npos (XO (XI (XI (XO (XO (XO (XO
    (XI (XO (XO (XO (XO (XO (XO (XO (XO (XO (XO (XO (XO (XO (XO (XO (XO (XO
    (XO (XI (XO (XO (XO (XO XH)))))))))))))))))))))))))))))))) :: ((Npos (XO
    (XI (XI (XO (XO (XO (XI (XO (XO (XO (XO (XO (XO (XO (XO (XO (XO (XO (XO
    (XO (XO (XO (XO (XO (XO (XO (XI (XO (XO (XO (XO
    XH)))))))))))))))))))))))))))))))) :: ((Npos (XI (XO (XI (XI (XO (XI (XI
    (XI (XO (XO (XO (XO (XO (XO (XO (XO (XO (XO (XO (XO (XO (XO (XO (XO (XO
    (XO (XI (XO (XI (XO (XO XH)))))))))))))))))))))))))))))))) :: ((Npos (XI
    (XI (XI (XO (XO (XO (XO (XO (XI (XO (XO (XO (XO (XO (XO (XO (XO (XO (XO
    (XO (XO (XO (XO (XO (XO (XO (XI (XO (XI (XI
    XH))))))))))))))))))))))))))))))) :: ((Npos (XO (XI (XI (XI (XI (XO (XI
    (XO (XO (XO (XO (XO (XO (XO (XO (XO (XO (XO (XO (XO (XO (XO (XO (XO (XO
    (XO (XI (XO (XO (XO (XO XH)))))))))))))))))))))))))))))))) :: ((Npos (XO
    (XI (XI (XI (XI (XO (XO (XO (XO (XO (XO (XO (XO (XO (XO (XO (XO (XO (XO
    (XO (XO (XO (XO (XO (XO (XO (XI (XO (XO (XO (XO
    XH)))))))))))))))))))))))))))))))) :: ((Npos (XI (XO (XI (XI (XI (XO (XO
    (XI (XO (XO (XO (XO (XO (XO (XO (XO (XO (XO (XO (XO (XO (XO (XO (XO (XO
    (XO (XI (XO (XI (XO (XO XH)))))))))))))))))))))))))))))))) :: ((Npos (XI
    (XI (XI (XO (XO (XI (XI (XO (XI (XO (XO (XO (XO (XO (XO (XO (XO (XO (XO
    (XO (XO (XO (XO (XO (XO (XO (XI (XO (XI (XI (XO
    XH)))))))))))))))))))))))))))))))) :: ((Npos (XO (XI (XI (XI (XI (XI (XI
    (XO (XO (XO (XO (XO (XO (XO (XO (XO (XO (XO (XO (XO (XO (XO (XO (XO (XO
    (XO (XI (XO (XO (XO (XO XH)))))))))))))))))))))))))))))))) :: ((Npos (XO
    (XI (XI (XI (XI (XI (XO (XO (XO (XO (XO (XO (XO (XO (XO (XO (XO (XO (XO
    (XO (XO (XO (XO (XO (XO (XO (XI (XO (XO (XO (XO
    XH)))))))))))))))))))))))))))))))) :: ((Npos (XI (XO (XI (XI (XI (XO (XI
    (XI (XO (XO (XO (XO (XO (XO (XO (XO (XO (XO (XO (XO (XO (XO (XO (XO (XO
    (XO (XI (XO (XI (XO (XO XH)))))))))))))))))))))))))))))))) :: ((Npos (XI
    (XI (XO (XI (XI (XO (XO (XO (XI (XO (XO (XO (XO (XO (XO (XO (XO (XO (XO
    (XO (XO (XO (XO (XO (XO (XO (XI (XO (XI (XO (XO
    XH)))))))))))))))))))))))))))))))) :: ((Npos (XO (XI (XI (XI (XO (XI (XI
    (XO (XO (XO (XO (XO (XO (XO (XO (XO (XO (XO (XO (XO (XO (XO (XO (XO (XO
    (XO (XI (XO (XO (XO (XO XH)))))))))))))))))))))))))))))))) :: ((Npos (XO
    (XI (XI (XI (XO (XI (XO (XO (XO (XO (XO (XO (XO (XO (XO (XO (XO (XO (XO
    (XO (XO (XO (XO (XO (XO (XO (XI (XO (XO (XO (XO
    XH)))))))))))))))))))))))))))))))) :: ((Npos (XI (XO (XI (XI (XI (XI (XO
    (XI (XO (XO (XO (XO (XO (XO (XO (XO (XO (XO (XO (XO (XO (XO (XO (XO (XO
    (XO (XI (XO (XI (XO (XO XH)))))))))))))))))))))))))))))))) :: ((Npos (XO
    (XI (XI (XI (XO (XO (XO (XO (XO (XO (XO (XO (XO (XO (XO (XO (XO (XO (XO
    (XO (XO (XO (XO (XO (XO (XO (XI (XO (XO (XO (XO
    XH)))))))))))))))))))))))))))))))) :: ((Npos (XO (XI (XI (XI (XO (XO (XO
    (XI (XO (XO (XO (XO (XO (XO (XO (XO (XO (XO (XO (XO (XO (XO (XO (XO (XO
    (XO (XI (XO (XO (XO (XO XH)))))))))))))))))))))))))))))))) :: ((Npos (XO
    (XI (XI (XI (XO (XO (XI (XO (XO (XO (XO (XO (XO (XO (XO (XO (XO (XO (XO
    (XO (XO (XO (XO (XO (XO (XO (XI (XO (XO (XO (XO
    XH)))))))))))))))))))))))))))))))) :: ((Npos (XI (XO (XI (XI (XI (XI (XI
    (XI (XO (XO (XO (XO (XO (XO (XO (XO (XO (XO (XO (XO (XO (XO (XO (XO (XO
    (XO (XI (XO (XI (XO (XO XH)))))))))))))))))))))))))))))))) :: ((Npos (XO
    (XO (XO (XO (XO (XO (XO (XO (XI (XO (XO (XO (XO (XO (XO (XO (XO (XO (XO
    (XO (XO (XO (XO (XO (XO (XO (XI (XO (XI (XI
    XH))))))))))))))))))))))))))))))) :: ((Npos (XI (XO (XO (XO (XI (XO (XI
    (XO (XO (XO (XO (XO (XO (XO (XO (XO (XO (XO (XO (XO (XO (XO (XO (XO (XO
    (XO (XI (XO (XO (XO (XO XH)))))))))))))))))))))))))))))))) :: ((Npos (XI
    (XO (XO (XO (XI (XO (XO (XO (XO (XO (XO (XO (XO (XO (XO (XO (XO (XO (XO
    (XO (XO (XO (XO (XO (XO (XO (XI (XO (XO (XO (XO
    XH)))))))))))))))))))))))))))))))) :: ((Npos (XO (XI (XI (XO (XO (XO (XO
    (XO (XO (XO (XO (XO (XO (XO (XO (XO (XO (XO (XO (XO (XO (XO (XO (XO (XO
    (XI (XI (XO (XI XH)))))))))))))))))))))))))))))) :: ((Npos (XO (XO (XO
    (XO (XO (XI (XO (XO (XI (XO (XO (XO (XO (XO (XO (XO (XO (XO (XO (XO (XO
    (XO (XO (XO (XO (XO (XI (XO (XI (XO (XO
    XH)))))))))))))))))))))))))))))))) :: ((Npos (XI (XO (XO (XO (XI (XI (XI
    (XO (XO (XO (XO (XO (XO (XO (XO (XO (XO (XO (XO (XO (XO (XO (XO (XO (XO
    (XO (XI (XO (XO (XO (XO XH)))))))))))))))))))))))))))))))) :: ((Npos (XI
    (XO (XO (XO (XI (XI (XO (XO (XO (XO (XO (XO (XO (XO (XO (XO (XO (XO (XO
    (XO (XO (XO (XO (XO (XO (XO (XI (XO (XO (XO (XO
    XH)))))))))))))))))))))))))))))))) :: ((Npos (XI (XI (XO (XO (XO (XO (XI
    (XI (XO (XO (XO (XO (XO (XO (XO (XO (XO (XO (XO (XO (XO (XO (XO (XO (XO
    (XO (XI (XO (XI (XO (XO XH)))))))))))))))))))))))))))))))) :: ((Npos (XO
    (XO (XO (XI (XO (XO (XO (XO (XI (XO (XO (XO (XO (XO (XO (XO (XO (XO (XO
    (XO (XO (XO (XO (XO (XO (XO (XI (XO (XI (XI
    XH))))))))))))))))))))))))))))))) :: ((Npos (XI (XO (XO (XO (XO (XI (XI
    (XO (XO (XO (XO (XO (XO (XO (XO (XO (XO (XO (XO (XO (XO (XO (XO (XO (XO
    (XO (XI (XO (XO (XO (XO XH)))))))))))))))))))))))))))))))) :: ((Npos (XI
    (XO (XO (XO (XO (XI (XO (XO (XO (XO (XO (XO (XO (XO (XO (XO (XO (XO (XO
    (XO (XO (XO (XO (XO (XO (XO (XI (XO (XO (XO (XO
    XH)))))))))))))))))))))))))))))))) :: ((Npos (XI (XI (XO (XO (XO (XI (XO
    (XI (XO (XO (XO (XO (XO (XO (XO (XO (XO (XO (XO (XO (XO (XO (XO (XO (XO
    (XO (XI (XO (XI (XO (XO XH)))))))))))))))))))))))))))))))) :: ((Npos (XI
    (XO (XO (XO (XO (XO (XO (XO (XO (XO (XO (XO (XO (XO (XO (XO (XO (XO (XO
    (XO (XO (XO (XO (XO (XO (XO (XI (XO (XO (XO (XO
    XH)))))))))))))))))))))))))))))))) :: ((Npos (XI (XO (XO (XO (XO (XO (XO
    (XI (XO (XO (XO (XO (XO (XO (XO (XO (XO (XO (XO (XO (XO (XO (XO (XO (XO
    (XO (XI (XO (XO (XO (XO XH)))))))))))))))))))))))))))))))) :: ((Npos (XI
    (XO (XO (XO (XO (XO (XI (XO (XO (XO (XO (XO (XO (XO (XO (XO (XO (XO (XO
    (XO (XO (XO (XO (XO (XO (XO (XI (XO (XO (XO (XO
    XH)))))))))))))))))))))))))))))))) :: ((Npos (XI (XI (XO (XO (XO (XI (XI
    (XI (XO (XO (XO (XO (XO (XO (XO (XO (XO (XO (XO (XO (XO (XO (XO (XO (XO
    (XO (XI (XO (XI (XO (XO XH)))))))))))))))))))))))))))))))) :: ((Npos (XO
    (XO (XI (XO (XO (XO (XO (XO (XI (XO (XO (XO (XO (XO (XO (XO (XO (XO (XO
    (XO (XO (XO (XO (XO (XO (XO (XI (XO (XI (XI
    XH))))))))))))))))))))))))))))))) :: ((Npos (XI (XO (XO (XI (XI (XO (XI
    (XO (XO (XO (XO (XO (XO (XO (XO (XO (XO (XO (XO (XO (XO (XO (XO (XO (XO
    (XO (XI (XO (XO (XO (XO XH)))))))))))))))))))))))))))))))) :: ((Npos (XI
    (XO (XO (XI (XI (XO (XO (XO (XO (XO (XO (XO (XO (XO (XO (XO (XO (XO (XO
    (XO (XO (XO (XO (XO (XO (XO (XI (XO (XO (XO (XO
    XH)))))))))))))))))))))))))))))))) :: ((Npos (XI (XI (XO (XO (XI (XO (XO
    (XI (XO (XO (XO (XO (XO (XO (XO (XO (XO (XO (XO (XO (XO (XO (XO (XO (XO
    (XO (XI (XO (XI (XO (XO XH)))))))))))))))))))))))))))))))) :: ((Npos (XO
    (XO (XO (XO (XO (XO (XI (XO (XI (XO (XO (XO (XO (XO (XO (XO (XO (XO (XO
    (XO (XO (XO (XO (XO (XO (XO (XI (XO (XO (XI (XO
    XH)))))))))))))))))))))))))))))))) :: ((Npos (XI (XO (XO (XI (XI (XI (XI
    (XO (XO (XO (XO (XO (XO (XO (XO (XO (XO (XO (XO (XO (XO (XO (XO (XO (XO
    (XO (XI (XO (XO (XO (XO XH)))))))))))))))))))))))))))))))) :: ((Npos (XI
    (XO (XO (XI (XI (XI (XO (XO (XO (XO (XO (XO (XO (XO (XO (XO (XO (XO (XO
    (XO (XO (XO (XO (XO (XO (XO (XI (XO (XO (XO (XO
    XH)))))))))))))))))))))))))))))))) :: ((Npos (XI (XI (XO (XO (XI (XO (XI
    (XI (XO (XO (XO (XO (XO (XO (XO (XO (XO (XO (XO (XO (XO (XO (XO (XO (XO
    (XO (XI (XO (XI (XO (XO XH)))))))))))))))))))))))))))))))) :: ((Npos (XO
    (XO (XO (XO (XI (XO (XO (XO (XI (XO (XO (XO (XO (XO (XO (XO (XO (XO (XO
    (XO (XO (XO (XO (XO (XO (XO (XI (XO (XO (XO (XO
    XH)))))))))))))))))))))))))))))))) :: ((Npos (XI (XO (XO (XI (XO (XI (XI
    (XO (XO (XO (XO (XO (XO (XO (XO (XO (XO (XO (XO (XO (XO (XO (XO (XO (XO
    (XO (XI (XO (XO (XO (XO XH)))))))))))))))))))))))))))))))) :: ((Npos (XI
    (XO (XO (XI (XO (XI (XO (XO (XO (XO (XO (XO (XO (XO (XO (XO (XO (XO (XO
    (XO (XO (XO (XO (XO (XO (XO (XI (XO (XO (XO (XO
    XH)))))))))))))))))))))))))))))))) :: ((Npos (XI (XI (XO (XO (XI (XI (XO
    (XI (XO (XO (XO (XO (XO (XO (XO (XO (XO (XO (XO (XO (XO (XO (XO (XO (XO
    (XO (XI (XO (XI (XO (XO XH)))))))))))))))))))))))))))))))) :: ((Npos (XI
    (XO (XO (XI (XO (XO (XO (XO (XO (XO (XO (XO (XO (XO (XO (XO (XO (XO (XO
    (XO (XO (XO (XO (XO (XO (XO (XI (XO (XO (XO (XO
    XH)))))))))))))))))))))))))))))))) :: ((Npos (XI (XO (XO (XI (XO (XO (XO
    (XI (XO (XO (XO (XO (XO (XO (XO (XO (XO (XO (XO (XO (XO (XO (XO (XO (XO
    (XO (XI (XO (XO (XO (XO XH)))))))))))))))))))))))))))))))) :: ((Npos (XI
    (XO (XO (XI (XO (XO (XI (XO (XO (XO (XO (XO (XO (XO (XO (XO (XO (XO (XO
    (XO (XO (XO (XO (XO (XO (XO (XI (XO (XO (XO (XO
    XH)))))))))))))))))))))))))))))))) :: ((Npos (XI (XI (XO (XO (XI (XI (XI
    (XI (XO (XO (XO (XO (XO (XO (XO (XO (XO (XO (XO (XO (XO (XO (XO (XO (XO
    (XO (XI (XO (XI (XO (XO XH)))))))))))))))))))))))))))))))) :: ((Npos (XO
    (XI (XO (XO (XO (XO (XO (XO (XI (XO (XO (XO (XO (XO (XO (XO (XO (XO (XO
    (XO (XO (XO (XO (XO (XO (XO (XI (XO (XI (XI
    XH))))))))))))))))))))))))))))))) :: ((Npos (XI (XO (XI (XO (XI (XO (XI
    (XO (XO (XO (XO (XO (XO (XO (XO (XO (XO (XO (XO (XO (XO (XO (XO (XO (XO
    (XO (XI (XO (XO (XO (XO XH)))))))))))))))))))))))))))))))) :: ((Npos (XI
    (XO (XI (XO (XI (XO (XO (XO (XO (XO (XO (XO (XO (XO (XO (XO (XO (XO (XO
    (XO (XO (XO (XO (XO (XO (XO (XI (XO (XO (XO (XO
    XH)))))))))))))))))))))))))))))))) :: ((Npos (XO (XO (XO (XO (XO (XO (XO
    (XO (XO (XI (XO (XO (XO (XO (XO (XO (XO (XO (XO (XO (XO (XO (XO (XO (XO
    (XO (XI (XO (XO (XO (XO XH)))))))))))))))))))))))))))))))) :: ((Npos (XO
    (XO (XO (XO (XI (XI (XO (XO (XI (XO (XO (XO (XO (XO (XO (XO (XO (XO (XO
    (XO (XO (XO (XO (XO (XO (XO (XI (XO (XO (XI (XO
    XH)))))))))))))))))))))))))))))))) :: ((Npos (XI (XO (XI (XO (XI (XI (XI
    (XO (XO (XO (XO (XO (XO (XO (XO (XO (XO (XO (XO (XO (XO (XO (XO (XO (XO
    (XO (XI (XO (XO (XO (XO XH)))))))))))))))))))))))))))))))) :: ((Npos (XI
    (XO (XI (XO (XI (XI (XO (XO (XO (XO (XO (XO (XO (XO (XO (XO (XO (XO (XO
    (XO (XO (XO (XO (XO (XO (XO (XI (XO (XO (XO (XO
    XH)))))))))))))))))))))))))))))))) :: ((Npos (XI (XI (XO (XI (XO (XO (XI
    (XI (XO (XO (XO (XO (XO (XO (XO (XO (XO (XO (XO (XO (XO (XO (XO (XO (XO
    (XO (XI (XO (XI (XO (XO XH)))))))))))))))))))))))))))))))) :: ((Npos (XO
    (XO (XI (XI (XO (XO (XO (XO (XI (XO (XO (XO (XO (XO (XO (XO (XO (XO (XO
    (XO (XO (XO (XO (XO (XO (XO (XI (XO (XO (XO (XO
    XH)))))))))))))))))))))))))))))))) :: ((Npos (XI (XO (XI (XO (XO (XI (XI
    (XO (XO (XO (XO (XO (XO (XO (XO (XO (XO (XO (XO (XO (XO (XO (XO (XO (XO
    (XO (XI (XO (XO (XO (XO XH)))))))))))))))))))))))))))))))) :: ((Npos (XI
    (XO (XI (XO (XO (XI (XO (XO (XO (XO (XO (XO (XO (XO (XO (XO (XO (XO (XO
    (XO (XO (XO (XO (XO (XO (XO (XI (XO (XO (XO (XO
    XH)))))))))))))))))))))))))))))))) :: ((Npos (XI (XI (XO (XI (XO (XI (XO
    (XI (XO (XO (XO (XO (XO (XO (XO (XO (XO (XO (XO (XO (XO (XO (XO (XO (XO
    (XO (XI (XO (XI (XO (XO XH)))))))))))))))))))))))))))))))) :: ((Npos (XI
    (XO (XI (XO (XO (XO (XO (XO (XO (XO (XO (XO (XO (XO (XO (XO (XO (XO (XO
    (XO (XO (XO (XO (XO (XO (XO (XI (XO (XO (XO (XO
    XH)))))))))))))))))))))))))))))))) :: ((Npos (XI (XO (XI (XO (XO (XO (XO
    (XI (XO (XO (XO (XO (XO (XO (XO (XO (XO (XO (XO (XO (XO (XO (XO (XO (XO
    (XO (XI (XO (XO (XO (XO XH)))))))))))))))))))))))))))))))) :: ((Npos (XI
    (XO (XI (XO (XO (XO (XI (XO (XO (XO (XO (XO (XO (XO (XO (XO (XO (XO (XO
    (XO (XO (XO (XO (XO (XO (XO (XI (XO (XO (XO (XO
    XH)))))))))))))))))))))))))))))))) :: ((Npos (XI (XI (XO (XI (XO (XI (XI
    (XI (XO (XO (XO (XO (XO (XO (XO (XO (XO (XO (XO (XO (XO (XO (XO (XO (XO
    (XO (XI (XO (XI (XO (XO XH)))))))))))))))))))))))))))))))) :: ((Npos (XO
    (XI (XI (XO (XO (XO (XO (XO (XI (XO (XO (XO (XO (XO (XO (XO (XO (XO (XO
    (XO (XO (XO (XO (XO (XO (XO (XI (XO (XI (XI
    XH))))))))))))))))))))))))))))))) :: ((Npos (XI (XO (XI (XI (XI (XO (XI
    (XO (XO (XO (XO (XO (XO (XO (XO (XO (XO (XO (XO (XO (XO (XO (XO (XO (XO
    (XO (XI (XO (XO (XO (XO XH)))))))))))))))))))))))))))))))) :: ((Npos (XI
    (XO (XI (XI (XI (XO (XO (XO (XO (XO (XO (XO (XO (XO (XO (XO (XO (XO (XO
    (XO (XO (XO (XO (XO (XO (XO (XI (XO (XO (XO (XO
    XH)))))))))))))))))))))))))))))))) :: ((Npos (XI (XI (XO (XI (XI (XO (XO
    (XI (XO (XO (XO (XO (XO (XO (XO (XO (XO (XO (XO (XO (XO (XO (XO (XO (XO
    (XO (XI (XO (XI (XO (XO XH)))))))))))))))))))))))))))))))) :: ((Npos (XO
    (XO (XO (XI (XI (XO (XI (XO (XI (XO (XO (XO (XO (XO (XO (XO (XO (XO (XO
    (XO (XO (XO (XO (XO (XO (XO (XI (XO (XI (XI (XO
    XH)))))))))))))))))))))))))))))))) :: ((Npos (XI (XO (XI (XI (XI (XI (XI
    (XO (XO (XO (XO (XO (XO (XO (XO (XO (XO (XO (XO (XO (XO (XO (XO (XO (XO
    (XO (XI (XO (XO (XO (XO XH)))))))))))))))))))))))))))))))) :: ((Npos (XI
    (XO (XI (XI (XI (XI (XO (XO (XO (XO (XO (XO (XO (XO (XO (XO (XO (XO (XO
    (XO (XO (XO (XO (XO (XO (XO (XI (XO (XO (XO (XO
    XH)))))))))))))))))))))))))))))))) :: ((Npos (XI (XI (XO (XI (XI (XO (XI
    (XI (XO (XO (XO (XO (XO (XO (XO (XO (XO (XO (XO (XO (XO (XO (XO (XO (XO
    (XO (XI (XO (XI (XO (XO XH)))))))))))))))))))))))))))))))) :: ((Npos (XO
    (XO (XO (XI (XI (XO (XO (XO (XI (XO (XO (XO (XO (XO (XO (XO (XO (XO (XO
    (XO (XO (XO (XO (XO (XO (XO (XI (XO (XI (XO (XO
    XH)))))))))))))))))))))))))))))))) :: ((Npos (XI (XO (XI (XI (XO (XI (XI
    (XO (XO (XO (XO (XO (XO (XO (XO (XO (XO (XO (XO (XO (XO (XO (XO (XO (XO
    (XO (XI (XO (XO (XO (XO XH)))))))))))))))))))))))))))))))) :: ((Npos (XI
    (XO (XI (XI (XO (XI (XO (XO (XO (XO (XO (XO (XO (XO (XO (XO (XO (XO (XO
    (XO (XO (XO (XO (XO (XO (XO (XI (XO (XO (XO (XO
    XH)))))))))))))))))))))))))))))))) :: ((Npos (XI (XI (XO (XI (XI (XI (XO
    (XI (XO (XO (XO (XO (XO (XO (XO (XO (XO (XO (XO (XO (XO (XO (XO (XO (XO
    (XO (XI (XO (XI (XO (XO XH)))))))))))))))))))))))))))))))) :: ((Npos (XI
    (XO (XI (XI (XO (XO (XO (XO (XO (XO (XO (XO (XO (XO (XO (XO (XO (XO (XO
    (XO (XO (XO (XO (XO (XO (XO (XI (XO (XO (XO (XO
    XH)))))))))))))))))))))))))))))))) :: ((Npos (XI (XO (XI (XI (XO (XO (XO
    (XI (XO (XO (XO (XO (XO (XO (XO (XO (XO (XO (XO (XO (XO (XO (XO (XO (XO
    (XO (XI (XO (XO (XO (XO XH)))))))))))))))))))))))))))))))) :: ((Npos (XI
    (XO (XI (XI (XO (XO (XI (XO (XO (XO (XO (XO (XO (XO (XO (XO (XO (XO (XO
    (XO (XO (XO (XO (XO (XO (XO (XI (XO (XO (XO (XO
    XH)))))))))))))))))))))))))))))))) :: ((Npos (XI (XI (XO (XI (XI (XI (XI
    (XI (XO (XO (XO (XO (XO (XO (XO (XO (XO (XO (XO (XO (XO (XO (XO (XO (XO
    (XO (XI (XO (XI (XO (XO XH)))))))))))))))))))))))))))))))) :: ((Npos (XI
    (XO (XO (XO (XO (XO (XO (XO (XI (XO (XO (XO (XO (XO (XO (XO (XO (XO (XO
    (XO (XO (XO (XO (XO (XO (XO (XI (XO (XI (XI
    XH))))))))))))))))))))))))))))))) :: ((Npos (XI (XI (XO (XO (XI (XO (XI
    (XO (XO (XO (XO (XO (XO (XO (XO (XO (XO (XO (XO (XO (XO (XO (XO (XO (XO
    (XO (XI (XO (XO (XO (XO XH)))))))))))))))))))))))))))))))) :: ((Npos (XI
    (XI (XO (XO (XI (XO (XO (XO (XO (XO (XO (XO (XO (XO (XO (XO (XO (XO (XO
    (XO (XO (XO (XO (XO (XO (XO (XI (XO (XO (XO (XO
    XH)))))))))))))))))))))))))))))))) :: ((Npos (XO (XI (XI (XO (XO (XO (XI
    (XO (XO (XO (XO (XO (XO (XO (XO (XO (XO (XO (XO (XO (XO (XO (XO (XO (XO
    (XI (XI (XO (XI XH)))))))))))))))))))))))))))))) :: ((Npos (XO (XO (XO
    (XI (XO (XI (XO (XO (XI (XO (XO (XO (XO (XO (XO (XO (XO (XO (XO (XO (XO
    (XO (XO (XO (XO (XO (XI (XO (XO (XI (XO
    XH)))))))))))))))))))))))))))))))) :: ((Npos (XI (XI (XO (XO (XI (XI (XI
    (XO (XO (XO (XO (XO (XO (XO (XO (XO (XO (XO (XO (XO (XO (XO (XO (XO (XO
    (XO (XI (XO (XO (XO (XO XH)))))))))))))))))))))))))))))))) :: ((Npos (XI
    (XI (XO (XO (XI (XI (XO (XO (XO (XO (XO (XO (XO (XO (XO (XO (XO (XO (XO
    (XO (XO (XO (XO (XO (XO (XO (XI (XO (XO (XO (XO
    XH)))))))))))))))))))))))))))))))) :: ((Npos (XI (XI (XI (XO (XO (XO (XI
    (XI (XO (XO (XO (XO (XO (XO (XO (XO (XO (XO (XO (XO (XO (XO (XO (XO (XO
    (XO (XI (XO (XI (XO (XO XH)))))))))))))))))))))))))))))))) :: ((Npos (XO
    (XI (XO (XI (XO (XO (XO (XO (XI (XO (XO (XO (XO (XO (XO (XO (XO (XO (XO
    (XO (XO (XO (XO (XO (XO (XO (XI (XO (XO (XO (XO
    XH)))))))))))))))))))))))))))))))) :: ((Npos (XI (XI (XO (XO (XO (XI (XI
    (XO (XO (XO (XO (XO (XO (XO (XO (XO (XO (XO (XO (XO (XO (XO (XO (XO (XO
    (XO (XI (XO (XO (XO (XO XH)))))))))))))))))))))))))))))))) :: ((Npos (XI
    (XI (XO (XO (XO (XI (XO (XO (XO (XO (XO (XO (XO (XO (XO (XO (XO (XO (XO
    (XO (XO (XO (XO (XO (XO (XO (XI (XO (XO (XO (XO
    XH)))))))))))))))))))))))))))))))) :: ((Npos (XI (XI (XI (XO (XO (XI (XO
    (XI (XO (XO (XO (XO (XO (XO (XO (XO (XO (XO (XO (XO (XO (XO (XO (XO (XO
    (XO (XI (XO (XI (XO (XO XH)))))))))))))))))))))))))))))))) :: ((Npos (XI
    (XI (XO (XO (XO (XO (XO (XO (XO (XO (XO (XO (XO (XO (XO (XO (XO (XO (XO
    (XO (XO (XO (XO (XO (XO (XO (XI (XO (XO (XO (XO
    XH)))))))))))))))))))))))))))))))) :: ((Npos (XI (XI (XO (XO (XO (XO (XO
    (XI (XO (XO (XO (XO (XO (XO (XO (XO (XO (XO (XO (XO (XO (XO (XO (XO (XO
    (XO (XI (XO (XO (XO (XO XH)))))))))))))))))))))))))))))))) :: ((Npos (XI
    (XI (XO (XO (XO (XO (XI (XO (XO (XO (XO (XO (XO (XO (XO (XO (XO (XO (XO
    (XO (XO (XO (XO (XO (XO (XO (XI (XO (XO (XO (XO
    XH)))))))))))))))))))))))))))))))) :: ((Npos (XI (XI (XI (XO (XO (XI (XI
    (XI (XO (XO (XO (XO (XO (XO (XO (XO (XO (XO (XO (XO (XO (XO (XO (XO (XO
    (XO (XI (XO (XI (XO (XO XH)))))))))))))))))))))))))))))))) :: ((Npos (XI
    (XO (XI (XO (XO (XO (XO (XO (XI (XO (XO (XO (XO (XO (XO (XO (XO (XO (XO
    (XO (XO (XO (XO (XO (XO (XO (XI (XO (XI (XI
    XH))))))))))))))))))))))))))))))) :: ((Npos (XI (XI (XO (XI (XI (XO (XI
    (XO (XO (XO (XO (XO (XO (XO (XO (XO (XO (XO (XO (XO (XO (XO (XO (XO (XO
    (XO (XI (XO (XO (XO (XO XH)))))))))))))))))))))))))))))))) :: ((Npos (XI
    (XI (XO (XI (XI (XO (XO (XO (XO (XO (XO (XO (XO (XO (XO (XO (XO (XO (XO
    (XO (XO (XO (XO (XO (XO (XO (XI (XO (XO (XO (XO
    XH)))))))))))))))))))))))))))))))) :: ((Npos (XI (XI (XI (XO (XI (XO (XO
    (XI (XO (XO (XO (XO (XO (XO (XO (XO (XO (XO (XO (XO (XO (XO (XO (XO (XO
    (XO (XI (XO (XI (XO (XO XH)))))))))))))))))))))))))))))))) :: ((Npos (XO
    (XO (XO (XI (XO (XO (XI (XO (XI (XO (XO (XO (XO (XO (XO (XO (XO (XO (XO
    (XO (XO (XO (XO (XO (XO (XO (XI (XO (XI (XI (XO
    XH)))))))))))))))))))))))))))))))) :: ((Npos (XI (XI (XO (XI (XI (XI (XI
    (XO (XO (XO (XO (XO (XO (XO (XO (XO (XO (XO (XO (XO (XO (XO (XO (XO (XO
    (XO (XI (XO (XO (XO (XO XH)))))))))))))))))))))))))))))))) :: ((Npos (XI
    (XI (XO (XI (XI (XI (XO (XO (XO (XO (XO (XO (XO (XO (XO (XO (XO (XO (XO
    (XO (XO (XO (XO (XO (XO (XO (XI (XO (XO (XO (XO
    XH)))))))))))))))))))))))))))))))) :: ((Npos (XI (XI (XI (XO (XI (XO (XI
    (XI (XO (XO (XO (XO (XO (XO (XO (XO (XO (XO (XO (XO (XO (XO (XO (XO (XO
    (XO (XI (XO (XI (XO (XO XH)))))))))))))))))))))))))))))))) :: ((Npos (XO
    (XO (XI (XO (XI (XO (XO (XO (XI (XO (XO (XO (XO (XO (XO (XO (XO (XO (XO
    (XO (XO (XO (XO (XO (XO (XO (XI (XO (XI (XO (XO
    XH)))))))))))))))))))))))))))))))) :: ((Npos (XI (XI (XO (XI (XO (XI (XI
    (XO (XO (XO (XO (XO (XO (XO (XO (XO (XO (XO (XO (XO (XO (XO (XO (XO (XO
    (XO (XI (XO (XO (XO (XO XH)))))))))))))))))))))))))))))))) :: ((Npos (XI
    (XI (XO (XI (XO (XI (XO (XO (XO (XO (XO (XO (XO (XO (XO (XO (XO (XO (XO
    (XO (XO (XO (XO (XO (XO (XO (XI (XO (XO (XO (XO
    XH)))))))))))))))))))))))))))))))) :: ((Npos (XI (XI (XI (XO (XI (XI (XO
    (XI (XO (XO (XO (XO (XO (XO (XO (XO (XO (XO (XO (XO (XO (XO (XO (XO (XO
    (XO (XI (XO (XI (XO (XO XH)))))))))))))))))))))))))))))))) :: ((Npos (XI
    (XI (XO (XI (XO (XO (XO (XO (XO (XO (XO (XO (XO (XO (XO (XO (XO (XO (XO
    (XO (XO (XO (XO (XO (XO (XO (XI (XO (XO (XO (XO
    XH)))))))))))))))))))))))))))))))) :: ((Npos (XI (XI (XO (XI (XO (XO (XO
    (XI (XO (XO (XO (XO (XO (XO (XO (XO (XO (XO (XO (XO (XO (XO (XO (XO (XO
    (XO (XI (XO (XO (XO (XO XH)))))))))))))))))))))))))))))))) :: ((Npos (XI
    (XI (XO (XI (XO (XO (XI (XO (XO (XO (XO (XO (XO (XO (XO (XO (XO (XO (XO
    (XO (XO (XO (XO (XO (XO (XO (XI (XO (XO (XO (XO
    XH)))))))))))))))))))))))))))))))) :: ((Npos (XI (XI (XI (XO (XI (XI (XI
    (XI (XO (XO (XO (XO (XO (XO (XO (XO (XO (XO (XO (XO (XO (XO (XO (XO (XO
    (XO (XI (XO (XI (XO (XO XH)))))))))))))))))))))))))))))))) :: ((Npos (XI
    (XI (XO (XO (XO (XO (XO (XO (XI (XO (XO (XO (XO (XO (XO (XO (XO (XO (XO
    (XO (XO (XO (XO (XO (XO (XO (XI (XO (XI (XI
    XH))))))))))))))))))))))))))))))) :: ((Npos (XI (XI (XI (XO (XI (XO (XI
    (XO (XO (XO (XO (XO (XO (XO (XO (XO (XO (XO (XO (XO (XO (XO (XO (XO (XO
    (XO (XI (XO (XO (XO (XO XH)))))))))))))))))))))))))))))))) :: ((Npos (XI
    (XI (XI (XO (XI (XO (XO (XO (XO (XO (XO (XO (XO (XO (XO (XO (XO (XO (XO
    (XO (XO (XO (XO (XO (XO (XO (XI (XO (XO (XO (XO
    XH)))))))))))))))))))))))))))))))) :: (N0 :: ((Npos (XO (XO (XO (XI (XI
    (XI (XO (XO (XI (XO (XO (XO (XO (XO (XO (XO (XO (XO (XO (XO (XO (XO (XO
    (XO (XO (XO (XI (XO (XO (XI (XO
    XH)))))))))))))))))))))))))))))))) :: ((Npos (XI (XI (XI (XO (XI (XI (XI
    (XO (XO (XO (XO (XO (XO (XO (XO (XO (XO (XO (XO (XO (XO (XO (XO (XO (XO
    (XO (XI (XO (XO (XO (XO XH)))))))))))))))))))))))))))))))) :: ((Npos (XI
    (XI (XI (XO (XI (XI (XO (XO (XO (XO (XO (XO (XO (XO (XO (XO (XO (XO (XO
    (XO (XO (XO (XO (XO (XO (XO (XI (XO (XO (XO (XO
    XH)))))))))))))))))))))))))))))))) :: ((Npos (XI (XI (XI (XI (XO (XO (XI
    (XI (XO (XO (XO (XO (XO (XO (XO (XO (XO (XO (XO (XO (XO (XO (XO (XO (XO
    (XO (XI (XO (XI (XO (XO XH)))))))))))))))))))))))))))))))) :: ((Npos (XO
    (XI (XI (XI (XO (XO (XO (XO (XI (XO (XO (XO (XO (XO (XO (XO (XO (XO (XO
    (XO (XO (XO (XO (XO (XO (XO (XI (XO (XO (XO (XO
    XH)))))))))))))))))))))))))))))))) :: ((Npos (XI (XI (XI (XO (XO (XI (XI
    (XO (XO (XO (XO (XO (XO (XO (XO (XO (XO (XO (XO (XO (XO (XO (XO (XO (XO
    (XO (XI (XO (XO (XO (XO XH)))))))))))))))))))))))))))))))) :: ((Npos (XI
    (XI (XI (XO (XO (XI (XO (XO (XO (XO (XO (XO (XO (XO (XO (XO (XO (XO (XO
    (XO (XO (XO (XO (XO (XO (XO (XI (XO (XO (XO (XO
    XH)))))))))))))))))))))))))))))))) :: ((Npos (XI (XI (XI (XI (XO (XI (XO
    (XI (XO (XO (XO (XO (XO (XO (XO (XO (XO (XO (XO (XO (XO (XO (XO (XO (XO
    (XO (XI (XO (XI (XO (XO XH)))))))))))))))))))))))))))))))) :: ((Npos (XI
    (XI (XI (XO (XO (XO (XO (XO (XO (XO (XO (XO (XO (XO (XO (XO (XO (XO (XO
    (XO (XO (XO (XO (XO (XO (XO (XI (XO (XO (XO (XO
    XH)))))))))))))))))))))))))))))))) :: ((Npos (XI (XI (XI (XO (XO (XO (XO
    (XI (XO (XO (XO (XO (XO (XO (XO (XO (XO (XO (XO (XO (XO (XO (XO (XO (XO
    (XO (XI (XO (XO (XO (XO XH)))))))))))))))))))))))))))))))) :: ((Npos (XI
    (XI (XI (XO (XO (XO (XI (XO (XO (XO (XO (XO (XO (XO (XO (XO (XO (XO (XO
    (XO (XO (XO (XO (XO (XO (XO (XI (XO (XO (XO (XO
    XH)))))))))))))))))))))))))))))))) :: ((Npos (XI (XI (XI (XI (XO (XI (XI
    (XI (XO (XO (XO (XO (XO (XO (XO (XO (XO (XO (XO (XO (XO (XO (XO (XO (XO
    (XO (XI (XO (XI (XO (XO XH)))))))))))))))))))))))))))))))) :: ((Npos (XI
    (XI (XI (XO (XO (XO (XO (XO (XI (XO (XO (XO (XO (XO (XO (XO (XO (XO (XO
    (XO (XO (XO (XO (XO (XO (XO (XI (XO (XI (XI
    XH))))))))))))))))))))))))))))))) :: ((Npos (XI (XI (XI (XI (XI (XO (XI
    (XO (XO (XO (XO (XO (XO (XO (XO (XO (XO (XO (XO (XO (XO (XO (XO (XO (XO
    (XO (XI (XO (XO (XO (XO XH)))))))))))))))))))))))))))))))) :: ((Npos (XI
    (XI (XI (XI (XI (XO (XO (XO (XO (XO (XO (XO (XO (XO (XO (XO (XO (XO (XO
    (XO (XO (XO (XO (XO (XO (XO (XI (XO (XO (XO (XO
    XH)))))))))))))))))))))))))))))))) :: ((Npos (XI (XI (XI (XI (XI (XO (XO
    (XI (XO (XO (XO (XO (XO (XO (XO (XO (XO (XO (XO (XO (XO (XO (XO (XO (XO
    (XO (XI (XO (XI (XO (XO XH)))))))))))))))))))))))))))))))) :: ((Npos (XO
    (XO (XO (XI (XO (XI (XI (XO (XI (XO (XO (XO (XO (XO (XO (XO (XO (XO (XO
    (XO (XO (XO (XO (XO (XO (XO (XI (XO (XI (XI (XO
    XH)))))))))))))))))))))))))))))))) :: ((Npos (XI (XI (XI (XI (XI (XI (XI
    (XO (XO (XO (XO (XO (XO (XO (XO (XO (XO (XO (XO (XO (XO (XO (XO (XO (XO
    (XO (XI (XO (XO (XO (XO XH)))))))))))))))))))))))))))))))) :: ((Npos (XI
    (XI (XI (XI (XI (XI (XO (XO (XO (XO (XO (XO (XO (XO (XO (XO (XO (XO (XO
    (XO (XO (XO (XO (XO (XO (XO (XI (XO (XO (XO (XO
    XH)))))))))))))))))))))))))))))))) :: ((Npos (XI (XI (XI (XI (XI (XO (XI
    (XI (XO (XO (XO (XO (XO (XO (XO (XO (XO (XO (XO (XO (XO (XO (XO (XO (XO
    (XO (XI (XO (XI (XO (XO XH)))))))))))))))))))))))))))))))) :: ((Npos (XO
    (XO (XI (XI (XI (XO (XO (XO (XI (XO (XO (XO (XO (XO (XO (XO (XO (XO (XO
    (XO (XO (XO (XO (XO (XO (XO (XI (XO (XI (XO (XO
    XH)))))))))))))))))))))))))))))))) :: ((Npos (XI (XI (XI (XI (XO (XI (XI
    (XO (XO (XO (XO (XO (XO (XO (XO (XO (XO (XO (XO (XO (XO (XO (XO (XO (XO
    (XO (XI (XO (XO (XO (XO XH)))))))))))))))))))))))))))))))) :: ((Npos (XI
    (XI (XI (XI (XO (XI (XO (XO (XO (XO (XO (XO (XO (XO (XO (XO (XO (XO (XO
    (XO (XO (XO (XO (XO (XO (XO (XI (XO (XO (XO (XO
    XH)))))))))))))))))))))))))))))))) :: ((Npos (XI (XI (XI (XI (XI (XI (XO
    (XI (XO (XO (XO (XO (XO (XO (XO (XO (XO (XO (XO (XO (XO (XO (XO (XO (XO
    (XO (XI (XO (XI (XO (XO XH)))))))))))))))))))))))))))))))) :: ((Npos (XI
    (XI (XI (XI (XO (XO (XO (XO (XO (XO (XO (XO (XO (XO (XO (XO (XO (XO (XO
    (XO (XO (XO (XO (XO (XO (XO (XI (XO (XO (XO (XO
    XH)))))))))))))))))))))))))))))))) :: ((Npos (XI (XI (XI (XI (XO (XO (XO
    (XI (XO (XO (XO (XO (XO (XO (XO (XO (XO (XO (XO (XO (XO (XO (XO (XO (XO
    (XO (XI (XO (XO (XO (XO XH)))))))))))))))))))))))))))))))) :: ((Npos (XI
    (XI (XI (XI (XO (XO (XI (XO (XO (XO (XO (XO (XO (XO (XO (XO (XO (XO (XO
    (XO (XO (XO (XO (XO (XO (XO (XI (XO (XO (XO (XO
    XH)))))))))))))))))))))))))))))))) :: ((Npos (XI (XI (XI (XI (XI (XI (XI
    (XI (XO (XO (XO (XO (XO (XO (XO (XO (XO (XO (XO (XO (XO (XO (XO (XO (XO
    (XO (XI (XO (XI (XO (XO XH)))))))))))))))))))))))))))))))) :: ((Npos (XO
    (XO (XO (XO (XO (XO (XO (XO (XI (XO (XO (XO (XO (XO (XO (XO (XO (XO (XO
    (XO (XO (XO (XO (XO (XO (XO (XI (XO (XI (XI
    XH))))))))))))))))))))))))))))))) :: ((Npos (XO (XO (XO (XO (XI (XO (XI
    (XO (XO (XO (XO (XO (XO (XO (XO (XO (XO (XO (XO (XO (XO (XO (XO (XO (XO
    (XO (XI (XO (XO (XO (XO XH)))))))))))))))))))))))))))))))) :: ((Npos (XO
    (XO (XO (XO (XI (XO (XO (XO (XO (XO (XO (XO (XO (XO (XO (XO (XO (XO (XO
    (XO (XO (XO (XO (XO (XO (XO (XI (XO (XO (XO (XO
    XH)))))))))))))))))))))))))))))))) :: ((Npos (XI (XO (XI (XO (XI (XI (XI
    (XO (XI (XO (XO (XO (XO (XO (XO (XO (XO (XO (XO (XO (XO (XO (XO (XO (XO
    (XO (XI (XO (XO (XO (XI XH)))))))))))))))))))))))))))))))) :: ((Npos (XI
    (XO (XI (XI (XI (XO (XO (XO (XI (XO (XO (XO (XO (XO (XO (XO (XO (XO (XO
    (XO (XO (XO (XO (XO (XO (XO (XI (XO (XI (XO (XO
    XH)))))))))))))))))))))))))))))))) :: ((Npos (XO (XO (XO (XO (XI (XI (XI
    (XO (XO (XO (XO (XO (XO (XO (XO (XO (XO (XO (XO (XO (XO (XO (XO (XO (XO
    (XO (XI (XO (XO (XO (XO XH)))))))))))))))))))))))))))))))) :: ((Npos (XO
    (XO (XO (XO (XI (XI (XO (XO (XO (XO (XO (XO (XO (XO (XO (XO (XO (XO (XO
    (XO (XO (XO (XO (XO (XO (XO (XI (XO (XO (XO (XO
    XH)))))))))))))))))))))))))))))))) :: ((Npos (XO (XO (XO (XO (XO (XO (XI
    (XI (XO (XO (XO (XO (XO (XO (XO (XO (XO (XO (XO (XO (XO (XO (XO (XO (XO
    (XO (XI (XO (XI (XO (XO XH)))))))))))))))))))))))))))))))) :: ((Npos (XO
    (XO (XO (XI (XO (XO (XO (XO (XI (XO (XO (XO (XO (XO (XO (XO (XO (XO (XO
    (XO (XO (XO (XO (XO (XO (XO (XI (XO (XI (XI
    XH))))))))))))))))))))))))))))))) :: ((Npos (XO (XO (XO (XO (XO (XI (XI
    (XO (XO (XO (XO (XO (XO (XO (XO (XO (XO (XO (XO (XO (XO (XO (XO (XO (XO
    (XO (XI (XO (XO (XO (XO XH)))))))))))))))))))))))))))))))) :: ((Npos (XO
    (XO (XO (XO (XO (XI (XO (XO (XO (XO (XO (XO (XO (XO (XO (XO (XO (XO (XO
    (XO (XO (XO (XO (XO (XO (XO (XI (XO (XO (XO (XO
    XH)))))))))))))))))))))))))))))))) :: ((Npos (XO (XO (XO (XO (XO (XI (XO
    (XI (XO (XO (XO (XO (XO (XO (XO (XO (XO (XO (XO (XO (XO (XO (XO (XO (XO
    (XO (XI (XO (XI (XO (XO XH)))))))))))))))))))))))))))))))) :: ((Npos (XO
    (XO (XO (XO (XO (XO (XO (XO (XO (XO (XO (XO (XO (XO (XO (XO (XO (XO (XO
    (XO (XO (XO (XO (XO (XO (XO (XI (XO (XO (XO (XO
    XH)))))))))))))))))))))))))))))))) :: ((Npos (XO (XO (XO (XO (XO (XO (XO
    (XI (XO (XO (XO (XO (XO (XO (XO (XO (XO (XO (XO (XO (XO (XO (XO (XO (XO
    (XO (XI (XO (XO (XO (XO XH)))))))))))))))))))))))))))))))) :: ((Npos (XO
    (XO (XO (XO (XO (XO (XI (XO (XO (XO (XO (XO (XO (XO (XO (XO (XO (XO (XO
    (XO (XO (XO (XO (XO (XO (XO (XI (XO (XO (XO (XO
    XH)))))))))))))))))))))))))))))))) :: ((Npos (XO (XO (XO (XO (XO (XI (XI
    (XI (XO (XO (XO (XO (XO (XO (XO (XO (XO (XO (XO (XO (XO (XO (XO (XO (XO
    (XO (XI (XO (XI (XO (XO XH)))))))))))))))))))))))))))))))) :: ((Npos (XO
    (XO (XI (XO (XO (XO (XO (XO (XI (XO (XO (XO (XO (XO (XO (XO (XO (XO (XO
    (XO (XO (XO (XO (XO (XO (XO (XI (XO (XI (XI
    XH))))))))))))))))))))))))))))))) :: ((Npos (XO (XO (XO (XI (XI (XO (XI
    (XO (XO (XO (XO (XO (XO (XO (XO (XO (XO (XO (XO (XO (XO (XO (XO (XO (XO
    (XO (XI (XO (XO (XO (XO XH)))))))))))))))))))))))))))))))) :: ((Npos (XO
    (XO (XO (XI (XI (XO (XO (XO (XO (XO (XO (XO (XO (XO (XO (XO (XO (XO (XO
    (XO (XO (XO (XO (XO (XO (XO (XI (XO (XO (XO (XO
    XH)))))))))))))))))))))))))))))))) :: ((Npos (XO (XO (XO (XO (XI (XO (XO
    (XI (XO (XO (XO (XO (XO (XO (XO (XO (XO (XO (XO (XO (XO (XO (XO (XO (XO
    (XO (XI (XO (XI (XO (XO XH)))))))))))))))))))))))))))))))) :: ((Npos (XI
    (XO (XO (XI (XI (XI (XO (XO (XI (XO (XO (XO (XO (XO (XO (XO (XO (XO (XO
    (XO (XO (XO (XO (XO (XO (XO (XI (XO (XO (XI (XO
    XH)))))))))))))))))))))))))))))))) :: ((Npos (XO (XO (XO (XI (XI (XI (XI
    (XO (XO (XO (XO (XO (XO (XO (XO (XO (XO (XO (XO (XO (XO (XO (XO (XO (XO
    (XO (XI (XO (XO (XO (XO XH)))))))))))))))))))))))))))))))) :: ((Npos (XO
    (XO (XO (XI (XI (XI (XO (XO (XO (XO (XO (XO (XO (XO (XO (XO (XO (XO (XO
    (XO (XO (XO (XO (XO (XO (XO (XI (XO (XO (XO (XO
    XH)))))))))))))))))))))))))))))))) :: ((Npos (XO (XO (XO (XO (XI (XO (XI
    (XI (XO (XO (XO (XO (XO (XO (XO (XO (XO (XO (XO (XO (XO (XO (XO (XO (XO
    (XO (XI (XO (XI (XO (XO XH)))))))))))))))))))))))))))))))) :: ((Npos (XI
    (XI (XI (XI (XO (XO (XO (XO (XI (XO (XO (XO (XO (XO (XO (XO (XO (XO (XO
    (XO (XO (XO (XO (XO (XO (XO (XI (XO (XO (XO (XO
    XH)))))))))))))))))))))))))))))))) :: ((Npos (XO (XO (XO (XI (XO (XI (XI
    (XO (XO (XO (XO (XO (XO (XO (XO (XO (XO (XO (XO (XO (XO (XO (XO (XO (XO
    (XO (XI (XO (XO (XO (XO XH)))))))))))))))))))))))))))))))) :: ((Npos (XO
    (XO (XO (XI (XO (XI (XO (XO (XO (XO (XO (XO (XO (XO (XO (XO (XO (XO (XO
    (XO (XO (XO (XO (XO (XO (XO (XI (XO (XO (XO (XO
    XH)))))))))))))))))))))))))))))))) :: ((Npos (XO (XO (XO (XO (XI (XI (XO
    (XI (XO (XO (XO (XO (XO (XO (XO (XO (XO (XO (XO (XO (XO (XO (XO (XO (XO
    (XO (XI (XO (XI (XO (XO XH)))))))))))))))))))))))))))))))) :: ((Npos (XO
    (XO (XO (XI (XO (XO (XO (XO (XO (XO (XO (XO (XO (XO (XO (XO (XO (XO (XO
    (XO (XO (XO (XO (XO (XO (XO (XI (XO (XO (XO (XO
    XH)))))))))))))))))))))))))))))))) :: ((Npos (XO (XO (XO (XI (XO (XO (XO
    (XI (XO (XO (XO (XO (XO (XO (XO (XO (XO (XO (XO (XO (XO (XO (XO (XO (XO
    (XO (XI (XO (XO (XO (XO XH)))))))))))))))))))))))))))))))) :: ((Npos (XO
    (XO (XO (XI (XO (XO (XI (XO (XO (XO (XO (XO (XO (XO (XO (XO (XO (XO (XO
    (XO (XO (XO (XO (XO (XO (XO (XI (XO (XO (XO (XO
    XH)))))))))))))))))))))))))))))))) :: ((Npos (XO (XO (XO (XO (XI (XI (XI
    (XI (XO (XO (XO (XO (XO (XO (XO (XO (XO (XO (XO (XO (XO (XO (XO (XO (XO
    (XO (XI (XO (XI (XO (XO XH)))))))))))))))))))))))))))))))) :: ((Npos (XO
    (XI (XO (XO (XO (XO (XO (XO (XI (XO (XO (XO (XO (XO (XO (XO (XO (XO (XO
    (XO (XO (XO (XO (XO (XO (XO (XI (XO (XI (XI
    XH))))))))))))))))))))))))))))))) :: ((Npos (XO (XO (XI (XO (XI (XO (XI
    (XO (XO (XO (XO (XO (XO (XO (XO (XO (XO (XO (XO (XO (XO (XO (XO (XO (XO
    (XO (XI (XO (XO (XO (XO XH)))))))))))))))))))))))))))))))) :: ((Npos (XO
    (XO (XI (XO (XI (XO (XO (XO (XO (XO (XO (XO (XO (XO (XO (XO (XO (XO (XO
    (XO (XO (XO (XO (XO (XO (XO (XI (XO (XO (XO (XO
    XH)))))))))))))))))))))))))))))))) :: ((Npos (XO (XO (XO (XI (XO (XI (XI
    (XO (XO (XO (XO (XO (XO (XO (XO (XO (XO (XO (XO (XO (XO (XO (XO (XO (XO
    (XI (XI (XO (XI XH)))))))))))))))))))))))))))))) :: ((Npos (XI (XO (XO
    (XI (XO (XI (XO (XO (XI (XO (XO (XO (XO (XO (XO (XO (XO (XO (XO (XO (XO
    (XO (XO (XO (XO (XO (XI (XO (XO (XI (XO
    XH)))))))))))))))))))))))))))))))) :: ((Npos (XO (XO (XI (XO (XI (XI (XI
    (XO (XO (XO (XO (XO (XO (XO (XO (XO (XO (XO (XO (XO (XO (XO (XO (XO (XO
    (XO (XI (XO (XO (XO (XO XH)))))))))))))))))))))))))))))))) :: ((Npos (XO
    (XO (XI (XO (XI (XI (XO (XO (XO (XO (XO (XO (XO (XO (XO (XO (XO (XO (XO
    (XO (XO (XO (XO (XO (XO (XO (XI (XO (XO (XO (XO
    XH)))))))))))))))))))))))))))))))) :: ((Npos (XO (XO (XO (XI (XO (XO (XI
    (XI (XO (XO (XO (XO (XO (XO (XO (XO (XO (XO (XO (XO (XO (XO (XO (XO (XO
    (XO (XI (XO (XI (XO (XO XH)))))))))))))))))))))))))))))))) :: ((Npos (XI
    (XI (XO (XI (XO (XO (XO (XO (XI (XO (XO (XO (XO (XO (XO (XO (XO (XO (XO
    (XO (XO (XO (XO (XO (XO (XO (XI (XO (XO (XO (XO
    XH)))))))))))))))))))))))))))))))) :: ((Npos (XO (XO (XI (XO (XO (XI (XI
    (XO (XO (XO (XO (XO (XO (XO (XO (XO (XO (XO (XO (XO (XO (XO (XO (XO (XO
    (XO (XI (XO (XO (XO (XO XH)))))))))))))))))))))))))))))))) :: ((Npos (XO
    (XO (XI (XO (XO (XI (XO (XO (XO (XO (XO (XO (XO (XO (XO (XO (XO (XO (XO
    (XO (XO (XO (XO (XO (XO (XO (XI (XO (XO (XO (XO
    XH)))))))))))))))))))))))))))))))) :: ((Npos (XO (XO (XO (XI (XO (XI (XO
    (XI (XO (XO (XO (XO (XO (XO (XO (XO (XO (XO (XO (XO (XO (XO (XO (XO (XO
    (XO (XI (XO (XI (XO (XO XH)))))))))))))))))))))))))))))))) :: ((Npos (XO
    (XO (XI (XO (XO (XO (XO (XO (XO (XO (XO (XO (XO (XO (XO (XO (XO (XO (XO
    (XO (XO (XO (XO (XO (XO (XO (XI (XO (XO (XO (XO
    XH)))))))))))))))))))))))))))))))) :: ((Npos (XO (XO (XI (XO (XO (XO (XO
    (XI (XO (XO (XO (XO (XO (XO (XO (XO (XO (XO (XO (XO (XO (XO (XO (XO (XO
    (XO (XI (XO (XO (XO (XO XH)))))))))))))))))))))))))))))))) :: ((Npos (XO
    (XO (XI (XO (XO (XO (XI (XO (XO (XO (XO (XO (XO (XO (XO (XO (XO (XO (XO
    (XO (XO (XO (XO (XO (XO (XO (XI (XO (XO (XO (XO
    XH)))))))))))))))))))))))))))))))) :: ((Npos (XO (XO (XO (XI (XO (XI (XI
    (XI (XO (XO (XO (XO (XO (XO (XO (XO (XO (XO (XO (XO (XO (XO (XO (XO (XO
    (XO (XI (XO (XI (XO (XO XH)))))))))))))))))))))))))))))))) :: ((Npos (XO
    (XI (XI (XO (XO (XO (XO (XO (XI (XO (XO (XO (XO (XO (XO (XO (XO (XO (XO
    (XO (XO (XO (XO (XO (XO (XO (XI (XO (XI (XI
    XH))))))))))))))))))))))))))))))) :: ((Npos (XO (XO (XI (XI (XI (XO (XI
    (XO (XO (XO (XO (XO (XO (XO (XO (XO (XO (XO (XO (XO (XO (XO (XO (XO (XO
    (XO (XI (XO (XO (XO (XO XH)))))))))))))))))))))))))))))))) :: ((Npos (XO
    (XO (XI (XI (XI (XO (XO (XO (XO (XO (XO (XO (XO (XO (XO (XO (XO (XO (XO
    (XO (XO (XO (XO (XO (XO (XO (XI (XO (XO (XO (XO
    XH)))))))))))))))))))))))))))))))) :: ((Npos (XO (XO (XO (XI (XI (XO (XO
    (XI (XO (XO (XO (XO (XO (XO (XO (XO (XO (XO (XO (XO (XO (XO (XO (XO (XO
    (XO (XI (XO (XI (XO (XO XH)))))))))))))))))))))))))))))))) :: ((Npos (XI
    (XO (XO (XI (XI (XO (XI (XO (XI (XO (XO (XO (XO (XO (XO (XO (XO (XO (XO
    (XO (XO (XO (XO (XO (XO (XO (XI (XO (XI (XI (XO
    XH)))))))))))))))))))))))))))))))) :: ((Npos (XO (XO (XI (XI (XI (XI (XI
    (XO (XO (XO (XO (XO (XO (XO (XO (XO (XO (XO (XO (XO (XO (XO (XO (XO (XO
    (XO (XI (XO (XO (XO (XO XH)))))))))))))))))))))))))))))))) :: ((Npos (XO
    (XO (XI (XI (XI (XI (XO (XO (XO (XO (XO (XO (XO (XO (XO (XO (XO (XO (XO
    (XO (XO (XO (XO (XO (XO (XO (XI (XO (XO (XO (XO
    XH)))))))))))))))))))))))))))))))) :: ((Npos (XO (XO (XO (XI (XI (XO (XI
    (XI (XO (XO (XO (XO (XO (XO (XO (XO (XO (XO (XO (XO (XO (XO (XO (XO (XO
    (XO (XI (XO (XI (XO (XO XH)))))))))))))))))))))))))))))))) :: ((Npos (XI
    (XO (XI (XO (XI (XO (XO (XO (XI (XO (XO (XO (XO (XO (XO (XO (XO (XO (XO
    (XO (XO (XO (XO (XO (XO (XO (XI (XO (XI (XO (XO
    XH)))))))))))))))))))))))))))))))) :: ((Npos (XO (XO (XI (XI (XO (XI (XI
    (XO (XO (XO (XO (XO (XO (XO (XO (XO (XO (XO (XO (XO (XO (XO (XO (XO (XO
    (XO (XI (XO (XO (XO (XO XH)))))))))))))))))))))))))))))))) :: ((Npos (XO
    (XO (XI (XI (XO (XI (XO (XO (XO (XO (XO (XO (XO (XO (XO (XO (XO (XO (XO
    (XO (XO (XO (XO (XO (XO (XO (XI (XO (XO (XO (XO
    XH)))))))))))))))))))))))))))))))) :: ((Npos (XO (XO (XO (XI (XI (XI (XO
    (XI (XO (XO (XO (XO (XO (XO (XO (XO (XO (XO (XO (XO (XO (XO (XO (XO (XO
    (XO (XI (XO (XI (XO (XO XH)))))))))))))))))))))))))))))))) :: ((Npos (XO
    (XO (XI (XI (XO (XO (XO (XO (XO (XO (XO (XO (XO (XO (XO (XO (XO (XO (XO
    (XO (XO (XO (XO (XO (XO (XO (XI (XO (XO (XO (XO
    XH)))))))))))))))))))))))))))))))) :: ((Npos (XO (XO (XI (XI (XO (XO (XO
    (XI (XO (XO (XO (XO (XO (XO (XO (XO (XO (XO (XO (XO (XO (XO (XO (XO (XO
    (XO (XI (XO (XO (XO (XO XH)))))))))))))))))))))))))))))))) :: ((Npos (XO
    (XO (XI (XI (XO (XO (XI (XO (XO (XO (XO (XO (XO (XO (XO (XO (XO (XO (XO
    (XO (XO (XO (XO (XO (XO (XO (XI (XO (XO (XO (XO
    XH)))))))))))))))))))))))))))))))) :: ((Npos (XO (XO (XO (XI (XI (XI (XI
    (XI (XO (XO (XO (XO (XO (XO (XO (XO (XO (XO (XO (XO (XO (XO (XO (XO (XO
    (XO (XI (XO (XI (XO (XO XH)))))))))))))))))))))))))))))))) :: ((Npos (XI
    (XO (XO (XO (XO (XO (XO (XO (XI (XO (XO (XO (XO (XO (XO (XO (XO (XO (XO
    (XO (XO (XO (XO (XO (XO (XO (XI (XO (XI (XI
    XH))))))))))))))))))))))))))))))) :: ((Npos (XO (XI (XO (XO (XI (XO (XI
    (XO (XO (XO (XO (XO (XO (XO (XO (XO (XO (XO (XO (XO (XO (XO (XO (XO (XO
    (XO (XI (XO (XO (XO (XO XH)))))))))))))))))))))))))))))))) :: ((Npos (XO
    (XI (XO (XO (XI (XO (XO (XO (XO (XO (XO (XO (XO (XO (XO (XO (XO (XO (XO
    (XO (XO (XO (XO (XO (XO (XO (XI (XO (XO (XO (XO
    XH)))))))))))))))))))))))))))))))) :: ((Npos (XO (XO (XO (XI (XO (XI (XO
    (XO (XO (XO (XO (XO (XO (XO (XO (XO (XO (XO (XO (XO (XO (XO (XO (XO (XO
    (XI (XI (XO (XI XH)))))))))))))))))))))))))))))) :: ((Npos (XI (XO (XO
    (XO (XO (XI (XO (XO (XI (XO (XO (XO (XO (XO (XO (XO (XO (XO (XO (XO (XO
    (XO (XO (XO (XO (XO (XI (XO (XO (XI (XO
    XH)))))))))))))))))))))))))))))))) :: ((Npos (XO (XI (XO (XO (XI (XI (XI
    (XO (XO (XO (XO (XO (XO (XO (XO (XO (XO (XO (XO (XO (XO (XO (XO (XO (XO
    (XO (XI (XO (XO (XO (XO XH)))))))))))))))))))))))))))))))) :: ((Npos (XO
    (XI (XO (XO (XI (XI (XO (XO (XO (XO (XO (XO (XO (XO (XO (XO (XO (XO (XO
    (XO (XO (XO (XO (XO (XO (XO (XI (XO (XO (XO (XO
    XH)))))))))))))))))))))))))))))))) :: ((Npos (XO (XO (XI (XO (XO (XO (XI
    (XI (XO (XO (XO (XO (XO (XO (XO (XO (XO (XO (XO (XO (XO (XO (XO (XO (XO
    (XO (XI (XO (XI (XO (XO XH)))))))))))))))))))))))))))))))) :: ((Npos (XI
    (XO (XO (XI (XO (XO (XO (XO (XI (XO (XO (XO (XO (XO (XO (XO (XO (XO (XO
    (XO (XO (XO (XO (XO (XO (XO (XI (XO (XO (XO (XO
    XH)))))))))))))))))))))))))))))))) :: ((Npos (XO (XI (XO (XO (XO (XI (XI
    (XO (XO (XO (XO (XO (XO (XO (XO (XO (XO (XO (XO (XO (XO (XO (XO (XO (XO
    (XO (XI (XO (XO (XO (XO XH)))))))))))))))))))))))))))))))) :: ((Npos (XO
    (XI (XO (XO (XO (XI (XO (XO (XO (XO (XO (XO (XO (XO (XO (XO (XO (XO (XO
    (XO (XO (XO (XO (XO (XO (XO (XI (XO (XO (XO (XO
    XH)))))))))))))))))))))))))))))))) :: ((Npos (XO (XO (XI (XO (XO (XI (XO
    (XI (XO (XO (XO (XO (XO (XO (XO (XO (XO (XO (XO (XO (XO (XO (XO (XO (XO
    (XO (XI (XO (XI (XO (XO XH)))))))))))))))))))))))))))))))) :: ((Npos (XO
    (XI (XO (XO (XO (XO (XO (XO (XO (XO (XO (XO (XO (XO (XO (XO (XO (XO (XO
    (XO (XO (XO (XO (XO (XO (XO (XI (XO (XO (XO (XO
    XH)))))))))))))))))))))))))))))))) :: ((Npos (XO (XI (XO (XO (XO (XO (XO
    (XI (XO (XO (XO (XO (XO (XO (XO (XO (XO (XO (XO (XO (XO (XO (XO (XO (XO
    (XO (XI (XO (XO (XO (XO XH)))))))))))))))))))))))))))))))) :: ((Npos (XO
    (XI (XO (XO (XO (XO (XI (XO (XO (XO (XO (XO (XO (XO (XO (XO (XO (XO (XO
    (XO (XO (XO (XO (XO (XO (XO (XI (XO (XO (XO (XO
    XH)))))))))))))))))))))))))))))))) :: ((Npos (XO (XO (XI (XO (XO (XI (XI
    (XI (XO (XO (XO (XO (XO (XO (XO (XO (XO (XO (XO (XO (XO (XO (XO (XO (XO
    (XO (XI (XO (XI (XO (XO XH)))))))))))))))))))))))))))))))) :: ((Npos (XI
    (XO (XI (XO (XO (XO (XO (XO (XI (XO (XO (XO (XO (XO (XO (XO (XO (XO (XO
    (XO (XO (XO (XO (XO (XO (XO (XI (XO (XI (XI
    XH))))))))))))))))))))))))))))))) :: ((Npos (XO (XI (XO (XI (XI (XO (XI
    (XO (XO (XO (XO (XO (XO (XO (XO (XO (XO (XO (XO (XO (XO (XO (XO (XO (XO
    (XO (XI (XO (XO (XO (XO XH)))))))))))))))))))))))))))))))) :: ((Npos (XO
    (XI (XO (XI (XI (XO (XO (XO (XO (XO (XO (XO (XO (XO (XO (XO (XO (XO (XO
    (XO (XO (XO (XO (XO (XO (XO (XI (XO (XO (XO (XO
    XH)))))))))))))))))))))))))))))))) :: ((Npos (XO (XO (XI (XO (XI (XO (XO
    (XI (XO (XO (XO (XO (XO (XO (XO (XO (XO (XO (XO (XO (XO (XO (XO (XO (XO
    (XO (XI (XO (XI (XO (XO XH)))))))))))))))))))))))))))))))) :: ((Npos (XI
    (XO (XO (XI (XO (XO (XI (XO (XI (XO (XO (XO (XO (XO (XO (XO (XO (XO (XO
    (XO (XO (XO (XO (XO (XO (XO (XI (XO (XI (XI (XO
    XH)))))))))))))))))))))))))))))))) :: ((Npos (XO (XI (XO (XI (XI (XI (XI
    (XO (XO (XO (XO (XO (XO (XO (XO (XO (XO (XO (XO (XO (XO (XO (XO (XO (XO
    (XO (XI (XO (XO (XO (XO XH)))))))))))))))))))))))))))))))) :: ((Npos (XO
    (XI (XO (XI (XI (XI (XO (XO (XO (XO (XO (XO (XO (XO (XO (XO (XO (XO (XO
    (XO (XO (XO (XO (XO (XO (XO (XI (XO (XO (XO (XO
    XH)))))))))))))))))))))))))))))))) :: ((Npos (XO (XO (XI (XO (XI (XO (XI
    (XI (XO (XO (XO (XO (XO (XO (XO (XO (XO (XO (XO (XO (XO (XO (XO (XO (XO
    (XO (XI (XO (XI (XO (XO XH)))))))))))))))))))))))))))))))) :: ((Npos (XI
    (XO (XO (XO (XI (XO (XO (XO (XI (XO (XO (XO (XO (XO (XO (XO (XO (XO (XO
    (XO (XO (XO (XO (XO (XO (XO (XI (XO (XI (XO (XO
    XH)))))))))))))))))))))))))))))))) :: ((Npos (XO (XI (XO (XI (XO (XI (XI
    (XO (XO (XO (XO (XO (XO (XO (XO (XO (XO (XO (XO (XO (XO (XO (XO (XO (XO
    (XO (XI (XO (XO (XO (XO XH)))))))))))))))))))))))))))))))) :: ((Npos (XO
    (XI (XO (XI (XO (XI (XO (XO (XO (XO (XO (XO (XO (XO (XO (XO (XO (XO (XO
    (XO (XO (XO (XO (XO (XO (XO (XI (XO (XO (XO (XO
    XH)))))))))))))))))))))))))))))))) :: ((Npos (XO (XO (XI (XO (XI (XI (XO
    (XI (XO (XO (XO (XO (XO (XO (XO (XO (XO (XO (XO (XO (XO (XO (XO (XO (XO
    (XO (XI (XO (XI (XO (XO XH)))))))))))))))))))))))))))))))) :: ((Npos (XO
    (XI (XO (XI (XO (XO (XO (XO (XO (XO (XO (XO (XO (XO (XO (XO (XO (XO (XO
    (XO (XO (XO (XO (XO (XO (XO (XI (XO (XO (XO (XO
    XH)))))))))))))))))))))))))))))))) :: ((Npos (XO (XI (XO (XI (XO (XO (XO
    (XI (XO (XO (XO (XO (XO (XO (XO (XO (XO (XO (XO (XO (XO (XO (XO (XO (XO
    (XO (XI (XO (XO (XO (XO XH)))))))))))))))))))))))))))))))) :: ((Npos (XO
    (XI (XO (XI (XO (XO (XI (XO (XO (XO (XO (XO (XO (XO (XO (XO (XO (XO (XO
    (XO (XO (XO (XO (XO (XO (XO (XI (XO (XO (XO (XO
    XH)))))))))))))))))))))))))))))))) :: ((Npos (XO (XO (XI (XO (XI (XI (XI
    (XI (XO (XO (XO (XO (XO (XO (XO (XO (XO (XO (XO (XO (XO (XO (XO (XO (XO
    (XO (XI (XO (XI (XO (XO XH)))))))))))))))))))))))))))))))) :: ((Npos (XI
    (XI (XO (XO (XO (XO (XO (XO (XI (XO (XO (XO (XO (XO (XO (XO (XO (XO (XO
    (XO (XO (XO (XO (XO (XO (XO (XI (XO (XI (XI
    XH))))))))))))))))))))))))))))))) :: ((Npos (XO (XI (XI (XO (XI (XO (XI
    (XO (XO (XO (XO (XO (XO (XO (XO (XO (XO (XO (XO (XO (XO (XO (XO (XO (XO
    (XO (XI (XO (XO (XO (XO XH)))))))))))))))))))))))))))))))) :: ((Npos (XO
    (XI (XI (XO (XI (XO (XO (XO (XO (XO (XO (XO (XO (XO (XO (XO (XO (XO (XO
    (XO (XO (XO (XO (XO (XO (XO (XI (XO (XO (XO (XO
    XH)))))))))))))))))))))))))))))))) :: (N0 :: ((Npos (XI (XO (XO (XO (XI
    (XI (XO (XO (XI (XO (XO (XO (XO (XO (XO (XO (XO (XO (XO (XO (XO (XO (XO
    (XO (XO (XO (XI (XO (XO (XI (XO
    XH)))))))))))))))))))))))))))))))) :: ((Npos (XO (XI (XI (XO (XI (XI (XI
    (XO (XO (XO (XO (XO (XO (XO (XO (XO (XO (XO (XO (XO (XO (XO (XO (XO (XO
    (XO (XI (XO (XO (XO (XO XH)))))))))))))))))))))))))))))))) :: ((Npos (XO
    (XI (XI (XO (XI (XI (XO (XO (XO (XO (XO (XO (XO (XO (XO (XO (XO (XO (XO
    (XO (XO (XO (XO (XO (XO (XO (XI (XO (XO (XO (XO
    XH)))))))))))))))))))))))))))))))) :: ((Npos (XO (XO (XI (XI (XO (XO (XI
    (XI (XO (XO (XO (XO (XO (XO (XO (XO (XO (XO (XO (XO (XO (XO (XO (XO (XO
    (XO (XI (XO (XI (XO (XO XH)))))))))))))))))))))))))))))))) :: ((Npos (XI
    (XO (XI (XI (XO (XO (XO (XO (XI (XO (XO (XO (XO (XO (XO (XO (XO (XO (XO
    (XO (XO (XO (XO (XO (XO (XO (XI (XO (XO (XO (XO
    XH)))))))))))))))))))))))))))))))) :: ((Npos (XO (XI (XI (XO (XO (XI (XI
    (XO (XO (XO (XO (XO (XO (XO (XO (XO (XO (XO (XO (XO (XO (XO (XO (XO (XO
    (XO (XI (XO (XO (XO (XO XH)))))))))))))))))))))))))))))))) :: ((Npos (XO
    (XI (XI (XO (XO (XI (XO (XO (XO (XO (XO (XO (XO (XO (XO (XO (XO (XO (XO
    (XO (XO (XO (XO (XO (XO (XO (XI (XO (XO (XO (XO
    XH)))))))))))))))))))))))))))))))) :: ((Npos (XO (XO (XI (XI (XO (XI (XO
    (XI (XO (XO (XO (XO (XO (XO (XO (XO (XO (XO (XO (XO (XO (XO (XO (XO (XO
    (XO (XI (XO (XI (XO (XO XH)))))))))))))))))))))))))))))))) :: ((Npos (XO
    (XI (XI (XO (XO (XO (XO (XO (XO (XO (XO (XO (XO (XO (XO (XO (XO (XO (XO
    (XO (XO (XO (XO (XO (XO (XO (XI (XO (XO (XO (XO
    XH)))))))))))))))))))))))))))))))) :: ((Npos (XO (XI (XI (XO (XO (XO (XO
    (XI (XO (XO (XO (XO (XO (XO (XO (XO (XO (XO (XO (XO (XO (XO (XO (XO (XO
    (XO (XI (XO (XO (XO (XO XH)))))))))))))))))))))))))))))))) :: ((Npos (XO
    (XI (XI (XO (XO (XO (XI (XO (XO (XO (XO (XO (XO (XO (XO (XO (XO (XO (XO
    (XO (XO (XO (XO (XO (XO (XO (XI (XO (XO (XO (XO
    XH)))))))))))))))))))))))))))))))) :: ((Npos (XO (XO (XI (XI (XO (XI (XI
    (XI (XO (XO (XO (XO (XO (XO (XO (XO (XO (XO (XO (XO (XO (XO (XO (XO (XO
    (XO (XI (XO (XI (XO (XO XH)))))))))))))))))))))))))))))))) :: ((Npos (XI
    (XI (XI (XO (XO (XO (XO (XO (XI (XO (XO (XO (XO (XO (XO (XO (XO (XO (XO
    (XO (XO (XO (XO (XO (XO (XO (XI (XO (XI (XI
    XH))))))))))))))))))))))))))))))) :: ((Npos (XO (XI (XI (XI (XI (XO (XI
    (XO (XO (XO (XO (XO (XO (XO (XO (XO (XO (XO (XO (XO (XO (XO (XO (XO (XO
    (XO (XI (XO (XO (XO (XO XH)))))))))))))))))))))))))))))))) :: ((Npos (XO
    (XI (XI (XI (XI (XO (XO (XO (XO (XO (XO (XO (XO (XO (XO (XO (XO (XO (XO
    (XO (XO (XO (XO (XO (XO (XO (XI (XO (XO (XO (XO
    XH)))))))))))))))))))))))))))))))) :: ((Npos (XO (XO (XI (XI (XI (XO (XO
    (XI (XO (XO (XO (XO (XO (XO (XO (XO (XO (XO (XO (XO (XO (XO (XO (XO (XO
    (XO (XI (XO (XI (XO (XO XH)))))))))))))))))))))))))))))))) :: ((Npos (XI
    (XO (XO (XI (XO (XI (XI (XO (XI (XO (XO (XO (XO (XO (XO (XO (XO (XO (XO
    (XO (XO (XO (XO (XO (XO (XO (XI (XO (XI (XI (XO
    XH)))))))))))))))))))))))))))))))) :: ((Npos (XO (XI (XI (XI (XI (XI (XI
    (XO (XO (XO (XO (XO (XO (XO (XO (XO (XO (XO (XO (XO (XO (XO (XO (XO (XO
    (XO (XI (XO (XO (XO (XO XH)))))))))))))))))))))))))))))))) :: ((Npos (XO
    (XI (XI (XI (XI (XI (XO (XO (XO (XO (XO (XO (XO (XO (XO (XO (XO (XO (XO
    (XO (XO (XO (XO (XO (XO (XO (XI (XO (XO (XO (XO
    XH)))))))))))))))))))))))))))))))) :: ((Npos (XO (XO (XI (XI (XI (XO (XI
    (XI (XO (XO (XO (XO (XO (XO (XO (XO (XO (XO (XO (XO (XO (XO (XO (XO (XO
    (XO (XI (XO (XI (XO (XO XH)))))))))))))))))))))))))))))))) :: ((Npos (XI
    (XO (XO (XI (XI (XO (XO (XO (XI (XO (XO (XO (XO (XO (XO (XO (XO (XO (XO
    (XO (XO (XO (XO (XO (XO (XO (XI (XO (XI (XO (XO
    XH)))))))))))))))))))))))))))))))) :: ((Npos (XO (XI (XI (XI (XO (XI (XI
    (XO (XO (XO (XO (XO (XO (XO (XO (XO (XO (XO (XO (XO (XO (XO (XO (XO (XO
    (XO (XI (XO (XO (XO (XO XH)))))))))))))))))))))))))))))))) :: ((Npos (XO
    (XI (XI (XI (XO (XI (XO (XO (XO (XO (XO (XO (XO (XO (XO (XO (XO (XO (XO
    (XO (XO (XO (XO (XO (XO (XO (XI (XO (XO (XO (XO
    XH)))))))))))))))))))))))))))))))) :: ((Npos (XO (XO (XI (XI (XI (XI (XO
    (XI (XO (XO (XO (XO (XO (XO (XO (XO (XO (XO (XO (XO (XO (XO (XO (XO (XO
    (XO (XI (XO (XI (XO (XO XH)))))))))))))))))))))))))))))))) :: ((Npos (XO
    (XI (XI (XI (XO (XO (XO (XO (XO (XO (XO (XO (XO (XO (XO (XO (XO (XO (XO
    (XO (XO (XO (XO (XO (XO (XO (XI (XO (XO (XO (XO
    XH)))))))))))))))))))))))))))))))) :: ((Npos (XO (XI (XI (XI (XO (XO (XO
    (XI (XO (XO (XO (XO (XO (XO (XO (XO (XO (XO (XO (XO (XO (XO (XO (XO (XO
    (XO (XI (XO (XO (XO (XO XH)))))))))))))))))))))))))))))))) :: ((Npos (XO
    (XI (XI (XI (XO (XO (XI (XO (XO (XO (XO (XO (XO (XO (XO (XO (XO (XO (XO
    (XO (XO (XO (XO (XO (XO (XO (XI (XO (XO (XO (XO
    XH)))))))))))))))))))))))))))))))) :: ((Npos (XO (XO (XI (XI (XI (XI (XI
    (XI (XO (XO (XO (XO (XO (XO (XO (XO (XO (XO (XO (XO (XO (XO (XO (XO (XO
    (XO (XI (XO (XI (XO (XO XH)))))))))))))))))))))))))))))))) :: ((Npos (XO
    (XO (XO (XO (XO (XO (XO (XO (XI (XO (XO (XO (XO (XO (XO (XO (XO (XO (XO
    (XO (XO (XO (XO (XO (XO (XO (XI (XO (XI (XI
    XH))))))))))))))))))))))))))))))) :: ((Npos (XI (XO (XO (XO (XI (XO (XI
    (XO (XO (XO (XO (XO (XO (XO (XO (XO (XO (XO (XO (XO (XO (XO (XO (XO (XO
    (XO (XI (XO (XO (XO (XO XH)))))))))))))))))))))))))))))))) :: ((Npos (XI
    (XO (XO (XO (XI (XO (XO (XO (XO (XO (XO (XO (XO (XO (XO (XO (XO (XO (XO
    (XO (XO (XO (XO (XO (XO (XO (XI (XO (XO (XO (XO
    XH)))))))))))))))))))))))))))))))) :: ((Npos (XO (XO (XO (XI (XO (XO (XO
    (XO (XO (XO (XO (XO (XO (XO (XO (XO (XO (XO (XO (XO (XO (XO (XO (XO (XO
    (XI (XI (XO (XI XH)))))))))))))))))))))))))))))) :: ((Npos (XO (XI (XI
    (XI (XI (XO (XO (XO (XI (XO (XO (XO (XO (XO (XO (XO (XO (XO (XO (XO (XO
    (XO (XO (XO (XO (XO (XI (XO (XI (XO (XO
    XH)))))))))))))))))))))))))))))))) :: ((Npos (XI (XO (XO (XO (XI (XI (XI
    (XO (XO (XO (XO (XO (XO (XO (XO (XO (XO (XO (XO (XO (XO (XO (XO (XO (XO
    (XO (XI (XO (XO (XO (XO XH)))))))))))))))))))))))))))))))) :: ((Npos (XI
    (XO (XO (XO (XI (XI (XO (XO (XO (XO (XO (XO (XO (XO (XO (XO (XO (XO (XO
    (XO (XO (XO (XO (XO (XO (XO (XI (XO (XO (XO (XO
    XH)))))))))))))))))))))))))))))))) :: ((Npos (XO (XI (XO (XO (XO (XO (XI
    (XI (XO (XO (XO (XO (XO (XO (XO (XO (XO (XO (XO (XO (XO (XO (XO (XO (XO
    (XO (XI (XO (XI (XO (XO XH)))))))))))))))))))))))))))))))) :: ((Npos (XO
    (XO (XO (XI (XO (XO (XO (XO (XI (XO (XO (XO (XO (XO (XO (XO (XO (XO (XO
    (XO (XO (XO (XO (XO (XO (XO (XI (XO (XI (XI
    XH))))))))))))))))))))))))))))))) :: ((Npos (XI (XO (XO (XO (XO (XI (XI
    (XO (XO (XO (XO (XO (XO (XO (XO (XO (XO (XO (XO (XO (XO (XO (XO (XO (XO
    (XO (XI (XO (XO (XO (XO XH)))))))))))))))))))))))))))))))) :: ((Npos (XI
    (XO (XO (XO (XO (XI (XO (XO (XO (XO (XO (XO (XO (XO (XO (XO (XO (XO (XO
    (XO (XO (XO (XO (XO (XO (XO (XI (XO (XO (XO (XO
    XH)))))))))))))))))))))))))))))))) :: ((Npos (XO (XI (XO (XO (XO (XI (XO
    (XI (XO (XO (XO (XO (XO (XO (XO (XO (XO (XO (XO (XO (XO (XO (XO (XO (XO
    (XO (XI (XO (XI (XO (XO XH)))))))))))))))))))))))))))))))) :: ((Npos (XI
    (XO (XO (XO (XO (XO (XO (XO (XO (XO (XO (XO (XO (XO (XO (XO (XO (XO (XO
    (XO (XO (XO (XO (XO (XO (XO (XI (XO (XO (XO (XO
    XH)))))))))))))))))))))))))))))))) :: ((Npos (XI (XO (XO (XO (XO (XO (XO
    (XI (XO (XO (XO (XO (XO (XO (XO (XO (XO (XO (XO (XO (XO (XO (XO (XO (XO
    (XO (XI (XO (XO (XO (XO XH)))))))))))))))))))))))))))))))) :: ((Npos (XI
    (XO (XO (XO (XO (XO (XI (XO (XO (XO (XO (XO (XO (XO (XO (XO (XO (XO (XO
    (XO (XO (XO (XO (XO (XO (XO (XI (XO (XO (XO (XO
    XH)))))))))))))))))))))))))))))))) :: ((Npos (XO (XI (XO (XO (XO (XI (XI
    (XI (XO (XO (XO (XO (XO (XO (XO (XO (XO (XO (XO (XO (XO (XO (XO (XO (XO
    (XO (XI (XO (XI (XO (XO XH)))))))))))))))))))))))))))))))) :: ((Npos (XO
    (XO (XI (XO (XO (XO (XO (XO (XI (XO (XO (XO (XO (XO (XO (XO (XO (XO (XO
    (XO (XO (XO (XO (XO (XO (XO (XI (XO (XI (XI
    XH))))))))))))))))))))))))))))))) :: ((Npos (XI (XO (XO (XI (XI (XO (XI
    (XO (XO (XO (XO (XO (XO (XO (XO (XO (XO (XO (XO (XO (XO (XO (XO (XO (XO
    (XO (XI (XO (XO (XO (XO XH)))))))))))))))))))))))))))))))) :: ((Npos (XI
    (XO (XO (XI (XI (XO (XO (XO (XO (XO (XO (XO (XO (XO (XO (XO (XO (XO (XO
    (XO (XO (XO (XO (XO (XO (XO (XI (XO (XO (XO (XO
    XH)))))))))))))))))))))))))))))))) :: ((Npos (XO (XI (XO (XO (XI (XO (XO
    (XI (XO (XO (XO (XO (XO (XO (XO (XO (XO (XO (XO (XO (XO (XO (XO (XO (XO
    (XO (XI (XO (XI (XO (XO XH)))))))))))))))))))))))))))))))) :: ((Npos (XO
    (XI (XO (XI (XI (XI (XO (XO (XI (XO (XO (XO (XO (XO (XO (XO (XO (XO (XO
    (XO (XO (XO (XO (XO (XO (XO (XI (XO (XO (XI (XO
    XH)))))))))))))))))))))))))))))))) :: ((Npos (XI (XO (XO (XI (XI (XI (XI
    (XO (XO (XO (XO (XO (XO (XO (XO (XO (XO (XO (XO (XO (XO (XO (XO (XO (XO
    (XO (XI (XO (XO (XO (XO XH)))))))))))))))))))))))))))))))) :: ((Npos (XI
    (XO (XO (XI (XI (XI (XO (XO (XO (XO (XO (XO (XO (XO (XO (XO (XO (XO (XO
    (XO (XO (XO (XO (XO (XO (XO (XI (XO (XO (XO (XO
    XH)))))))))))))))))))))))))))))))) :: ((Npos (XO (XI (XO (XO (XI (XO (XI
    (XI (XO (XO (XO (XO (XO (XO (XO (XO (XO (XO (XO (XO (XO (XO (XO (XO (XO
    (XO (XI (XO (XI (XO (XO XH)))))))))))))))))))))))))))))))) :: ((Npos (XO
    (XO (XO (XO (XI (XO (XO (XO (XI (XO (XO (XO (XO (XO (XO (XO (XO (XO (XO
    (XO (XO (XO (XO (XO (XO (XO (XI (XO (XO (XO (XO
    XH)))))))))))))))))))))))))))))))) :: ((Npos (XI (XO (XO (XI (XO (XI (XI
    (XO (XO (XO (XO (XO (XO (XO (XO (XO (XO (XO (XO (XO (XO (XO (XO (XO (XO
    (XO (XI (XO (XO (XO (XO XH)))))))))))))))))))))))))))))))) :: ((Npos (XI
    (XO (XO (XI (XO (XI (XO (XO (XO (XO (XO (XO (XO (XO (XO (XO (XO (XO (XO
    (XO (XO (XO (XO (XO (XO (XO (XI (XO (XO (XO (XO
    XH)))))))))))))))))))))))))))))))) :: ((Npos (XO (XI (XO (XO (XI (XI (XO
    (XI (XO (XO (XO (XO (XO (XO (XO (XO (XO (XO (XO (XO (XO (XO (XO (XO (XO
    (XO (XI (XO (XI (XO (XO XH)))))))))))))))))))))))))))))))) :: ((Npos (XI
    (XO (XO (XI (XO (XO (XO (XO (XO (XO (XO (XO (XO (XO (XO (XO (XO (XO (XO
    (XO (XO (XO (XO (XO (XO (XO (XI (XO (XO (XO (XO
    XH)))))))))))))))))))))))))))))))) :: ((Npos (XI (XO (XO (XI (XO (XO (XO
    (XI (XO (XO (XO (XO (XO (XO (XO (XO (XO (XO (XO (XO (XO (XO (XO (XO (XO
    (XO (XI (XO (XO (XO (XO XH)))))))))))))))))))))))))))))))) :: ((Npos (XI
    (XO (XO (XI (XO (XO (XI (XO (XO (XO (XO (XO (XO (XO (XO (XO (XO (XO (XO
    (XO (XO (XO (XO (XO (XO (XO (XI (XO (XO (XO (XO
    XH)))))))))))))))))))))))))))))))) :: ((Npos (XO (XI (XO (XO (XI (XI (XI
    (XI (XO (XO (XO (XO (XO (XO (XO (XO (XO (XO (XO (XO (XO (XO (XO (XO (XO
    (XO (XI (XO (XI (XO (XO XH)))))))))))))))))))))))))))))))) :: ((Npos (XO
    (XI (XO (XO (XO (XO (XO (XO (XI (XO (XO (XO (XO (XO (XO (XO (XO (XO (XO
    (XO (XO (XO (XO (XO (XO (XO (XI (XO (XI (XI
    XH))))))))))))))))))))))))))))))) :: ((Npos (XI (XO (XI (XO (XI (XO (XI
    (XO (XO (XO (XO (XO (XO (XO (XO (XO (XO (XO (XO (XO (XO (XO (XO (XO (XO
    (XO (XI (XO (XO (XO (XO XH)))))))))))))))))))))))))))))))) :: ((Npos (XI
    (XO (XI (XO (XI (XO (XO (XO (XO (XO (XO (XO (XO (XO (XO (XO (XO (XO (XO
    (XO (XO (XO (XO (XO (XO (XO (XI (XO (XO (XO (XO
    XH)))))))))))))))))))))))))))))))) :: ((Npos (XO (XO (XO (XO (XO (XO (XO
    (XO (XO (XI (XO (XO (XO (XO (XO (XO (XO (XO (XO (XO (XO (XO (XO (XO (XO
    (XO (XI (XO (XO (XO (XO XH)))))))))))))))))))))))))))))))) :: ((Npos (XO
    (XI (XO (XI (XO (XI (XO (XO (XI (XO (XO (XO (XO (XO (XO (XO (XO (XO (XO
    (XO (XO (XO (XO (XO (XO (XO (XI (XO (XO (XI (XO
    XH)))))))))))))))))))))))))))))))) :: ((Npos (XI (XO (XI (XO (XI (XI (XI
    (XO (XO (XO (XO (XO (XO (XO (XO (XO (XO (XO (XO (XO (XO (XO (XO (XO (XO
    (XO (XI (XO (XO (XO (XO XH)))))))))))))))))))))))))))))))) :: ((Npos (XI
    (XO (XI (XO (XI (XI (XO (XO (XO (XO (XO (XO (XO (XO (XO (XO (XO (XO (XO
    (XO (XO (XO (XO (XO (XO (XO (XI (XO (XO (XO (XO
    XH)))))))))))))))))))))))))))))))) :: ((Npos (XO (XI (XO (XI (XO (XO (XI
    (XI (XO (XO (XO (XO (XO (XO (XO (XO (XO (XO (XO (XO (XO (XO (XO (XO (XO
    (XO (XI (XO (XI (XO (XO XH)))))))))))))))))))))))))))))))) :: ((Npos (XO
    (XO (XI (XI (XO (XO (XO (XO (XI (XO (XO (XO (XO (XO (XO (XO (XO (XO (XO
    (XO (XO (XO (XO (XO (XO (XO (XI (XO (XO (XO (XO
    XH)))))))))))))))))))))))))))))))) :: ((Npos (XI (XO (XI (XO (XO (XI (XI
    (XO (XO (XO (XO (XO (XO (XO (XO (XO (XO (XO (XO (XO (XO (XO (XO (XO (XO
    (XO (XI (XO (XO (XO (XO XH)))))))))))))))))))))))))))))))) :: ((Npos (XI
    (XO (XI (XO (XO (XI (XO (XO (XO (XO (XO (XO (XO (XO (XO (XO (XO (XO (XO
    (XO (XO (XO (XO (XO (XO (XO (XI (XO (XO (XO (XO
    XH)))))))))))))))))))))))))))))))) :: ((Npos (XO (XI (XO (XI (XO (XI (XO
    (XI (XO (XO (XO (XO (XO (XO (XO (XO (XO (XO (XO (XO (XO (XO (XO (XO (XO
    (XO (XI (XO (XI (XO (XO XH)))))))))))))))))))))))))))))))) :: ((Npos (XI
    (XO (XI (XO (XO (XO (XO (XO (XO (XO (XO (XO (XO (XO (XO (XO (XO (XO (XO
    (XO (XO (XO (XO (XO (XO (XO (XI (XO (XO (XO (XO
    XH)))))))))))))))))))))))))))))))) :: ((Npos (XI (XO (XI (XO (XO (XO (XO
    (XI (XO (XO (XO (XO (XO (XO (XO (XO (XO (XO (XO (XO (XO (XO (XO (XO (XO
    (XO (XI (XO (XO (XO (XO XH)))))))))))))))))))))))))))))))) :: ((Npos (XI
    (XO (XI (XO (XO (XO (XI (XO (XO (XO (XO (XO (XO (XO (XO (XO (XO (XO (XO
    (XO (XO (XO (XO (XO (XO (XO (XI (XO (XO (XO (XO
    XH)))))))))))))))))))))))))))))))) :: ((Npos (XO (XI (XO (XI (XO (XI (XI
    (XI (XO (XO (XO (XO (XO (XO (XO (XO (XO (XO (XO (XO (XO (XO (XO (XO (XO
    (XO (XI (XO (XI (XO (XO XH)))))))))))))))))))))))))))))))) :: ((Npos (XO
    (XI (XI (XO (XO (XO (XO (XO (XI (XO (XO (XO (XO (XO (XO (XO (XO (XO (XO
    (XO (XO (XO (XO (XO (XO (XO (XI (XO (XI (XI
    XH))))))))))))))))))))))))))))))) :: ((Npos (XI (XO (XI (XI (XI (XO (XI
    (XO (XO (XO (XO (XO (XO (XO (XO (XO (XO (XO (XO (XO (XO (XO (XO (XO (XO
    (XO (XI (XO (XO (XO (XO XH)))))))))))))))))))))))))))))))) :: ((Npos (XI
    (XO (XI (XI (XI (XO (XO (XO (XO (XO (XO (XO (XO (XO (XO (XO (XO (XO (XO
    (XO (XO (XO (XO (XO (XO (XO (XI (XO (XO (XO (XO
    XH)))))))))))))))))))))))))))))))) :: ((Npos (XO (XI (XO (XI (XI (XO (XO
    (XI (XO (XO (XO (XO (XO (XO (XO (XO (XO (XO (XO (XO (XO (XO (XO (XO (XO
    (XO (XI (XO (XI (XO (XO XH)))))))))))))))))))))))))))))))) :: ((Npos (XO
    (XI (XO (XI (XI (XO (XI (XO (XI (XO (XO (XO (XO (XO (XO (XO (XO (XO (XO
    (XO (XO (XO (XO (XO (XO (XO (XI (XO (XI (XI (XO
    XH)))))))))))))))))))))))))))))))) :: ((Npos (XI (XO (XI (XI (XI (XI (XI
    (XO (XO (XO (XO (XO (XO (XO (XO (XO (XO (XO (XO (XO (XO (XO (XO (XO (XO
    (XO (XI (XO (XO (XO (XO XH)))))))))))))))))))))))))))))))) :: ((Npos (XI
    (XO (XI (XI (XI (XI (XO (XO (XO (XO (XO (XO (XO (XO (XO (XO (XO (XO (XO
    (XO (XO (XO (XO (XO (XO (XO (XI (XO (XO (XO (XO
    XH)))))))))))))))))))))))))))))))) :: ((Npos (XO (XI (XO (XI (XI (XO (XI
    (XI (XO (XO (XO (XO (XO (XO (XO (XO (XO (XO (XO (XO (XO (XO (XO (XO (XO
    (XO (XI (XO (XI (XO (XO XH)))))))))))))))))))))))))))))))) :: ((Npos (XO
    (XI (XI (XO (XI (XO (XO (XO (XI (XO (XO (XO (XO (XO (XO (XO (XO (XO (XO
    (XO (XO (XO (XO (XO (XO (XO (XI (XO (XI (XO (XO
    XH)))))))))))))))))))))))))))))))) :: ((Npos (XI (XO (XI (XI (XO (XI (XI
    (XO (XO (XO (XO (XO (XO (XO (XO (XO (XO (XO (XO (XO (XO (XO (XO (XO (XO
    (XO (XI (XO (XO (XO (XO XH)))))))))))))))))))))))))))))))) :: ((Npos (XI
    (XO (XI (XI (XO (XI (XO (XO (XO (XO (XO (XO (XO (XO (XO (XO (XO (XO (XO
    (XO (XO (XO (XO (XO (XO (XO (XI (XO (XO (XO (XO
    XH)))))))))))))))))))))))))))))))) :: ((Npos (XO (XI (XO (XI (XI (XI (XO
    (XI (XO (XO (XO (XO (XO (XO (XO (XO (XO (XO (XO (XO (XO (XO (XO (XO (XO
    (XO (XI (XO (XI (XO (XO XH)))))))))))))))))))))))))))))))) :: ((Npos (XI
    (XO (XI (XI (XO (XO (XO (XO (XO (XO (XO (XO (XO (XO (XO (XO (XO (XO (XO
    (XO (XO (XO (XO (XO (XO (XO (XI (XO (XO (XO (XO
    XH)))))))))))))))))))))))))))))))) :: ((Npos (XI (XO (XI (XI (XO (XO (XO
    (XI (XO (XO (XO (XO (XO (XO (XO (XO (XO (XO (XO (XO (XO (XO (XO (XO (XO
    (XO (XI (XO (XO (XO (XO XH)))))))))))))))))))))))))))))))) :: ((Npos (XI
    (XO (XI (XI (XO (XO (XI (XO (XO (XO (XO (XO (XO (XO (XO (XO (XO (XO (XO
    (XO (XO (XO (XO (XO (XO (XO (XI (XO (XO (XO (XO
    XH)))))))))))))))))))))))))))))))) :: ((Npos (XO (XI (XO (XI (XI (XI (XI
    (XI (XO (XO (XO (XO (XO (XO (XO (XO (XO (XO (XO (XO (XO (XO (XO (XO (XO
    (XO (XI (XO (XI (XO (XO XH)))))))))))))))))))))))))))))))) :: ((Npos (XI
    (XO (XO (XO (XO (XO (XO (XO (XI (XO (XO (XO (XO (XO (XO (XO (XO (XO (XO
    (XO (XO (XO (XO (XO (XO (XO (XI (XO (XI (XI
    XH))))))))))))))))))))))))))))))) :: ((Npos (XI (XI (XO (XO (XI (XO (XI
    (XO (XO (XO (XO (XO (XO (XO (XO (XO (XO (XO (XO (XO (XO (XO (XO (XO (XO
    (XO (XI (XO (XO (XO (XO XH)))))))))))))))))))))))))))))))) :: ((Npos (XI
    (XI (XO (XO (XI (XO (XO (XO (XO (XO (XO (XO (XO (XO (XO (XO (XO (XO (XO
    (XO (XO (XO (XO (XO (XO (XO (XI (XO (XO (XO (XO
    XH)))))))))))))))))))))))))))))))) :: ((Npos (XO (XO (XO (XI (XO (XO (XI
    (XO (XO (XO (XO (XO (XO (XO (XO (XO (XO (XO (XO (XO (XO (XO (XO (XO (XO
    (XI (XI (XO (XI XH)))))))))))))))))))))))))))))) :: ((Npos (XO (XI (XO
    (XO (XO (XI (XO (XO (XI (XO (XO (XO (XO (XO (XO (XO (XO (XO (XO (XO (XO
    (XO (XO (XO (XO (XO (XI (XO (XO (XI (XO
    XH)))))))))))))))))))))))))))))))) :: ((Npos (XI (XI (XO (XO (XI (XI (XI
    (XO (XO (XO (XO (XO (XO (XO (XO (XO (XO (XO (XO (XO (XO (XO (XO (XO (XO
    (XO (XI (XO (XO (XO (XO XH)))))))))))))))))))))))))))))))) :: ((Npos (XI
    (XI (XO (XO (XI (XI (XO (XO (XO (XO (XO (XO (XO (XO (XO (XO (XO (XO (XO
    (XO (XO (XO (XO (XO (XO (XO (XI (XO (XO (XO (XO
    XH)))))))))))))))))))))))))))))))) :: ((Npos (XO (XI (XI (XO (XO (XO (XI
    (XI (XO (XO (XO (XO (XO (XO (XO (XO (XO (XO (XO (XO (XO (XO (XO (XO (XO
    (XO (XI (XO (XI (XO (XO XH)))))))))))))))))))))))))))))))) :: ((Npos (XO
    (XI (XO (XI (XO (XO (XO (XO (XI (XO (XO (XO (XO (XO (XO (XO (XO (XO (XO
    (XO (XO (XO (XO (XO (XO (XO (XI (XO (XO (XO (XO
    XH)))))))))))))))))))))))))))))))) :: ((Npos (XI (XI (XO (XO (XO (XI (XI
    (XO (XO (XO (XO (XO (XO (XO (XO (XO (XO (XO (XO (XO (XO (XO (XO (XO (XO
    (XO (XI (XO (XO (XO (XO XH)))))))))))))))))))))))))))))))) :: ((Npos (XI
    (XI (XO (XO (XO (XI (XO (XO (XO (XO (XO (XO (XO (XO (XO (XO (XO (XO (XO
    (XO (XO (XO (XO (XO (XO (XO (XI (XO (XO (XO (XO
    XH)))))))))))))))))))))))))))))))) :: ((Npos (XO (XI (XI (XO (XO (XI (XO
    (XI (XO (XO (XO (XO (XO (XO (XO (XO (XO (XO (XO (XO (XO (XO (XO (XO (XO
    (XO (XI (XO (XI (XO (XO XH)))))))))))))))))))))))))))))))) :: ((Npos (XI
    (XI (XO (XO (XO (XO (XO (XO (XO (XO (XO (XO (XO (XO (XO (XO (XO (XO (XO
    (XO (XO (XO (XO (XO (XO (XO (XI (XO (XO (XO (XO
    XH)))))))))))))))))))))))))))))))) :: ((Npos (XI (XI (XO (XO (XO (XO (XO
    (XI (XO (XO (XO (XO (XO (XO (XO (XO (XO (XO (XO (XO (XO (XO (XO (XO (XO
    (XO (XI (XO (XO (XO (XO XH)))))))))))))))))))))))))))))))) :: ((Npos (XI
    (XI (XO (XO (XO (XO (XI (XO (XO (XO (XO (XO (XO (XO (XO (XO (XO (XO (XO
    (XO (XO (XO (XO (XO (XO (XO (XI (XO (XO (XO (XO
    XH)))))))))))))))))))))))))))))))) :: ((Npos (XO (XI (XI (XO (XO (XI (XI
    (XI (XO (XO (XO (XO (XO (XO (XO (XO (XO (XO (XO (XO (XO (XO (XO (XO (XO
    (XO (XI (XO (XI (XO (XO XH)))))))))))))))))))))))))))))))) :: ((Npos (XI
    (XO (XI (XO (XO (XO (XO (XO (XI (XO (XO (XO (XO (XO (XO (XO (XO (XO (XO
    (XO (XO (XO (XO (XO (XO (XO (XI (XO (XI (XI
    XH))))))))))))))))))))))))))))))) :: ((Npos (XI (XI (XO (XI (XI (XO (XI
    (XO (XO (XO (XO (XO (XO (XO (XO (XO (XO (XO (XO (XO (XO (XO (XO (XO (XO
    (XO (XI (XO (XO (XO (XO XH)))))))))))))))))))))))))))))))) :: ((Npos (XI
    (XI (XO (XI (XI (XO (XO (XO (XO (XO (XO (XO (XO (XO (XO (XO (XO (XO (XO
    (XO (XO (XO (XO (XO (XO (XO (XI (XO (XO (XO (XO
    XH)))))))))))))))))))))))))))))))) :: ((Npos (XO (XI (XI (XO (XI (XO (XO
    (XI (XO (XO (XO (XO (XO (XO (XO (XO (XO (XO (XO (XO (XO (XO (XO (XO (XO
    (XO (XI (XO (XI (XO (XO XH)))))))))))))))))))))))))))))))) :: ((Npos (XO
    (XI (XO (XI (XO (XO (XI (XO (XI (XO (XO (XO (XO (XO (XO (XO (XO (XO (XO
    (XO (XO (XO (XO (XO (XO (XO (XI (XO (XI (XI (XO
    XH)))))))))))))))))))))))))))))))) :: ((Npos (XI (XI (XO (XI (XI (XI (XI
    (XO (XO (XO (XO (XO (XO (XO (XO (XO (XO (XO (XO (XO (XO (XO (XO (XO (XO
    (XO (XI (XO (XO (XO (XO XH)))))))))))))))))))))))))))))))) :: ((Npos (XI
    (XI (XO (XI (XI (XI (XO (XO (XO (XO (XO (XO (XO (XO (XO (XO (XO (XO (XO
    (XO (XO (XO (XO (XO (XO (XO (XI (XO (XO (XO (XO
    XH)))))))))))))))))))))))))))))))) :: ((Npos (XO (XI (XI (XO (XI (XO (XI
    (XI (XO (XO (XO (XO (XO (XO (XO (XO (XO (XO (XO (XO (XO (XO (XO (XO (XO
    (XO (XI (XO (XI (XO (XO XH)))))))))))))))))))))))))))))))) :: ((Npos (XO
    (XI (XO (XO (XI (XO (XO (XO (XI (XO (XO (XO (XO (XO (XO (XO (XO (XO (XO
    (XO (XO (XO (XO (XO (XO (XO (XI (XO (XI (XO (XO
    XH)))))))))))))))))))))))))))))))) :: ((Npos (XI (XI (XO (XI (XO (XI (XI
    (XO (XO (XO (XO (XO (XO (XO (XO (XO (XO (XO (XO (XO (XO (XO (XO (XO (XO
    (XO (XI (XO (XO (XO (XO XH)))))))))))))))))))))))))))))))) :: ((Npos (XI
    (XI (XO (XI (XO (XI (XO (XO (XO (XO (XO (XO (XO (XO (XO (XO (XO (XO (XO
    (XO (XO (XO (XO (XO (XO (XO (XI (XO (XO (XO (XO
    XH)))))))))))))))))))))))))))))))) :: ((Npos (XO (XI (XI (XO (XI (XI (XO
    (XI (XO (XO (XO (XO (XO (XO (XO (XO (XO (XO (XO (XO (XO (XO (XO (XO (XO
    (XO (XI (XO (XI (XO (XO XH)))))))))))))))))))))))))))))))) :: ((Npos (XI
    (XI (XO (XI (XO (XO (XO (XO (XO (XO (XO (XO (XO (XO (XO (XO (XO (XO (XO
    (XO (XO (XO (XO (XO (XO (XO (XI (XO (XO (XO (XO
    XH)))))))))))))))))))))))))))))))) :: ((Npos (XI (XI (XO (XI (XO (XO (XO
    (XI (XO (XO (XO (XO (XO (XO (XO (XO (XO (XO (XO (XO (XO (XO (XO (XO (XO
    (XO (XI (XO (XO (XO (XO XH)))))))))))))))))))))))))))))))) :: ((Npos (XI
    (XI (XO (XI (XO (XO (XI (XO (XO (XO (XO (XO (XO (XO (XO (XO (XO (XO (XO
    (XO (XO (XO (XO (XO (XO (XO (XI (XO (XO (XO (XO
    XH)))))))))))))))))))))))))))))))) :: ((Npos (XO (XI (XI (XO (XI (XI (XI
    (XI (XO (XO (XO (XO (XO (XO (XO (XO (XO (XO (XO (XO (XO (XO (XO (XO (XO
    (XO (XI (XO (XI (XO (XO XH)))))))))))))))))))))))))))))))) :: ((Npos (XI
    (XI (XO (XO (XO (XO (XO (XO (XI (XO (XO (XO (XO (XO (XO (XO (XO (XO (XO
    (XO (XO (XO (XO (XO (XO (XO (XI (XO (XI (XI
    XH))))))))))))))))))))))))))))))) :: ((Npos (XI (XI (XI (XO (XI (XO (XI
    (XO (XO (XO (XO (XO (XO (XO (XO (XO (XO (XO (XO (XO (XO (XO (XO (XO (XO
    (XO (XI (XO (XO (XO (XO XH)))))))))))))))))))))))))))))))) :: ((Npos (XI
    (XI (XI (XO (XI (XO (XO (XO (XO (XO (XO (XO (XO (XO (XO (XO (XO (XO (XO
    (XO (XO (XO (XO (XO (XO (XO (XI (XO (XO (XO (XO
    XH)))))))))))))))))))))))))))))))) :: (N0 :: ((Npos (XO (XI (XO (XO (XI
    (XI (XO (XO (XI (XO (XO (XO (XO (XO (XO (XO (XO (XO (XO (XO (XO (XO (XO
    (XO (XO (XO (XI (XO (XO (XI (XO
    XH)))))))))))))))))))))))))))))))) :: ((Npos (XI (XI (XI (XO (XI (XI (XI
    (XO (XO (XO (XO (XO (XO (XO (XO (XO (XO (XO (XO (XO (XO (XO (XO (XO (XO
    (XO (XI (XO (XO (XO (XO XH)))))))))))))))))))))))))))))))) :: ((Npos (XI
    (XI (XI (XO (XI (XI (XO (XO (XO (XO (XO (XO (XO (XO (XO (XO (XO (XO (XO
    (XO (XO (XO (XO (XO (XO (XO (XI (XO (XO (XO (XO
    XH)))))))))))))))))))))))))))))))) :: ((Npos (XO (XI (XI (XI (XO (XO (XI
    (XI (XO (XO (XO (XO (XO (XO (XO (XO (XO (XO (XO (XO (XO (XO (XO (XO (XO
    (XO (XI (XO (XI (XO (XO XH)))))))))))))))))))))))))))))))) :: ((Npos (XO
    (XI (XI (XI (XO (XO (XO (XO (XI (XO (XO (XO (XO (XO (XO (XO (XO (XO (XO
    (XO (XO (XO (XO (XO (XO (XO (XI (XO (XO (XO (XO
    XH)))))))))))))))))))))))))))))))) :: ((Npos (XI (XI (XI (XO (XO (XI (XI
    (XO (XO (XO (XO (XO (XO (XO (XO (XO (XO (XO (XO (XO (XO (XO (XO (XO (XO
    (XO (XI (XO (XO (XO (XO XH)))))))))))))))))))))))))))))))) :: ((Npos (XI
    (XI (XI (XO (XO (XI (XO (XO (XO (XO (XO (XO (XO (XO (XO (XO (XO (XO (XO
    (XO (XO (XO (XO (XO (XO (XO (XI (XO (XO (XO (XO
    XH)))))))))))))))))))))))))))))))) :: ((Npos (XO (XI (XI (XI (XO (XI (XO
    (XI (XO (XO (XO (XO (XO (XO (XO (XO (XO (XO (XO (XO (XO (XO (XO (XO (XO
    (XO (XI (XO (XI (XO (XO XH)))))))))))))))))))))))))))))))) :: ((Npos (XI
    (XI (XI (XO (XO (XO (XO (XO (XO (XO (XO (XO (XO (XO (XO (XO (XO (XO (XO
    (XO (XO (XO (XO (XO (XO (XO (XI (XO (XO (XO (XO
    XH)))))))))))))))))))))))))))))))) :: ((Npos (XI (XI (XI (XO (XO (XO (XO
    (XI (XO (XO (XO (XO (XO (XO (XO (XO (XO (XO (XO (XO (XO (XO (XO (XO (XO
    (XO (XI (XO (XO (XO (XO XH)))))))))))))))))))))))))))))))) :: ((Npos (XI
    (XI (XI (XO (XO (XO (XI (XO (XO (XO (XO (XO (XO (XO (XO (XO (XO (XO (XO
    (XO (XO (XO (XO (XO (XO (XO (XI (XO (XO (XO (XO
    XH)))))))))))))))))))))))))))))))) :: ((Npos (XO (XI (XI (XI (XO (XI (XI
    (XI (XO (XO (XO (XO (XO (XO (XO (XO (XO (XO (XO (XO (XO (XO (XO (XO (XO
    (XO (XI (XO (XI (XO (XO XH)))))))))))))))))))))))))))))))) :: ((Npos (XI
    (XI (XI (XO (XO (XO (XO (XO (XI (XO (XO (XO (XO (XO (XO (XO (XO (XO (XO
    (XO (XO (XO (XO (XO (XO (XO (XI (XO (XI (XI
    XH))))))))))))))))))))))))))))))) :: ((Npos (XI (XI (XI (XI (XI (XO (XI
    (XO (XO (XO (XO (XO (XO (XO (XO (XO (XO (XO (XO (XO (XO (XO (XO (XO (XO
    (XO (XI (XO (XO (XO (XO XH)))))))))))))))))))))))))))))))) :: ((Npos (XI
    (XI (XI (XI (XI (XO (XO (XO (XO (XO (XO (XO (XO (XO (XO (XO (XO (XO (XO
    (XO (XO (XO (XO (XO (XO (XO (XI (XO (XO (XO (XO
    XH)))))))))))))))))))))))))))))))) :: ((Npos (XO (XI (XI (XI (XI (XO (XO
    (XI (XO (XO (XO (XO (XO (XO (XO (XO (XO (XO (XO (XO (XO (XO (XO (XO (XO
    (XO (XI (XO (XI (XO (XO XH)))))))))))))))))))))))))))))))) :: ((Npos (XO
    (XI (XO (XI (XO (XI (XI (XO (XI (XO (XO (XO (XO (XO (XO (XO (XO (XO (XO
    (XO (XO (XO (XO (XO (XO (XO (XI (XO (XI (XI (XO
    XH)))))))))))))))))))))))))))))))) :: ((Npos (XI (XI (XI (XI (XI (XI (XI
    (XO (XO (XO (XO (XO (XO (XO (XO (XO (XO (XO (XO (XO (XO (XO (XO (XO (XO
    (XO (XI (XO (XO (XO (XO XH)))))))))))))))))))))))))))))))) :: ((Npos (XI
    (XI (XI (XI (XI (XI (XO (XO (XO (XO (XO (XO (XO (XO (XO (XO (XO (XO (XO
    (XO (XO (XO (XO (XO (XO (XO (XI (XO (XO (XO (XO
    XH)))))))))))))))))))))))))))))))) :: ((Npos (XO (XI (XI (XI (XI (XO (XI
    (XI (XO (XO (XO (XO (XO (XO (XO (XO (XO (XO (XO (XO (XO (XO (XO (XO (XO
    (XO (XI (XO (XI (XO (XO XH)))))))))))))))))))))))))))))))) :: ((Npos (XO
    (XI (XO (XI (XI (XO (XO (XO (XI (XO (XO (XO (XO (XO (XO (XO (XO (XO (XO
    (XO (XO (XO (XO (XO (XO (XO (XI (XO (XI (XO (XO
    XH)))))))))))))))))))))))))))))))) :: ((Npos (XI (XI (XI (XI (XO (XI (XI
    (XO (XO (XO (XO (XO (XO (XO (XO (XO (XO (XO (XO (XO (XO (XO (XO (XO (XO
    (XO (XI (XO (XO (XO (XO XH)))))))))))))))))))))))))))))))) :: ((Npos (XI
    (XI (XI (XI (XO (XI (XO (XO (XO (XO (XO (XO (XO (XO (XO (XO (XO (XO (XO
    (XO (XO (XO (XO (XO (XO (XO (XI (XO (XO (XO (XO
    XH)))))))))))))))))))))))))))))))) :: ((Npos (XO (XI (XI (XI (XI (XI (XO
    (XI (XO (XO (XO (XO (XO (XO (XO (XO (XO (XO (XO (XO (XO (XO (XO (XO (XO
    (XO (XI (XO (XI (XO (XO XH)))))))))))))))))))))))))))))))) :: ((Npos (XI
    (XI (XI (XI (XO (XO (XO (XO (XO (XO (XO (XO (XO (XO (XO (XO (XO (XO (XO
    (XO (XO (XO (XO (XO (XO (XO (XI (XO (XO (XO (XO
    XH)))))))))))))))))))))))))))))))) :: ((Npos (XI (XI (XI (XI (XO (XO (XO
    (XI (XO (XO (XO (XO (XO (XO (XO (XO (XO (XO (XO (XO (XO (XO (XO (XO (XO
    (XO (XI (XO (XO (XO (XO XH)))))))))))))))))))))))))))))))) :: ((Npos (XI
    (XI (XI (XI (XO (XO (XI (XO (XO (XO (XO (XO (XO (XO (XO (XO (XO (XO (XO
    (XO (XO (XO (XO (XO (XO (XO (XI (XO (XO (XO (XO
    XH)))))))))))))))))))))))))))))))) :: ((Npos (XO (XI (XI (XI (XI (XI (XI
    (XI (XO (XO (XO (XO (XO (XO (XO (XO (XO (XO (XO (XO (XO (XO (XO (XO (XO
    (XO (XI (XO (XI (XO (XO XH)))))))))))))))))))))))))))))))) :: ((Npos (XO
    (XO (XO (XO (XO (XO (XO (XO (XI (XO (XO (XO (XO (XO (XO (XO (XO (XO (XO
    (XO (XO (XO (XO (XO (XO (XO (XI (XO (XI (XI
    XH))))))))))))))))))))))))))))))) :: ((Npos (XO (XO (XO (XO (XI (XO (XI
    (XO (XO (XO (XO (XO (XO (XO (XO (XO (XO (XO (XO (XO (XO (XO (XO (XO (XO
    (XO (XI (XO (XO (XO (XO XH)))))))))))))))))))))))))))))))) :: ((Npos (XO
    (XO (XO (XO (XI (XO (XO (XO (XO (XO (XO (XO (XO (XO (XO (XO (XO (XO (XO
    (XO (XO (XO (XO (XO (XO (XO (XI (XO (XO (XO (XO
    XH)))))))))))))))))))))))))))))))) :: ((Npos (XO (XI (XI (XO (XI (XI (XI
    (XO (XI (XO (XO (XO (XO (XO (XO (XO (XO (XO (XO (XO (XO (XO (XO (XO (XO
    (XO (XI (XO (XO (XO (XI XH)))))))))))))))))))))))))))))))) :: ((Npos (XI
    (XI (XI (XI (XI (XO (XO (XO (XI (XO (XO (XO (XO (XO (XO (XO (XO (XO (XO
    (XO (XO (XO (XO (XO (XO (XO (XI (XO (XI (XO (XO
    XH)))))))))))))))))))))))))))))))) :: ((Npos (XO (XO (XO (XO (XI (XI (XI
    (XO (XO (XO (XO (XO (XO (XO (XO (XO (XO (XO (XO (XO (XO (XO (XO (XO (XO
    (XO (XI (XO (XO (XO (XO XH)))))))))))))))))))))))))))))))) :: ((Npos (XO
    (XO (XO (XO (XI (XI (XO (XO (XO (XO (XO (XO (XO (XO (XO (XO (XO (XO (XO
    (XO (XO (XO (XO (XO (XO (XO (XI (XO (XO (XO (XO
    XH)))))))))))))))))))))))))))))))) :: ((Npos (XI (XO (XO (XO (XO (XO (XI
    (XI (XO (XO (XO (XO (XO (XO (XO (XO (XO (XO (XO (XO (XO (XO (XO (XO (XO
    (XO (XI (XO (XI (XO (XO XH)))))))))))))))))))))))))))))))) :: ((Npos (XO
    (XO (XO (XI (XO (XO (XO (XO (XI (XO (XO (XO (XO (XO (XO (XO (XO (XO (XO
    (XO (XO (XO (XO (XO (XO (XO (XI (XO (XI (XI
    XH))))))))))))))))))))))))))))))) :: ((Npos (XO (XO (XO (XO (XO (XI (XI
    (XO (XO (XO (XO (XO (XO (XO (XO (XO (XO (XO (XO (XO (XO (XO (XO (XO (XO
    (XO (XI (XO (XO (XO (XO XH)))))))))))))))))))))))))))))))) :: ((Npos (XO
    (XO (XO (XO (XO (XI (XO (XO (XO (XO (XO (XO (XO (XO (XO (XO (XO (XO (XO
    (XO (XO (XO (XO (XO (XO (XO (XI (XO (XO (XO (XO
    XH)))))))))))))))))))))))))))))))) :: ((Npos (XI (XO (XO (XO (XO (XI (XO
    (XI (XO (XO (XO (XO (XO (XO (XO (XO (XO (XO (XO (XO (XO (XO (XO (XO (XO
    (XO (XI (XO (XI (XO (XO XH)))))))))))))))))))))))))))))))) :: ((Npos (XO
    (XO (XO (XO (XO (XO (XO (XO (XO (XO (XO (XO (XO (XO (XO (XO (XO (XO (XO
    (XO (XO (XO (XO (XO (XO (XO (XI (XO (XO (XO (XO
    XH)))))))))))))))))))))))))))))))) :: ((Npos (XO (XO (XO (XO (XO (XO (XO
    (XI (XO (XO (XO (XO (XO (XO (XO (XO (XO (XO (XO (XO (XO (XO (XO (XO (XO
    (XO (XI (XO (XO (XO (XO XH)))))))))))))))))))))))))))))))) :: ((Npos (XO
    (XO (XO (XO (XO (XO (XI (XO (XO (XO (XO (XO (XO (XO (XO (XO (XO (XO (XO
    (XO (XO (XO (XO (XO (XO (XO (XI (XO (XO (XO (XO
    XH)))))))))))))))))))))))))))))))) :: ((Npos (XI (XO (XO (XO (XO (XI (XI
    (XI (XO (XO (XO (XO (XO (XO (XO (XO (XO (XO (XO (XO (XO (XO (XO (XO (XO
    (XO (XI (XO (XI (XO (XO XH)))))))))))))))))))))))))))))))) :: ((Npos (XO
    (XO (XI (XO (XO (XO (XO (XO (XI (XO (XO (XO (XO (XO (XO (XO (XO (XO (XO
    (XO (XO (XO (XO (XO (XO (XO (XI (XO (XI (XI
    XH))))))))))))))))))))))))))))))) :: ((Npos (XO (XO (XO (XI (XI (XO (XI
    (XO (XO (XO (XO (XO (XO (XO (XO (XO (XO (XO (XO (XO (XO (XO (XO (XO (XO
    (XO (XI (XO (XO (XO (XO XH)))))))))))))))))))))))))))))))) :: ((Npos (XO
    (XO (XO (XI (XI (XO (XO (XO (XO (XO (XO (XO (XO (XO (XO (XO (XO (XO (XO
    (XO (XO (XO (XO (XO (XO (XO (XI (XO (XO (XO (XO
    XH)))))))))))))))))))))))))))))))) :: ((Npos (XI (XO (XO (XO (XI (XO (XO
    (XI (XO (XO (XO (XO (XO (XO (XO (XO (XO (XO (XO (XO (XO (XO (XO (XO (XO
    (XO (XI (XO (XI (XO (XO XH)))))))))))))))))))))))))))))))) :: ((Npos (XI
    (XI (XO (XI (XI (XI (XO (XO (XI (XO (XO (XO (XO (XO (XO (XO (XO (XO (XO
    (XO (XO (XO (XO (XO (XO (XO (XI (XO (XO (XI (XO
    XH)))))))))))))))))))))))))))))))) :: ((Npos (XO (XO (XO (XI (XI (XI (XI
    (XO (XO (XO (XO (XO (XO (XO (XO (XO (XO (XO (XO (XO (XO (XO (XO (XO (XO
    (XO (XI (XO (XO (XO (XO XH)))))))))))))))))))))))))))))))) :: ((Npos (XO
    (XO (XO (XI (XI (XI (XO (XO (XO (XO (XO (XO (XO (XO (XO (XO (XO (XO (XO
    (XO (XO (XO (XO (XO (XO (XO (XI (XO (XO (XO (XO
    XH)))))))))))))))))))))))))))))))) :: ((Npos (XI (XO (XO (XO (XI (XO (XI
    (XI (XO (XO (XO (XO (XO (XO (XO (XO (XO (XO (XO (XO (XO (XO (XO (XO (XO
    (XO (XI (XO (XI (XO (XO XH)))))))))))))))))))))))))))))))) :: ((Npos (XI
    (XI (XI (XI (XO (XO (XO (XO (XI (XO (XO (XO (XO (XO (XO (XO (XO (XO (XO
    (XO (XO (XO (XO (XO (XO (XO (XI (XO (XO (XO (XO
    XH)))))))))))))))))))))))))))))))) :: ((Npos (XO (XO (XO (XI (XO (XI (XI
    (XO (XO (XO (XO (XO (XO (XO (XO (XO (XO (XO (XO (XO (XO (XO (XO (XO (XO
    (XO (XI (XO (XO (XO (XO XH)))))))))))))))))))))))))))))))) :: ((Npos (XO
    (XO (XO (XI (XO (XI (XO (XO (XO (XO (XO (XO (XO (XO (XO (XO (XO (XO (XO
    (XO (XO (XO (XO (XO (XO (XO (XI (XO (XO (XO (XO
    XH)))))))))))))))))))))))))))))))) :: ((Npos (XI (XO (XO (XO (XI (XI (XO
    (XI (XO (XO (XO (XO (XO (XO (XO (XO (XO (XO (XO (XO (XO (XO (XO (XO (XO
    (XO (XI (XO (XI (XO (XO XH)))))))))))))))))))))))))))))))) :: ((Npos (XO
    (XO (XO (XI (XO (XO (XO (XO (XO (XO (XO (XO (XO (XO (XO (XO (XO (XO (XO
    (XO (XO (XO (XO (XO (XO (XO (XI (XO (XO (XO (XO
    XH)))))))))))))))))))))))))))))))) :: ((Npos (XO (XO (XO (XI (XO (XO (XO
    (XI (XO (XO (XO (XO (XO (XO (XO (XO (XO (XO (XO (XO (XO (XO (XO (XO (XO
    (XO (XI (XO (XO (XO (XO XH)))))))))))))))))))))))))))))))) :: ((Npos (XO
    (XO (XO (XI (XO (XO (XI (XO (XO (XO (XO (XO (XO (XO (XO (XO (XO (XO (XO
    (XO (XO (XO (XO (XO (XO (XO (XI (XO (XO (XO (XO
    XH)))))))))))))))))))))))))))))))) :: ((Npos (XI (XO (XO (XO (XI (XI (XI
    (XI (XO (XO (XO (XO (XO (XO (XO (XO (XO (XO (XO (XO (XO (XO (XO (XO (XO
    (XO (XI (XO (XI (XO (XO XH)))))))))))))))))))))))))))))))) :: ((Npos (XO
    (XI (XO (XO (XO (XO (XO (XO (XI (XO (XO (XO (XO (XO (XO (XO (XO (XO (XO
    (XO (XO (XO (XO (XO (XO (XO (XI (XO (XI (XI
    XH))))))))))))))))))))))))))))))) :: ((Npos (XO (XO (XI (XO (XI (XO (XI
    (XO (XO (XO (XO (XO (XO (XO (XO (XO (XO (XO (XO (XO (XO (XO (XO (XO (XO
    (XO (XI (XO (XO (XO (XO XH)))))))))))))))))))))))))))))))) :: ((Npos (XO
    (XO (XI (XO (XI (XO (XO (XO (XO (XO (XO (XO (XO (XO (XO (XO (XO (XO (XO
    (XO (XO (XO (XO (XO (XO (XO (XI (XO (XO (XO (XO
    XH)))))))))))))))))))))))))))))))) :: ((Npos (XO (XI (XO (XI (XO (XI (XI
    (XO (XO (XO (XO (XO (XO (XO (XO (XO (XO (XO (XO (XO (XO (XO (XO (XO (XO
    (XI (XI (XO (XI XH)))))))))))))))))))))))))))))) :: ((Npos (XI (XI (XO
    (XI (XO (XI (XO (XO (XI (XO (XO (XO (XO (XO (XO (XO (XO (XO (XO (XO (XO
    (XO (XO (XO (XO (XO (XI (XO (XO (XI (XO
    XH)))))))))))))))))))))))))))))))) :: ((Npos (XO (XO (XI (XO (XI (XI (XI
    (XO (XO (XO (XO (XO (XO (XO (XO (XO (XO (XO (XO (XO (XO (XO (XO (XO (XO
    (XO (XI (XO (XO (XO (XO XH)))))))))))))))))))))))))))))))) :: ((Npos (XO
    (XO (XI (XO (XI (XI (XO (XO (XO (XO (XO (XO (XO (XO (XO (XO (XO (XO (XO
    (XO (XO (XO (XO (XO (XO (XO (XI (XO (XO (XO (XO
    XH)))))))))))))))))))))))))))))))) :: ((Npos (XI (XO (XO (XI (XO (XO (XI
    (XI (XO (XO (XO (XO (XO (XO (XO (XO (XO (XO (XO (XO (XO (XO (XO (XO (XO
    (XO (XI (XO (XI (XO (XO XH)))))))))))))))))))))))))))))))) :: ((Npos (XI
    (XI (XO (XI (XO (XO (XO (XO (XI (XO (XO (XO (XO (XO (XO (XO (XO (XO (XO
    (XO (XO (XO (XO (XO (XO (XO (XI (XO (XO (XO (XO
    XH)))))))))))))))))))))))))))))))) :: ((Npos (XO (XO (XI (XO (XO (XI (XI
    (XO (XO (XO (XO (XO (XO (XO (XO (XO (XO (XO (XO (XO (XO (XO (XO (XO (XO
    (XO (XI (XO (XO (XO (XO XH)))))))))))))))))))))))))))))))) :: ((Npos (XO
    (XO (XI (XO (XO (XI (XO (XO (XO (XO (XO (XO (XO (XO (XO (XO (XO (XO (XO
    (XO (XO (XO (XO (XO (XO (XO (XI (XO (XO (XO (XO
    XH)))))))))))))))))))))))))))))))) :: ((Npos (XI (XO (XO (XI (XO (XI (XO
    (XI (XO (XO (XO (XO (XO (XO (XO (XO (XO (XO (XO (XO (XO (XO (XO (XO (XO
    (XO (XI (XO (XI (XO (XO XH)))))))))))))))))))))))))))))))) :: ((Npos (XO
    (XO (XI (XO (XO (XO (XO (XO (XO (XO (XO (XO (XO (XO (XO (XO (XO (XO (XO
    (XO (XO (XO (XO (XO (XO (XO (XI (XO (XO (XO (XO
    XH)))))))))))))))))))))))))))))))) :: ((Npos (XO (XO (XI (XO (XO (XO (XO
    (XI (XO (XO (XO (XO (XO (XO (XO (XO (XO (XO (XO (XO (XO (XO (XO (XO (XO
    (XO (XI (XO (XO (XO (XO XH)))))))))))))))))))))))))))))))) :: ((Npos (XO
    (XO (XI (XO (XO (XO (XI (XO (XO (XO (XO (XO (XO (XO (XO (XO (XO (XO (XO
    (XO (XO (XO (XO (XO (XO (XO (XI (XO (XO (XO (XO
    XH)))))))))))))))))))))))))))))))) :: ((Npos (XI (XO (XO (XI (XO (XI (XI
    (XI (XO (XO (XO (XO (XO (XO (XO (XO (XO (XO (XO (XO (XO (XO (XO (XO (XO
    (XO (XI (XO (XI (XO (XO XH)))))))))))))))))))))))))))))))) :: ((Npos (XO
    (XI (XI (XO (XO (XO (XO (XO (XI (XO (XO (XO (XO (XO (XO (XO (XO (XO (XO
    (XO (XO (XO (XO (XO (XO (XO (XI (XO (XI (XI
    XH))))))))))))))))))))))))))))))) :: ((Npos (XO (XO (XI (XI (XI (XO (XI
    (XO (XO (XO (XO (XO (XO (XO (XO (XO (XO (XO (XO (XO (XO (XO (XO (XO (XO
    (XO (XI (XO (XO (XO (XO XH)))))))))))))))))))))))))))))))) :: ((Npos (XO
    (XO (XI (XI (XI (XO (XO (XO (XO (XO (XO (XO (XO (XO (XO (XO (XO (XO (XO
    (XO (XO (XO (XO (XO (XO (XO (XI (XO (XO (XO (XO
    XH)))))))))))))))))))))))))))))))) :: ((Npos (XI (XO (XO (XI (XI (XO (XO
    (XI (XO (XO (XO (XO (XO (XO (XO (XO (XO (XO (XO (XO (XO (XO (XO (XO (XO
    (XO (XI (XO (XI (XO (XO XH)))))))))))))))))))))))))))))))) :: ((Npos (XI
    (XI (XO (XI (XI (XO (XI (XO (XI (XO (XO (XO (XO (XO (XO (XO (XO (XO (XO
    (XO (XO (XO (XO (XO (XO (XO (XI (XO (XI (XI (XO
    XH)))))))))))))))))))))))))))))))) :: ((Npos (XO (XO (XI (XI (XI (XI (XI
    (XO (XO (XO (XO (XO (XO (XO (XO (XO (XO (XO (XO (XO (XO (XO (XO (XO (XO
    (XO (XI (XO (XO (XO (XO XH)))))))))))))))))))))))))))))))) :: ((Npos (XO
    (XO (XI (XI (XI (XI (XO (XO (XO (XO (XO (XO (XO (XO (XO (XO (XO (XO (XO
    (XO (XO (XO (XO (XO (XO (XO (XI (XO (XO (XO (XO
    XH)))))))))))))))))))))))))))))))) :: ((Npos (XI (XO (XO (XI (XI (XO (XI
    (XI (XO (XO (XO (XO (XO (XO (XO (XO (XO (XO (XO (XO (XO (XO (XO (XO (XO
    (XO (XI (XO (XI (XO (XO XH)))))))))))))))))))))))))))))))) :: ((Npos (XI
    (XI (XI (XO (XI (XO (XO (XO (XI (XO (XO (XO (XO (XO (XO (XO (XO (XO (XO
    (XO (XO (XO (XO (XO (XO (XO (XI (XO (XI (XO (XO
    XH)))))))))))))))))))))))))))))))) :: ((Npos (XO (XO (XI (XI (XO (XI (XI
    (XO (XO (XO (XO (XO (XO (XO (XO (XO (XO (XO (XO (XO (XO (XO (XO (XO (XO
    (XO (XI (XO (XO (XO (XO XH)))))))))))))))))))))))))))))))) :: ((Npos (XO
    (XO (XI (XI (XO (XI (XO (XO (XO (XO (XO (XO (XO (XO (XO (XO (XO (XO (XO
    (XO (XO (XO (XO (XO (XO (XO (XI (XO (XO (XO (XO
    XH)))))))))))))))))))))))))))))))) :: ((Npos (XI (XO (XO (XI (XI (XI (XO
    (XI (XO (XO (XO (XO (XO (XO (XO (XO (XO (XO (XO (XO (XO (XO (XO (XO (XO
    (XO (XI (XO (XI (XO (XO XH)))))))))))))))))))))))))))))))) :: ((Npos (XO
    (XO (XI (XI (XO (XO (XO (XO (XO (XO (XO (XO (XO (XO (XO (XO (XO (XO (XO
    (XO (XO (XO (XO (XO (XO (XO (XI (XO (XO (XO (XO
    XH)))))))))))))))))))))))))))))))) :: ((Npos (XO (XO (XI (XI (XO (XO (XO
    (XI (XO (XO (XO (XO (XO (XO (XO (XO (XO (XO (XO (XO (XO (XO (XO (XO (XO
    (XO (XI (XO (XO (XO (XO XH)))))))))))))))))))))))))))))))) :: ((Npos (XO
    (XO (XI (XI (XO (XO (XI (XO (XO (XO (XO (XO (XO (XO (XO (XO (XO (XO (XO
    (XO (XO (XO (XO (XO (XO (XO (XI (XO (XO (XO (XO
    XH)))))))))))))))))))))))))))))))) :: ((Npos (XI (XO (XO (XI (XI (XI (XI
    (XI (XO (XO (XO (XO (XO (XO (XO (XO (XO (XO (XO (XO (XO (XO (XO (XO (XO
    (XO (XI (XO (XI (XO (XO XH)))))))))))))))))))))))))))))))) :: ((Npos (XI
    (XO (XO (XO (XO (XO (XO (XO (XI (XO (XO (XO (XO (XO (XO (XO (XO (XO (XO
    (XO (XO (XO (XO (XO (XO (XO (XI (XO (XI (XI
    XH))))))))))))))))))))))))))))))) :: ((Npos (XO (XI (XO (XO (XI (XO (XI
    (XO (XO (XO (XO (XO (XO (XO (XO (XO (XO (XO (XO (XO (XO (XO (XO (XO (XO
    (XO (XI (XO (XO (XO (XO XH)))))))))))))))))))))))))))))))) :: ((Npos (XO
    (XI (XO (XO (XI (XO (XO (XO (XO (XO (XO (XO (XO (XO (XO (XO (XO (XO (XO
    (XO (XO (XO (XO (XO (XO (XO (XI (XO (XO (XO (XO
    XH)))))))))))))))))))))))))))))))) :: ((Npos (XO (XI (XO (XI (XO (XI (XO
    (XO (XO (XO (XO (XO (XO (XO (XO (XO (XO (XO (XO (XO (XO (XO (XO (XO (XO
    (XI (XI (XO (XI XH)))))))))))))))))))))))))))))) :: ((Npos (XI (XI (XO
    (XO (XO (XI (XO (XO (XI (XO (XO (XO (XO (XO (XO (XO (XO (XO (XO (XO (XO
    (XO (XO (XO (XO (XO (XI (XO (XO (XI (XO
    XH)))))))))))))))))))))))))))))))) :: ((Npos (XO (XI (XO (XO (XI (XI (XI
    (XO (XO (XO (XO (XO (XO (XO (XO (XO (XO (XO (XO (XO (XO (XO (XO (XO (XO
    (XO (XI (XO (XO (XO (XO XH)))))))))))))))))))))))))))))))) :: ((Npos (XO
    (XI (XO (XO (XI (XI (XO (XO (XO (XO (XO (XO (XO (XO (XO (XO (XO (XO (XO
    (XO (XO (XO (XO (XO (XO (XO (XI (XO (XO (XO (XO
    XH)))))))))))))))))))))))))))))))) :: ((Npos (XI (XO (XI (XO (XO (XO (XI
    (XI (XO (XO (XO (XO (XO (XO (XO (XO (XO (XO (XO (XO (XO (XO (XO (XO (XO
    (XO (XI (XO (XI (XO (XO XH)))))))))))))))))))))))))))))))) :: ((Npos (XI
    (XO (XO (XI (XO (XO (XO (XO (XI (XO (XO (XO (XO (XO (XO (XO (XO (XO (XO
    (XO (XO (XO (XO (XO (XO (XO (XI (XO (XO (XO (XO
    XH)))))))))))))))))))))))))))))))) :: ((Npos (XO (XI (XO (XO (XO (XI (XI
    (XO (XO (XO (XO (XO (XO (XO (XO (XO (XO (XO (XO (XO (XO (XO (XO (XO (XO
    (XO (XI (XO (XO (XO (XO XH)))))))))))))))))))))))))))))))) :: ((Npos (XO
    (XI (XO (XO (XO (XI (XO (XO (XO (XO (XO (XO (XO (XO (XO (XO (XO (XO (XO
    (XO (XO (XO (XO (XO (XO (XO (XI (XO (XO (XO (XO
    XH)))))))))))))))))))))))))))))))) :: ((Npos (XI (XO (XI (XO (XO (XI (XO
    (XI (XO (XO (XO (XO (XO (XO (XO (XO (XO (XO (XO (XO (XO (XO (XO (XO (XO
    (XO (XI (XO (XI (XO (XO XH)))))))))))))))))))))))))))))))) :: ((Npos (XO
    (XI (XO (XO (XO (XO (XO (XO (XO (XO (XO (XO (XO (XO (XO (XO (XO (XO (XO
    (XO (XO (XO (XO (XO (XO (XO (XI (XO (XO (XO (XO
    XH)))))))))))))))))))))))))))))))) :: ((Npos (XO (XI (XO (XO (XO (XO (XO
    (XI (XO (XO (XO (XO (XO (XO (XO (XO (XO (XO (XO (XO (XO (XO (XO (XO (XO
    (XO (XI (XO (XO (XO (XO XH)))))))))))))))))))))))))))))))) :: ((Npos (XO
    (XI (XO (XO (XO (XO (XI (XO (XO (XO (XO (XO (XO (XO (XO (XO (XO (XO (XO
    (XO (XO (XO (XO (XO (XO (XO (XI (XO (XO (XO (XO
    XH)))))))))))))))))))))))))))))))) :: ((Npos (XI (XO (XI (XO (XO (XI (XI
    (XI (XO (XO (XO (XO (XO (XO (XO (XO (XO (XO (XO (XO (XO (XO (XO (XO (XO
    (XO (XI (XO (XI (XO (XO XH)))))))))))))))))))))))))))))))) :: ((Npos (XI
    (XO (XI (XO (XO (XO (XO (XO (XI (XO (XO (XO (XO (XO (XO (XO (XO (XO (XO
    (XO (XO (XO (XO (XO (XO (XO (XI (XO (XI (XI
    XH))))))))))))))))))))))))))))))) :: ((Npos (XO (XI (XO (XI (XI (XO (XI
    (XO (XO (XO (XO (XO (XO (XO (XO (XO (XO (XO (XO (XO (XO (XO (XO (XO (XO
    (XO (XI (XO (XO (XO (XO XH)))))))))))))))))))))))))))))))) :: ((Npos (XO
    (XI (XO (XI (XI (XO (XO (XO (XO (XO (XO (XO (XO (XO (XO (XO (XO (XO (XO
    (XO (XO (XO (XO (XO (XO (XO (XI (XO (XO (XO (XO
    XH)))))))))))))))))))))))))))))))) :: ((Npos (XI (XO (XI (XO (XI (XO (XO
    (XI (XO (XO (XO (XO (XO (XO (XO (XO (XO (XO (XO (XO (XO (XO (XO (XO (XO
    (XO (XI (XO (XI (XO (XO XH)))))))))))))))))))))))))))))))) :: ((Npos (XI
    (XI (XO (XI (XO (XO (XI (XO (XI (XO (XO (XO (XO (XO (XO (XO (XO (XO (XO
    (XO (XO (XO (XO (XO (XO (XO (XI (XO (XI (XI (XO
    XH)))))))))))))))))))))))))))))))) :: ((Npos (XO (XI (XO (XI (XI (XI (XI
    (XO (XO (XO (XO (XO (XO (XO (XO (XO (XO (XO (XO (XO (XO (XO (XO (XO (XO
    (XO (XI (XO (XO (XO (XO XH)))))))))))))))))))))))))))))))) :: ((Npos (XO
    (XI (XO (XI (XI (XI (XO (XO (XO (XO (XO (XO (XO (XO (XO (XO (XO (XO (XO
    (XO (XO (XO (XO (XO (XO (XO (XI (XO (XO (XO (XO
    XH)))))))))))))))))))))))))))))))) :: ((Npos (XI (XO (XI (XO (XI (XO (XI
    (XI (XO (XO (XO (XO (XO (XO (XO (XO (XO (XO (XO (XO (XO (XO (XO (XO (XO
    (XO (XI (XO (XI (XO (XO XH)))))))))))))))))))))))))))))))) :: ((Npos (XI
    (XI (XO (XO (XI (XO (XO (XO (XI (XO (XO (XO (XO (XO (XO (XO (XO (XO (XO
    (XO (XO (XO (XO (XO (XO (XO (XI (XO (XI (XO (XO
    XH)))))))))))))))))))))))))))))))) :: ((Npos (XO (XI (XO (XI (XO (XI (XI
    (XO (XO (XO (XO (XO (XO (XO (XO (XO (XO (XO (XO (XO (XO (XO (XO (XO (XO
    (XO (XI (XO (XO (XO (XO XH)))))))))))))))))))))))))))))))) :: ((Npos (XO
    (XI (XO (XI (XO (XI (XO (XO (XO (XO (XO (XO (XO (XO (XO (XO (XO (XO (XO
    (XO (XO (XO (XO (XO (XO (XO (XI (XO (XO (XO (XO
    XH)))))))))))))))))))))))))))))))) :: ((Npos (XI (XO (XI (XO (XI (XI (XO
    (XI (XO (XO (XO (XO (XO (XO (XO (XO (XO (XO (XO (XO (XO (XO (XO (XO (XO
    (XO (XI (XO (XI (XO (XO XH)))))))))))))))))))))))))))))))) :: ((Npos (XO
    (XI (XO (XI (XO (XO (XO (XO (XO (XO (XO (XO (XO (XO (XO (XO (XO (XO (XO
    (XO (XO (XO (XO (XO (XO (XO (XI (XO (XO (XO (XO
    XH)))))))))))))))))))))))))))))))) :: ((Npos (XO (XI (XO (XI (XO (XO (XO
    (XI (XO (XO (XO (XO (XO (XO (XO (XO (XO (XO (XO (XO (XO (XO (XO (XO (XO
    (XO (XI (XO (XO (XO (XO XH)))))))))))))))))))))))))))))))) :: ((Npos (XO
    (XI (XO (XI (XO (XO (XI (XO (XO (XO (XO (XO (XO (XO (XO (XO (XO (XO (XO
    (XO (XO (XO (XO (XO (XO (XO (XI (XO (XO (XO (XO
    XH)))))))))))))))))))))))))))))))) :: ((Npos (XI (XO (XI (XO (XI (XI (XI
    (XI (XO (XO (XO (XO (XO (XO (XO (XO (XO (XO (XO (XO (XO (XO (XO (XO (XO
    (XO (XI (XO (XI (XO (XO XH)))))))))))))))))))))))))))))))) :: ((Npos (XI
    (XI (XO (XO (XO (XO (XO (XO (XI (XO (XO (XO (XO (XO (XO (XO (XO (XO (XO
    (XO (XO (XO (XO (XO (XO (XO (XI (XO (XI (XI
    XH))))))))))))))))))))))))))))))) :: ((Npos (XO (XI (XI (XO (XI (XO (XI
    (XO (XO (XO (XO (XO (XO (XO (XO (XO (XO (XO (XO (XO (XO (XO (XO (XO (XO
    (XO (XI (XO (XO (XO (XO XH)))))))))))))))))))))))))))))))) :: ((Npos (XO
    (XI (XI (XO (XI (XO (XO (XO (XO (XO (XO (XO (XO (XO (XO (XO (XO (XO (XO
    (XO (XO (XO (XO (XO (XO (XO (XI (XO (XO (XO (XO
    XH)))))))))))))))))))))))))))))))) :: (N0 :: ((Npos (XI (XI (XO (XO (XI
    (XI (XO (XO (XI (XO (XO (XO (XO (XO (XO (XO (XO (XO (XO (XO (XO (XO (XO
    (XO (XO (XO (XI (XO (XO (XI (XO
    XH)))))))))))))))))))))))))))))))) :: ((Npos (XO (XI (XI (XO (XI (XI (XI
    (XO (XO (XO (XO (XO (XO (XO (XO (XO (XO (XO (XO (XO (XO (XO (XO (XO (XO
    (XO (XI (XO (XO (XO (XO XH)))))))))))))))))))))))))))))))) :: ((Npos (XO
    (XI (XI (XO (XI (XI (XO (XO (XO (XO (XO (XO (XO (XO (XO (XO (XO (XO (XO
    (XO (XO (XO (XO (XO (XO (XO (XI (XO (XO (XO (XO
    XH)))))))))))))))))))))))))))))))) :: ((Npos (XI (XO (XI (XI (XO (XO (XI
    (XI (XO (XO (XO (XO (XO (XO (XO (XO (XO (XO (XO (XO (XO (XO (XO (XO (XO
    (XO (XI (XO (XI (XO (XO XH)))))))))))))))))))))))))))))))) :: ((Npos (XI
    (XO (XI (XI (XO (XO (XO (XO (XI (XO (XO (XO (XO (XO (XO (XO (XO (XO (XO
    (XO (XO (XO (XO (XO (XO (XO (XI (XO (XO (XO (XO
    XH)))))))))))))))))))))))))))))))) :: ((Npos (XO (XI (XI (XO (XO (XI (XI
    (XO (XO (XO (XO (XO (XO (XO (XO (XO (XO (XO (XO (XO (XO (XO (XO (XO (XO
    (XO (XI (XO (XO (XO (XO XH)))))))))))))))))))))))))))))))) :: ((Npos (XO
    (XI (XI (XO (XO (XI (XO (XO (XO (XO (XO (XO (XO (XO (XO (XO (XO (XO (XO
    (XO (XO (XO (XO (XO (XO (XO (XI (XO (XO (XO (XO
    XH)))))))))))))))))))))))))))))))) :: ((Npos (XI (XO (XI (XI (XO (XI (XO
    (XI (XO (XO (XO (XO (XO (XO (XO (XO (XO (XO (XO (XO (XO (XO (XO (XO (XO
    (XO (XI (XO (XI (XO (XO XH)))))))))))))))))))))))))))))))) :: ((Npos (XO
    (XI (XI (XO (XO (XO (XO (XO (XO (XO (XO (XO (XO (XO (XO (XO (XO (XO (XO
    (XO (XO (XO (XO (XO (XO (XO (XI (XO (XO (XO (XO
    XH)))))))))))))))))))))))))))))))) :: ((Npos (XO (XI (XI (XO (XO (XO (XO
    (XI (XO (XO (XO (XO (XO (XO (XO (XO (XO (XO (XO (XO (XO (XO (XO (XO (XO
    (XO (XI (XO (XO (XO (XO XH)))))))))))))))))))))))))))))))) :: ((Npos (XO
    (XI (XI (XO (XO (XO (XI (XO (XO (XO (XO (XO (XO (XO (XO (XO (XO (XO (XO
    (XO (XO (XO (XO (XO (XO (XO (XI (XO (XO (XO (XO
    XH)))))))))))))))))))))))))))))))) :: ((Npos (XI (XO (XI (XI (XO (XI (XI
    (XI (XO (XO (XO (XO (XO (XO (XO (XO (XO (XO (XO (XO (XO (XO (XO (XO (XO
    (XO (XI (XO (XI (XO (XO XH)))))))))))))))))))))))))))))))) :: ((Npos (XI
    (XI (XI (XO (XO (XO (XO (XO (XI (XO (XO (XO (XO (XO (XO (XO (XO (XO (XO
    (XO (XO (XO (XO (XO (XO (XO (XI (XO (XI (XI
    XH))))))))))))))))))))))))))))))) :: ((Npos (XO (XI (XI (XI (XI (XO (XI
    (XO (XO (XO (XO (XO (XO (XO (XO (XO (XO (XO (XO (XO (XO (XO (XO (XO (XO
    (XO (XI (XO (XO (XO (XO XH)))))))))))))))))))))))))))))))) :: ((Npos (XO
    (XI (XI (XI (XI (XO (XO (XO (XO (XO (XO (XO (XO (XO (XO (XO (XO (XO (XO
    (XO (XO (XO (XO (XO (XO (XO (XI (XO (XO (XO (XO
    XH)))))))))))))))))))))))))))))))) :: ((Npos (XI (XO (XI (XI (XI (XO (XO
    (XI (XO (XO (XO (XO (XO (XO (XO (XO (XO (XO (XO (XO (XO (XO (XO (XO (XO
    (XO (XI (XO (XI (XO (XO XH)))))))))))))))))))))))))))))))) :: ((Npos (XI
    (XI (XO (XI (XO (XI (XI (XO (XI (XO (XO (XO (XO (XO (XO (XO (XO (XO (XO
    (XO (XO (XO (XO (XO (XO (XO (XI (XO (XI (XI (XO
    XH)))))))))))))))))))))))))))))))) :: ((Npos (XO (XI (XI (XI (XI (XI (XI
    (XO (XO (XO (XO (XO (XO (XO (XO (XO (XO (XO (XO (XO (XO (XO (XO (XO (XO
    (XO (XI (XO (XO (XO (XO XH)))))))))))))))))))))))))))))))) :: ((Npos (XO
    (XI (XI (XI (XI (XI (XO (XO (XO (XO (XO (XO (XO (XO (XO (XO (XO (XO (XO
    (XO (XO (XO (XO (XO (XO (XO (XI (XO (XO (XO (XO
    XH)))))))))))))))))))))))))))))))) :: ((Npos (XI (XO (XI (XI (XI (XO (XI
    (XI (XO (XO (XO (XO (XO (XO (XO (XO (XO (XO (XO (XO (XO (XO (XO (XO (XO
    (XO (XI (XO (XI (XO (XO XH)))))))))))))))))))))))))))))))) :: ((Npos (XI
    (XI (XO (XI (XI (XO (XO (XO (XI (XO (XO (XO (XO (XO (XO (XO (XO (XO (XO
    (XO (XO (XO (XO (XO (XO (XO (XI (XO (XI (XO (XO
    XH)))))))))))))))))))))))))))))))) :: ((Npos (XO (XI (XI (XI (XO (XI (XI
    (XO (XO (XO (XO (XO (XO (XO (XO (XO (XO (XO (XO (XO (XO (XO (XO (XO (XO
    (XO (XI (XO (XO (XO (XO XH)))))))))))))))))))))))))))))))) :: ((Npos (XO
    (XI (XI (XI (XO (XI (XO (XO (XO (XO (XO (XO (XO (XO (XO (XO (XO (XO (XO
    (XO (XO (XO (XO (XO (XO (XO (XI (XO (XO (XO (XO
    XH)))))))))))))))))))))))))))))))) :: ((Npos (XI (XO (XI (XI (XI (XI (XO
    (XI (XO (XO (XO (XO (XO (XO (XO (XO (XO (XO (XO (XO (XO (XO (XO (XO (XO
    (XO (XI (XO (XI (XO (XO XH)))))))))))))))))))))))))))))))) :: ((Npos (XO
    (XI (XI (XI (XO (XO (XO (XO (XO (XO (XO (XO (XO (XO (XO (XO (XO (XO (XO
    (XO (XO (XO (XO (XO (XO (XO (XI (XO (XO (XO (XO
    XH)))))))))))))))))))))))))))))))) :: ((Npos (XO (XI (XI (XI (XO (XO (XO
    (XI (XO (XO (XO (XO (XO (XO (XO (XO (XO (XO (XO (XO (XO (XO (XO (XO (XO
    (XO (XI (XO (XO (XO (XO XH)))))))))))))))))))))))))))))))) :: ((Npos (XO
    (XI (XI (XI (XO (XO (XI (XO (XO (XO (XO (XO (XO (XO (XO (XO (XO (XO (XO
    (XO (XO (XO (XO (XO (XO (XO (XI (XO (XO (XO (XO
    XH)))))))))))))))))))))))))))))))) :: ((Npos (XI (XO (XI (XI (XI (XI (XI
    (XI (XO (XO (XO (XO (XO (XO (XO (XO (XO (XO (XO (XO (XO (XO (XO (XO (XO
    (XO (XI (XO (XI (XO (XO XH)))))))))))))))))))))))))))))))) :: ((Npos (XO
    (XO (XO (XO (XO (XO (XO (XO (XI (XO (XO (XO (XO (XO (XO (XO (XO (XO (XO
    (XO (XO (XO (XO (XO (XO (XO (XI (XO (XI (XI
    XH))))))))))))))))))))))))))))))) :: ((Npos (XI (XO (XO (XO (XI (XO (XI
    (XO (XO (XO (XO (XO (XO (XO (XO (XO (XO (XO (XO (XO (XO (XO (XO (XO (XO
    (XO (XI (XO (XO (XO (XO XH)))))))))))))))))))))))))))))))) :: ((Npos (XI
    (XO (XO (XO (XI (XO (XO (XO (XO (XO (XO (XO (XO (XO (XO (XO (XO (XO (XO
    (XO (XO (XO (XO (XO (XO (XO (XI (XO (XO (XO (XO
    XH)))))))))))))))))))))))))))))))) :: ((Npos (XO (XI (XO (XI (XO (XO (XO
    (XO (XO (XO (XO (XO (XO (XO (XO (XO (XO (XO (XO (XO (XO (XO (XO (XO (XO
    (XI (XI (XO (XI XH)))))))))))))))))))))))))))))) :: ((Npos (XO (XO (XO
    (XO (XO (XI (XO (XO (XI (XO (XO (XO (XO (XO (XO (XO (XO (XO (XO (XO (XO
    (XO (XO (XO (XO (XO (XI (XO (XI (XO (XO
    XH)))))))))))))))))))))))))))))))) :: ((Npos (XI (XO (XO (XO (XI (XI (XI
    (XO (XO (XO (XO (XO (XO (XO (XO (XO (XO (XO (XO (XO (XO (XO (XO (XO (XO
    (XO (XI (XO (XO (XO (XO XH)))))))))))))))))))))))))))))))) :: ((Npos (XI
    (XO (XO (XO (XI (XI (XO (XO (XO (XO (XO (XO (XO (XO (XO (XO (XO (XO (XO
    (XO (XO (XO (XO (XO (XO (XO (XI (XO (XO (XO (XO
    XH)))))))))))))))))))))))))))))))) :: ((Npos (XI (XI (XO (XO (XO (XO (XI
    (XI (XO (XO (XO (XO (XO (XO (XO (XO (XO (XO (XO (XO (XO (XO (XO (XO (XO
    (XO (XI (XO (XI (XO (XO XH)))))))))))))))))))))))))))))))) :: ((Npos (XO
    (XO (XO (XI (XO (XO (XO (XO (XI (XO (XO (XO (XO (XO (XO (XO (XO (XO (XO
    (XO (XO (XO (XO (XO (XO (XO (XI (XO (XI (XI
    XH))))))))))))))))))))))))))))))) :: ((Npos (XI (XO (XO (XO (XO (XI (XI
    (XO (XO (XO (XO (XO (XO (XO (XO (XO (XO (XO (XO (XO (XO (XO (XO (XO (XO
    (XO (XI (XO (XO (XO (XO XH)))))))))))))))))))))))))))))))) :: ((Npos (XI
    (XO (XO (XO (XO (XI (XO (XO (XO (XO (XO (XO (XO (XO (XO (XO (XO (XO (XO
    (XO (XO (XO (XO (XO (XO (XO (XI (XO (XO (XO (XO
    XH)))))))))))))))))))))))))))))))) :: ((Npos (XI (XI (XO (XO (XO (XI (XO
    (XI (XO (XO (XO (XO (XO (XO (XO (XO (XO (XO (XO (XO (XO (XO (XO (XO (XO
    (XO (XI (XO (XI (XO (XO XH)))))))))))))))))))))))))))))))) :: ((Npos (XI
    (XO (XO (XO (XO (XO (XO (XO (XO (XO (XO (XO (XO (XO (XO (XO (XO (XO (XO
    (XO (XO (XO (XO (XO (XO (XO (XI (XO (XO (XO (XO
    XH)))))))))))))))))))))))))))))))) :: ((Npos (XI (XO (XO (XO (XO (XO (XO
    (XI (XO (XO (XO (XO (XO (XO (XO (XO (XO (XO (XO (XO (XO (XO (XO (XO (XO
    (XO (XI (XO (XO (XO (XO XH)))))))))))))))))))))))))))))))) :: ((Npos (XI
    (XO (XO (XO (XO (XO (XI (XO (XO (XO (XO (XO (XO (XO (XO (XO (XO (XO (XO
    (XO (XO (XO (XO (XO (XO (XO (XI (XO (XO (XO (XO
    XH)))))))))))))))))))))))))))))))) :: ((Npos (XI (XI (XO (XO (XO (XI (XI
    (XI (XO (XO (XO (XO (XO (XO (XO (XO (XO (XO (XO (XO (XO (XO (XO (XO (XO
    (XO (XI (XO (XI (XO (XO XH)))))))))))))))))))))))))))))))) :: ((Npos (XO
    (XO (XI (XO (XO (XO (XO (XO (XI (XO (XO (XO (XO (XO (XO (XO (XO (XO (XO
    (XO (XO (XO (XO (XO (XO (XO (XI (XO (XI (XI
    XH))))))))))))))))))))))))))))))) :: ((Npos (XI (XO (XO (XI (XI (XO (XI
    (XO (XO (XO (XO (XO (XO (XO (XO (XO (XO (XO (XO (XO (XO (XO (XO (XO (XO
    (XO (XI (XO (XO (XO (XO XH)))))))))))))))))))))))))))))))) :: ((Npos (XI
    (XO (XO (XI (XI (XO (XO (XO (XO (XO (XO (XO (XO (XO (XO (XO (XO (XO (XO
    (XO (XO (XO (XO (XO (XO (XO (XI (XO (XO (XO (XO
    XH)))))))))))))))))))))))))))))))) :: ((Npos (XI (XI (XO (XO (XI (XO (XO
    (XI (XO (XO (XO (XO (XO (XO (XO (XO (XO (XO (XO (XO (XO (XO (XO (XO (XO
    (XO (XI (XO (XI (XO (XO XH)))))))))))))))))))))))))))))))) :: ((Npos (XO
    (XO (XI (XI (XI (XI (XO (XO (XI (XO (XO (XO (XO (XO (XO (XO (XO (XO (XO
    (XO (XO (XO (XO (XO (XO (XO (XI (XO (XO (XI (XO
    XH)))))))))))))))))))))))))))))))) :: ((Npos (XI (XO (XO (XI (XI (XI (XI
    (XO (XO (XO (XO (XO (XO (XO (XO (XO (XO (XO (XO (XO (XO (XO (XO (XO (XO
    (XO (XI (XO (XO (XO (XO XH)))))))))))))))))))))))))))))))) :: ((Npos (XI
    (XO (XO (XI (XI (XI (XO (XO (XO (XO (XO (XO (XO (XO (XO (XO (XO (XO (XO
    (XO (XO (XO (XO (XO (XO (XO (XI (XO (XO (XO (XO
    XH)))))))))))))))))))))))))))))))) :: ((Npos (XI (XI (XO (XO (XI (XO (XI
    (XI (XO (XO (XO (XO (XO (XO (XO (XO (XO (XO (XO (XO (XO (XO (XO (XO (XO
    (XO (XI (XO (XI (XO (XO XH)))))))))))))))))))))))))))))))) :: ((Npos (XO
    (XO (XO (XO (XI (XO (XO (XO (XI (XO (XO (XO (XO (XO (XO (XO (XO (XO (XO
    (XO (XO (XO (XO (XO (XO (XO (XI (XO (XO (XO (XO
    XH)))))))))))))))))))))))))))))))) :: ((Npos (XI (XO (XO (XI (XO (XI (XI
    (XO (XO (XO (XO (XO (XO (XO (XO (XO (XO (XO (XO (XO (XO (XO (XO (XO (XO
    (XO (XI (XO (XO (XO (XO XH)))))))))))))))))))))))))))))))) :: ((Npos (XI
    (XO (XO (XI (XO (XI (XO (XO (XO (XO (XO (XO (XO (XO (XO (XO (XO (XO (XO
    (XO (XO (XO (XO (XO (XO (XO (XI (XO (XO (XO (XO
    XH)))))))))))))))))))))))))))))))) :: ((Npos (XI (XI (XO (XO (XI (XI (XO
    (XI (XO (XO (XO (XO (XO (XO (XO (XO (XO (XO (XO (XO (XO (XO (XO (XO (XO
    (XO (XI (XO (XI (XO (XO XH)))))))))))))))))))))))))))))))) :: ((Npos (XI
    (XO (XO (XI (XO (XO (XO (XO (XO (XO (XO (XO (XO (XO (XO (XO (XO (XO (XO
    (XO (XO (XO (XO (XO (XO (XO (XI (XO (XO (XO (XO
    XH)))))))))))))))))))))))))))))))) :: ((Npos (XI (XO (XO (XI (XO (XO (XO
    (XI (XO (XO (XO (XO (XO (XO (XO (XO (XO (XO (XO (XO (XO (XO (XO (XO (XO
    (XO (XI (XO (XO (XO (XO XH)))))))))))))))))))))))))))))))) :: ((Npos (XI
    (XO (XO (XI (XO (XO (XI (XO (XO (XO (XO (XO (XO (XO (XO (XO (XO (XO (XO
    (XO (XO (XO (XO (XO (XO (XO (XI (XO (XO (XO (XO
    XH)))))))))))))))))))))))))))))))) :: ((Npos (XI (XI (XO (XO (XI (XI (XI
    (XI (XO (XO (XO (XO (XO (XO (XO (XO (XO (XO (XO (XO (XO (XO (XO (XO (XO
    (XO (XI (XO (XI (XO (XO XH)))))))))))))))))))))))))))))))) :: ((Npos (XO
    (XI (XO (XO (XO (XO (XO (XO (XI (XO (XO (XO (XO (XO (XO (XO (XO (XO (XO
    (XO (XO (XO (XO (XO (XO (XO (XI (XO (XI (XI
    XH))))))))))))))))))))))))))))))) :: ((Npos (XI (XO (XI (XO (XI (XO (XI
    (XO (XO (XO (XO (XO (XO (XO (XO (XO (XO (XO (XO (XO (XO (XO (XO (XO (XO
    (XO (XI (XO (XO (XO (XO XH)))))))))))))))))))))))))))))))) :: ((Npos (XI
    (XO (XI (XO (XI (XO (XO (XO (XO (XO (XO (XO (XO (XO (XO (XO (XO (XO (XO
    (XO (XO (XO (XO (XO (XO (XO (XI (XO (XO (XO (XO
    XH)))))))))))))))))))))))))))))))) :: ((Npos (XO (XO (XO (XO (XO (XO (XO
    (XO (XO (XI (XO (XO (XO (XO (XO (XO (XO (XO (XO (XO (XO (XO (XO (XO (XO
    (XO (XI (XO (XO (XO (XO XH)))))))))))))))))))))))))))))))) :: ((Npos (XO
    (XO (XI (XI (XO (XI (XO (XO (XI (XO (XO (XO (XO (XO (XO (XO (XO (XO (XO
    (XO (XO (XO (XO (XO (XO (XO (XI (XO (XO (XI (XO
    XH)))))))))))))))))))))))))))))))) :: ((Npos (XI (XO (XI (XO (XI (XI (XI
    (XO (XO (XO (XO (XO (XO (XO (XO (XO (XO (XO (XO (XO (XO (XO (XO (XO (XO
    (XO (XI (XO (XO (XO (XO XH)))))))))))))))))))))))))))))))) :: ((Npos (XI
    (XO (XI (XO (XI (XI (XO (XO (XO (XO (XO (XO (XO (XO (XO (XO (XO (XO (XO
    (XO (XO (XO (XO (XO (XO (XO (XI (XO (XO (XO (XO
    XH)))))))))))))))))))))))))))))))) :: ((Npos (XI (XI (XO (XI (XO (XO (XI
    (XI (XO (XO (XO (XO (XO (XO (XO (XO (XO (XO (XO (XO (XO (XO (XO (XO (XO
    (XO (XI (XO (XI (XO (XO XH)))))))))))))))))))))))))))))))) :: ((Npos (XO
    (XO (XI (XI (XO (XO (XO (XO (XI (XO (XO (XO (XO (XO (XO (XO (XO (XO (XO
    (XO (XO (XO (XO (XO (XO (XO (XI (XO (XO (XO (XO
    XH)))))))))))))))))))))))))))))))) :: ((Npos (XI (XO (XI (XO (XO (XI (XI
    (XO (XO (XO (XO (XO (XO (XO (XO (XO (XO (XO (XO (XO (XO (XO (XO (XO (XO
    (XO (XI (XO (XO (XO (XO XH)))))))))))))))))))))))))))))))) :: ((Npos (XI
    (XO (XI (XO (XO (XI (XO (XO (XO (XO (XO (XO (XO (XO (XO (XO (XO (XO (XO
    (XO (XO (XO (XO (XO (XO (XO (XI (XO (XO (XO (XO
    XH)))))))))))))))))))))))))))))))) :: ((Npos (XI (XI (XO (XI (XO (XI (XO
    (XI (XO (XO (XO (XO (XO (XO (XO (XO (XO (XO (XO (XO (XO (XO (XO (XO (XO
    (XO (XI (XO (XI (XO (XO XH)))))))))))))))))))))))))))))))) :: ((Npos (XI
    (XO (XI (XO (XO (XO (XO (XO (XO (XO (XO (XO (XO (XO (XO (XO (XO (XO (XO
    (XO (XO (XO (XO (XO (XO (XO (XI (XO (XO (XO (XO
    XH)))))))))))))))))))))))))))))))) :: ((Npos (XI (XO (XI (XO (XO (XO (XO
    (XI (XO (XO (XO (XO (XO (XO (XO (XO (XO (XO (XO (XO (XO (XO (XO (XO (XO
    (XO (XI (XO (XO (XO (XO XH)))))))))))))))))))))))))))))))) :: ((Npos (XI
    (XO (XI (XO (XO (XO (XI (XO (XO (XO (XO (XO (XO (XO (XO (XO (XO (XO (XO
    (XO (XO (XO (XO (XO (XO (XO (XI (XO (XO (XO (XO
    XH)))))))))))))))))))))))))))))))) :: ((Npos (XI (XI (XO (XI (XO (XI (XI
    (XI (XO (XO (XO (XO (XO (XO (XO (XO (XO (XO (XO (XO (XO (XO (XO (XO (XO
    (XO (XI (XO (XI (XO (XO XH)))))))))))))))))))))))))))))))) :: ((Npos (XO
    (XI (XI (XO (XO (XO (XO (XO (XI (XO (XO (XO (XO (XO (XO (XO (XO (XO (XO
    (XO (XO (XO (XO (XO (XO (XO (XI (XO (XI (XI
    XH))))))))))))))))))))))))))))))) :: ((Npos (XI (XO (XI (XI (XI (XO (XI
    (XO (XO (XO (XO (XO (XO (XO (XO (XO (XO (XO (XO (XO (XO (XO (XO (XO (XO
    (XO (XI (XO (XO (XO (XO XH)))))))))))))))))))))))))))))))) :: ((Npos (XI
    (XO (XI (XI (XI (XO (XO (XO (XO (XO (XO (XO (XO (XO (XO (XO (XO (XO (XO
    (XO (XO (XO (XO (XO (XO (XO (XI (XO (XO (XO (XO
    XH)))))))))))))))))))))))))))))))) :: ((Npos (XI (XI (XO (XI (XI (XO (XO
    (XI (XO (XO (XO (XO (XO (XO (XO (XO (XO (XO (XO (XO (XO (XO (XO (XO (XO
    (XO (XI (XO (XI (XO (XO XH)))))))))))))))))))))))))))))))) :: ((Npos (XO
    (XO (XI (XI (XI (XO (XI (XO (XI (XO (XO (XO (XO (XO (XO (XO (XO (XO (XO
    (XO (XO (XO (XO (XO (XO (XO (XI (XO (XI (XI (XO
    XH)))))))))))))))))))))))))))))))) :: ((Npos (XI (XO (XI (XI (XI (XI (XI
    (XO (XO (XO (XO (XO (XO (XO (XO (XO (XO (XO (XO (XO (XO (XO (XO (XO (XO
    (XO (XI (XO (XO (XO (XO XH)))))))))))))))))))))))))))))))) :: ((Npos (XI
    (XO (XI (XI (XI (XI (XO (XO (XO (XO (XO (XO (XO (XO (XO (XO (XO (XO (XO
    (XO (XO (XO (XO (XO (XO (XO (XI (XO (XO (XO (XO
    XH)))))))))))))))))))))))))))))))) :: ((Npos (XI (XI (XO (XI (XI (XO (XI
    (XI (XO (XO (XO (XO (XO (XO (XO (XO (XO (XO (XO (XO (XO (XO (XO (XO (XO
    (XO (XI (XO (XI (XO (XO XH)))))))))))))))))))))))))))))))) :: ((Npos (XO
    (XO (XO (XI (XI (XO (XO (XO (XI (XO (XO (XO (XO (XO (XO (XO (XO (XO (XO
    (XO (XO (XO (XO (XO (XO (XO (XI (XO (XI (XO (XO
    XH)))))))))))))))))))))))))))))))) :: ((Npos (XI (XO (XI (XI (XO (XI (XI
    (XO (XO (XO (XO (XO (XO (XO (XO (XO (XO (XO (XO (XO (XO (XO (XO (XO (XO
    (XO (XI (XO (XO (XO (XO XH)))))))))))))))))))))))))))))))) :: ((Npos (XI
    (XO (XI (XI (XO (XI (XO (XO (XO (XO (XO (XO (XO (XO (XO (XO (XO (XO (XO
    (XO (XO (XO (XO (XO (XO (XO (XI (XO (XO (XO (XO
    XH)))))))))))))))))))))))))))))))) :: ((Npos (XI (XI (XO (XI (XI (XI (XO
    (XI (XO (XO (XO (XO (XO (XO (XO (XO (XO (XO (XO (XO (XO (XO (XO (XO (XO
    (XO (XI (XO (XI (XO (XO XH)))))))))))))))))))))))))))))))) :: ((Npos (XI
    (XO (XI (XI (XO (XO (XO (XO (XO (XO (XO (XO (XO (XO (XO (XO (XO (XO (XO
    (XO (XO (XO (XO (XO (XO (XO (XI (XO (XO (XO (XO
    XH)))))))))))))))))))))))))))))))) :: ((Npos (XI (XO (XI (XI (XO (XO (XO
    (XI (XO (XO (XO (XO (XO (XO (XO (XO (XO (XO (XO (XO (XO (XO (XO (XO (XO
    (XO (XI (XO (XO (XO (XO XH)))))))))))))))))))))))))))))))) :: ((Npos (XI
    (XO (XI (XI (XO (XO (XI (XO (XO (XO (XO (XO (XO (XO (XO (XO (XO (XO (XO
    (XO (XO (XO (XO (XO (XO (XO (XI (XO (XO (XO (XO
    XH)))))))))))))))))))))))))))))))) :: ((Npos (XI (XI (XO (XI (XI (XI (XI
    (XI (XO (XO (XO (XO (XO (XO (XO (XO (XO (XO (XO (XO (XO (XO (XO (XO (XO
    (XO (XI (XO (XI (XO (XO XH)))))))))))))))))))))))))))))))) :: ((Npos (XI
    (XO (XO (XO (XO (XO (XO (XO (XI (XO (XO (XO (XO (XO (XO (XO (XO (XO (XO
    (XO (XO (XO (XO (XO (XO (XO (XI (XO (XI (XI
    XH))))))))))))))))))))))))))))))) :: ((Npos (XI (XI (XO (XO (XI (XO (XI
    (XO (XO (XO (XO (XO (XO (XO (XO (XO (XO (XO (XO (XO (XO (XO (XO (XO (XO
    (XO (XI (XO (XO (XO (XO XH)))))))))))))))))))))))))))))))) :: ((Npos (XI
    (XI (XO (XO (XI (XO (XO (XO (XO (XO (XO (XO (XO (XO (XO (XO (XO (XO (XO
    (XO (XO (XO (XO (XO (XO (XO (XI (XO (XO (XO (XO
    XH)))))))))))))))))))))))))))))))) :: ((Npos (XO (XI (XO (XI (XO (XO (XI
    (XO (XO (XO (XO (XO (XO (XO (XO (XO (XO (XO (XO (XO (XO (XO (XO (XO (XO
    (XI (XI (XO (XI XH)))))))))))))))))))))))))))))) :: ((Npos (XO (XO (XI
    (XO (XO (XI (XO (XO (XI (XO (XO (XO (XO (XO (XO (XO (XO (XO (XO (XO (XO
    (XO (XO (XO (XO (XO (XI (XO (XO (XI (XO
    XH)))))))))))))))))))))))))))))))) :: ((Npos (XI (XI (XO (XO (XI (XI (XI
    (XO (XO (XO (XO (XO (XO (XO (XO (XO (XO (XO (XO (XO (XO (XO (XO (XO (XO
    (XO (XI (XO (XO (XO (XO XH)))))))))))))))))))))))))))))))) :: ((Npos (XI
    (XI (XO (XO (XI (XI (XO (XO (XO (XO (XO (XO (XO (XO (XO (XO (XO (XO (XO
    (XO (XO (XO (XO (XO (XO (XO (XI (XO (XO (XO (XO
    XH)))))))))))))))))))))))))))))))) :: ((Npos (XI (XI (XI (XO (XO (XO (XI
    (XI (XO (XO (XO (XO (XO (XO (XO (XO (XO (XO (XO (XO (XO (XO (XO (XO (XO
    (XO (XI (XO (XI (XO (XO XH)))))))))))))))))))))))))))))))) :: ((Npos (XO
    (XI (XO (XI (XO (XO (XO (XO (XI (XO (XO (XO (XO (XO (XO (XO (XO (XO (XO
    (XO (XO (XO (XO (XO (XO (XO (XI (XO (XO (XO (XO
    XH)))))))))))))))))))))))))))))))) :: ((Npos (XI (XI (XO (XO (XO (XI (XI
    (XO (XO (XO (XO (XO (XO (XO (XO (XO (XO (XO (XO (XO (XO (XO (XO (XO (XO
    (XO (XI (XO (XO (XO (XO XH)))))))))))))))))))))))))))))))) :: ((Npos (XI
    (XI (XO (XO (XO (XI (XO (XO (XO (XO (XO (XO (XO (XO (XO (XO (XO (XO (XO
    (XO (XO (XO (XO (XO (XO (XO (XI (XO (XO (XO (XO
    XH)))))))))))))))))))))))))))))))) :: ((Npos (XI (XI (XI (XO (XO (XI (XO
    (XI (XO (XO (XO (XO (XO (XO (XO (XO (XO (XO (XO (XO (XO (XO (XO (XO (XO
    (XO (XI (XO (XI (XO (XO XH)))))))))))))))))))))))))))))))) :: ((Npos (XI
    (XI (XO (XO (XO (XO (XO (XO (XO (XO (XO (XO (XO (XO (XO (XO (XO (XO (XO
    (XO (XO (XO (XO (XO (XO (XO (XI (XO (XO (XO (XO
    XH)))))))))))))))))))))))))))))))) :: ((Npos (XI (XI (XO (XO (XO (XO (XO
    (XI (XO (XO (XO (XO (XO (XO (XO (XO (XO (XO (XO (XO (XO (XO (XO (XO (XO
    (XO (XI (XO (XO (XO (XO XH)))))))))))))))))))))))))))))))) :: ((Npos (XI
    (XI (XO (XO (XO (XO (XI (XO (XO (XO (XO (XO (XO (XO (XO (XO (XO (XO (XO
    (XO (XO (XO (XO (XO (XO (XO (XI (XO (XO (XO (XO
    XH)))))))))))))))))))))))))))))))) :: ((Npos (XI (XI (XI (XO (XO (XI (XI
    (XI (XO (XO (XO (XO (XO (XO (XO (XO (XO (XO (XO (XO (XO (XO (XO (XO (XO
    (XO (XI (XO (XI (XO (XO XH)))))))))))))))))))))))))))))))) :: ((Npos (XI
    (XO (XI (XO (XO (XO (XO (XO (XI (XO (XO (XO (XO (XO (XO (XO (XO (XO (XO
    (XO (XO (XO (XO (XO (XO (XO (XI (XO (XI (XI
    XH))))))))))))))))))))))))))))))) :: ((Npos (XI (XI (XO (XI (XI (XO (XI
    (XO (XO (XO (XO (XO (XO (XO (XO (XO (XO (XO (XO (XO (XO (XO (XO (XO (XO
    (XO (XI (XO (XO (XO (XO XH)))))))))))))))))))))))))))))))) :: ((Npos (XI
    (XI (XO (XI (XI (XO (XO (XO (XO (XO (XO (XO (XO (XO (XO (XO (XO (XO (XO
    (XO (XO (XO (XO (XO (XO (XO (XI (XO (XO (XO (XO
    XH)))))))))))))))))))))))))))))))) :: ((Npos (XI (XI (XI (XO (XI (XO (XO
    (XI (XO (XO (XO (XO (XO (XO (XO (XO (XO (XO (XO (XO (XO (XO (XO (XO (XO
    (XO (XI (XO (XI (XO (XO XH)))))))))))))))))))))))))))))))) :: ((Npos (XO
    (XO (XI (XI (XO (XO (XI (XO (XI (XO (XO (XO (XO (XO (XO (XO (XO (XO (XO
    (XO (XO (XO (XO (XO (XO (XO (XI (XO (XI (XI (XO
    XH)))))))))))))))))))))))))))))))) :: ((Npos (XI (XI (XO (XI (XI (XI (XI
    (XO (XO (XO (XO (XO (XO (XO (XO (XO (XO (XO (XO (XO (XO (XO (XO (XO (XO
    (XO (XI (XO (XO (XO (XO XH)))))))))))))))))))))))))))))))) :: ((Npos (XI
    (XI (XO (XI (XI (XI (XO (XO (XO (XO (XO (XO (XO (XO (XO (XO (XO (XO (XO
    (XO (XO (XO (XO (XO (XO (XO (XI (XO (XO (XO (XO
    XH)))))))))))))))))))))))))))))))) :: ((Npos (XI (XI (XI (XO (XI (XO (XI
    (XI (XO (XO (XO (XO (XO (XO (XO (XO (XO (XO (XO (XO (XO (XO (XO (XO (XO
    (XO (XI (XO (XI (XO (XO XH)))))))))))))))))))))))))))))))) :: ((Npos (XO
    (XO (XI (XO (XI (XO (XO (XO (XI (XO (XO (XO (XO (XO (XO (XO (XO (XO (XO
    (XO (XO (XO (XO (XO (XO (XO (XI (XO (XI (XO (XO
    XH)))))))))))))))))))))))))))))))) :: ((Npos (XI (XI (XO (XI (XO (XI (XI
    (XO (XO (XO (XO (XO (XO (XO (XO (XO (XO (XO (XO (XO (XO (XO (XO (XO (XO
    (XO (XI (XO (XO (XO (XO XH)))))))))))))))))))))))))))))))) :: ((Npos (XI
    (XI (XO (XI (XO (XI (XO (XO (XO (XO (XO (XO (XO (XO (XO (XO (XO (XO (XO
    (XO (XO (XO (XO (XO (XO (XO (XI (XO (XO (XO (XO
    XH)))))))))))))))))))))))))))))))) :: ((Npos (XI (XI (XI (XO (XI (XI (XO
    (XI (XO (XO (XO (XO (XO (XO (XO (XO (XO (XO (XO (XO (XO (XO (XO (XO (XO
    (XO (XI (XO (XI (XO (XO XH)))))))))))))))))))))))))))))))) :: ((Npos (XI
    (XI (XO (XI (XO (XO (XO (XO (XO (XO (XO (XO (XO (XO (XO (XO (XO (XO (XO
    (XO (XO (XO (XO (XO (XO (XO (XI (XO (XO (XO (XO
    XH)))))))))))))))))))))))))))))))) :: ((Npos (XI (XI (XO (XI (XO (XO (XO
    (XI (XO (XO (XO (XO (XO (XO (XO (XO (XO (XO (XO (XO (XO (XO (XO (XO (XO
    (XO (XI (XO (XO (XO (XO XH)))))))))))))))))))))))))))))))) :: ((Npos (XI
    (XI (XO (XI (XO (XO (XI (XO (XO (XO (XO (XO (XO (XO (XO (XO (XO (XO (XO
    (XO (XO (XO (XO (XO (XO (XO (XI (XO (XO (XO (XO
    XH)))))))))))))))))))))))))))))))) :: ((Npos (XI (XI (XI (XO (XI (XI (XI
    (XI (XO (XO (XO (XO (XO (XO (XO (XO (XO (XO (XO (XO (XO (XO (XO (XO (XO
    (XO (XI (XO (XI (XO (XO XH)))))))))))))))))))))))))))))))) :: ((Npos (XI
    (XI (XO (XO (XO (XO (XO (XO (XI (XO (XO (XO (XO (XO (XO (XO (XO (XO (XO
    (XO (XO (XO (XO (XO (XO (XO (XI (XO (XI (XI
    XH))))))))))))))))))))))))))))))) :: ((Npos (XI (XI (XI (XO (XI (XO (XI
    (XO (XO (XO (XO (XO (XO (XO (XO (XO (XO (XO (XO (XO (XO (XO (XO (XO (XO
    (XO (XI (XO (XO (XO (XO XH)))))))))))))))))))))))))))))))) :: ((Npos (XI
    (XI (XI (XO (XI (XO (XO (XO (XO (XO (XO (XO (XO (XO (XO (XO (XO (XO (XO
    (XO (XO (XO (XO (XO (XO (XO (XI (XO (XO (XO (XO
    XH)))))))))))))))))))))))))))))))) :: (N0 :: ((Npos (XO (XO (XI (XO (XI
    (XI (XO (XO (XI (XO (XO (XO (XO (XO (XO (XO (XO (XO (XO (XO (XO (XO (XO
    (XO (XO (XO (XI (XO (XO (XI (XO
    XH)))))))))))))))))))))))))))))))) :: ((Npos (XI (XI (XI (XO (XI (XI (XI
    (XO (XO (XO (XO (XO (XO (XO (XO (XO (XO (XO (XO (XO (XO (XO (XO (XO (XO
    (XO (XI (XO (XO (XO (XO XH)))))))))))))))))))))))))))))))) :: ((Npos (XI
    (XI (XI (XO (XI (XI (XO (XO (XO (XO (XO (XO (XO (XO (XO (XO (XO (XO (XO
    (XO (XO (XO (XO (XO (XO (XO (XI (XO (XO (XO (XO
    XH)))))))))))))))))))))))))))))))) :: ((Npos (XI (XI (XI (XI (XO (XO (XI
    (XI (XO (XO (XO (XO (XO (XO (XO (XO (XO (XO (XO (XO (XO (XO (XO (XO (XO
    (XO (XI (XO (XI (XO (XO XH)))))))))))))))))))))))))))))))) :: ((Npos (XO
    (XI (XI (XI (XO (XO (XO (XO (XI (XO (XO (XO (XO (XO (XO (XO (XO (XO (XO
    (XO (XO (XO (XO (XO (XO (XO (XI (XO (XO (XO (XO
    XH)))))))))))))))))))))))))))))))) :: ((Npos (XI (XI (XI (XO (XO (XI (XI
    (XO (XO (XO (XO (XO (XO (XO (XO (XO (XO (XO (XO (XO (XO (XO (XO (XO (XO
    (XO (XI (XO (XO (XO (XO XH)))))))))))))))))))))))))))))))) :: ((Npos (XI
    (XI (XI (XO (XO (XI (XO (XO (XO (XO (XO (XO (XO (XO (XO (XO (XO (XO (XO
    (XO (XO (XO (XO (XO (XO (XO (XI (XO (XO (XO (XO
    XH)))))))))))))))))))))))))))))))) :: ((Npos (XI (XI (XI (XI (XO (XI (XO
    (XI (XO (XO (XO (XO (XO (XO (XO (XO (XO (XO (XO (XO (XO (XO (XO (XO (XO
    (XO (XI (XO (XI (XO (XO XH)))))))))))))))))))))))))))))))) :: ((Npos (XI
    (XI (XI (XO (XO (XO (XO (XO (XO (XO (XO (XO (XO (XO (XO (XO (XO (XO (XO
    (XO (XO (XO (XO (XO (XO (XO (XI (XO (XO (XO (XO
    XH)))))))))))))))))))))))))))))))) :: ((Npos (XI (XI (XI (XO (XO (XO (XO
    (XI (XO (XO (XO (XO (XO (XO (XO (XO (XO (XO (XO (XO (XO (XO (XO (XO (XO
    (XO (XI (XO (XO (XO (XO XH)))))))))))))))))))))))))))))))) :: ((Npos (XI
    (XI (XI (XO (XO (XO (XI (XO (XO (XO (XO (XO (XO (XO (XO (XO (XO (XO (XO
    (XO (XO (XO (XO (XO (XO (XO (XI (XO (XO (XO (XO
    XH)))))))))))))))))))))))))))))))) :: ((Npos (XI (XI (XI (XI (XO (XI (XI
    (XI (XO (XO (XO (XO (XO (XO (XO (XO (XO (XO (XO (XO (XO (XO (XO (XO (XO
    (XO (XI (XO (XI (XO (XO XH)))))))))))))))))))))))))))))))) :: ((Npos (XI
    (XI (XI (XO (XO (XO (XO (XO (XI (XO (XO (XO (XO (XO (XO (XO (XO (XO (XO
    (XO (XO (XO (XO (XO (XO (XO (XI (XO (XI (XI
    XH))))))))))))))))))))))))))))))) :: ((Npos (XI (XI (XI (XI (XI (XO (XI
    (XO (XO (XO (XO (XO (XO (XO (XO (XO (XO (XO (XO (XO (XO (XO (XO (XO (XO
    (XO (XI (XO (XO (XO (XO XH)))))))))))))))))))))))))))))))) :: ((Npos (XI
    (XI (XI (XI (XI (XO (XO (XO (XO (XO (XO (XO (XO (XO (XO (XO (XO (XO (XO
    (XO (XO (XO (XO (XO (XO (XO (XI (XO (XO (XO (XO
    XH)))))))))))))))))))))))))))))))) :: ((Npos (XI (XI (XI (XI (XI (XO (XO
    (XI (XO (XO (XO (XO (XO (XO (XO (XO (XO (XO (XO (XO (XO (XO (XO (XO (XO
    (XO (XI (XO (XI (XO (XO XH)))))))))))))))))))))))))))))))) :: ((Npos (XO
    (XO (XI (XI (XO (XI (XI (XO (XI (XO (XO (XO (XO (XO (XO (XO (XO (XO (XO
    (XO (XO (XO (XO (XO (XO (XO (XI (XO (XI (XI (XO
    XH)))))))))))))))))))))))))))))))) :: ((Npos (XI (XI (XI (XI (XI (XI (XI
    (XO (XO (XO (XO (XO (XO (XO (XO (XO (XO (XO (XO (XO (XO (XO (XO (XO (XO
    (XO (XI (XO (XO (XO (XO XH)))))))))))))))))))))))))))))))) :: ((Npos (XI
    (XI (XI (XI (XI (XI (XO (XO (XO (XO (XO (XO (XO (XO (XO (XO (XO (XO (XO
    (XO (XO (XO (XO (XO (XO (XO (XI (XO (XO (XO (XO
    XH)))))))))))))))))))))))))))))))) :: ((Npos (XI (XI (XI (XI (XI (XO (XI
    (XI (XO (XO (XO (XO (XO (XO (XO (XO (XO (XO (XO (XO (XO (XO (XO (XO (XO
    (XO (XI (XO (XI (XO (XO XH)))))))))))))))))))))))))))))))) :: ((Npos (XO
    (XO (XI (XI (XI (XO (XO (XO (XI (XO (XO (XO (XO (XO (XO (XO (XO (XO (XO
    (XO (XO (XO (XO (XO (XO (XO (XI (XO (XI (XO (XO
    XH)))))))))))))))))))))))))))))))) :: ((Npos (XI (XI (XI (XI (XO (XI (XI
    (XO (XO (XO (XO (XO (XO (XO (XO (XO (XO (XO (XO (XO (XO (XO (XO (XO (XO
    (XO (XI (XO (XO (XO (XO XH)))))))))))))))))))))))))))))))) :: ((Npos (XI
    (XI (XI (XI (XO (XI (XO (XO (XO (XO (XO (XO (XO (XO (XO (XO (XO (XO (XO
    (XO (XO (XO (XO (XO (XO (XO (XI (XO (XO (XO (XO
    XH)))))))))))))))))))))))))))))))) :: ((Npos (XI (XI (XI (XI (XI (XI (XO
    (XI (XO (XO (XO (XO (XO (XO (XO (XO (XO (XO (XO (XO (XO (XO (XO (XO (XO
    (XO (XI (XO (XI (XO (XO XH)))))))))))))))))))))))))))))))) :: ((Npos (XI
    (XI (XI (XI (XO (XO (XO (XO (XO (XO (XO (XO (XO (XO (XO (XO (XO (XO (XO
    (XO (XO (XO (XO (XO (XO (XO (XI (XO (XO (XO (XO
    XH)))))))))))))))))))))))))))))))) :: ((Npos (XI (XI (XI (XI (XO (XO (XO
    (XI (XO (XO (XO (XO (XO (XO (XO (XO (XO (XO (XO (XO (XO (XO (XO (XO (XO
    (XO (XI (XO (XO (XO (XO XH)))))))))))))))))))))))))))))))) :: ((Npos (XI
    (XI (XI (XI (XO (XO (XI (XO (XO (XO (XO (XO (XO (XO (XO (XO (XO (XO (XO
    (XO (XO (XO (XO (XO (XO (XO (XI (XO (XO (XO (XO
    XH)))))))))))))))))))))))))))))))) :: ((Npos (XI (XI (XI (XI (XI (XI (XI
    (XI (XO (XO (XO (XO (XO (XO (XO (XO (XO (XO (XO (XO (XO (XO (XO (XO (XO
    (XO (XI (XO (XI (XO (XO XH)))))))))))))))))))))))))))))))) :: ((Npos (XO
    (XO (XO (XO (XO (XO (XO (XO (XI (XO (XO (XO (XO (XO (XO (XO (XO (XO (XO
    (XO (XO (XO (XO (XO (XO (XO (XI (XO (XI (XI
    XH))))))))))))))))))))))))))))))) :: ((Npos (XO (XO (XO (XO (XI (XO (XI
    (XO (XO (XO (XO (XO (XO (XO (XO (XO (XO (XO (XO (XO (XO (XO (XO (XO (XO
    (XO (XI (XO (XO (XO (XO XH)))))))))))))))))))))))))))))))) :: ((Npos (XO
    (XO (XO (XO (XI (XO (XO (XO (XO (XO (XO (XO (XO (XO (XO (XO (XO (XO (XO
    (XO (XO (XO (XO (XO (XO (XO (XI (XO (XO (XO (XO
    XH)))))))))))))))))))))))))))))))) :: ((Npos (XI (XI (XI (XO (XI (XI (XI
    (XO (XI (XO (XO (XO (XO (XO (XO (XO (XO (XO (XO (XO (XO (XO (XO (XO (XO
    (XO (XI (XO (XO (XO (XI XH)))))))))))))))))))))))))))))))) :: ((Npos (XI
    (XO (XI (XI (XI (XO (XO (XO (XI (XO (XO (XO (XO (XO (XO (XO (XO (XO (XO
    (XO (XO (XO (XO (XO (XO (XO (XI (XO (XI (XO (XO
    XH)))))))))))))))))))))))))))))))) :: ((Npos (XO (XO (XO (XO (XI (XI (XI
    (XO (XO (XO (XO (XO (XO (XO (XO (XO (XO (XO (XO (XO (XO (XO (XO (XO (XO
    (XO (XI (XO (XO (XO (XO XH)))))))))))))))))))))))))))))))) :: ((Npos (XO
    (XO (XO (XO (XI (XI (XO (XO (XO (XO (XO (XO (XO (XO (XO (XO (XO (XO (XO
    (XO (XO (XO (XO (XO (XO (XO (XI (XO (XO (XO (XO
    XH)))))))))))))))))))))))))))))))) :: ((Npos (XO (XO (XO (XO (XO (XO (XI
    (XI (XO (XO (XO (XO (XO (XO (XO (XO (XO (XO (XO (XO (XO (XO (XO (XO (XO
    (XO (XI (XO (XI (XO (XO XH)))))))))))))))))))))))))))))))) :: ((Npos (XO
    (XO (XO (XI (XO (XO (XO (XO (XI (XO (XO (XO (XO (XO (XO (XO (XO (XO (XO
    (XO (XO (XO (XO (XO (XO (XO (XI (XO (XI (XI
    XH))))))))))))))))))))))))))))))) :: ((Npos (XO (XO (XO (XO (XO (XI (XI
    (XO (XO (XO (XO (XO (XO (XO (XO (XO (XO (XO (XO (XO (XO (XO (XO (XO (XO
    (XO (XI (XO (XO (XO (XO XH)))))))))))))))))))))))))))))))) :: ((Npos (XO
    (XO (XO (XO (XO (XI (XO (XO (XO (XO (XO (XO (XO (XO (XO (XO (XO (XO (XO
    (XO (XO (XO (XO (XO (XO (XO (XI (XO (XO (XO (XO
    XH)))))))))))))))))))))))))))))))) :: ((Npos (XO (XO (XO (XO (XO (XI (XO
    (XI (XO (XO (XO (XO (XO (XO (XO (XO (XO (XO (XO (XO (XO (XO (XO (XO (XO
    (XO (XI (XO (XI (XO (XO XH)))))))))))))))))))))))))))))))) :: ((Npos (XO
    (XO (XO (XO (XO (XO (XO (XO (XO (XO (XO (XO (XO (XO (XO (XO (XO (XO (XO
    (XO (XO (XO (XO (XO (XO (XO (XI (XO (XO (XO (XO
    XH)))))))))))))))))))))))))))))))) :: ((Npos (XO (XO (XO (XO (XO (XO (XO
    (XI (XO (XO (XO (XO (XO (XO (XO (XO (XO (XO (XO (XO (XO (XO (XO (XO (XO
    (XO (XI (XO (XO (XO (XO XH)))))))))))))))))))))))))))))))) :: ((Npos (XO
    (XO (XO (XO (XO (XO (XI (XO (XO (XO (XO (XO (XO (XO (XO (XO (XO (XO (XO
    (XO (XO (XO (XO (XO (XO (XO (XI (XO (XO (XO (XO
    XH)))))))))))))))))))))))))))))))) :: ((Npos (XO (XO (XO (XO (XO (XI (XI
    (XI (XO (XO (XO (XO (XO (XO (XO (XO (XO (XO (XO (XO (XO (XO (XO (XO (XO
    (XO (XI (XO (XI (XO (XO XH)))))))))))))))))))))))))))))))) :: ((Npos (XO
    (XO (XI (XO (XO (XO (XO (XO (XI (XO (XO (XO (XO (XO (XO (XO (XO (XO (XO
    (XO (XO (XO (XO (XO (XO (XO (XI (XO (XI (XI
    XH))))))))))))))))))))))))))))))) :: ((Npos (XO (XO (XO (XI (XI (XO (XI
    (XO (XO (XO (XO (XO (XO (XO (XO (XO (XO (XO (XO (XO (XO (XO (XO (XO (XO
    (XO (XI (XO (XO (XO (XO XH)))))))))))))))))))))))))))))))) :: ((Npos (XO
    (XO (XO (XI (XI (XO (XO (XO (XO (XO (XO (XO (XO (XO (XO (XO (XO (XO (XO
    (XO (XO (XO (XO (XO (XO (XO (XI (XO (XO (XO (XO
    XH)))))))))))))))))))))))))))))))) :: ((Npos (XO (XO (XO (XO (XI (XO (XO
    (XI (XO (XO (XO (XO (XO (XO (XO (XO (XO (XO (XO (XO (XO (XO (XO (XO (XO
    (XO (XI (XO (XI (XO (XO XH)))))))))))))))))))))))))))))))) :: ((Npos (XI
    (XO (XI (XI (XI (XI (XO (XO (XI (XO (XO (XO (XO (XO (XO (XO (XO (XO (XO
    (XO (XO (XO (XO (XO (XO (XO (XI (XO (XO (XI (XO
    XH)))))))))))))))))))))))))))))))) :: ((Npos (XO (XO (XO (XI (XI (XI (XI
    (XO (XO (XO (XO (XO (XO (XO (XO (XO (XO (XO (XO (XO (XO (XO (XO (XO (XO
    (XO (XI (XO (XO (XO (XO XH)))))))))))))))))))))))))))))))) :: ((Npos (XO
    (XO (XO (XI (XI (XI (XO (XO (XO (XO (XO (XO (XO (XO (XO (XO (XO (XO (XO
    (XO (XO (XO (XO (XO (XO (XO (XI (XO (XO (XO (XO
    XH)))))))))))))))))))))))))))))))) :: ((Npos (XO (XO (XO (XO (XI (XO (XI
    (XI (XO (XO (XO (XO (XO (XO (XO (XO (XO (XO (XO (XO (XO (XO (XO (XO (XO
    (XO (XI (XO (XI (XO (XO XH)))))))))))))))))))))))))))))))) :: ((Npos (XI
    (XI (XI (XI (XO (XO (XO (XO (XI (XO (XO (XO (XO (XO (XO (XO (XO (XO (XO
    (XO (XO (XO (XO (XO (XO (XO (XI (XO (XO (XO (XO
    XH)))))))))))))))))))))))))))))))) :: ((Npos (XO (XO (XO (XI (XO (XI (XI
    (XO (XO (XO (XO (XO (XO (XO (XO (XO (XO (XO (XO (XO (XO (XO (XO (XO (XO
    (XO (XI (XO (XO (XO (XO XH)))))))))))))))))))))))))))))))) :: ((Npos (XO
    (XO (XO (XI (XO (XI (XO (XO (XO (XO (XO (XO (XO (XO (XO (XO (XO (XO (XO
    (XO (XO (XO (XO (XO (XO (XO (XI (XO (XO (XO (XO
    XH)))))))))))))))))))))))))))))))) :: ((Npos (XO (XO (XO (XO (XI (XI (XO
    (XI (XO (XO (XO (XO (XO (XO (XO (XO (XO (XO (XO (XO (XO (XO (XO (XO (XO
    (XO (XI (XO (XI (XO (XO XH)))))))))))))))))))))))))))))))) :: ((Npos (XO
    (XO (XO (XI (XO (XO (XO (XO (XO (XO (XO (XO (XO (XO (XO (XO (XO (XO (XO
    (XO (XO (XO (XO (XO (XO (XO (XI (XO (XO (XO (XO
    XH)))))))))))))))))))))))))))))))) :: ((Npos (XO (XO (XO (XI (XO (XO (XO
    (XI (XO (XO (XO (XO (XO (XO (XO (XO (XO (XO (XO (XO (XO (XO (XO (XO (XO
    (XO (XI (XO (XO (XO (XO XH)))))))))))))))))))))))))))))))) :: ((Npos (XO
    (XO (XO (XI (XO (XO (XI (XO (XO (XO (XO (XO (XO (XO (XO (XO (XO (XO (XO
    (XO (XO (XO (XO (XO (XO (XO (XI (XO (XO (XO (XO
    XH)))))))))))))))))))))))))))))))) :: ((Npos (XO (XO (XO (XO (XI (XI (XI
    (XI (XO (XO (XO (XO (XO (XO (XO (XO (XO (XO (XO (XO (XO (XO (XO (XO (XO
    (XO (XI (XO (XI (XO (XO XH)))))))))))))))))))))))))))))))) :: ((Npos (XO
    (XI (XO (XO (XO (XO (XO (XO (XI (XO (XO (XO (XO (XO (XO (XO (XO (XO (XO
    (XO (XO (XO (XO (XO (XO (XO (XI (XO (XI (XI
    XH))))))))))))))))))))))))))))))) :: ((Npos (XO (XO (XI (XO (XI (XO (XI
    (XO (XO (XO (XO (XO (XO (XO (XO (XO (XO (XO (XO (XO (XO (XO (XO (XO (XO
    (XO (XI (XO (XO (XO (XO XH)))))))))))))))))))))))))))))))) :: ((Npos (XO
    (XO (XI (XO (XI (XO (XO (XO (XO (XO (XO (XO (XO (XO (XO (XO (XO (XO (XO
    (XO (XO (XO (XO (XO (XO (XO (XI (XO (XO (XO (XO
    XH)))))))))))))))))))))))))))))))) :: ((Npos (XO (XO (XI (XI (XO (XI (XI
    (XO (XO (XO (XO (XO (XO (XO (XO (XO (XO (XO (XO (XO (XO (XO (XO (XO (XO
    (XI (XI (XO (XI XH)))))))))))))))))))))))))))))) :: ((Npos (XI (XO (XI
    (XI (XO (XI (XO (XO (XI (XO (XO (XO (XO (XO (XO (XO (XO (XO (XO (XO (XO
    (XO (XO (XO (XO (XO (XI (XO (XO (XI (XO
    XH)))))))))))))))))))))))))))))))) :: ((Npos (XO (XO (XI (XO (XI (XI (XI
    (XO (XO (XO (XO (XO (XO (XO (XO (XO (XO (XO (XO (XO (XO (XO (XO (XO (XO
    (XO (XI (XO (XO (XO (XO XH)))))))))))))))))))))))))))))))) :: ((Npos (XO
    (XO (XI (XO (XI (XI (XO (XO (XO (XO (XO (XO (XO (XO (XO (XO (XO (XO (XO
    (XO (XO (XO (XO (XO (XO (XO (XI (XO (XO (XO (XO
    XH)))))))))))))))))))))))))))))))) :: ((Npos (XO (XO (XO (XI (XO (XO (XI
    (XI (XO (XO (XO (XO (XO (XO (XO (XO (XO (XO (XO (XO (XO (XO (XO (XO (XO
    (XO (XI (XO (XI (XO (XO XH)))))))))))))))))))))))))))))))) :: ((Npos (XI
    (XI (XO (XI (XO (XO (XO (XO (XI (XO (XO (XO (XO (XO (XO (XO (XO (XO (XO
    (XO (XO (XO (XO (XO (XO (XO (XI (XO (XO (XO (XO
    XH)))))))))))))))))))))))))))))))) :: ((Npos (XO (XO (XI (XO (XO (XI (XI
    (XO (XO (XO (XO (XO (XO (XO (XO (XO (XO (XO (XO (XO (XO (XO (XO (XO (XO
    (XO (XI (XO (XO (XO (XO XH)))))))))))))))))))))))))))))))) :: ((Npos (XO
    (XO (XI (XO (XO (XI (XO (XO (XO (XO (XO (XO (XO (XO (XO (XO (XO (XO (XO
    (XO (XO (XO (XO (XO (XO (XO (XI (XO (XO (XO (XO
    XH)))))))))))))))))))))))))))))))) :: ((Npos (XO (XO (XO (XI (XO (XI (XO
    (XI (XO (XO (XO (XO (XO (XO (XO (XO (XO (XO (XO (XO (XO (XO (XO (XO (XO
    (XO (XI (XO (XI (XO (XO XH)))))))))))))))))))))))))))))))) :: ((Npos (XO
    (XO (XI (XO (XO (XO (XO (XO (XO (XO (XO (XO (XO (XO (XO (XO (XO (XO (XO
    (XO (XO (XO (XO (XO (XO (XO (XI (XO (XO (XO (XO
    XH)))))))))))))))))))))))))))))))) :: ((Npos (XO (XO (XI (XO (XO (XO (XO
    (XI (XO (XO (XO (XO (XO (XO (XO (XO (XO (XO (XO (XO (XO (XO (XO (XO (XO
    (XO (XI (XO (XO (XO (XO XH)))))))))))))))))))))))))))))))) :: ((Npos (XO
    (XO (XI (XO (XO (XO (XI (XO (XO (XO (XO (XO (XO (XO (XO (XO (XO (XO (XO
    (XO (XO (XO (XO (XO (XO (XO (XI (XO (XO (XO (XO
    XH)))))))))))))))))))))))))))))))) :: ((Npos (XO (XO (XO (XI (XO (XI (XI
    (XI (XO (XO (XO (XO (XO (XO (XO (XO (XO (XO (XO (XO (XO (XO (XO (XO (XO
    (XO (XI (XO (XI (XO (XO XH)))))))))))))))))))))))))))))))) :: ((Npos (XO
    (XI (XI (XO (XO (XO (XO (XO (XI (XO (XO (XO (XO (XO (XO (XO (XO (XO (XO
    (XO (XO (XO (XO (XO (XO (XO (XI (XO (XI (XI
    XH))))))))))))))))))))))))))))))) :: ((Npos (XO (XO (XI (XI (XI (XO (XI
    (XO (XO (XO (XO (XO (XO (XO (XO (XO (XO (XO (XO (XO (XO (XO (XO (XO (XO
    (XO (XI (XO (XO (XO (XO XH)))))))))))))))))))))))))))))))) :: ((Npos (XO
    (XO (XI (XI (XI (XO (XO (XO (XO (XO (XO (XO (XO (XO (XO (XO (XO (XO (XO
    (XO (XO (XO (XO (XO (XO (XO (XI (XO (XO (XO (XO
    XH)))))))))))))))))))))))))))))))) :: ((Npos (XO (XO (XO (XI (XI (XO (XO
    (XI (XO (XO (XO (XO (XO (XO (XO (XO (XO (XO (XO (XO (XO (XO (XO (XO (XO
    (XO (XI (XO (XI (XO (XO XH)))))))))))))))))))))))))))))))) :: ((Npos (XI
    (XO (XI (XI (XI (XO (XI (XO (XI (XO (XO (XO (XO (XO (XO (XO (XO (XO (XO
    (XO (XO (XO (XO (XO (XO (XO (XI (XO (XI (XI (XO
    XH)))))))))))))))))))))))))))))))) :: ((Npos (XO (XO (XI (XI (XI (XI (XI
    (XO (XO (XO (XO (XO (XO (XO (XO (XO (XO (XO (XO (XO (XO (XO (XO (XO (XO
    (XO (XI (XO (XO (XO (XO XH)))))))))))))))))))))))))))))))) :: ((Npos (XO
    (XO (XI (XI (XI (XI (XO (XO (XO (XO (XO (XO (XO (XO (XO (XO (XO (XO (XO
    (XO (XO (XO (XO (XO (XO (XO (XI (XO (XO (XO (XO
    XH)))))))))))))))))))))))))))))))) :: ((Npos (XO (XO (XO (XI (XI (XO (XI
    (XI (XO (XO (XO (XO (XO (XO (XO (XO (XO (XO (XO (XO (XO (XO (XO (XO (XO
    (XO (XI (XO (XI (XO (XO XH)))))))))))))))))))))))))))))))) :: ((Npos (XI
    (XO (XI (XO (XI (XO (XO (XO (XI (XO (XO (XO (XO (XO (XO (XO (XO (XO (XO
    (XO (XO (XO (XO (XO (XO (XO (XI (XO (XI (XO (XO
    XH)))))))))))))))))))))))))))))))) :: ((Npos (XO (XO (XI (XI (XO (XI (XI
    (XO (XO (XO (XO (XO (XO (XO (XO (XO (XO (XO (XO (XO (XO (XO (XO (XO (XO
    (XO (XI (XO (XO (XO (XO XH)))))))))))))))))))))))))))))))) :: ((Npos (XO
    (XO (XI (XI (XO (XI (XO (XO (XO (XO (XO (XO (XO (XO (XO (XO (XO (XO (XO
    (XO (XO (XO (XO (XO (XO (XO (XI (XO (XO (XO (XO
    XH)))))))))))))))))))))))))))))))) :: ((Npos (XO (XO (XO (XI (XI (XI (XO
    (XI (XO (XO (XO (XO (XO (XO (XO (XO (XO (XO (XO (XO (XO (XO (XO (XO (XO
    (XO (XI (XO (XI (XO (XO XH)))))))))))))))))))))))))))))))) :: ((Npos (XO
    (XO (XI (XI (XO (XO (XO (XO (XO (XO (XO (XO (XO (XO (XO (XO (XO (XO (XO
    (XO (XO (XO (XO (XO (XO (XO (XI (XO (XO (XO (XO
    XH)))))))))))))))))))))))))))))))) :: ((Npos (XO (XO (XI (XI (XO (XO (XO
    (XI (XO (XO (XO (XO (XO (XO (XO (XO (XO (XO (XO (XO (XO (XO (XO (XO (XO
    (XO (XI (XO (XO (XO (XO XH)))))))))))))))))))))))))))))))) :: ((Npos (XO
    (XO (XI (XI (XO (XO (XI (XO (XO (XO (XO (XO (XO (XO (XO (XO (XO (XO (XO
    (XO (XO (XO (XO (XO (XO (XO (XI (XO (XO (XO (XO
    XH)))))))))))))))))))))))))))))))) :: ((Npos (XO (XO (XO (XI (XI (XI (XI
    (XI (XO (XO (XO (XO (XO (XO (XO (XO (XO (XO (XO (XO (XO (XO (XO (XO (XO
    (XO (XI (XO (XI (XO (XO XH)))))))))))))))))))))))))))))))) :: ((Npos (XI
    (XO (XO (XO (XO (XO (XO (XO (XI (XO (XO (XO (XO (XO (XO (XO (XO (XO (XO
    (XO (XO (XO (XO (XO (XO (XO (XI (XO (XI (XI
    XH))))))))))))))))))))))))))))))) :: ((Npos (XO (XI (XO (XO (XI (XO (XI
    (XO (XO (XO (XO (XO (XO (XO (XO (XO (XO (XO (XO (XO (XO (XO (XO (XO (XO
    (XO (XI (XO (XO (XO (XO XH)))))))))))))))))))))))))))))))) :: ((Npos (XO
    (XI (XO (XO (XI (XO (XO (XO (XO (XO (XO (XO (XO (XO (XO (XO (XO (XO (XO
    (XO (XO (XO (XO (XO (XO (XO (XI (XO (XO (XO (XO
    XH)))))))))))))))))))))))))))))))) :: ((Npos (XO (XO (XI (XI (XO (XI (XO
    (XO (XO (XO (XO (XO (XO (XO (XO (XO (XO (XO (XO (XO (XO (XO (XO (XO (XO
    (XI (XI (XO (XI XH)))))))))))))))))))))))))))))) :: ((Npos (XI (XO (XI
    (XO (XO (XI (XO (XO (XI (XO (XO (XO (XO (XO (XO (XO (XO (XO (XO (XO (XO
    (XO (XO (XO (XO (XO (XI (XO (XO (XI (XO
    XH)))))))))))))))))))))))))))))))) :: ((Npos (XO (XI (XO (XO (XI (XI (XI
    (XO (XO (XO (XO (XO (XO (XO (XO (XO (XO (XO (XO (XO (XO (XO (XO (XO (XO
    (XO (XI (XO (XO (XO (XO XH)))))))))))))))))))))))))))))))) :: ((Npos (XO
    (XI (XO (XO (XI (XI (XO (XO (XO (XO (XO (XO (XO (XO (XO (XO (XO (XO (XO
    (XO (XO (XO (XO (XO (XO (XO (XI (XO (XO (XO (XO
    XH)))))))))))))))))))))))))))))))) :: ((Npos (XO (XO (XI (XO (XO (XO (XI
    (XI (XO (XO (XO (XO (XO (XO (XO (XO (XO (XO (XO (XO (XO (XO (XO (XO (XO
    (XO (XI (XO (XI (XO (XO XH)))))))))))))))))))))))))))))))) :: ((Npos (XI
    (XO (XO (XI (XO (XO (XO (XO (XI (XO (XO (XO (XO (XO (XO (XO (XO (XO (XO
    (XO (XO (XO (XO (XO (XO (XO (XI (XO (XO (XO (XO
    XH)))))))))))))))))))))))))))))))) :: ((Npos (XO (XI (XO (XO (XO (XI (XI
    (XO (XO (XO (XO (XO (XO (XO (XO (XO (XO (XO (XO (XO (XO (XO (XO (XO (XO
    (XO (XI (XO (XO (XO (XO XH)))))))))))))))))))))))))))))))) :: ((Npos (XO
    (XI (XO (XO (XO (XI (XO (XO (XO (XO (XO (XO (XO (XO (XO (XO (XO (XO (XO
    (XO (XO (XO (XO (XO (XO (XO (XI (XO (XO (XO (XO
    XH)))))))))))))))))))))))))))))))) :: ((Npos (XO (XO (XI (XO (XO (XI (XO
    (XI (XO (XO (XO (XO (XO (XO (XO (XO (XO (XO (XO (XO (XO (XO (XO (XO (XO
    (XO (XI (XO (XI (XO (XO XH)))))))))))))))))))))))))))))))) :: ((Npos (XO
    (XI (XO (XO (XO (XO (XO (XO (XO (XO (XO (XO (XO (XO (XO (XO (XO (XO (XO
    (XO (XO (XO (XO (XO (XO (XO (XI (XO (XO (XO (XO
    XH)))))))))))))))))))))))))))))))) :: ((Npos (XO (XI (XO (XO (XO (XO (XO
    (XI (XO (XO (XO (XO (XO (XO (XO (XO (XO (XO (XO (XO (XO (XO (XO (XO (XO
    (XO (XI (XO (XO (XO (XO XH)))))))))))))))))))))))))))))))) :: ((Npos (XO
    (XI (XO (XO (XO (XO (XI (XO (XO (XO (XO (XO (XO (XO (XO (XO (XO (XO (XO
    (XO (XO (XO (XO (XO (XO (XO (XI (XO (XO (XO (XO
    XH)))))))))))))))))))))))))))))))) :: ((Npos (XO (XO (XI (XO (XO (XI (XI
    (XI (XO (XO (XO (XO (XO (XO (XO (XO (XO (XO (XO (XO (XO (XO (XO (XO (XO
    (XO (XI (XO (XI (XO (XO XH)))))))))))))))))))))))))))))))) :: ((Npos (XI
    (XO (XI (XO (XO (XO (XO (XO (XI (XO (XO (XO (XO (XO (XO (XO (XO (XO (XO
    (XO (XO (XO (XO (XO (XO (XO (XI (XO (XI (XI
    XH))))))))))))))))))))))))))))))) :: ((Npos (XO (XI (XO (XI (XI (XO (XI
    (XO (XO (XO (XO (XO (XO (XO (XO (XO (XO (XO (XO (XO (XO (XO (XO (XO (XO
    (XO (XI (XO (XO (XO (XO XH)))))))))))))))))))))))))))))))) :: ((Npos (XO
    (XI (XO (XI (XI (XO (XO (XO (XO (XO (XO (XO (XO (XO (XO (XO (XO (XO (XO
    (XO (XO (XO (XO (XO (XO (XO (XI (XO (XO (XO (XO
    XH)))))))))))))))))))))))))))))))) :: ((Npos (XO (XO (XI (XO (XI (XO (XO
    (XI (XO (XO (XO (XO (XO (XO (XO (XO (XO (XO (XO (XO (XO (XO (XO (XO (XO
    (XO (XI (XO (XI (XO (XO XH)))))))))))))))))))))))))))))))) :: ((Npos (XI
    (XO (XI (XI (XO (XO (XI (XO (XI (XO (XO (XO (XO (XO (XO (XO (XO (XO (XO
    (XO (XO (XO (XO (XO (XO (XO (XI (XO (XI (XI (XO
    XH)))))))))))))))))))))))))))))))) :: ((Npos (XO (XI (XO (XI (XI (XI (XI
    (XO (XO (XO (XO (XO (XO (XO (XO (XO (XO (XO (XO (XO (XO (XO (XO (XO (XO
    (XO (XI (XO (XO (XO (XO XH)))))))))))))))))))))))))))))))) :: ((Npos (XO
    (XI (XO (XI (XI (XI (XO (XO (XO (XO (XO (XO (XO (XO (XO (XO (XO (XO (XO
    (XO (XO (XO (XO (XO (XO (XO (XI (XO (XO (XO (XO
    XH)))))))))))))))))))))))))))))))) :: ((Npos (XO (XO (XI (XO (XI (XO (XI
    (XI (XO (XO (XO (XO (XO (XO (XO (XO (XO (XO (XO (XO (XO (XO (XO (XO (XO
    (XO (XI (XO (XI (XO (XO XH)))))))))))))))))))))))))))))))) :: ((Npos (XI
    (XO (XO (XO (XI (XO (XO (XO (XI (XO (XO (XO (XO (XO (XO (XO (XO (XO (XO
    (XO (XO (XO (XO (XO (XO (XO (XI (XO (XI (XO (XO
    XH)))))))))))))))))))))))))))))))) :: ((Npos (XO (XI (XO (XI (XO (XI (XI
    (XO (XO (XO (XO (XO (XO (XO (XO (XO (XO (XO (XO (XO (XO (XO (XO (XO (XO
    (XO (XI (XO (XO (XO (XO XH)))))))))))))))))))))))))))))))) :: ((Npos (XO
    (XI (XO (XI (XO (XI (XO (XO (XO (XO (XO (XO (XO (XO (XO (XO (XO (XO (XO
    (XO (XO (XO (XO (XO (XO (XO (XI (XO (XO (XO (XO
    XH)))))))))))))))))))))))))))))))) :: ((Npos (XO (XO (XI (XO (XI (XI (XO
    (XI (XO (XO (XO (XO (XO (XO (XO (XO (XO (XO (XO (XO (XO (XO (XO (XO (XO
    (XO (XI (XO (XI (XO (XO XH)))))))))))))))))))))))))))))))) :: ((Npos (XO
    (XI (XO (XI (XO (XO (XO (XO (XO (XO (XO (XO (XO (XO (XO (XO (XO (XO (XO
    (XO (XO (XO (XO (XO (XO (XO (XI (XO (XO (XO (XO
    XH)))))))))))))))))))))))))))))))) :: ((Npos (XO (XI (XO (XI (XO (XO (XO
    (XI (XO (XO (XO (XO (XO (XO (XO (XO (XO (XO (XO (XO (XO (XO (XO (XO (XO
    (XO (XI (XO (XO (XO (XO XH)))))))))))))))))))))))))))))))) :: ((Npos (XO
    (XI (XO (XI (XO (XO (XI (XO (XO (XO (XO (XO (XO (XO (XO (XO (XO (XO (XO
    (XO (XO (XO (XO (XO (XO (XO (XI (XO (XO (XO (XO
    XH)))))))))))))))))))))))))))))))) :: ((Npos (XO (XO (XI (XO (XI (XI (XI
    (XI (XO (XO (XO (XO (XO (XO (XO (XO (XO (XO (XO (XO (XO (XO (XO (XO (XO
    (XO (XI (XO (XI (XO (XO XH)))))))))))))))))))))))))))))))) :: ((Npos (XI
    (XI (XO (XO (XO (XO (XO (XO (XI (XO (XO (XO (XO (XO (XO (XO (XO (XO (XO
    (XO (XO (XO (XO (XO (XO (XO (XI (XO (XI (XI
    XH))))))))))))))))))))))))))))))) :: ((Npos (XO (XI (XI (XO (XI (XO (XI
    (XO (XO (XO (XO (XO (XO (XO (XO (XO (XO (XO (XO (XO (XO (XO (XO (XO (XO
    (XO (XI (XO (XO (XO (XO XH)))))))))))))))))))))))))))))))) :: ((Npos (XO
    (XI (XI (XO (XI (XO (XO (XO (XO (XO (XO (XO (XO (XO (XO (XO (XO (XO (XO
    (XO (XO (XO (XO (XO (XO (XO (XI (XO (XO (XO (XO
    XH)))))))))))))))))))))))))))))))) :: (N0 :: ((Npos (XI (XO (XI (XO (XI
    (XI (XO (XO (XI (XO (XO (XO (XO (XO (XO (XO (XO (XO (XO (XO (XO (XO (XO
    (XO (XO (XO (XI (XO (XO (XI (XO
    XH)))))))))))))))))))))))))))))))) :: ((Npos (XO (XI (XI (XO (XI (XI (XI
    (XO (XO (XO (XO (XO (XO (XO (XO (XO (XO (XO (XO (XO (XO (XO (XO (XO (XO
    (XO (XI (XO (XO (XO (XO XH)))))))))))))))))))))))))))))))) :: ((Npos (XO
    (XI (XI (XO (XI (XI (XO (XO (XO (XO (XO (XO (XO (XO (XO (XO (XO (XO (XO
    (XO (XO (XO (XO (XO (XO (XO (XI (XO (XO (XO (XO
    XH)))))))))))))))))))))))))))))))) :: ((Npos (XO (XO (XI (XI (XO (XO (XI
    (XI (XO (XO (XO (XO (XO (XO (XO (XO (XO (XO (XO (XO (XO (XO (XO (XO (XO
    (XO (XI (XO (XI (XO (XO XH)))))))))))))))))))))))))))))))) :: ((Npos (XI
    (XO (XI (XI (XO (XO (XO (XO (XI (XO (XO (XO (XO (XO (XO (XO (XO (XO (XO
    (XO (XO (XO (XO (XO (XO (XO (XI (XO (XO (XO (XO
    XH)))))))))))))))))))))))))))))))) :: ((Npos (XO (XI (XI (XO (XO (XI (XI
    (XO (XO (XO (XO (XO (XO (XO (XO (XO (XO (XO (XO (XO (XO (XO (XO (XO (XO
    (XO (XI (XO (XO (XO (XO XH)))))))))))))))))))))))))))))))) :: ((Npos (XO
    (XI (XI (XO (XO (XI (XO (XO (XO (XO (XO (XO (XO (XO (XO (XO (XO (XO (XO
    (XO (XO (XO (XO (XO (XO (XO (XI (XO (XO (XO (XO
    XH)))))))))))))))))))))))))))))))) :: ((Npos (XO (XO (XI (XI (XO (XI (XO
    (XI (XO (XO (XO (XO (XO (XO (XO (XO (XO (XO (XO (XO (XO (XO (XO (XO (XO
    (XO (XI (XO (XI (XO (XO XH)))))))))))))))))))))))))))))))) :: ((Npos (XO
    (XI (XI (XO (XO (XO (XO (XO (XO (XO (XO (XO (XO (XO (XO (XO (XO (XO (XO
    (XO (XO (XO (XO (XO (XO (XO (XI (XO (XO (XO (XO
    XH)))))))))))))))))))))))))))))))) :: ((Npos (XO (XI (XI (XO (XO (XO (XO
    (XI (XO (XO (XO (XO (XO (XO (XO (XO (XO (XO (XO (XO (XO (XO (XO (XO (XO
    (XO (XI (XO (XO (XO (XO XH)))))))))))))))))))))))))))))))) :: ((Npos (XO
    (XI (XI (XO (XO (XO (XI (XO (XO (XO (XO (XO (XO (XO (XO (XO (XO (XO (XO
    (XO (XO (XO (XO (XO (XO (XO (XI (XO (XO (XO (XO
    XH)))))))))))))))))))))))))))))))) :: ((Npos (XO (XO (XI (XI (XO (XI (XI
    (XI (XO (XO (XO (XO (XO (XO (XO (XO (XO (XO (XO (XO (XO (XO (XO (XO (XO
    (XO (XI (XO (XI (XO (XO XH)))))))))))))))))))))))))))))))) :: ((Npos (XI
    (XI (XI (XO (XO (XO (XO (XO (XI (XO (XO (XO (XO (XO (XO (XO (XO (XO (XO
    (XO (XO (XO (XO (XO (XO (XO (XI (XO (XI (XI
    XH))))))))))))))))))))))))))))))) :: ((Npos (XO (XI (XI (XI (XI (XO (XI
    (XO (XO (XO (XO (XO (XO (XO (XO (XO (XO (XO (XO (XO (XO (XO (XO (XO (XO
    (XO (XI (XO (XO (XO (XO XH)))))))))))))))))))))))))))))))) :: ((Npos (XO
    (XI (XI (XI (XI (XO (XO (XO (XO (XO (XO (XO (XO (XO (XO (XO (XO (XO (XO
    (XO (XO (XO (XO (XO (XO (XO (XI (XO (XO (XO (XO
    XH)))))))))))))))))))))))))))))))) :: ((Npos (XO (XO (XI (XI (XI (XO (XO
    (XI (XO (XO (XO (XO (XO (XO (XO (XO (XO (XO (XO (XO (XO (XO (XO (XO (XO
    (XO (XI (XO (XI (XO (XO XH)))))))))))))))))))))))))))))))) :: ((Npos (XI
    (XO (XI (XI (XO (XI (XI (XO (XI (XO (XO (XO (XO (XO (XO (XO (XO (XO (XO
    (XO (XO (XO (XO (XO (XO (XO (XI (XO (XI (XI (XO
    XH)))))))))))))))))))))))))))))))) :: ((Npos (XO (XI (XI (XI (XI (XI (XI
    (XO (XO (XO (XO (XO (XO (XO (XO (XO (XO (XO (XO (XO (XO (XO (XO (XO (XO
    (XO (XI (XO (XO (XO (XO XH)))))))))))))))))))))))))))))))) :: ((Npos (XO
    (XI (XI (XI (XI (XI (XO (XO (XO (XO (XO (XO (XO (XO (XO (XO (XO (XO (XO
    (XO (XO (XO (XO (XO (XO (XO (XI (XO (XO (XO (XO
    XH)))))))))))))))))))))))))))))))) :: ((Npos (XO (XO (XI (XI (XI (XO (XI
    (XI (XO (XO (XO (XO (XO (XO (XO (XO (XO (XO (XO (XO (XO (XO (XO (XO (XO
    (XO (XI (XO (XI (XO (XO XH)))))))))))))))))))))))))))))))) :: ((Npos (XI
    (XO (XO (XI (XI (XO (XO (XO (XI (XO (XO (XO (XO (XO (XO (XO (XO (XO (XO
    (XO (XO (XO (XO (XO (XO (XO (XI (XO (XI (XO (XO
    XH)))))))))))))))))))))))))))))))) :: ((Npos (XO (XI (XI (XI (XO (XI (XI
    (XO (XO (XO (XO (XO (XO (XO (XO (XO (XO (XO (XO (XO (XO (XO (XO (XO (XO
    (XO (XI (XO (XO (XO (XO XH)))))))))))))))))))))))))))))))) :: ((Npos (XO
    (XI (XI (XI (XO (XI (XO (XO (XO (XO (XO (XO (XO (XO (XO (XO (XO (XO (XO
    (XO (XO (XO (XO (XO (XO (XO (XI (XO (XO (XO (XO
    XH)))))))))))))))))))))))))))))))) :: ((Npos (XO (XO (XI (XI (XI (XI (XO
    (XI (XO (XO (XO (XO (XO (XO (XO (XO (XO (XO (XO (XO (XO (XO (XO (XO (XO
    (XO (XI (XO (XI (XO (XO XH)))))))))))))))))))))))))))))))) :: ((Npos (XO
    (XI (XI (XI (XO (XO (XO (XO (XO (XO (XO (XO (XO (XO (XO (XO (XO (XO (XO
    (XO (XO (XO (XO (XO (XO (XO (XI (XO (XO (XO (XO
    XH)))))))))))))))))))))))))))))))) :: ((Npos (XO (XI (XI (XI (XO (XO (XO
    (XI (XO (XO (XO (XO (XO (XO (XO (XO (XO (XO (XO (XO (XO (XO (XO (XO (XO
    (XO (XI (XO (XO (XO (XO XH)))))))))))))))))))))))))))))))) :: ((Npos (XO
    (XI (XI (XI (XO (XO (XI (XO (XO (XO (XO (XO (XO (XO (XO (XO (XO (XO (XO
    (XO (XO (XO (XO (XO (XO (XO (XI (XO (XO (XO (XO
    XH)))))))))))))))))))))))))))))))) :: ((Npos (XO (XO (XI (XI (XI (XI (XI
    (XI (XO (XO (XO (XO (XO (XO (XO (XO (XO (XO (XO (XO (XO (XO (XO (XO (XO
    (XO (XI (XO (XI (XO (XO XH)))))))))))))))))))))))))))))))) :: ((Npos (XO
    (XO (XO (XO (XO (XO (XO (XO (XI (XO (XO (XO (XO (XO (XO (XO (XO (XO (XO
    (XO (XO (XO (XO (XO (XO (XO (XI (XO (XI (XI
    XH))))))))))))))))))))))))))))))) :: ((Npos (XI (XO (XO (XO (XI (XO (XI
    (XO (XO (XO (XO (XO (XO (XO (XO (XO (XO (XO (XO (XO (XO (XO (XO (XO (XO
    (XO (XI (XO (XO (XO (XO XH)))))))))))))))))))))))))))))))) :: ((Npos (XI
    (XO (XO (XO (XI (XO (XO (XO (XO (XO (XO (XO (XO (XO (XO (XO (XO (XO (XO
    (XO (XO (XO (XO (XO (XO (XO (XI (XO (XO (XO (XO
    XH)))))))))))))))))))))))))))))))) :: ((Npos (XO (XO (XI (XI (XO (XO (XO
    (XO (XO (XO (XO (XO (XO (XO (XO (XO (XO (XO (XO (XO (XO (XO (XO (XO (XO
    (XI (XI (XO (XI XH)))))))))))))))))))))))))))))) :: ((Npos (XO (XI (XI
    (XI (XI (XO (XO (XO (XI (XO (XO (XO (XO (XO (XO (XO (XO (XO (XO (XO (XO
    (XO (XO (XO (XO (XO (XI (XO (XI (XO (XO
    XH)))))))))))))))))))))))))))))))) :: ((Npos (XI (XO (XO (XO (XI (XI (XI
    (XO (XO (XO (XO (XO (XO (XO (XO (XO (XO (XO (XO (XO (XO (XO (XO (XO (XO
    (XO (XI (XO (XO (XO (XO XH)))))))))))))))))))))))))))))))) :: ((Npos (XI
    (XO (XO (XO (XI (XI (XO (XO (XO (XO (XO (XO (XO (XO (XO (XO (XO (XO (XO
    (XO (XO (XO (XO (XO (XO (XO (XI (XO (XO (XO (XO
    XH)))))))))))))))))))))))))))))))) :: ((Npos (XO (XI (XO (XO (XO (XO (XI
    (XI (XO (XO (XO (XO (XO (XO (XO (XO (XO (XO (XO (XO (XO (XO (XO (XO (XO
    (XO (XI (XO (XI (XO (XO XH)))))))))))))))))))))))))))))))) :: ((Npos (XO
    (XO (XO (XI (XO (XO (XO (XO (XI (XO (XO (XO (XO (XO (XO (XO (XO (XO (XO
    (XO (XO (XO (XO (XO (XO (XO (XI (XO (XI (XI
    XH))))))))))))))))))))))))))))))) :: ((Npos (XI (XO (XO (XO (XO (XI (XI
    (XO (XO (XO (XO (XO (XO (XO (XO (XO (XO (XO (XO (XO (XO (XO (XO (XO (XO
    (XO (XI (XO (XO (XO (XO XH)))))))))))))))))))))))))))))))) :: ((Npos (XI
    (XO (XO (XO (XO (XI (XO (XO (XO (XO (XO (XO (XO (XO (XO (XO (XO (XO (XO
    (XO (XO (XO (XO (XO (XO (XO (XI (XO (XO (XO (XO
    XH)))))))))))))))))))))))))))))))) :: ((Npos (XO (XI (XO (XO (XO (XI (XO
    (XI (XO (XO (XO (XO (XO (XO (XO (XO (XO (XO (XO (XO (XO (XO (XO (XO (XO
    (XO (XI (XO (XI (XO (XO XH)))))))))))))))))))))))))))))))) :: ((Npos (XI
    (XO (XO (XO (XO (XO (XO (XO (XO (XO (XO (XO (XO (XO (XO (XO (XO (XO (XO
    (XO (XO (XO (XO (XO (XO (XO (XI (XO (XO (XO (XO
    XH)))))))))))))))))))))))))))))))) :: ((Npos (XI (XO (XO (XO (XO (XO (XO
    (XI (XO (XO (XO (XO (XO (XO (XO (XO (XO (XO (XO (XO (XO (XO (XO (XO (XO
    (XO (XI (XO (XO (XO (XO XH)))))))))))))))))))))))))))))))) :: ((Npos (XI
    (XO (XO (XO (XO (XO (XI (XO (XO (XO (XO (XO (XO (XO (XO (XO (XO (XO (XO
    (XO (XO (XO (XO (XO (XO (XO (XI (XO (XO (XO (XO
    XH)))))))))))))))))))))))))))))))) :: ((Npos (XO (XI (XO (XO (XO (XI (XI
    (XI (XO (XO (XO (XO (XO (XO (XO (XO (XO (XO (XO (XO (XO (XO (XO (XO (XO
    (XO (XI (XO (XI (XO (XO XH)))))))))))))))))))))))))))))))) :: ((Npos (XO
    (XO (XI (XO (XO (XO (XO (XO (XI (XO (XO (XO (XO (XO (XO (XO (XO (XO (XO
    (XO (XO (XO (XO (XO (XO (XO (XI (XO (XI (XI
    XH))))))))))))))))))))))))))))))) :: ((Npos (XI (XO (XO (XI (XI (XO (XI
    (XO (XO (XO (XO (XO (XO (XO (XO (XO (XO (XO (XO (XO (XO (XO (XO (XO (XO
    (XO (XI (XO (XO (XO (XO XH)))))))))))))))))))))))))))))))) :: ((Npos (XI
    (XO (XO (XI (XI (XO (XO (XO (XO (XO (XO (XO (XO (XO (XO (XO (XO (XO (XO
    (XO (XO (XO (XO (XO (XO (XO (XI (XO (XO (XO (XO
    XH)))))))))))))))))))))))))))))))) :: ((Npos (XO (XI (XO (XO (XI (XO (XO
    (XI (XO (XO (XO (XO (XO (XO (XO (XO (XO (XO (XO (XO (XO (XO (XO (XO (XO
    (XO (XI (XO (XI (XO (XO XH)))))))))))))))))))))))))))))))) :: ((Npos (XO
    (XI (XI (XI (XI (XI (XO (XO (XI (XO (XO (XO (XO (XO (XO (XO (XO (XO (XO
    (XO (XO (XO (XO (XO (XO (XO (XI (XO (XO (XI (XO
    XH)))))))))))))))))))))))))))))))) :: ((Npos (XI (XO (XO (XI (XI (XI (XI
    (XO (XO (XO (XO (XO (XO (XO (XO (XO (XO (XO (XO (XO (XO (XO (XO (XO (XO
    (XO (XI (XO (XO (XO (XO XH)))))))))))))))))))))))))))))))) :: ((Npos (XI
    (XO (XO (XI (XI (XI (XO (XO (XO (XO (XO (XO (XO (XO (XO (XO (XO (XO (XO
    (XO (XO (XO (XO (XO (XO (XO (XI (XO (XO (XO (XO
    XH)))))))))))))))))))))))))))))))) :: ((Npos (XO (XI (XO (XO (XI (XO (XI
    (XI (XO (XO (XO (XO (XO (XO (XO (XO (XO (XO (XO (XO (XO (XO (XO (XO (XO
    (XO (XI (XO (XI (XO (XO XH)))))))))))))))))))))))))))))))) :: ((Npos (XO
    (XO (XO (XO (XI (XO (XO (XO (XI (XO (XO (XO (XO (XO (XO (XO (XO (XO (XO
    (XO (XO (XO (XO (XO (XO (XO (XI (XO (XO (XO (XO
    XH)))))))))))))))))))))))))))))))) :: ((Npos (XI (XO (XO (XI (XO (XI (XI
    (XO (XO (XO (XO (XO (XO (XO (XO (XO (XO (XO (XO (XO (XO (XO (XO (XO (XO
    (XO (XI (XO (XO (XO (XO XH)))))))))))))))))))))))))))))))) :: ((Npos (XI
    (XO (XO (XI (XO (XI (XO (XO (XO (XO (XO (XO (XO (XO (XO (XO (XO (XO (XO
    (XO (XO (XO (XO (XO (XO (XO (XI (XO (XO (XO (XO
    XH)))))))))))))))))))))))))))))))) :: ((Npos (XO (XI (XO (XO (XI (XI (XO
    (XI (XO (XO (XO (XO (XO (XO (XO (XO (XO (XO (XO (XO (XO (XO (XO (XO (XO
    (XO (XI (XO (XI (XO (XO XH)))))))))))))))))))))))))))))))) :: ((Npos (XI
    (XO (XO (XI (XO (XO (XO (XO (XO (XO (XO (XO (XO (XO (XO (XO (XO (XO (XO
    (XO (XO (XO (XO (XO (XO (XO (XI (XO (XO (XO (XO
    XH)))))))))))))))))))))))))))))))) :: ((Npos (XI (XO (XO (XI (XO (XO (XO
    (XI (XO (XO (XO (XO (XO (XO (XO (XO (XO (XO (XO (XO (XO (XO (XO (XO (XO
    (XO (XI (XO (XO (XO (XO XH)))))))))))))))))))))))))))))))) :: ((Npos (XI
    (XO (XO (XI (XO (XO (XI (XO (XO (XO (XO (XO (XO (XO (XO (XO (XO (XO (XO
    (XO (XO (XO (XO (XO (XO (XO (XI (XO (XO (XO (XO
    XH)))))))))))))))))))))))))))))))) :: ((Npos (XO (XI (XO (XO (XI (XI (XI
    (XI (XO (XO (XO (XO (XO (XO (XO (XO (XO (XO (XO (XO (XO (XO (XO (XO (XO
    (XO (XI (XO (XI (XO (XO XH)))))))))))))))))))))))))))))))) :: ((Npos (XO
    (XI (XO (XO (XO (XO (XO (XO (XI (XO (XO (XO (XO (XO (XO (XO (XO (XO (XO
    (XO (XO (XO (XO (XO (XO (XO (XI (XO (XI (XI
    XH))))))))))))))))))))))))))))))) :: ((Npos (XI (XO (XI (XO (XI (XO (XI
    (XO (XO (XO (XO (XO (XO (XO (XO (XO (XO (XO (XO (XO (XO (XO (XO (XO (XO
    (XO (XI (XO (XO (XO (XO XH)))))))))))))))))))))))))))))))) :: ((Npos (XI
    (XO (XI (XO (XI (XO (XO (XO (XO (XO (XO (XO (XO (XO (XO (XO (XO (XO (XO
    (XO (XO (XO (XO (XO (XO (XO (XI (XO (XO (XO (XO
    XH)))))))))))))))))))))))))))))))) :: ((Npos (XO (XO (XO (XO (XO (XO (XO
    (XO (XO (XI (XO (XO (XO (XO (XO (XO (XO (XO (XO (XO (XO (XO (XO (XO (XO
    (XO (XI (XO (XO (XO (XO XH)))))))))))))))))))))))))))))))) :: ((Npos (XO
    (XI (XI (XI (XO (XI (XO (XO (XI (XO (XO (XO (XO (XO (XO (XO (XO (XO (XO
    (XO (XO (XO (XO (XO (XO (XO (XI (XO (XO (XI (XO
    XH)))))))))))))))))))))))))))))))) :: ((Npos (XI (XO (XI (XO (XI (XI (XI
    (XO (XO (XO (XO (XO (XO (XO (XO (XO (XO (XO (XO (XO (XO (XO (XO (XO (XO
    (XO (XI (XO (XO (XO (XO XH)))))))))))))))))))))))))))))))) :: ((Npos (XI
    (XO (XI (XO (XI (XI (XO (XO (XO (XO (XO (XO (XO (XO (XO (XO (XO (XO (XO
    (XO (XO (XO (XO (XO (XO (XO (XI (XO (XO (XO (XO
    XH)))))))))))))))))))))))))))))))) :: ((Npos (XO (XI (XO (XI (XO (XO (XI
    (XI (XO (XO (XO (XO (XO (XO (XO (XO (XO (XO (XO (XO (XO (XO (XO (XO (XO
    (XO (XI (XO (XI (XO (XO XH)))))))))))))))))))))))))))))))) :: ((Npos (XO
    (XO (XI (XI (XO (XO (XO (XO (XI (XO (XO (XO (XO (XO (XO (XO (XO (XO (XO
    (XO (XO (XO (XO (XO (XO (XO (XI (XO (XO (XO (XO
    XH)))))))))))))))))))))))))))))))) :: ((Npos (XI (XO (XI (XO (XO (XI (XI
    (XO (XO (XO (XO (XO (XO (XO (XO (XO (XO (XO (XO (XO (XO (XO (XO (XO (XO
    (XO (XI (XO (XO (XO (XO XH)))))))))))))))))))))))))))))))) :: ((Npos (XI
    (XO (XI (XO (XO (XI (XO (XO (XO (XO (XO (XO (XO (XO (XO (XO (XO (XO (XO
    (XO (XO (XO (XO (XO (XO (XO (XI (XO (XO (XO (XO
    XH)))))))))))))))))))))))))))))))) :: ((Npos (XO (XI (XO (XI (XO (XI (XO
    (XI (XO (XO (XO (XO (XO (XO (XO (XO (XO (XO (XO (XO (XO (XO (XO (XO (XO
    (XO (XI (XO (XI (XO (XO XH)))))))))))))))))))))))))))))))) :: ((Npos (XI
    (XO (XI (XO (XO (XO (XO (XO (XO (XO (XO (XO (XO (XO (XO (XO (XO (XO (XO
    (XO (XO (XO (XO (XO (XO (XO (XI (XO (XO (XO (XO
    XH)))))))))))))))))))))))))))))))) :: ((Npos (XI (XO (XI (XO (XO (XO (XO
    (XI (XO (XO (XO (XO (XO (XO (XO (XO (XO (XO (XO (XO (XO (XO (XO (XO (XO
    (XO (XI (XO (XO (XO (XO XH)))))))))))))))))))))))))))))))) :: ((Npos (XI
    (XO (XI (XO (XO (XO (XI (XO (XO (XO (XO (XO (XO (XO (XO (XO (XO (XO (XO
    (XO (XO (XO (XO (XO (XO (XO (XI (XO (XO (XO (XO
    XH)))))))))))))))))))))))))))))))) :: ((Npos (XO (XI (XO (XI (XO (XI (XI
    (XI (XO (XO (XO (XO (XO (XO (XO (XO (XO (XO (XO (XO (XO (XO (XO (XO (XO
    (XO (XI (XO (XI (XO (XO XH)))))))))))))))))))))))))))))))) :: ((Npos (XO
    (XI (XI (XO (XO (XO (XO (XO (XI (XO (XO (XO (XO (XO (XO (XO (XO (XO (XO
    (XO (XO (XO (XO (XO (XO (XO (XI (XO (XI (XI
    XH))))))))))))))))))))))))))))))) :: ((Npos (XI (XO (XI (XI (XI (XO (XI
    (XO (XO (XO (XO (XO (XO (XO (XO (XO (XO (XO (XO (XO (XO (XO (XO (XO (XO
    (XO (XI (XO (XO (XO (XO XH)))))))))))))))))))))))))))))))) :: ((Npos (XI
    (XO (XI (XI (XI (XO (XO (XO (XO (XO (XO (XO (XO (XO (XO (XO (XO (XO (XO
    (XO (XO (XO (XO (XO (XO (XO (XI (XO (XO (XO (XO
    XH)))))))))))))))))))))))))))))))) :: ((Npos (XO (XI (XO (XI (XI (XO (XO
    (XI (XO (XO (XO (XO (XO (XO (XO (XO (XO (XO (XO (XO (XO (XO (XO (XO (XO
    (XO (XI (XO (XI (XO (XO XH)))))))))))))))))))))))))))))))) :: ((Npos (XO
    (XI (XI (XI (XI (XO (XI (XO (XI (XO (XO (XO (XO (XO (XO (XO (XO (XO (XO
    (XO (XO (XO (XO (XO (XO (XO (XI (XO (XI (XI (XO
    XH)))))))))))))))))))))))))))))))) :: ((Npos (XI (XO (XI (XI (XI (XI (XI
    (XO (XO (XO (XO (XO (XO (XO (XO (XO (XO (XO (XO (XO (XO (XO (XO (XO (XO
    (XO (XI (XO (XO (XO (XO XH)))))))))))))))))))))))))))))))) :: ((Npos (XI
    (XO (XI (XI (XI (XI (XO (XO (XO (XO (XO (XO (XO (XO (XO (XO (XO (XO (XO
    (XO (XO (XO (XO (XO (XO (XO (XI (XO (XO (XO (XO
    XH)))))))))))))))))))))))))))))))) :: ((Npos (XO (XI (XO (XI (XI (XO (XI
    (XI (XO (XO (XO (XO (XO (XO (XO (XO (XO (XO (XO (XO (XO (XO (XO (XO (XO
    (XO (XI (XO (XI (XO (XO XH)))))))))))))))))))))))))))))))) :: ((Npos (XO
    (XI (XI (XO (XI (XO (XO (XO (XI (XO (XO (XO (XO (XO (XO (XO (XO (XO (XO
    (XO (XO (XO (XO (XO (XO (XO (XI (XO (XI (XO (XO
    XH)))))))))))))))))))))))))))))))) :: ((Npos (XI (XO (XI (XI (XO (XI (XI
    (XO (XO (XO (XO (XO (XO (XO (XO (XO (XO (XO (XO (XO (XO (XO (XO (XO (XO
    (XO (XI (XO (XO (XO (XO XH)))))))))))))))))))))))))))))))) :: ((Npos (XI
    (XO (XI (XI (XO (XI (XO (XO (XO (XO (XO (XO (XO (XO (XO (XO (XO (XO (XO
    (XO (XO (XO (XO (XO (XO (XO (XI (XO (XO (XO (XO
    XH)))))))))))))))))))))))))))))))) :: ((Npos (XO (XI (XO (XI (XI (XI (XO
    (XI (XO (XO (XO (XO (XO (XO (XO (XO (XO (XO (XO (XO (XO (XO (XO (XO (XO
    (XO (XI (XO (XI (XO (XO XH)))))))))))))))))))))))))))))))) :: ((Npos (XI
    (XO (XI (XI (XO (XO (XO (XO (XO (XO (XO (XO (XO (XO (XO (XO (XO (XO (XO
    (XO (XO (XO (XO (XO (XO (XO (XI (XO (XO (XO (XO
    XH)))))))))))))))))))))))))))))))) :: ((Npos (XI (XO (XI (XI (XO (XO (XO
    (XI (XO (XO (XO (XO (XO (XO (XO (XO (XO (XO (XO (XO (XO (XO (XO (XO (XO
    (XO (XI (XO (XO (XO (XO XH)))))))))))))))))))))))))))))))) :: ((Npos (XI
    (XO (XI (XI (XO (XO (XI (XO (XO (XO (XO (XO (XO (XO (XO (XO (XO (XO (XO
    (XO (XO (XO (XO (XO (XO (XO (XI (XO (XO (XO (XO
    XH)))))))))))))))))))))))))))))))) :: ((Npos (XO (XI (XO (XI (XI (XI (XI
    (XI (XO (XO (XO (XO (XO (XO (XO (XO (XO (XO (XO (XO (XO (XO (XO (XO (XO
    (XO (XI (XO (XI (XO (XO XH)))))))))))))))))))))))))))))))) :: ((Npos (XI
    (XO (XO (XO (XO (XO (XO (XO (XI (XO (XO (XO (XO (XO (XO (XO (XO (XO (XO
    (XO (XO (XO (XO (XO (XO (XO (XI (XO (XI (XI
    XH))))))))))))))))))))))))))))))) :: ((Npos (XI (XI (XO (XO (XI (XO (XI
    (XO (XO (XO (XO (XO (XO (XO (XO (XO (XO (XO (XO (XO (XO (XO (XO (XO (XO
    (XO (XI (XO (XO (XO (XO XH)))))))))))))))))))))))))))))))) :: ((Npos (XI
    (XI (XO (XO (XI (XO (XO (XO (XO (XO (XO (XO (XO (XO (XO (XO (XO (XO (XO
    (XO (XO (XO (XO (XO (XO (XO (XI (XO (XO (XO (XO
    XH)))))))))))))))))))))))))))))))) :: ((Npos (XO (XO (XI (XI (XO (XO (XI
    (XO (XO (XO (XO (XO (XO (XO (XO (XO (XO (XO (XO (XO (XO (XO (XO (XO (XO
    (XI (XI (XO (XI XH)))))))))))))))))))))))))))))) :: ((Npos (XO (XI (XI
    (XO (XO (XI (XO (XO (XI (XO (XO (XO (XO (XO (XO (XO (XO (XO (XO (XO (XO
    (XO (XO (XO (XO (XO (XI (XO (XO (XI (XO
    XH)))))))))))))))))))))))))))))))) :: ((Npos (XI (XI (XO (XO (XI (XI (XI
    (XO (XO (XO (XO (XO (XO (XO (XO (XO (XO (XO (XO (XO (XO (XO (XO (XO (XO
    (XO (XI (XO (XO (XO (XO XH)))))))))))))))))))))))))))))))) :: ((Npos (XI
    (XI (XO (XO (XI (XI (XO (XO (XO (XO (XO (XO (XO (XO (XO (XO (XO (XO (XO
    (XO (XO (XO (XO (XO (XO (XO (XI (XO (XO (XO (XO
    XH)))))))))))))))))))))))))))))))) :: ((Npos (XO (XI (XI (XO (XO (XO (XI
    (XI (XO (XO (XO (XO (XO (XO (XO (XO (XO (XO (XO (XO (XO (XO (XO (XO (XO
    (XO (XI (XO (XI (XO (XO XH)))))))))))))))))))))))))))))))) :: ((Npos (XO
    (XI (XO (XI (XO (XO (XO (XO (XI (XO (XO (XO (XO (XO (XO (XO (XO (XO (XO
    (XO (XO (XO (XO (XO (XO (XO (XI (XO (XO (XO (XO
    XH)))))))))))))))))))))))))))))))) :: ((Npos (XI (XI (XO (XO (XO (XI (XI
    (XO (XO (XO (XO (XO (XO (XO (XO (XO (XO (XO (XO (XO (XO (XO (XO (XO (XO
    (XO (XI (XO (XO (XO (XO XH)))))))))))))))))))))))))))))))) :: ((Npos (XI
    (XI (XO (XO (XO (XI (XO (XO (XO (XO (XO (XO (XO (XO (XO (XO (XO (XO (XO
    (XO (XO (XO (XO (XO (XO (XO (XI (XO (XO (XO (XO
    XH)))))))))))))))))))))))))))))))) :: ((Npos (XO (XI (XI (XO (XO (XI (XO
    (XI (XO (XO (XO (XO (XO (XO (XO (XO (XO (XO (XO (XO (XO (XO (XO (XO (XO
    (XO (XI (XO (XI (XO (XO XH)))))))))))))))))))))))))))))))) :: ((Npos (XI
    (XI (XO (XO (XO (XO (XO (XO (XO (XO (XO (XO (XO (XO (XO (XO (XO (XO (XO
    (XO (XO (XO (XO (XO (XO (XO (XI (XO (XO (XO (XO
    XH)))))))))))))))))))))))))))))))) :: ((Npos (XI (XI (XO (XO (XO (XO (XO
    (XI (XO (XO (XO (XO (XO (XO (XO (XO (XO (XO (XO (XO (XO (XO (XO (XO (XO
    (XO (XI (XO (XO (XO (XO XH)))))))))))))))))))))))))))))))) :: ((Npos (XI
    (XI (XO (XO (XO (XO (XI (XO (XO (XO (XO (XO (XO (XO (XO (XO (XO (XO (XO
    (XO (XO (XO (XO (XO (XO (XO (XI (XO (XO (XO (XO
    XH)))))))))))))))))))))))))))))))) :: ((Npos (XO (XI (XI (XO (XO (XI (XI
    (XI (XO (XO (XO (XO (XO (XO (XO (XO (XO (XO (XO (XO (XO (XO (XO (XO (XO
    (XO (XI (XO (XI (XO (XO XH)))))))))))))))))))))))))))))))) :: ((Npos (XI
    (XO (XI (XO (XO (XO (XO (XO (XI (XO (XO (XO (XO (XO (XO (XO (XO (XO (XO
    (XO (XO (XO (XO (XO (XO (XO (XI (XO (XI (XI
    XH))))))))))))))))))))))))))))))) :: ((Npos (XI (XI (XO (XI (XI (XO (XI
    (XO (XO (XO (XO (XO (XO (XO (XO (XO (XO (XO (XO (XO (XO (XO (XO (XO (XO
    (XO (XI (XO (XO (XO (XO XH)))))))))))))))))))))))))))))))) :: ((Npos (XI
    (XI (XO (XI (XI (XO (XO (XO (XO (XO (XO (XO (XO (XO (XO (XO (XO (XO (XO
    (XO (XO (XO (XO (XO (XO (XO (XI (XO (XO (XO (XO
    XH)))))))))))))))))))))))))))))))) :: ((Npos (XO (XI (XI (XO (XI (XO (XO
    (XI (XO (XO (XO (XO (XO (XO (XO (XO (XO (XO (XO (XO (XO (XO (XO (XO (XO
    (XO (XI (XO (XI (XO (XO XH)))))))))))))))))))))))))))))))) :: ((Npos (XO
    (XI (XI (XI (XO (XO (XI (XO (XI (XO (XO (XO (XO (XO (XO (XO (XO (XO (XO
    (XO (XO (XO (XO (XO (XO (XO (XI (XO (XI (XI (XO
    XH)))))))))))))))))))))))))))))))) :: ((Npos (XI (XI (XO (XI (XI (XI (XI
    (XO (XO (XO (XO (XO (XO (XO (XO (XO (XO (XO (XO (XO (XO (XO (XO (XO (XO
    (XO (XI (XO (XO (XO (XO XH)))))))))))))))))))))))))))))))) :: ((Npos (XI
    (XI (XO (XI (XI (XI (XO (XO (XO (XO (XO (XO (XO (XO (XO (XO (XO (XO (XO
    (XO (XO (XO (XO (XO (XO (XO (XI (XO (XO (XO (XO
    XH)))))))))))))))))))))))))))))))) :: ((Npos (XO (XI (XI (XO (XI (XO (XI
    (XI (XO (XO (XO (XO (XO (XO (XO (XO (XO (XO (XO (XO (XO (XO (XO (XO (XO
    (XO (XI (XO (XI (XO (XO XH)))))))))))))))))))))))))))))))) :: ((Npos (XO
    (XI (XO (XO (XI (XO (XO (XO (XI (XO (XO (XO (XO (XO (XO (XO (XO (XO (XO
    (XO (XO (XO (XO (XO (XO (XO (XI (XO (XI (XO (XO
    XH)))))))))))))))))))))))))))))))) :: ((Npos (XI (XI (XO (XI (XO (XI (XI
    (XO (XO (XO (XO (XO (XO (XO (XO (XO (XO (XO (XO (XO (XO (XO (XO (XO (XO
    (XO (XI (XO (XO (XO (XO XH)))))))))))))))))))))))))))))))) :: ((Npos (XI
    (XI (XO (XI (XO (XI (XO (XO (XO (XO (XO (XO (XO (XO (XO (XO (XO (XO (XO
    (XO (XO (XO (XO (XO (XO (XO (XI (XO (XO (XO (XO
    XH)))))))))))))))))))))))))))))))) :: ((Npos (XO (XI (XI (XO (XI (XI (XO
    (XI (XO (XO (XO (XO (XO (XO (XO (XO (XO (XO (XO (XO (XO (XO (XO (XO (XO
    (XO (XI (XO (XI (XO (XO XH)))))))))))))))))))))))))))))))) :: ((Npos (XI
    (XI (XO (XI (XO (XO (XO (XO (XO (XO (XO (XO (XO (XO (XO (XO (XO (XO (XO
    (XO (XO (XO (XO (XO (XO (XO (XI (XO (XO (XO (XO
    XH)))))))))))))))))))))))))))))))) :: ((Npos (XI (XI (XO (XI (XO (XO (XO
    (XI (XO (XO (XO (XO (XO (XO (XO (XO (XO (XO (XO (XO (XO (XO (XO (XO (XO
    (XO (XI (XO (XO (XO (XO XH)))))))))))))))))))))))))))))))) :: ((Npos (XI
    (XI (XO (XI (XO (XO (XI (XO (XO (XO (XO (XO (XO (XO (XO (XO (XO (XO (XO
    (XO (XO (XO (XO (XO (XO (XO (XI (XO (XO (XO (XO
    XH)))))))))))))))))))))))))))))))) :: ((Npos (XO (XI (XI (XO (XI (XI (XI
    (XI (XO (XO (XO (XO (XO (XO (XO (XO (XO (XO (XO (XO (XO (XO (XO (XO (XO
    (XO (XI (XO (XI (XO (XO XH)))))))))))))))))))))))))))))))) :: ((Npos (XI
    (XI (XO (XO (XO (XO (XO (XO (XI (XO (XO (XO (XO (XO (XO (XO (XO (XO (XO
    (XO (XO (XO (XO (XO (XO (XO (XI (XO (XI (XI
    XH))))))))))))))))))))))))))))))) :: ((Npos (XI (XI (XI (XO (XI (XO (XI
    (XO (XO (XO (XO (XO (XO (XO (XO (XO (XO (XO (XO (XO (XO (XO (XO (XO (XO
    (XO (XI (XO (XO (XO (XO XH)))))))))))))))))))))))))))))))) :: ((Npos (XI
    (XI (XI (XO (XI (XO (XO (XO (XO (XO (XO (XO (XO (XO (XO (XO (XO (XO (XO
    (XO (XO (XO (XO (XO (XO (XO (XI (XO (XO (XO (XO
    XH)))))))))))))))))))))))))))))))) :: (N0 :: ((Npos (XO (XI (XI (XO (XI
    (XI (XO (XO (XI (XO (XO (XO (XO (XO (XO (XO (XO (XO (XO (XO (XO (XO (XO
    (XO (XO (XO (XI (XO (XO (XI (XO
    XH)))))))))))))))))))))))))))))))) :: ((Npos (XI (XI (XI (XO (XI (XI (XI
    (XO (XO (XO (XO (XO (XO (XO (XO (XO (XO (XO (XO (XO (XO (XO (XO (XO (XO
    (XO (XI (XO (XO (XO (XO XH)))))))))))))))))))))))))))))))) :: ((Npos (XI
    (XI (XI (XO (XI (XI (XO (XO (XO (XO (XO (XO (XO (XO (XO (XO (XO (XO (XO
    (XO (XO (XO (XO (XO (XO (XO (XI (XO (XO (XO (XO
    XH)))))))))))))))))))))))))))))))) :: ((Npos (XO (XI (XI (XI (XO (XO (XI
    (XI (XO (XO (XO (XO (XO (XO (XO (XO (XO (XO (XO (XO (XO (XO (XO (XO (XO
    (XO (XI (XO (XI (XO (XO XH)))))))))))))))))))))))))))))))) :: ((Npos (XO
    (XI (XI (XI (XO (XO (XO (XO (XI (XO (XO (XO (XO (XO (XO (XO (XO (XO (XO
    (XO (XO (XO (XO (XO (XO (XO (XI (XO (XO (XO (XO
    XH)))))))))))))))))))))))))))))))) :: ((Npos (XI (XI (XI (XO (XO (XI (XI
    (XO (XO (XO (XO (XO (XO (XO (XO (XO (XO (XO (XO (XO (XO (XO (XO (XO (XO
    (XO (XI (XO (XO (XO (XO XH)))))))))))))))))))))))))))))))) :: ((Npos (XI
    (XI (XI (XO (XO (XI (XO (XO (XO (XO (XO (XO (XO (XO (XO (XO (XO (XO (XO
    (XO (XO (XO (XO (XO (XO (XO (XI (XO (XO (XO (XO
    XH)))))))))))))))))))))))))))))))) :: ((Npos (XO (XI (XI (XI (XO (XI (XO
    (XI (XO (XO (XO (XO (XO (XO (XO (XO (XO (XO (XO (XO (XO (XO (XO (XO (XO
    (XO (XI (XO (XI (XO (XO XH)))))))))))))))))))))))))))))))) :: ((Npos (XI
    (XI (XI (XO (XO (XO (XO (XO (XO (XO (XO (XO (XO (XO (XO (XO (XO (XO (XO
    (XO (XO (XO (XO (XO (XO (XO (XI (XO (XO (XO (XO
    XH)))))))))))))))))))))))))))))))) :: ((Npos (XI (XI (XI (XO (XO (XO (XO
    (XI (XO (XO (XO (XO (XO (XO (XO (XO (XO (XO (XO (XO (XO (XO (XO (XO (XO
    (XO (XI (XO (XO (XO (XO XH)))))))))))))))))))))))))))))))) :: ((Npos (XI
    (XI (XI (XO (XO (XO (XI (XO (XO (XO (XO (XO (XO (XO (XO (XO (XO (XO (XO
    (XO (XO (XO (XO (XO (XO (XO (XI (XO (XO (XO (XO
    XH)))))))))))))))))))))))))))))))) :: ((Npos (XO (XI (XI (XI (XO (XI (XI
    (XI (XO (XO (XO (XO (XO (XO (XO (XO (XO (XO (XO (XO (XO (XO (XO (XO (XO
    (XO (XI (XO (XI (XO (XO XH)))))))))))))))))))))))))))))))) :: ((Npos (XI
    (XI (XI (XO (XO (XO (XO (XO (XI (XO (XO (XO (XO (XO (XO (XO (XO (XO (XO
    (XO (XO (XO (XO (XO (XO (XO (XI (XO (XI (XI
    XH))))))))))))))))))))))))))))))) :: ((Npos (XI (XI (XI (XI (XI (XO (XI
    (XO (XO (XO (XO (XO (XO (XO (XO (XO (XO (XO (XO (XO (XO (XO (XO (XO (XO
    (XO (XI (XO (XO (XO (XO XH)))))))))))))))))))))))))))))))) :: ((Npos (XI
    (XI (XI (XI (XI (XO (XO (XO (XO (XO (XO (XO (XO (XO (XO (XO (XO (XO (XO
    (XO (XO (XO (XO (XO (XO (XO (XI (XO (XO (XO (XO
    XH)))))))))))))))))))))))))))))))) :: ((Npos (XO (XI (XI (XI (XI (XO (XO
    (XI (XO (XO (XO (XO (XO (XO (XO (XO (XO (XO (XO (XO (XO (XO (XO (XO (XO
    (XO (XI (XO (XI (XO (XO XH)))))))))))))))))))))))))))))))) :: ((Npos (XO
    (XI (XI (XI (XO (XI (XI (XO (XI (XO (XO (XO (XO (XO (XO (XO (XO (XO (XO
    (XO (XO (XO (XO (XO (XO (XO (XI (XO (XI (XI (XO
    XH)))))))))))))))))))))))))))))))) :: ((Npos (XI (XI (XI (XI (XI (XI (XI
    (XO (XO (XO (XO (XO (XO (XO (XO (XO (XO (XO (XO (XO (XO (XO (XO (XO (XO
    (XO (XI (XO (XO (XO (XO XH)))))))))))))))))))))))))))))))) :: ((Npos (XI
    (XI (XI (XI (XI (XI (XO (XO (XO (XO (XO (XO (XO (XO (XO (XO (XO (XO (XO
    (XO (XO (XO (XO (XO (XO (XO (XI (XO (XO (XO (XO
    XH)))))))))))))))))))))))))))))))) :: ((Npos (XO (XI (XI (XI (XI (XO (XI
    (XI (XO (XO (XO (XO (XO (XO (XO (XO (XO (XO (XO (XO (XO (XO (XO (XO (XO
    (XO (XI (XO (XI (XO (XO XH)))))))))))))))))))))))))))))))) :: ((Npos (XO
    (XI (XO (XI (XI (XO (XO (XO (XI (XO (XO (XO (XO (XO (XO (XO (XO (XO (XO
    (XO (XO (XO (XO (XO (XO (XO (XI (XO (XI (XO (XO
    XH)))))))))))))))))))))))))))))))) :: ((Npos (XI (XI (XI (XI (XO (XI (XI
    (XO (XO (XO (XO (XO (XO (XO (XO (XO (XO (XO (XO (XO (XO (XO (XO (XO (XO
    (XO (XI (XO (XO (XO (XO XH)))))))))))))))))))))))))))))))) :: ((Npos (XI
    (XI (XI (XI (XO (XI (XO (XO (XO (XO (XO (XO (XO (XO (XO (XO (XO (XO (XO
    (XO (XO (XO (XO (XO (XO (XO (XI (XO (XO (XO (XO
    XH)))))))))))))))))))))))))))))))) :: ((Npos (XO (XI (XI (XI (XI (XI (XO
    (XI (XO (XO (XO (XO (XO (XO (XO (XO (XO (XO (XO (XO (XO (XO (XO (XO (XO
    (XO (XI (XO (XI (XO (XO XH)))))))))))))))))))))))))))))))) :: ((Npos (XI
    (XI (XI (XI (XO (XO (XO (XO (XO (XO (XO (XO (XO (XO (XO (XO (XO (XO (XO
    (XO (XO (XO (XO (XO (XO (XO (XI (XO (XO (XO (XO
    XH)))))))))))))))))))))))))))))))) :: ((Npos (XI (XI (XI (XI (XO (XO (XO
    (XI (XO (XO (XO (XO (XO (XO (XO (XO (XO (XO (XO (XO (XO (XO (XO (XO (XO
    (XO (XI (XO (XO (XO (XO XH)))))))))))))))))))))))))))))))) :: ((Npos (XI
    (XI (XI (XI (XO (XO (XI (XO (XO (XO (XO (XO (XO (XO (XO (XO (XO (XO (XO
    (XO (XO (XO (XO (XO (XO (XO (XI (XO (XO (XO (XO
    XH)))))))))))))))))))))))))))))))) :: ((Npos (XO (XI (XI (XI (XI (XI (XI
    (XI (XO (XO (XO (XO (XO (XO (XO (XO (XO (XO (XO (XO (XO (XO (XO (XO (XO
    (XO (XI (XO (XI (XO (XO XH)))))))))))))))))))))))))))))))) :: ((Npos (XO
    (XO (XO (XO (XO (XO (XO (XO (XI (XO (XO (XO (XO (XO (XO (XO (XO (XO (XO
    (XO (XO (XO (XO (XO (XO (XO (XI (XO (XI (XI
    XH))))))))))))))))))))))))))))))) :: ((Npos (XO (XO (XO (XO (XI (XO (XI
    (XO (XO (XO (XO (XO (XO (XO (XO (XO (XO (XO (XO (XO (XO (XO (XO (XO (XO
    (XO (XI (XO (XO (XO (XO XH)))))))))))))))))))))))))))))))) :: ((Npos (XO
    (XO (XO (XO (XI (XO (XO (XO (XO (XO (XO (XO (XO (XO (XO (XO (XO (XO (XO
    (XO (XO (XO (XO (XO (XO (XO (XI (XO (XO (XO (XO
    XH)))))))))))))))))))))))))))))))) :: ((Npos (XO (XO (XO (XI (XI (XI (XI
    (XO (XI (XO (XO (XO (XO (XO (XO (XO (XO (XO (XO (XO (XO (XO (XO (XO (XO
    (XO (XI (XO (XO (XO (XI XH)))))))))))))))))))))))))))))))) :: ((Npos (XI
    (XI (XI (XI (XI (XO (XO (XO (XI (XO (XO (XO (XO (XO (XO (XO (XO (XO (XO
    (XO (XO (XO (XO (XO (XO (XO (XI (XO (XI (XO (XO
    XH)))))))))))))))))))))))))))))))) :: ((Npos (XO (XO (XO (XO (XI (XI (XI
    (XO (XO (XO (XO (XO (XO (XO (XO (XO (XO (XO (XO (XO (XO (XO (XO (XO (XO
    (XO (XI (XO (XO (XO (XO XH)))))))))))))))))))))))))))))))) :: ((Npos (XO
    (XO (XO (XO (XI (XI (XO (XO (XO (XO (XO (XO (XO (XO (XO (XO (XO (XO (XO
    (XO (XO (XO (XO (XO (XO (XO (XI (XO (XO (XO (XO
    XH)))))))))))))))))))))))))))))))) :: ((Npos (XI (XO (XO (XO (XO (XO (XI
    (XI (XO (XO (XO (XO (XO (XO (XO (XO (XO (XO (XO (XO (XO (XO (XO (XO (XO
    (XO (XI (XO (XI (XO (XO XH)))))))))))))))))))))))))))))))) :: ((Npos (XO
    (XO (XO (XI (XO (XO (XO (XO (XI (XO (XO (XO (XO (XO (XO (XO (XO (XO (XO
    (XO (XO (XO (XO (XO (XO (XO (XI (XO (XI (XI
    XH))))))))))))))))))))))))))))))) :: ((Npos (XO (XO (XO (XO (XO (XI (XI
    (XO (XO (XO (XO (XO (XO (XO (XO (XO (XO (XO (XO (XO (XO (XO (XO (XO (XO
    (XO (XI (XO (XO (XO (XO XH)))))))))))))))))))))))))))))))) :: ((Npos (XO
    (XO (XO (XO (XO (XI (XO (XO (XO (XO (XO (XO (XO (XO (XO (XO (XO (XO (XO
    (XO (XO (XO (XO (XO (XO (XO (XI (XO (XO (XO (XO
    XH)))))))))))))))))))))))))))))))) :: ((Npos (XI (XO (XO (XO (XO (XI (XO
    (XI (XO (XO (XO (XO (XO (XO (XO (XO (XO (XO (XO (XO (XO (XO (XO (XO (XO
    (XO (XI (XO (XI (XO (XO XH)))))))))))))))))))))))))))))))) :: ((Npos (XO
    (XO (XO (XO (XO (XO (XO (XO (XO (XO (XO (XO (XO (XO (XO (XO (XO (XO (XO
    (XO (XO (XO (XO (XO (XO (XO (XI (XO (XO (XO (XO
    XH)))))))))))))))))))))))))))))))) :: ((Npos (XO (XO (XO (XO (XO (XO (XO
    (XI (XO (XO (XO (XO (XO (XO (XO (XO (XO (XO (XO (XO (XO (XO (XO (XO (XO
    (XO (XI (XO (XO (XO (XO XH)))))))))))))))))))))))))))))))) :: ((Npos (XO
    (XO (XO (XO (XO (XO (XI (XO (XO (XO (XO (XO (XO (XO (XO (XO (XO (XO (XO
    (XO (XO (XO (XO (XO (XO (XO (XI (XO (XO (XO (XO
    XH)))))))))))))))))))))))))))))))) :: ((Npos (XI (XO (XO (XO (XO (XI (XI
    (XI (XO (XO (XO (XO (XO (XO (XO (XO (XO (XO (XO (XO (XO (XO (XO (XO (XO
    (XO (XI (XO (XI (XO (XO XH)))))))))))))))))))))))))))))))) :: ((Npos (XO
    (XO (XI (XO (XO (XO (XO (XO (XI (XO (XO (XO (XO (XO (XO (XO (XO (XO (XO
    (XO (XO (XO (XO (XO (XO (XO (XI (XO (XI (XI
    XH))))))))))))))))))))))))))))))) :: ((Npos (XO (XO (XO (XI (XI (XO (XI
    (XO (XO (XO (XO (XO (XO (XO (XO (XO (XO (XO (XO (XO (XO (XO (XO (XO (XO
    (XO (XI (XO (XO (XO (XO XH)))))))))))))))))))))))))))))))) :: ((Npos (XO
    (XO (XO (XI (XI (XO (XO (XO (XO (XO (XO (XO (XO (XO (XO (XO (XO (XO (XO
    (XO (XO (XO (XO (XO (XO (XO (XI (XO (XO (XO (XO
    XH)))))))))))))))))))))))))))))))) :: ((Npos (XI (XO (XO (XO (XI (XO (XO
    (XI (XO (XO (XO (XO (XO (XO (XO (XO (XO (XO (XO (XO (XO (XO (XO (XO (XO
    (XO (XI (XO (XI (XO (XO XH)))))))))))))))))))))))))))))))) :: ((Npos (XI
    (XI (XI (XI (XI (XI (XO (XO (XI (XO (XO (XO (XO (XO (XO (XO (XO (XO (XO
    (XO (XO (XO (XO (XO (XO (XO (XI (XO (XO (XI (XO
    XH)))))))))))))))))))))))))))))))) :: ((Npos (XO (XO (XO (XI (XI (XI (XI
    (XO (XO (XO (XO (XO (XO (XO (XO (XO (XO (XO (XO (XO (XO (XO (XO (XO (XO
    (XO (XI (XO (XO (XO (XO XH)))))))))))))))))))))))))))))))) :: ((Npos (XO
    (XO (XO (XI (XI (XI (XO (XO (XO (XO (XO (XO (XO (XO (XO (XO (XO (XO (XO
    (XO (XO (XO (XO (XO (XO (XO (XI (XO (XO (XO (XO
    XH)))))))))))))))))))))))))))))))) :: ((Npos (XI (XO (XO (XO (XI (XO (XI
    (XI (XO (XO (XO (XO (XO (XO (XO (XO (XO (XO (XO (XO (XO (XO (XO (XO (XO
    (XO (XI (XO (XI (XO (XO XH)))))))))))))))))))))))))))))))) :: ((Npos (XI
    (XI (XI (XI (XO (XO (XO (XO (XI (XO (XO (XO (XO (XO (XO (XO (XO (XO (XO
    (XO (XO (XO (XO (XO (XO (XO (XI (XO (XO (XO (XO
    XH)))))))))))))))))))))))))))))))) :: ((Npos (XO (XO (XO (XI (XO (XI (XI
    (XO (XO (XO (XO (XO (XO (XO (XO (XO (XO (XO (XO (XO (XO (XO (XO (XO (XO
    (XO (XI (XO (XO (XO (XO XH)))))))))))))))))))))))))))))))) :: ((Npos (XO
    (XO (XO (XI (XO (XI (XO (XO (XO (XO (XO (XO (XO (XO (XO (XO (XO (XO (XO
    (XO (XO (XO (XO (XO (XO (XO (XI (XO (XO (XO (XO
    XH)))))))))))))))))))))))))))))))) :: ((Npos (XI (XO (XO (XO (XI (XI (XO
    (XI (XO (XO (XO (XO (XO (XO (XO (XO (XO (XO (XO (XO (XO (XO (XO (XO (XO
    (XO (XI (XO (XI (XO (XO XH)))))))))))))))))))))))))))))))) :: ((Npos (XO
    (XO (XO (XI (XO (XO (XO (XO (XO (XO (XO (XO (XO (XO (XO (XO (XO (XO (XO
    (XO (XO (XO (XO (XO (XO (XO (XI (XO (XO (XO (XO
    XH)))))))))))))))))))))))))))))))) :: ((Npos (XO (XO (XO (XI (XO (XO (XO
    (XI (XO (XO (XO (XO (XO (XO (XO (XO (XO (XO (XO (XO (XO (XO (XO (XO (XO
    (XO (XI (XO (XO (XO (XO XH)))))))))))))))))))))))))))))))) :: ((Npos (XO
    (XO (XO (XI (XO (XO (XI (XO (XO (XO (XO (XO (XO (XO (XO (XO (XO (XO (XO
    (XO (XO (XO (XO (XO (XO (XO (XI (XO (XO (XO (XO
    XH)))))))))))))))))))))))))))))))) :: ((Npos (XI (XO (XO (XO (XI (XI (XI
    (XI (XO (XO (XO (XO (XO (XO (XO (XO (XO (XO (XO (XO (XO (XO (XO (XO (XO
    (XO (XI (XO (XI (XO (XO XH)))))))))))))))))))))))))))))))) :: ((Npos (XO
    (XI (XO (XO (XO (XO (XO (XO (XI (XO (XO (XO (XO (XO (XO (XO (XO (XO (XO
    (XO (XO (XO (XO (XO (XO (XO (XI (XO (XI (XI
    XH))))))))))))))))))))))))))))))) :: ((Npos (XO (XO (XI (XO (XI (XO (XI
    (XO (XO (XO (XO (XO (XO (XO (XO (XO (XO (XO (XO (XO (XO (XO (XO (XO (XO
    (XO (XI (XO (XO (XO (XO XH)))))))))))))))))))))))))))))))) :: ((Npos (XO
    (XO (XI (XO (XI (XO (XO (XO (XO (XO (XO (XO (XO (XO (XO (XO (XO (XO (XO
    (XO (XO (XO (XO (XO (XO (XO (XI (XO (XO (XO (XO
    XH)))))))))))))))))))))))))))))))) :: ((Npos (XO (XI (XI (XI (XO (XI (XI
    (XO (XO (XO (XO (XO (XO (XO (XO (XO (XO (XO (XO (XO (XO (XO (XO (XO (XO
    (XI (XI (XO (XI XH)))))))))))))))))))))))))))))) :: ((Npos (XI (XI (XI
    (XI (XO (XI (XO (XO (XI (XO (XO (XO (XO (XO (XO (XO (XO (XO (XO (XO (XO
    (XO (XO (XO (XO (XO (XI (XO (XO (XI (XO
    XH)))))))))))))))))))))))))))))))) :: ((Npos (XO (XO (XI (XO (XI (XI (XI
    (XO (XO (XO (XO (XO (XO (XO (XO (XO (XO (XO (XO (XO (XO (XO (XO (XO (XO
    (XO (XI (XO (XO (XO (XO XH)))))))))))))))))))))))))))))))) :: ((Npos (XO
    (XO (XI (XO (XI (XI (XO (XO (XO (XO (XO (XO (XO (XO (XO (XO (XO (XO (XO
    (XO (XO (XO (XO (XO (XO (XO (XI (XO (XO (XO (XO
    XH)))))))))))))))))))))))))))))))) :: ((Npos (XI (XO (XO (XI (XO (XO (XI
    (XI (XO (XO (XO (XO (XO (XO (XO (XO (XO (XO (XO (XO (XO (XO (XO (XO (XO
    (XO (XI (XO (XI (XO (XO XH)))))))))))))))))))))))))))))))) :: ((Npos (XI
    (XI (XO (XI (XO (XO (XO (XO (XI (XO (XO (XO (XO (XO (XO (XO (XO (XO (XO
    (XO (XO (XO (XO (XO (XO (XO (XI (XO (XO (XO (XO
    XH)))))))))))))))))))))))))))))))) :: ((Npos (XO (XO (XI (XO (XO (XI (XI
    (XO (XO (XO (XO (XO (XO (XO (XO (XO (XO (XO (XO (XO (XO (XO (XO (XO (XO
    (XO (XI (XO (XO (XO (XO XH)))))))))))))))))))))))))))))))) :: ((Npos (XO
    (XO (XI (XO (XO (XI (XO (XO (XO (XO (XO (XO (XO (XO (XO (XO (XO (XO (XO
    (XO (XO (XO (XO (XO (XO (XO (XI (XO (XO (XO (XO
    XH)))))))))))))))))))))))))))))))) :: ((Npos (XI (XO (XO (XI (XO (XI (XO
    (XI (XO (XO (XO (XO (XO (XO (XO (XO (XO (XO (XO (XO (XO (XO (XO (XO (XO
    (XO (XI (XO (XI (XO (XO XH)))))))))))))))))))))))))))))))) :: ((Npos (XO
    (XO (XI (XO (XO (XO (XO (XO (XO (XO (XO (XO (XO (XO (XO (XO (XO (XO (XO
    (XO (XO (XO (XO (XO (XO (XO (XI (XO (XO (XO (XO
    XH)))))))))))))))))))))))))))))))) :: ((Npos (XO (XO (XI (XO (XO (XO (XO
    (XI (XO (XO (XO (XO (XO (XO (XO (XO (XO (XO (XO (XO (XO (XO (XO (XO (XO
    (XO (XI (XO (XO (XO (XO XH)))))))))))))))))))))))))))))))) :: ((Npos (XO
    (XO (XI (XO (XO (XO (XI (XO (XO (XO (XO (XO (XO (XO (XO (XO (XO (XO (XO
    (XO (XO (XO (XO (XO (XO (XO (XI (XO (XO (XO (XO
    XH)))))))))))))))))))))))))))))))) :: ((Npos (XI (XO (XO (XI (XO (XI (XI
    (XI (XO (XO (XO (XO (XO (XO (XO (XO (XO (XO (XO (XO (XO (XO (XO (XO (XO
    (XO (XI (XO (XI (XO (XO XH)))))))))))))))))))))))))))))))) :: ((Npos (XO
    (XI (XI (XO (XO (XO (XO (XO (XI (XO (XO (XO (XO (XO (XO (XO (XO (XO (XO
    (XO (XO (XO (XO (XO (XO (XO (XI (XO (XI (XI
    XH))))))))))))))))))))))))))))))) :: ((Npos (XO (XO (XI (XI (XI (XO (XI
    (XO (XO (XO (XO (XO (XO (XO (XO (XO (XO (XO (XO (XO (XO (XO (XO (XO (XO
    (XO (XI (XO (XO (XO (XO XH)))))))))))))))))))))))))))))))) :: ((Npos (XO
    (XO (XI (XI (XI (XO (XO (XO (XO (XO (XO (XO (XO (XO (XO (XO (XO (XO (XO
    (XO (XO (XO (XO (XO (XO (XO (XI (XO (XO (XO (XO
    XH)))))))))))))))))))))))))))))))) :: ((Npos (XI (XO (XO (XI (XI (XO (XO
    (XI (XO (XO (XO (XO (XO (XO (XO (XO (XO (XO (XO (XO (XO (XO (XO (XO (XO
    (XO (XI (XO (XI (XO (XO XH)))))))))))))))))))))))))))))))) :: ((Npos (XI
    (XI (XI (XI (XI (XO (XI (XO (XI (XO (XO (XO (XO (XO (XO (XO (XO (XO (XO
    (XO (XO (XO (XO (XO (XO (XO (XI (XO (XI (XI (XO
    XH)))))))))))))))))))))))))))))))) :: ((Npos (XO (XO (XI (XI (XI (XI (XI
    (XO (XO (XO (XO (XO (XO (XO (XO (XO (XO (XO (XO (XO (XO (XO (XO (XO (XO
    (XO (XI (XO (XO (XO (XO XH)))))))))))))))))))))))))))))))) :: ((Npos (XO
    (XO (XI (XI (XI (XI (XO (XO (XO (XO (XO (XO (XO (XO (XO (XO (XO (XO (XO
    (XO (XO (XO (XO (XO (XO (XO (XI (XO (XO (XO (XO
    XH)))))))))))))))))))))))))))))))) :: ((Npos (XI (XO (XO (XI (XI (XO (XI
    (XI (XO (XO (XO (XO (XO (XO (XO (XO (XO (XO (XO (XO (XO (XO (XO (XO (XO
    (XO (XI (XO (XI (XO (XO XH)))))))))))))))))))))))))))))))) :: ((Npos (XI
    (XI (XI (XO (XI (XO (XO (XO (XI (XO (XO (XO (XO (XO (XO (XO (XO (XO (XO
    (XO (XO (XO (XO (XO (XO (XO (XI (XO (XI (XO (XO
    XH)))))))))))))))))))))))))))))))) :: ((Npos (XO (XO (XI (XI (XO (XI (XI
    (XO (XO (XO (XO (XO (XO (XO (XO (XO (XO (XO (XO (XO (XO (XO (XO (XO (XO
    (XO (XI (XO (XO (XO (XO XH)))))))))))))))))))))))))))))))) :: ((Npos (XO
    (XO (XI (XI (XO (XI (XO (XO (XO (XO (XO (XO (XO (XO (XO (XO (XO (XO (XO
    (XO (XO (XO (XO (XO (XO (XO (XI (XO (XO (XO (XO
    XH)))))))))))))))))))))))))))))))) :: ((Npos (XI (XO (XO (XI (XI (XI (XO
    (XI (XO (XO (XO (XO (XO (XO (XO (XO (XO (XO (XO (XO (XO (XO (XO (XO (XO
    (XO (XI (XO (XI (XO (XO XH)))))))))))))))))))))))))))))))) :: ((Npos (XO
    (XO (XI (XI (XO (XO (XO (XO (XO (XO (XO (XO (XO (XO (XO (XO (XO (XO (XO
    (XO (XO (XO (XO (XO (XO (XO (XI (XO (XO (XO (XO
    XH)))))))))))))))))))))))))))))))) :: ((Npos (XO (XO (XI (XI (XO (XO (XO
    (XI (XO (XO (XO (XO (XO (XO (XO (XO (XO (XO (XO (XO (XO (XO (XO (XO (XO
    (XO (XI (XO (XO (XO (XO XH)))))))))))))))))))))))))))))))) :: ((Npos (XO
    (XO (XI (XI (XO (XO (XI (XO (XO (XO (XO (XO (XO (XO (XO (XO (XO (XO (XO
    (XO (XO (XO (XO (XO (XO (XO (XI (XO (XO (XO (XO
    XH)))))))))))))))))))))))))))))))) :: ((Npos (XI (XO (XO (XI (XI (XI (XI
    (XI (XO (XO (XO (XO (XO (XO (XO (XO (XO (XO (XO (XO (XO (XO (XO (XO (XO
    (XO (XI (XO (XI (XO (XO XH)))))))))))))))))))))))))))))))) :: ((Npos (XI
    (XO (XO (XO (XO (XO (XO (XO (XI (XO (XO (XO (XO (XO (XO (XO (XO (XO (XO
    (XO (XO (XO (XO (XO (XO (XO (XI (XO (XI (XI
    XH))))))))))))))))))))))))))))))) :: ((Npos (XO (XI (XO (XO (XI (XO (XI
    (XO (XO (XO (XO (XO (XO (XO (XO (XO (XO (XO (XO (XO (XO (XO (XO (XO (XO
    (XO (XI (XO (XO (XO (XO XH)))))))))))))))))))))))))))))))) :: ((Npos (XO
    (XI (XO (XO (XI (XO (XO (XO (XO (XO (XO (XO (XO (XO (XO (XO (XO (XO (XO
    (XO (XO (XO (XO (XO (XO (XO (XI (XO (XO (XO (XO
    XH)))))))))))))))))))))))))))))))) :: ((Npos (XO (XI (XI (XI (XO (XI (XO
    (XO (XO (XO (XO (XO (XO (XO (XO (XO (XO (XO (XO (XO (XO (XO (XO (XO (XO
    (XI (XI (XO (XI XH)))))))))))))))))))))))))))))) :: ((Npos (XI (XI (XI
    (XO (XO (XI (XO (XO (XI (XO (XO (XO (XO (XO (XO (XO (XO (XO (XO (XO (XO
    (XO (XO (XO (XO (XO (XI (XO (XO (XI (XO
    XH)))))))))))))))))))))))))))))))) :: ((Npos (XO (XI (XO (XO (XI (XI (XI
    (XO (XO (XO (XO (XO (XO (XO (XO (XO (XO (XO (XO (XO (XO (XO (XO (XO (XO
    (XO (XI (XO (XO (XO (XO XH)))))))))))))))))))))))))))))))) :: ((Npos (XO
    (XI (XO (XO (XI (XI (XO (XO (XO (XO (XO (XO (XO (XO (XO (XO (XO (XO (XO
    (XO (XO (XO (XO (XO (XO (XO (XI (XO (XO (XO (XO
    XH)))))))))))))))))))))))))))))))) :: ((Npos (XI (XO (XI (XO (XO (XO (XI
    (XI (XO (XO (XO (XO (XO (XO (XO (XO (XO (XO (XO (XO (XO (XO (XO (XO (XO
    (XO (XI (XO (XI (XO (XO XH)))))))))))))))))))))))))))))))) :: ((Npos (XI
    (XO (XO (XI (XO (XO (XO (XO (XI (XO (XO (XO (XO (XO (XO (XO (XO (XO (XO
    (XO (XO (XO (XO (XO (XO (XO (XI (XO (XO (XO (XO
    XH)))))))))))))))))))))))))))))))) :: ((Npos (XO (XI (XO (XO (XO (XI (XI
    (XO (XO (XO (XO (XO (XO (XO (XO (XO (XO (XO (XO (XO (XO (XO (XO (XO (XO
    (XO (XI (XO (XO (XO (XO XH)))))))))))))))))))))))))))))))) :: ((Npos (XO
    (XI (XO (XO (XO (XI (XO (XO (XO (XO (XO (XO (XO (XO (XO (XO (XO (XO (XO
    (XO (XO (XO (XO (XO (XO (XO (XI (XO (XO (XO (XO
    XH)))))))))))))))))))))))))))))))) :: ((Npos (XI (XO (XI (XO (XO (XI (XO
    (XI (XO (XO (XO (XO (XO (XO (XO (XO (XO (XO (XO (XO (XO (XO (XO (XO (XO
    (XO (XI (XO (XI (XO (XO XH)))))))))))))))))))))))))))))))) :: ((Npos (XO
    (XI (XO (XO (XO (XO (XO (XO (XO (XO (XO (XO (XO (XO (XO (XO (XO (XO (XO
    (XO (XO (XO (XO (XO (XO (XO (XI (XO (XO (XO (XO
    XH)))))))))))))))))))))))))))))))) :: ((Npos (XO (XI (XO (XO (XO (XO (XO
    (XI (XO (XO (XO (XO (XO (XO (XO (XO (XO (XO (XO (XO (XO (XO (XO (XO (XO
    (XO (XI (XO (XO (XO (XO XH)))))))))))))))))))))))))))))))) :: ((Npos (XO
    (XI (XO (XO (XO (XO (XI (XO (XO (XO (XO (XO (XO (XO (XO (XO (XO (XO (XO
    (XO (XO (XO (XO (XO (XO (XO (XI (XO (XO (XO (XO
    XH)))))))))))))))))))))))))))))))) :: ((Npos (XI (XO (XI (XO (XO (XI (XI
    (XI (XO (XO (XO (XO (XO (XO (XO (XO (XO (XO (XO (XO (XO (XO (XO (XO (XO
    (XO (XI (XO (XI (XO (XO XH)))))))))))))))))))))))))))))))) :: ((Npos (XI
    (XO (XI (XO (XO (XO (XO (XO (XI (XO (XO (XO (XO (XO (XO (XO (XO (XO (XO
    (XO (XO (XO (XO (XO (XO (XO (XI (XO (XI (XI
    XH))))))))))))))))))))))))))))))) :: ((Npos (XO (XI (XO (XI (XI (XO (XI
    (XO (XO (XO (XO (XO (XO (XO (XO (XO (XO (XO (XO (XO (XO (XO (XO (XO (XO
    (XO (XI (XO (XO (XO (XO XH)))))))))))))))))))))))))))))))) :: ((Npos (XO
    (XI (XO (XI (XI (XO (XO (XO (XO (XO (XO (XO (XO (XO (XO (XO (XO (XO (XO
    (XO (XO (XO (XO (XO (XO (XO (XI (XO (XO (XO (XO
    XH)))))))))))))))))))))))))))))))) :: ((Npos (XI (XO (XI (XO (XI (XO (XO
    (XI (XO (XO (XO (XO (XO (XO (XO (XO (XO (XO (XO (XO (XO (XO (XO (XO (XO
    (XO (XI (XO (XI (XO (XO XH)))))))))))))))))))))))))))))))) :: ((Npos (XI
    (XI (XI (XI (XO (XO (XI (XO (XI (XO (XO (XO (XO (XO (XO (XO (XO (XO (XO
    (XO (XO (XO (XO (XO (XO (XO (XI (XO (XI (XI (XO
    XH)))))))))))))))))))))))))))))))) :: ((Npos (XO (XI (XO (XI (XI (XI (XI
    (XO (XO (XO (XO (XO (XO (XO (XO (XO (XO (XO (XO (XO (XO (XO (XO (XO (XO
    (XO (XI (XO (XO (XO (XO XH)))))))))))))))))))))))))))))))) :: ((Npos (XO
    (XI (XO (XI (XI (XI (XO (XO (XO (XO (XO (XO (XO (XO (XO (XO (XO (XO (XO
    (XO (XO (XO (XO (XO (XO (XO (XI (XO (XO (XO (XO
    XH)))))))))))))))))))))))))))))))) :: ((Npos (XI (XO (XI (XO (XI (XO (XI
    (XI (XO (XO (XO (XO (XO (XO (XO (XO (XO (XO (XO (XO (XO (XO (XO (XO (XO
    (XO (XI (XO (XI (XO (XO XH)))))))))))))))))))))))))))))))) :: ((Npos (XI
    (XI (XO (XO (XI (XO (XO (XO (XI (XO (XO (XO (XO (XO (XO (XO (XO (XO (XO
    (XO (XO (XO (XO (XO (XO (XO (XI (XO (XI (XO (XO
    XH)))))))))))))))))))))))))))))))) :: ((Npos (XO (XI (XO (XI (XO (XI (XI
    (XO (XO (XO (XO (XO (XO (XO (XO (XO (XO (XO (XO (XO (XO (XO (XO (XO (XO
    (XO (XI (XO (XO (XO (XO XH)))))))))))))))))))))))))))))))) :: ((Npos (XO
    (XI (XO (XI (XO (XI (XO (XO (XO (XO (XO (XO (XO (XO (XO (XO (XO (XO (XO
    (XO (XO (XO (XO (XO (XO (XO (XI (XO (XO (XO (XO
    XH)))))))))))))))))))))))))))))))) :: ((Npos (XI (XO (XI (XO (XI (XI (XO
    (XI (XO (XO (XO (XO (XO (XO (XO (XO (XO (XO (XO (XO (XO (XO (XO (XO (XO
    (XO (XI (XO (XI (XO (XO XH)))))))))))))))))))))))))))))))) :: ((Npos (XO
    (XI (XO (XI (XO (XO (XO (XO (XO (XO (XO (XO (XO (XO (XO (XO (XO (XO (XO
    (XO (XO (XO (XO (XO (XO (XO (XI (XO (XO (XO (XO
    XH)))))))))))))))))))))))))))))))) :: ((Npos (XO (XI (XO (XI (XO (XO (XO
    (XI (XO (XO (XO (XO (XO (XO (XO (XO (XO (XO (XO (XO (XO (XO (XO (XO (XO
    (XO (XI (XO (XO (XO (XO XH)))))))))))))))))))))))))))))))) :: ((Npos (XO
    (XI (XO (XI (XO (XO (XI (XO (XO (XO (XO (XO (XO (XO (XO (XO (XO (XO (XO
    (XO (XO (XO (XO (XO (XO (XO (XI (XO (XO (XO (XO
    XH)))))))))))))))))))))))))))))))) :: ((Npos (XI (XO (XI (XO (XI (XI (XI
    (XI (XO (XO (XO (XO (XO (XO (XO (XO (XO (XO (XO (XO (XO (XO (XO (XO (XO
    (XO (XI (XO (XI (XO (XO XH)))))))))))))))))))))))))))))))) :: ((Npos (XI
    (XI (XO (XO (XO (XO (XO (XO (XI (XO (XO (XO (XO (XO (XO (XO (XO (XO (XO
    (XO (XO (XO (XO (XO (XO (XO (XI (XO (XI (XI
    XH))))))))))))))))))))))))))))))) :: ((Npos (XO (XI (XI (XO (XI (XO (XI
    (XO (XO (XO (XO (XO (XO (XO (XO (XO (XO (XO (XO (XO (XO (XO (XO (XO (XO
    (XO (XI (XO (XO (XO (XO XH)))))))))))))))))))))))))))))))) :: ((Npos (XO
    (XI (XI (XO (XI (XO (XO (XO (XO (XO (XO (XO (XO (XO (XO (XO (XO (XO (XO
    (XO (XO (XO (XO (XO (XO (XO (XI (XO (XO (XO (XO
    XH)))))))))))))))))))))))))))))))) :: (N0 :: ((Npos (XI (XI (XI (XO (XI
    (XI (XO (XO (XI (XO (XO (XO (XO (XO (XO (XO (XO (XO (XO (XO (XO (XO (XO
    (XO (XO (XO (XI (XO (XO (XI (XO
    XH)))))))))))))))))))))))))))))))) :: ((Npos (XO (XI (XI (XO (XI (XI (XI
    (XO (XO (XO (XO (XO (XO (XO (XO (XO (XO (XO (XO (XO (XO (XO (XO (XO (XO
    (XO (XI (XO (XO (XO (XO XH)))))))))))))))))))))))))))))))) :: ((Npos (XO
    (XI (XI (XO (XI (XI (XO (XO (XO (XO (XO (XO (XO (XO (XO (XO (XO (XO (XO
    (XO (XO (XO (XO (XO (XO (XO (XI (XO (XO (XO (XO
    XH)))))))))))))))))))))))))))))))) :: ((Npos (XI (XO (XI (XI (XO (XO (XI
    (XI (XO (XO (XO (XO (XO (XO (XO (XO (XO (XO (XO (XO (XO (XO (XO (XO (XO
    (XO (XI (XO (XI (XO (XO XH)))))))))))))))))))))))))))))))) :: ((Npos (XI
    (XO (XI (XI (XO (XO (XO (XO (XI (XO (XO (XO (XO (XO (XO (XO (XO (XO (XO
    (XO (XO (XO (XO (XO (XO (XO (XI (XO (XO (XO (XO
    XH)))))))))))))))))))))))))))))))) :: ((Npos (XO (XI (XI (XO (XO (XI (XI
    (XO (XO (XO (XO (XO (XO (XO (XO (XO (XO (XO (XO (XO (XO (XO (XO (XO (XO
    (XO (XI (XO (XO (XO (XO XH)))))))))))))))))))))))))))))))) :: ((Npos (XO
    (XI (XI (XO (XO (XI (XO (XO (XO (XO (XO (XO (XO (XO (XO (XO (XO (XO (XO
    (XO (XO (XO (XO (XO (XO (XO (XI (XO (XO (XO (XO
    XH)))))))))))))))))))))))))))))))) :: ((Npos (XI (XO (XI (XI (XO (XI (XO
    (XI (XO (XO (XO (XO (XO (XO (XO (XO (XO (XO (XO (XO (XO (XO (XO (XO (XO
    (XO (XI (XO (XI (XO (XO XH)))))))))))))))))))))))))))))))) :: ((Npos (XO
    (XI (XI (XO (XO (XO (XO (XO (XO (XO (XO (XO (XO (XO (XO (XO (XO (XO (XO
    (XO (XO (XO (XO (XO (XO (XO (XI (XO (XO (XO (XO
    XH)))))))))))))))))))))))))))))))) :: ((Npos (XO (XI (XI (XO (XO (XO (XO
    (XI (XO (XO (XO (XO (XO (XO (XO (XO (XO (XO (XO (XO (XO (XO (XO (XO (XO
    (XO (XI (XO (XO (XO (XO XH)))))))))))))))))))))))))))))))) :: ((Npos (XO
    (XI (XI (XO (XO (XO (XI (XO (XO (XO (XO (XO (XO (XO (XO (XO (XO (XO (XO
    (XO (XO (XO (XO (XO (XO (XO (XI (XO (XO (XO (XO
    XH)))))))))))))))))))))))))))))))) :: ((Npos (XI (XO (XI (XI (XO (XI (XI
    (XI (XO (XO (XO (XO (XO (XO (XO (XO (XO (XO (XO (XO (XO (XO (XO (XO (XO
    (XO (XI (XO (XI (XO (XO XH)))))))))))))))))))))))))))))))) :: ((Npos (XI
    (XI (XI (XO (XO (XO (XO (XO (XI (XO (XO (XO (XO (XO (XO (XO (XO (XO (XO
    (XO (XO (XO (XO (XO (XO (XO (XI (XO (XI (XI
    XH))))))))))))))))))))))))))))))) :: ((Npos (XO (XI (XI (XI (XI (XO (XI
    (XO (XO (XO (XO (XO (XO (XO (XO (XO (XO (XO (XO (XO (XO (XO (XO (XO (XO
    (XO (XI (XO (XO (XO (XO XH)))))))))))))))))))))))))))))))) :: ((Npos (XO
    (XI (XI (XI (XI (XO (XO (XO (XO (XO (XO (XO (XO (XO (XO (XO (XO (XO (XO
    (XO (XO (XO (XO (XO (XO (XO (XI (XO (XO (XO (XO
    XH)))))))))))))))))))))))))))))))) :: ((Npos (XI (XO (XI (XI (XI (XO (XO
    (XI (XO (XO (XO (XO (XO (XO (XO (XO (XO (XO (XO (XO (XO (XO (XO (XO (XO
    (XO (XI (XO (XI (XO (XO XH)))))))))))))))))))))))))))))))) :: ((Npos (XI
    (XI (XI (XI (XO (XI (XI (XO (XI (XO (XO (XO (XO (XO (XO (XO (XO (XO (XO
    (XO (XO (XO (XO (XO (XO (XO (XI (XO (XI (XI (XO
    XH)))))))))))))))))))))))))))))))) :: ((Npos (XO (XI (XI (XI (XI (XI (XI
    (XO (XO (XO (XO (XO (XO (XO (XO (XO (XO (XO (XO (XO (XO (XO (XO (XO (XO
    (XO (XI (XO (XO (XO (XO XH)))))))))))))))))))))))))))))))) :: ((Npos (XO
    (XI (XI (XI (XI (XI (XO (XO (XO (XO (XO (XO (XO (XO (XO (XO (XO (XO (XO
    (XO (XO (XO (XO (XO (XO (XO (XI (XO (XO (XO (XO
    XH)))))))))))))))))))))))))))))))) :: ((Npos (XI (XO (XI (XI (XI (XO (XI
    (XI (XO (XO (XO (XO (XO (XO (XO (XO (XO (XO (XO (XO (XO (XO (XO (XO (XO
    (XO (XI (XO (XI (XO (XO XH)))))))))))))))))))))))))))))))) :: ((Npos (XI
    (XI (XO (XI (XI (XO (XO (XO (XI (XO (XO (XO (XO (XO (XO (XO (XO (XO (XO
    (XO (XO (XO (XO (XO (XO (XO (XI (XO (XI (XO (XO
    XH)))))))))))))))))))))))))))))))) :: ((Npos (XO (XI (XI (XI (XO (XI (XI
    (XO (XO (XO (XO (XO (XO (XO (XO (XO (XO (XO (XO (XO (XO (XO (XO (XO (XO
    (XO (XI (XO (XO (XO (XO XH)))))))))))))))))))))))))))))))) :: ((Npos (XO
    (XI (XI (XI (XO (XI (XO (XO (XO (XO (XO (XO (XO (XO (XO (XO (XO (XO (XO
    (XO (XO (XO (XO (XO (XO (XO (XI (XO (XO (XO (XO
    XH)))))))))))))))))))))))))))))))) :: ((Npos (XI (XO (XI (XI (XI (XI (XO
    (XI (XO (XO (XO (XO (XO (XO (XO (XO (XO (XO (XO (XO (XO (XO (XO (XO (XO
    (XO (XI (XO (XI (XO (XO XH)))))))))))))))))))))))))))))))) :: ((Npos (XO
    (XI (XI (XI (XO (XO (XO (XO (XO (XO (XO (XO (XO (XO (XO (XO (XO (XO (XO
    (XO (XO (XO (XO (XO (XO (XO (XI (XO (XO (XO (XO
    XH)))))))))))))))))))))))))))))))) :: ((Npos (XO (XI (XI (XI (XO (XO (XO
    (XI (XO (XO (XO (XO (XO (XO (XO (XO (XO (XO (XO (XO (XO (XO (XO (XO (XO
    (XO (XI (XO (XO (XO (XO XH)))))))))))))))))))))))))))))))) :: ((Npos (XO
    (XI (XI (XI (XO (XO (XI (XO (XO (XO (XO (XO (XO (XO (XO (XO (XO (XO (XO
    (XO (XO (XO (XO (XO (XO (XO (XI (XO (XO (XO (XO
    XH)))))))))))))))))))))))))))))))) :: ((Npos (XI (XO (XI (XI (XI (XI (XI
    (XI (XO (XO (XO (XO (XO (XO (XO (XO (XO (XO (XO (XO (XO (XO (XO (XO (XO
    (XO (XI (XO (XI (XO (XO XH)))))))))))))))))))))))))))))))) :: ((Npos (XO
    (XO (XO (XO (XO (XO (XO (XO (XI (XO (XO (XO (XO (XO (XO (XO (XO (XO (XO
    (XO (XO (XO (XO (XO (XO (XO (XI (XO (XI (XI
    XH))))))))))))))))))))))))))))))) :: ((Npos (XI (XO (XO (XO (XI (XO (XI
    (XO (XO (XO (XO (XO (XO (XO (XO (XO (XO (XO (XO (XO (XO (XO (XO (XO (XO
    (XO (XI (XO (XO (XO (XO XH)))))))))))))))))))))))))))))))) :: ((Npos (XI
    (XO (XO (XO (XI (XO (XO (XO (XO (XO (XO (XO (XO (XO (XO (XO (XO (XO (XO
    (XO (XO (XO (XO (XO (XO (XO (XI (XO (XO (XO (XO
    XH)))))))))))))))))))))))))))))))) :: ((Npos (XO (XI (XI (XI (XO (XO (XO
    (XO (XO (XO (XO (XO (XO (XO (XO (XO (XO (XO (XO (XO (XO (XO (XO (XO (XO
    (XI (XI (XO (XI XH)))))))))))))))))))))))))))))) :: ((Npos (XO (XO (XO
    (XO (XO (XI (XO (XO (XI (XO (XO (XO (XO (XO (XO (XO (XO (XO (XO (XO (XO
    (XO (XO (XO (XO (XO (XI (XO (XI (XO (XO
    XH)))))))))))))))))))))))))))))))) :: ((Npos (XI (XO (XO (XO (XI (XI (XI
    (XO (XO (XO (XO (XO (XO (XO (XO (XO (XO (XO (XO (XO (XO (XO (XO (XO (XO
    (XO (XI (XO (XO (XO (XO XH)))))))))))))))))))))))))))))))) :: ((Npos (XI
    (XO (XO (XO (XI (XI (XO (XO (XO (XO (XO (XO (XO (XO (XO (XO (XO (XO (XO
    (XO (XO (XO (XO (XO (XO (XO (XI (XO (XO (XO (XO
    XH)))))))))))))))))))))))))))))))) :: ((Npos (XI (XI (XO (XO (XO (XO (XI
    (XI (XO (XO (XO (XO (XO (XO (XO (XO (XO (XO (XO (XO (XO (XO (XO (XO (XO
    (XO (XI (XO (XI (XO (XO XH)))))))))))))))))))))))))))))))) :: ((Npos (XO
    (XO (XO (XI (XO (XO (XO (XO (XI (XO (XO (XO (XO (XO (XO (XO (XO (XO (XO
    (XO (XO (XO (XO (XO (XO (XO (XI (XO (XI (XI
    XH))))))))))))))))))))))))))))))) :: ((Npos (XI (XO (XO (XO (XO (XI (XI
    (XO (XO (XO (XO (XO (XO (XO (XO (XO (XO (XO (XO (XO (XO (XO (XO (XO (XO
    (XO (XI (XO (XO (XO (XO XH)))))))))))))))))))))))))))))))) :: ((Npos (XI
    (XO (XO (XO (XO (XI (XO (XO (XO (XO (XO (XO (XO (XO (XO (XO (XO (XO (XO
    (XO (XO (XO (XO (XO (XO (XO (XI (XO (XO (XO (XO
    XH)))))))))))))))))))))))))))))))) :: ((Npos (XI (XI (XO (XO (XO (XI (XO
    (XI (XO (XO (XO (XO (XO (XO (XO (XO (XO (XO (XO (XO (XO (XO (XO (XO (XO
    (XO (XI (XO (XI (XO (XO XH)))))))))))))))))))))))))))))))) :: ((Npos (XI
    (XO (XO (XO (XO (XO (XO (XO (XO (XO (XO (XO (XO (XO (XO (XO (XO (XO (XO
    (XO (XO (XO (XO (XO (XO (XO (XI (XO (XO (XO (XO
    XH)))))))))))))))))))))))))))))))) :: ((Npos (XI (XO (XO (XO (XO (XO (XO
    (XI (XO (XO (XO (XO (XO (XO (XO (XO (XO (XO (XO (XO (XO (XO (XO (XO (XO
    (XO (XI (XO (XO (XO (XO XH)))))))))))))))))))))))))))))))) :: ((Npos (XI
    (XO (XO (XO (XO (XO (XI (XO (XO (XO (XO (XO (XO (XO (XO (XO (XO (XO (XO
    (XO (XO (XO (XO (XO (XO (XO (XI (XO (XO (XO (XO
    XH)))))))))))))))))))))))))))))))) :: ((Npos (XI (XI (XO (XO (XO (XI (XI
    (XI (XO (XO (XO (XO (XO (XO (XO (XO (XO (XO (XO (XO (XO (XO (XO (XO (XO
    (XO (XI (XO (XI (XO (XO XH)))))))))))))))))))))))))))))))) :: ((Npos (XO
    (XO (XI (XO (XO (XO (XO (XO (XI (XO (XO (XO (XO (XO (XO (XO (XO (XO (XO
    (XO (XO (XO (XO (XO (XO (XO (XI (XO (XI (XI
    XH))))))))))))))))))))))))))))))) :: ((Npos (XI (XO (XO (XI (XI (XO (XI
    (XO (XO (XO (XO (XO (XO (XO (XO (XO (XO (XO (XO (XO (XO (XO (XO (XO (XO
    (XO (XI (XO (XO (XO (XO XH)))))))))))))))))))))))))))))))) :: ((Npos (XI
    (XO (XO (XI (XI (XO (XO (XO (XO (XO (XO (XO (XO (XO (XO (XO (XO (XO (XO
    (XO (XO (XO (XO (XO (XO (XO (XI (XO (XO (XO (XO
    XH)))))))))))))))))))))))))))))))) :: ((Npos (XI (XI (XO (XO (XI (XO (XO
    (XI (XO (XO (XO (XO (XO (XO (XO (XO (XO (XO (XO (XO (XO (XO (XO (XO (XO
    (XO (XI (XO (XI (XO (XO XH)))))))))))))))))))))))))))))))) :: ((Npos (XO
    (XO (XO (XO (XO (XO (XI (XO (XI (XO (XO (XO (XO (XO (XO (XO (XO (XO (XO
    (XO (XO (XO (XO (XO (XO (XO (XI (XO (XO (XI (XO
    XH)))))))))))))))))))))))))))))))) :: ((Npos (XI (XO (XO (XI (XI (XI (XI
    (XO (XO (XO (XO (XO (XO (XO (XO (XO (XO (XO (XO (XO (XO (XO (XO (XO (XO
    (XO (XI (XO (XO (XO (XO XH)))))))))))))))))))))))))))))))) :: ((Npos (XI
    (XO (XO (XI (XI (XI (XO (XO (XO (XO (XO (XO (XO (XO (XO (XO (XO (XO (XO
    (XO (XO (XO (XO (XO (XO (XO (XI (XO (XO (XO (XO
    XH)))))))))))))))))))))))))))))))) :: ((Npos (XI (XI (XO (XO (XI (XO (XI
    (XI (XO (XO (XO (XO (XO (XO (XO (XO (XO (XO (XO (XO (XO (XO (XO (XO (XO
    (XO (XI (XO (XI (XO (XO XH)))))))))))))))))))))))))))))))) :: ((Npos (XO
    (XO (XO (XO (XI (XO (XO (XO (XI (XO (XO (XO (XO (XO (XO (XO (XO (XO (XO
    (XO (XO (XO (XO (XO (XO (XO (XI (XO (XO (XO (XO
    XH)))))))))))))))))))))))))))))))) :: ((Npos (XI (XO (XO (XI (XO (XI (XI
    (XO (XO (XO (XO (XO (XO (XO (XO (XO (XO (XO (XO (XO (XO (XO (XO (XO (XO
    (XO (XI (XO (XO (XO (XO XH)))))))))))))))))))))))))))))))) :: ((Npos (XI
    (XO (XO (XI (XO (XI (XO (XO (XO (XO (XO (XO (XO (XO (XO (XO (XO (XO (XO
    (XO (XO (XO (XO (XO (XO (XO (XI (XO (XO (XO (XO
    XH)))))))))))))))))))))))))))))))) :: ((Npos (XI (XI (XO (XO (XI (XI (XO
    (XI (XO (XO (XO (XO (XO (XO (XO (XO (XO (XO (XO (XO (XO (XO (XO (XO (XO
    (XO (XI (XO (XI (XO (XO XH)))))))))))))))))))))))))))))))) :: ((Npos (XI
    (XO (XO (XI (XO (XO (XO (XO (XO (XO (XO (XO (XO (XO (XO (XO (XO (XO (XO
    (XO (XO (XO (XO (XO (XO (XO (XI (XO (XO (XO (XO
    XH)))))))))))))))))))))))))))))))) :: ((Npos (XI (XO (XO (XI (XO (XO (XO
    (XI (XO (XO (XO (XO (XO (XO (XO (XO (XO (XO (XO (XO (XO (XO (XO (XO (XO
    (XO (XI (XO (XO (XO (XO XH)))))))))))))))))))))))))))))))) :: ((Npos (XI
    (XO (XO (XI (XO (XO (XI (XO (XO (XO (XO (XO (XO (XO (XO (XO (XO (XO (XO
    (XO (XO (XO (XO (XO (XO (XO (XI (XO (XO (XO (XO
    XH)))))))))))))))))))))))))))))))) :: ((Npos (XI (XI (XO (XO (XI (XI (XI
    (XI (XO (XO (XO (XO (XO (XO (XO (XO (XO (XO (XO (XO (XO (XO (XO (XO (XO
    (XO (XI (XO (XI (XO (XO XH)))))))))))))))))))))))))))))))) :: ((Npos (XO
    (XI (XO (XO (XO (XO (XO (XO (XI (XO (XO (XO (XO (XO (XO (XO (XO (XO (XO
    (XO (XO (XO (XO (XO (XO (XO (XI (XO (XI (XI
    XH))))))))))))))))))))))))))))))) :: ((Npos (XI (XO (XI (XO (XI (XO (XI
    (XO (XO (XO (XO (XO (XO (XO (XO (XO (XO (XO (XO (XO (XO (XO (XO (XO (XO
    (XO (XI (XO (XO (XO (XO XH)))))))))))))))))))))))))))))))) :: ((Npos (XI
    (XO (XI (XO (XI (XO (XO (XO (XO (XO (XO (XO (XO (XO (XO (XO (XO (XO (XO
    (XO (XO (XO (XO (XO (XO (XO (XI (XO (XO (XO (XO
    XH)))))))))))))))))))))))))))))))) :: ((Npos (XO (XO (XO (XO (XO (XO (XO
    (XO (XO (XI (XO (XO (XO (XO (XO (XO (XO (XO (XO (XO (XO (XO (XO (XO (XO
    (XO (XI (XO (XO (XO (XO XH)))))))))))))))))))))))))))))))) :: ((Npos (XO
    (XO (XO (XO (XI (XI (XO (XO (XI (XO (XO (XO (XO (XO (XO (XO (XO (XO (XO
    (XO (XO (XO (XO (XO (XO (XO (XI (XO (XO (XI (XO
    XH)))))))))))))))))))))))))))))))) :: ((Npos (XI (XO (XI (XO (XI (XI (XI
    (XO (XO (XO (XO (XO (XO (XO (XO (XO (XO (XO (XO (XO (XO (XO (XO (XO (XO
    (XO (XI (XO (XO (XO (XO XH)))))))))))))))))))))))))))))))) :: ((Npos (XI
    (XO (XI (XO (XI (XI (XO (XO (XO (XO (XO (XO (XO (XO (XO (XO (XO (XO (XO
    (XO (XO (XO (XO (XO (XO (XO (XI (XO (XO (XO (XO
    XH)))))))))))))))))))))))))))))))) :: ((Npos (XI (XI (XO (XI (XO (XO (XI
    (XI (XO (XO (XO (XO (XO (XO (XO (XO (XO (XO (XO (XO (XO (XO (XO (XO (XO
    (XO (XI (XO (XI (XO (XO XH)))))))))))))))))))))))))))))))) :: ((Npos (XO
    (XO (XI (XI (XO (XO (XO (XO (XI (XO (XO (XO (XO (XO (XO (XO (XO (XO (XO
    (XO (XO (XO (XO (XO (XO (XO (XI (XO (XO (XO (XO
    XH)))))))))))))))))))))))))))))))) :: ((Npos (XI (XO (XI (XO (XO (XI (XI
    (XO (XO (XO (XO (XO (XO (XO (XO (XO (XO (XO (XO (XO (XO (XO (XO (XO (XO
    (XO (XI (XO (XO (XO (XO XH)))))))))))))))))))))))))))))))) :: ((Npos (XI
    (XO (XI (XO (XO (XI (XO (XO (XO (XO (XO (XO (XO (XO (XO (XO (XO (XO (XO
    (XO (XO (XO (XO (XO (XO (XO (XI (XO (XO (XO (XO
    XH)))))))))))))))))))))))))))))))) :: ((Npos (XI (XI (XO (XI (XO (XI (XO
    (XI (XO (XO (XO (XO (XO (XO (XO (XO (XO (XO (XO (XO (XO (XO (XO (XO (XO
    (XO (XI (XO (XI (XO (XO XH)))))))))))))))))))))))))))))))) :: ((Npos (XI
    (XO (XI (XO (XO (XO (XO (XO (XO (XO (XO (XO (XO (XO (XO (XO (XO (XO (XO
    (XO (XO (XO (XO (XO (XO (XO (XI (XO (XO (XO (XO
    XH)))))))))))))))))))))))))))))))) :: ((Npos (XI (XO (XI (XO (XO (XO (XO
    (XI (XO (XO (XO (XO (XO (XO (XO (XO (XO (XO (XO (XO (XO (XO (XO (XO (XO
    (XO (XI (XO (XO (XO (XO XH)))))))))))))))))))))))))))))))) :: ((Npos (XI
    (XO (XI (XO (XO (XO (XI (XO (XO (XO (XO (XO (XO (XO (XO (XO (XO (XO (XO
    (XO (XO (XO (XO (XO (XO (XO (XI (XO (XO (XO (XO
    XH)))))))))))))))))))))))))))))))) :: ((Npos (XI (XI (XO (XI (XO (XI (XI
    (XI (XO (XO (XO (XO (XO (XO (XO (XO (XO (XO (XO (XO (XO (XO (XO (XO (XO
    (XO (XI (XO (XI (XO (XO XH)))))))))))))))))))))))))))))))) :: ((Npos (XO
    (XI (XI (XO (XO (XO (XO (XO (XI (XO (XO (XO (XO (XO (XO (XO (XO (XO (XO
    (XO (XO (XO (XO (XO (XO (XO (XI (XO (XI (XI
    XH))))))))))))))))))))))))))))))) :: ((Npos (XI (XO (XI (XI (XI (XO (XI
    (XO (XO (XO (XO (XO (XO (XO (XO (XO (XO (XO (XO (XO (XO (XO (XO (XO (XO
    (XO (XI (XO (XO (XO (XO XH)))))))))))))))))))))))))))))))) :: ((Npos (XI
    (XO (XI (XI (XI (XO (XO (XO (XO (XO (XO (XO (XO (XO (XO (XO (XO (XO (XO
    (XO (XO (XO (XO (XO (XO (XO (XI (XO (XO (XO (XO
    XH)))))))))))))))))))))))))))))))) :: ((Npos (XI (XI (XO (XI (XI (XO (XO
    (XI (XO (XO (XO (XO (XO (XO (XO (XO (XO (XO (XO (XO (XO (XO (XO (XO (XO
    (XO (XI (XO (XI (XO (XO XH)))))))))))))))))))))))))))))))) :: ((Npos (XO
    (XO (XO (XO (XO (XI (XI (XO (XI (XO (XO (XO (XO (XO (XO (XO (XO (XO (XO
    (XO (XO (XO (XO (XO (XO (XO (XI (XO (XI (XI (XO
    XH)))))))))))))))))))))))))))))))) :: ((Npos (XI (XO (XI (XI (XI (XI (XI
    (XO (XO (XO (XO (XO (XO (XO (XO (XO (XO (XO (XO (XO (XO (XO (XO (XO (XO
    (XO (XI (XO (XO (XO (XO XH)))))))))))))))))))))))))))))))) :: ((Npos (XI
    (XO (XI (XI (XI (XI (XO (XO (XO (XO (XO (XO (XO (XO (XO (XO (XO (XO (XO
    (XO (XO (XO (XO (XO (XO (XO (XI (XO (XO (XO (XO
    XH)))))))))))))))))))))))))))))))) :: ((Npos (XI (XI (XO (XI (XI (XO (XI
    (XI (XO (XO (XO (XO (XO (XO (XO (XO (XO (XO (XO (XO (XO (XO (XO (XO (XO
    (XO (XI (XO (XI (XO (XO XH)))))))))))))))))))))))))))))))) :: ((Npos (XO
    (XO (XO (XI (XI (XO (XO (XO (XI (XO (XO (XO (XO (XO (XO (XO (XO (XO (XO
    (XO (XO (XO (XO (XO (XO (XO (XI (XO (XI (XO (XO
    XH)))))))))))))))))))))))))))))))) :: ((Npos (XI (XO (XI (XI (XO (XI (XI
    (XO (XO (XO (XO (XO (XO (XO (XO (XO (XO (XO (XO (XO (XO (XO (XO (XO (XO
    (XO (XI (XO (XO (XO (XO XH)))))))))))))))))))))))))))))))) :: ((Npos (XI
    (XO (XI (XI (XO (XI (XO (XO (XO (XO (XO (XO (XO (XO (XO (XO (XO (XO (XO
    (XO (XO (XO (XO (XO (XO (XO (XI (XO (XO (XO (XO
    XH)))))))))))))))))))))))))))))))) :: ((Npos (XI (XI (XO (XI (XI (XI (XO
    (XI (XO (XO (XO (XO (XO (XO (XO (XO (XO (XO (XO (XO (XO (XO (XO (XO (XO
    (XO (XI (XO (XI (XO (XO XH)))))))))))))))))))))))))))))))) :: ((Npos (XI
    (XO (XI (XI (XO (XO (XO (XO (XO (XO (XO (XO (XO (XO (XO (XO (XO (XO (XO
    (XO (XO (XO (XO (XO (XO (XO (XI (XO (XO (XO (XO
    XH)))))))))))))))))))))))))))))))) :: ((Npos (XI (XO (XI (XI (XO (XO (XO
    (XI (XO (XO (XO (XO (XO (XO (XO (XO (XO (XO (XO (XO (XO (XO (XO (XO (XO
    (XO (XI (XO (XO (XO (XO XH)))))))))))))))))))))))))))))))) :: ((Npos (XI
    (XO (XI (XI (XO (XO (XI (XO (XO (XO (XO (XO (XO (XO (XO (XO (XO (XO (XO
    (XO (XO (XO (XO (XO (XO (XO (XI (XO (XO (XO (XO
    XH)))))))))))))))))))))))))))))))) :: ((Npos (XI (XI (XO (XI (XI (XI (XI
    (XI (XO (XO (XO (XO (XO (XO (XO (XO (XO (XO (XO (XO (XO (XO (XO (XO (XO
    (XO (XI (XO (XI (XO (XO XH)))))))))))))))))))))))))))))))) :: ((Npos (XI
    (XO (XO (XO (XO (XO (XO (XO (XI (XO (XO (XO (XO (XO (XO (XO (XO (XO (XO
    (XO (XO (XO (XO (XO (XO (XO (XI (XO (XI (XI
    XH))))))))))))))))))))))))))))))) :: ((Npos (XI (XI (XO (XO (XI (XO (XI
    (XO (XO (XO (XO (XO (XO (XO (XO (XO (XO (XO (XO (XO (XO (XO (XO (XO (XO
    (XO (XI (XO (XO (XO (XO XH)))))))))))))))))))))))))))))))) :: ((Npos (XI
    (XI (XO (XO (XI (XO (XO (XO (XO (XO (XO (XO (XO (XO (XO (XO (XO (XO (XO
    (XO (XO (XO (XO (XO (XO (XO (XI (XO (XO (XO (XO
    XH)))))))))))))))))))))))))))))))) :: ((Npos (XO (XI (XI (XI (XO (XO (XI
    (XO (XO (XO (XO (XO (XO (XO (XO (XO (XO (XO (XO (XO (XO (XO (XO (XO (XO
    (XI (XI (XO (XI XH)))))))))))))))))))))))))))))) :: ((Npos (XO (XO (XO
    (XI (XO (XI (XO (XO (XI (XO (XO (XO (XO (XO (XO (XO (XO (XO (XO (XO (XO
    (XO (XO (XO (XO (XO (XI (XO (XO (XI (XO
    XH)))))))))))))))))))))))))))))))) :: ((Npos (XI (XI (XO (XO (XI (XI (XI
    (XO (XO (XO (XO (XO (XO (XO (XO (XO (XO (XO (XO (XO (XO (XO (XO (XO (XO
    (XO (XI (XO (XO (XO (XO XH)))))))))))))))))))))))))))))))) :: ((Npos (XI
    (XI (XO (XO (XI (XI (XO (XO (XO (XO (XO (XO (XO (XO (XO (XO (XO (XO (XO
    (XO (XO (XO (XO (XO (XO (XO (XI (XO (XO (XO (XO
    XH)))))))))))))))))))))))))))))))) :: ((Npos (XI (XI (XI (XO (XO (XO (XI
    (XI (XO (XO (XO (XO (XO (XO (XO (XO (XO (XO (XO (XO (XO (XO (XO (XO (XO
    (XO (XI (XO (XI (XO (XO XH)))))))))))))))))))))))))))))))) :: ((Npos (XO
    (XI (XO (XI (XO (XO (XO (XO (XI (XO (XO (XO (XO (XO (XO (XO (XO (XO (XO
    (XO (XO (XO (XO (XO (XO (XO (XI (XO (XO (XO (XO
    XH)))))))))))))))))))))))))))))))) :: ((Npos (XI (XI (XO (XO (XO (XI (XI
    (XO (XO (XO (XO (XO (XO (XO (XO (XO (XO (XO (XO (XO (XO (XO (XO (XO (XO
    (XO (XI (XO (XO (XO (XO XH)))))))))))))))))))))))))))))))) :: ((Npos (XI
    (XI (XO (XO (XO (XI (XO (XO (XO (XO (XO (XO (XO (XO (XO (XO (XO (XO (XO
    (XO (XO (XO (XO (XO (XO (XO (XI (XO (XO (XO (XO
    XH)))))))))))))))))))))))))))))))) :: ((Npos (XI (XI (XI (XO (XO (XI (XO
    (XI (XO (XO (XO (XO (XO (XO (XO (XO (XO (XO (XO (XO (XO (XO (XO (XO (XO
    (XO (XI (XO (XI (XO (XO XH)))))))))))))))))))))))))))))))) :: ((Npos (XI
    (XI (XO (XO (XO (XO (XO (XO (XO (XO (XO (XO (XO (XO (XO (XO (XO (XO (XO
    (XO (XO (XO (XO (XO (XO (XO (XI (XO (XO (XO (XO
    XH)))))))))))))))))))))))))))))))) :: ((Npos (XI (XI (XO (XO (XO (XO (XO
    (XI (XO (XO (XO (XO (XO (XO (XO (XO (XO (XO (XO (XO (XO (XO (XO (XO (XO
    (XO (XI (XO (XO (XO (XO XH)))))))))))))))))))))))))))))))) :: ((Npos (XI
    (XI (XO (XO (XO (XO (XI (XO (XO (XO (XO (XO (XO (XO (XO (XO (XO (XO (XO
    (XO (XO (XO (XO (XO (XO (XO (XI (XO (XO (XO (XO
    XH)))))))))))))))))))))))))))))))) :: ((Npos (XI (XI (XI (XO (XO (XI (XI
    (XI (XO (XO (XO (XO (XO (XO (XO (XO (XO (XO (XO (XO (XO (XO (XO (XO (XO
    (XO (XI (XO (XI (XO (XO XH)))))))))))))))))))))))))))))))) :: ((Npos (XI
    (XO (XI (XO (XO (XO (XO (XO (XI (XO (XO (XO (XO (XO (XO (XO (XO (XO (XO
    (XO (XO (XO (XO (XO (XO (XO (XI (XO (XI (XI
    XH))))))))))))))))))))))))))))))) :: ((Npos (XI (XI (XO (XI (XI (XO (XI
    (XO (XO (XO (XO (XO (XO (XO (XO (XO (XO (XO (XO (XO (XO (XO (XO (XO (XO
    (XO (XI (XO (XO (XO (XO XH)))))))))))))))))))))))))))))))) :: ((Npos (XI
    (XI (XO (XI (XI (XO (XO (XO (XO (XO (XO (XO (XO (XO (XO (XO (XO (XO (XO
    (XO (XO (XO (XO (XO (XO (XO (XI (XO (XO (XO (XO
    XH)))))))))))))))))))))))))))))))) :: ((Npos (XI (XI (XI (XO (XI (XO (XO
    (XI (XO (XO (XO (XO (XO (XO (XO (XO (XO (XO (XO (XO (XO (XO (XO (XO (XO
    (XO (XI (XO (XI (XO (XO XH)))))))))))))))))))))))))))))))) :: ((Npos (XO
    (XO (XO (XO (XI (XO (XI (XO (XI (XO (XO (XO (XO (XO (XO (XO (XO (XO (XO
    (XO (XO (XO (XO (XO (XO (XO (XI (XO (XI (XI (XO
    XH)))))))))))))))))))))))))))))))) :: ((Npos (XI (XI (XO (XI (XI (XI (XI
    (XO (XO (XO (XO (XO (XO (XO (XO (XO (XO (XO (XO (XO (XO (XO (XO (XO (XO
    (XO (XI (XO (XO (XO (XO XH)))))))))))))))))))))))))))))))) :: ((Npos (XI
    (XI (XO (XI (XI (XI (XO (XO (XO (XO (XO (XO (XO (XO (XO (XO (XO (XO (XO
    (XO (XO (XO (XO (XO (XO (XO (XI (XO (XO (XO (XO
    XH)))))))))))))))))))))))))))))))) :: ((Npos (XI (XI (XI (XO (XI (XO (XI
    (XI (XO (XO (XO (XO (XO (XO (XO (XO (XO (XO (XO (XO (XO (XO (XO (XO (XO
    (XO (XI (XO (XI (XO (XO XH)))))))))))))))))))))))))))))))) :: ((Npos (XO
    (XO (XI (XO (XI (XO (XO (XO (XI (XO (XO (XO (XO (XO (XO (XO (XO (XO (XO
    (XO (XO (XO (XO (XO (XO (XO (XI (XO (XI (XO (XO
    XH)))))))))))))))))))))))))))))))) :: ((Npos (XI (XI (XO (XI (XO (XI (XI
    (XO (XO (XO (XO (XO (XO (XO (XO (XO (XO (XO (XO (XO (XO (XO (XO (XO (XO
    (XO (XI (XO (XO (XO (XO XH)))))))))))))))))))))))))))))))) :: ((Npos (XI
    (XI (XO (XI (XO (XI (XO (XO (XO (XO (XO (XO (XO (XO (XO (XO (XO (XO (XO
    (XO (XO (XO (XO (XO (XO (XO (XI (XO (XO (XO (XO
    XH)))))))))))))))))))))))))))))))) :: ((Npos (XI (XI (XI (XO (XI (XI (XO
    (XI (XO (XO (XO (XO (XO (XO (XO (XO (XO (XO (XO (XO (XO (XO (XO (XO (XO
    (XO (XI (XO (XI (XO (XO XH)))))))))))))))))))))))))))))))) :: ((Npos (XI
    (XI (XO (XI (XO (XO (XO (XO (XO (XO (XO (XO (XO (XO (XO (XO (XO (XO (XO
    (XO (XO (XO (XO (XO (XO (XO (XI (XO (XO (XO (XO
    XH)))))))))))))))))))))))))))))))) :: ((Npos (XI (XI (XO (XI (XO (XO (XO
    (XI (XO (XO (XO (XO (XO (XO (XO (XO (XO (XO (XO (XO (XO (XO (XO (XO (XO
    (XO (XI (XO (XO (XO (XO XH)))))))))))))))))))))))))))))))) :: ((Npos (XI
    (XI (XO (XI (XO (XO (XI (XO (XO (XO (XO (XO (XO (XO (XO (XO (XO (XO (XO
    (XO (XO (XO (XO (XO (XO (XO (XI (XO (XO (XO (XO
    XH)))))))))))))))))))))))))))))))) :: ((Npos (XI (XI (XI (XO (XI (XI (XI
    (XI (XO (XO (XO (XO (XO (XO (XO (XO (XO (XO (XO (XO (XO (XO (XO (XO (XO
    (XO (XI (XO (XI (XO (XO XH)))))))))))))))))))))))))))))))) :: ((Npos (XI
    (XI (XO (XO (XO (XO (XO (XO (XI (XO (XO (XO (XO (XO (XO (XO (XO (XO (XO
    (XO (XO (XO (XO (XO (XO (XO (XI (XO (XI (XI
    XH))))))))))))))))))))))))))))))) :: ((Npos (XI (XI (XI (XO (XI (XO (XI
    (XO (XO (XO (XO (XO (XO (XO (XO (XO (XO (XO (XO (XO (XO (XO (XO (XO (XO
    (XO (XI (XO (XO (XO (XO XH)))))))))))))))))))))))))))))))) :: ((Npos (XI
    (XI (XI (XO (XI (XO (XO (XO (XO (XO (XO (XO (XO (XO (XO (XO (XO (XO (XO
    (XO (XO (XO (XO (XO (XO (XO (XI (XO (XO (XO (XO
    XH)))))))))))))))))))))))))))))))) :: (N0 :: ((Npos (XO (XO (XO (XI (XI
    (XI (XO (XO (XI (XO (XO (XO (XO (XO (XO (XO (XO (XO (XO (XO (XO (XO (XO
    (XO (XO (XO (XI (XO (XO (XI (XO
    XH)))))))))))))))))))))))))))))))) :: ((Npos (XI (XI (XI (XO (XI (XI (XI
    (XO (XO (XO (XO (XO (XO (XO (XO (XO (XO (XO (XO (XO (XO (XO (XO (XO (XO
    (XO (XI (XO (XO (XO (XO XH)))))))))))))))))))))))))))))))) :: ((Npos (XI
    (XI (XI (XO (XI (XI (XO (XO (XO (XO (XO (XO (XO (XO (XO (XO (XO (XO (XO
    (XO (XO (XO (XO (XO (XO (XO (XI (XO (XO (XO (XO
    XH)))))))))))))))))))))))))))))))) :: ((Npos (XI (XI (XI (XI (XO (XO (XI
    (XI (XO (XO (XO (XO (XO (XO (XO (XO (XO (XO (XO (XO (XO (XO (XO (XO (XO
    (XO (XI (XO (XI (XO (XO XH)))))))))))))))))))))))))))))))) :: ((Npos (XO
    (XI (XI (XI (XO (XO (XO (XO (XI (XO (XO (XO (XO (XO (XO (XO (XO (XO (XO
    (XO (XO (XO (XO (XO (XO (XO (XI (XO (XO (XO (XO
    XH)))))))))))))))))))))))))))))))) :: ((Npos (XI (XI (XI (XO (XO (XI (XI
    (XO (XO (XO (XO (XO (XO (XO (XO (XO (XO (XO (XO (XO (XO (XO (XO (XO (XO
    (XO (XI (XO (XO (XO (XO XH)))))))))))))))))))))))))))))))) :: ((Npos (XI
    (XI (XI (XO (XO (XI (XO (XO (XO (XO (XO (XO (XO (XO (XO (XO (XO (XO (XO
    (XO (XO (XO (XO (XO (XO (XO (XI (XO (XO (XO (XO
    XH)))))))))))))))))))))))))))))))) :: ((Npos (XI (XI (XI (XI (XO (XI (XO
    (XI (XO (XO (XO (XO (XO (XO (XO (XO (XO (XO (XO (XO (XO (XO (XO (XO (XO
    (XO (XI (XO (XI (XO (XO XH)))))))))))))))))))))))))))))))) :: ((Npos (XI
    (XI (XI (XO (XO (XO (XO (XO (XO (XO (XO (XO (XO (XO (XO (XO (XO (XO (XO
    (XO (XO (XO (XO (XO (XO (XO (XI (XO (XO (XO (XO
    XH)))))))))))))))))))))))))))))))) :: ((Npos (XI (XI (XI (XO (XO (XO (XO
    (XI (XO (XO (XO (XO (XO (XO (XO (XO (XO (XO (XO (XO (XO (XO (XO (XO (XO
    (XO (XI (XO (XO (XO (XO XH)))))))))))))))))))))))))))))))) :: ((Npos (XI
    (XI (XI (XO (XO (XO (XI (XO (XO (XO (XO (XO (XO (XO (XO (XO (XO (XO (XO
    (XO (XO (XO (XO (XO (XO (XO (XI (XO (XO (XO (XO
    XH)))))))))))))))))))))))))))))))) :: ((Npos (XI (XI (XI (XI (XO (XI (XI
    (XI (XO (XO (XO (XO (XO (XO (XO (XO (XO (XO (XO (XO (XO (XO (XO (XO (XO
    (XO (XI (XO (XI (XO (XO XH)))))))))))))))))))))))))))))))) :: ((Npos (XI
    (XI (XI (XO (XO (XO (XO (XO (XI (XO (XO (XO (XO (XO (XO (XO (XO (XO (XO
    (XO (XO (XO (XO (XO (XO (XO (XI (XO (XI (XI
    XH))))))))))))))))))))))))))))))) :: ((Npos (XI (XI (XI (XI (XI (XO (XI
    (XO (XO (XO (XO (XO (XO (XO (XO (XO (XO (XO (XO (XO (XO (XO (XO (XO (XO
    (XO (XI (XO (XO (XO (XO XH)))))))))))))))))))))))))))))))) :: ((Npos (XI
    (XI (XI (XI (XI (XO (XO (XO (XO (XO (XO (XO (XO (XO (XO (XO (XO (XO (XO
    (XO (XO (XO (XO (XO (XO (XO (XI (XO (XO (XO (XO
    XH)))))))))))))))))))))))))))))))) :: ((Npos (XI (XI (XI (XI (XI (XO (XO
    (XI (XO (XO (XO (XO (XO (XO (XO (XO (XO (XO (XO (XO (XO (XO (XO (XO (XO
    (XO (XI (XO (XI (XO (XO XH)))))))))))))))))))))))))))))))) :: ((Npos (XO
    (XO (XO (XO (XI (XI (XI (XO (XI (XO (XO (XO (XO (XO (XO (XO (XO (XO (XO
    (XO (XO (XO (XO (XO (XO (XO (XI (XO (XI (XI (XO
    XH)))))))))))))))))))))))))))))))) :: ((Npos (XI (XI (XI (XI (XI (XI (XI
    (XO (XO (XO (XO (XO (XO (XO (XO (XO (XO (XO (XO (XO (XO (XO (XO (XO (XO
    (XO (XI (XO (XO (XO (XO XH)))))))))))))))))))))))))))))))) :: ((Npos (XI
    (XI (XI (XI (XI (XI (XO (XO (XO (XO (XO (XO (XO (XO (XO (XO (XO (XO (XO
    (XO (XO (XO (XO (XO (XO (XO (XI (XO (XO (XO (XO
    XH)))))))))))))))))))))))))))))))) :: ((Npos (XI (XI (XI (XI (XI (XO (XI
    (XI (XO (XO (XO (XO (XO (XO (XO (XO (XO (XO (XO (XO (XO (XO (XO (XO (XO
    (XO (XI (XO (XI (XO (XO XH)))))))))))))))))))))))))))))))) :: ((Npos (XO
    (XO (XI (XI (XI (XO (XO (XO (XI (XO (XO (XO (XO (XO (XO (XO (XO (XO (XO
    (XO (XO (XO (XO (XO (XO (XO (XI (XO (XI (XO (XO
    XH)))))))))))))))))))))))))))))))) :: ((Npos (XI (XI (XI (XI (XO (XI (XI
    (XO (XO (XO (XO (XO (XO (XO (XO (XO (XO (XO (XO (XO (XO (XO (XO (XO (XO
    (XO (XI (XO (XO (XO (XO XH)))))))))))))))))))))))))))))))) :: ((Npos (XI
    (XI (XI (XI (XO (XI (XO (XO (XO (XO (XO (XO (XO (XO (XO (XO (XO (XO (XO
    (XO (XO (XO (XO (XO (XO (XO (XI (XO (XO (XO (XO
    XH)))))))))))))))))))))))))))))))) :: ((Npos (XI (XI (XI (XI (XI (XI (XO
    (XI (XO (XO (XO (XO (XO (XO (XO (XO (XO (XO (XO (XO (XO (XO (XO (XO (XO
    (XO (XI (XO (XI (XO (XO XH)))))))))))))))))))))))))))))))) :: ((Npos (XI
    (XI (XI (XI (XO (XO (XO (XO (XO (XO (XO (XO (XO (XO (XO (XO (XO (XO (XO
    (XO (XO (XO (XO (XO (XO (XO (XI (XO (XO (XO (XO
    XH)))))))))))))))))))))))))))))))) :: ((Npos (XI (XI (XI (XI (XO (XO (XO
    (XI (XO (XO (XO (XO (XO (XO (XO (XO (XO (XO (XO (XO (XO (XO (XO (XO (XO
    (XO (XI (XO (XO (XO (XO XH)))))))))))))))))))))))))))))))) :: ((Npos (XI
    (XI (XI (XI (XO (XO (XI (XO (XO (XO (XO (XO (XO (XO (XO (XO (XO (XO (XO
    (XO (XO (XO (XO (XO (XO (XO (XI (XO (XO (XO (XO
    XH)))))))))))))))))))))))))))))))) :: ((Npos (XI (XI (XI (XI (XI (XI (XI
    (XI (XO (XO (XO (XO (XO (XO (XO (XO (XO (XO (XO (XO (XO (XO (XO (XO (XO
    (XO (XI (XO (XI (XO (XO XH)))))))))))))))))))))))))))))))) :: ((Npos (XO
    (XO (XO (XO (XO (XO (XO (XO (XI (XO (XO (XO (XO (XO (XO (XO (XO (XO (XO
    (XO (XO (XO (XO (XO (XO (XO (XI (XO (XI (XI
    XH))))))))))))))))))))))))))))))) :: ((Npos (XO (XO (XO (XO (XI (XO (XI
    (XO (XO (XO (XO (XO (XO (XO (XO (XO (XO (XO (XO (XO (XO (XO (XO (XO (XO
    (XO (XI (XO (XO (XO (XO XH)))))))))))))))))))))))))))))))) :: ((Npos (XO
    (XO (XO (XO (XI (XO (XO (XO (XO (XO (XO (XO (XO (XO (XO (XO (XO (XO (XO
    (XO (XO (XO (XO (XO (XO (XO (XI (XO (XO (XO (XO
    XH)))))))))))))))))))))))))))))))) :: ((Npos (XI (XO (XO (XI (XI (XI (XI
    (XO (XI (XO (XO (XO (XO (XO (XO (XO (XO (XO (XO (XO (XO (XO (XO (XO (XO
    (XO (XI (XO (XO (XO (XI XH)))))))))))))))))))))))))))))))) :: ((Npos (XI
    (XO (XI (XI (XI (XO (XO (XO (XI (XO (XO (XO (XO (XO (XO (XO (XO (XO (XO
    (XO (XO (XO (XO (XO (XO (XO (XI (XO (XI (XO (XO
    XH)))))))))))))))))))))))))))))))) :: ((Npos (XO (XO (XO (XO (XI (XI (XI
    (XO (XO (XO (XO (XO (XO (XO (XO (XO (XO (XO (XO (XO (XO (XO (XO (XO (XO
    (XO (XI (XO (XO (XO (XO XH)))))))))))))))))))))))))))))))) :: ((Npos (XO
    (XO (XO (XO (XI (XI (XO (XO (XO (XO (XO (XO (XO (XO (XO (XO (XO (XO (XO
    (XO (XO (XO (XO (XO (XO (XO (XI (XO (XO (XO (XO
    XH)))))))))))))))))))))))))))))))) :: ((Npos (XO (XO (XO (XO (XO (XO (XI
    (XI (XO (XO (XO (XO (XO (XO (XO (XO (XO (XO (XO (XO (XO (XO (XO (XO (XO
    (XO (XI (XO (XI (XO (XO XH)))))))))))))))))))))))))))))))) :: ((Npos (XO
    (XO (XO (XI (XO (XO (XO (XO (XI (XO (XO (XO (XO (XO (XO (XO (XO (XO (XO
    (XO (XO (XO (XO (XO (XO (XO (XI (XO (XI (XI
    XH))))))))))))))))))))))))))))))) :: ((Npos (XO (XO (XO (XO (XO (XI (XI
    (XO (XO (XO (XO (XO (XO (XO (XO (XO (XO (XO (XO (XO (XO (XO (XO (XO (XO
    (XO (XI (XO (XO (XO (XO XH)))))))))))))))))))))))))))))))) :: ((Npos (XO
    (XO (XO (XO (XO (XI (XO (XO (XO (XO (XO (XO (XO (XO (XO (XO (XO (XO (XO
    (XO (XO (XO (XO (XO (XO (XO (XI (XO (XO (XO (XO
    XH)))))))))))))))))))))))))))))))) :: ((Npos (XO (XO (XO (XO (XO (XI (XO
    (XI (XO (XO (XO (XO (XO (XO (XO (XO (XO (XO (XO (XO (XO (XO (XO (XO (XO
    (XO (XI (XO (XI (XO (XO XH)))))))))))))))))))))))))))))))) :: ((Npos (XO
    (XO (XO (XO (XO (XO (XO (XO (XO (XO (XO (XO (XO (XO (XO (XO (XO (XO (XO
    (XO (XO (XO (XO (XO (XO (XO (XI (XO (XO (XO (XO
    XH)))))))))))))))))))))))))))))))) :: ((Npos (XO (XO (XO (XO (XO (XO (XO
    (XI (XO (XO (XO (XO (XO (XO (XO (XO (XO (XO (XO (XO (XO (XO (XO (XO (XO
    (XO (XI (XO (XO (XO (XO XH)))))))))))))))))))))))))))))))) :: ((Npos (XO
    (XO (XO (XO (XO (XO (XI (XO (XO (XO (XO (XO (XO (XO (XO (XO (XO (XO (XO
    (XO (XO (XO (XO (XO (XO (XO (XI (XO (XO (XO (XO
    XH)))))))))))))))))))))))))))))))) :: ((Npos (XO (XO (XO (XO (XO (XI (XI
    (XI (XO (XO (XO (XO (XO (XO (XO (XO (XO (XO (XO (XO (XO (XO (XO (XO (XO
    (XO (XI (XO (XI (XO (XO XH)))))))))))))))))))))))))))))))) :: ((Npos (XO
    (XO (XI (XO (XO (XO (XO (XO (XI (XO (XO (XO (XO (XO (XO (XO (XO (XO (XO
    (XO (XO (XO (XO (XO (XO (XO (XI (XO (XI (XI
    XH))))))))))))))))))))))))))))))) :: ((Npos (XO (XO (XO (XI (XI (XO (XI
    (XO (XO (XO (XO (XO (XO (XO (XO (XO (XO (XO (XO (XO (XO (XO (XO (XO (XO
    (XO (XI (XO (XO (XO (XO XH)))))))))))))))))))))))))))))))) :: ((Npos (XO
    (XO (XO (XI (XI (XO (XO (XO (XO (XO (XO (XO (XO (XO (XO (XO (XO (XO (XO
    (XO (XO (XO (XO (XO (XO (XO (XI (XO (XO (XO (XO
    XH)))))))))))))))))))))))))))))))) :: ((Npos (XO (XO (XO (XO (XI (XO (XO
    (XI (XO (XO (XO (XO (XO (XO (XO (XO (XO (XO (XO (XO (XO (XO (XO (XO (XO
    (XO (XI (XO (XI (XO (XO XH)))))))))))))))))))))))))))))))) :: ((Npos (XI
    (XO (XO (XI (XI (XI (XO (XO (XI (XO (XO (XO (XO (XO (XO (XO (XO (XO (XO
    (XO (XO (XO (XO (XO (XO (XO (XI (XO (XO (XI (XO
    XH)))))))))))))))))))))))))))))))) :: ((Npos (XO (XO (XO (XI (XI (XI (XI
    (XO (XO (XO (XO (XO (XO (XO (XO (XO (XO (XO (XO (XO (XO (XO (XO (XO (XO
    (XO (XI (XO (XO (XO (XO XH)))))))))))))))))))))))))))))))) :: ((Npos (XO
    (XO (XO (XI (XI (XI (XO (XO (XO (XO (XO (XO (XO (XO (XO (XO (XO (XO (XO
    (XO (XO (XO (XO (XO (XO (XO (XI (XO (XO (XO (XO
    XH)))))))))))))))))))))))))))))))) :: ((Npos (XO (XO (XO (XO (XI (XO (XI
    (XI (XO (XO (XO (XO (XO (XO (XO (XO (XO (XO (XO (XO (XO (XO (XO (XO (XO
    (XO (XI (XO (XI (XO (XO XH)))))))))))))))))))))))))))))))) :: ((Npos (XI
    (XI (XI (XI (XO (XO (XO (XO (XI (XO (XO (XO (XO (XO (XO (XO (XO (XO (XO
    (XO (XO (XO (XO (XO (XO (XO (XI (XO (XO (XO (XO
    XH)))))))))))))))))))))))))))))))) :: ((Npos (XO (XO (XO (XI (XO (XI (XI
    (XO (XO (XO (XO (XO (XO (XO (XO (XO (XO (XO (XO (XO (XO (XO (XO (XO (XO
    (XO (XI (XO (XO (XO (XO XH)))))))))))))))))))))))))))))))) :: ((Npos (XO
    (XO (XO (XI (XO (XI (XO (XO (XO (XO (XO (XO (XO (XO (XO (XO (XO (XO (XO
    (XO (XO (XO (XO (XO (XO (XO (XI (XO (XO (XO (XO
    XH)))))))))))))))))))))))))))))))) :: ((Npos (XO (XO (XO (XO (XI (XI (XO
    (XI (XO (XO (XO (XO (XO (XO (XO (XO (XO (XO (XO (XO (XO (XO (XO (XO (XO
    (XO (XI (XO (XI (XO (XO XH)))))))))))))))))))))))))))))))) :: ((Npos (XO
    (XO (XO (XI (XO (XO (XO (XO (XO (XO (XO (XO (XO (XO (XO (XO (XO (XO (XO
    (XO (XO (XO (XO (XO (XO (XO (XI (XO (XO (XO (XO
    XH)))))))))))))))))))))))))))))))) :: ((Npos (XO (XO (XO (XI (XO (XO (XO
    (XI (XO (XO (XO (XO (XO (XO (XO (XO (XO (XO (XO (XO (XO (XO (XO (XO (XO
    (XO (XI (XO (XO (XO (XO XH)))))))))))))))))))))))))))))))) :: ((Npos (XO
    (XO (XO (XI (XO (XO (XI (XO (XO (XO (XO (XO (XO (XO (XO (XO (XO (XO (XO
    (XO (XO (XO (XO (XO (XO (XO (XI (XO (XO (XO (XO
    XH)))))))))))))))))))))))))))))))) :: ((Npos (XO (XO (XO (XO (XI (XI (XI
    (XI (XO (XO (XO (XO (XO (XO (XO (XO (XO (XO (XO (XO (XO (XO (XO (XO (XO
    (XO (XI (XO (XI (XO (XO XH)))))))))))))))))))))))))))))))) :: ((Npos (XO
    (XI (XO (XO (XO (XO (XO (XO (XI (XO (XO (XO (XO (XO (XO (XO (XO (XO (XO
    (XO (XO (XO (XO (XO (XO (XO (XI (XO (XI (XI
    XH))))))))))))))))))))))))))))))) :: ((Npos (XO (XO (XI (XO (XI (XO (XI
    (XO (XO (XO (XO (XO (XO (XO (XO (XO (XO (XO (XO (XO (XO (XO (XO (XO (XO
    (XO (XI (XO (XO (XO (XO XH)))))))))))))))))))))))))))))))) :: ((Npos (XO
    (XO (XI (XO (XI (XO (XO (XO (XO (XO (XO (XO (XO (XO (XO (XO (XO (XO (XO
    (XO (XO (XO (XO (XO (XO (XO (XI (XO (XO (XO (XO
    XH)))))))))))))))))))))))))))))))) :: ((Npos (XO (XO (XO (XO (XI (XI (XI
    (XO (XO (XO (XO (XO (XO (XO (XO (XO (XO (XO (XO (XO (XO (XO (XO (XO (XO
    (XI (XI (XO (XI XH)))))))))))))))))))))))))))))) :: ((Npos (XI (XO (XO
    (XI (XO (XI (XO (XO (XI (XO (XO (XO (XO (XO (XO (XO (XO (XO (XO (XO (XO
    (XO (XO (XO (XO (XO (XI (XO (XO (XI (XO
    XH)))))))))))))))))))))))))))))))) :: ((Npos (XO (XO (XI (XO (XI (XI (XI
    (XO (XO (XO (XO (XO (XO (XO (XO (XO (XO (XO (XO (XO (XO (XO (XO (XO (XO
    (XO (XI (XO (XO (XO (XO XH)))))))))))))))))))))))))))))))) :: ((Npos (XO
    (XO (XI (XO (XI (XI (XO (XO (XO (XO (XO (XO (XO (XO (XO (XO (XO (XO (XO
    (XO (XO (XO (XO (XO (XO (XO (XI (XO (XO (XO (XO
    XH)))))))))))))))))))))))))))))))) :: ((Npos (XO (XO (XO (XI (XO (XO (XI
    (XI (XO (XO (XO (XO (XO (XO (XO (XO (XO (XO (XO (XO (XO (XO (XO (XO (XO
    (XO (XI (XO (XI (XO (XO XH)))))))))))))))))))))))))))))))) :: ((Npos (XI
    (XI (XO (XI (XO (XO (XO (XO (XI (XO (XO (XO (XO (XO (XO (XO (XO (XO (XO
    (XO (XO (XO (XO (XO (XO (XO (XI (XO (XO (XO (XO
    XH)))))))))))))))))))))))))))))))) :: ((Npos (XO (XO (XI (XO (XO (XI (XI
    (XO (XO (XO (XO (XO (XO (XO (XO (XO (XO (XO (XO (XO (XO (XO (XO (XO (XO
    (XO (XI (XO (XO (XO (XO XH)))))))))))))))))))))))))))))))) :: ((Npos (XO
    (XO (XI (XO (XO (XI (XO (XO (XO (XO (XO (XO (XO (XO (XO (XO (XO (XO (XO
    (XO (XO (XO (XO (XO (XO (XO (XI (XO (XO (XO (XO
    XH)))))))))))))))))))))))))))))))) :: ((Npos (XO (XO (XO (XI (XO (XI (XO
    (XI (XO (XO (XO (XO (XO (XO (XO (XO (XO (XO (XO (XO (XO (XO (XO (XO (XO
    (XO (XI (XO (XI (XO (XO XH)))))))))))))))))))))))))))))))) :: ((Npos (XO
    (XO (XI (XO (XO (XO (XO (XO (XO (XO (XO (XO (XO (XO (XO (XO (XO (XO (XO
    (XO (XO (XO (XO (XO (XO (XO (XI (XO (XO (XO (XO
    XH)))))))))))))))))))))))))))))))) :: ((Npos (XO (XO (XI (XO (XO (XO (XO
    (XI (XO (XO (XO (XO (XO (XO (XO (XO (XO (XO (XO (XO (XO (XO (XO (XO (XO
    (XO (XI (XO (XO (XO (XO XH)))))))))))))))))))))))))))))))) :: ((Npos (XO
    (XO (XI (XO (XO (XO (XI (XO (XO (XO (XO (XO (XO (XO (XO (XO (XO (XO (XO
    (XO (XO (XO (XO (XO (XO (XO (XI (XO (XO (XO (XO
    XH)))))))))))))))))))))))))))))))) :: ((Npos (XO (XO (XO (XI (XO (XI (XI
    (XI (XO (XO (XO (XO (XO (XO (XO (XO (XO (XO (XO (XO (XO (XO (XO (XO (XO
    (XO (XI (XO (XI (XO (XO XH)))))))))))))))))))))))))))))))) :: ((Npos (XO
    (XI (XI (XO (XO (XO (XO (XO (XI (XO (XO (XO (XO (XO (XO (XO (XO (XO (XO
    (XO (XO (XO (XO (XO (XO (XO (XI (XO (XI (XI
    XH))))))))))))))))))))))))))))))) :: ((Npos (XO (XO (XI (XI (XI (XO (XI
    (XO (XO (XO (XO (XO (XO (XO (XO (XO (XO (XO (XO (XO (XO (XO (XO (XO (XO
    (XO (XI (XO (XO (XO (XO XH)))))))))))))))))))))))))))))))) :: ((Npos (XO
    (XO (XI (XI (XI (XO (XO (XO (XO (XO (XO (XO (XO (XO (XO (XO (XO (XO (XO
    (XO (XO (XO (XO (XO (XO (XO (XI (XO (XO (XO (XO
    XH)))))))))))))))))))))))))))))))) :: ((Npos (XO (XO (XO (XI (XI (XO (XO
    (XI (XO (XO (XO (XO (XO (XO (XO (XO (XO (XO (XO (XO (XO (XO (XO (XO (XO
    (XO (XI (XO (XI (XO (XO XH)))))))))))))))))))))))))))))))) :: ((Npos (XI
    (XO (XO (XO (XI (XO (XI (XO (XI (XO (XO (XO (XO (XO (XO (XO (XO (XO (XO
    (XO (XO (XO (XO (XO (XO (XO (XI (XO (XI (XI (XO
    XH)))))))))))))))))))))))))))))))) :: ((Npos (XO (XO (XI (XI (XI (XI (XI
    (XO (XO (XO (XO (XO (XO (XO (XO (XO (XO (XO (XO (XO (XO (XO (XO (XO (XO
    (XO (XI (XO (XO (XO (XO XH)))))))))))))))))))))))))))))))) :: ((Npos (XO
    (XO (XI (XI (XI (XI (XO (XO (XO (XO (XO (XO (XO (XO (XO (XO (XO (XO (XO
    (XO (XO (XO (XO (XO (XO (XO (XI (XO (XO (XO (XO
    XH)))))))))))))))))))))))))))))))) :: ((Npos (XO (XO (XO (XI (XI (XO (XI
    (XI (XO (XO (XO (XO (XO (XO (XO (XO (XO (XO (XO (XO (XO (XO (XO (XO (XO
    (XO (XI (XO (XI (XO (XO XH)))))))))))))))))))))))))))))))) :: ((Npos (XI
    (XO (XI (XO (XI (XO (XO (XO (XI (XO (XO (XO (XO (XO (XO (XO (XO (XO (XO
    (XO (XO (XO (XO (XO (XO (XO (XI (XO (XI (XO (XO
    XH)))))))))))))))))))))))))))))))) :: ((Npos (XO (XO (XI (XI (XO (XI (XI
    (XO (XO (XO (XO (XO (XO (XO (XO (XO (XO (XO (XO (XO (XO (XO (XO (XO (XO
    (XO (XI (XO (XO (XO (XO XH)))))))))))))))))))))))))))))))) :: ((Npos (XO
    (XO (XI (XI (XO (XI (XO (XO (XO (XO (XO (XO (XO (XO (XO (XO (XO (XO (XO
    (XO (XO (XO (XO (XO (XO (XO (XI (XO (XO (XO (XO
    XH)))))))))))))))))))))))))))))))) :: ((Npos (XO (XO (XO (XI (XI (XI (XO
    (XI (XO (XO (XO (XO (XO (XO (XO (XO (XO (XO (XO (XO (XO (XO (XO (XO (XO
    (XO (XI (XO (XI (XO (XO XH)))))))))))))))))))))))))))))))) :: ((Npos (XO
    (XO (XI (XI (XO (XO (XO (XO (XO (XO (XO (XO (XO (XO (XO (XO (XO (XO (XO
    (XO (XO (XO (XO (XO (XO (XO (XI (XO (XO (XO (XO
    XH)))))))))))))))))))))))))))))))) :: ((Npos (XO (XO (XI (XI (XO (XO (XO
    (XI (XO (XO (XO (XO (XO (XO (XO (XO (XO (XO (XO (XO (XO (XO (XO (XO (XO
    (XO (XI (XO (XO (XO (XO XH)))))))))))))))))))))))))))))))) :: ((Npos (XO
    (XO (XI (XI (XO (XO (XI (XO (XO (XO (XO (XO (XO (XO (XO (XO (XO (XO (XO
    (XO (XO (XO (XO (XO (XO (XO (XI (XO (XO (XO (XO
    XH)))))))))))))))))))))))))))))))) :: ((Npos (XO (XO (XO (XI (XI (XI (XI
    (XI (XO (XO (XO (XO (XO (XO (XO (XO (XO (XO (XO (XO (XO (XO (XO (XO (XO
    (XO (XI (XO (XI (XO (XO XH)))))))))))))))))))))))))))))))) :: ((Npos (XI
    (XO (XO (XO (XO (XO (XO (XO (XI (XO (XO (XO (XO (XO (XO (XO (XO (XO (XO
    (XO (XO (XO (XO (XO (XO (XO (XI (XO (XI (XI
    XH))))))))))))))))))))))))))))))) :: ((Npos (XO (XI (XO (XO (XI (XO (XI
    (XO (XO (XO (XO (XO (XO (XO (XO (XO (XO (XO (XO (XO (XO (XO (XO (XO (XO
    (XO (XI (XO (XO (XO (XO XH)))))))))))))))))))))))))))))))) :: ((Npos (XO
    (XI (XO (XO (XI (XO (XO (XO (XO (XO (XO (XO (XO (XO (XO (XO (XO (XO (XO
    (XO (XO (XO (XO (XO (XO (XO (XI (XO (XO (XO (XO
    XH)))))))))))))))))))))))))))))))) :: ((Npos (XO (XO (XO (XO (XI (XI (XO
    (XO (XO (XO (XO (XO (XO (XO (XO (XO (XO (XO (XO (XO (XO (XO (XO (XO (XO
    (XI (XI (XO (XI XH)))))))))))))))))))))))))))))) :: ((Npos (XI (XO (XO
    (XO (XO (XI (XO (XO (XI (XO (XO (XO (XO (XO (XO (XO (XO (XO (XO (XO (XO
    (XO (XO (XO (XO (XO (XI (XO (XO (XI (XO
    XH)))))))))))))))))))))))))))))))) :: ((Npos (XO (XI (XO (XO (XI (XI (XI
    (XO (XO (XO (XO (XO (XO (XO (XO (XO (XO (XO (XO (XO (XO (XO (XO (XO (XO
    (XO (XI (XO (XO (XO (XO XH)))))))))))))))))))))))))))))))) :: ((Npos (XO
    (XI (XO (XO (XI (XI (XO (XO (XO (XO (XO (XO (XO (XO (XO (XO (XO (XO (XO
    (XO (XO (XO (XO (XO (XO (XO (XI (XO (XO (XO (XO
    XH)))))))))))))))))))))))))))))))) :: ((Npos (XO (XO (XI (XO (XO (XO (XI
    (XI (XO (XO (XO (XO (XO (XO (XO (XO (XO (XO (XO (XO (XO (XO (XO (XO (XO
    (XO (XI (XO (XI (XO (XO XH)))))))))))))))))))))))))))))))) :: ((Npos (XI
    (XO (XO (XI (XO (XO (XO (XO (XI (XO (XO (XO (XO (XO (XO (XO (XO (XO (XO
    (XO (XO (XO (XO (XO (XO (XO (XI (XO (XO (XO (XO
    XH)))))))))))))))))))))))))))))))) :: ((Npos (XO (XI (XO (XO (XO (XI (XI
    (XO (XO (XO (XO (XO (XO (XO (XO (XO (XO (XO (XO (XO (XO (XO (XO (XO (XO
    (XO (XI (XO (XO (XO (XO XH)))))))))))))))))))))))))))))))) :: ((Npos (XO
    (XI (XO (XO (XO (XI (XO (XO (XO (XO (XO (XO (XO (XO (XO (XO (XO (XO (XO
    (XO (XO (XO (XO (XO (XO (XO (XI (XO (XO (XO (XO
    XH)))))))))))))))))))))))))))))))) :: ((Npos (XO (XO (XI (XO (XO (XI (XO
    (XI (XO (XO (XO (XO (XO (XO (XO (XO (XO (XO (XO (XO (XO (XO (XO (XO (XO
    (XO (XI (XO (XI (XO (XO XH)))))))))))))))))))))))))))))))) :: ((Npos (XO
    (XI (XO (XO (XO (XO (XO (XO (XO (XO (XO (XO (XO (XO (XO (XO (XO (XO (XO
    (XO (XO (XO (XO (XO (XO (XO (XI (XO (XO (XO (XO
    XH)))))))))))))))))))))))))))))))) :: ((Npos (XO (XI (XO (XO (XO (XO (XO
    (XI (XO (XO (XO (XO (XO (XO (XO (XO (XO (XO (XO (XO (XO (XO (XO (XO (XO
    (XO (XI (XO (XO (XO (XO XH)))))))))))))))))))))))))))))))) :: ((Npos (XO
    (XI (XO (XO (XO (XO (XI (XO (XO (XO (XO (XO (XO (XO (XO (XO (XO (XO (XO
    (XO (XO (XO (XO (XO (XO (XO (XI (XO (XO (XO (XO
    XH)))))))))))))))))))))))))))))))) :: ((Npos (XO (XO (XI (XO (XO (XI (XI
    (XI (XO (XO (XO (XO (XO (XO (XO (XO (XO (XO (XO (XO (XO (XO (XO (XO (XO
    (XO (XI (XO (XI (XO (XO XH)))))))))))))))))))))))))))))))) :: ((Npos (XI
    (XO (XI (XO (XO (XO (XO (XO (XI (XO (XO (XO (XO (XO (XO (XO (XO (XO (XO
    (XO (XO (XO (XO (XO (XO (XO (XI (XO (XI (XI
    XH))))))))))))))))))))))))))))))) :: ((Npos (XO (XI (XO (XI (XI (XO (XI
    (XO (XO (XO (XO (XO (XO (XO (XO (XO (XO (XO (XO (XO (XO (XO (XO (XO (XO
    (XO (XI (XO (XO (XO (XO XH)))))))))))))))))))))))))))))))) :: ((Npos (XO
    (XI (XO (XI (XI (XO (XO (XO (XO (XO (XO (XO (XO (XO (XO (XO (XO (XO (XO
    (XO (XO (XO (XO (XO (XO (XO (XI (XO (XO (XO (XO
    XH)))))))))))))))))))))))))))))))) :: ((Npos (XO (XO (XI (XO (XI (XO (XO
    (XI (XO (XO (XO (XO (XO (XO (XO (XO (XO (XO (XO (XO (XO (XO (XO (XO (XO
    (XO (XI (XO (XI (XO (XO XH)))))))))))))))))))))))))))))))) :: ((Npos (XI
    (XO (XO (XO (XO (XO (XI (XO (XI (XO (XO (XO (XO (XO (XO (XO (XO (XO (XO
    (XO (XO (XO (XO (XO (XO (XO (XI (XO (XI (XI (XO
    XH)))))))))))))))))))))))))))))))) :: ((Npos (XO (XI (XO (XI (XI (XI (XI
    (XO (XO (XO (XO (XO (XO (XO (XO (XO (XO (XO (XO (XO (XO (XO (XO (XO (XO
    (XO (XI (XO (XO (XO (XO XH)))))))))))))))))))))))))))))))) :: ((Npos (XO
    (XI (XO (XI (XI (XI (XO (XO (XO (XO (XO (XO (XO (XO (XO (XO (XO (XO (XO
    (XO (XO (XO (XO (XO (XO (XO (XI (XO (XO (XO (XO
    XH)))))))))))))))))))))))))))))))) :: ((Npos (XO (XO (XI (XO (XI (XO (XI
    (XI (XO (XO (XO (XO (XO (XO (XO (XO (XO (XO (XO (XO (XO (XO (XO (XO (XO
    (XO (XI (XO (XI (XO (XO XH)))))))))))))))))))))))))))))))) :: ((Npos (XI
    (XO (XO (XO (XI (XO (XO (XO (XI (XO (XO (XO (XO (XO (XO (XO (XO (XO (XO
    (XO (XO (XO (XO (XO (XO (XO (XI (XO (XI (XO (XO
    XH)))))))))))))))))))))))))))))))) :: ((Npos (XO (XI (XO (XI (XO (XI (XI
    (XO (XO (XO (XO (XO (XO (XO (XO (XO (XO (XO (XO (XO (XO (XO (XO (XO (XO
    (XO (XI (XO (XO (XO (XO XH)))))))))))))))))))))))))))))))) :: ((Npos (XO
    (XI (XO (XI (XO (XI (XO (XO (XO (XO (XO (XO (XO (XO (XO (XO (XO (XO (XO
    (XO (XO (XO (XO (XO (XO (XO (XI (XO (XO (XO (XO
    XH)))))))))))))))))))))))))))))))) :: ((Npos (XO (XO (XI (XO (XI (XI (XO
    (XI (XO (XO (XO (XO (XO (XO (XO (XO (XO (XO (XO (XO (XO (XO (XO (XO (XO
    (XO (XI (XO (XI (XO (XO XH)))))))))))))))))))))))))))))))) :: ((Npos (XO
    (XI (XO (XI (XO (XO (XO (XO (XO (XO (XO (XO (XO (XO (XO (XO (XO (XO (XO
    (XO (XO (XO (XO (XO (XO (XO (XI (XO (XO (XO (XO
    XH)))))))))))))))))))))))))))))))) :: ((Npos (XO (XI (XO (XI (XO (XO (XO
    (XI (XO (XO (XO (XO (XO (XO (XO (XO (XO (XO (XO (XO (XO (XO (XO (XO (XO
    (XO (XI (XO (XO (XO (XO XH)))))))))))))))))))))))))))))))) :: ((Npos (XO
    (XI (XO (XI (XO (XO (XI (XO (XO (XO (XO (XO (XO (XO (XO (XO (XO (XO (XO
    (XO (XO (XO (XO (XO (XO (XO (XI (XO (XO (XO (XO
    XH)))))))))))))))))))))))))))))))) :: ((Npos (XO (XO (XI (XO (XI (XI (XI
    (XI (XO (XO (XO (XO (XO (XO (XO (XO (XO (XO (XO (XO (XO (XO (XO (XO (XO
    (XO (XI (XO (XI (XO (XO XH)))))))))))))))))))))))))))))))) :: ((Npos (XI
    (XI (XO (XO (XO (XO (XO (XO (XI (XO (XO (XO (XO (XO (XO (XO (XO (XO (XO
    (XO (XO (XO (XO (XO (XO (XO (XI (XO (XI (XI
    XH))))))))))))))))))))))))))))))) :: ((Npos (XO (XI (XI (XO (XI (XO (XI
    (XO (XO (XO (XO (XO (XO (XO (XO (XO (XO (XO (XO (XO (XO (XO (XO (XO (XO
    (XO (XI (XO (XO (XO (XO XH)))))))))))))))))))))))))))))))) :: ((Npos (XO
    (XI (XI (XO (XI (XO (XO (XO (XO (XO (XO (XO (XO (XO (XO (XO (XO (XO (XO
    (XO (XO (XO (XO (XO (XO (XO (XI (XO (XO (XO (XO
    XH)))))))))))))))))))))))))))))))) :: (N0 :: ((Npos (XI (XO (XO (XO (XI
    (XI (XO (XO (XI (XO (XO (XO (XO (XO (XO (XO (XO (XO (XO (XO (XO (XO (XO
    (XO (XO (XO (XI (XO (XO (XI (XO
    XH)))))))))))))))))))))))))))))))) :: ((Npos (XO (XI (XI (XO (XI (XI (XI
    (XO (XO (XO (XO (XO (XO (XO (XO (XO (XO (XO (XO (XO (XO (XO (XO (XO (XO
    (XO (XI (XO (XO (XO (XO XH)))))))))))))))))))))))))))))))) :: ((Npos (XO
    (XI (XI (XO (XI (XI (XO (XO (XO (XO (XO (XO (XO (XO (XO (XO (XO (XO (XO
    (XO (XO (XO (XO (XO (XO (XO (XI (XO (XO (XO (XO
    XH)))))))))))))))))))))))))))))))) :: ((Npos (XO (XO (XI (XI (XO (XO (XI
    (XI (XO (XO (XO (XO (XO (XO (XO (XO (XO (XO (XO (XO (XO (XO (XO (XO (XO
    (XO (XI (XO (XI (XO (XO XH)))))))))))))))))))))))))))))))) :: ((Npos (XI
    (XO (XI (XI (XO (XO (XO (XO (XI (XO (XO (XO (XO (XO (XO (XO (XO (XO (XO
    (XO (XO (XO (XO (XO (XO (XO (XI (XO (XO (XO (XO
    XH)))))))))))))))))))))))))))))))) :: ((Npos (XO (XI (XI (XO (XO (XI (XI
    (XO (XO (XO (XO (XO (XO (XO (XO (XO (XO (XO (XO (XO (XO (XO (XO (XO (XO
    (XO (XI (XO (XO (XO (XO XH)))))))))))))))))))))))))))))))) :: ((Npos (XO
    (XI (XI (XO (XO (XI (XO (XO (XO (XO (XO (XO (XO (XO (XO (XO (XO (XO (XO
    (XO (XO (XO (XO (XO (XO (XO (XI (XO (XO (XO (XO
    XH)))))))))))))))))))))))))))))))) :: ((Npos (XO (XO (XI (XI (XO (XI (XO
    (XI (XO (XO (XO (XO (XO (XO (XO (XO (XO (XO (XO (XO (XO (XO (XO (XO (XO
    (XO (XI (XO (XI (XO (XO XH)))))))))))))))))))))))))))))))) :: ((Npos (XO
    (XI (XI (XO (XO (XO (XO (XO (XO (XO (XO (XO (XO (XO (XO (XO (XO (XO (XO
    (XO (XO (XO (XO (XO (XO (XO (XI (XO (XO (XO (XO
    XH)))))))))))))))))))))))))))))))) :: ((Npos (XO (XI (XI (XO (XO (XO (XO
    (XI (XO (XO (XO (XO (XO (XO (XO (XO (XO (XO (XO (XO (XO (XO (XO (XO (XO
    (XO (XI (XO (XO (XO (XO XH)))))))))))))))))))))))))))))))) :: ((Npos (XO
    (XI (XI (XO (XO (XO (XI (XO (XO (XO (XO (XO (XO (XO (XO (XO (XO (XO (XO
    (XO (XO (XO (XO (XO (XO (XO (XI (XO (XO (XO (XO
    XH)))))))))))))))))))))))))))))))) :: ((Npos (XO (XO (XI (XI (XO (XI (XI
    (XI (XO (XO (XO (XO (XO (XO (XO (XO (XO (XO (XO (XO (XO (XO (XO (XO (XO
    (XO (XI (XO (XI (XO (XO XH)))))))))))))))))))))))))))))))) :: ((Npos (XI
    (XI (XI (XO (XO (XO (XO (XO (XI (XO (XO (XO (XO (XO (XO (XO (XO (XO (XO
    (XO (XO (XO (XO (XO (XO (XO (XI (XO (XI (XI
    XH))))))))))))))))))))))))))))))) :: ((Npos (XO (XI (XI (XI (XI (XO (XI
    (XO (XO (XO (XO (XO (XO (XO (XO (XO (XO (XO (XO (XO (XO (XO (XO (XO (XO
    (XO (XI (XO (XO (XO (XO XH)))))))))))))))))))))))))))))))) :: ((Npos (XO
    (XI (XI (XI (XI (XO (XO (XO (XO (XO (XO (XO (XO (XO (XO (XO (XO (XO (XO
    (XO (XO (XO (XO (XO (XO (XO (XI (XO (XO (XO (XO
    XH)))))))))))))))))))))))))))))))) :: ((Npos (XO (XO (XI (XI (XI (XO (XO
    (XI (XO (XO (XO (XO (XO (XO (XO (XO (XO (XO (XO (XO (XO (XO (XO (XO (XO
    (XO (XI (XO (XI (XO (XO XH)))))))))))))))))))))))))))))))) :: ((Npos (XI
    (XO (XO (XO (XO (XI (XI (XO (XI (XO (XO (XO (XO (XO (XO (XO (XO (XO (XO
    (XO (XO (XO (XO (XO (XO (XO (XI (XO (XI (XI (XO
    XH)))))))))))))))))))))))))))))))) :: ((Npos (XO (XI (XI (XI (XI (XI (XI
    (XO (XO (XO (XO (XO (XO (XO (XO (XO (XO (XO (XO (XO (XO (XO (XO (XO (XO
    (XO (XI (XO (XO (XO (XO XH)))))))))))))))))))))))))))))))) :: ((Npos (XO
    (XI (XI (XI (XI (XI (XO (XO (XO (XO (XO (XO (XO (XO (XO (XO (XO (XO (XO
    (XO (XO (XO (XO (XO (XO (XO (XI (XO (XO (XO (XO
    XH)))))))))))))))))))))))))))))))) :: ((Npos (XO (XO (XI (XI (XI (XO (XI
    (XI (XO (XO (XO (XO (XO (XO (XO (XO (XO (XO (XO (XO (XO (XO (XO (XO (XO
    (XO (XI (XO (XI (XO (XO XH)))))))))))))))))))))))))))))))) :: ((Npos (XI
    (XO (XO (XI (XI (XO (XO (XO (XI (XO (XO (XO (XO (XO (XO (XO (XO (XO (XO
    (XO (XO (XO (XO (XO (XO (XO (XI (XO (XI (XO (XO
    XH)))))))))))))))))))))))))))))))) :: ((Npos (XO (XI (XI (XI (XO (XI (XI
    (XO (XO (XO (XO (XO (XO (XO (XO (XO (XO (XO (XO (XO (XO (XO (XO (XO (XO
    (XO (XI (XO (XO (XO (XO XH)))))))))))))))))))))))))))))))) :: ((Npos (XO
    (XI (XI (XI (XO (XI (XO (XO (XO (XO (XO (XO (XO (XO (XO (XO (XO (XO (XO
    (XO (XO (XO (XO (XO (XO (XO (XI (XO (XO (XO (XO
    XH)))))))))))))))))))))))))))))))) :: ((Npos (XO (XO (XI (XI (XI (XI (XO
    (XI (XO (XO (XO (XO (XO (XO (XO (XO (XO (XO (XO (XO (XO (XO (XO (XO (XO
    (XO (XI (XO (XI (XO (XO XH)))))))))))))))))))))))))))))))) :: ((Npos (XO
    (XI (XI (XI (XO (XO (XO (XO (XO (XO (XO (XO (XO (XO (XO (XO (XO (XO (XO
    (XO (XO (XO (XO (XO (XO (XO (XI (XO (XO (XO (XO
    XH)))))))))))))))))))))))))))))))) :: ((Npos (XO (XI (XI (XI (XO (XO (XO
    (XI (XO (XO (XO (XO (XO (XO (XO (XO (XO (XO (XO (XO (XO (XO (XO (XO (XO
    (XO (XI (XO (XO (XO (XO XH)))))))))))))))))))))))))))))))) :: ((Npos (XO
    (XI (XI (XI (XO (XO (XI (XO (XO (XO (XO (XO (XO (XO (XO (XO (XO (XO (XO
    (XO (XO (XO (XO (XO (XO (XO (XI (XO (XO (XO (XO
    XH)))))))))))))))))))))))))))))))) :: ((Npos (XO (XO (XI (XI (XI (XI (XI
    (XI (XO (XO (XO (XO (XO (XO (XO (XO (XO (XO (XO (XO (XO (XO (XO (XO (XO
    (XO (XI (XO (XI (XO (XO XH)))))))))))))))))))))))))))))))) :: ((Npos (XO
    (XO (XO (XO (XO (XO (XO (XO (XI (XO (XO (XO (XO (XO (XO (XO (XO (XO (XO
    (XO (XO (XO (XO (XO (XO (XO (XI (XO (XI (XI
    XH))))))))))))))))))))))))))))))) :: ((Npos (XI (XO (XO (XO (XI (XO (XI
    (XO (XO (XO (XO (XO (XO (XO (XO (XO (XO (XO (XO (XO (XO (XO (XO (XO (XO
    (XO (XI (XO (XO (XO (XO XH)))))))))))))))))))))))))))))))) :: ((Npos (XI
    (XO (XO (XO (XI (XO (XO (XO (XO (XO (XO (XO (XO (XO (XO (XO (XO (XO (XO
    (XO (XO (XO (XO (XO (XO (XO (XI (XO (XO (XO (XO
    XH)))))))))))))))))))))))))))))))) :: ((Npos (XO (XO (XO (XO (XI (XO (XO
    (XO (XO (XO (XO (XO (XO (XO (XO (XO (XO (XO (XO (XO (XO (XO (XO (XO (XO
    (XI (XI (XO (XI XH)))))))))))))))))))))))))))))) :: ((Npos (XO (XI (XI
    (XI (XI (XO (XO (XO (XI (XO (XO (XO (XO (XO (XO (XO (XO (XO (XO (XO (XO
    (XO (XO (XO (XO (XO (XI (XO (XI (XO (XO
    XH)))))))))))))))))))))))))))))))) :: ((Npos (XI (XO (XO (XO (XI (XI (XI
    (XO (XO (XO (XO (XO (XO (XO (XO (XO (XO (XO (XO (XO (XO (XO (XO (XO (XO
    (XO (XI (XO (XO (XO (XO XH)))))))))))))))))))))))))))))))) :: ((Npos (XI
    (XO (XO (XO (XI (XI (XO (XO (XO (XO (XO (XO (XO (XO (XO (XO (XO (XO (XO
    (XO (XO (XO (XO (XO (XO (XO (XI (XO (XO (XO (XO
    XH)))))))))))))))))))))))))))))))) :: ((Npos (XO (XI (XO (XO (XO (XO (XI
    (XI (XO (XO (XO (XO (XO (XO (XO (XO (XO (XO (XO (XO (XO (XO (XO (XO (XO
    (XO (XI (XO (XI (XO (XO XH)))))))))))))))))))))))))))))))) :: ((Npos (XO
    (XO (XO (XI (XO (XO (XO (XO (XI (XO (XO (XO (XO (XO (XO (XO (XO (XO (XO
    (XO (XO (XO (XO (XO (XO (XO (XI (XO (XI (XI
    XH))))))))))))))))))))))))))))))) :: ((Npos (XI (XO (XO (XO (XO (XI (XI
    (XO (XO (XO (XO (XO (XO (XO (XO (XO (XO (XO (XO (XO (XO (XO (XO (XO (XO
    (XO (XI (XO (XO (XO (XO XH)))))))))))))))))))))))))))))))) :: ((Npos (XI
    (XO (XO (XO (XO (XI (XO (XO (XO (XO (XO (XO (XO (XO (XO (XO (XO (XO (XO
    (XO (XO (XO (XO (XO (XO (XO (XI (XO (XO (XO (XO
    XH)))))))))))))))))))))))))))))))) :: ((Npos (XO (XI (XO (XO (XO (XI (XO
    (XI (XO (XO (XO (XO (XO (XO (XO (XO (XO (XO (XO (XO (XO (XO (XO (XO (XO
    (XO (XI (XO (XI (XO (XO XH)))))))))))))))))))))))))))))))) :: ((Npos (XI
    (XO (XO (XO (XO (XO (XO (XO (XO (XO (XO (XO (XO (XO (XO (XO (XO (XO (XO
    (XO (XO (XO (XO (XO (XO (XO (XI (XO (XO (XO (XO
    XH)))))))))))))))))))))))))))))))) :: ((Npos (XI (XO (XO (XO (XO (XO (XO
    (XI (XO (XO (XO (XO (XO (XO (XO (XO (XO (XO (XO (XO (XO (XO (XO (XO (XO
    (XO (XI (XO (XO (XO (XO XH)))))))))))))))))))))))))))))))) :: ((Npos (XI
    (XO (XO (XO (XO (XO (XI (XO (XO (XO (XO (XO (XO (XO (XO (XO (XO (XO (XO
    (XO (XO (XO (XO (XO (XO (XO (XI (XO (XO (XO (XO
    XH)))))))))))))))))))))))))))))))) :: ((Npos (XO (XI (XO (XO (XO (XI (XI
    (XI (XO (XO (XO (XO (XO (XO (XO (XO (XO (XO (XO (XO (XO (XO (XO (XO (XO
    (XO (XI (XO (XI (XO (XO XH)))))))))))))))))))))))))))))))) :: ((Npos (XO
    (XO (XI (XO (XO (XO (XO (XO (XI (XO (XO (XO (XO (XO (XO (XO (XO (XO (XO
    (XO (XO (XO (XO (XO (XO (XO (XI (XO (XI (XI
    XH))))))))))))))))))))))))))))))) :: ((Npos (XI (XO (XO (XI (XI (XO (XI
    (XO (XO (XO (XO (XO (XO (XO (XO (XO (XO (XO (XO (XO (XO (XO (XO (XO (XO
    (XO (XI (XO (XO (XO (XO XH)))))))))))))))))))))))))))))))) :: ((Npos (XI
    (XO (XO (XI (XI (XO (XO (XO (XO (XO (XO (XO (XO (XO (XO (XO (XO (XO (XO
    (XO (XO (XO (XO (XO (XO (XO (XI (XO (XO (XO (XO
    XH)))))))))))))))))))))))))))))))) :: ((Npos (XO (XI (XO (XO (XI (XO (XO
    (XI (XO (XO (XO (XO (XO (XO (XO (XO (XO (XO (XO (XO (XO (XO (XO (XO (XO
    (XO (XI (XO (XI (XO (XO XH)))))))))))))))))))))))))))))))) :: ((Npos (XO
    (XI (XO (XI (XI (XI (XO (XO (XI (XO (XO (XO (XO (XO (XO (XO (XO (XO (XO
    (XO (XO (XO (XO (XO (XO (XO (XI (XO (XO (XI (XO
    XH)))))))))))))))))))))))))))))))) :: ((Npos (XI (XO (XO (XI (XI (XI (XI
    (XO (XO (XO (XO (XO (XO (XO (XO (XO (XO (XO (XO (XO (XO (XO (XO (XO (XO
    (XO (XI (XO (XO (XO (XO XH)))))))))))))))))))))))))))))))) :: ((Npos (XI
    (XO (XO (XI (XI (XI (XO (XO (XO (XO (XO (XO (XO (XO (XO (XO (XO (XO (XO
    (XO (XO (XO (XO (XO (XO (XO (XI (XO (XO (XO (XO
    XH)))))))))))))))))))))))))))))))) :: ((Npos (XO (XI (XO (XO (XI (XO (XI
    (XI (XO (XO (XO (XO (XO (XO (XO (XO (XO (XO (XO (XO (XO (XO (XO (XO (XO
    (XO (XI (XO (XI (XO (XO XH)))))))))))))))))))))))))))))))) :: ((Npos (XO
    (XO (XO (XO (XI (XO (XO (XO (XI (XO (XO (XO (XO (XO (XO (XO (XO (XO (XO
    (XO (XO (XO (XO (XO (XO (XO (XI (XO (XO (XO (XO
    XH)))))))))))))))))))))))))))))))) :: ((Npos (XI (XO (XO (XI (XO (XI (XI
    (XO (XO (XO (XO (XO (XO (XO (XO (XO (XO (XO (XO (XO (XO (XO (XO (XO (XO
    (XO (XI (XO (XO (XO (XO XH)))))))))))))))))))))))))))))))) :: ((Npos (XI
    (XO (XO (XI (XO (XI (XO (XO (XO (XO (XO (XO (XO (XO (XO (XO (XO (XO (XO
    (XO (XO (XO (XO (XO (XO (XO (XI (XO (XO (XO (XO
    XH)))))))))))))))))))))))))))))))) :: ((Npos (XO (XI (XO (XO (XI (XI (XO
    (XI (XO (XO (XO (XO (XO (XO (XO (XO (XO (XO (XO (XO (XO (XO (XO (XO (XO
    (XO (XI (XO (XI (XO (XO XH)))))))))))))))))))))))))))))))) :: ((Npos (XI
    (XO (XO (XI (XO (XO (XO (XO (XO (XO (XO (XO (XO (XO (XO (XO (XO (XO (XO
    (XO (XO (XO (XO (XO (XO (XO (XI (XO (XO (XO (XO
    XH)))))))))))))))))))))))))))))))) :: ((Npos (XI (XO (XO (XI (XO (XO (XO
    (XI (XO (XO (XO (XO (XO (XO (XO (XO (XO (XO (XO (XO (XO (XO (XO (XO (XO
    (XO (XI (XO (XO (XO (XO XH)))))))))))))))))))))))))))))))) :: ((Npos (XI
    (XO (XO (XI (XO (XO (XI (XO (XO (XO (XO (XO (XO (XO (XO (XO (XO (XO (XO
    (XO (XO (XO (XO (XO (XO (XO (XI (XO (XO (XO (XO
    XH)))))))))))))))))))))))))))))))) :: ((Npos (XO (XI (XO (XO (XI (XI (XI
    (XI (XO (XO (XO (XO (XO (XO (XO (XO (XO (XO (XO (XO (XO (XO (XO (XO (XO
    (XO (XI (XO (XI (XO (XO XH)))))))))))))))))))))))))))))))) :: ((Npos (XO
    (XI (XO (XO (XO (XO (XO (XO (XI (XO (XO (XO (XO (XO (XO (XO (XO (XO (XO
    (XO (XO (XO (XO (XO (XO (XO (XI (XO (XI (XI
    XH))))))))))))))))))))))))))))))) :: ((Npos (XI (XO (XI (XO (XI (XO (XI
    (XO (XO (XO (XO (XO (XO (XO (XO (XO (XO (XO (XO (XO (XO (XO (XO (XO (XO
    (XO (XI (XO (XO (XO (XO XH)))))))))))))))))))))))))))))))) :: ((Npos (XI
    (XO (XI (XO (XI (XO (XO (XO (XO (XO (XO (XO (XO (XO (XO (XO (XO (XO (XO
    (XO (XO (XO (XO (XO (XO (XO (XI (XO (XO (XO (XO
    XH)))))))))))))))))))))))))))))))) :: ((Npos (XO (XO (XO (XO (XO (XO (XO
    (XO (XO (XI (XO (XO (XO (XO (XO (XO (XO (XO (XO (XO (XO (XO (XO (XO (XO
    (XO (XI (XO (XO (XO (XO XH)))))))))))))))))))))))))))))))) :: ((Npos (XO
    (XI (XO (XI (XO (XI (XO (XO (XI (XO (XO (XO (XO (XO (XO (XO (XO (XO (XO
    (XO (XO (XO (XO (XO (XO (XO (XI (XO (XO (XI (XO
    XH)))))))))))))))))))))))))))))))) :: ((Npos (XI (XO (XI (XO (XI (XI (XI
    (XO (XO (XO (XO (XO (XO (XO (XO (XO (XO (XO (XO (XO (XO (XO (XO (XO (XO
    (XO (XI (XO (XO (XO (XO XH)))))))))))))))))))))))))))))))) :: ((Npos (XI
    (XO (XI (XO (XI (XI (XO (XO (XO (XO (XO (XO (XO (XO (XO (XO (XO (XO (XO
    (XO (XO (XO (XO (XO (XO (XO (XI (XO (XO (XO (XO
    XH)))))))))))))))))))))))))))))))) :: ((Npos (XO (XI (XO (XI (XO (XO (XI
    (XI (XO (XO (XO (XO (XO (XO (XO (XO (XO (XO (XO (XO (XO (XO (XO (XO (XO
    (XO (XI (XO (XI (XO (XO XH)))))))))))))))))))))))))))))))) :: ((Npos (XO
    (XO (XI (XI (XO (XO (XO (XO (XI (XO (XO (XO (XO (XO (XO (XO (XO (XO (XO
    (XO (XO (XO (XO (XO (XO (XO (XI (XO (XO (XO (XO
    XH)))))))))))))))))))))))))))))))) :: ((Npos (XI (XO (XI (XO (XO (XI (XI
    (XO (XO (XO (XO (XO (XO (XO (XO (XO (XO (XO (XO (XO (XO (XO (XO (XO (XO
    (XO (XI (XO (XO (XO (XO XH)))))))))))))))))))))))))))))))) :: ((Npos (XI
    (XO (XI (XO (XO (XI (XO (XO (XO (XO (XO (XO (XO (XO (XO (XO (XO (XO (XO
    (XO (XO (XO (XO (XO (XO (XO (XI (XO (XO (XO (XO
    XH)))))))))))))))))))))))))))))))) :: ((Npos (XO (XI (XO (XI (XO (XI (XO
    (XI (XO (XO (XO (XO (XO (XO (XO (XO (XO (XO (XO (XO (XO (XO (XO (XO (XO
    (XO (XI (XO (XI (XO (XO XH)))))))))))))))))))))))))))))))) :: ((Npos (XI
    (XO (XI (XO (XO (XO (XO (XO (XO (XO (XO (XO (XO (XO (XO (XO (XO (XO (XO
    (XO (XO (XO (XO (XO (XO (XO (XI (XO (XO (XO (XO
    XH)))))))))))))))))))))))))))))))) :: ((Npos (XI (XO (XI (XO (XO (XO (XO
    (XI (XO (XO (XO (XO (XO (XO (XO (XO (XO (XO (XO (XO (XO (XO (XO (XO (XO
    (XO (XI (XO (XO (XO (XO XH)))))))))))))))))))))))))))))))) :: ((Npos (XI
    (XO (XI (XO (XO (XO (XI (XO (XO (XO (XO (XO (XO (XO (XO (XO (XO (XO (XO
    (XO (XO (XO (XO (XO (XO (XO (XI (XO (XO (XO (XO
    XH)))))))))))))))))))))))))))))))) :: ((Npos (XO (XI (XO (XI (XO (XI (XI
    (XI (XO (XO (XO (XO (XO (XO (XO (XO (XO (XO (XO (XO (XO (XO (XO (XO (XO
    (XO (XI (XO (XI (XO (XO XH)))))))))))))))))))))))))))))))) :: ((Npos (XO
    (XI (XI (XO (XO (XO (XO (XO (XI (XO (XO (XO (XO (XO (XO (XO (XO (XO (XO
    (XO (XO (XO (XO (XO (XO (XO (XI (XO (XI (XI
    XH))))))))))))))))))))))))))))))) :: ((Npos (XI (XO (XI (XI (XI (XO (XI
    (XO (XO (XO (XO (XO (XO (XO (XO (XO (XO (XO (XO (XO (XO (XO (XO (XO (XO
    (XO (XI (XO (XO (XO (XO XH)))))))))))))))))))))))))))))))) :: ((Npos (XI
    (XO (XI (XI (XI (XO (XO (XO (XO (XO (XO (XO (XO (XO (XO (XO (XO (XO (XO
    (XO (XO (XO (XO (XO (XO (XO (XI (XO (XO (XO (XO
    XH)))))))))))))))))))))))))))))))) :: ((Npos (XO (XI (XO (XI (XI (XO (XO
    (XI (XO (XO (XO (XO (XO (XO (XO (XO (XO (XO (XO (XO (XO (XO (XO (XO (XO
    (XO (XI (XO (XI (XO (XO XH)))))))))))))))))))))))))))))))) :: ((Npos (XO
    (XI (XO (XO (XI (XO (XI (XO (XI (XO (XO (XO (XO (XO (XO (XO (XO (XO (XO
    (XO (XO (XO (XO (XO (XO (XO (XI (XO (XI (XI (XO
    XH)))))))))))))))))))))))))))))))) :: ((Npos (XI (XO (XI (XI (XI (XI (XI
    (XO (XO (XO (XO (XO (XO (XO (XO (XO (XO (XO (XO (XO (XO (XO (XO (XO (XO
    (XO (XI (XO (XO (XO (XO XH)))))))))))))))))))))))))))))))) :: ((Npos (XI
    (XO (XI (XI (XI (XI (XO (XO (XO (XO (XO (XO (XO (XO (XO (XO (XO (XO (XO
    (XO (XO (XO (XO (XO (XO (XO (XI (XO (XO (XO (XO
    XH)))))))))))))))))))))))))))))))) :: ((Npos (XO (XI (XO (XI (XI (XO (XI
    (XI (XO (XO (XO (XO (XO (XO (XO (XO (XO (XO (XO (XO (XO (XO (XO (XO (XO
    (XO (XI (XO (XI (XO (XO XH)))))))))))))))))))))))))))))))) :: ((Npos (XO
    (XI (XI (XO (XI (XO (XO (XO (XI (XO (XO (XO (XO (XO (XO (XO (XO (XO (XO
    (XO (XO (XO (XO (XO (XO (XO (XI (XO (XI (XO (XO
    XH)))))))))))))))))))))))))))))))) :: ((Npos (XI (XO (XI (XI (XO (XI (XI
    (XO (XO (XO (XO (XO (XO (XO (XO (XO (XO (XO (XO (XO (XO (XO (XO (XO (XO
    (XO (XI (XO (XO (XO (XO XH)))))))))))))))))))))))))))))))) :: ((Npos (XI
    (XO (XI (XI (XO (XI (XO (XO (XO (XO (XO (XO (XO (XO (XO (XO (XO (XO (XO
    (XO (XO (XO (XO (XO (XO (XO (XI (XO (XO (XO (XO
    XH)))))))))))))))))))))))))))))))) :: ((Npos (XO (XI (XO (XI (XI (XI (XO
    (XI (XO (XO (XO (XO (XO (XO (XO (XO (XO (XO (XO (XO (XO (XO (XO (XO (XO
    (XO (XI (XO (XI (XO (XO XH)))))))))))))))))))))))))))))))) :: ((Npos (XI
    (XO (XI (XI (XO (XO (XO (XO (XO (XO (XO (XO (XO (XO (XO (XO (XO (XO (XO
    (XO (XO (XO (XO (XO (XO (XO (XI (XO (XO (XO (XO
    XH)))))))))))))))))))))))))))))))) :: ((Npos (XI (XO (XI (XI (XO (XO (XO
    (XI (XO (XO (XO (XO (XO (XO (XO (XO (XO (XO (XO (XO (XO (XO (XO (XO (XO
    (XO (XI (XO (XO (XO (XO XH)))))))))))))))))))))))))))))))) :: ((Npos (XI
    (XO (XI (XI (XO (XO (XI (XO (XO (XO (XO (XO (XO (XO (XO (XO (XO (XO (XO
    (XO (XO (XO (XO (XO (XO (XO (XI (XO (XO (XO (XO
    XH)))))))))))))))))))))))))))))))) :: ((Npos (XO (XI (XO (XI (XI (XI (XI
    (XI (XO (XO (XO (XO (XO (XO (XO (XO (XO (XO (XO (XO (XO (XO (XO (XO (XO
    (XO (XI (XO (XI (XO (XO XH)))))))))))))))))))))))))))))))) :: ((Npos (XI
    (XO (XO (XO (XO (XO (XO (XO (XI (XO (XO (XO (XO (XO (XO (XO (XO (XO (XO
    (XO (XO (XO (XO (XO (XO (XO (XI (XO (XI (XI
    XH))))))))))))))))))))))))))))))) :: ((Npos (XI (XI (XO (XO (XI (XO (XI
    (XO (XO (XO (XO (XO (XO (XO (XO (XO (XO (XO (XO (XO (XO (XO (XO (XO (XO
    (XO (XI (XO (XO (XO (XO XH)))))))))))))))))))))))))))))))) :: ((Npos (XI
    (XI (XO (XO (XI (XO (XO (XO (XO (XO (XO (XO (XO (XO (XO (XO (XO (XO (XO
    (XO (XO (XO (XO (XO (XO (XO (XI (XO (XO (XO (XO
    XH)))))))))))))))))))))))))))))))) :: ((Npos (XO (XO (XO (XO (XI (XO (XI
    (XO (XO (XO (XO (XO (XO (XO (XO (XO (XO (XO (XO (XO (XO (XO (XO (XO (XO
    (XI (XI (XO (XI XH)))))))))))))))))))))))))))))) :: ((Npos (XO (XI (XO
    (XO (XO (XI (XO (XO (XI (XO (XO (XO (XO (XO (XO (XO (XO (XO (XO (XO (XO
    (XO (XO (XO (XO (XO (XI (XO (XO (XI (XO
    XH)))))))))))))))))))))))))))))))) :: ((Npos (XI (XI (XO (XO (XI (XI (XI
    (XO (XO (XO (XO (XO (XO (XO (XO (XO (XO (XO (XO (XO (XO (XO (XO (XO (XO
    (XO (XI (XO (XO (XO (XO XH)))))))))))))))))))))))))))))))) :: ((Npos (XI
    (XI (XO (XO (XI (XI (XO (XO (XO (XO (XO (XO (XO (XO (XO (XO (XO (XO (XO
    (XO (XO (XO (XO (XO (XO (XO (XI (XO (XO (XO (XO
    XH)))))))))))))))))))))))))))))))) :: ((Npos (XO (XI (XI (XO (XO (XO (XI
    (XI (XO (XO (XO (XO (XO (XO (XO (XO (XO (XO (XO (XO (XO (XO (XO (XO (XO
    (XO (XI (XO (XI (XO (XO XH)))))))))))))))))))))))))))))))) :: ((Npos (XO
    (XI (XO (XI (XO (XO (XO (XO (XI (XO (XO (XO (XO (XO (XO (XO (XO (XO (XO
    (XO (XO (XO (XO (XO (XO (XO (XI (XO (XO (XO (XO
    XH)))))))))))))))))))))))))))))))) :: ((Npos (XI (XI (XO (XO (XO (XI (XI
    (XO (XO (XO (XO (XO (XO (XO (XO (XO (XO (XO (XO (XO (XO (XO (XO (XO (XO
    (XO (XI (XO (XO (XO (XO XH)))))))))))))))))))))))))))))))) :: ((Npos (XI
    (XI (XO (XO (XO (XI (XO (XO (XO (XO (XO (XO (XO (XO (XO (XO (XO (XO (XO
    (XO (XO (XO (XO (XO (XO (XO (XI (XO (XO (XO (XO
    XH)))))))))))))))))))))))))))))))) :: ((Npos (XO (XI (XI (XO (XO (XI (XO
    (XI (XO (XO (XO (XO (XO (XO (XO (XO (XO (XO (XO (XO (XO (XO (XO (XO (XO
    (XO (XI (XO (XI (XO (XO XH)))))))))))))))))))))))))))))))) :: ((Npos (XI
    (XI (XO (XO (XO (XO (XO (XO (XO (XO (XO (XO (XO (XO (XO (XO (XO (XO (XO
    (XO (XO (XO (XO (XO (XO (XO (XI (XO (XO (XO (XO
    XH)))))))))))))))))))))))))))))))) :: ((Npos (XI (XI (XO (XO (XO (XO (XO
    (XI (XO (XO (XO (XO (XO (XO (XO (XO (XO (XO (XO (XO (XO (XO (XO (XO (XO
    (XO (XI (XO (XO (XO (XO XH)))))))))))))))))))))))))))))))) :: ((Npos (XI
    (XI (XO (XO (XO (XO (XI (XO (XO (XO (XO (XO (XO (XO (XO (XO (XO (XO (XO
    (XO (XO (XO (XO (XO (XO (XO (XI (XO (XO (XO (XO
    XH)))))))))))))))))))))))))))))))) :: ((Npos (XO (XI (XI (XO (XO (XI (XI
    (XI (XO (XO (XO (XO (XO (XO (XO (XO (XO (XO (XO (XO (XO (XO (XO (XO (XO
    (XO (XI (XO (XI (XO (XO XH)))))))))))))))))))))))))))))))) :: ((Npos (XI
    (XO (XI (XO (XO (XO (XO (XO (XI (XO (XO (XO (XO (XO (XO (XO (XO (XO (XO
    (XO (XO (XO (XO (XO (XO (XO (XI (XO (XI (XI
    XH))))))))))))))))))))))))))))))) :: ((Npos (XI (XI (XO (XI (XI (XO (XI
    (XO (XO (XO (XO (XO (XO (XO (XO (XO (XO (XO (XO (XO (XO (XO (XO (XO (XO
    (XO (XI (XO (XO (XO (XO XH)))))))))))))))))))))))))))))))) :: ((Npos (XI
    (XI (XO (XI (XI (XO (XO (XO (XO (XO (XO (XO (XO (XO (XO (XO (XO (XO (XO
    (XO (XO (XO (XO (XO (XO (XO (XI (XO (XO (XO (XO
    XH)))))))))))))))))))))))))))))))) :: ((Npos (XO (XI (XI (XO (XI (XO (XO
    (XI (XO (XO (XO (XO (XO (XO (XO (XO (XO (XO (XO (XO (XO (XO (XO (XO (XO
    (XO (XI (XO (XI (XO (XO XH)))))))))))))))))))))))))))))))) :: ((Npos (XO
    (XI (XO (XO (XO (XO (XI (XO (XI (XO (XO (XO (XO (XO (XO (XO (XO (XO (XO
    (XO (XO (XO (XO (XO (XO (XO (XI (XO (XI (XI (XO
    XH)))))))))))))))))))))))))))))))) :: ((Npos (XI (XI (XO (XI (XI (XI (XI
    (XO (XO (XO (XO (XO (XO (XO (XO (XO (XO (XO (XO (XO (XO (XO (XO (XO (XO
    (XO (XI (XO (XO (XO (XO XH)))))))))))))))))))))))))))))))) :: ((Npos (XI
    (XI (XO (XI (XI (XI (XO (XO (XO (XO (XO (XO (XO (XO (XO (XO (XO (XO (XO
    (XO (XO (XO (XO (XO (XO (XO (XI (XO (XO (XO (XO
    XH)))))))))))))))))))))))))))))))) :: ((Npos (XO (XI (XI (XO (XI (XO (XI
    (XI (XO (XO (XO (XO (XO (XO (XO (XO (XO (XO (XO (XO (XO (XO (XO (XO (XO
    (XO (XI (XO (XI (XO (XO XH)))))))))))))))))))))))))))))))) :: ((Npos (XO
    (XI (XO (XO (XI (XO (XO (XO (XI (XO (XO (XO (XO (XO (XO (XO (XO (XO (XO
    (XO (XO (XO (XO (XO (XO (XO (XI (XO (XI (XO (XO
    XH)))))))))))))))))))))))))))))))) :: ((Npos (XI (XI (XO (XI (XO (XI (XI
    (XO (XO (XO (XO (XO (XO (XO (XO (XO (XO (XO (XO (XO (XO (XO (XO (XO (XO
    (XO (XI (XO (XO (XO (XO XH)))))))))))))))))))))))))))))))) :: ((Npos (XI
    (XI (XO (XI (XO (XI (XO (XO (XO (XO (XO (XO (XO (XO (XO (XO (XO (XO (XO
    (XO (XO (XO (XO (XO (XO (XO (XI (XO (XO (XO (XO
    XH)))))))))))))))))))))))))))))))) :: ((Npos (XO (XI (XI (XO (XI (XI (XO
    (XI (XO (XO (XO (XO (XO (XO (XO (XO (XO (XO (XO (XO (XO (XO (XO (XO (XO
    (XO (XI (XO (XI (XO (XO XH)))))))))))))))))))))))))))))))) :: ((Npos (XI
    (XI (XO (XI (XO (XO (XO (XO (XO (XO (XO (XO (XO (XO (XO (XO (XO (XO (XO
    (XO (XO (XO (XO (XO (XO (XO (XI (XO (XO (XO (XO
    XH)))))))))))))))))))))))))))))))) :: ((Npos (XI (XI (XO (XI (XO (XO (XO
    (XI (XO (XO (XO (XO (XO (XO (XO (XO (XO (XO (XO (XO (XO (XO (XO (XO (XO
    (XO (XI (XO (XO (XO (XO XH)))))))))))))))))))))))))))))))) :: ((Npos (XI
    (XI (XO (XI (XO (XO (XI (XO (XO (XO (XO (XO (XO (XO (XO (XO (XO (XO (XO
    (XO (XO (XO (XO (XO (XO (XO (XI (XO (XO (XO (XO
    XH)))))))))))))))))))))))))))))))) :: ((Npos (XO (XI (XI (XO (XI (XI (XI
    (XI (XO (XO (XO (XO (XO (XO (XO (XO (XO (XO (XO (XO (XO (XO (XO (XO (XO
    (XO (XI (XO (XI (XO (XO XH)))))))))))))))))))))))))))))))) :: ((Npos (XI
    (XI (XO (XO (XO (XO (XO (XO (XI (XO (XO (XO (XO (XO (XO (XO (XO (XO (XO
    (XO (XO (XO (XO (XO (XO (XO (XI (XO (XI (XI
    XH))))))))))))))))))))))))))))))) :: ((Npos (XI (XI (XI (XO (XI (XO (XI
    (XO (XO (XO (XO (XO (XO (XO (XO (XO (XO (XO (XO (XO (XO (XO (XO (XO (XO
    (XO (XI (XO (XO (XO (XO XH)))))))))))))))))))))))))))))))) :: ((Npos (XI
    (XI (XI (XO (XI (XO (XO (XO (XO (XO (XO (XO (XO (XO (XO (XO (XO (XO (XO
    (XO (XO (XO (XO (XO (XO (XO (XI (XO (XO (XO (XO
    XH)))))))))))))))))))))))))))))))) :: (N0 :: ((Npos (XO (XI (XO (XO (XI
    (XI (XO (XO (XI (XO (XO (XO (XO (XO (XO (XO (XO (XO (XO (XO (XO (XO (XO
    (XO (XO (XO (XI (XO (XO (XI (XO
    XH)))))))))))))))))))))))))))))))) :: ((Npos (XI (XI (XI (XO (XI (XI (XI
    (XO (XO (XO (XO (XO (XO (XO (XO (XO (XO (XO (XO (XO (XO (XO (XO (XO (XO
    (XO (XI (XO (XO (XO (XO XH)))))))))))))))))))))))))))))))) :: ((Npos (XI
    (XI (XI (XO (XI (XI (XO (XO (XO (XO (XO (XO (XO (XO (XO (XO (XO (XO (XO
    (XO (XO (XO (XO (XO (XO (XO (XI (XO (XO (XO (XO
    XH)))))))))))))))))))))))))))))))) :: ((Npos (XO (XI (XI (XI (XO (XO (XI
    (XI (XO (XO (XO (XO (XO (XO (XO (XO (XO (XO (XO (XO (XO (XO (XO (XO (XO
    (XO (XI (XO (XI (XO (XO XH)))))))))))))))))))))))))))))))) :: ((Npos (XO
    (XI (XI (XI (XO (XO (XO (XO (XI (XO (XO (XO (XO (XO (XO (XO (XO (XO (XO
    (XO (XO (XO (XO (XO (XO (XO (XI (XO (XO (XO (XO
    XH)))))))))))))))))))))))))))))))) :: ((Npos (XI (XI (XI (XO (XO (XI (XI
    (XO (XO (XO (XO (XO (XO (XO (XO (XO (XO (XO (XO (XO (XO (XO (XO (XO (XO
    (XO (XI (XO (XO (XO (XO XH)))))))))))))))))))))))))))))))) :: ((Npos (XI
    (XI (XI (XO (XO (XI (XO (XO (XO (XO (XO (XO (XO (XO (XO (XO (XO (XO (XO
    (XO (XO (XO (XO (XO (XO (XO (XI (XO (XO (XO (XO
    XH)))))))))))))))))))))))))))))))) :: ((Npos (XO (XI (XI (XI (XO (XI (XO
    (XI (XO (XO (XO (XO (XO (XO (XO (XO (XO (XO (XO (XO (XO (XO (XO (XO (XO
    (XO (XI (XO (XI (XO (XO XH)))))))))))))))))))))))))))))))) :: ((Npos (XI
    (XI (XI (XO (XO (XO (XO (XO (XO (XO (XO (XO (XO (XO (XO (XO (XO (XO (XO
    (XO (XO (XO (XO (XO (XO (XO (XI (XO (XO (XO (XO
    XH)))))))))))))))))))))))))))))))) :: ((Npos (XI (XI (XI (XO (XO (XO (XO
    (XI (XO (XO (XO (XO (XO (XO (XO (XO (XO (XO (XO (XO (XO (XO (XO (XO (XO
    (XO (XI (XO (XO (XO (XO XH)))))))))))))))))))))))))))))))) :: ((Npos (XI
    (XI (XI (XO (XO (XO (XI (XO (XO (XO (XO (XO (XO (XO (XO (XO (XO (XO (XO
    (XO (XO (XO (XO (XO (XO (XO (XI (XO (XO (XO (XO
    XH)))))))))))))))))))))))))))))))) :: ((Npos (XO (XI (XI (XI (XO (XI (XI
    (XI (XO (XO (XO (XO (XO (XO (XO (XO (XO (XO (XO (XO (XO (XO (XO (XO (XO
    (XO (XI (XO (XI (XO (XO XH)))))))))))))))))))))))))))))))) :: ((Npos (XI
    (XI (XI (XO (XO (XO (XO (XO (XI (XO (XO (XO (XO (XO (XO (XO (XO (XO (XO
    (XO (XO (XO (XO (XO (XO (XO (XI (XO (XI (XI
    XH))))))))))))))))))))))))))))))) :: ((Npos (XI (XI (XI (XI (XI (XO (XI
    (XO (XO (XO (XO (XO (XO (XO (XO (XO (XO (XO (XO (XO (XO (XO (XO (XO (XO
    (XO (XI (XO (XO (XO (XO XH)))))))))))))))))))))))))))))))) :: ((Npos (XI
    (XI (XI (XI (XI (XO (XO (XO (XO (XO (XO (XO (XO (XO (XO (XO (XO (XO (XO
    (XO (XO (XO (XO (XO (XO (XO (XI (XO (XO (XO (XO
    XH)))))))))))))))))))))))))))))))) :: ((Npos (XO (XI (XI (XI (XI (XO (XO
    (XI (XO (XO (XO (XO (XO (XO (XO (XO (XO (XO (XO (XO (XO (XO (XO (XO (XO
    (XO (XI (XO (XI (XO (XO XH)))))))))))))))))))))))))))))))) :: ((Npos (XO
    (XI (XO (XO (XO (XI (XI (XO (XI (XO (XO (XO (XO (XO (XO (XO (XO (XO (XO
    (XO (XO (XO (XO (XO (XO (XO (XI (XO (XI (XI (XO
    XH)))))))))))))))))))))))))))))))) :: ((Npos (XI (XI (XI (XI (XI (XI (XI
    (XO (XO (XO (XO (XO (XO (XO (XO (XO (XO (XO (XO (XO (XO (XO (XO (XO (XO
    (XO (XI (XO (XO (XO (XO XH)))))))))))))))))))))))))))))))) :: ((Npos (XI
    (XI (XI (XI (XI (XI (XO (XO (XO (XO (XO (XO (XO (XO (XO (XO (XO (XO (XO
    (XO (XO (XO (XO (XO (XO (XO (XI (XO (XO (XO (XO
    XH)))))))))))))))))))))))))))))))) :: ((Npos (XO (XI (XI (XI (XI (XO (XI
    (XI (XO (XO (XO (XO (XO (XO (XO (XO (XO (XO (XO (XO (XO (XO (XO (XO (XO
    (XO (XI (XO (XI (XO (XO XH)))))))))))))))))))))))))))))))) :: ((Npos (XO
    (XI (XO (XI (XI (XO (XO (XO (XI (XO (XO (XO (XO (XO (XO (XO (XO (XO (XO
    (XO (XO (XO (XO (XO (XO (XO (XI (XO (XI (XO (XO
    XH)))))))))))))))))))))))))))))))) :: ((Npos (XI (XI (XI (XI (XO (XI (XI
    (XO (XO (XO (XO (XO (XO (XO (XO (XO (XO (XO (XO (XO (XO (XO (XO (XO (XO
    (XO (XI (XO (XO (XO (XO XH)))))))))))))))))))))))))))))))) :: ((Npos (XI
    (XI (XI (XI (XO (XI (XO (XO (XO (XO (XO (XO (XO (XO (XO (XO (XO (XO (XO
    (XO (XO (XO (XO (XO (XO (XO (XI (XO (XO (XO (XO
    XH)))))))))))))))))))))))))))))))) :: ((Npos (XO (XI (XI (XI (XI (XI (XO
    (XI (XO (XO (XO (XO (XO (XO (XO (XO (XO (XO (XO (XO (XO (XO (XO (XO (XO
    (XO (XI (XO (XI (XO (XO XH)))))))))))))))))))))))))))))))) :: ((Npos (XI
    (XI (XI (XI (XO (XO (XO (XO (XO (XO (XO (XO (XO (XO (XO (XO (XO (XO (XO
    (XO (XO (XO (XO (XO (XO (XO (XI (XO (XO (XO (XO
    XH)))))))))))))))))))))))))))))))) :: ((Npos (XI (XI (XI (XI (XO (XO (XO
    (XI (XO (XO (XO (XO (XO (XO (XO (XO (XO (XO (XO (XO (XO (XO (XO (XO (XO
    (XO (XI (XO (XO (XO (XO XH)))))))))))))))))))))))))))))))) :: ((Npos (XI
    (XI (XI (XI (XO (XO (XI (XO (XO (XO (XO (XO (XO (XO (XO (XO (XO (XO (XO
    (XO (XO (XO (XO (XO (XO (XO (XI (XO (XO (XO (XO
    XH)))))))))))))))))))))))))))))))) :: ((Npos (XO (XI (XI (XI (XI (XI (XI
    (XI (XO (XO (XO (XO (XO (XO (XO (XO (XO (XO (XO (XO (XO (XO (XO (XO (XO
    (XO (XI (XO (XI (XO (XO XH)))))))))))))))))))))))))))))))) :: ((Npos (XO
    (XO (XO (XO (XO (XO (XO (XO (XI (XO (XO (XO (XO (XO (XO (XO (XO (XO (XO
    (XO (XO (XO (XO (XO (XO (XO (XI (XO (XI (XI
    XH))))))))))))))))))))))))))))))) :: ((Npos (XO (XO (XO (XO (XI (XO (XI
    (XO (XO (XO (XO (XO (XO (XO (XO (XO (XO (XO (XO (XO (XO (XO (XO (XO (XO
    (XO (XI (XO (XO (XO (XO XH)))))))))))))))))))))))))))))))) :: ((Npos (XO
    (XO (XO (XO (XI (XO (XO (XO (XO (XO (XO (XO (XO (XO (XO (XO (XO (XO (XO
    (XO (XO (XO (XO (XO (XO (XO (XI (XO (XO (XO (XO
    XH)))))))))))))))))))))))))))))))) :: ((Npos (XO (XI (XO (XI (XI (XI (XI
    (XO (XI (XO (XO (XO (XO (XO (XO (XO (XO (XO (XO (XO (XO (XO (XO (XO (XO
    (XO (XI (XO (XO (XO (XI XH)))))))))))))))))))))))))))))))) :: ((Npos (XI
    (XI (XI (XI (XI (XO (XO (XO (XI (XO (XO (XO (XO (XO (XO (XO (XO (XO (XO
    (XO (XO (XO (XO (XO (XO (XO (XI (XO (XI (XO (XO
    XH)))))))))))))))))))))))))))))))) :: ((Npos (XO (XO (XO (XO (XI (XI (XI
    (XO (XO (XO (XO (XO (XO (XO (XO (XO (XO (XO (XO (XO (XO (XO (XO (XO (XO
    (XO (XI (XO (XO (XO (XO XH)))))))))))))))))))))))))))))))) :: ((Npos (XO
    (XO (XO (XO (XI (XI (XO (XO (XO (XO (XO (XO (XO (XO (XO (XO (XO (XO (XO
    (XO (XO (XO (XO (XO (XO (XO (XI (XO (XO (XO (XO
    XH)))))))))))))))))))))))))))))))) :: ((Npos (XI (XO (XO (XO (XO (XO (XI
    (XI (XO (XO (XO (XO (XO (XO (XO (XO (XO (XO (XO (XO (XO (XO (XO (XO (XO
    (XO (XI (XO (XI (XO (XO XH)))))))))))))))))))))))))))))))) :: ((Npos (XO
    (XO (XO (XI (XO (XO (XO (XO (XI (XO (XO (XO (XO (XO (XO (XO (XO (XO (XO
    (XO (XO (XO (XO (XO (XO (XO (XI (XO (XI (XI
    XH))))))))))))))))))))))))))))))) :: ((Npos (XO (XO (XO (XO (XO (XI (XI
    (XO (XO (XO (XO (XO (XO (XO (XO (XO (XO (XO (XO (XO (XO (XO (XO (XO (XO
    (XO (XI (XO (XO (XO (XO XH)))))))))))))))))))))))))))))))) :: ((Npos (XO
    (XO (XO (XO (XO (XI (XO (XO (XO (XO (XO (XO (XO (XO (XO (XO (XO (XO (XO
    (XO (XO (XO (XO (XO (XO (XO (XI (XO (XO (XO (XO
    XH)))))))))))))))))))))))))))))))) :: ((Npos (XI (XO (XO (XO (XO (XI (XO
    (XI (XO (XO (XO (XO (XO (XO (XO (XO (XO (XO (XO (XO (XO (XO (XO (XO (XO
    (XO (XI (XO (XI (XO (XO XH)))))))))))))))))))))))))))))))) :: ((Npos (XO
    (XO (XO (XO (XO (XO (XO (XO (XO (XO (XO (XO (XO (XO (XO (XO (XO (XO (XO
    (XO (XO (XO (XO (XO (XO (XO (XI (XO (XO (XO (XO
    XH)))))))))))))))))))))))))))))))) :: ((Npos (XO (XO (XO (XO (XO (XO (XO
    (XI (XO (XO (XO (XO (XO (XO (XO (XO (XO (XO (XO (XO (XO (XO (XO (XO (XO
    (XO (XI (XO (XO (XO (XO XH)))))))))))))))))))))))))))))))) :: ((Npos (XO
    (XO (XO (XO (XO (XO (XI (XO (XO (XO (XO (XO (XO (XO (XO (XO (XO (XO (XO
    (XO (XO (XO (XO (XO (XO (XO (XI (XO (XO (XO (XO
    XH)))))))))))))))))))))))))))))))) :: ((Npos (XI (XO (XO (XO (XO (XI (XI
    (XI (XO (XO (XO (XO (XO (XO (XO (XO (XO (XO (XO (XO (XO (XO (XO (XO (XO
    (XO (XI (XO (XI (XO (XO XH)))))))))))))))))))))))))))))))) :: ((Npos (XO
    (XO (XI (XO (XO (XO (XO (XO (XI (XO (XO (XO (XO (XO (XO (XO (XO (XO (XO
    (XO (XO (XO (XO (XO (XO (XO (XI (XO (XI (XI
    XH))))))))))))))))))))))))))))))) :: ((Npos (XO (XO (XO (XI (XI (XO (XI
    (XO (XO (XO (XO (XO (XO (XO (XO (XO (XO (XO (XO (XO (XO (XO (XO (XO (XO
    (XO (XI (XO (XO (XO (XO XH)))))))))))))))))))))))))))))))) :: ((Npos (XO
    (XO (XO (XI (XI (XO (XO (XO (XO (XO (XO (XO (XO (XO (XO (XO (XO (XO (XO
    (XO (XO (XO (XO (XO (XO (XO (XI (XO (XO (XO (XO
    XH)))))))))))))))))))))))))))))))) :: ((Npos (XI (XO (XO (XO (XI (XO (XO
    (XI (XO (XO (XO (XO (XO (XO (XO (XO (XO (XO (XO (XO (XO (XO (XO (XO (XO
    (XO (XI (XO (XI (XO (XO XH)))))))))))))))))))))))))))))))) :: ((Npos (XI
    (XI (XO (XI (XI (XI (XO (XO (XI (XO (XO (XO (XO (XO (XO (XO (XO (XO (XO
    (XO (XO (XO (XO (XO (XO (XO (XI (XO (XO (XI (XO
    XH)))))))))))))))))))))))))))))))) :: ((Npos (XO (XO (XO (XI (XI (XI (XI
    (XO (XO (XO (XO (XO (XO (XO (XO (XO (XO (XO (XO (XO (XO (XO (XO (XO (XO
    (XO (XI (XO (XO (XO (XO XH)))))))))))))))))))))))))))))))) :: ((Npos (XO
    (XO (XO (XI (XI (XI (XO (XO (XO (XO (XO (XO (XO (XO (XO (XO (XO (XO (XO
    (XO (XO (XO (XO (XO (XO (XO (XI (XO (XO (XO (XO
    XH)))))))))))))))))))))))))))))))) :: ((Npos (XI (XO (XO (XO (XI (XO (XI
    (XI (XO (XO (XO (XO (XO (XO (XO (XO (XO (XO (XO (XO (XO (XO (XO (XO (XO
    (XO (XI (XO (XI (XO (XO XH)))))))))))))))))))))))))))))))) :: ((Npos (XI
    (XI (XI (XI (XO (XO (XO (XO (XI (XO (XO (XO (XO (XO (XO (XO (XO (XO (XO
    (XO (XO (XO (XO (XO (XO (XO (XI (XO (XO (XO (XO
    XH)))))))))))))))))))))))))))))))) :: ((Npos (XO (XO (XO (XI (XO (XI (XI
    (XO (XO (XO (XO (XO (XO (XO (XO (XO (XO (XO (XO (XO (XO (XO (XO (XO (XO
    (XO (XI (XO (XO (XO (XO XH)))))))))))))))))))))))))))))))) :: ((Npos (XO
    (XO (XO (XI (XO (XI (XO (XO (XO (XO (XO (XO (XO (XO (XO (XO (XO (XO (XO
    (XO (XO (XO (XO (XO (XO (XO (XI (XO (XO (XO (XO
    XH)))))))))))))))))))))))))))))))) :: ((Npos (XI (XO (XO (XO (XI (XI (XO
    (XI (XO (XO (XO (XO (XO (XO (XO (XO (XO (XO (XO (XO (XO (XO (XO (XO (XO
    (XO (XI (XO (XI (XO (XO XH)))))))))))))))))))))))))))))))) :: ((Npos (XO
    (XO (XO (XI (XO (XO (XO (XO (XO (XO (XO (XO (XO (XO (XO (XO (XO (XO (XO
    (XO (XO (XO (XO (XO (XO (XO (XI (XO (XO (XO (XO
    XH)))))))))))))))))))))))))))))))) :: ((Npos (XO (XO (XO (XI (XO (XO (XO
    (XI (XO (XO (XO (XO (XO (XO (XO (XO (XO (XO (XO (XO (XO (XO (XO (XO (XO
    (XO (XI (XO (XO (XO (XO XH)))))))))))))))))))))))))))))))) :: ((Npos (XO
    (XO (XO (XI (XO (XO (XI (XO (XO (XO (XO (XO (XO (XO (XO (XO (XO (XO (XO
    (XO (XO (XO (XO (XO (XO (XO (XI (XO (XO (XO (XO
    XH)))))))))))))))))))))))))))))))) :: ((Npos (XI (XO (XO (XO (XI (XI (XI
    (XI (XO (XO (XO (XO (XO (XO (XO (XO (XO (XO (XO (XO (XO (XO (XO (XO (XO
    (XO (XI (XO (XI (XO (XO XH)))))))))))))))))))))))))))))))) :: ((Npos (XO
    (XI (XO (XO (XO (XO (XO (XO (XI (XO (XO (XO (XO (XO (XO (XO (XO (XO (XO
    (XO (XO (XO (XO (XO (XO (XO (XI (XO (XI (XI
    XH))))))))))))))))))))))))))))))) :: ((Npos (XO (XO (XI (XO (XI (XO (XI
    (XO (XO (XO (XO (XO (XO (XO (XO (XO (XO (XO (XO (XO (XO (XO (XO (XO (XO
    (XO (XI (XO (XO (XO (XO XH)))))))))))))))))))))))))))))))) :: ((Npos (XO
    (XO (XI (XO (XI (XO (XO (XO (XO (XO (XO (XO (XO (XO (XO (XO (XO (XO (XO
    (XO (XO (XO (XO (XO (XO (XO (XI (XO (XO (XO (XO
    XH)))))))))))))))))))))))))))))))) :: ((Npos (XO (XI (XO (XO (XI (XI (XI
    (XO (XO (XO (XO (XO (XO (XO (XO (XO (XO (XO (XO (XO (XO (XO (XO (XO (XO
    (XI (XI (XO (XI XH)))))))))))))))))))))))))))))) :: ((Npos (XI (XI (XO
    (XI (XO (XI (XO (XO (XI (XO (XO (XO (XO (XO (XO (XO (XO (XO (XO (XO (XO
    (XO (XO (XO (XO (XO (XI (XO (XO (XI (XO
    XH)))))))))))))))))))))))))))))))) :: ((Npos (XO (XO (XI (XO (XI (XI (XI
    (XO (XO (XO (XO (XO (XO (XO (XO (XO (XO (XO (XO (XO (XO (XO (XO (XO (XO
    (XO (XI (XO (XO (XO (XO XH)))))))))))))))))))))))))))))))) :: ((Npos (XO
    (XO (XI (XO (XI (XI (XO (XO (XO (XO (XO (XO (XO (XO (XO (XO (XO (XO (XO
    (XO (XO (XO (XO (XO (XO (XO (XI (XO (XO (XO (XO
    XH)))))))))))))))))))))))))))))))) :: ((Npos (XI (XO (XO (XI (XO (XO (XI
    (XI (XO (XO (XO (XO (XO (XO (XO (XO (XO (XO (XO (XO (XO (XO (XO (XO (XO
    (XO (XI (XO (XI (XO (XO XH)))))))))))))))))))))))))))))))) :: ((Npos (XI
    (XI (XO (XI (XO (XO (XO (XO (XI (XO (XO (XO (XO (XO (XO (XO (XO (XO (XO
    (XO (XO (XO (XO (XO (XO (XO (XI (XO (XO (XO (XO
    XH)))))))))))))))))))))))))))))))) :: ((Npos (XO (XO (XI (XO (XO (XI (XI
    (XO (XO (XO (XO (XO (XO (XO (XO (XO (XO (XO (XO (XO (XO (XO (XO (XO (XO
    (XO (XI (XO (XO (XO (XO XH)))))))))))))))))))))))))))))))) :: ((Npos (XO
    (XO (XI (XO (XO (XI (XO (XO (XO (XO (XO (XO (XO (XO (XO (XO (XO (XO (XO
    (XO (XO (XO (XO (XO (XO (XO (XI (XO (XO (XO (XO
    XH)))))))))))))))))))))))))))))))) :: ((Npos (XI (XO (XO (XI (XO (XI (XO
    (XI (XO (XO (XO (XO (XO (XO (XO (XO (XO (XO (XO (XO (XO (XO (XO (XO (XO
    (XO (XI (XO (XI (XO (XO XH)))))))))))))))))))))))))))))))) :: ((Npos (XO
    (XO (XI (XO (XO (XO (XO (XO (XO (XO (XO (XO (XO (XO (XO (XO (XO (XO (XO
    (XO (XO (XO (XO (XO (XO (XO (XI (XO (XO (XO (XO
    XH)))))))))))))))))))))))))))))))) :: ((Npos (XO (XO (XI (XO (XO (XO (XO
    (XI (XO (XO (XO (XO (XO (XO (XO (XO (XO (XO (XO (XO (XO (XO (XO (XO (XO
    (XO (XI (XO (XO (XO (XO XH)))))))))))))))))))))))))))))))) :: ((Npos (XO
    (XO (XI (XO (XO (XO (XI (XO (XO (XO (XO (XO (XO (XO (XO (XO (XO (XO (XO
    (XO (XO (XO (XO (XO (XO (XO (XI (XO (XO (XO (XO
    XH)))))))))))))))))))))))))))))))) :: ((Npos (XI (XO (XO (XI (XO (XI (XI
    (XI (XO (XO (XO (XO (XO (XO (XO (XO (XO (XO (XO (XO (XO (XO (XO (XO (XO
    (XO (XI (XO (XI (XO (XO XH)))))))))))))))))))))))))))))))) :: ((Npos (XO
    (XI (XI (XO (XO (XO (XO (XO (XI (XO (XO (XO (XO (XO (XO (XO (XO (XO (XO
    (XO (XO (XO (XO (XO (XO (XO (XI (XO (XI (XI
    XH))))))))))))))))))))))))))))))) :: ((Npos (XO (XO (XI (XI (XI (XO (XI
    (XO (XO (XO (XO (XO (XO (XO (XO (XO (XO (XO (XO (XO (XO (XO (XO (XO (XO
    (XO (XI (XO (XO (XO (XO XH)))))))))))))))))))))))))))))))) :: ((Npos (XO
    (XO (XI (XI (XI (XO (XO (XO (XO (XO (XO (XO (XO (XO (XO (XO (XO (XO (XO
    (XO (XO (XO (XO (XO (XO (XO (XI (XO (XO (XO (XO
    XH)))))))))))))))))))))))))))))))) :: ((Npos (XI (XO (XO (XI (XI (XO (XO
    (XI (XO (XO (XO (XO (XO (XO (XO (XO (XO (XO (XO (XO (XO (XO (XO (XO (XO
    (XO (XI (XO (XI (XO (XO XH)))))))))))))))))))))))))))))))) :: ((Npos (XI
    (XI (XO (XO (XI (XO (XI (XO (XI (XO (XO (XO (XO (XO (XO (XO (XO (XO (XO
    (XO (XO (XO (XO (XO (XO (XO (XI (XO (XI (XI (XO
    XH)))))))))))))))))))))))))))))))) :: ((Npos (XO (XO (XI (XI (XI (XI (XI
    (XO (XO (XO (XO (XO (XO (XO (XO (XO (XO (XO (XO (XO (XO (XO (XO (XO (XO
    (XO (XI (XO (XO (XO (XO XH)))))))))))))))))))))))))))))))) :: ((Npos (XO
    (XO (XI (XI (XI (XI (XO (XO (XO (XO (XO (XO (XO (XO (XO (XO (XO (XO (XO
    (XO (XO (XO (XO (XO (XO (XO (XI (XO (XO (XO (XO
    XH)))))))))))))))))))))))))))))))) :: ((Npos (XI (XO (XO (XI (XI (XO (XI
    (XI (XO (XO (XO (XO (XO (XO (XO (XO (XO (XO (XO (XO (XO (XO (XO (XO (XO
    (XO (XI (XO (XI (XO (XO XH)))))))))))))))))))))))))))))))) :: ((Npos (XI
    (XI (XI (XO (XI (XO (XO (XO (XI (XO (XO (XO (XO (XO (XO (XO (XO (XO (XO
    (XO (XO (XO (XO (XO (XO (XO (XI (XO (XI (XO (XO
    XH)))))))))))))))))))))))))))))))) :: ((Npos (XO (XO (XI (XI (XO (XI (XI
    (XO (XO (XO (XO (XO (XO (XO (XO (XO (XO (XO (XO (XO (XO (XO (XO (XO (XO
    (XO (XI (XO (XO (XO (XO XH)))))))))))))))))))))))))))))))) :: ((Npos (XO
    (XO (XI (XI (XO (XI (XO (XO (XO (XO (XO (XO (XO (XO (XO (XO (XO (XO (XO
    (XO (XO (XO (XO (XO (XO (XO (XI (XO (XO (XO (XO
    XH)))))))))))))))))))))))))))))))) :: ((Npos (XI (XO (XO (XI (XI (XI (XO
    (XI (XO (XO (XO (XO (XO (XO (XO (XO (XO (XO (XO (XO (XO (XO (XO (XO (XO
    (XO (XI (XO (XI (XO (XO XH)))))))))))))))))))))))))))))))) :: ((Npos (XO
    (XO (XI (XI (XO (XO (XO (XO (XO (XO (XO (XO (XO (XO (XO (XO (XO (XO (XO
    (XO (XO (XO (XO (XO (XO (XO (XI (XO (XO (XO (XO
    XH)))))))))))))))))))))))))))))))) :: ((Npos (XO (XO (XI (XI (XO (XO (XO
    (XI (XO (XO (XO (XO (XO (XO (XO (XO (XO (XO (XO (XO (XO (XO (XO (XO (XO
    (XO (XI (XO (XO (XO (XO XH)))))))))))))))))))))))))))))))) :: ((Npos (XO
    (XO (XI (XI (XO (XO (XI (XO (XO (XO (XO (XO (XO (XO (XO (XO (XO (XO (XO
    (XO (XO (XO (XO (XO (XO (XO (XI (XO (XO (XO (XO
    XH)))))))))))))))))))))))))))))))) :: ((Npos (XI (XO (XO (XI (XI (XI (XI
    (XI (XO (XO (XO (XO (XO (XO (XO (XO (XO (XO (XO (XO (XO (XO (XO (XO (XO
    (XO (XI (XO (XI (XO (XO XH)))))))))))))))))))))))))))))))) :: ((Npos (XI
    (XO (XO (XO (XO (XO (XO (XO (XI (XO (XO (XO (XO (XO (XO (XO (XO (XO (XO
    (XO (XO (XO (XO (XO (XO (XO (XI (XO (XI (XI
    XH))))))))))))))))))))))))))))))) :: ((Npos (XO (XI (XO (XO (XI (XO (XI
    (XO (XO (XO (XO (XO (XO (XO (XO (XO (XO (XO (XO (XO (XO (XO (XO (XO (XO
    (XO (XI (XO (XO (XO (XO XH)))))))))))))))))))))))))))))))) :: ((Npos (XO
    (XI (XO (XO (XI (XO (XO (XO (XO (XO (XO (XO (XO (XO (XO (XO (XO (XO (XO
    (XO (XO (XO (XO (XO (XO (XO (XI (XO (XO (XO (XO
    XH)))))))))))))))))))))))))))))))) :: ((Npos (XO (XI (XO (XO (XI (XI (XO
    (XO (XO (XO (XO (XO (XO (XO (XO (XO (XO (XO (XO (XO (XO (XO (XO (XO (XO
    (XI (XI (XO (XI XH)))))))))))))))))))))))))))))) :: ((Npos (XI (XI (XO
    (XO (XO (XI (XO (XO (XI (XO (XO (XO (XO (XO (XO (XO (XO (XO (XO (XO (XO
    (XO (XO (XO (XO (XO (XI (XO (XO (XI (XO
    XH)))))))))))))))))))))))))))))))) :: ((Npos (XO (XI (XO (XO (XI (XI (XI
    (XO (XO (XO (XO (XO (XO (XO (XO (XO (XO (XO (XO (XO (XO (XO (XO (XO (XO
    (XO (XI (XO (XO (XO (XO XH)))))))))))))))))))))))))))))))) :: ((Npos (XO
    (XI (XO (XO (XI (XI (XO (XO (XO (XO (XO (XO (XO (XO (XO (XO (XO (XO (XO
    (XO (XO (XO (XO (XO (XO (XO (XI (XO (XO (XO (XO
    XH)))))))))))))))))))))))))))))))) :: ((Npos (XI (XO (XI (XO (XO (XO (XI
    (XI (XO (XO (XO (XO (XO (XO (XO (XO (XO (XO (XO (XO (XO (XO (XO (XO (XO
    (XO (XI (XO (XI (XO (XO XH)))))))))))))))))))))))))))))))) :: ((Npos (XI
    (XO (XO (XI (XO (XO (XO (XO (XI (XO (XO (XO (XO (XO (XO (XO (XO (XO (XO
    (XO (XO (XO (XO (XO (XO (XO (XI (XO (XO (XO (XO
    XH)))))))))))))))))))))))))))))))) :: ((Npos (XO (XI (XO (XO (XO (XI (XI
    (XO (XO (XO (XO (XO (XO (XO (XO (XO (XO (XO (XO (XO (XO (XO (XO (XO (XO
    (XO (XI (XO (XO (XO (XO XH)))))))))))))))))))))))))))))))) :: ((Npos (XO
    (XI (XO (XO (XO (XI (XO (XO (XO (XO (XO (XO (XO (XO (XO (XO (XO (XO (XO
    (XO (XO (XO (XO (XO (XO (XO (XI (XO (XO (XO (XO
    XH)))))))))))))))))))))))))))))))) :: ((Npos (XI (XO (XI (XO (XO (XI (XO
    (XI (XO (XO (XO (XO (XO (XO (XO (XO (XO (XO (XO (XO (XO (XO (XO (XO (XO
    (XO (XI (XO (XI (XO (XO XH)))))))))))))))))))))))))))))))) :: ((Npos (XO
    (XI (XO (XO (XO (XO (XO (XO (XO (XO (XO (XO (XO (XO (XO (XO (XO (XO (XO
    (XO (XO (XO (XO (XO (XO (XO (XI (XO (XO (XO (XO
    XH)))))))))))))))))))))))))))))))) :: ((Npos (XO (XI (XO (XO (XO (XO (XO
    (XI (XO (XO (XO (XO (XO (XO (XO (XO (XO (XO (XO (XO (XO (XO (XO (XO (XO
    (XO (XI (XO (XO (XO (XO XH)))))))))))))))))))))))))))))))) :: ((Npos (XO
    (XI (XO (XO (XO (XO (XI (XO (XO (XO (XO (XO (XO (XO (XO (XO (XO (XO (XO
    (XO (XO (XO (XO (XO (XO (XO (XI (XO (XO (XO (XO
    XH)))))))))))))))))))))))))))))))) :: ((Npos (XI (XO (XI (XO (XO (XI (XI
    (XI (XO (XO (XO (XO (XO (XO (XO (XO (XO (XO (XO (XO (XO (XO (XO (XO (XO
    (XO (XI (XO (XI (XO (XO XH)))))))))))))))))))))))))))))))) :: ((Npos (XI
    (XO (XI (XO (XO (XO (XO (XO (XI (XO (XO (XO (XO (XO (XO (XO (XO (XO (XO
    (XO (XO (XO (XO (XO (XO (XO (XI (XO (XI (XI
    XH))))))))))))))))))))))))))))))) :: ((Npos (XO (XI (XO (XI (XI (XO (XI
    (XO (XO (XO (XO (XO (XO (XO (XO (XO (XO (XO (XO (XO (XO (XO (XO (XO (XO
    (XO (XI (XO (XO (XO (XO XH)))))))))))))))))))))))))))))))) :: ((Npos (XO
    (XI (XO (XI (XI (XO (XO (XO (XO (XO (XO (XO (XO (XO (XO (XO (XO (XO (XO
    (XO (XO (XO (XO (XO (XO (XO (XI (XO (XO (XO (XO
    XH)))))))))))))))))))))))))))))))) :: ((Npos (XI (XO (XI (XO (XI (XO (XO
    (XI (XO (XO (XO (XO (XO (XO (XO (XO (XO (XO (XO (XO (XO (XO (XO (XO (XO
    (XO (XI (XO (XI (XO (XO XH)))))))))))))))))))))))))))))))) :: ((Npos (XI
    (XI (XO (XO (XO (XO (XI (XO (XI (XO (XO (XO (XO (XO (XO (XO (XO (XO (XO
    (XO (XO (XO (XO (XO (XO (XO (XI (XO (XI (XI (XO
    XH)))))))))))))))))))))))))))))))) :: ((Npos (XO (XI (XO (XI (XI (XI (XI
    (XO (XO (XO (XO (XO (XO (XO (XO (XO (XO (XO (XO (XO (XO (XO (XO (XO (XO
    (XO (XI (XO (XO (XO (XO XH)))))))))))))))))))))))))))))))) :: ((Npos (XO
    (XI (XO (XI (XI (XI (XO (XO (XO (XO (XO (XO (XO (XO (XO (XO (XO (XO (XO
    (XO (XO (XO (XO (XO (XO (XO (XI (XO (XO (XO (XO
    XH)))))))))))))))))))))))))))))))) :: ((Npos (XI (XO (XI (XO (XI (XO (XI
    (XI (XO (XO (XO (XO (XO (XO (XO (XO (XO (XO (XO (XO (XO (XO (XO (XO (XO
    (XO (XI (XO (XI (XO (XO XH)))))))))))))))))))))))))))))))) :: ((Npos (XI
    (XI (XO (XO (XI (XO (XO (XO (XI (XO (XO (XO (XO (XO (XO (XO (XO (XO (XO
    (XO (XO (XO (XO (XO (XO (XO (XI (XO (XI (XO (XO
    XH)))))))))))))))))))))))))))))))) :: ((Npos (XO (XI (XO (XI (XO (XI (XI
    (XO (XO (XO (XO (XO (XO (XO (XO (XO (XO (XO (XO (XO (XO (XO (XO (XO (XO
    (XO (XI (XO (XO (XO (XO XH)))))))))))))))))))))))))))))))) :: ((Npos (XO
    (XI (XO (XI (XO (XI (XO (XO (XO (XO (XO (XO (XO (XO (XO (XO (XO (XO (XO
    (XO (XO (XO (XO (XO (XO (XO (XI (XO (XO (XO (XO
    XH)))))))))))))))))))))))))))))))) :: ((Npos (XI (XO (XI (XO (XI (XI (XO
    (XI (XO (XO (XO (XO (XO (XO (XO (XO (XO (XO (XO (XO (XO (XO (XO (XO (XO
    (XO (XI (XO (XI (XO (XO XH)))))))))))))))))))))))))))))))) :: ((Npos (XO
    (XI (XO (XI (XO (XO (XO (XO (XO (XO (XO (XO (XO (XO (XO (XO (XO (XO (XO
    (XO (XO (XO (XO (XO (XO (XO (XI (XO (XO (XO (XO
    XH)))))))))))))))))))))))))))))))) :: ((Npos (XO (XI (XO (XI (XO (XO (XO
    (XI (XO (XO (XO (XO (XO (XO (XO (XO (XO (XO (XO (XO (XO (XO (XO (XO (XO
    (XO (XI (XO (XO (XO (XO XH)))))))))))))))))))))))))))))))) :: ((Npos (XO
    (XI (XO (XI (XO (XO (XI (XO (XO (XO (XO (XO (XO (XO (XO (XO (XO (XO (XO
    (XO (XO (XO (XO (XO (XO (XO (XI (XO (XO (XO (XO
    XH)))))))))))))))))))))))))))))))) :: ((Npos (XI (XO (XI (XO (XI (XI (XI
    (XI (XO (XO (XO (XO (XO (XO (XO (XO (XO (XO (XO (XO (XO (XO (XO (XO (XO
    (XO (XI (XO (XI (XO (XO XH)))))))))))))))))))))))))))))))) :: ((Npos (XI
    (XI (XO (XO (XO (XO (XO (XO (XI (XO (XO (XO (XO (XO (XO (XO (XO (XO (XO
    (XO (XO (XO (XO (XO (XO (XO (XI (XO (XI (XI
    XH))))))))))))))))))))))))))))))) :: ((Npos (XO (XI (XI (XO (XI (XO (XI
    (XO (XO (XO (XO (XO (XO (XO (XO (XO (XO (XO (XO (XO (XO (XO (XO (XO (XO
    (XO (XI (XO (XO (XO (XO XH)))))))))))))))))))))))))))))))) :: ((Npos (XO
    (XI (XI (XO (XI (XO (XO (XO (XO (XO (XO (XO (XO (XO (XO (XO (XO (XO (XO
    (XO (XO (XO (XO (XO (XO (XO (XI (XO (XO (XO (XO
    XH)))))))))))))))))))))))))))))))) :: (N0 :: ((Npos (XI (XI (XO (XO (XI
    (XI (XO (XO (XI (XO (XO (XO (XO (XO (XO (XO (XO (XO (XO (XO (XO (XO (XO
    (XO (XO (XO (XI (XO (XO (XI (XO
    XH)))))))))))))))))))))))))))))))) :: ((Npos (XO (XI (XI (XO (XI (XI (XI
    (XO (XO (XO (XO (XO (XO (XO (XO (XO (XO (XO (XO (XO (XO (XO (XO (XO (XO
    (XO (XI (XO (XO (XO (XO XH)))))))))))))))))))))))))))))))) :: ((Npos (XO
    (XI (XI (XO (XI (XI (XO (XO (XO (XO (XO (XO (XO (XO (XO (XO (XO (XO (XO
    (XO (XO (XO (XO (XO (XO (XO (XI (XO (XO (XO (XO
    XH)))))))))))))))))))))))))))))))) :: ((Npos (XI (XO (XI (XI (XO (XO (XI
    (XI (XO (XO (XO (XO (XO (XO (XO (XO (XO (XO (XO (XO (XO (XO (XO (XO (XO
    (XO (XI (XO (XI (XO (XO XH)))))))))))))))))))))))))))))))) :: ((Npos (XI
    (XO (XI (XI (XO (XO (XO (XO (XI (XO (XO (XO (XO (XO (XO (XO (XO (XO (XO
    (XO (XO (XO (XO (XO (XO (XO (XI (XO (XO (XO (XO
    XH)))))))))))))))))))))))))))))))) :: ((Npos (XO (XI (XI (XO (XO (XI (XI
    (XO (XO (XO (XO (XO (XO (XO (XO (XO (XO (XO (XO (XO (XO (XO (XO (XO (XO
    (XO (XI (XO (XO (XO (XO XH)))))))))))))))))))))))))))))))) :: ((Npos (XO
    (XI (XI (XO (XO (XI (XO (XO (XO (XO (XO (XO (XO (XO (XO (XO (XO (XO (XO
    (XO (XO (XO (XO (XO (XO (XO (XI (XO (XO (XO (XO
    XH)))))))))))))))))))))))))))))))) :: ((Npos (XI (XO (XI (XI (XO (XI (XO
    (XI (XO (XO (XO (XO (XO (XO (XO (XO (XO (XO (XO (XO (XO (XO (XO (XO (XO
    (XO (XI (XO (XI (XO (XO XH)))))))))))))))))))))))))))))))) :: ((Npos (XO
    (XI (XI (XO (XO (XO (XO (XO (XO (XO (XO (XO (XO (XO (XO (XO (XO (XO (XO
    (XO (XO (XO (XO (XO (XO (XO (XI (XO (XO (XO (XO
    XH)))))))))))))))))))))))))))))))) :: ((Npos (XO (XI (XI (XO (XO (XO (XO
    (XI (XO (XO (XO (XO (XO (XO (XO (XO (XO (XO (XO (XO (XO (XO (XO (XO (XO
    (XO (XI (XO (XO (XO (XO XH)))))))))))))))))))))))))))))))) :: ((Npos (XO
    (XI (XI (XO (XO (XO (XI (XO (XO (XO (XO (XO (XO (XO (XO (XO (XO (XO (XO
    (XO (XO (XO (XO (XO (XO (XO (XI (XO (XO (XO (XO
    XH)))))))))))))))))))))))))))))))) :: ((Npos (XI (XO (XI (XI (XO (XI (XI
    (XI (XO (XO (XO (XO (XO (XO (XO (XO (XO (XO (XO (XO (XO (XO (XO (XO (XO
    (XO (XI (XO (XI (XO (XO XH)))))))))))))))))))))))))))))))) :: ((Npos (XI
    (XI (XI (XO (XO (XO (XO (XO (XI (XO (XO (XO (XO (XO (XO (XO (XO (XO (XO
    (XO (XO (XO (XO (XO (XO (XO (XI (XO (XI (XI
    XH))))))))))))))))))))))))))))))) :: ((Npos (XO (XI (XI (XI (XI (XO (XI
    (XO (XO (XO (XO (XO (XO (XO (XO (XO (XO (XO (XO (XO (XO (XO (XO (XO (XO
    (XO (XI (XO (XO (XO (XO XH)))))))))))))))))))))))))))))))) :: ((Npos (XO
    (XI (XI (XI (XI (XO (XO (XO (XO (XO (XO (XO (XO (XO (XO (XO (XO (XO (XO
    (XO (XO (XO (XO (XO (XO (XO (XI (XO (XO (XO (XO
    XH)))))))))))))))))))))))))))))))) :: ((Npos (XI (XO (XI (XI (XI (XO (XO
    (XI (XO (XO (XO (XO (XO (XO (XO (XO (XO (XO (XO (XO (XO (XO (XO (XO (XO
    (XO (XI (XO (XI (XO (XO XH)))))))))))))))))))))))))))))))) :: ((Npos (XI
    (XI (XO (XO (XO (XI (XI (XO (XI (XO (XO (XO (XO (XO (XO (XO (XO (XO (XO
    (XO (XO (XO (XO (XO (XO (XO (XI (XO (XI (XI (XO
    XH)))))))))))))))))))))))))))))))) :: ((Npos (XO (XI (XI (XI (XI (XI (XI
    (XO (XO (XO (XO (XO (XO (XO (XO (XO (XO (XO (XO (XO (XO (XO (XO (XO (XO
    (XO (XI (XO (XO (XO (XO XH)))))))))))))))))))))))))))))))) :: ((Npos (XO
    (XI (XI (XI (XI (XI (XO (XO (XO (XO (XO (XO (XO (XO (XO (XO (XO (XO (XO
    (XO (XO (XO (XO (XO (XO (XO (XI (XO (XO (XO (XO
    XH)))))))))))))))))))))))))))))))) :: ((Npos (XI (XO (XI (XI (XI (XO (XI
    (XI (XO (XO (XO (XO (XO (XO (XO (XO (XO (XO (XO (XO (XO (XO (XO (XO (XO
    (XO (XI (XO (XI (XO (XO XH)))))))))))))))))))))))))))))))) :: ((Npos (XI
    (XI (XO (XI (XI (XO (XO (XO (XI (XO (XO (XO (XO (XO (XO (XO (XO (XO (XO
    (XO (XO (XO (XO (XO (XO (XO (XI (XO (XI (XO (XO
    XH)))))))))))))))))))))))))))))))) :: ((Npos (XO (XI (XI (XI (XO (XI (XI
    (XO (XO (XO (XO (XO (XO (XO (XO (XO (XO (XO (XO (XO (XO (XO (XO (XO (XO
    (XO (XI (XO (XO (XO (XO XH)))))))))))))))))))))))))))))))) :: ((Npos (XO
    (XI (XI (XI (XO (XI (XO (XO (XO (XO (XO (XO (XO (XO (XO (XO (XO (XO (XO
    (XO (XO (XO (XO (XO (XO (XO (XI (XO (XO (XO (XO
    XH)))))))))))))))))))))))))))))))) :: ((Npos (XI (XO (XI (XI (XI (XI (XO
    (XI (XO (XO (XO (XO (XO (XO (XO (XO (XO (XO (XO (XO (XO (XO (XO (XO (XO
    (XO (XI (XO (XI (XO (XO XH)))))))))))))))))))))))))))))))) :: ((Npos (XO
    (XI (XI (XI (XO (XO (XO (XO (XO (XO (XO (XO (XO (XO (XO (XO (XO (XO (XO
    (XO (XO (XO (XO (XO (XO (XO (XI (XO (XO (XO (XO
    XH)))))))))))))))))))))))))))))))) :: ((Npos (XO (XI (XI (XI (XO (XO (XO
    (XI (XO (XO (XO (XO (XO (XO (XO (XO (XO (XO (XO (XO (XO (XO (XO (XO (XO
    (XO (XI (XO (XO (XO (XO XH)))))))))))))))))))))))))))))))) :: ((Npos (XO
    (XI (XI (XI (XO (XO (XI (XO (XO (XO (XO (XO (XO (XO (XO (XO (XO (XO (XO
    (XO (XO (XO (XO (XO (XO (XO (XI (XO (XO (XO (XO
    XH)))))))))))))))))))))))))))))))) :: ((Npos (XI (XO (XI (XI (XI (XI (XI
    (XI (XO (XO (XO (XO (XO (XO (XO (XO (XO (XO (XO (XO (XO (XO (XO (XO (XO
    (XO (XI (XO (XI (XO (XO XH)))))))))))))))))))))))))))))))) :: ((Npos (XO
    (XO (XO (XO (XO (XO (XO (XO (XI (XO (XO (XO (XO (XO (XO (XO (XO (XO (XO
    (XO (XO (XO (XO (XO (XO (XO (XI (XO (XI (XI
    XH))))))))))))))))))))))))))))))) :: ((Npos (XI (XO (XO (XO (XI (XO (XI
    (XO (XO (XO (XO (XO (XO (XO (XO (XO (XO (XO (XO (XO (XO (XO (XO (XO (XO
    (XO (XI (XO (XO (XO (XO XH)))))))))))))))))))))))))))))))) :: ((Npos (XI
    (XO (XO (XO (XI (XO (XO (XO (XO (XO (XO (XO (XO (XO (XO (XO (XO (XO (XO
    (XO (XO (XO (XO (XO (XO (XO (XI (XO (XO (XO (XO
    XH)))))))))))))))))))))))))))))))) :: ((Npos (XO (XI (XO (XO (XI (XO (XO
    (XO (XO (XO (XO (XO (XO (XO (XO (XO (XO (XO (XO (XO (XO (XO (XO (XO (XO
    (XI (XI (XO (XI XH)))))))))))))))))))))))))))))) :: ((Npos (XO (XO (XO
    (XO (XO (XI (XO (XO (XI (XO (XO (XO (XO (XO (XO (XO (XO (XO (XO (XO (XO
    (XO (XO (XO (XO (XO (XI (XO (XI (XO (XO
    XH)))))))))))))))))))))))))))))))) :: ((Npos (XI (XO (XO (XO (XI (XI (XI
    (XO (XO (XO (XO (XO (XO (XO (XO (XO (XO (XO (XO (XO (XO (XO (XO (XO (XO
    (XO (XI (XO (XO (XO (XO XH)))))))))))))))))))))))))))))))) :: ((Npos (XI
    (XO (XO (XO (XI (XI (XO (XO (XO (XO (XO (XO (XO (XO (XO (XO (XO (XO (XO
    (XO (XO (XO (XO (XO (XO (XO (XI (XO (XO (XO (XO
    XH)))))))))))))))))))))))))))))))) :: ((Npos (XI (XI (XO (XO (XO (XO (XI
    (XI (XO (XO (XO (XO (XO (XO (XO (XO (XO (XO (XO (XO (XO (XO (XO (XO (XO
    (XO (XI (XO (XI (XO (XO XH)))))))))))))))))))))))))))))))) :: ((Npos (XO
    (XO (XO (XI (XO (XO (XO (XO (XI (XO (XO (XO (XO (XO (XO (XO (XO (XO (XO
    (XO (XO (XO (XO (XO (XO (XO (XI (XO (XI (XI
    XH))))))))))))))))))))))))))))))) :: ((Npos (XI (XO (XO (XO (XO (XI (XI
    (XO (XO (XO (XO (XO (XO (XO (XO (XO (XO (XO (XO (XO (XO (XO (XO (XO (XO
    (XO (XI (XO (XO (XO (XO XH)))))))))))))))))))))))))))))))) :: ((Npos (XI
    (XO (XO (XO (XO (XI (XO (XO (XO (XO (XO (XO (XO (XO (XO (XO (XO (XO (XO
    (XO (XO (XO (XO (XO (XO (XO (XI (XO (XO (XO (XO
    XH)))))))))))))))))))))))))))))))) :: ((Npos (XI (XI (XO (XO (XO (XI (XO
    (XI (XO (XO (XO (XO (XO (XO (XO (XO (XO (XO (XO (XO (XO (XO (XO (XO (XO
    (XO (XI (XO (XI (XO (XO XH)))))))))))))))))))))))))))))))) :: ((Npos (XI
    (XO (XO (XO (XO (XO (XO (XO (XO (XO (XO (XO (XO (XO (XO (XO (XO (XO (XO
    (XO (XO (XO (XO (XO (XO (XO (XI (XO (XO (XO (XO
    XH)))))))))))))))))))))))))))))))) :: ((Npos (XI (XO (XO (XO (XO (XO (XO
    (XI (XO (XO (XO (XO (XO (XO (XO (XO (XO (XO (XO (XO (XO (XO (XO (XO (XO
    (XO (XI (XO (XO (XO (XO XH)))))))))))))))))))))))))))))))) :: ((Npos (XI
    (XO (XO (XO (XO (XO (XI (XO (XO (XO (XO (XO (XO (XO (XO (XO (XO (XO (XO
    (XO (XO (XO (XO (XO (XO (XO (XI (XO (XO (XO (XO
    XH)))))))))))))))))))))))))))))))) :: ((Npos (XI (XI (XO (XO (XO (XI (XI
    (XI (XO (XO (XO (XO (XO (XO (XO (XO (XO (XO (XO (XO (XO (XO (XO (XO (XO
    (XO (XI (XO (XI (XO (XO XH)))))))))))))))))))))))))))))))) :: ((Npos (XO
    (XO (XI (XO (XO (XO (XO (XO (XI (XO (XO (XO (XO (XO (XO (XO (XO (XO (XO
    (XO (XO (XO (XO (XO (XO (XO (XI (XO (XI (XI
    XH))))))))))))))))))))))))))))))) :: ((Npos (XI (XO (XO (XI (XI (XO (XI
    (XO (XO (XO (XO (XO (XO (XO (XO (XO (XO (XO (XO (XO (XO (XO (XO (XO (XO
    (XO (XI (XO (XO (XO (XO XH)))))))))))))))))))))))))))))))) :: ((Npos (XI
    (XO (XO (XI (XI (XO (XO (XO (XO (XO (XO (XO (XO (XO (XO (XO (XO (XO (XO
    (XO (XO (XO (XO (XO (XO (XO (XI (XO (XO (XO (XO
    XH)))))))))))))))))))))))))))))))) :: ((Npos (XI (XI (XO (XO (XI (XO (XO
    (XI (XO (XO (XO (XO (XO (XO (XO (XO (XO (XO (XO (XO (XO (XO (XO (XO (XO
    (XO (XI (XO (XI (XO (XO XH)))))))))))))))))))))))))))))))) :: ((Npos (XO
    (XO (XI (XI (XI (XI (XO (XO (XI (XO (XO (XO (XO (XO (XO (XO (XO (XO (XO
    (XO (XO (XO (XO (XO (XO (XO (XI (XO (XO (XI (XO
    XH)))))))))))))))))))))))))))))))) :: ((Npos (XI (XO (XO (XI (XI (XI (XI
    (XO (XO (XO (XO (XO (XO (XO (XO (XO (XO (XO (XO (XO (XO (XO (XO (XO (XO
    (XO (XI (XO (XO (XO (XO XH)))))))))))))))))))))))))))))))) :: ((Npos (XI
    (XO (XO (XI (XI (XI (XO (XO (XO (XO (XO (XO (XO (XO (XO (XO (XO (XO (XO
    (XO (XO (XO (XO (XO (XO (XO (XI (XO (XO (XO (XO
    XH)))))))))))))))))))))))))))))))) :: ((Npos (XI (XI (XO (XO (XI (XO (XI
    (XI (XO (XO (XO (XO (XO (XO (XO (XO (XO (XO (XO (XO (XO (XO (XO (XO (XO
    (XO (XI (XO (XI (XO (XO XH)))))))))))))))))))))))))))))))) :: ((Npos (XO
    (XO (XO (XO (XI (XO (XO (XO (XI (XO (XO (XO (XO (XO (XO (XO (XO (XO (XO
    (XO (XO (XO (XO (XO (XO (XO (XI (XO (XO (XO (XO
    XH)))))))))))))))))))))))))))))))) :: ((Npos (XI (XO (XO (XI (XO (XI (XI
    (XO (XO (XO (XO (XO (XO (XO (XO (XO (XO (XO (XO (XO (XO (XO (XO (XO (XO
    (XO (XI (XO (XO (XO (XO XH)))))))))))))))))))))))))))))))) :: ((Npos (XI
    (XO (XO (XI (XO (XI (XO (XO (XO (XO (XO (XO (XO (XO (XO (XO (XO (XO (XO
    (XO (XO (XO (XO (XO (XO (XO (XI (XO (XO (XO (XO
    XH)))))))))))))))))))))))))))))))) :: ((Npos (XI (XI (XO (XO (XI (XI (XO
    (XI (XO (XO (XO (XO (XO (XO (XO (XO (XO (XO (XO (XO (XO (XO (XO (XO (XO
    (XO (XI (XO (XI (XO (XO XH)))))))))))))))))))))))))))))))) :: ((Npos (XI
    (XO (XO (XI (XO (XO (XO (XO (XO (XO (XO (XO (XO (XO (XO (XO (XO (XO (XO
    (XO (XO (XO (XO (XO (XO (XO (XI (XO (XO (XO (XO
    XH)))))))))))))))))))))))))))))))) :: ((Npos (XI (XO (XO (XI (XO (XO (XO
    (XI (XO (XO (XO (XO (XO (XO (XO (XO (XO (XO (XO (XO (XO (XO (XO (XO (XO
    (XO (XI (XO (XO (XO (XO XH)))))))))))))))))))))))))))))))) :: ((Npos (XI
    (XO (XO (XI (XO (XO (XI (XO (XO (XO (XO (XO (XO (XO (XO (XO (XO (XO (XO
    (XO (XO (XO (XO (XO (XO (XO (XI (XO (XO (XO (XO
    XH)))))))))))))))))))))))))))))))) :: ((Npos (XI (XI (XO (XO (XI (XI (XI
    (XI (XO (XO (XO (XO (XO (XO (XO (XO (XO (XO (XO (XO (XO (XO (XO (XO (XO
    (XO (XI (XO (XI (XO (XO XH)))))))))))))))))))))))))))))))) :: ((Npos (XO
    (XI (XO (XO (XO (XO (XO (XO (XI (XO (XO (XO (XO (XO (XO (XO (XO (XO (XO
    (XO (XO (XO (XO (XO (XO (XO (XI (XO (XI (XI
    XH))))))))))))))))))))))))))))))) :: ((Npos (XI (XO (XI (XO (XI (XO (XI
    (XO (XO (XO (XO (XO (XO (XO (XO (XO (XO (XO (XO (XO (XO (XO (XO (XO (XO
    (XO (XI (XO (XO (XO (XO XH)))))))))))))))))))))))))))))))) :: ((Npos (XI
    (XO (XI (XO (XI (XO (XO (XO (XO (XO (XO (XO (XO (XO (XO (XO (XO (XO (XO
    (XO (XO (XO (XO (XO (XO (XO (XI (XO (XO (XO (XO
    XH)))))))))))))))))))))))))))))))) :: ((Npos (XO (XO (XO (XO (XO (XO (XO
    (XO (XO (XI (XO (XO (XO (XO (XO (XO (XO (XO (XO (XO (XO (XO (XO (XO (XO
    (XO (XI (XO (XO (XO (XO XH)))))))))))))))))))))))))))))))) :: ((Npos (XO
    (XO (XI (XI (XO (XI (XO (XO (XI (XO (XO (XO (XO (XO (XO (XO (XO (XO (XO
    (XO (XO (XO (XO (XO (XO (XO (XI (XO (XO (XI (XO
    XH)))))))))))))))))))))))))))))))) :: ((Npos (XI (XO (XI (XO (XI (XI (XI
    (XO (XO (XO (XO (XO (XO (XO (XO (XO (XO (XO (XO (XO (XO (XO (XO (XO (XO
    (XO (XI (XO (XO (XO (XO XH)))))))))))))))))))))))))))))))) :: ((Npos (XI
    (XO (XI (XO (XI (XI (XO (XO (XO (XO (XO (XO (XO (XO (XO (XO (XO (XO (XO
    (XO (XO (XO (XO (XO (XO (XO (XI (XO (XO (XO (XO
    XH)))))))))))))))))))))))))))))))) :: ((Npos (XI (XI (XO (XI (XO (XO (XI
    (XI (XO (XO (XO (XO (XO (XO (XO (XO (XO (XO (XO (XO (XO (XO (XO (XO (XO
    (XO (XI (XO (XI (XO (XO XH)))))))))))))))))))))))))))))))) :: ((Npos (XO
    (XO (XI (XI (XO (XO (XO (XO (XI (XO (XO (XO (XO (XO (XO (XO (XO (XO (XO
    (XO (XO (XO (XO (XO (XO (XO (XI (XO (XO (XO (XO
    XH)))))))))))))))))))))))))))))))) :: ((Npos (XI (XO (XI (XO (XO (XI (XI
    (XO (XO (XO (XO (XO (XO (XO (XO (XO (XO (XO (XO (XO (XO (XO (XO (XO (XO
    (XO (XI (XO (XO (XO (XO XH)))))))))))))))))))))))))))))))) :: ((Npos (XI
    (XO (XI (XO (XO (XI (XO (XO (XO (XO (XO (XO (XO (XO (XO (XO (XO (XO (XO
    (XO (XO (XO (XO (XO (XO (XO (XI (XO (XO (XO (XO
    XH)))))))))))))))))))))))))))))))) :: ((Npos (XI (XI (XO (XI (XO (XI (XO
    (XI (XO (XO (XO (XO (XO (XO (XO (XO (XO (XO (XO (XO (XO (XO (XO (XO (XO
    (XO (XI (XO (XI (XO (XO XH)))))))))))))))))))))))))))))))) :: ((Npos (XI
    (XO (XI (XO (XO (XO (XO (XO (XO (XO (XO (XO (XO (XO (XO (XO (XO (XO (XO
    (XO (XO (XO (XO (XO (XO (XO (XI (XO (XO (XO (XO
    XH)))))))))))))))))))))))))))))))) :: ((Npos (XI (XO (XI (XO (XO (XO (XO
    (XI (XO (XO (XO (XO (XO (XO (XO (XO (XO (XO (XO (XO (XO (XO (XO (XO (XO
    (XO (XI (XO (XO (XO (XO XH)))))))))))))))))))))))))))))))) :: ((Npos (XI
    (XO (XI (XO (XO (XO (XI (XO (XO (XO (XO (XO (XO (XO (XO (XO (XO (XO (XO
    (XO (XO (XO (XO (XO (XO (XO (XI (XO (XO (XO (XO
    XH)))))))))))))))))))))))))))))))) :: ((Npos (XI (XI (XO (XI (XO (XI (XI
    (XI (XO (XO (XO (XO (XO (XO (XO (XO (XO (XO (XO (XO (XO (XO (XO (XO (XO
    (XO (XI (XO (XI (XO (XO XH)))))))))))))))))))))))))))))))) :: ((Npos (XO
    (XI (XI (XO (XO (XO (XO (XO (XI (XO (XO (XO (XO (XO (XO (XO (XO (XO (XO
    (XO (XO (XO (XO (XO (XO (XO (XI (XO (XI (XI
    XH))))))))))))))))))))))))))))))) :: ((Npos (XI (XO (XI (XI (XI (XO (XI
    (XO (XO (XO (XO (XO (XO (XO (XO (XO (XO (XO (XO (XO (XO (XO (XO (XO (XO
    (XO (XI (XO (XO (XO (XO XH)))))))))))))))))))))))))))))))) :: ((Npos (XI
    (XO (XI (XI (XI (XO (XO (XO (XO (XO (XO (XO (XO (XO (XO (XO (XO (XO (XO
    (XO (XO (XO (XO (XO (XO (XO (XI (XO (XO (XO (XO
    XH)))))))))))))))))))))))))))))))) :: ((Npos (XI (XI (XO (XI (XI (XO (XO
    (XI (XO (XO (XO (XO (XO (XO (XO (XO (XO (XO (XO (XO (XO (XO (XO (XO (XO
    (XO (XI (XO (XI (XO (XO XH)))))))))))))))))))))))))))))))) :: ((Npos (XO
    (XO (XI (XO (XI (XO (XI (XO (XI (XO (XO (XO (XO (XO (XO (XO (XO (XO (XO
    (XO (XO (XO (XO (XO (XO (XO (XI (XO (XI (XI (XO
    XH)))))))))))))))))))))))))))))))) :: ((Npos (XI (XO (XI (XI (XI (XI (XI
    (XO (XO (XO (XO (XO (XO (XO (XO (XO (XO (XO (XO (XO (XO (XO (XO (XO (XO
    (XO (XI (XO (XO (XO (XO XH)))))))))))))))))))))))))))))))) :: ((Npos (XI
    (XO (XI (XI (XI (XI (XO (XO (XO (XO (XO (XO (XO (XO (XO (XO (XO (XO (XO
    (XO (XO (XO (XO (XO (XO (XO (XI (XO (XO (XO (XO
    XH)))))))))))))))))))))))))))))))) :: ((Npos (XI (XI (XO (XI (XI (XO (XI
    (XI (XO (XO (XO (XO (XO (XO (XO (XO (XO (XO (XO (XO (XO (XO (XO (XO (XO
    (XO (XI (XO (XI (XO (XO XH)))))))))))))))))))))))))))))))) :: ((Npos (XO
    (XO (XO (XI (XI (XO (XO (XO (XI (XO (XO (XO (XO (XO (XO (XO (XO (XO (XO
    (XO (XO (XO (XO (XO (XO (XO (XI (XO (XI (XO (XO
    XH)))))))))))))))))))))))))))))))) :: ((Npos (XI (XO (XI (XI (XO (XI (XI
    (XO (XO (XO (XO (XO (XO (XO (XO (XO (XO (XO (XO (XO (XO (XO (XO (XO (XO
    (XO (XI (XO (XO (XO (XO XH)))))))))))))))))))))))))))))))) :: ((Npos (XI
    (XO (XI (XI (XO (XI (XO (XO (XO (XO (XO (XO (XO (XO (XO (XO (XO (XO (XO
    (XO (XO (XO (XO (XO (XO (XO (XI (XO (XO (XO (XO
    XH)))))))))))))))))))))))))))))))) :: ((Npos (XI (XI (XO (XI (XI (XI (XO
    (XI (XO (XO (XO (XO (XO (XO (XO (XO (XO (XO (XO (XO (XO (XO (XO (XO (XO
    (XO (XI (XO (XI (XO (XO XH)))))))))))))))))))))))))))))))) :: ((Npos (XI
    (XO (XI (XI (XO (XO (XO (XO (XO (XO (XO (XO (XO (XO (XO (XO (XO (XO (XO
    (XO (XO (XO (XO (XO (XO (XO (XI (XO (XO (XO (XO
    XH)))))))))))))))))))))))))))))))) :: ((Npos (XI (XO (XI (XI (XO (XO (XO
    (XI (XO (XO (XO (XO (XO (XO (XO (XO (XO (XO (XO (XO (XO (XO (XO (XO (XO
    (XO (XI (XO (XO (XO (XO XH)))))))))))))))))))))))))))))))) :: ((Npos (XI
    (XO (XI (XI (XO (XO (XI (XO (XO (XO (XO (XO (XO (XO (XO (XO (XO (XO (XO
    (XO (XO (XO (XO (XO (XO (XO (XI (XO (XO (XO (XO
    XH)))))))))))))))))))))))))))))))) :: ((Npos (XI (XI (XO (XI (XI (XI (XI
    (XI (XO (XO (XO (XO (XO (XO (XO (XO (XO (XO (XO (XO (XO (XO (XO (XO (XO
    (XO (XI (XO (XI (XO (XO XH)))))))))))))))))))))))))))))))) :: ((Npos (XI
    (XO (XO (XO (XO (XO (XO (XO (XI (XO (XO (XO (XO (XO (XO (XO (XO (XO (XO
    (XO (XO (XO (XO (XO (XO (XO (XI (XO (XI (XI
    XH))))))))))))))))))))))))))))))) :: ((Npos (XI (XI (XO (XO (XI (XO (XI
    (XO (XO (XO (XO (XO (XO (XO (XO (XO (XO (XO (XO (XO (XO (XO (XO (XO (XO
    (XO (XI (XO (XO (XO (XO XH)))))))))))))))))))))))))))))))) :: ((Npos (XI
    (XI (XO (XO (XI (XO (XO (XO (XO (XO (XO (XO (XO (XO (XO (XO (XO (XO (XO
    (XO (XO (XO (XO (XO (XO (XO (XI (XO (XO (XO (XO
    XH)))))))))))))))))))))))))))))))) :: ((Npos (XO (XI (XO (XO (XI (XO (XI
    (XO (XO (XO (XO (XO (XO (XO (XO (XO (XO (XO (XO (XO (XO (XO (XO (XO (XO
    (XI (XI (XO (XI XH)))))))))))))))))))))))))))))) :: ((Npos (XO (XO (XI
    (XO (XO (XI (XO (XO (XI (XO (XO (XO (XO (XO (XO (XO (XO (XO (XO (XO (XO
    (XO (XO (XO (XO (XO (XI (XO (XO (XI (XO
    XH)))))))))))))))))))))))))))))))) :: ((Npos (XI (XI (XO (XO (XI (XI (XI
    (XO (XO (XO (XO (XO (XO (XO (XO (XO (XO (XO (XO (XO (XO (XO (XO (XO (XO
    (XO (XI (XO (XO (XO (XO XH)))))))))))))))))))))))))))))))) :: ((Npos (XI
    (XI (XO (XO (XI (XI (XO (XO (XO (XO (XO (XO (XO (XO (XO (XO (XO (XO (XO
    (XO (XO (XO (XO (XO (XO (XO (XI (XO (XO (XO (XO
    XH)))))))))))))))))))))))))))))))) :: ((Npos (XI (XI (XI (XO (XO (XO (XI
    (XI (XO (XO (XO (XO (XO (XO (XO (XO (XO (XO (XO (XO (XO (XO (XO (XO (XO
    (XO (XI (XO (XI (XO (XO XH)))))))))))))))))))))))))))))))) :: ((Npos (XO
    (XI (XO (XI (XO (XO (XO (XO (XI (XO (XO (XO (XO (XO (XO (XO (XO (XO (XO
    (XO (XO (XO (XO (XO (XO (XO (XI (XO (XO (XO (XO
    XH)))))))))))))))))))))))))))))))) :: ((Npos (XI (XI (XO (XO (XO (XI (XI
    (XO (XO (XO (XO (XO (XO (XO (XO (XO (XO (XO (XO (XO (XO (XO (XO (XO (XO
    (XO (XI (XO (XO (XO (XO XH)))))))))))))))))))))))))))))))) :: ((Npos (XI
    (XI (XO (XO (XO (XI (XO (XO (XO (XO (XO (XO (XO (XO (XO (XO (XO (XO (XO
    (XO (XO (XO (XO (XO (XO (XO (XI (XO (XO (XO (XO
    XH)))))))))))))))))))))))))))))))) :: ((Npos (XI (XI (XI (XO (XO (XI (XO
    (XI (XO (XO (XO (XO (XO (XO (XO (XO (XO (XO (XO (XO (XO (XO (XO (XO (XO
    (XO (XI (XO (XI (XO (XO XH)))))))))))))))))))))))))))))))) :: ((Npos (XI
    (XI (XO (XO (XO (XO (XO (XO (XO (XO (XO (XO (XO (XO (XO (XO (XO (XO (XO
    (XO (XO (XO (XO (XO (XO (XO (XI (XO (XO (XO (XO
    XH)))))))))))))))))))))))))))))))) :: ((Npos (XI (XI (XO (XO (XO (XO (XO
    (XI (XO (XO (XO (XO (XO (XO (XO (XO (XO (XO (XO (XO (XO (XO (XO (XO (XO
    (XO (XI (XO (XO (XO (XO XH)))))))))))))))))))))))))))))))) :: ((Npos (XI
    (XI (XO (XO (XO (XO (XI (XO (XO (XO (XO (XO (XO (XO (XO (XO (XO (XO (XO
    (XO (XO (XO (XO (XO (XO (XO (XI (XO (XO (XO (XO
    XH)))))))))))))))))))))))))))))))) :: ((Npos (XI (XI (XI (XO (XO (XI (XI
    (XI (XO (XO (XO (XO (XO (XO (XO (XO (XO (XO (XO (XO (XO (XO (XO (XO (XO
    (XO (XI (XO (XI (XO (XO XH)))))))))))))))))))))))))))))))) :: ((Npos (XI
    (XO (XI (XO (XO (XO (XO (XO (XI (XO (XO (XO (XO (XO (XO (XO (XO (XO (XO
    (XO (XO (XO (XO (XO (XO (XO (XI (XO (XI (XI
    XH))))))))))))))))))))))))))))))) :: ((Npos (XI (XI (XO (XI (XI (XO (XI
    (XO (XO (XO (XO (XO (XO (XO (XO (XO (XO (XO (XO (XO (XO (XO (XO (XO (XO
    (XO (XI (XO (XO (XO (XO XH)))))))))))))))))))))))))))))))) :: ((Npos (XI
    (XI (XO (XI (XI (XO (XO (XO (XO (XO (XO (XO (XO (XO (XO (XO (XO (XO (XO
    (XO (XO (XO (XO (XO (XO (XO (XI (XO (XO (XO (XO
    XH)))))))))))))))))))))))))))))))) :: ((Npos (XI (XI (XI (XO (XI (XO (XO
    (XI (XO (XO (XO (XO (XO (XO (XO (XO (XO (XO (XO (XO (XO (XO (XO (XO (XO
    (XO (XI (XO (XI (XO (XO XH)))))))))))))))))))))))))))))))) :: ((Npos (XO
    (XO (XI (XO (XO (XO (XI (XO (XI (XO (XO (XO (XO (XO (XO (XO (XO (XO (XO
    (XO (XO (XO (XO (XO (XO (XO (XI (XO (XI (XI (XO
    XH)))))))))))))))))))))))))))))))) :: ((Npos (XI (XI (XO (XI (XI (XI (XI
    (XO (XO (XO (XO (XO (XO (XO (XO (XO (XO (XO (XO (XO (XO (XO (XO (XO (XO
    (XO (XI (XO (XO (XO (XO XH)))))))))))))))))))))))))))))))) :: ((Npos (XI
    (XI (XO (XI (XI (XI (XO (XO (XO (XO (XO (XO (XO (XO (XO (XO (XO (XO (XO
    (XO (XO (XO (XO (XO (XO (XO (XI (XO (XO (XO (XO
    XH)))))))))))))))))))))))))))))))) :: ((Npos (XI (XI (XI (XO (XI (XO (XI
    (XI (XO (XO (XO (XO (XO (XO (XO (XO (XO (XO (XO (XO (XO (XO (XO (XO (XO
    (XO (XI (XO (XI (XO (XO XH)))))))))))))))))))))))))))))))) :: ((Npos (XO
    (XO (XI (XO (XI (XO (XO (XO (XI (XO (XO (XO (XO (XO (XO (XO (XO (XO (XO
    (XO (XO (XO (XO (XO (XO (XO (XI (XO (XI (XO (XO
    XH)))))))))))))))))))))))))))))))) :: ((Npos (XI (XI (XO (XI (XO (XI (XI
    (XO (XO (XO (XO (XO (XO (XO (XO (XO (XO (XO (XO (XO (XO (XO (XO (XO (XO
    (XO (XI (XO (XO (XO (XO XH)))))))))))))))))))))))))))))))) :: ((Npos (XI
    (XI (XO (XI (XO (XI (XO (XO (XO (XO (XO (XO (XO (XO (XO (XO (XO (XO (XO
    (XO (XO (XO (XO (XO (XO (XO (XI (XO (XO (XO (XO
    XH)))))))))))))))))))))))))))))))) :: ((Npos (XI (XI (XI (XO (XI (XI (XO
    (XI (XO (XO (XO (XO (XO (XO (XO (XO (XO (XO (XO (XO (XO (XO (XO (XO (XO
    (XO (XI (XO (XI (XO (XO XH)))))))))))))))))))))))))))))))) :: ((Npos (XI
    (XI (XO (XI (XO (XO (XO (XO (XO (XO (XO (XO (XO (XO (XO (XO (XO (XO (XO
    (XO (XO (XO (XO (XO (XO (XO (XI (XO (XO (XO (XO
    XH)))))))))))))))))))))))))))))))) :: ((Npos (XI (XI (XO (XI (XO (XO (XO
    (XI (XO (XO (XO (XO (XO (XO (XO (XO (XO (XO (XO (XO (XO (XO (XO (XO (XO
    (XO (XI (XO (XO (XO (XO XH)))))))))))))))))))))))))))))))) :: ((Npos (XI
    (XI (XO (XI (XO (XO (XI (XO (XO (XO (XO (XO (XO (XO (XO (XO (XO (XO (XO
    (XO (XO (XO (XO (XO (XO (XO (XI (XO (XO (XO (XO
    XH)))))))))))))))))))))))))))))))) :: ((Npos (XI (XI (XI (XO (XI (XI (XI
    (XI (XO (XO (XO (XO (XO (XO (XO (XO (XO (XO (XO (XO (XO (XO (XO (XO (XO
    (XO (XI (XO (XI (XO (XO XH)))))))))))))))))))))))))))))))) :: ((Npos (XI
    (XI (XO (XO (XO (XO (XO (XO (XI (XO (XO (XO (XO (XO (XO (XO (XO (XO (XO
    (XO (XO (XO (XO (XO (XO (XO (XI (XO (XI (XI
    XH))))))))))))))))))))))))))))))) :: ((Npos (XI (XI (XI (XO (XI (XO (XI
    (XO (XO (XO (XO (XO (XO (XO (XO (XO (XO (XO (XO (XO (XO (XO (XO (XO (XO
    (XO (XI (XO (XO (XO (XO XH)))))))))))))))))))))))))))))))) :: ((Npos (XI
    (XI (XI (XO (XI (XO (XO (XO (XO (XO (XO (XO (XO (XO (XO (XO (XO (XO (XO
    (XO (XO (XO (XO (XO (XO (XO (XI (XO (XO (XO (XO
    XH)))))))))))))))))))))))))))))))) :: (N0 :: ((Npos (XO (XO (XI (XO (XI
    (XI (XO (XO (XI (XO (XO (XO (XO (XO (XO (XO (XO (XO (XO (XO (XO (XO (XO
    (XO (XO (XO (XI (XO (XO (XI (XO
    XH)))))))))))))))))))))))))))))))) :: ((Npos (XI (XI (XI (XO (XI (XI (XI
    (XO (XO (XO (XO (XO (XO (XO (XO (XO (XO (XO (XO (XO (XO (XO (XO (XO (XO
    (XO (XI (XO (XO (XO (XO XH)))))))))))))))))))))))))))))))) :: ((Npos (XI
    (XI (XI (XO (XI (XI (XO (XO (XO (XO (XO (XO (XO (XO (XO (XO (XO (XO (XO
    (XO (XO (XO (XO (XO (XO (XO (XI (XO (XO (XO (XO
    XH)))))))))))))))))))))))))))))))) :: ((Npos (XI (XI (XI (XI (XO (XO (XI
    (XI (XO (XO (XO (XO (XO (XO (XO (XO (XO (XO (XO (XO (XO (XO (XO (XO (XO
    (XO (XI (XO (XI (XO (XO XH)))))))))))))))))))))))))))))))) :: ((Npos (XO
    (XI (XI (XI (XO (XO (XO (XO (XI (XO (XO (XO (XO (XO (XO (XO (XO (XO (XO
    (XO (XO (XO (XO (XO (XO (XO (XI (XO (XO (XO (XO
    XH)))))))))))))))))))))))))))))))) :: ((Npos (XI (XI (XI (XO (XO (XI (XI
    (XO (XO (XO (XO (XO (XO (XO (XO (XO (XO (XO (XO (XO (XO (XO (XO (XO (XO
    (XO (XI (XO (XO (XO (XO XH)))))))))))))))))))))))))))))))) :: ((Npos (XI
    (XI (XI (XO (XO (XI (XO (XO (XO (XO (XO (XO (XO (XO (XO (XO (XO (XO (XO
    (XO (XO (XO (XO (XO (XO (XO (XI (XO (XO (XO (XO
    XH)))))))))))))))))))))))))))))))) :: ((Npos (XI (XI (XI (XI (XO (XI (XO
    (XI (XO (XO (XO (XO (XO (XO (XO (XO (XO (XO (XO (XO (XO (XO (XO (XO (XO
    (XO (XI (XO (XI (XO (XO XH)))))))))))))))))))))))))))))))) :: ((Npos (XI
    (XI (XI (XO (XO (XO (XO (XO (XO (XO (XO (XO (XO (XO (XO (XO (XO (XO (XO
    (XO (XO (XO (XO (XO (XO (XO (XI (XO (XO (XO (XO
    XH)))))))))))))))))))))))))))))))) :: ((Npos (XI (XI (XI (XO (XO (XO (XO
    (XI (XO (XO (XO (XO (XO (XO (XO (XO (XO (XO (XO (XO (XO (XO (XO (XO (XO
    (XO (XI (XO (XO (XO (XO XH)))))))))))))))))))))))))))))))) :: ((Npos (XI
    (XI (XI (XO (XO (XO (XI (XO (XO (XO (XO (XO (XO (XO (XO (XO (XO (XO (XO
    (XO (XO (XO (XO (XO (XO (XO (XI (XO (XO (XO (XO
    XH)))))))))))))))))))))))))))))))) :: ((Npos (XI (XI (XI (XI (XO (XI (XI
    (XI (XO (XO (XO (XO (XO (XO (XO (XO (XO (XO (XO (XO (XO (XO (XO (XO (XO
    (XO (XI (XO (XI (XO (XO XH)))))))))))))))))))))))))))))))) :: ((Npos (XI
    (XI (XI (XO (XO (XO (XO (XO (XI (XO (XO (XO (XO (XO (XO (XO (XO (XO (XO
    (XO (XO (XO (XO (XO (XO (XO (XI (XO (XI (XI
    XH))))))))))))))))))))))))))))))) :: ((Npos (XI (XI (XI (XI (XI (XO (XI
    (XO (XO (XO (XO (XO (XO (XO (XO (XO (XO (XO (XO (XO (XO (XO (XO (XO (XO
    (XO (XI (XO (XO (XO (XO XH)))))))))))))))))))))))))))))))) :: ((Npos (XI
    (XI (XI (XI (XI (XO (XO (XO (XO (XO (XO (XO (XO (XO (XO (XO (XO (XO (XO
    (XO (XO (XO (XO (XO (XO (XO (XI (XO (XO (XO (XO
    XH)))))))))))))))))))))))))))))))) :: ((Npos (XI (XI (XI (XI (XI (XO (XO
    (XI (XO (XO (XO (XO (XO (XO (XO (XO (XO (XO (XO (XO (XO (XO (XO (XO (XO
    (XO (XI (XO (XI (XO (XO XH)))))))))))))))))))))))))))))))) :: ((Npos (XO
    (XO (XI (XO (XO (XI (XI (XO (XI (XO (XO (XO (XO (XO (XO (XO (XO (XO (XO
    (XO (XO (XO (XO (XO (XO (XO (XI (XO (XI (XI (XO
    XH)))))))))))))))))))))))))))))))) :: ((Npos (XI (XI (XI (XI (XI (XI (XI
    (XO (XO (XO (XO (XO (XO (XO (XO (XO (XO (XO (XO (XO (XO (XO (XO (XO (XO
    (XO (XI (XO (XO (XO (XO XH)))))))))))))))))))))))))))))))) :: ((Npos (XI
    (XI (XI (XI (XI (XI (XO (XO (XO (XO (XO (XO (XO (XO (XO (XO (XO (XO (XO
    (XO (XO (XO (XO (XO (XO (XO (XI (XO (XO (XO (XO
    XH)))))))))))))))))))))))))))))))) :: ((Npos (XI (XI (XI (XI (XI (XO (XI
    (XI (XO (XO (XO (XO (XO (XO (XO (XO (XO (XO (XO (XO (XO (XO (XO (XO (XO
    (XO (XI (XO (XI (XO (XO XH)))))))))))))))))))))))))))))))) :: ((Npos (XO
    (XO (XI (XI (XI (XO (XO (XO (XI (XO (XO (XO (XO (XO (XO (XO (XO (XO (XO
    (XO (XO (XO (XO (XO (XO (XO (XI (XO (XI (XO (XO
    XH)))))))))))))))))))))))))))))))) :: ((Npos (XI (XI (XI (XI (XO (XI (XI
    (XO (XO (XO (XO (XO (XO (XO (XO (XO (XO (XO (XO (XO (XO (XO (XO (XO (XO
    (XO (XI (XO (XO (XO (XO XH)))))))))))))))))))))))))))))))) :: ((Npos (XI
    (XI (XI (XI (XO (XI (XO (XO (XO (XO (XO (XO (XO (XO (XO (XO (XO (XO (XO
    (XO (XO (XO (XO (XO (XO (XO (XI (XO (XO (XO (XO
    XH)))))))))))))))))))))))))))))))) :: ((Npos (XI (XI (XI (XI (XI (XI (XO
    (XI (XO (XO (XO (XO (XO (XO (XO (XO (XO (XO (XO (XO (XO (XO (XO (XO (XO
    (XO (XI (XO (XI (XO (XO XH)))))))))))))))))))))))))))))))) :: ((Npos (XI
    (XI (XI (XI (XO (XO (XO (XO (XO (XO (XO (XO (XO (XO (XO (XO (XO (XO (XO
    (XO (XO (XO (XO (XO (XO (XO (XI (XO (XO (XO (XO
    XH)))))))))))))))))))))))))))))))) :: ((Npos (XI (XI (XI (XI (XO (XO (XO
    (XI (XO (XO (XO (XO (XO (XO (XO (XO (XO (XO (XO (XO (XO (XO (XO (XO (XO
    (XO (XI (XO (XO (XO (XO XH)))))))))))))))))))))))))))))))) :: ((Npos (XI
    (XI (XI (XI (XO (XO (XI (XO (XO (XO (XO (XO (XO (XO (XO (XO (XO (XO (XO
    (XO (XO (XO (XO (XO (XO (XO (XI (XO (XO (XO (XO
    XH)))))))))))))))))))))))))))))))) :: ((Npos (XI (XI (XI (XI (XI (XI (XI
    (XI (XO (XO (XO (XO (XO (XO (XO (XO (XO (XO (XO (XO (XO (XO (XO (XO (XO
    (XO (XI (XO (XI (XO (XO XH)))))))))))))))))))))))))))))))) :: ((Npos (XO
    (XO (XO (XO (XO (XO (XO (XO (XI (XO (XO (XO (XO (XO (XO (XO (XO (XO (XO
    (XO (XO (XO (XO (XO (XO (XO (XI (XO (XI (XI
    XH))))))))))))))))))))))))))))))) :: ((Npos (XO (XO (XO (XO (XI (XO (XI
    (XO (XO (XO (XO (XO (XO (XO (XO (XO (XO (XO (XO (XO (XO (XO (XO (XO (XO
    (XO (XI (XO (XO (XO (XO XH)))))))))))))))))))))))))))))))) :: ((Npos (XO
    (XO (XO (XO (XI (XO (XO (XO (XO (XO (XO (XO (XO (XO (XO (XO (XO (XO (XO
    (XO (XO (XO (XO (XO (XO (XO (XI (XO (XO (XO (XO
    XH)))))))))))))))))))))))))))))))) :: ((Npos (XI (XI (XO (XI (XI (XI (XI
    (XO (XI (XO (XO (XO (XO (XO (XO (XO (XO (XO (XO (XO (XO (XO (XO (XO (XO
    (XO (XI (XO (XO (XO (XI XH)))))))))))))))))))))))))))))))) :: ((Npos (XI
    (XO (XI (XI (XI (XO (XO (XO (XI (XO (XO (XO (XO (XO (XO (XO (XO (XO (XO
    (XO (XO (XO (XO (XO (XO (XO (XI (XO (XI (XO (XO
    XH)))))))))))))))))))))))))))))))) :: ((Npos (XO (XO (XO (XO (XI (XI (XI
    (XO (XO (XO (XO (XO (XO (XO (XO (XO (XO (XO (XO (XO (XO (XO (XO (XO (XO
    (XO (XI (XO (XO (XO (XO XH)))))))))))))))))))))))))))))))) :: ((Npos (XO
    (XO (XO (XO (XI (XI (XO (XO (XO (XO (XO (XO (XO (XO (XO (XO (XO (XO (XO
    (XO (XO (XO (XO (XO (XO (XO (XI (XO (XO (XO (XO
    XH)))))))))))))))))))))))))))))))) :: ((Npos (XO (XO (XO (XO (XO (XO (XI
    (XI (XO (XO (XO (XO (XO (XO (XO (XO (XO (XO (XO (XO (XO (XO (XO (XO (XO
    (XO (XI (XO (XI (XO (XO XH)))))))))))))))))))))))))))))))) :: ((Npos (XO
    (XO (XO (XI (XO (XO (XO (XO (XI (XO (XO (XO (XO (XO (XO (XO (XO (XO (XO
    (XO (XO (XO (XO (XO (XO (XO (XI (XO (XI (XI
    XH))))))))))))))))))))))))))))))) :: ((Npos (XO (XO (XO (XO (XO (XI (XI
    (XO (XO (XO (XO (XO (XO (XO (XO (XO (XO (XO (XO (XO (XO (XO (XO (XO (XO
    (XO (XI (XO (XO (XO (XO XH)))))))))))))))))))))))))))))))) :: ((Npos (XO
    (XO (XO (XO (XO (XI (XO (XO (XO (XO (XO (XO (XO (XO (XO (XO (XO (XO (XO
    (XO (XO (XO (XO (XO (XO (XO (XI (XO (XO (XO (XO
    XH)))))))))))))))))))))))))))))))) :: ((Npos (XO (XO (XO (XO (XO (XI (XO
    (XI (XO (XO (XO (XO (XO (XO (XO (XO (XO (XO (XO (XO (XO (XO (XO (XO (XO
    (XO (XI (XO (XI (XO (XO XH)))))))))))))))))))))))))))))))) :: ((Npos (XO
    (XO (XO (XO (XO (XO (XO (XO (XO (XO (XO (XO (XO (XO (XO (XO (XO (XO (XO
    (XO (XO (XO (XO (XO (XO (XO (XI (XO (XO (XO (XO
    XH)))))))))))))))))))))))))))))))) :: ((Npos (XO (XO (XO (XO (XO (XO (XO
    (XI (XO (XO (XO (XO (XO (XO (XO (XO (XO (XO (XO (XO (XO (XO (XO (XO (XO
    (XO (XI (XO (XO (XO (XO XH)))))))))))))))))))))))))))))))) :: ((Npos (XO
    (XO (XO (XO (XO (XO (XI (XO (XO (XO (XO (XO (XO (XO (XO (XO (XO (XO (XO
    (XO (XO (XO (XO (XO (XO (XO (XI (XO (XO (XO (XO
    XH)))))))))))))))))))))))))))))))) :: ((Npos (XO (XO (XO (XO (XO (XI (XI
    (XI (XO (XO (XO (XO (XO (XO (XO (XO (XO (XO (XO (XO (XO (XO (XO (XO (XO
    (XO (XI (XO (XI (XO (XO XH)))))))))))))))))))))))))))))))) :: ((Npos (XO
    (XO (XI (XO (XO (XO (XO (XO (XI (XO (XO (XO (XO (XO (XO (XO (XO (XO (XO
    (XO (XO (XO (XO (XO (XO (XO (XI (XO (XI (XI
    XH))))))))))))))))))))))))))))))) :: ((Npos (XO (XO (XO (XI (XI (XO (XI
    (XO (XO (XO (XO (XO (XO (XO (XO (XO (XO (XO (XO (XO (XO (XO (XO (XO (XO
    (XO (XI (XO (XO (XO (XO XH)))))))))))))))))))))))))))))))) :: ((Npos (XO
    (XO (XO (XI (XI (XO (XO (XO (XO (XO (XO (XO (XO (XO (XO (XO (XO (XO (XO
    (XO (XO (XO (XO (XO (XO (XO (XI (XO (XO (XO (XO
    XH)))))))))))))))))))))))))))))))) :: ((Npos (XO (XO (XO (XO (XI (XO (XO
    (XI (XO (XO (XO (XO (XO (XO (XO (XO (XO (XO (XO (XO (XO (XO (XO (XO (XO
    (XO (XI (XO (XI (XO (XO XH)))))))))))))))))))))))))))))))) :: ((Npos (XI
    (XO (XI (XI (XI (XI (XO (XO (XI (XO (XO (XO (XO (XO (XO (XO (XO (XO (XO
    (XO (XO (XO (XO (XO (XO (XO (XI (XO (XO (XI (XO
    XH)))))))))))))))))))))))))))))))) :: ((Npos (XO (XO (XO (XI (XI (XI (XI
    (XO (XO (XO (XO (XO (XO (XO (XO (XO (XO (XO (XO (XO (XO (XO (XO (XO (XO
    (XO (XI (XO (XO (XO (XO XH)))))))))))))))))))))))))))))))) :: ((Npos (XO
    (XO (XO (XI (XI (XI (XO (XO (XO (XO (XO (XO (XO (XO (XO (XO (XO (XO (XO
    (XO (XO (XO (XO (XO (XO (XO (XI (XO (XO (XO (XO
    XH)))))))))))))))))))))))))))))))) :: ((Npos (XO (XO (XO (XO (XI (XO (XI
    (XI (XO (XO (XO (XO (XO (XO (XO (XO (XO (XO (XO (XO (XO (XO (XO (XO (XO
    (XO (XI (XO (XI (XO (XO XH)))))))))))))))))))))))))))))))) :: ((Npos (XI
    (XI (XI (XI (XO (XO (XO (XO (XI (XO (XO (XO (XO (XO (XO (XO (XO (XO (XO
    (XO (XO (XO (XO (XO (XO (XO (XI (XO (XO (XO (XO
    XH)))))))))))))))))))))))))))))))) :: ((Npos (XO (XO (XO (XI (XO (XI (XI
    (XO (XO (XO (XO (XO (XO (XO (XO (XO (XO (XO (XO (XO (XO (XO (XO (XO (XO
    (XO (XI (XO (XO (XO (XO XH)))))))))))))))))))))))))))))))) :: ((Npos (XO
    (XO (XO (XI (XO (XI (XO (XO (XO (XO (XO (XO (XO (XO (XO (XO (XO (XO (XO
    (XO (XO (XO (XO (XO (XO (XO (XI (XO (XO (XO (XO
    XH)))))))))))))))))))))))))))))))) :: ((Npos (XO (XO (XO (XO (XI (XI (XO
    (XI (XO (XO (XO (XO (XO (XO (XO (XO (XO (XO (XO (XO (XO (XO (XO (XO (XO
    (XO (XI (XO (XI (XO (XO XH)))))))))))))))))))))))))))))))) :: ((Npos (XO
    (XO (XO (XI (XO (XO (XO (XO (XO (XO (XO (XO (XO (XO (XO (XO (XO (XO (XO
    (XO (XO (XO (XO (XO (XO (XO (XI (XO (XO (XO (XO
    XH)))))))))))))))))))))))))))))))) :: ((Npos (XO (XO (XO (XI (XO (XO (XO
    (XI (XO (XO (XO (XO (XO (XO (XO (XO (XO (XO (XO (XO (XO (XO (XO (XO (XO
    (XO (XI (XO (XO (XO (XO XH)))))))))))))))))))))))))))))))) :: ((Npos (XO
    (XO (XO (XI (XO (XO (XI (XO (XO (XO (XO (XO (XO (XO (XO (XO (XO (XO (XO
    (XO (XO (XO (XO (XO (XO (XO (XI (XO (XO (XO (XO
    XH)))))))))))))))))))))))))))))))) :: ((Npos (XO (XO (XO (XO (XI (XI (XI
    (XI (XO (XO (XO (XO (XO (XO (XO (XO (XO (XO (XO (XO (XO (XO (XO (XO (XO
    (XO (XI (XO (XI (XO (XO XH)))))))))))))))))))))))))))))))) :: ((Npos (XO
    (XI (XO (XO (XO (XO (XO (XO (XI (XO (XO (XO (XO (XO (XO (XO (XO (XO (XO
    (XO (XO (XO (XO (XO (XO (XO (XI (XO (XI (XI
    XH))))))))))))))))))))))))))))))) :: ((Npos (XO (XO (XI (XO (XI (XO (XI
    (XO (XO (XO (XO (XO (XO (XO (XO (XO (XO (XO (XO (XO (XO (XO (XO (XO (XO
    (XO (XI (XO (XO (XO (XO XH)))))))))))))))))))))))))))))))) :: ((Npos (XO
    (XO (XI (XO (XI (XO (XO (XO (XO (XO (XO (XO (XO (XO (XO (XO (XO (XO (XO
    (XO (XO (XO (XO (XO (XO (XO (XI (XO (XO (XO (XO
    XH)))))))))))))))))))))))))))))))) :: ((Npos (XO (XO (XI (XO (XI (XI (XI
    (XO (XO (XO (XO (XO (XO (XO (XO (XO (XO (XO (XO (XO (XO (XO (XO (XO (XO
    (XI (XI (XO (XI XH)))))))))))))))))))))))))))))) :: ((Npos (XI (XO (XI
    (XI (XO (XI (XO (XO (XI (XO (XO (XO (XO (XO (XO (XO (XO (XO (XO (XO (XO
    (XO (XO (XO (XO (XO (XI (XO (XO (XI (XO
    XH)))))))))))))))))))))))))))))))) :: ((Npos (XO (XO (XI (XO (XI (XI (XI
    (XO (XO (XO (XO (XO (XO (XO (XO (XO (XO (XO (XO (XO (XO (XO (XO (XO (XO
    (XO (XI (XO (XO (XO (XO XH)))))))))))))))))))))))))))))))) :: ((Npos (XO
    (XO (XI (XO (XI (XI (XO (XO (XO (XO (XO (XO (XO (XO (XO (XO (XO (XO (XO
    (XO (XO (XO (XO (XO (XO (XO (XI (XO (XO (XO (XO
    XH)))))))))))))))))))))))))))))))) :: ((Npos (XO (XO (XO (XI (XO (XO (XI
    (XI (XO (XO (XO (XO (XO (XO (XO (XO (XO (XO (XO (XO (XO (XO (XO (XO (XO
    (XO (XI (XO (XI (XO (XO XH)))))))))))))))))))))))))))))))) :: ((Npos (XI
    (XI (XO (XI (XO (XO (XO (XO (XI (XO (XO (XO (XO (XO (XO (XO (XO (XO (XO
    (XO (XO (XO (XO (XO (XO (XO (XI (XO (XO (XO (XO
    XH)))))))))))))))))))))))))))))))) :: ((Npos (XO (XO (XI (XO (XO (XI (XI
    (XO (XO (XO (XO (XO (XO (XO (XO (XO (XO (XO (XO (XO (XO (XO (XO (XO (XO
    (XO (XI (XO (XO (XO (XO XH)))))))))))))))))))))))))))))))) :: ((Npos (XO
    (XO (XI (XO (XO (XI (XO (XO (XO (XO (XO (XO (XO (XO (XO (XO (XO (XO (XO
    (XO (XO (XO (XO (XO (XO (XO (XI (XO (XO (XO (XO
    XH)))))))))))))))))))))))))))))))) :: ((Npos (XO (XO (XO (XI (XO (XI (XO
    (XI (XO (XO (XO (XO (XO (XO (XO (XO (XO (XO (XO (XO (XO (XO (XO (XO (XO
    (XO (XI (XO (XI (XO (XO XH)))))))))))))))))))))))))))))))) :: ((Npos (XO
    (XO (XI (XO (XO (XO (XO (XO (XO (XO (XO (XO (XO (XO (XO (XO (XO (XO (XO
    (XO (XO (XO (XO (XO (XO (XO (XI (XO (XO (XO (XO
    XH)))))))))))))))))))))))))))))))) :: ((Npos (XO (XO (XI (XO (XO (XO (XO
    (XI (XO (XO (XO (XO (XO (XO (XO (XO (XO (XO (XO (XO (XO (XO (XO (XO (XO
    (XO (XI (XO (XO (XO (XO XH)))))))))))))))))))))))))))))))) :: ((Npos (XO
    (XO (XI (XO (XO (XO (XI (XO (XO (XO (XO (XO (XO (XO (XO (XO (XO (XO (XO
    (XO (XO (XO (XO (XO (XO (XO (XI (XO (XO (XO (XO
    XH)))))))))))))))))))))))))))))))) :: ((Npos (XO (XO (XO (XI (XO (XI (XI
    (XI (XO (XO (XO (XO (XO (XO (XO (XO (XO (XO (XO (XO (XO (XO (XO (XO (XO
    (XO (XI (XO (XI (XO (XO XH)))))))))))))))))))))))))))))))) :: ((Npos (XO
    (XI (XI (XO (XO (XO (XO (XO (XI (XO (XO (XO (XO (XO (XO (XO (XO (XO (XO
    (XO (XO (XO (XO (XO (XO (XO (XI (XO (XI (XI
    XH))))))))))))))))))))))))))))))) :: ((Npos (XO (XO (XI (XI (XI (XO (XI
    (XO (XO (XO (XO (XO (XO (XO (XO (XO (XO (XO (XO (XO (XO (XO (XO (XO (XO
    (XO (XI (XO (XO (XO (XO XH)))))))))))))))))))))))))))))))) :: ((Npos (XO
    (XO (XI (XI (XI (XO (XO (XO (XO (XO (XO (XO (XO (XO (XO (XO (XO (XO (XO
    (XO (XO (XO (XO (XO (XO (XO (XI (XO (XO (XO (XO
    XH)))))))))))))))))))))))))))))))) :: ((Npos (XO (XO (XO (XI (XI (XO (XO
    (XI (XO (XO (XO (XO (XO (XO (XO (XO (XO (XO (XO (XO (XO (XO (XO (XO (XO
    (XO (XI (XO (XI (XO (XO XH)))))))))))))))))))))))))))))))) :: ((Npos (XI
    (XO (XI (XO (XI (XO (XI (XO (XI (XO (XO (XO (XO (XO (XO (XO (XO (XO (XO
    (XO (XO (XO (XO (XO (XO (XO (XI (XO (XI (XI (XO
    XH)))))))))))))))))))))))))))))))) :: ((Npos (XO (XO (XI (XI (XI (XI (XI
    (XO (XO (XO (XO (XO (XO (XO (XO (XO (XO (XO (XO (XO (XO (XO (XO (XO (XO
    (XO (XI (XO (XO (XO (XO XH)))))))))))))))))))))))))))))))) :: ((Npos (XO
    (XO (XI (XI (XI (XI (XO (XO (XO (XO (XO (XO (XO (XO (XO (XO (XO (XO (XO
    (XO (XO (XO (XO (XO (XO (XO (XI (XO (XO (XO (XO
    XH)))))))))))))))))))))))))))))))) :: ((Npos (XO (XO (XO (XI (XI (XO (XI
    (XI (XO (XO (XO (XO (XO (XO (XO (XO (XO (XO (XO (XO (XO (XO (XO (XO (XO
    (XO (XI (XO (XI (XO (XO XH)))))))))))))))))))))))))))))))) :: ((Npos (XI
    (XO (XI (XO (XI (XO (XO (XO (XI (XO (XO (XO (XO (XO (XO (XO (XO (XO (XO
    (XO (XO (XO (XO (XO (XO (XO (XI (XO (XI (XO (XO
    XH)))))))))))))))))))))))))))))))) :: ((Npos (XO (XO (XI (XI (XO (XI (XI
    (XO (XO (XO (XO (XO (XO (XO (XO (XO (XO (XO (XO (XO (XO (XO (XO (XO (XO
    (XO (XI (XO (XO (XO (XO XH)))))))))))))))))))))))))))))))) :: ((Npos (XO
    (XO (XI (XI (XO (XI (XO (XO (XO (XO (XO (XO (XO (XO (XO (XO (XO (XO (XO
    (XO (XO (XO (XO (XO (XO (XO (XI (XO (XO (XO (XO
    XH)))))))))))))))))))))))))))))))) :: ((Npos (XO (XO (XO (XI (XI (XI (XO
    (XI (XO (XO (XO (XO (XO (XO (XO (XO (XO (XO (XO (XO (XO (XO (XO (XO (XO
    (XO (XI (XO (XI (XO (XO XH)))))))))))))))))))))))))))))))) :: ((Npos (XO
    (XO (XI (XI (XO (XO (XO (XO (XO (XO (XO (XO (XO (XO (XO (XO (XO (XO (XO
    (XO (XO (XO (XO (XO (XO (XO (XI (XO (XO (XO (XO
    XH)))))))))))))))))))))))))))))))) :: ((Npos (XO (XO (XI (XI (XO (XO (XO
    (XI (XO (XO (XO (XO (XO (XO (XO (XO (XO (XO (XO (XO (XO (XO (XO (XO (XO
    (XO (XI (XO (XO (XO (XO XH)))))))))))))))))))))))))))))))) :: ((Npos (XO
    (XO (XI (XI (XO (XO (XI (XO (XO (XO (XO (XO (XO (XO (XO (XO (XO (XO (XO
    (XO (XO (XO (XO (XO (XO (XO (XI (XO (XO (XO (XO
    XH)))))))))))))))))))))))))))))))) :: ((Npos (XO (XO (XO (XI (XI (XI (XI
    (XI (XO (XO (XO (XO (XO (XO (XO (XO (XO (XO (XO (XO (XO (XO (XO (XO (XO
    (XO (XI (XO (XI (XO (XO XH)))))))))))))))))))))))))))))))) :: ((Npos (XI
    (XO (XO (XO (XO (XO (XO (XO (XI (XO (XO (XO (XO (XO (XO (XO (XO (XO (XO
    (XO (XO (XO (XO (XO (XO (XO (XI (XO (XI (XI
    XH))))))))))))))))))))))))))))))) :: ((Npos (XO (XI (XO (XO (XI (XO (XI
    (XO (XO (XO (XO (XO (XO (XO (XO (XO (XO (XO (XO (XO (XO (XO (XO (XO (XO
    (XO (XI (XO (XO (XO (XO XH)))))))))))))))))))))))))))))))) :: ((Npos (XO
    (XI (XO (XO (XI (XO (XO (XO (XO (XO (XO (XO (XO (XO (XO (XO (XO (XO (XO
    (XO (XO (XO (XO (XO (XO (XO (XI (XO (XO (XO (XO
    XH)))))))))))))))))))))))))))))))) :: ((Npos (XO (XO (XI (XO (XI (XI (XO
    (XO (XO (XO (XO (XO (XO (XO (XO (XO (XO (XO (XO (XO (XO (XO (XO (XO (XO
    (XI (XI (XO (XI XH)))))))))))))))))))))))))))))) :: ((Npos (XI (XO (XI
    (XO (XO (XI (XO (XO (XI (XO (XO (XO (XO (XO (XO (XO (XO (XO (XO (XO (XO
    (XO (XO (XO (XO (XO (XI (XO (XO (XI (XO
    XH)))))))))))))))))))))))))))))))) :: ((Npos (XO (XI (XO (XO (XI (XI (XI
    (XO (XO (XO (XO (XO (XO (XO (XO (XO (XO (XO (XO (XO (XO (XO (XO (XO (XO
    (XO (XI (XO (XO (XO (XO XH)))))))))))))))))))))))))))))))) :: ((Npos (XO
    (XI (XO (XO (XI (XI (XO (XO (XO (XO (XO (XO (XO (XO (XO (XO (XO (XO (XO
    (XO (XO (XO (XO (XO (XO (XO (XI (XO (XO (XO (XO
    XH)))))))))))))))))))))))))))))))) :: ((Npos (XO (XO (XI (XO (XO (XO (XI
    (XI (XO (XO (XO (XO (XO (XO (XO (XO (XO (XO (XO (XO (XO (XO (XO (XO (XO
    (XO (XI (XO (XI (XO (XO XH)))))))))))))))))))))))))))))))) :: ((Npos (XI
    (XO (XO (XI (XO (XO (XO (XO (XI (XO (XO (XO (XO (XO (XO (XO (XO (XO (XO
    (XO (XO (XO (XO (XO (XO (XO (XI (XO (XO (XO (XO
    XH)))))))))))))))))))))))))))))))) :: ((Npos (XO (XI (XO (XO (XO (XI (XI
    (XO (XO (XO (XO (XO (XO (XO (XO (XO (XO (XO (XO (XO (XO (XO (XO (XO (XO
    (XO (XI (XO (XO (XO (XO XH)))))))))))))))))))))))))))))))) :: ((Npos (XO
    (XI (XO (XO (XO (XI (XO (XO (XO (XO (XO (XO (XO (XO (XO (XO (XO (XO (XO
    (XO (XO (XO (XO (XO (XO (XO (XI (XO (XO (XO (XO
    XH)))))))))))))))))))))))))))))))) :: ((Npos (XO (XO (XI (XO (XO (XI (XO
    (XI (XO (XO (XO (XO (XO (XO (XO (XO (XO (XO (XO (XO (XO (XO (XO (XO (XO
    (XO (XI (XO (XI (XO (XO XH)))))))))))))))))))))))))))))))) :: ((Npos (XO
    (XI (XO (XO (XO (XO (XO (XO (XO (XO (XO (XO (XO (XO (XO (XO (XO (XO (XO
    (XO (XO (XO (XO (XO (XO (XO (XI (XO (XO (XO (XO
    XH)))))))))))))))))))))))))))))))) :: ((Npos (XO (XI (XO (XO (XO (XO (XO
    (XI (XO (XO (XO (XO (XO (XO (XO (XO (XO (XO (XO (XO (XO (XO (XO (XO (XO
    (XO (XI (XO (XO (XO (XO XH)))))))))))))))))))))))))))))))) :: ((Npos (XO
    (XI (XO (XO (XO (XO (XI (XO (XO (XO (XO (XO (XO (XO (XO (XO (XO (XO (XO
    (XO (XO (XO (XO (XO (XO (XO (XI (XO (XO (XO (XO
    XH)))))))))))))))))))))))))))))))) :: ((Npos (XO (XO (XI (XO (XO (XI (XI
    (XI (XO (XO (XO (XO (XO (XO (XO (XO (XO (XO (XO (XO (XO (XO (XO (XO (XO
    (XO (XI (XO (XI (XO (XO XH)))))))))))))))))))))))))))))))) :: ((Npos (XI
    (XO (XI (XO (XO (XO (XO (XO (XI (XO (XO (XO (XO (XO (XO (XO (XO (XO (XO
    (XO (XO (XO (XO (XO (XO (XO (XI (XO (XI (XI
    XH))))))))))))))))))))))))))))))) :: ((Npos (XO (XI (XO (XI (XI (XO (XI
    (XO (XO (XO (XO (XO (XO (XO (XO (XO (XO (XO (XO (XO (XO (XO (XO (XO (XO
    (XO (XI (XO (XO (XO (XO XH)))))))))))))))))))))))))))))))) :: ((Npos (XO
    (XI (XO (XI (XI (XO (XO (XO (XO (XO (XO (XO (XO (XO (XO (XO (XO (XO (XO
    (XO (XO (XO (XO (XO (XO (XO (XI (XO (XO (XO (XO
    XH)))))))))))))))))))))))))))))))) :: ((Npos (XO (XO (XI (XO (XI (XO (XO
    (XI (XO (XO (XO (XO (XO (XO (XO (XO (XO (XO (XO (XO (XO (XO (XO (XO (XO
    (XO (XI (XO (XI (XO (XO XH)))))))))))))))))))))))))))))))) :: ((Npos (XI
    (XO (XI (XO (XO (XO (XI (XO (XI (XO (XO (XO (XO (XO (XO (XO (XO (XO (XO
    (XO (XO (XO (XO (XO (XO (XO (XI (XO (XI (XI (XO
    XH)))))))))))))))))))))))))))))))) :: ((Npos (XO (XI (XO (XI (XI (XI (XI
    (XO (XO (XO (XO (XO (XO (XO (XO (XO (XO (XO (XO (XO (XO (XO (XO (XO (XO
    (XO (XI (XO (XO (XO (XO XH)))))))))))))))))))))))))))))))) :: ((Npos (XO
    (XI (XO (XI (XI (XI (XO (XO (XO (XO (XO (XO (XO (XO (XO (XO (XO (XO (XO
    (XO (XO (XO (XO (XO (XO (XO (XI (XO (XO (XO (XO
    XH)))))))))))))))))))))))))))))))) :: ((Npos (XO (XO (XI (XO (XI (XO (XI
    (XI (XO (XO (XO (XO (XO (XO (XO (XO (XO (XO (XO (XO (XO (XO (XO (XO (XO
    (XO (XI (XO (XI (XO (XO XH)))))))))))))))))))))))))))))))) :: ((Npos (XI
    (XO (XO (XO (XI (XO (XO (XO (XI (XO (XO (XO (XO (XO (XO (XO (XO (XO (XO
    (XO (XO (XO (XO (XO (XO (XO (XI (XO (XI (XO (XO
    XH)))))))))))))))))))))))))))))))) :: ((Npos (XO (XI (XO (XI (XO (XI (XI
    (XO (XO (XO (XO (XO (XO (XO (XO (XO (XO (XO (XO (XO (XO (XO (XO (XO (XO
    (XO (XI (XO (XO (XO (XO XH)))))))))))))))))))))))))))))))) :: ((Npos (XO
    (XI (XO (XI (XO (XI (XO (XO (XO (XO (XO (XO (XO (XO (XO (XO (XO (XO (XO
    (XO (XO (XO (XO (XO (XO (XO (XI (XO (XO (XO (XO
    XH)))))))))))))))))))))))))))))))) :: ((Npos (XO (XO (XI (XO (XI (XI (XO
    (XI (XO (XO (XO (XO (XO (XO (XO (XO (XO (XO (XO (XO (XO (XO (XO (XO (XO
    (XO (XI (XO (XI (XO (XO XH)))))))))))))))))))))))))))))))) :: ((Npos (XO
    (XI (XO (XI (XO (XO (XO (XO (XO (XO (XO (XO (XO (XO (XO (XO (XO (XO (XO
    (XO (XO (XO (XO (XO (XO (XO (XI (XO (XO (XO (XO
    XH)))))))))))))))))))))))))))))))) :: ((Npos (XO (XI (XO (XI (XO (XO (XO
    (XI (XO (XO (XO (XO (XO (XO (XO (XO (XO (XO (XO (XO (XO (XO (XO (XO (XO
    (XO (XI (XO (XO (XO (XO XH)))))))))))))))))))))))))))))))) :: ((Npos (XO
    (XI (XO (XI (XO (XO (XI (XO (XO (XO (XO (XO (XO (XO (XO (XO (XO (XO (XO
    (XO (XO (XO (XO (XO (XO (XO (XI (XO (XO (XO (XO
    XH)))))))))))))))))))))))))))))))) :: ((Npos (XO (XO (XI (XO (XI (XI (XI
    (XI (XO (XO (XO (XO (XO (XO (XO (XO (XO (XO (XO (XO (XO (XO (XO (XO (XO
    (XO (XI (XO (XI (XO (XO XH)))))))))))))))))))))))))))))))) :: ((Npos (XI
    (XI (XO (XO (XO (XO (XO (XO (XI (XO (XO (XO (XO (XO (XO (XO (XO (XO (XO
    (XO (XO (XO (XO (XO (XO (XO (XI (XO (XI (XI
    XH))))))))))))))))))))))))))))))) :: ((Npos (XO (XI (XI (XO (XI (XO (XI
    (XO (XO (XO (XO (XO (XO (XO (XO (XO (XO (XO (XO (XO (XO (XO (XO (XO (XO
    (XO (XI (XO (XO (XO (XO XH)))))))))))))))))))))))))))))))) :: ((Npos (XO
    (XI (XI (XO (XI (XO (XO (XO (XO (XO (XO (XO (XO (XO (XO (XO (XO (XO (XO
    (XO (XO (XO (XO (XO (XO (XO (XI (XO (XO (XO (XO
    XH)))))))))))))))))))))))))))))))) :: (N0 :: ((Npos (XI (XO (XI (XO (XI
    (XI (XO (XO (XI (XO (XO (XO (XO (XO (XO (XO (XO (XO (XO (XO (XO (XO (XO
    (XO (XO (XO (XI (XO (XO (XI (XO
    XH)))))))))))))))))))))))))))))))) :: ((Npos (XO (XI (XI (XO (XI (XI (XI
    (XO (XO (XO (XO (XO (XO (XO (XO (XO (XO (XO (XO (XO (XO (XO (XO (XO (XO
    (XO (XI (XO (XO (XO (XO XH)))))))))))))))))))))))))))))))) :: ((Npos (XO
    (XI (XI (XO (XI (XI (XO (XO (XO (XO (XO (XO (XO (XO (XO (XO (XO (XO (XO
    (XO (XO (XO (XO (XO (XO (XO (XI (XO (XO (XO (XO
    XH)))))))))))))))))))))))))))))))) :: ((Npos (XO (XO (XI (XI (XO (XO (XI
    (XI (XO (XO (XO (XO (XO (XO (XO (XO (XO (XO (XO (XO (XO (XO (XO (XO (XO
    (XO (XI (XO (XI (XO (XO XH)))))))))))))))))))))))))))))))) :: ((Npos (XI
    (XO (XI (XI (XO (XO (XO (XO (XI (XO (XO (XO (XO (XO (XO (XO (XO (XO (XO
    (XO (XO (XO (XO (XO (XO (XO (XI (XO (XO (XO (XO
    XH)))))))))))))))))))))))))))))))) :: ((Npos (XO (XI (XI (XO (XO (XI (XI
    (XO (XO (XO (XO (XO (XO (XO (XO (XO (XO (XO (XO (XO (XO (XO (XO (XO (XO
    (XO (XI (XO (XO (XO (XO XH)))))))))))))))))))))))))))))))) :: ((Npos (XO
    (XI (XI (XO (XO (XI (XO (XO (XO (XO (XO (XO (XO (XO (XO (XO (XO (XO (XO
    (XO (XO (XO (XO (XO (XO (XO (XI (XO (XO (XO (XO
    XH)))))))))))))))))))))))))))))))) :: ((Npos (XO (XO (XI (XI (XO (XI (XO
    (XI (XO (XO (XO (XO (XO (XO (XO (XO (XO (XO (XO (XO (XO (XO (XO (XO (XO
    (XO (XI (XO (XI (XO (XO XH)))))))))))))))))))))))))))))))) :: ((Npos (XO
    (XI (XI (XO (XO (XO (XO (XO (XO (XO (XO (XO (XO (XO (XO (XO (XO (XO (XO
    (XO (XO (XO (XO (XO (XO (XO (XI (XO (XO (XO (XO
    XH)))))))))))))))))))))))))))))))) :: ((Npos (XO (XI (XI (XO (XO (XO (XO
    (XI (XO (XO (XO (XO (XO (XO (XO (XO (XO (XO (XO (XO (XO (XO (XO (XO (XO
    (XO (XI (XO (XO (XO (XO XH)))))))))))))))))))))))))))))))) :: ((Npos (XO
    (XI (XI (XO (XO (XO (XI (XO (XO (XO (XO (XO (XO (XO (XO (XO (XO (XO (XO
    (XO (XO (XO (XO (XO (XO (XO (XI (XO (XO (XO (XO
    XH)))))))))))))))))))))))))))))))) :: ((Npos (XO (XO (XI (XI (XO (XI (XI
    (XI (XO (XO (XO (XO (XO (XO (XO (XO (XO (XO (XO (XO (XO (XO (XO (XO (XO
    (XO (XI (XO (XI (XO (XO XH)))))))))))))))))))))))))))))))) :: ((Npos (XI
    (XI (XI (XO (XO (XO (XO (XO (XI (XO (XO (XO (XO (XO (XO (XO (XO (XO (XO
    (XO (XO (XO (XO (XO (XO (XO (XI (XO (XI (XI
    XH))))))))))))))))))))))))))))))) :: ((Npos (XO (XI (XI (XI (XI (XO (XI
    (XO (XO (XO (XO (XO (XO (XO (XO (XO (XO (XO (XO (XO (XO (XO (XO (XO (XO
    (XO (XI (XO (XO (XO (XO XH)))))))))))))))))))))))))))))))) :: ((Npos (XO
    (XI (XI (XI (XI (XO (XO (XO (XO (XO (XO (XO (XO (XO (XO (XO (XO (XO (XO
    (XO (XO (XO (XO (XO (XO (XO (XI (XO (XO (XO (XO
    XH)))))))))))))))))))))))))))))))) :: ((Npos (XO (XO (XI (XI (XI (XO (XO
    (XI (XO (XO (XO (XO (XO (XO (XO (XO (XO (XO (XO (XO (XO (XO (XO (XO (XO
    (XO (XI (XO (XI (XO (XO XH)))))))))))))))))))))))))))))))) :: ((Npos (XI
    (XO (XI (XO (XO (XI (XI (XO (XI (XO (XO (XO (XO (XO (XO (XO (XO (XO (XO
    (XO (XO (XO (XO (XO (XO (XO (XI (XO (XI (XI (XO
    XH)))))))))))))))))))))))))))))))) :: ((Npos (XO (XI (XI (XI (XI (XI (XI
    (XO (XO (XO (XO (XO (XO (XO (XO (XO (XO (XO (XO (XO (XO (XO (XO (XO (XO
    (XO (XI (XO (XO (XO (XO XH)))))))))))))))))))))))))))))))) :: ((Npos (XO
    (XI (XI (XI (XI (XI (XO (XO (XO (XO (XO (XO (XO (XO (XO (XO (XO (XO (XO
    (XO (XO (XO (XO (XO (XO (XO (XI (XO (XO (XO (XO
    XH)))))))))))))))))))))))))))))))) :: ((Npos (XO (XO (XI (XI (XI (XO (XI
    (XI (XO (XO (XO (XO (XO (XO (XO (XO (XO (XO (XO (XO (XO (XO (XO (XO (XO
    (XO (XI (XO (XI (XO (XO XH)))))))))))))))))))))))))))))))) :: ((Npos (XI
    (XO (XO (XI (XI (XO (XO (XO (XI (XO (XO (XO (XO (XO (XO (XO (XO (XO (XO
    (XO (XO (XO (XO (XO (XO (XO (XI (XO (XI (XO (XO
    XH)))))))))))))))))))))))))))))))) :: ((Npos (XO (XI (XI (XI (XO (XI (XI
    (XO (XO (XO (XO (XO (XO (XO (XO (XO (XO (XO (XO (XO (XO (XO (XO (XO (XO
    (XO (XI (XO (XO (XO (XO XH)))))))))))))))))))))))))))))))) :: ((Npos (XO
    (XI (XI (XI (XO (XI (XO (XO (XO (XO (XO (XO (XO (XO (XO (XO (XO (XO (XO
    (XO (XO (XO (XO (XO (XO (XO (XI (XO (XO (XO (XO
    XH)))))))))))))))))))))))))))))))) :: ((Npos (XO (XO (XI (XI (XI (XI (XO
    (XI (XO (XO (XO (XO (XO (XO (XO (XO (XO (XO (XO (XO (XO (XO (XO (XO (XO
    (XO (XI (XO (XI (XO (XO XH)))))))))))))))))))))))))))))))) :: ((Npos (XO
    (XI (XI (XI (XO (XO (XO (XO (XO (XO (XO (XO (XO (XO (XO (XO (XO (XO (XO
    (XO (XO (XO (XO (XO (XO (XO (XI (XO (XO (XO (XO
    XH)))))))))))))))))))))))))))))))) :: ((Npos (XO (XI (XI (XI (XO (XO (XO
    (XI (XO (XO (XO (XO (XO (XO (XO (XO (XO (XO (XO (XO (XO (XO (XO (XO (XO
    (XO (XI (XO (XO (XO (XO XH)))))))))))))))))))))))))))))))) :: ((Npos (XO
    (XI (XI (XI (XO (XO (XI (XO (XO (XO (XO (XO (XO (XO (XO (XO (XO (XO (XO
    (XO (XO (XO (XO (XO (XO (XO (XI (XO (XO (XO (XO
    XH)))))))))))))))))))))))))))))))) :: ((Npos (XO (XO (XI (XI (XI (XI (XI
    (XI (XO (XO (XO (XO (XO (XO (XO (XO (XO (XO (XO (XO (XO (XO (XO (XO (XO
    (XO (XI (XO (XI (XO (XO XH)))))))))))))))))))))))))))))))) :: ((Npos (XO
    (XO (XO (XO (XO (XO (XO (XO (XI (XO (XO (XO (XO (XO (XO (XO (XO (XO (XO
    (XO (XO (XO (XO (XO (XO (XO (XI (XO (XI (XI
    XH))))))))))))))))))))))))))))))) :: ((Npos (XI (XO (XO (XO (XI (XO (XI
    (XO (XO (XO (XO (XO (XO (XO (XO (XO (XO (XO (XO (XO (XO (XO (XO (XO (XO
    (XO (XI (XO (XO (XO (XO XH)))))))))))))))))))))))))))))))) :: ((Npos (XI
    (XO (XO (XO (XI (XO (XO (XO (XO (XO (XO (XO (XO (XO (XO (XO (XO (XO (XO
    (XO (XO (XO (XO (XO (XO (XO (XI (XO (XO (XO (XO
    XH)))))))))))))))))))))))))))))))) :: ((Npos (XO (XO (XI (XO (XI (XO (XO
    (XO (XO (XO (XO (XO (XO (XO (XO (XO (XO (XO (XO (XO (XO (XO (XO (XO (XO
    (XI (XI (XO (XI XH)))))))))))))))))))))))))))))) :: ((Npos (XO (XI (XI
    (XI (XI (XO (XO (XO (XI (XO (XO (XO (XO (XO (XO (XO (XO (XO (XO (XO (XO
    (XO (XO (XO (XO (XO (XI (XO (XI (XO (XO
    XH)))))))))))))))))))))))))))))))) :: ((Npos (XI (XO (XO (XO (XI (XI (XI
    (XO (XO (XO (XO (XO (XO (XO (XO (XO (XO (XO (XO (XO (XO (XO (XO (XO (XO
    (XO (XI (XO (XO (XO (XO XH)))))))))))))))))))))))))))))))) :: ((Npos (XI
    (XO (XO (XO (XI (XI (XO (XO (XO (XO (XO (XO (XO (XO (XO (XO (XO (XO (XO
    (XO (XO (XO (XO (XO (XO (XO (XI (XO (XO (XO (XO
    XH)))))))))))))))))))))))))))))))) :: ((Npos (XO (XI (XO (XO (XO (XO (XI
    (XI (XO (XO (XO (XO (XO (XO (XO (XO (XO (XO (XO (XO (XO (XO (XO (XO (XO
    (XO (XI (XO (XI (XO (XO XH)))))))))))))))))))))))))))))))) :: ((Npos (XO
    (XO (XO (XI (XO (XO (XO (XO (XI (XO (XO (XO (XO (XO (XO (XO (XO (XO (XO
    (XO (XO (XO (XO (XO (XO (XO (XI (XO (XI (XI
    XH))))))))))))))))))))))))))))))) :: ((Npos (XI (XO (XO (XO (XO (XI (XI
    (XO (XO (XO (XO (XO (XO (XO (XO (XO (XO (XO (XO (XO (XO (XO (XO (XO (XO
    (XO (XI (XO (XO (XO (XO XH)))))))))))))))))))))))))))))))) :: ((Npos (XI
    (XO (XO (XO (XO (XI (XO (XO (XO (XO (XO (XO (XO (XO (XO (XO (XO (XO (XO
    (XO (XO (XO (XO (XO (XO (XO (XI (XO (XO (XO (XO
    XH)))))))))))))))))))))))))))))))) :: ((Npos (XO (XI (XO (XO (XO (XI (XO
    (XI (XO (XO (XO (XO (XO (XO (XO (XO (XO (XO (XO (XO (XO (XO (XO (XO (XO
    (XO (XI (XO (XI (XO (XO XH)))))))))))))))))))))))))))))))) :: ((Npos (XI
    (XO (XO (XO (XO (XO (XO (XO (XO (XO (XO (XO (XO (XO (XO (XO (XO (XO (XO
    (XO (XO (XO (XO (XO (XO (XO (XI (XO (XO (XO (XO
    XH)))))))))))))))))))))))))))))))) :: ((Npos (XI (XO (XO (XO (XO (XO (XO
    (XI (XO (XO (XO (XO (XO (XO (XO (XO (XO (XO (XO (XO (XO (XO (XO (XO (XO
    (XO (XI (XO (XO (XO (XO XH)))))))))))))))))))))))))))))))) :: ((Npos (XI
    (XO (XO (XO (XO (XO (XI (XO (XO (XO (XO (XO (XO (XO (XO (XO (XO (XO (XO
    (XO (XO (XO (XO (XO (XO (XO (XI (XO (XO (XO (XO
    XH)))))))))))))))))))))))))))))))) :: ((Npos (XO (XI (XO (XO (XO (XI (XI
    (XI (XO (XO (XO (XO (XO (XO (XO (XO (XO (XO (XO (XO (XO (XO (XO (XO (XO
    (XO (XI (XO (XI (XO (XO XH)))))))))))))))))))))))))))))))) :: ((Npos (XO
    (XO (XI (XO (XO (XO (XO (XO (XI (XO (XO (XO (XO (XO (XO (XO (XO (XO (XO
    (XO (XO (XO (XO (XO (XO (XO (XI (XO (XI (XI
    XH))))))))))))))))))))))))))))))) :: ((Npos (XI (XO (XO (XI (XI (XO (XI
    (XO (XO (XO (XO (XO (XO (XO (XO (XO (XO (XO (XO (XO (XO (XO (XO (XO (XO
    (XO (XI (XO (XO (XO (XO XH)))))))))))))))))))))))))))))))) :: ((Npos (XI
    (XO (XO (XI (XI (XO (XO (XO (XO (XO (XO (XO (XO (XO (XO (XO (XO (XO (XO
    (XO (XO (XO (XO (XO (XO (XO (XI (XO (XO (XO (XO
    XH)))))))))))))))))))))))))))))))) :: ((Npos (XO (XI (XO (XO (XI (XO (XO
    (XI (XO (XO (XO (XO (XO (XO (XO (XO (XO (XO (XO (XO (XO (XO (XO (XO (XO
    (XO (XI (XO (XI (XO (XO XH)))))))))))))))))))))))))))))))) :: ((Npos (XO
    (XI (XI (XI (XI (XI (XO (XO (XI (XO (XO (XO (XO (XO (XO (XO (XO (XO (XO
    (XO (XO (XO (XO (XO (XO (XO (XI (XO (XO (XI (XO
    XH)))))))))))))))))))))))))))))))) :: ((Npos (XI (XO (XO (XI (XI (XI (XI
    (XO (XO (XO (XO (XO (XO (XO (XO (XO (XO (XO (XO (XO (XO (XO (XO (XO (XO
    (XO (XI (XO (XO (XO (XO XH)))))))))))))))))))))))))))))))) :: ((Npos (XI
    (XO (XO (XI (XI (XI (XO (XO (XO (XO (XO (XO (XO (XO (XO (XO (XO (XO (XO
    (XO (XO (XO (XO (XO (XO (XO (XI (XO (XO (XO (XO
    XH)))))))))))))))))))))))))))))))) :: ((Npos (XO (XI (XO (XO (XI (XO (XI
    (XI (XO (XO (XO (XO (XO (XO (XO (XO (XO (XO (XO (XO (XO (XO (XO (XO (XO
    (XO (XI (XO (XI (XO (XO XH)))))))))))))))))))))))))))))))) :: ((Npos (XO
    (XO (XO (XO (XI (XO (XO (XO (XI (XO (XO (XO (XO (XO (XO (XO (XO (XO (XO
    (XO (XO (XO (XO (XO (XO (XO (XI (XO (XO (XO (XO
    XH)))))))))))))))))))))))))))))))) :: ((Npos (XI (XO (XO (XI (XO (XI (XI
    (XO (XO (XO (XO (XO (XO (XO (XO (XO (XO (XO (XO (XO (XO (XO (XO (XO (XO
    (XO (XI (XO (XO (XO (XO XH)))))))))))))))))))))))))))))))) :: ((Npos (XI
    (XO (XO (XI (XO (XI (XO (XO (XO (XO (XO (XO (XO (XO (XO (XO (XO (XO (XO
    (XO (XO (XO (XO (XO (XO (XO (XI (XO (XO (XO (XO
    XH)))))))))))))))))))))))))))))))) :: ((Npos (XO (XI (XO (XO (XI (XI (XO
    (XI (XO (XO (XO (XO (XO (XO (XO (XO (XO (XO (XO (XO (XO (XO (XO (XO (XO
    (XO (XI (XO (XI (XO (XO XH)))))))))))))))))))))))))))))))) :: ((Npos (XI
    (XO (XO (XI (XO (XO (XO (XO (XO (XO (XO (XO (XO (XO (XO (XO (XO (XO (XO
    (XO (XO (XO (XO (XO (XO (XO (XI (XO (XO (XO (XO
    XH)))))))))))))))))))))))))))))))) :: ((Npos (XI (XO (XO (XI (XO (XO (XO
    (XI (XO (XO (XO (XO (XO (XO (XO (XO (XO (XO (XO (XO (XO (XO (XO (XO (XO
    (XO (XI (XO (XO (XO (XO XH)))))))))))))))))))))))))))))))) :: ((Npos (XI
    (XO (XO (XI (XO (XO (XI (XO (XO (XO (XO (XO (XO (XO (XO (XO (XO (XO (XO
    (XO (XO (XO (XO (XO (XO (XO (XI (XO (XO (XO (XO
    XH)))))))))))))))))))))))))))))))) :: ((Npos (XO (XI (XO (XO (XI (XI (XI
    (XI (XO (XO (XO (XO (XO (XO (XO (XO (XO (XO (XO (XO (XO (XO (XO (XO (XO
    (XO (XI (XO (XI (XO (XO XH)))))))))))))))))))))))))))))))) :: ((Npos (XO
    (XI (XO (XO (XO (XO (XO (XO (XI (XO (XO (XO (XO (XO (XO (XO (XO (XO (XO
    (XO (XO (XO (XO (XO (XO (XO (XI (XO (XI (XI
    XH))))))))))))))))))))))))))))))) :: ((Npos (XI (XO (XI (XO (XI (XO (XI
    (XO (XO (XO (XO (XO (XO (XO (XO (XO (XO (XO (XO (XO (XO (XO (XO (XO (XO
    (XO (XI (XO (XO (XO (XO XH)))))))))))))))))))))))))))))))) :: ((Npos (XI
    (XO (XI (XO (XI (XO (XO (XO (XO (XO (XO (XO (XO (XO (XO (XO (XO (XO (XO
    (XO (XO (XO (XO (XO (XO (XO (XI (XO (XO (XO (XO
    XH)))))))))))))))))))))))))))))))) :: ((Npos (XO (XO (XO (XO (XO (XO (XO
    (XO (XO (XI (XO (XO (XO (XO (XO (XO (XO (XO (XO (XO (XO (XO (XO (XO (XO
    (XO (XI (XO (XO (XO (XO XH)))))))))))))))))))))))))))))))) :: ((Npos (XO
    (XI (XI (XI (XO (XI (XO (XO (XI (XO (XO (XO (XO (XO (XO (XO (XO (XO (XO
    (XO (XO (XO (XO (XO (XO (XO (XI (XO (XO (XI (XO
    XH)))))))))))))))))))))))))))))))) :: ((Npos (XI (XO (XI (XO (XI (XI (XI
    (XO (XO (XO (XO (XO (XO (XO (XO (XO (XO (XO (XO (XO (XO (XO (XO (XO (XO
    (XO (XI (XO (XO (XO (XO XH)))))))))))))))))))))))))))))))) :: ((Npos (XI
    (XO (XI (XO (XI (XI (XO (XO (XO (XO (XO (XO (XO (XO (XO (XO (XO (XO (XO
    (XO (XO (XO (XO (XO (XO (XO (XI (XO (XO (XO (XO
    XH)))))))))))))))))))))))))))))))) :: ((Npos (XO (XI (XO (XI (XO (XO (XI
    (XI (XO (XO (XO (XO (XO (XO (XO (XO (XO (XO (XO (XO (XO (XO (XO (XO (XO
    (XO (XI (XO (XI (XO (XO XH)))))))))))))))))))))))))))))))) :: ((Npos (XO
    (XO (XI (XI (XO (XO (XO (XO (XI (XO (XO (XO (XO (XO (XO (XO (XO (XO (XO
    (XO (XO (XO (XO (XO (XO (XO (XI (XO (XO (XO (XO
    XH)))))))))))))))))))))))))))))))) :: ((Npos (XI (XO (XI (XO (XO (XI (XI
    (XO (XO (XO (XO (XO (XO (XO (XO (XO (XO (XO (XO (XO (XO (XO (XO (XO (XO
    (XO (XI (XO (XO (XO (XO XH)))))))))))))))))))))))))))))))) :: ((Npos (XI
    (XO (XI (XO (XO (XI (XO (XO (XO (XO (XO (XO (XO (XO (XO (XO (XO (XO (XO
    (XO (XO (XO (XO (XO (XO (XO (XI (XO (XO (XO (XO
    XH)))))))))))))))))))))))))))))))) :: ((Npos (XO (XI (XO (XI (XO (XI (XO
    (XI (XO (XO (XO (XO (XO (XO (XO (XO (XO (XO (XO (XO (XO (XO (XO (XO (XO
    (XO (XI (XO (XI (XO (XO XH)))))))))))))))))))))))))))))))) :: ((Npos (XI
    (XO (XI (XO (XO (XO (XO (XO (XO (XO (XO (XO (XO (XO (XO (XO (XO (XO (XO
    (XO (XO (XO (XO (XO (XO (XO (XI (XO (XO (XO (XO
    XH)))))))))))))))))))))))))))))))) :: ((Npos (XI (XO (XI (XO (XO (XO (XO
    (XI (XO (XO (XO (XO (XO (XO (XO (XO (XO (XO (XO (XO (XO (XO (XO (XO (XO
    (XO (XI (XO (XO (XO (XO XH)))))))))))))))))))))))))))))))) :: ((Npos (XI
    (XO (XI (XO (XO (XO (XI (XO (XO (XO (XO (XO (XO (XO (XO (XO (XO (XO (XO
    (XO (XO (XO (XO (XO (XO (XO (XI (XO (XO (XO (XO
    XH)))))))))))))))))))))))))))))))) :: ((Npos (XO (XI (XO (XI (XO (XI (XI
    (XI (XO (XO (XO (XO (XO (XO (XO (XO (XO (XO (XO (XO (XO (XO (XO (XO (XO
    (XO (XI (XO (XI (XO (XO XH)))))))))))))))))))))))))))))))) :: ((Npos (XO
    (XI (XI (XO (XO (XO (XO (XO (XI (XO (XO (XO (XO (XO (XO (XO (XO (XO (XO
    (XO (XO (XO (XO (XO (XO (XO (XI (XO (XI (XI
    XH))))))))))))))))))))))))))))))) :: ((Npos (XI (XO (XI (XI (XI (XO (XI
    (XO (XO (XO (XO (XO (XO (XO (XO (XO (XO (XO (XO (XO (XO (XO (XO (XO (XO
    (XO (XI (XO (XO (XO (XO XH)))))))))))))))))))))))))))))))) :: ((Npos (XI
    (XO (XI (XI (XI (XO (XO (XO (XO (XO (XO (XO (XO (XO (XO (XO (XO (XO (XO
    (XO (XO (XO (XO (XO (XO (XO (XI (XO (XO (XO (XO
    XH)))))))))))))))))))))))))))))))) :: ((Npos (XO (XI (XO (XI (XI (XO (XO
    (XI (XO (XO (XO (XO (XO (XO (XO (XO (XO (XO (XO (XO (XO (XO (XO (XO (XO
    (XO (XI (XO (XI (XO (XO XH)))))))))))))))))))))))))))))))) :: ((Npos (XO
    (XI (XI (XO (XI (XO (XI (XO (XI (XO (XO (XO (XO (XO (XO (XO (XO (XO (XO
    (XO (XO (XO (XO (XO (XO (XO (XI (XO (XI (XI (XO
    XH)))))))))))))))))))))))))))))))) :: ((Npos (XI (XO (XI (XI (XI (XI (XI
    (XO (XO (XO (XO (XO (XO (XO (XO (XO (XO (XO (XO (XO (XO (XO (XO (XO (XO
    (XO (XI (XO (XO (XO (XO XH)))))))))))))))))))))))))))))))) :: ((Npos (XI
    (XO (XI (XI (XI (XI (XO (XO (XO (XO (XO (XO (XO (XO (XO (XO (XO (XO (XO
    (XO (XO (XO (XO (XO (XO (XO (XI (XO (XO (XO (XO
    XH)))))))))))))))))))))))))))))))) :: ((Npos (XO (XI (XO (XI (XI (XO (XI
    (XI (XO (XO (XO (XO (XO (XO (XO (XO (XO (XO (XO (XO (XO (XO (XO (XO (XO
    (XO (XI (XO (XI (XO (XO XH)))))))))))))))))))))))))))))))) :: ((Npos (XO
    (XI (XI (XO (XI (XO (XO (XO (XI (XO (XO (XO (XO (XO (XO (XO (XO (XO (XO
    (XO (XO (XO (XO (XO (XO (XO (XI (XO (XI (XO (XO
    XH)))))))))))))))))))))))))))))))) :: ((Npos (XI (XO (XI (XI (XO (XI (XI
    (XO (XO (XO (XO (XO (XO (XO (XO (XO (XO (XO (XO (XO (XO (XO (XO (XO (XO
    (XO (XI (XO (XO (XO (XO XH)))))))))))))))))))))))))))))))) :: ((Npos (XI
    (XO (XI (XI (XO (XI (XO (XO (XO (XO (XO (XO (XO (XO (XO (XO (XO (XO (XO
    (XO (XO (XO (XO (XO (XO (XO (XI (XO (XO (XO (XO
    XH)))))))))))))))))))))))))))))))) :: ((Npos (XO (XI (XO (XI (XI (XI (XO
    (XI (XO (XO (XO (XO (XO (XO (XO (XO (XO (XO (XO (XO (XO (XO (XO (XO (XO
    (XO (XI (XO (XI (XO (XO XH)))))))))))))))))))))))))))))))) :: ((Npos (XI
    (XO (XI (XI (XO (XO (XO (XO (XO (XO (XO (XO (XO (XO (XO (XO (XO (XO (XO
    (XO (XO (XO (XO (XO (XO (XO (XI (XO (XO (XO (XO
    XH)))))))))))))))))))))))))))))))) :: ((Npos (XI (XO (XI (XI (XO (XO (XO
    (XI (XO (XO (XO (XO (XO (XO (XO (XO (XO (XO (XO (XO (XO (XO (XO (XO (XO
    (XO (XI (XO (XO (XO (XO XH)))))))))))))))))))))))))))))))) :: ((Npos (XI
    (XO (XI (XI (XO (XO (XI (XO (XO (XO (XO (XO (XO (XO (XO (XO (XO (XO (XO
    (XO (XO (XO (XO (XO (XO (XO (XI (XO (XO (XO (XO
    XH)))))))))))))))))))))))))))))))) :: ((Npos (XO (XI (XO (XI (XI (XI (XI
    (XI (XO (XO (XO (XO (XO (XO (XO (XO (XO (XO (XO (XO (XO (XO (XO (XO (XO
    (XO (XI (XO (XI (XO (XO XH)))))))))))))))))))))))))))))))) :: ((Npos (XI
    (XO (XO (XO (XO (XO (XO (XO (XI (XO (XO (XO (XO (XO (XO (XO (XO (XO (XO
    (XO (XO (XO (XO (XO (XO (XO (XI (XO (XI (XI
    XH))))))))))))))))))))))))))))))) :: ((Npos (XI (XI (XO (XO (XI (XO (XI
    (XO (XO (XO (XO (XO (XO (XO (XO (XO (XO (XO (XO (XO (XO (XO (XO (XO (XO
    (XO (XI (XO (XO (XO (XO XH)))))))))))))))))))))))))))))))) :: ((Npos (XI
    (XI (XO (XO (XI (XO (XO (XO (XO (XO (XO (XO (XO (XO (XO (XO (XO (XO (XO
    (XO (XO (XO (XO (XO (XO (XO (XI (XO (XO (XO (XO
    XH)))))))))))))))))))))))))))))))) :: ((Npos (XO (XO (XI (XO (XI (XO (XI
    (XO (XO (XO (XO (XO (XO (XO (XO (XO (XO (XO (XO (XO (XO (XO (XO (XO (XO
    (XI (XI (XO (XI XH)))))))))))))))))))))))))))))) :: ((Npos (XO (XI (XI
    (XO (XO (XI (XO (XO (XI (XO (XO (XO (XO (XO (XO (XO (XO (XO (XO (XO (XO
    (XO (XO (XO (XO (XO (XI (XO (XO (XI (XO
    XH)))))))))))))))))))))))))))))))) :: ((Npos (XI (XI (XO (XO (XI (XI (XI
    (XO (XO (XO (XO (XO (XO (XO (XO (XO (XO (XO (XO (XO (XO (XO (XO (XO (XO
    (XO (XI (XO (XO (XO (XO XH)))))))))))))))))))))))))))))))) :: ((Npos (XI
    (XI (XO (XO (XI (XI (XO (XO (XO (XO (XO (XO (XO (XO (XO (XO (XO (XO (XO
    (XO (XO (XO (XO (XO (XO (XO (XI (XO (XO (XO (XO
    XH)))))))))))))))))))))))))))))))) :: ((Npos (XO (XI (XI (XO (XO (XO (XI
    (XI (XO (XO (XO (XO (XO (XO (XO (XO (XO (XO (XO (XO (XO (XO (XO (XO (XO
    (XO (XI (XO (XI (XO (XO XH)))))))))))))))))))))))))))))))) :: ((Npos (XO
    (XI (XO (XI (XO (XO (XO (XO (XI (XO (XO (XO (XO (XO (XO (XO (XO (XO (XO
    (XO (XO (XO (XO (XO (XO (XO (XI (XO (XO (XO (XO
    XH)))))))))))))))))))))))))))))))) :: ((Npos (XI (XI (XO (XO (XO (XI (XI
    (XO (XO (XO (XO (XO (XO (XO (XO (XO (XO (XO (XO (XO (XO (XO (XO (XO (XO
    (XO (XI (XO (XO (XO (XO XH)))))))))))))))))))))))))))))))) :: ((Npos (XI
    (XI (XO (XO (XO (XI (XO (XO (XO (XO (XO (XO (XO (XO (XO (XO (XO (XO (XO
    (XO (XO (XO (XO (XO (XO (XO (XI (XO (XO (XO (XO
    XH)))))))))))))))))))))))))))))))) :: ((Npos (XO (XI (XI (XO (XO (XI (XO
    (XI (XO (XO (XO (XO (XO (XO (XO (XO (XO (XO (XO (XO (XO (XO (XO (XO (XO
    (XO (XI (XO (XI (XO (XO XH)))))))))))))))))))))))))))))))) :: ((Npos (XI
    (XI (XO (XO (XO (XO (XO (XO (XO (XO (XO (XO (XO (XO (XO (XO (XO (XO (XO
    (XO (XO (XO (XO (XO (XO (XO (XI (XO (XO (XO (XO
    XH)))))))))))))))))))))))))))))))) :: ((Npos (XI (XI (XO (XO (XO (XO (XO
    (XI (XO (XO (XO (XO (XO (XO (XO (XO (XO (XO (XO (XO (XO (XO (XO (XO (XO
    (XO (XI (XO (XO (XO (XO XH)))))))))))))))))))))))))))))))) :: ((Npos (XI
    (XI (XO (XO (XO (XO (XI (XO (XO (XO (XO (XO (XO (XO (XO (XO (XO (XO (XO
    (XO (XO (XO (XO (XO (XO (XO (XI (XO (XO (XO (XO
    XH)))))))))))))))))))))))))))))))) :: ((Npos (XO (XI (XI (XO (XO (XI (XI
    (XI (XO (XO (XO (XO (XO (XO (XO (XO (XO (XO (XO (XO (XO (XO (XO (XO (XO
    (XO (XI (XO (XI (XO (XO XH)))))))))))))))))))))))))))))))) :: ((Npos (XI
    (XO (XI (XO (XO (XO (XO (XO (XI (XO (XO (XO (XO (XO (XO (XO (XO (XO (XO
    (XO (XO (XO (XO (XO (XO (XO (XI (XO (XI (XI
    XH))))))))))))))))))))))))))))))) :: ((Npos (XI (XI (XO (XI (XI (XO (XI
    (XO (XO (XO (XO (XO (XO (XO (XO (XO (XO (XO (XO (XO (XO (XO (XO (XO (XO
    (XO (XI (XO (XO (XO (XO XH)))))))))))))))))))))))))))))))) :: ((Npos (XI
    (XI (XO (XI (XI (XO (XO (XO (XO (XO (XO (XO (XO (XO (XO (XO (XO (XO (XO
    (XO (XO (XO (XO (XO (XO (XO (XI (XO (XO (XO (XO
    XH)))))))))))))))))))))))))))))))) :: ((Npos (XO (XI (XI (XO (XI (XO (XO
    (XI (XO (XO (XO (XO (XO (XO (XO (XO (XO (XO (XO (XO (XO (XO (XO (XO (XO
    (XO (XI (XO (XI (XO (XO XH)))))))))))))))))))))))))))))))) :: ((Npos (XO
    (XI (XI (XO (XO (XO (XI (XO (XI (XO (XO (XO (XO (XO (XO (XO (XO (XO (XO
    (XO (XO (XO (XO (XO (XO (XO (XI (XO (XI (XI (XO
    XH)))))))))))))))))))))))))))))))) :: ((Npos (XI (XI (XO (XI (XI (XI (XI
    (XO (XO (XO (XO (XO (XO (XO (XO (XO (XO (XO (XO (XO (XO (XO (XO (XO (XO
    (XO (XI (XO (XO (XO (XO XH)))))))))))))))))))))))))))))))) :: ((Npos (XI
    (XI (XO (XI (XI (XI (XO (XO (XO (XO (XO (XO (XO (XO (XO (XO (XO (XO (XO
    (XO (XO (XO (XO (XO (XO (XO (XI (XO (XO (XO (XO
    XH)))))))))))))))))))))))))))))))) :: ((Npos (XO (XI (XI (XO (XI (XO (XI
    (XI (XO (XO (XO (XO (XO (XO (XO (XO (XO (XO (XO (XO (XO (XO (XO (XO (XO
    (XO (XI (XO (XI (XO (XO XH)))))))))))))))))))))))))))))))) :: ((Npos (XO
    (XI (XO (XO (XI (XO (XO (XO (XI (XO (XO (XO (XO (XO (XO (XO (XO (XO (XO
    (XO (XO (XO (XO (XO (XO (XO (XI (XO (XI (XO (XO
    XH)))))))))))))))))))))))))))))))) :: ((Npos (XI (XI (XO (XI (XO (XI (XI
    (XO (XO (XO (XO (XO (XO (XO (XO (XO (XO (XO (XO (XO (XO (XO (XO (XO (XO
    (XO (XI (XO (XO (XO (XO XH)))))))))))))))))))))))))))))))) :: ((Npos (XI
    (XI (XO (XI (XO (XI (XO (XO (XO (XO (XO (XO (XO (XO (XO (XO (XO (XO (XO
    (XO (XO (XO (XO (XO (XO (XO (XI (XO (XO (XO (XO
    XH)))))))))))))))))))))))))))))))) :: ((Npos (XO (XI (XI (XO (XI (XI (XO
    (XI (XO (XO (XO (XO (XO (XO (XO (XO (XO (XO (XO (XO (XO (XO (XO (XO (XO
    (XO (XI (XO (XI (XO (XO XH)))))))))))))))))))))))))))))))) :: ((Npos (XI
    (XI (XO (XI (XO (XO (XO (XO (XO (XO (XO (XO (XO (XO (XO (XO (XO (XO (XO
    (XO (XO (XO (XO (XO (XO (XO (XI (XO (XO (XO (XO
    XH)))))))))))))))))))))))))))))))) :: ((Npos (XI (XI (XO (XI (XO (XO (XO
    (XI (XO (XO (XO (XO (XO (XO (XO (XO (XO (XO (XO (XO (XO (XO (XO (XO (XO
    (XO (XI (XO (XO (XO (XO XH)))))))))))))))))))))))))))))))) :: ((Npos (XI
    (XI (XO (XI (XO (XO (XI (XO (XO (XO (XO (XO (XO (XO (XO (XO (XO (XO (XO
    (XO (XO (XO (XO (XO (XO (XO (XI (XO (XO (XO (XO
    XH)))))))))))))))))))))))))))))))) :: ((Npos (XO (XI (XI (XO (XI (XI (XI
    (XI (XO (XO (XO (XO (XO (XO (XO (XO (XO (XO (XO (XO (XO (XO (XO (XO (XO
    (XO (XI (XO (XI (XO (XO XH)))))))))))))))))))))))))))))))) :: ((Npos (XI
    (XI (XO (XO (XO (XO (XO (XO (XI (XO (XO (XO (XO (XO (XO (XO (XO (XO (XO
    (XO (XO (XO (XO (XO (XO (XO (XI (XO (XI (XI
    XH))))))))))))))))))))))))))))))) :: ((Npos (XI (XI (XI (XO (XI (XO (XI
    (XO (XO (XO (XO (XO (XO (XO (XO (XO (XO (XO (XO (XO (XO (XO (XO (XO (XO
    (XO (XI (XO (XO (XO (XO XH)))))))))))))))))))))))))))))))) :: ((Npos (XI
    (XI (XI (XO (XI (XO (XO (XO (XO (XO (XO (XO (XO (XO (XO (XO (XO (XO (XO
    (XO (XO (XO (XO (XO (XO (XO (XI (XO (XO (XO (XO
    XH)))))))))))))))))))))))))))))))) :: (N0 :: ((Npos (XO (XI (XI (XO (XI
    (XI (XO (XO (XI (XO (XO (XO (XO (XO (XO (XO (XO (XO (XO (XO (XO (XO (XO
    (XO (XO (XO (XI (XO (XO (XI (XO
    XH)))))))))))))))))))))))))))))))) :: ((Npos (XI (XI (XI (XO (XI (XI (XI
    (XO (XO (XO (XO (XO (XO (XO (XO (XO (XO (XO (XO (XO (XO (XO (XO (XO (XO
    (XO (XI (XO (XO (XO (XO XH)))))))))))))))))))))))))))))))) :: ((Npos (XI
    (XI (XI (XO (XI (XI (XO (XO (XO (XO (XO (XO (XO (XO (XO (XO (XO (XO (XO
    (XO (XO (XO (XO (XO (XO (XO (XI (XO (XO (XO (XO
    XH)))))))))))))))))))))))))))))))) :: ((Npos (XO (XI (XI (XI (XO (XO (XI
    (XI (XO (XO (XO (XO (XO (XO (XO (XO (XO (XO (XO (XO (XO (XO (XO (XO (XO
    (XO (XI (XO (XI (XO (XO XH)))))))))))))))))))))))))))))))) :: ((Npos (XO
    (XI (XI (XI (XO (XO (XO (XO (XI (XO (XO (XO (XO (XO (XO (XO (XO (XO (XO
    (XO (XO (XO (XO (XO (XO (XO (XI (XO (XO (XO (XO
    XH)))))))))))))))))))))))))))))))) :: ((Npos (XI (XI (XI (XO (XO (XI (XI
    (XO (XO (XO (XO (XO (XO (XO (XO (XO (XO (XO (XO (XO (XO (XO (XO (XO (XO
    (XO (XI (XO (XO (XO (XO XH)))))))))))))))))))))))))))))))) :: ((Npos (XI
    (XI (XI (XO (XO (XI (XO (XO (XO (XO (XO (XO (XO (XO (XO (XO (XO (XO (XO
    (XO (XO (XO (XO (XO (XO (XO (XI (XO (XO (XO (XO
    XH)))))))))))))))))))))))))))))))) :: ((Npos (XO (XI (XI (XI (XO (XI (XO
    (XI (XO (XO (XO (XO (XO (XO (XO (XO (XO (XO (XO (XO (XO (XO (XO (XO (XO
    (XO (XI (XO (XI (XO (XO XH)))))))))))))))))))))))))))))))) :: ((Npos (XI
    (XI (XI (XO (XO (XO (XO (XO (XO (XO (XO (XO (XO (XO (XO (XO (XO (XO (XO
    (XO (XO (XO (XO (XO (XO (XO (XI (XO (XO (XO (XO
    XH)))))))))))))))))))))))))))))))) :: ((Npos (XI (XI (XI (XO (XO (XO (XO
    (XI (XO (XO (XO (XO (XO (XO (XO (XO (XO (XO (XO (XO (XO (XO (XO (XO (XO
    (XO (XI (XO (XO (XO (XO XH)))))))))))))))))))))))))))))))) :: ((Npos (XI
    (XI (XI (XO (XO (XO (XI (XO (XO (XO (XO (XO (XO (XO (XO (XO (XO (XO (XO
    (XO (XO (XO (XO (XO (XO (XO (XI (XO (XO (XO (XO
    XH)))))))))))))))))))))))))))))))) :: ((Npos (XO (XI (XI (XI (XO (XI (XI
    (XI (XO (XO (XO (XO (XO (XO (XO (XO (XO (XO (XO (XO (XO (XO (XO (XO (XO
    (XO (XI (XO (XI (XO (XO XH)))))))))))))))))))))))))))))))) :: ((Npos (XI
    (XI (XI (XO (XO (XO (XO (XO (XI (XO (XO (XO (XO (XO (XO (XO (XO (XO (XO
    (XO (XO (XO (XO (XO (XO (XO (XI (XO (XI (XI
    XH))))))))))))))))))))))))))))))) :: ((Npos (XI (XI (XI (XI (XI (XO (XI
    (XO (XO (XO (XO (XO (XO (XO (XO (XO (XO (XO (XO (XO (XO (XO (XO (XO (XO
    (XO (XI (XO (XO (XO (XO XH)))))))))))))))))))))))))))))))) :: ((Npos (XI
    (XI (XI (XI (XI (XO (XO (XO (XO (XO (XO (XO (XO (XO (XO (XO (XO (XO (XO
    (XO (XO (XO (XO (XO (XO (XO (XI (XO (XO (XO (XO
    XH)))))))))))))))))))))))))))))))) :: ((Npos (XO (XI (XI (XI (XI (XO (XO
    (XI (XO (XO (XO (XO (XO (XO (XO (XO (XO (XO (XO (XO (XO (XO (XO (XO (XO
    (XO (XI (XO (XI (XO (XO XH)))))))))))))))))))))))))))))))) :: ((Npos (XO
    (XI (XI (XO (XO (XI (XI (XO (XI (XO (XO (XO (XO (XO (XO (XO (XO (XO (XO
    (XO (XO (XO (XO (XO (XO (XO (XI (XO (XI (XI (XO
    XH)))))))))))))))))))))))))))))))) :: ((Npos (XI (XI (XI (XI (XI (XI (XI
    (XO (XO (XO (XO (XO (XO (XO (XO (XO (XO (XO (XO (XO (XO (XO (XO (XO (XO
    (XO (XI (XO (XO (XO (XO XH)))))))))))))))))))))))))))))))) :: ((Npos (XI
    (XI (XI (XI (XI (XI (XO (XO (XO (XO (XO (XO (XO (XO (XO (XO (XO (XO (XO
    (XO (XO (XO (XO (XO (XO (XO (XI (XO (XO (XO (XO
    XH)))))))))))))))))))))))))))))))) :: ((Npos (XO (XI (XI (XI (XI (XO (XI
    (XI (XO (XO (XO (XO (XO (XO (XO (XO (XO (XO (XO (XO (XO (XO (XO (XO (XO
    (XO (XI (XO (XI (XO (XO XH)))))))))))))))))))))))))))))))) :: ((Npos (XO
    (XI (XO (XI (XI (XO (XO (XO (XI (XO (XO (XO (XO (XO (XO (XO (XO (XO (XO
    (XO (XO (XO (XO (XO (XO (XO (XI (XO (XI (XO (XO
    XH)))))))))))))))))))))))))))))))) :: ((Npos (XI (XI (XI (XI (XO (XI (XI
    (XO (XO (XO (XO (XO (XO (XO (XO (XO (XO (XO (XO (XO (XO (XO (XO (XO (XO
    (XO (XI (XO (XO (XO (XO XH)))))))))))))))))))))))))))))))) :: ((Npos (XI
    (XI (XI (XI (XO (XI (XO (XO (XO (XO (XO (XO (XO (XO (XO (XO (XO (XO (XO
    (XO (XO (XO (XO (XO (XO (XO (XI (XO (XO (XO (XO
    XH)))))))))))))))))))))))))))))))) :: ((Npos (XO (XI (XI (XI (XI (XI (XO
    (XI (XO (XO (XO (XO (XO (XO (XO (XO (XO (XO (XO (XO (XO (XO (XO (XO (XO
    (XO (XI (XO (XI (XO (XO XH)))))))))))))))))))))))))))))))) :: ((Npos (XI
    (XI (XI (XI (XO (XO (XO (XO (XO (XO (XO (XO (XO (XO (XO (XO (XO (XO (XO
    (XO (XO (XO (XO (XO (XO (XO (XI (XO (XO (XO (XO
    XH)))))))))))))))))))))))))))))))) :: ((Npos (XI (XI (XI (XI (XO (XO (XO
    (XI (XO (XO (XO (XO (XO (XO (XO (XO (XO (XO (XO (XO (XO (XO (XO (XO (XO
    (XO (XI (XO (XO (XO (XO XH)))))))))))))))))))))))))))))))) :: ((Npos (XI
    (XI (XI (XI (XO (XO (XI (XO (XO (XO (XO (XO (XO (XO (XO (XO (XO (XO (XO
    (XO (XO (XO (XO (XO (XO (XO (XI (XO (XO (XO (XO
    XH)))))))))))))))))))))))))))))))) :: ((Npos (XO (XI (XI (XI (XI (XI (XI
    (XI (XO (XO (XO (XO (XO (XO (XO (XO (XO (XO (XO (XO (XO (XO (XO (XO (XO
    (XO (XI (XO (XI (XO (XO XH)))))))))))))))))))))))))))))))) :: ((Npos (XO
    (XO (XO (XO (XO (XO (XO (XO (XI (XO (XO (XO (XO (XO (XO (XO (XO (XO (XO
    (XO (XO (XO (XO (XO (XO (XO (XI (XO (XI (XI
    XH))))))))))))))))))))))))))))))) :: ((Npos (XO (XO (XO (XO (XI (XO (XI
    (XO (XO (XO (XO (XO (XO (XO (XO (XO (XO (XO (XO (XO (XO (XO (XO (XO (XO
    (XO (XI (XO (XO (XO (XO XH)))))))))))))))))))))))))))))))) :: ((Npos (XO
    (XO (XO (XO (XI (XO (XO (XO (XO (XO (XO (XO (XO (XO (XO (XO (XO (XO (XO
    (XO (XO (XO (XO (XO (XO (XO (XI (XO (XO (XO (XO
    XH)))))))))))))))))))))))))))))))) :: ((Npos (XO (XO (XI (XI (XI (XI (XI
    (XO (XI (XO (XO (XO (XO (XO (XO (XO (XO (XO (XO (XO (XO (XO (XO (XO (XO
    (XO (XI (XO (XO (XO (XI XH)))))))))))))))))))))))))))))))) :: ((Npos (XI
    (XI (XI (XI (XI (XO (XO (XO (XI (XO (XO (XO (XO (XO (XO (XO (XO (XO (XO
    (XO (XO (XO (XO (XO (XO (XO (XI (XO (XI (XO (XO
    XH)))))))))))))))))))))))))))))))) :: ((Npos (XO (XO (XO (XO (XI (XI (XI
    (XO (XO (XO (XO (XO (XO (XO (XO (XO (XO (XO (XO (XO (XO (XO (XO (XO (XO
    (XO (XI (XO (XO (XO (XO XH)))))))))))))))))))))))))))))))) :: ((Npos (XO
    (XO (XO (XO (XI (XI (XO (XO (XO (XO (XO (XO (XO (XO (XO (XO (XO (XO (XO
    (XO (XO (XO (XO (XO (XO (XO (XI (XO (XO (XO (XO
    XH)))))))))))))))))))))))))))))))) :: ((Npos (XI (XO (XO (XO (XO (XO (XI
    (XI (XO (XO (XO (XO (XO (XO (XO (XO (XO (XO (XO (XO (XO (XO (XO (XO (XO
    (XO (XI (XO (XI (XO (XO XH)))))))))))))))))))))))))))))))) :: ((Npos (XO
    (XO (XO (XI (XO (XO (XO (XO (XI (XO (XO (XO (XO (XO (XO (XO (XO (XO (XO
    (XO (XO (XO (XO (XO (XO (XO (XI (XO (XI (XI
    XH))))))))))))))))))))))))))))))) :: ((Npos (XO (XO (XO (XO (XO (XI (XI
    (XO (XO (XO (XO (XO (XO (XO (XO (XO (XO (XO (XO (XO (XO (XO (XO (XO (XO
    (XO (XI (XO (XO (XO (XO XH)))))))))))))))))))))))))))))))) :: ((Npos (XO
    (XO (XO (XO (XO (XI (XO (XO (XO (XO (XO (XO (XO (XO (XO (XO (XO (XO (XO
    (XO (XO (XO (XO (XO (XO (XO (XI (XO (XO (XO (XO
    XH)))))))))))))))))))))))))))))))) :: ((Npos (XI (XO (XO (XO (XO (XI (XO
    (XI (XO (XO (XO (XO (XO (XO (XO (XO (XO (XO (XO (XO (XO (XO (XO (XO (XO
    (XO (XI (XO (XI (XO (XO XH)))))))))))))))))))))))))))))))) :: ((Npos (XO
    (XO (XO (XO (XO (XO (XO (XO (XO (XO (XO (XO (XO (XO (XO (XO (XO (XO (XO
    (XO (XO (XO (XO (XO (XO (XO (XI (XO (XO (XO (XO
    XH)))))))))))))))))))))))))))))))) :: ((Npos (XO (XO (XO (XO (XO (XO (XO
    (XI (XO (XO (XO (XO (XO (XO (XO (XO (XO (XO (XO (XO (XO (XO (XO (XO (XO
    (XO (XI (XO (XO (XO (XO XH)))))))))))))))))))))))))))))))) :: ((Npos (XO
    (XO (XO (XO (XO (XO (XI (XO (XO (XO (XO (XO (XO (XO (XO (XO (XO (XO (XO
    (XO (XO (XO (XO (XO (XO (XO (XI (XO (XO (XO (XO
    XH)))))))))))))))))))))))))))))))) :: ((Npos (XI (XO (XO (XO (XO (XI (XI
    (XI (XO (XO (XO (XO (XO (XO (XO (XO (XO (XO (XO (XO (XO (XO (XO (XO (XO
    (XO (XI (XO (XI (XO (XO XH)))))))))))))))))))))))))))))))) :: ((Npos (XO
    (XO (XI (XO (XO (XO (XO (XO (XI (XO (XO (XO (XO (XO (XO (XO (XO (XO (XO
    (XO (XO (XO (XO (XO (XO (XO (XI (XO (XI (XI
    XH))))))))))))))))))))))))))))))) :: ((Npos (XO (XO (XO (XI (XI (XO (XI
    (XO (XO (XO (XO (XO (XO (XO (XO (XO (XO (XO (XO (XO (XO (XO (XO (XO (XO
    (XO (XI (XO (XO (XO (XO XH)))))))))))))))))))))))))))))))) :: ((Npos (XO
    (XO (XO (XI (XI (XO (XO (XO (XO (XO (XO (XO (XO (XO (XO (XO (XO (XO (XO
    (XO (XO (XO (XO (XO (XO (XO (XI (XO (XO (XO (XO
    XH)))))))))))))))))))))))))))))))) :: ((Npos (XI (XO (XO (XO (XI (XO (XO
    (XI (XO (XO (XO (XO (XO (XO (XO (XO (XO (XO (XO (XO (XO (XO (XO (XO (XO
    (XO (XI (XO (XI (XO (XO XH)))))))))))))))))))))))))))))))) :: ((Npos (XI
    (XI (XI (XI (XI (XI (XO (XO (XI (XO (XO (XO (XO (XO (XO (XO (XO (XO (XO
    (XO (XO (XO (XO (XO (XO (XO (XI (XO (XO (XI (XO
    XH)))))))))))))))))))))))))))))))) :: ((Npos (XO (XO (XO (XI (XI (XI (XI
    (XO (XO (XO (XO (XO (XO (XO (XO (XO (XO (XO (XO (XO (XO (XO (XO (XO (XO
    (XO (XI (XO (XO (XO (XO XH)))))))))))))))))))))))))))))))) :: ((Npos (XO
    (XO (XO (XI (XI (XI (XO (XO (XO (XO (XO (XO (XO (XO (XO (XO (XO (XO (XO
    (XO (XO (XO (XO (XO (XO (XO (XI (XO (XO (XO (XO
    XH)))))))))))))))))))))))))))))))) :: ((Npos (XI (XO (XO (XO (XI (XO (XI
    (XI (XO (XO (XO (XO (XO (XO (XO (XO (XO (XO (XO (XO (XO (XO (XO (XO (XO
    (XO (XI (XO (XI (XO (XO XH)))))))))))))))))))))))))))))))) :: ((Npos (XI
    (XI (XI (XI (XO (XO (XO (XO (XI (XO (XO (XO (XO (XO (XO (XO (XO (XO (XO
    (XO (XO (XO (XO (XO (XO (XO (XI (XO (XO (XO (XO
    XH)))))))))))))))))))))))))))))))) :: ((Npos (XO (XO (XO (XI (XO (XI (XI
    (XO (XO (XO (XO (XO (XO (XO (XO (XO (XO (XO (XO (XO (XO (XO (XO (XO (XO
    (XO (XI (XO (XO (XO (XO XH)))))))))))))))))))))))))))))))) :: ((Npos (XO
    (XO (XO (XI (XO (XI (XO (XO (XO (XO (XO (XO (XO (XO (XO (XO (XO (XO (XO
    (XO (XO (XO (XO (XO (XO (XO (XI (XO (XO (XO (XO
    XH)))))))))))))))))))))))))))))))) :: ((Npos (XI (XO (XO (XO (XI (XI (XO
    (XI (XO (XO (XO (XO (XO (XO (XO (XO (XO (XO (XO (XO (XO (XO (XO (XO (XO
    (XO (XI (XO (XI (XO (XO XH)))))))))))))))))))))))))))))))) :: ((Npos (XO
    (XO (XO (XI (XO (XO (XO (XO (XO (XO (XO (XO (XO (XO (XO (XO (XO (XO (XO
    (XO (XO (XO (XO (XO (XO (XO (XI (XO (XO (XO (XO
    XH)))))))))))))))))))))))))))))))) :: ((Npos (XO (XO (XO (XI (XO (XO (XO
    (XI (XO (XO (XO (XO (XO (XO (XO (XO (XO (XO (XO (XO (XO (XO (XO (XO (XO
    (XO (XI (XO (XO (XO (XO XH)))))))))))))))))))))))))))))))) :: ((Npos (XO
    (XO (XO (XI (XO (XO (XI (XO (XO (XO (XO (XO (XO (XO (XO (XO (XO (XO (XO
    (XO (XO (XO (XO (XO (XO (XO (XI (XO (XO (XO (XO
    XH)))))))))))))))))))))))))))))))) :: ((Npos (XI (XO (XO (XO (XI (XI (XI
    (XI (XO (XO (XO (XO (XO (XO (XO (XO (XO (XO (XO (XO (XO (XO (XO (XO (XO
    (XO (XI (XO (XI (XO (XO XH)))))))))))))))))))))))))))))))) :: ((Npos (XO
    (XI (XO (XO (XO (XO (XO (XO (XI (XO (XO (XO (XO (XO (XO (XO (XO (XO (XO
    (XO (XO (XO (XO (XO (XO (XO (XI (XO (XI (XI
    XH))))))))))))))))))))))))))))))) :: ((Npos (XO (XO (XI (XO (XI (XO (XI
    (XO (XO (XO (XO (XO (XO (XO (XO (XO (XO (XO (XO (XO (XO (XO (XO (XO (XO
    (XO (XI (XO (XO (XO (XO XH)))))))))))))))))))))))))))))))) :: ((Npos (XO
    (XO (XI (XO (XI (XO (XO (XO (XO (XO (XO (XO (XO (XO (XO (XO (XO (XO (XO
    (XO (XO (XO (XO (XO (XO (XO (XI (XO (XO (XO (XO
    XH)))))))))))))))))))))))))))))))) :: ((Npos (XO (XI (XI (XO (XI (XI (XI
    (XO (XO (XO (XO (XO (XO (XO (XO (XO (XO (XO (XO (XO (XO (XO (XO (XO (XO
    (XI (XI (XO (XI XH)))))))))))))))))))))))))))))) :: ((Npos (XI (XI (XI
    (XI (XO (XI (XO (XO (XI (XO (XO (XO (XO (XO (XO (XO (XO (XO (XO (XO (XO
    (XO (XO (XO (XO (XO (XI (XO (XO (XI (XO
    XH)))))))))))))))))))))))))))))))) :: ((Npos (XO (XO (XI (XO (XI (XI (XI
    (XO (XO (XO (XO (XO (XO (XO (XO (XO (XO (XO (XO (XO (XO (XO (XO (XO (XO
    (XO (XI (XO (XO (XO (XO XH)))))))))))))))))))))))))))))))) :: ((Npos (XO
    (XO (XI (XO (XI (XI (XO (XO (XO (XO (XO (XO (XO (XO (XO (XO (XO (XO (XO
    (XO (XO (XO (XO (XO (XO (XO (XI (XO (XO (XO (XO
    XH)))))))))))))))))))))))))))))))) :: ((Npos (XI (XO (XO (XI (XO (XO (XI
    (XI (XO (XO (XO (XO (XO (XO (XO (XO (XO (XO (XO (XO (XO (XO (XO (XO (XO
    (XO (XI (XO (XI (XO (XO XH)))))))))))))))))))))))))))))))) :: ((Npos (XI
    (XI (XO (XI (XO (XO (XO (XO (XI (XO (XO (XO (XO (XO (XO (XO (XO (XO (XO
    (XO (XO (XO (XO (XO (XO (XO (XI (XO (XO (XO (XO
    XH)))))))))))))))))))))))))))))))) :: ((Npos (XO (XO (XI (XO (XO (XI (XI
    (XO (XO (XO (XO (XO (XO (XO (XO (XO (XO (XO (XO (XO (XO (XO (XO (XO (XO
    (XO (XI (XO (XO (XO (XO XH)))))))))))))))))))))))))))))))) :: ((Npos (XO
    (XO (XI (XO (XO (XI (XO (XO (XO (XO (XO (XO (XO (XO (XO (XO (XO (XO (XO
    (XO (XO (XO (XO (XO (XO (XO (XI (XO (XO (XO (XO
    XH)))))))))))))))))))))))))))))))) :: ((Npos (XI (XO (XO (XI (XO (XI (XO
    (XI (XO (XO (XO (XO (XO (XO (XO (XO (XO (XO (XO (XO (XO (XO (XO (XO (XO
    (XO (XI (XO (XI (XO (XO XH)))))))))))))))))))))))))))))))) :: ((Npos (XO
    (XO (XI (XO (XO (XO (XO (XO (XO (XO (XO (XO (XO (XO (XO (XO (XO (XO (XO
    (XO (XO (XO (XO (XO (XO (XO (XI (XO (XO (XO (XO
    XH)))))))))))))))))))))))))))))))) :: ((Npos (XO (XO (XI (XO (XO (XO (XO
    (XI (XO (XO (XO (XO (XO (XO (XO (XO (XO (XO (XO (XO (XO (XO (XO (XO (XO
    (XO (XI (XO (XO (XO (XO XH)))))))))))))))))))))))))))))))) :: ((Npos (XO
    (XO (XI (XO (XO (XO (XI (XO (XO (XO (XO (XO (XO (XO (XO (XO (XO (XO (XO
    (XO (XO (XO (XO (XO (XO (XO (XI (XO (XO (XO (XO
    XH)))))))))))))))))))))))))))))))) :: ((Npos (XI (XO (XO (XI (XO (XI (XI
    (XI (XO (XO (XO (XO (XO (XO (XO (XO (XO (XO (XO (XO (XO (XO (XO (XO (XO
    (XO (XI (XO (XI (XO (XO XH)))))))))))))))))))))))))))))))) :: ((Npos (XO
    (XI (XI (XO (XO (XO (XO (XO (XI (XO (XO (XO (XO (XO (XO (XO (XO (XO (XO
    (XO (XO (XO (XO (XO (XO (XO (XI (XO (XI (XI
    XH))))))))))))))))))))))))))))))) :: ((Npos (XO (XO (XI (XI (XI (XO (XI
    (XO (XO (XO (XO (XO (XO (XO (XO (XO (XO (XO (XO (XO (XO (XO (XO (XO (XO
    (XO (XI (XO (XO (XO (XO XH)))))))))))))))))))))))))))))))) :: ((Npos (XO
    (XO (XI (XI (XI (XO (XO (XO (XO (XO (XO (XO (XO (XO (XO (XO (XO (XO (XO
    (XO (XO (XO (XO (XO (XO (XO (XI (XO (XO (XO (XO
    XH)))))))))))))))))))))))))))))))) :: ((Npos (XI (XO (XO (XI (XI (XO (XO
    (XI (XO (XO (XO (XO (XO (XO (XO (XO (XO (XO (XO (XO (XO (XO (XO (XO (XO
    (XO (XI (XO (XI (XO (XO XH)))))))))))))))))))))))))))))))) :: ((Npos (XI
    (XI (XI (XO (XI (XO (XI (XO (XI (XO (XO (XO (XO (XO (XO (XO (XO (XO (XO
    (XO (XO (XO (XO (XO (XO (XO (XI (XO (XI (XI (XO
    XH)))))))))))))))))))))))))))))))) :: ((Npos (XO (XO (XI (XI (XI (XI (XI
    (XO (XO (XO (XO (XO (XO (XO (XO (XO (XO (XO (XO (XO (XO (XO (XO (XO (XO
    (XO (XI (XO (XO (XO (XO XH)))))))))))))))))))))))))))))))) :: ((Npos (XO
    (XO (XI (XI (XI (XI (XO (XO (XO (XO (XO (XO (XO (XO (XO (XO (XO (XO (XO
    (XO (XO (XO (XO (XO (XO (XO (XI (XO (XO (XO (XO
    XH)))))))))))))))))))))))))))))))) :: ((Npos (XI (XO (XO (XI (XI (XO (XI
    (XI (XO (XO (XO (XO (XO (XO (XO (XO (XO (XO (XO (XO (XO (XO (XO (XO (XO
    (XO (XI (XO (XI (XO (XO XH)))))))))))))))))))))))))))))))) :: ((Npos (XI
    (XI (XI (XO (XI (XO (XO (XO (XI (XO (XO (XO (XO (XO (XO (XO (XO (XO (XO
    (XO (XO (XO (XO (XO (XO (XO (XI (XO (XI (XO (XO
    XH)))))))))))))))))))))))))))))))) :: ((Npos (XO (XO (XI (XI (XO (XI (XI
    (XO (XO (XO (XO (XO (XO (XO (XO (XO (XO (XO (XO (XO (XO (XO (XO (XO (XO
    (XO (XI (XO (XO (XO (XO XH)))))))))))))))))))))))))))))))) :: ((Npos (XO
    (XO (XI (XI (XO (XI (XO (XO (XO (XO (XO (XO (XO (XO (XO (XO (XO (XO (XO
    (XO (XO (XO (XO (XO (XO (XO (XI (XO (XO (XO (XO
    XH)))))))))))))))))))))))))))))))) :: ((Npos (XI (XO (XO (XI (XI (XI (XO
    (XI (XO (XO (XO (XO (XO (XO (XO (XO (XO (XO (XO (XO (XO (XO (XO (XO (XO
    (XO (XI (XO (XI (XO (XO XH)))))))))))))))))))))))))))))))) :: ((Npos (XO
    (XO (XI (XI (XO (XO (XO (XO (XO (XO (XO (XO (XO (XO (XO (XO (XO (XO (XO
    (XO (XO (XO (XO (XO (XO (XO (XI (XO (XO (XO (XO
    XH)))))))))))))))))))))))))))))))) :: ((Npos (XO (XO (XI (XI (XO (XO (XO
    (XI (XO (XO (XO (XO (XO (XO (XO (XO (XO (XO (XO (XO (XO (XO (XO (XO (XO
    (XO (XI (XO (XO (XO (XO XH)))))))))))))))))))))))))))))))) :: ((Npos (XO
    (XO (XI (XI (XO (XO (XI (XO (XO (XO (XO (XO (XO (XO (XO (XO (XO (XO (XO
    (XO (XO (XO (XO (XO (XO (XO (XI (XO (XO (XO (XO
    XH)))))))))))))))))))))))))))))))) :: ((Npos (XI (XO (XO (XI (XI (XI (XI
    (XI (XO (XO (XO (XO (XO (XO (XO (XO (XO (XO (XO (XO (XO (XO (XO (XO (XO
    (XO (XI (XO (XI (XO (XO XH)))))))))))))))))))))))))))))))) :: ((Npos (XI
    (XO (XO (XO (XO (XO (XO (XO (XI (XO (XO (XO (XO (XO (XO (XO (XO (XO (XO
    (XO (XO (XO (XO (XO (XO (XO (XI (XO (XI (XI
    XH))))))))))))))))))))))))))))))) :: ((Npos (XO (XI (XO (XO (XI (XO (XI
    (XO (XO (XO (XO (XO (XO (XO (XO (XO (XO (XO (XO (XO (XO (XO (XO (XO (XO
    (XO (XI (XO (XO (XO (XO XH)))))))))))))))))))))))))))))))) :: ((Npos (XO
    (XI (XO (XO (XI (XO (XO (XO (XO (XO (XO (XO (XO (XO (XO (XO (XO (XO (XO
    (XO (XO (XO (XO (XO (XO (XO (XI (XO (XO (XO (XO
    XH)))))))))))))))))))))))))))))))) :: ((Npos (XO (XI (XI (XO (XI (XI (XO
    (XO (XO (XO (XO (XO (XO (XO (XO (XO (XO (XO (XO (XO (XO (XO (XO (XO (XO
    (XI (XI (XO (XI XH)))))))))))))))))))))))))))))) :: ((Npos (XI (XI (XI
    (XO (XO (XI (XO (XO (XI (XO (XO (XO (XO (XO (XO (XO (XO (XO (XO (XO (XO
    (XO (XO (XO (XO (XO (XI (XO (XO (XI (XO
    XH)))))))))))))))))))))))))))))))) :: ((Npos (XO (XI (XO (XO (XI (XI (XI
    (XO (XO (XO (XO (XO (XO (XO (XO (XO (XO (XO (XO (XO (XO (XO (XO (XO (XO
    (XO (XI (XO (XO (XO (XO XH)))))))))))))))))))))))))))))))) :: ((Npos (XO
    (XI (XO (XO (XI (XI (XO (XO (XO (XO (XO (XO (XO (XO (XO (XO (XO (XO (XO
    (XO (XO (XO (XO (XO (XO (XO (XI (XO (XO (XO (XO
    XH)))))))))))))))))))))))))))))))) :: ((Npos (XI (XO (XI (XO (XO (XO (XI
    (XI (XO (XO (XO (XO (XO (XO (XO (XO (XO (XO (XO (XO (XO (XO (XO (XO (XO
    (XO (XI (XO (XI (XO (XO XH)))))))))))))))))))))))))))))))) :: ((Npos (XI
    (XO (XO (XI (XO (XO (XO (XO (XI (XO (XO (XO (XO (XO (XO (XO (XO (XO (XO
    (XO (XO (XO (XO (XO (XO (XO (XI (XO (XO (XO (XO
    XH)))))))))))))))))))))))))))))))) :: ((Npos (XO (XI (XO (XO (XO (XI (XI
    (XO (XO (XO (XO (XO (XO (XO (XO (XO (XO (XO (XO (XO (XO (XO (XO (XO (XO
    (XO (XI (XO (XO (XO (XO XH)))))))))))))))))))))))))))))))) :: ((Npos (XO
    (XI (XO (XO (XO (XI (XO (XO (XO (XO (XO (XO (XO (XO (XO (XO (XO (XO (XO
    (XO (XO (XO (XO (XO (XO (XO (XI (XO (XO (XO (XO
    XH)))))))))))))))))))))))))))))))) :: ((Npos (XI (XO (XI (XO (XO (XI (XO
    (XI (XO (XO (XO (XO (XO (XO (XO (XO (XO (XO (XO (XO (XO (XO (XO (XO (XO
    (XO (XI (XO (XI (XO (XO XH)))))))))))))))))))))))))))))))) :: ((Npos (XO
    (XI (XO (XO (XO (XO (XO (XO (XO (XO (XO (XO (XO (XO (XO (XO (XO (XO (XO
    (XO (XO (XO (XO (XO (XO (XO (XI (XO (XO (XO (XO
    XH)))))))))))))))))))))))))))))))) :: ((Npos (XO (XI (XO (XO (XO (XO (XO
    (XI (XO (XO (XO (XO (XO (XO (XO (XO (XO (XO (XO (XO (XO (XO (XO (XO (XO
    (XO (XI (XO (XO (XO (XO XH)))))))))))))))))))))))))))))))) :: ((Npos (XO
    (XI (XO (XO (XO (XO (XI (XO (XO (XO (XO (XO (XO (XO (XO (XO (XO (XO (XO
    (XO (XO (XO (XO (XO (XO (XO (XI (XO (XO (XO (XO
    XH)))))))))))))))))))))))))))))))) :: ((Npos (XI (XO (XI (XO (XO (XI (XI
    (XI (XO (XO (XO (XO (XO (XO (XO (XO (XO (XO (XO (XO (XO (XO (XO (XO (XO
    (XO (XI (XO (XI (XO (XO XH)))))))))))))))))))))))))))))))) :: ((Npos (XI
    (XO (XI (XO (XO (XO (XO (XO (XI (XO (XO (XO (XO (XO (XO (XO (XO (XO (XO
    (XO (XO (XO (XO (XO (XO (XO (XI (XO (XI (XI
    XH))))))))))))))))))))))))))))))) :: ((Npos (XO (XI (XO (XI (XI (XO (XI
    (XO (XO (XO (XO (XO (XO (XO (XO (XO (XO (XO (XO (XO (XO (XO (XO (XO (XO
    (XO (XI (XO (XO (XO (XO XH)))))))))))))))))))))))))))))))) :: ((Npos (XO
    (XI (XO (XI (XI (XO (XO (XO (XO (XO (XO (XO (XO (XO (XO (XO (XO (XO (XO
    (XO (XO (XO (XO (XO (XO (XO (XI (XO (XO (XO (XO
    XH)))))))))))))))))))))))))))))))) :: ((Npos (XI (XO (XI (XO (XI (XO (XO
    (XI (XO (XO (XO (XO (XO (XO (XO (XO (XO (XO (XO (XO (XO (XO (XO (XO (XO
    (XO (XI (XO (XI (XO (XO XH)))))))))))))))))))))))))))))))) :: ((Npos (XI
    (XI (XI (XO (XO (XO (XI (XO (XI (XO (XO (XO (XO (XO (XO (XO (XO (XO (XO
    (XO (XO (XO (XO (XO (XO (XO (XI (XO (XI (XI (XO
    XH)))))))))))))))))))))))))))))))) :: ((Npos (XO (XI (XO (XI (XI (XI (XI
    (XO (XO (XO (XO (XO (XO (XO (XO (XO (XO (XO (XO (XO (XO (XO (XO (XO (XO
    (XO (XI (XO (XO (XO (XO XH)))))))))))))))))))))))))))))))) :: ((Npos (XO
    (XI (XO (XI (XI (XI (XO (XO (XO (XO (XO (XO (XO (XO (XO (XO (XO (XO (XO
    (XO (XO (XO (XO (XO (XO (XO (XI (XO (XO (XO (XO
    XH)))))))))))))))))))))))))))))))) :: ((Npos (XI (XO (XI (XO (XI (XO (XI
    (XI (XO (XO (XO (XO (XO (XO (XO (XO (XO (XO (XO (XO (XO (XO (XO (XO (XO
    (XO (XI (XO (XI (XO (XO XH)))))))))))))))))))))))))))))))) :: ((Npos (XI
    (XI (XO (XO (XI (XO (XO (XO (XI (XO (XO (XO (XO (XO (XO (XO (XO (XO (XO
    (XO (XO (XO (XO (XO (XO (XO (XI (XO (XI (XO (XO
    XH)))))))))))))))))))))))))))))))) :: ((Npos (XO (XI (XO (XI (XO (XI (XI
    (XO (XO (XO (XO (XO (XO (XO (XO (XO (XO (XO (XO (XO (XO (XO (XO (XO (XO
    (XO (XI (XO (XO (XO (XO XH)))))))))))))))))))))))))))))))) :: ((Npos (XO
    (XI (XO (XI (XO (XI (XO (XO (XO (XO (XO (XO (XO (XO (XO (XO (XO (XO (XO
    (XO (XO (XO (XO (XO (XO (XO (XI (XO (XO (XO (XO
    XH)))))))))))))))))))))))))))))))) :: ((Npos (XI (XO (XI (XO (XI (XI (XO
    (XI (XO (XO (XO (XO (XO (XO (XO (XO (XO (XO (XO (XO (XO (XO (XO (XO (XO
    (XO (XI (XO (XI (XO (XO XH)))))))))))))))))))))))))))))))) :: ((Npos (XO
    (XI (XO (XI (XO (XO (XO (XO (XO (XO (XO (XO (XO (XO (XO (XO (XO (XO (XO
    (XO (XO (XO (XO (XO (XO (XO (XI (XO (XO (XO (XO
    XH)))))))))))))))))))))))))))))))) :: ((Npos (XO (XI (XO (XI (XO (XO (XO
    (XI (XO (XO (XO (XO (XO (XO (XO (XO (XO (XO (XO (XO (XO (XO (XO (XO (XO
    (XO (XI (XO (XO (XO (XO XH)))))))))))))))))))))))))))))))) :: ((Npos (XO
    (XI (XO (XI (XO (XO (XI (XO (XO (XO (XO (XO (XO (XO (XO (XO (XO (XO (XO
    (XO (XO (XO (XO (XO (XO (XO (XI (XO (XO (XO (XO
    XH)))))))))))))))))))))))))))))))) :: ((Npos (XI (XO (XI (XO (XI (XI (XI
    (XI (XO (XO (XO (XO (XO (XO (XO (XO (XO (XO (XO (XO (XO (XO (XO (XO (XO
    (XO (XI (XO (XI (XO (XO XH)))))))))))))))))))))))))))))))) :: ((Npos (XI
    (XI (XO (XO (XO (XO (XO (XO (XI (XO (XO (XO (XO (XO (XO (XO (XO (XO (XO
    (XO (XO (XO (XO (XO (XO (XO (XI (XO (XI (XI
    XH))))))))))))))))))))))))))))))) :: ((Npos (XO (XI (XI (XO (XI (XO (XI
    (XO (XO (XO (XO (XO (XO (XO (XO (XO (XO (XO (XO (XO (XO (XO (XO (XO (XO
    (XO (XI (XO (XO (XO (XO XH)))))))))))))))))))))))))))))))) :: ((Npos (XO
    (XI (XI (XO (XI (XO (XO (XO (XO (XO (XO (XO (XO (XO (XO (XO (XO (XO (XO
    (XO (XO (XO (XO (XO (XO (XO (XI (XO (XO (XO (XO
    XH)))))))))))))))))))))))))))))))) :: (N0 :: ((Npos (XI (XI (XI (XO (XI
    (XI (XO (XO (XI (XO (XO (XO (XO (XO (XO (XO (XO (XO (XO (XO (XO (XO (XO
    (XO (XO (XO (XI (XO (XO (XI (XO
    XH)))))))))))))))))))))))))))))))) :: ((Npos (XO (XI (XI (XO (XI (XI (XI
    (XO (XO (XO (XO (XO (XO (XO (XO (XO (XO (XO (XO (XO (XO (XO (XO (XO (XO
    (XO (XI (XO (XO (XO (XO XH)))))))))))))))))))))))))))))))) :: ((Npos (XO
    (XI (XI (XO (XI (XI (XO (XO (XO (XO (XO (XO (XO (XO (XO (XO (XO (XO (XO
    (XO (XO (XO (XO (XO (XO (XO (XI (XO (XO (XO (XO
    XH)))))))))))))))))))))))))))))))) :: ((Npos (XI (XO (XI (XI (XO (XO (XI
    (XI (XO (XO (XO (XO (XO (XO (XO (XO (XO (XO (XO (XO (XO (XO (XO (XO (XO
    (XO (XI (XO (XI (XO (XO XH)))))))))))))))))))))))))))))))) :: ((Npos (XI
    (XO (XI (XI (XO (XO (XO (XO (XI (XO (XO (XO (XO (XO (XO (XO (XO (XO (XO
    (XO (XO (XO (XO (XO (XO (XO (XI (XO (XO (XO (XO
    XH)))))))))))))))))))))))))))))))) :: ((Npos (XO (XI (XI (XO (XO (XI (XI
    (XO (XO (XO (XO (XO (XO (XO (XO (XO (XO (XO (XO (XO (XO (XO (XO (XO (XO
    (XO (XI (XO (XO (XO (XO XH)))))))))))))))))))))))))))))))) :: ((Npos (XO
    (XI (XI (XO (XO (XI (XO (XO (XO (XO (XO (XO (XO (XO (XO (XO (XO (XO (XO
    (XO (XO (XO (XO (XO (XO (XO (XI (XO (XO (XO (XO
    XH)))))))))))))))))))))))))))))))) :: ((Npos (XI (XO (XI (XI (XO (XI (XO
    (XI (XO (XO (XO (XO (XO (XO (XO (XO (XO (XO (XO (XO (XO (XO (XO (XO (XO
    (XO (XI (XO (XI (XO (XO XH)))))))))))))))))))))))))))))))) :: ((Npos (XO
    (XI (XI (XO (XO (XO (XO (XO (XO (XO (XO (XO (XO (XO (XO (XO (XO (XO (XO
    (XO (XO (XO (XO (XO (XO (XO (XI (XO (XO (XO (XO
    XH)))))))))))))))))))))))))))))))) :: ((Npos (XO (XI (XI (XO (XO (XO (XO
    (XI (XO (XO (XO (XO (XO (XO (XO (XO (XO (XO (XO (XO (XO (XO (XO (XO (XO
    (XO (XI (XO (XO (XO (XO XH)))))))))))))))))))))))))))))))) :: ((Npos (XO
    (XI (XI (XO (XO (XO (XI (XO (XO (XO (XO (XO (XO (XO (XO (XO (XO (XO (XO
    (XO (XO (XO (XO (XO (XO (XO (XI (XO (XO (XO (XO
    XH)))))))))))))))))))))))))))))))) :: ((Npos (XI (XO (XI (XI (XO (XI (XI
    (XI (XO (XO (XO (XO (XO (XO (XO (XO (XO (XO (XO (XO (XO (XO (XO (XO (XO
    (XO (XI (XO (XI (XO (XO XH)))))))))))))))))))))))))))))))) :: ((Npos (XI
    (XI (XI (XO (XO (XO (XO (XO (XI (XO (XO (XO (XO (XO (XO (XO (XO (XO (XO
    (XO (XO (XO (XO (XO (XO (XO (XI (XO (XI (XI
    XH))))))))))))))))))))))))))))))) :: ((Npos (XO (XI (XI (XI (XI (XO (XI
    (XO (XO (XO (XO (XO (XO (XO (XO (XO (XO (XO (XO (XO (XO (XO (XO (XO (XO
    (XO (XI (XO (XO (XO (XO XH)))))))))))))))))))))))))))))))) :: ((Npos (XO
    (XI (XI (XI (XI (XO (XO (XO (XO (XO (XO (XO (XO (XO (XO (XO (XO (XO (XO
    (XO (XO (XO (XO (XO (XO (XO (XI (XO (XO (XO (XO
    XH)))))))))))))))))))))))))))))))) :: ((Npos (XI (XO (XI (XI (XI (XO (XO
    (XI (XO (XO (XO (XO (XO (XO (XO (XO (XO (XO (XO (XO (XO (XO (XO (XO (XO
    (XO (XI (XO (XI (XO (XO XH)))))))))))))))))))))))))))))))) :: ((Npos (XI
    (XI (XI (XO (XO (XI (XI (XO (XI (XO (XO (XO (XO (XO (XO (XO (XO (XO (XO
    (XO (XO (XO (XO (XO (XO (XO (XI (XO (XI (XI (XO
    XH)))))))))))))))))))))))))))))))) :: ((Npos (XO (XI (XI (XI (XI (XI (XI
    (XO (XO (XO (XO (XO (XO (XO (XO (XO (XO (XO (XO (XO (XO (XO (XO (XO (XO
    (XO (XI (XO (XO (XO (XO XH)))))))))))))))))))))))))))))))) :: ((Npos (XO
    (XI (XI (XI (XI (XI (XO (XO (XO (XO (XO (XO (XO (XO (XO (XO (XO (XO (XO
    (XO (XO (XO (XO (XO (XO (XO (XI (XO (XO (XO (XO
    XH)))))))))))))))))))))))))))))))) :: ((Npos (XI (XO (XI (XI (XI (XO (XI
    (XI (XO (XO (XO (XO (XO (XO (XO (XO (XO (XO (XO (XO (XO (XO (XO (XO (XO
    (XO (XI (XO (XI (XO (XO XH)))))))))))))))))))))))))))))))) :: ((Npos (XI
    (XI (XO (XI (XI (XO (XO (XO (XI (XO (XO (XO (XO (XO (XO (XO (XO (XO (XO
    (XO (XO (XO (XO (XO (XO (XO (XI (XO (XI (XO (XO
    XH)))))))))))))))))))))))))))))))) :: ((Npos (XO (XI (XI (XI (XO (XI (XI
    (XO (XO (XO (XO (XO (XO (XO (XO (XO (XO (XO (XO (XO (XO (XO (XO (XO (XO
    (XO (XI (XO (XO (XO (XO XH)))))))))))))))))))))))))))))))) :: ((Npos (XO
    (XI (XI (XI (XO (XI (XO (XO (XO (XO (XO (XO (XO (XO (XO (XO (XO (XO (XO
    (XO (XO (XO (XO (XO (XO (XO (XI (XO (XO (XO (XO
    XH)))))))))))))))))))))))))))))))) :: ((Npos (XI (XO (XI (XI (XI (XI (XO
    (XI (XO (XO (XO (XO (XO (XO (XO (XO (XO (XO (XO (XO (XO (XO (XO (XO (XO
    (XO (XI (XO (XI (XO (XO XH)))))))))))))))))))))))))))))))) :: ((Npos (XO
    (XI (XI (XI (XO (XO (XO (XO (XO (XO (XO (XO (XO (XO (XO (XO (XO (XO (XO
    (XO (XO (XO (XO (XO (XO (XO (XI (XO (XO (XO (XO
    XH)))))))))))))))))))))))))))))))) :: ((Npos (XO (XI (XI (XI (XO (XO (XO
    (XI (XO (XO (XO (XO (XO (XO (XO (XO (XO (XO (XO (XO (XO (XO (XO (XO (XO
    (XO (XI (XO (XO (XO (XO XH)))))))))))))))))))))))))))))))) :: ((Npos (XO
    (XI (XI (XI (XO (XO (XI (XO (XO (XO (XO (XO (XO (XO (XO (XO (XO (XO (XO
    (XO (XO (XO (XO (XO (XO (XO (XI (XO (XO (XO (XO
    XH)))))))))))))))))))))))))))))))) :: ((Npos (XI (XO (XI (XI (XI (XI (XI
    (XI (XO (XO (XO (XO (XO (XO (XO (XO (XO (XO (XO (XO (XO (XO (XO (XO (XO
    (XO (XI (XO (XI (XO (XO XH)))))))))))))))))))))))))))))))) :: ((Npos (XO
    (XO (XO (XO (XO (XO (XO (XO (XI (XO (XO (XO (XO (XO (XO (XO (XO (XO (XO
    (XO (XO (XO (XO (XO (XO (XO (XI (XO (XI (XI
    XH))))))))))))))))))))))))))))))) :: ((Npos (XI (XO (XO (XO (XI (XO (XI
    (XO (XO (XO (XO (XO (XO (XO (XO (XO (XO (XO (XO (XO (XO (XO (XO (XO (XO
    (XO (XI (XO (XO (XO (XO XH)))))))))))))))))))))))))))))))) :: ((Npos (XI
    (XO (XO (XO (XI (XO (XO (XO (XO (XO (XO (XO (XO (XO (XO (XO (XO (XO (XO
    (XO (XO (XO (XO (XO (XO (XO (XI (XO (XO (XO (XO
    XH)))))))))))))))))))))))))))))))) :: ((Npos (XO (XI (XI (XO (XI (XO (XO
    (XO (XO (XO (XO (XO (XO (XO (XO (XO (XO (XO (XO (XO (XO (XO (XO (XO (XO
    (XI (XI (XO (XI XH)))))))))))))))))))))))))))))) :: ((Npos (XO (XO (XO
    (XO (XO (XI (XO (XO (XI (XO (XO (XO (XO (XO (XO (XO (XO (XO (XO (XO (XO
    (XO (XO (XO (XO (XO (XI (XO (XI (XO (XO
    XH)))))))))))))))))))))))))))))))) :: ((Npos (XI (XO (XO (XO (XI (XI (XI
    (XO (XO (XO (XO (XO (XO (XO (XO (XO (XO (XO (XO (XO (XO (XO (XO (XO (XO
    (XO (XI (XO (XO (XO (XO XH)))))))))))))))))))))))))))))))) :: ((Npos (XI
    (XO (XO (XO (XI (XI (XO (XO (XO (XO (XO (XO (XO (XO (XO (XO (XO (XO (XO
    (XO (XO (XO (XO (XO (XO (XO (XI (XO (XO (XO (XO
    XH)))))))))))))))))))))))))))))))) :: ((Npos (XI (XI (XO (XO (XO (XO (XI
    (XI (XO (XO (XO (XO (XO (XO (XO (XO (XO (XO (XO (XO (XO (XO (XO (XO (XO
    (XO (XI (XO (XI (XO (XO XH)))))))))))))))))))))))))))))))) :: ((Npos (XO
    (XO (XO (XI (XO (XO (XO (XO (XI (XO (XO (XO (XO (XO (XO (XO (XO (XO (XO
    (XO (XO (XO (XO (XO (XO (XO (XI (XO (XI (XI
    XH))))))))))))))))))))))))))))))) :: ((Npos (XI (XO (XO (XO (XO (XI (XI
    (XO (XO (XO (XO (XO (XO (XO (XO (XO (XO (XO (XO (XO (XO (XO (XO (XO (XO
    (XO (XI (XO (XO (XO (XO XH)))))))))))))))))))))))))))))))) :: ((Npos (XI
    (XO (XO (XO (XO (XI (XO (XO (XO (XO (XO (XO (XO (XO (XO (XO (XO (XO (XO
    (XO (XO (XO (XO (XO (XO (XO (XI (XO (XO (XO (XO
    XH)))))))))))))))))))))))))))))))) :: ((Npos (XI (XI (XO (XO (XO (XI (XO
    (XI (XO (XO (XO (XO (XO (XO (XO (XO (XO (XO (XO (XO (XO (XO (XO (XO (XO
    (XO (XI (XO (XI (XO (XO XH)))))))))))))))))))))))))))))))) :: ((Npos (XI
    (XO (XO (XO (XO (XO (XO (XO (XO (XO (XO (XO (XO (XO (XO (XO (XO (XO (XO
    (XO (XO (XO (XO (XO (XO (XO (XI (XO (XO (XO (XO
    XH)))))))))))))))))))))))))))))))) :: ((Npos (XI (XO (XO (XO (XO (XO (XO
    (XI (XO (XO (XO (XO (XO (XO (XO (XO (XO (XO (XO (XO (XO (XO (XO (XO (XO
    (XO (XI (XO (XO (XO (XO XH)))))))))))))))))))))))))))))))) :: ((Npos (XI
    (XO (XO (XO (XO (XO (XI (XO (XO (XO (XO (XO (XO (XO (XO (XO (XO (XO (XO
    (XO (XO (XO (XO (XO (XO (XO (XI (XO (XO (XO (XO
    XH)))))))))))))))))))))))))))))))) :: ((Npos (XI (XI (XO (XO (XO (XI (XI
    (XI (XO (XO (XO (XO (XO (XO (XO (XO (XO (XO (XO (XO (XO (XO (XO (XO (XO
    (XO (XI (XO (XI (XO (XO XH)))))))))))))))))))))))))))))))) :: ((Npos (XO
    (XO (XI (XO (XO (XO (XO (XO (XI (XO (XO (XO (XO (XO (XO (XO (XO (XO (XO
    (XO (XO (XO (XO (XO (XO (XO (XI (XO (XI (XI
    XH))))))))))))))))))))))))))))))) :: ((Npos (XI (XO (XO (XI (XI (XO (XI
    (XO (XO (XO (XO (XO (XO (XO (XO (XO (XO (XO (XO (XO (XO (XO (XO (XO (XO
    (XO (XI (XO (XO (XO (XO XH)))))))))))))))))))))))))))))))) :: ((Npos (XI
    (XO (XO (XI (XI (XO (XO (XO (XO (XO (XO (XO (XO (XO (XO (XO (XO (XO (XO
    (XO (XO (XO (XO (XO (XO (XO (XI (XO (XO (XO (XO
    XH)))))))))))))))))))))))))))))))) :: ((Npos (XI (XI (XO (XO (XI (XO (XO
    (XI (XO (XO (XO (XO (XO (XO (XO (XO (XO (XO (XO (XO (XO (XO (XO (XO (XO
    (XO (XI (XO (XI (XO (XO XH)))))))))))))))))))))))))))))))) :: ((Npos (XO
    (XO (XO (XO (XO (XO (XI (XO (XI (XO (XO (XO (XO (XO (XO (XO (XO (XO (XO
    (XO (XO (XO (XO (XO (XO (XO (XI (XO (XO (XI (XO
    XH)))))))))))))))))))))))))))))))) :: ((Npos (XI (XO (XO (XI (XI (XI (XI
    (XO (XO (XO (XO (XO (XO (XO (XO (XO (XO (XO (XO (XO (XO (XO (XO (XO (XO
    (XO (XI (XO (XO (XO (XO XH)))))))))))))))))))))))))))))))) :: ((Npos (XI
    (XO (XO (XI (XI (XI (XO (XO (XO (XO (XO (XO (XO (XO (XO (XO (XO (XO (XO
    (XO (XO (XO (XO (XO (XO (XO (XI (XO (XO (XO (XO
    XH)))))))))))))))))))))))))))))))) :: ((Npos (XI (XI (XO (XO (XI (XO (XI
    (XI (XO (XO (XO (XO (XO (XO (XO (XO (XO (XO (XO (XO (XO (XO (XO (XO (XO
    (XO (XI (XO (XI (XO (XO XH)))))))))))))))))))))))))))))))) :: ((Npos (XO
    (XO (XO (XO (XI (XO (XO (XO (XI (XO (XO (XO (XO (XO (XO (XO (XO (XO (XO
    (XO (XO (XO (XO (XO (XO (XO (XI (XO (XO (XO (XO
    XH)))))))))))))))))))))))))))))))) :: ((Npos (XI (XO (XO (XI (XO (XI (XI
    (XO (XO (XO (XO (XO (XO (XO (XO (XO (XO (XO (XO (XO (XO (XO (XO (XO (XO
    (XO (XI (XO (XO (XO (XO XH)))))))))))))))))))))))))))))))) :: ((Npos (XI
    (XO (XO (XI (XO (XI (XO (XO (XO (XO (XO (XO (XO (XO (XO (XO (XO (XO (XO
    (XO (XO (XO (XO (XO (XO (XO (XI (XO (XO (XO (XO
    XH)))))))))))))))))))))))))))))))) :: ((Npos (XI (XI (XO (XO (XI (XI (XO
    (XI (XO (XO (XO (XO (XO (XO (XO (XO (XO (XO (XO (XO (XO (XO (XO (XO (XO
    (XO (XI (XO (XI (XO (XO XH)))))))))))))))))))))))))))))))) :: ((Npos (XI
    (XO (XO (XI (XO (XO (XO (XO (XO (XO (XO (XO (XO (XO (XO (XO (XO (XO (XO
    (XO (XO (XO (XO (XO (XO (XO (XI (XO (XO (XO (XO
    XH)))))))))))))))))))))))))))))))) :: ((Npos (XI (XO (XO (XI (XO (XO (XO
    (XI (XO (XO (XO (XO (XO (XO (XO (XO (XO (XO (XO (XO (XO (XO (XO (XO (XO
    (XO (XI (XO (XO (XO (XO XH)))))))))))))))))))))))))))))))) :: ((Npos (XI
    (XO (XO (XI (XO (XO (XI (XO (XO (XO (XO (XO (XO (XO (XO (XO (XO (XO (XO
    (XO (XO (XO (XO (XO (XO (XO (XI (XO (XO (XO (XO
    XH)))))))))))))))))))))))))))))))) :: ((Npos (XI (XI (XO (XO (XI (XI (XI
    (XI (XO (XO (XO (XO (XO (XO (XO (XO (XO (XO (XO (XO (XO (XO (XO (XO (XO
    (XO (XI (XO (XI (XO (XO XH)))))))))))))))))))))))))))))))) :: ((Npos (XO
    (XI (XO (XO (XO (XO (XO (XO (XI (XO (XO (XO (XO (XO (XO (XO (XO (XO (XO
    (XO (XO (XO (XO (XO (XO (XO (XI (XO (XI (XI
    XH))))))))))))))))))))))))))))))) :: ((Npos (XI (XO (XI (XO (XI (XO (XI
    (XO (XO (XO (XO (XO (XO (XO (XO (XO (XO (XO (XO (XO (XO (XO (XO (XO (XO
    (XO (XI (XO (XO (XO (XO XH)))))))))))))))))))))))))))))))) :: ((Npos (XI
    (XO (XI (XO (XI (XO (XO (XO (XO (XO (XO (XO (XO (XO (XO (XO (XO (XO (XO
    (XO (XO (XO (XO (XO (XO (XO (XI (XO (XO (XO (XO
    XH)))))))))))))))))))))))))))))))) :: ((Npos (XO (XO (XO (XO (XO (XO (XO
    (XO (XO (XI (XO (XO (XO (XO (XO (XO (XO (XO (XO (XO (XO (XO (XO (XO (XO
    (XO (XI (XO (XO (XO (XO XH)))))))))))))))))))))))))))))))) :: ((Npos (XO
    (XO (XO (XO (XI (XI (XO (XO (XI (XO (XO (XO (XO (XO (XO (XO (XO (XO (XO
    (XO (XO (XO (XO (XO (XO (XO (XI (XO (XO (XI (XO
    XH)))))))))))))))))))))))))))))))) :: ((Npos (XI (XO (XI (XO (XI (XI (XI
    (XO (XO (XO (XO (XO (XO (XO (XO (XO (XO (XO (XO (XO (XO (XO (XO (XO (XO
    (XO (XI (XO (XO (XO (XO XH)))))))))))))))))))))))))))))))) :: ((Npos (XI
    (XO (XI (XO (XI (XI (XO (XO (XO (XO (XO (XO (XO (XO (XO (XO (XO (XO (XO
    (XO (XO (XO (XO (XO (XO (XO (XI (XO (XO (XO (XO
    XH)))))))))))))))))))))))))))))))) :: ((Npos (XI (XI (XO (XI (XO (XO (XI
    (XI (XO (XO (XO (XO (XO (XO (XO (XO (XO (XO (XO (XO (XO (XO (XO (XO (XO
    (XO (XI (XO (XI (XO (XO XH)))))))))))))))))))))))))))))))) :: ((Npos (XO
    (XO (XI (XI (XO (XO (XO (XO (XI (XO (XO (XO (XO (XO (XO (XO (XO (XO (XO
    (XO (XO (XO (XO (XO (XO (XO (XI (XO (XO (XO (XO
    XH)))))))))))))))))))))))))))))))) :: ((Npos (XI (XO (XI (XO (XO (XI (XI
    (XO (XO (XO (XO (XO (XO (XO (XO (XO (XO (XO (XO (XO (XO (XO (XO (XO (XO
    (XO (XI (XO (XO (XO (XO XH)))))))))))))))))))))))))))))))) :: ((Npos (XI
    (XO (XI (XO (XO (XI (XO (XO (XO (XO (XO (XO (XO (XO (XO (XO (XO (XO (XO
    (XO (XO (XO (XO (XO (XO (XO (XI (XO (XO (XO (XO
    XH)))))))))))))))))))))))))))))))) :: ((Npos (XI (XI (XO (XI (XO (XI (XO
    (XI (XO (XO (XO (XO (XO (XO (XO (XO (XO (XO (XO (XO (XO (XO (XO (XO (XO
    (XO (XI (XO (XI (XO (XO XH)))))))))))))))))))))))))))))))) :: ((Npos (XI
    (XO (XI (XO (XO (XO (XO (XO (XO (XO (XO (XO (XO (XO (XO (XO (XO (XO (XO
    (XO (XO (XO (XO (XO (XO (XO (XI (XO (XO (XO (XO
    XH)))))))))))))))))))))))))))))))) :: ((Npos (XI (XO (XI (XO (XO (XO (XO
    (XI (XO (XO (XO (XO (XO (XO (XO (XO (XO (XO (XO (XO (XO (XO (XO (XO (XO
    (XO (XI (XO (XO (XO (XO XH)))))))))))))))))))))))))))))))) :: ((Npos (XI
    (XO (XI (XO (XO (XO (XI (XO (XO (XO (XO (XO (XO (XO (XO (XO (XO (XO (XO
    (XO (XO (XO (XO (XO (XO (XO (XI (XO (XO (XO (XO
    XH)))))))))))))))))))))))))))))))) :: ((Npos (XI (XI (XO (XI (XO (XI (XI
    (XI (XO (XO (XO (XO (XO (XO (XO (XO (XO (XO (XO (XO (XO (XO (XO (XO (XO
    (XO (XI (XO (XI (XO (XO XH)))))))))))))))))))))))))))))))) :: ((Npos (XO
    (XI (XI (XO (XO (XO (XO (XO (XI (XO (XO (XO (XO (XO (XO (XO (XO (XO (XO
    (XO (XO (XO (XO (XO (XO (XO (XI (XO (XI (XI
    XH))))))))))))))))))))))))))))))) :: ((Npos (XI (XO (XI (XI (XI (XO (XI
    (XO (XO (XO (XO (XO (XO (XO (XO (XO (XO (XO (XO (XO (XO (XO (XO (XO (XO
    (XO (XI (XO (XO (XO (XO XH)))))))))))))))))))))))))))))))) :: ((Npos (XI
    (XO (XI (XI (XI (XO (XO (XO (XO (XO (XO (XO (XO (XO (XO (XO (XO (XO (XO
    (XO (XO (XO (XO (XO (XO (XO (XI (XO (XO (XO (XO
    XH)))))))))))))))))))))))))))))))) :: ((Npos (XI (XI (XO (XI (XI (XO (XO
    (XI (XO (XO (XO (XO (XO (XO (XO (XO (XO (XO (XO (XO (XO (XO (XO (XO (XO
    (XO (XI (XO (XI (XO (XO XH)))))))))))))))))))))))))))))))) :: ((Npos (XO
    (XO (XO (XI (XI (XO (XI (XO (XI (XO (XO (XO (XO (XO (XO (XO (XO (XO (XO
    (XO (XO (XO (XO (XO (XO (XO (XI (XO (XI (XI (XO
    XH)))))))))))))))))))))))))))))))) :: ((Npos (XI (XO (XI (XI (XI (XI (XI
    (XO (XO (XO (XO (XO (XO (XO (XO (XO (XO (XO (XO (XO (XO (XO (XO (XO (XO
    (XO (XI (XO (XO (XO (XO XH)))))))))))))))))))))))))))))))) :: ((Npos (XI
    (XO (XI (XI (XI (XI (XO (XO (XO (XO (XO (XO (XO (XO (XO (XO (XO (XO (XO
    (XO (XO (XO (XO (XO (XO (XO (XI (XO (XO (XO (XO
    XH)))))))))))))))))))))))))))))))) :: ((Npos (XI (XI (XO (XI (XI (XO (XI
    (XI (XO (XO (XO (XO (XO (XO (XO (XO (XO (XO (XO (XO (XO (XO (XO (XO (XO
    (XO (XI (XO (XI (XO (XO XH)))))))))))))))))))))))))))))))) :: ((Npos (XO
    (XO (XO (XI (XI (XO (XO (XO (XI (XO (XO (XO (XO (XO (XO (XO (XO (XO (XO
    (XO (XO (XO (XO (XO (XO (XO (XI (XO (XI (XO (XO
    XH)))))))))))))))))))))))))))))))) :: ((Npos (XI (XO (XI (XI (XO (XI (XI
    (XO (XO (XO (XO (XO (XO (XO (XO (XO (XO (XO (XO (XO (XO (XO (XO (XO (XO
    (XO (XI (XO (XO (XO (XO XH)))))))))))))))))))))))))))))))) :: ((Npos (XI
    (XO (XI (XI (XO (XI (XO (XO (XO (XO (XO (XO (XO (XO (XO (XO (XO (XO (XO
    (XO (XO (XO (XO (XO (XO (XO (XI (XO (XO (XO (XO
    XH)))))))))))))))))))))))))))))))) :: ((Npos (XI (XI (XO (XI (XI (XI (XO
    (XI (XO (XO (XO (XO (XO (XO (XO (XO (XO (XO (XO (XO (XO (XO (XO (XO (XO
    (XO (XI (XO (XI (XO (XO XH)))))))))))))))))))))))))))))))) :: ((Npos (XI
    (XO (XI (XI (XO (XO (XO (XO (XO (XO (XO (XO (XO (XO (XO (XO (XO (XO (XO
    (XO (XO (XO (XO (XO (XO (XO (XI (XO (XO (XO (XO
    XH)))))))))))))))))))))))))))))))) :: ((Npos (XI (XO (XI (XI (XO (XO (XO
    (XI (XO (XO (XO (XO (XO (XO (XO (XO (XO (XO (XO (XO (XO (XO (XO (XO (XO
    (XO (XI (XO (XO (XO (XO XH)))))))))))))))))))))))))))))))) :: ((Npos (XI
    (XO (XI (XI (XO (XO (XI (XO (XO (XO (XO (XO (XO (XO (XO (XO (XO (XO (XO
    (XO (XO (XO (XO (XO (XO (XO (XI (XO (XO (XO (XO
    XH)))))))))))))))))))))))))))))))) :: ((Npos (XI (XI (XO (XI (XI (XI (XI
    (XI (XO (XO (XO (XO (XO (XO (XO (XO (XO (XO (XO (XO (XO (XO (XO (XO (XO
    (XO (XI (XO (XI (XO (XO XH)))))))))))))))))))))))))))))))) :: ((Npos (XI
    (XO (XO (XO (XO (XO (XO (XO (XI (XO (XO (XO (XO (XO (XO (XO (XO (XO (XO
    (XO (XO (XO (XO (XO (XO (XO (XI (XO (XI (XI
    XH))))))))))))))))))))))))))))))) :: ((Npos (XI (XI (XO (XO (XI (XO (XI
    (XO (XO (XO (XO (XO (XO (XO (XO (XO (XO (XO (XO (XO (XO (XO (XO (XO (XO
    (XO (XI (XO (XO (XO (XO XH)))))))))))))))))))))))))))))))) :: ((Npos (XI
    (XI (XO (XO (XI (XO (XO (XO (XO (XO (XO (XO (XO (XO (XO (XO (XO (XO (XO
    (XO (XO (XO (XO (XO (XO (XO (XI (XO (XO (XO (XO
    XH)))))))))))))))))))))))))))))))) :: ((Npos (XO (XI (XI (XO (XI (XO (XI
    (XO (XO (XO (XO (XO (XO (XO (XO (XO (XO (XO (XO (XO (XO (XO (XO (XO (XO
    (XI (XI (XO (XI XH)))))))))))))))))))))))))))))) :: ((Npos (XO (XO (XO
    (XI (XO (XI (XO (XO (XI (XO (XO (XO (XO (XO (XO (XO (XO (XO (XO (XO (XO
    (XO (XO (XO (XO (XO (XI (XO (XO (XI (XO
    XH)))))))))))))))))))))))))))))))) :: ((Npos (XI (XI (XO (XO (XI (XI (XI
    (XO (XO (XO (XO (XO (XO (XO (XO (XO (XO (XO (XO (XO (XO (XO (XO (XO (XO
    (XO (XI (XO (XO (XO (XO XH)))))))))))))))))))))))))))))))) :: ((Npos (XI
    (XI (XO (XO (XI (XI (XO (XO (XO (XO (XO (XO (XO (XO (XO (XO (XO (XO (XO
    (XO (XO (XO (XO (XO (XO (XO (XI (XO (XO (XO (XO
    XH)))))))))))))))))))))))))))))))) :: ((Npos (XI (XI (XI (XO (XO (XO (XI
    (XI (XO (XO (XO (XO (XO (XO (XO (XO (XO (XO (XO (XO (XO (XO (XO (XO (XO
    (XO (XI (XO (XI (XO (XO XH)))))))))))))))))))))))))))))))) :: ((Npos (XO
    (XI (XO (XI (XO (XO (XO (XO (XI (XO (XO (XO (XO (XO (XO (XO (XO (XO (XO
    (XO (XO (XO (XO (XO (XO (XO (XI (XO (XO (XO (XO
    XH)))))))))))))))))))))))))))))))) :: ((Npos (XI (XI (XO (XO (XO (XI (XI
    (XO (XO (XO (XO (XO (XO (XO (XO (XO (XO (XO (XO (XO (XO (XO (XO (XO (XO
    (XO (XI (XO (XO (XO (XO XH)))))))))))))))))))))))))))))))) :: ((Npos (XI
    (XI (XO (XO (XO (XI (XO (XO (XO (XO (XO (XO (XO (XO (XO (XO (XO (XO (XO
    (XO (XO (XO (XO (XO (XO (XO (XI (XO (XO (XO (XO
    XH)))))))))))))))))))))))))))))))) :: ((Npos (XI (XI (XI (XO (XO (XI (XO
    (XI (XO (XO (XO (XO (XO (XO (XO (XO (XO (XO (XO (XO (XO (XO (XO (XO (XO
    (XO (XI (XO (XI (XO (XO XH)))))))))))))))))))))))))))))))) :: ((Npos (XI
    (XI (XO (XO (XO (XO (XO (XO (XO (XO (XO (XO (XO (XO (XO (XO (XO (XO (XO
    (XO (XO (XO (XO (XO (XO (XO (XI (XO (XO (XO (XO
    XH)))))))))))))))))))))))))))))))) :: ((Npos (XI (XI (XO (XO (XO (XO (XO
    (XI (XO (XO (XO (XO (XO (XO (XO (XO (XO (XO (XO (XO (XO (XO (XO (XO (XO
    (XO (XI (XO (XO (XO (XO XH)))))))))))))))))))))))))))))))) :: ((Npos (XI
    (XI (XO (XO (XO (XO (XI (XO (XO (XO (XO (XO (XO (XO (XO (XO (XO (XO (XO
    (XO (XO (XO (XO (XO (XO (XO (XI (XO (XO (XO (XO
    XH)))))))))))))))))))))))))))))))) :: ((Npos (XI (XI (XI (XO (XO (XI (XI
    (XI (XO (XO (XO (XO (XO (XO (XO (XO (XO (XO (XO (XO (XO (XO (XO (XO (XO
    (XO (XI (XO (XI (XO (XO XH)))))))))))))))))))))))))))))))) :: ((Npos (XI
    (XO (XI (XO (XO (XO (XO (XO (XI (XO (XO (XO (XO (XO (XO (XO (XO (XO (XO
    (XO (XO (XO (XO (XO (XO (XO (XI (XO (XI (XI
    XH))))))))))))))))))))))))))))))) :: ((Npos (XI (XI (XO (XI (XI (XO (XI
    (XO (XO (XO (XO (XO (XO (XO (XO (XO (XO (XO (XO (XO (XO (XO (XO (XO (XO
    (XO (XI (XO (XO (XO (XO XH)))))))))))))))))))))))))))))))) :: ((Npos (XI
    (XI (XO (XI (XI (XO (XO (XO (XO (XO (XO (XO (XO (XO (XO (XO (XO (XO (XO
    (XO (XO (XO (XO (XO (XO (XO (XI (XO (XO (XO (XO
    XH)))))))))))))))))))))))))))))))) :: ((Npos (XI (XI (XI (XO (XI (XO (XO
    (XI (XO (XO (XO (XO (XO (XO (XO (XO (XO (XO (XO (XO (XO (XO (XO (XO (XO
    (XO (XI (XO (XI (XO (XO XH)))))))))))))))))))))))))))))))) :: ((Npos (XO
    (XO (XO (XI (XO (XO (XI (XO (XI (XO (XO (XO (XO (XO (XO (XO (XO (XO (XO
    (XO (XO (XO (XO (XO (XO (XO (XI (XO (XI (XI (XO
    XH)))))))))))))))))))))))))))))))) :: ((Npos (XI (XI (XO (XI (XI (XI (XI
    (XO (XO (XO (XO (XO (XO (XO (XO (XO (XO (XO (XO (XO (XO (XO (XO (XO (XO
    (XO (XI (XO (XO (XO (XO XH)))))))))))))))))))))))))))))))) :: ((Npos (XI
    (XI (XO (XI (XI (XI (XO (XO (XO (XO (XO (XO (XO (XO (XO (XO (XO (XO (XO
    (XO (XO (XO (XO (XO (XO (XO (XI (XO (XO (XO (XO
    XH)))))))))))))))))))))))))))))))) :: ((Npos (XI (XI (XI (XO (XI (XO (XI
    (XI (XO (XO (XO (XO (XO (XO (XO (XO (XO (XO (XO (XO (XO (XO (XO (XO (XO
    (XO (XI (XO (XI (XO (XO XH)))))))))))))))))))))))))))))))) :: ((Npos (XO
    (XO (XI (XO (XI (XO (XO (XO (XI (XO (XO (XO (XO (XO (XO (XO (XO (XO (XO
    (XO (XO (XO (XO (XO (XO (XO (XI (XO (XI (XO (XO
    XH)))))))))))))))))))))))))))))))) :: ((Npos (XI (XI (XO (XI (XO (XI (XI
    (XO (XO (XO (XO (XO (XO (XO (XO (XO (XO (XO (XO (XO (XO (XO (XO (XO (XO
    (XO (XI (XO (XO (XO (XO XH)))))))))))))))))))))))))))))))) :: ((Npos (XI
    (XI (XO (XI (XO (XI (XO (XO (XO (XO (XO (XO (XO (XO (XO (XO (XO (XO (XO
    (XO (XO (XO (XO (XO (XO (XO (XI (XO (XO (XO (XO
    XH)))))))))))))))))))))))))))))))) :: ((Npos (XI (XI (XI (XO (XI (XI (XO
    (XI (XO (XO (XO (XO (XO (XO (XO (XO (XO (XO (XO (XO (XO (XO (XO (XO (XO
    (XO (XI (XO (XI (XO (XO XH)))))))))))))))))))))))))))))))) :: ((Npos (XI
    (XI (XO (XI (XO (XO (XO (XO (XO (XO (XO (XO (XO (XO (XO (XO (XO (XO (XO
    (XO (XO (XO (XO (XO (XO (XO (XI (XO (XO (XO (XO
    XH)))))))))))))))))))))))))))))))) :: ((Npos (XI (XI (XO (XI (XO (XO (XO
    (XI (XO (XO (XO (XO (XO (XO (XO (XO (XO (XO (XO (XO (XO (XO (XO (XO (XO
    (XO (XI (XO (XO (XO (XO XH)))))))))))))))))))))))))))))))) :: ((Npos (XI
    (XI (XO (XI (XO (XO (XI (XO (XO (XO (XO (XO (XO (XO (XO (XO (XO (XO (XO
    (XO (XO (XO (XO (XO (XO (XO (XI (XO (XO (XO (XO
    XH)))))))))))))))))))))))))))))))) :: ((Npos (XI (XI (XI (XO (XI (XI (XI
    (XI (XO (XO (XO (XO (XO (XO (XO (XO (XO (XO (XO (XO (XO (XO (XO (XO (XO
    (XO (XI (XO (XI (XO (XO XH)))))))))))))))))))))))))))))))) :: ((Npos (XI
    (XI (XO (XO (XO (XO (XO (XO (XI (XO (XO (XO (XO (XO (XO (XO (XO (XO (XO
    (XO (XO (XO (XO (XO (XO (XO (XI (XO (XI (XI
    XH))))))))))))))))))))))))))))))) :: ((Npos (XI (XI (XI (XO (XI (XO (XI
    (XO (XO (XO (XO (XO (XO (XO (XO (XO (XO (XO (XO (XO (XO (XO (XO (XO (XO
    (XO (XI (XO (XO (XO (XO XH)))))))))))))))))))))))))))))))) :: ((Npos (XI
    (XI (XI (XO (XI (XO (XO (XO (XO (XO (XO (XO (XO (XO (XO (XO (XO (XO (XO
    (XO (XO (XO (XO (XO (XO (XO (XI (XO (XO (XO (XO
    XH)))))))))))))))))))))))))))))))) :: (N0 :: ((Npos (XO (XO (XO (XI (XI
    (XI (XO (XO (XI (XO (XO (XO (XO (XO (XO (XO (XO (XO (XO (XO (XO (XO (XO
    (XO (XO (XO (XI (XO (XO (XI (XO
    XH)))))))))))))))))))))))))))))))) :: ((Npos (XI (XI (XI (XO (XI (XI (XI
    (XO (XO (XO (XO (XO (XO (XO (XO (XO (XO (XO (XO (XO (XO (XO (XO (XO (XO
    (XO (XI (XO (XO (XO (XO XH)))))))))))))))))))))))))))))))) :: ((Npos (XI
    (XI (XI (XO (XI (XI (XO (XO (XO (XO (XO (XO (XO (XO (XO (XO (XO (XO (XO
    (XO (XO (XO (XO (XO (XO (XO (XI (XO (XO (XO (XO
    XH)))))))))))))))))))))))))))))))) :: ((Npos (XI (XI (XI (XI (XO (XO (XI
    (XI (XO (XO (XO (XO (XO (XO (XO (XO (XO (XO (XO (XO (XO (XO (XO (XO (XO
    (XO (XI (XO (XI (XO (XO XH)))))))))))))))))))))))))))))))) :: ((Npos (XO
    (XI (XI (XI (XO (XO (XO (XO (XI (XO (XO (XO (XO (XO (XO (XO (XO (XO (XO
    (XO (XO (XO (XO (XO (XO (XO (XI (XO (XO (XO (XO
    XH)))))))))))))))))))))))))))))))) :: ((Npos (XI (XI (XI (XO (XO (XI (XI
    (XO (XO (XO (XO (XO (XO (XO (XO (XO (XO (XO (XO (XO (XO (XO (XO (XO (XO
    (XO (XI (XO (XO (XO (XO XH)))))))))))))))))))))))))))))))) :: ((Npos (XI
    (XI (XI (XO (XO (XI (XO (XO (XO (XO (XO (XO (XO (XO (XO (XO (XO (XO (XO
    (XO (XO (XO (XO (XO (XO (XO (XI (XO (XO (XO (XO
    XH)))))))))))))))))))))))))))))))) :: ((Npos (XI (XI (XI (XI (XO (XI (XO
    (XI (XO (XO (XO (XO (XO (XO (XO (XO (XO (XO (XO (XO (XO (XO (XO (XO (XO
    (XO (XI (XO (XI (XO (XO XH)))))))))))))))))))))))))))))))) :: ((Npos (XI
    (XI (XI (XO (XO (XO (XO (XO (XO (XO (XO (XO (XO (XO (XO (XO (XO (XO (XO
    (XO (XO (XO (XO (XO (XO (XO (XI (XO (XO (XO (XO
    XH)))))))))))))))))))))))))))))))) :: ((Npos (XI (XI (XI (XO (XO (XO (XO
    (XI (XO (XO (XO (XO (XO (XO (XO (XO (XO (XO (XO (XO (XO (XO (XO (XO (XO
    (XO (XI (XO (XO (XO (XO XH)))))))))))))))))))))))))))))))) :: ((Npos (XI
    (XI (XI (XO (XO (XO (XI (XO (XO (XO (XO (XO (XO (XO (XO (XO (XO (XO (XO
    (XO (XO (XO (XO (XO (XO (XO (XI (XO (XO (XO (XO
    XH)))))))))))))))))))))))))))))))) :: ((Npos (XI (XI (XI (XI (XO (XI (XI
    (XI (XO (XO (XO (XO (XO (XO (XO (XO (XO (XO (XO (XO (XO (XO (XO (XO (XO
    (XO (XI (XO (XI (XO (XO XH)))))))))))))))))))))))))))))))) :: ((Npos (XI
    (XI (XI (XO (XO (XO (XO (XO (XI (XO (XO (XO (XO (XO (XO (XO (XO (XO (XO
    (XO (XO (XO (XO (XO (XO (XO (XI (XO (XI (XI
    XH))))))))))))))))))))))))))))))) :: ((Npos (XI (XI (XI (XI (XI (XO (XI
    (XO (XO (XO (XO (XO (XO (XO (XO (XO (XO (XO (XO (XO (XO (XO (XO (XO (XO
    (XO (XI (XO (XO (XO (XO XH)))))))))))))))))))))))))))))))) :: ((Npos (XI
    (XI (XI (XI (XI (XO (XO (XO (XO (XO (XO (XO (XO (XO (XO (XO (XO (XO (XO
    (XO (XO (XO (XO (XO (XO (XO (XI (XO (XO (XO (XO
    XH)))))))))))))))))))))))))))))))) :: ((Npos (XI (XI (XI (XI (XI (XO (XO
    (XI (XO (XO (XO (XO (XO (XO (XO (XO (XO (XO (XO (XO (XO (XO (XO (XO (XO
    (XO (XI (XO (XI (XO (XO XH)))))))))))))))))))))))))))))))) :: ((Npos (XO
    (XO (XO (XI (XO (XI (XI (XO (XI (XO (XO (XO (XO (XO (XO (XO (XO (XO (XO
    (XO (XO (XO (XO (XO (XO (XO (XI (XO (XI (XI (XO
    XH)))))))))))))))))))))))))))))))) :: ((Npos (XI (XI (XI (XI (XI (XI (XI
    (XO (XO (XO (XO (XO (XO (XO (XO (XO (XO (XO (XO (XO (XO (XO (XO (XO (XO
    (XO (XI (XO (XO (XO (XO XH)))))))))))))))))))))))))))))))) :: ((Npos (XI
    (XI (XI (XI (XI (XI (XO (XO (XO (XO (XO (XO (XO (XO (XO (XO (XO (XO (XO
    (XO (XO (XO (XO (XO (XO (XO (XI (XO (XO (XO (XO
    XH)))))))))))))))))))))))))))))))) :: ((Npos (XI (XI (XI (XI (XI (XO (XI
    (XI (XO (XO (XO (XO (XO (XO (XO (XO (XO (XO (XO (XO (XO (XO (XO (XO (XO
    (XO (XI (XO (XI (XO (XO XH)))))))))))))))))))))))))))))))) :: ((Npos (XO
    (XO (XI (XI (XI (XO (XO (XO (XI (XO (XO (XO (XO (XO (XO (XO (XO (XO (XO
    (XO (XO (XO (XO (XO (XO (XO (XI (XO (XI (XO (XO
    XH)))))))))))))))))))))))))))))))) :: ((Npos (XI (XI (XI (XI (XO (XI (XI
    (XO (XO (XO (XO (XO (XO (XO (XO (XO (XO (XO (XO (XO (XO (XO (XO (XO (XO
    (XO (XI (XO (XO (XO (XO XH)))))))))))))))))))))))))))))))) :: ((Npos (XI
    (XI (XI (XI (XO (XI (XO (XO (XO (XO (XO (XO (XO (XO (XO (XO (XO (XO (XO
    (XO (XO (XO (XO (XO (XO (XO (XI (XO (XO (XO (XO
    XH)))))))))))))))))))))))))))))))) :: ((Npos (XI (XI (XI (XI (XI (XI (XO
    (XI (XO (XO (XO (XO (XO (XO (XO (XO (XO (XO (XO (XO (XO (XO (XO (XO (XO
    (XO (XI (XO (XI (XO (XO XH)))))))))))))))))))))))))))))))) :: ((Npos (XI
    (XI (XI (XI (XO (XO (XO (XO (XO (XO (XO (XO (XO (XO (XO (XO (XO (XO (XO
    (XO (XO (XO (XO (XO (XO (XO (XI (XO (XO (XO (XO
    XH)))))))))))))))))))))))))))))))) :: ((Npos (XI (XI (XI (XI (XO (XO (XO
    (XI (XO (XO (XO (XO (XO (XO (XO (XO (XO (XO (XO (XO (XO (XO (XO (XO (XO
    (XO (XI (XO (XO (XO (XO XH)))))))))))))))))))))))))))))))) :: ((Npos (XI
    (XI (XI (XI (XO (XO (XI (XO (XO (XO (XO (XO (XO (XO (XO (XO (XO (XO (XO
    (XO (XO (XO (XO (XO (XO (XO (XI (XO (XO (XO (XO
    XH)))))))))))))))))))))))))))))))) :: ((Npos (XI (XI (XI (XI (XI (XI (XI
    (XI (XO (XO (XO (XO (XO (XO (XO (XO (XO (XO (XO (XO (XO (XO (XO (XO (XO
    (XO (XI (XO (XI (XO (XO XH)))))))))))))))))))))))))))))))) :: ((Npos (XO
    (XO (XO (XO (XO (XO (XO (XO (XI (XO (XO (XO (XO (XO (XO (XO (XO (XO (XO
    (XO (XO (XO (XO (XO (XO (XO (XI (XO (XI (XI
    XH))))))))))))))))))))))))))))))) :: ((Npos (XO (XO (XO (XO (XI (XO (XI
    (XO (XO (XO (XO (XO (XO (XO (XO (XO (XO (XO (XO (XO (XO (XO (XO (XO (XO
    (XO (XI (XO (XO (XO (XO XH)))))))))))))))))))))))))))))))) :: ((Npos (XO
    (XO (XO (XO (XI (XO (XO (XO (XO (XO (XO (XO (XO (XO (XO (XO (XO (XO (XO
    (XO (XO (XO (XO (XO (XO (XO (XI (XO (XO (XO (XO
    XH)))))))))))))))))))))))))))))))) :: ((Npos (XI (XO (XI (XI (XI (XI (XI
    (XO (XI (XO (XO (XO (XO (XO (XO (XO (XO (XO (XO (XO (XO (XO (XO (XO (XO
    (XO (XI (XO (XO (XO (XI XH)))))))))))))))))))))))))))))))) :: ((Npos (XI
    (XO (XI (XI (XI (XO (XO (XO (XI (XO (XO (XO (XO (XO (XO (XO (XO (XO (XO
    (XO (XO (XO (XO (XO (XO (XO (XI (XO (XI (XO (XO
    XH)))))))))))))))))))))))))))))))) :: ((Npos (XO (XO (XO (XO (XI (XI (XI
    (XO (XO (XO (XO (XO (XO (XO (XO (XO (XO (XO (XO (XO (XO (XO (XO (XO (XO
    (XO (XI (XO (XO (XO (XO XH)))))))))))))))))))))))))))))))) :: ((Npos (XO
    (XO (XO (XO (XI (XI (XO (XO (XO (XO (XO (XO (XO (XO (XO (XO (XO (XO (XO
    (XO (XO (XO (XO (XO (XO (XO (XI (XO (XO (XO (XO
    XH)))))))))))))))))))))))))))))))) :: ((Npos (XO (XO (XO (XO (XO (XO (XI
    (XI (XO (XO (XO (XO (XO (XO (XO (XO (XO (XO (XO (XO (XO (XO (XO (XO (XO
    (XO (XI (XO (XI (XO (XO XH)))))))))))))))))))))))))))))))) :: ((Npos (XO
    (XO (XO (XI (XO (XO (XO (XO (XI (XO (XO (XO (XO (XO (XO (XO (XO (XO (XO
    (XO (XO (XO (XO (XO (XO (XO (XI (XO (XI (XI
    XH))))))))))))))))))))))))))))))) :: ((Npos (XO (XO (XO (XO (XO (XI (XI
    (XO (XO (XO (XO (XO (XO (XO (XO (XO (XO (XO (XO (XO (XO (XO (XO (XO (XO
    (XO (XI (XO (XO (XO (XO XH)))))))))))))))))))))))))))))))) :: ((Npos (XO
    (XO (XO (XO (XO (XI (XO (XO (XO (XO (XO (XO (XO (XO (XO (XO (XO (XO (XO
    (XO (XO (XO (XO (XO (XO (XO (XI (XO (XO (XO (XO
    XH)))))))))))))))))))))))))))))))) :: ((Npos (XO (XO (XO (XO (XO (XI (XO
    (XI (XO (XO (XO (XO (XO (XO (XO (XO (XO (XO (XO (XO (XO (XO (XO (XO (XO
    (XO (XI (XO (XI (XO (XO XH)))))))))))))))))))))))))))))))) :: ((Npos (XO
    (XO (XO (XO (XO (XO (XO (XO (XO (XO (XO (XO (XO (XO (XO (XO (XO (XO (XO
    (XO (XO (XO (XO (XO (XO (XO (XI (XO (XO (XO (XO
    XH)))))))))))))))))))))))))))))))) :: ((Npos (XO (XO (XO (XO (XO (XO (XO
    (XI (XO (XO (XO (XO (XO (XO (XO (XO (XO (XO (XO (XO (XO (XO (XO (XO (XO
    (XO (XI (XO (XO (XO (XO XH)))))))))))))))))))))))))))))))) :: ((Npos (XO
    (XO (XO (XO (XO (XO (XI (XO (XO (XO (XO (XO (XO (XO (XO (XO (XO (XO (XO
    (XO (XO (XO (XO (XO (XO (XO (XI (XO (XO (XO (XO
    XH)))))))))))))))))))))))))))))))) :: ((Npos (XO (XO (XO (XO (XO (XI (XI
    (XI (XO (XO (XO (XO (XO (XO (XO (XO (XO (XO (XO (XO (XO (XO (XO (XO (XO
    (XO (XI (XO (XI (XO (XO XH)))))))))))))))))))))))))))))))) :: ((Npos (XO
    (XO (XI (XO (XO (XO (XO (XO (XI (XO (XO (XO (XO (XO (XO (XO (XO (XO (XO
    (XO (XO (XO (XO (XO (XO (XO (XI (XO (XI (XI
    XH))))))))))))))))))))))))))))))) :: ((Npos (XO (XO (XO (XI (XI (XO (XI
    (XO (XO (XO (XO (XO (XO (XO (XO (XO (XO (XO (XO (XO (XO (XO (XO (XO (XO
    (XO (XI (XO (XO (XO (XO XH)))))))))))))))))))))))))))))))) :: ((Npos (XO
    (XO (XO (XI (XI (XO (XO (XO (XO (XO (XO (XO (XO (XO (XO (XO (XO (XO (XO
    (XO (XO (XO (XO (XO (XO (XO (XI (XO (XO (XO (XO
    XH)))))))))))))))))))))))))))))))) :: ((Npos (XO (XO (XO (XO (XI (XO (XO
    (XI (XO (XO (XO (XO (XO (XO (XO (XO (XO (XO (XO (XO (XO (XO (XO (XO (XO
    (XO (XI (XO (XI (XO (XO XH)))))))))))))))))))))))))))))))) :: ((Npos (XI
    (XO (XO (XI (XI (XI (XO (XO (XI (XO (XO (XO (XO (XO (XO (XO (XO (XO (XO
    (XO (XO (XO (XO (XO (XO (XO (XI (XO (XO (XI (XO
    XH)))))))))))))))))))))))))))))))) :: ((Npos (XO (XO (XO (XI (XI (XI (XI
    (XO (XO (XO (XO (XO (XO (XO (XO (XO (XO (XO (XO (XO (XO (XO (XO (XO (XO
    (XO (XI (XO (XO (XO (XO XH)))))))))))))))))))))))))))))))) :: ((Npos (XO
    (XO (XO (XI (XI (XI (XO (XO (XO (XO (XO (XO (XO (XO (XO (XO (XO (XO (XO
    (XO (XO (XO (XO (XO (XO (XO (XI (XO (XO (XO (XO
    XH)))))))))))))))))))))))))))))))) :: ((Npos (XO (XO (XO (XO (XI (XO (XI
    (XI (XO (XO (XO (XO (XO (XO (XO (XO (XO (XO (XO (XO (XO (XO (XO (XO (XO
    (XO (XI (XO (XI (XO (XO XH)))))))))))))))))))))))))))))))) :: ((Npos (XI
    (XI (XI (XI (XO (XO (XO (XO (XI (XO (XO (XO (XO (XO (XO (XO (XO (XO (XO
    (XO (XO (XO (XO (XO (XO (XO (XI (XO (XO (XO (XO
    XH)))))))))))))))))))))))))))))))) :: ((Npos (XO (XO (XO (XI (XO (XI (XI
    (XO (XO (XO (XO (XO (XO (XO (XO (XO (XO (XO (XO (XO (XO (XO (XO (XO (XO
    (XO (XI (XO (XO (XO (XO XH)))))))))))))))))))))))))))))))) :: ((Npos (XO
    (XO (XO (XI (XO (XI (XO (XO (XO (XO (XO (XO (XO (XO (XO (XO (XO (XO (XO
    (XO (XO (XO (XO (XO (XO (XO (XI (XO (XO (XO (XO
    XH)))))))))))))))))))))))))))))))) :: ((Npos (XO (XO (XO (XO (XI (XI (XO
    (XI (XO (XO (XO (XO (XO (XO (XO (XO (XO (XO (XO (XO (XO (XO (XO (XO (XO
    (XO (XI (XO (XI (XO (XO XH)))))))))))))))))))))))))))))))) :: ((Npos (XO
    (XO (XO (XI (XO (XO (XO (XO (XO (XO (XO (XO (XO (XO (XO (XO (XO (XO (XO
    (XO (XO (XO (XO (XO (XO (XO (XI (XO (XO (XO (XO
    XH)))))))))))))))))))))))))))))))) :: ((Npos (XO (XO (XO (XI (XO (XO (XO
    (XI (XO (XO (XO (XO (XO (XO (XO (XO (XO (XO (XO (XO (XO (XO (XO (XO (XO
    (XO (XI (XO (XO (XO (XO XH)))))))))))))))))))))))))))))))) :: ((Npos (XO
    (XO (XO (XI (XO (XO (XI (XO (XO (XO (XO (XO (XO (XO (XO (XO (XO (XO (XO
    (XO (XO (XO (XO (XO (XO (XO (XI (XO (XO (XO (XO
    XH)))))))))))))))))))))))))))))))) :: ((Npos (XO (XO (XO (XO (XI (XI (XI
    (XI (XO (XO (XO (XO (XO (XO (XO (XO (XO (XO (XO (XO (XO (XO (XO (XO (XO
    (XO (XI (XO (XI (XO (XO XH)))))))))))))))))))))))))))))))) :: ((Npos (XO
    (XI (XO (XO (XO (XO (XO (XO (XI (XO (XO (XO (XO (XO (XO (XO (XO (XO (XO
    (XO (XO (XO (XO (XO (XO (XO (XI (XO (XI (XI
    XH))))))))))))))))))))))))))))))) :: ((Npos (XO (XO (XI (XO (XI (XO (XI
    (XO (XO (XO (XO (XO (XO (XO (XO (XO (XO (XO (XO (XO (XO (XO (XO (XO (XO
    (XO (XI (XO (XO (XO (XO XH)))))))))))))))))))))))))))))))) :: ((Npos (XO
    (XO (XI (XO (XI (XO (XO (XO (XO (XO (XO (XO (XO (XO (XO (XO (XO (XO (XO
    (XO (XO (XO (XO (XO (XO (XO (XI (XO (XO (XO (XO
    XH)))))))))))))))))))))))))))))))) :: ((Npos (XO (XO (XO (XI (XI (XI (XI
    (XO (XO (XO (XO (XO (XO (XO (XO (XO (XO (XO (XO (XO (XO (XO (XO (XO (XO
    (XI (XI (XO (XI XH)))))))))))))))))))))))))))))) :: ((Npos (XI (XO (XO
    (XI (XO (XI (XO (XO (XI (XO (XO (XO (XO (XO (XO (XO (XO (XO (XO (XO (XO
    (XO (XO (XO (XO (XO (XI (XO (XO (XI (XO
    XH)))))))))))))))))))))))))))))))) :: ((Npos (XO (XO (XI (XO (XI (XI (XI
    (XO (XO (XO (XO (XO (XO (XO (XO (XO (XO (XO (XO (XO (XO (XO (XO (XO (XO
    (XO (XI (XO (XO (XO (XO XH)))))))))))))))))))))))))))))))) :: ((Npos (XO
    (XO (XI (XO (XI (XI (XO (XO (XO (XO (XO (XO (XO (XO (XO (XO (XO (XO (XO
    (XO (XO (XO (XO (XO (XO (XO (XI (XO (XO (XO (XO
    XH)))))))))))))))))))))))))))))))) :: ((Npos (XO (XO (XO (XI (XO (XO (XI
    (XI (XO (XO (XO (XO (XO (XO (XO (XO (XO (XO (XO (XO (XO (XO (XO (XO (XO
    (XO (XI (XO (XI (XO (XO XH)))))))))))))))))))))))))))))))) :: ((Npos (XI
    (XI (XO (XI (XO (XO (XO (XO (XI (XO (XO (XO (XO (XO (XO (XO (XO (XO (XO
    (XO (XO (XO (XO (XO (XO (XO (XI (XO (XO (XO (XO
    XH)))))))))))))))))))))))))))))))) :: ((Npos (XO (XO (XI (XO (XO (XI (XI
    (XO (XO (XO (XO (XO (XO (XO (XO (XO (XO (XO (XO (XO (XO (XO (XO (XO (XO
    (XO (XI (XO (XO (XO (XO XH)))))))))))))))))))))))))))))))) :: ((Npos (XO
    (XO (XI (XO (XO (XI (XO (XO (XO (XO (XO (XO (XO (XO (XO (XO (XO (XO (XO
    (XO (XO (XO (XO (XO (XO (XO (XI (XO (XO (XO (XO
    XH)))))))))))))))))))))))))))))))) :: ((Npos (XO (XO (XO (XI (XO (XI (XO
    (XI (XO (XO (XO (XO (XO (XO (XO (XO (XO (XO (XO (XO (XO (XO (XO (XO (XO
    (XO (XI (XO (XI (XO (XO XH)))))))))))))))))))))))))))))))) :: ((Npos (XO
    (XO (XI (XO (XO (XO (XO (XO (XO (XO (XO (XO (XO (XO (XO (XO (XO (XO (XO
    (XO (XO (XO (XO (XO (XO (XO (XI (XO (XO (XO (XO
    XH)))))))))))))))))))))))))))))))) :: ((Npos (XO (XO (XI (XO (XO (XO (XO
    (XI (XO (XO (XO (XO (XO (XO (XO (XO (XO (XO (XO (XO (XO (XO (XO (XO (XO
    (XO (XI (XO (XO (XO (XO XH)))))))))))))))))))))))))))))))) :: ((Npos (XO
    (XO (XI (XO (XO (XO (XI (XO (XO (XO (XO (XO (XO (XO (XO (XO (XO (XO (XO
    (XO (XO (XO (XO (XO (XO (XO (XI (XO (XO (XO (XO
    XH)))))))))))))))))))))))))))))))) :: ((Npos (XO (XO (XO (XI (XO (XI (XI
    (XI (XO (XO (XO (XO (XO (XO (XO (XO (XO (XO (XO (XO (XO (XO (XO (XO (XO
    (XO (XI (XO (XI (XO (XO XH)))))))))))))))))))))))))))))))) :: ((Npos (XO
    (XI (XI (XO (XO (XO (XO (XO (XI (XO (XO (XO (XO (XO (XO (XO (XO (XO (XO
    (XO (XO (XO (XO (XO (XO (XO (XI (XO (XI (XI
    XH))))))))))))))))))))))))))))))) :: ((Npos (XO (XO (XI (XI (XI (XO (XI
    (XO (XO (XO (XO (XO (XO (XO (XO (XO (XO (XO (XO (XO (XO (XO (XO (XO (XO
    (XO (XI (XO (XO (XO (XO XH)))))))))))))))))))))))))))))))) :: ((Npos (XO
    (XO (XI (XI (XI (XO (XO (XO (XO (XO (XO (XO (XO (XO (XO (XO (XO (XO (XO
    (XO (XO (XO (XO (XO (XO (XO (XI (XO (XO (XO (XO
    XH)))))))))))))))))))))))))))))))) :: ((Npos (XO (XO (XO (XI (XI (XO (XO
    (XI (XO (XO (XO (XO (XO (XO (XO (XO (XO (XO (XO (XO (XO (XO (XO (XO (XO
    (XO (XI (XO (XI (XO (XO XH)))))))))))))))))))))))))))))))) :: ((Npos (XI
    (XO (XO (XI (XI (XO (XI (XO (XI (XO (XO (XO (XO (XO (XO (XO (XO (XO (XO
    (XO (XO (XO (XO (XO (XO (XO (XI (XO (XI (XI (XO
    XH)))))))))))))))))))))))))))))))) :: ((Npos (XO (XO (XI (XI (XI (XI (XI
    (XO (XO (XO (XO (XO (XO (XO (XO (XO (XO (XO (XO (XO (XO (XO (XO (XO (XO
    (XO (XI (XO (XO (XO (XO XH)))))))))))))))))))))))))))))))) :: ((Npos (XO
    (XO (XI (XI (XI (XI (XO (XO (XO (XO (XO (XO (XO (XO (XO (XO (XO (XO (XO
    (XO (XO (XO (XO (XO (XO (XO (XI (XO (XO (XO (XO
    XH)))))))))))))))))))))))))))))))) :: ((Npos (XO (XO (XO (XI (XI (XO (XI
    (XI (XO (XO (XO (XO (XO (XO (XO (XO (XO (XO (XO (XO (XO (XO (XO (XO (XO
    (XO (XI (XO (XI (XO (XO XH)))))))))))))))))))))))))))))))) :: ((Npos (XI
    (XO (XI (XO (XI (XO (XO (XO (XI (XO (XO (XO (XO (XO (XO (XO (XO (XO (XO
    (XO (XO (XO (XO (XO (XO (XO (XI (XO (XI (XO (XO
    XH)))))))))))))))))))))))))))))))) :: ((Npos (XO (XO (XI (XI (XO (XI (XI
    (XO (XO (XO (XO (XO (XO (XO (XO (XO (XO (XO (XO (XO (XO (XO (XO (XO (XO
    (XO (XI (XO (XO (XO (XO XH)))))))))))))))))))))))))))))))) :: ((Npos (XO
    (XO (XI (XI (XO (XI (XO (XO (XO (XO (XO (XO (XO (XO (XO (XO (XO (XO (XO
    (XO (XO (XO (XO (XO (XO (XO (XI (XO (XO (XO (XO
    XH)))))))))))))))))))))))))))))))) :: ((Npos (XO (XO (XO (XI (XI (XI (XO
    (XI (XO (XO (XO (XO (XO (XO (XO (XO (XO (XO (XO (XO (XO (XO (XO (XO (XO
    (XO (XI (XO (XI (XO (XO XH)))))))))))))))))))))))))))))))) :: ((Npos (XO
    (XO (XI (XI (XO (XO (XO (XO (XO (XO (XO (XO (XO (XO (XO (XO (XO (XO (XO
    (XO (XO (XO (XO (XO (XO (XO (XI (XO (XO (XO (XO
    XH)))))))))))))))))))))))))))))))) :: ((Npos (XO (XO (XI (XI (XO (XO (XO
    (XI (XO (XO (XO (XO (XO (XO (XO (XO (XO (XO (XO (XO (XO (XO (XO (XO (XO
    (XO (XI (XO (XO (XO (XO XH)))))))))))))))))))))))))))))))) :: ((Npos (XO
    (XO (XI (XI (XO (XO (XI (XO (XO (XO (XO (XO (XO (XO (XO (XO (XO (XO (XO
    (XO (XO (XO (XO (XO (XO (XO (XI (XO (XO (XO (XO
    XH)))))))))))))))))))))))))))))))) :: ((Npos (XO (XO (XO (XI (XI (XI (XI
    (XI (XO (XO (XO (XO (XO (XO (XO (XO (XO (XO (XO (XO (XO (XO (XO (XO (XO
    (XO (XI (XO (XI (XO (XO XH)))))))))))))))))))))))))))))))) :: ((Npos (XI
    (XO (XO (XO (XO (XO (XO (XO (XI (XO (XO (XO (XO (XO (XO (XO (XO (XO (XO
    (XO (XO (XO (XO (XO (XO (XO (XI (XO (XI (XI
    XH))))))))))))))))))))))))))))))) :: ((Npos (XO (XI (XO (XO (XI (XO (XI
    (XO (XO (XO (XO (XO (XO (XO (XO (XO (XO (XO (XO (XO (XO (XO (XO (XO (XO
    (XO (XI (XO (XO (XO (XO XH)))))))))))))))))))))))))))))))) :: ((Npos (XO
    (XI (XO (XO (XI (XO (XO (XO (XO (XO (XO (XO (XO (XO (XO (XO (XO (XO (XO
    (XO (XO (XO (XO (XO (XO (XO (XI (XO (XO (XO (XO
    XH)))))))))))))))))))))))))))))))) :: ((Npos (XO (XO (XO (XI (XI (XI (XO
    (XO (XO (XO (XO (XO (XO (XO (XO (XO (XO (XO (XO (XO (XO (XO (XO (XO (XO
    (XI (XI (XO (XI XH)))))))))))))))))))))))))))))) :: ((Npos (XI (XO (XO
    (XO (XO (XI (XO (XO (XI (XO (XO (XO (XO (XO (XO (XO (XO (XO (XO (XO (XO
    (XO (XO (XO (XO (XO (XI (XO (XO (XI (XO
    XH)))))))))))))))))))))))))))))))) :: ((Npos (XO (XI (XO (XO (XI (XI (XI
    (XO (XO (XO (XO (XO (XO (XO (XO (XO (XO (XO (XO (XO (XO (XO (XO (XO (XO
    (XO (XI (XO (XO (XO (XO XH)))))))))))))))))))))))))))))))) :: ((Npos (XO
    (XI (XO (XO (XI (XI (XO (XO (XO (XO (XO (XO (XO (XO (XO (XO (XO (XO (XO
    (XO (XO (XO (XO (XO (XO (XO (XI (XO (XO (XO (XO
    XH)))))))))))))))))))))))))))))))) :: ((Npos (XO (XO (XI (XO (XO (XO (XI
    (XI (XO (XO (XO (XO (XO (XO (XO (XO (XO (XO (XO (XO (XO (XO (XO (XO (XO
    (XO (XI (XO (XI (XO (XO XH)))))))))))))))))))))))))))))))) :: ((Npos (XI
    (XO (XO (XI (XO (XO (XO (XO (XI (XO (XO (XO (XO (XO (XO (XO (XO (XO (XO
    (XO (XO (XO (XO (XO (XO (XO (XI (XO (XO (XO (XO
    XH)))))))))))))))))))))))))))))))) :: ((Npos (XO (XI (XO (XO (XO (XI (XI
    (XO (XO (XO (XO (XO (XO (XO (XO (XO (XO (XO (XO (XO (XO (XO (XO (XO (XO
    (XO (XI (XO (XO (XO (XO XH)))))))))))))))))))))))))))))))) :: ((Npos (XO
    (XI (XO (XO (XO (XI (XO (XO (XO (XO (XO (XO (XO (XO (XO (XO (XO (XO (XO
    (XO (XO (XO (XO (XO (XO (XO (XI (XO (XO (XO (XO
    XH)))))))))))))))))))))))))))))))) :: ((Npos (XO (XO (XI (XO (XO (XI (XO
    (XI (XO (XO (XO (XO (XO (XO (XO (XO (XO (XO (XO (XO (XO (XO (XO (XO (XO
    (XO (XI (XO (XI (XO (XO XH)))))))))))))))))))))))))))))))) :: ((Npos (XO
    (XI (XO (XO (XO (XO (XO (XO (XO (XO (XO (XO (XO (XO (XO (XO (XO (XO (XO
    (XO (XO (XO (XO (XO (XO (XO (XI (XO (XO (XO (XO
    XH)))))))))))))))))))))))))))))))) :: ((Npos (XO (XI (XO (XO (XO (XO (XO
    (XI (XO (XO (XO (XO (XO (XO (XO (XO (XO (XO (XO (XO (XO (XO (XO (XO (XO
    (XO (XI (XO (XO (XO (XO XH)))))))))))))))))))))))))))))))) :: ((Npos (XO
    (XI (XO (XO (XO (XO (XI (XO (XO (XO (XO (XO (XO (XO (XO (XO (XO (XO (XO
    (XO (XO (XO (XO (XO (XO (XO (XI (XO (XO (XO (XO
    XH)))))))))))))))))))))))))))))))) :: ((Npos (XO (XO (XI (XO (XO (XI (XI
    (XI (XO (XO (XO (XO (XO (XO (XO (XO (XO (XO (XO (XO (XO (XO (XO (XO (XO
    (XO (XI (XO (XI (XO (XO XH)))))))))))))))))))))))))))))))) :: ((Npos (XI
    (XO (XI (XO (XO (XO (XO (XO (XI (XO (XO (XO (XO (XO (XO (XO (XO (XO (XO
    (XO (XO (XO (XO (XO (XO (XO (XI (XO (XI (XI
    XH))))))))))))))))))))))))))))))) :: ((Npos (XO (XI (XO (XI (XI (XO (XI
    (XO (XO (XO (XO (XO (XO (XO (XO (XO (XO (XO (XO (XO (XO (XO (XO (XO (XO
    (XO (XI (XO (XO (XO (XO XH)))))))))))))))))))))))))))))))) :: ((Npos (XO
    (XI (XO (XI (XI (XO (XO (XO (XO (XO (XO (XO (XO (XO (XO (XO (XO (XO (XO
    (XO (XO (XO (XO (XO (XO (XO (XI (XO (XO (XO (XO
    XH)))))))))))))))))))))))))))))))) :: ((Npos (XO (XO (XI (XO (XI (XO (XO
    (XI (XO (XO (XO (XO (XO (XO (XO (XO (XO (XO (XO (XO (XO (XO (XO (XO (XO
    (XO (XI (XO (XI (XO (XO XH)))))))))))))))))))))))))))))))) :: ((Npos (XI
    (XO (XO (XI (XO (XO (XI (XO (XI (XO (XO (XO (XO (XO (XO (XO (XO (XO (XO
    (XO (XO (XO (XO (XO (XO (XO (XI (XO (XI (XI (XO
    XH)))))))))))))))))))))))))))))))) :: ((Npos (XO (XI (XO (XI (XI (XI (XI
    (XO (XO (XO (XO (XO (XO (XO (XO (XO (XO (XO (XO (XO (XO (XO (XO (XO (XO
    (XO (XI (XO (XO (XO (XO XH)))))))))))))))))))))))))))))))) :: ((Npos (XO
    (XI (XO (XI (XI (XI (XO (XO (XO (XO (XO (XO (XO (XO (XO (XO (XO (XO (XO
    (XO (XO (XO (XO (XO (XO (XO (XI (XO (XO (XO (XO
    XH)))))))))))))))))))))))))))))))) :: ((Npos (XO (XO (XI (XO (XI (XO (XI
    (XI (XO (XO (XO (XO (XO (XO (XO (XO (XO (XO (XO (XO (XO (XO (XO (XO (XO
    (XO (XI (XO (XI (XO (XO XH)))))))))))))))))))))))))))))))) :: ((Npos (XI
    (XO (XO (XO (XI (XO (XO (XO (XI (XO (XO (XO (XO (XO (XO (XO (XO (XO (XO
    (XO (XO (XO (XO (XO (XO (XO (XI (XO (XI (XO (XO
    XH)))))))))))))))))))))))))))))))) :: ((Npos (XO (XI (XO (XI (XO (XI (XI
    (XO (XO (XO (XO (XO (XO (XO (XO (XO (XO (XO (XO (XO (XO (XO (XO (XO (XO
    (XO (XI (XO (XO (XO (XO XH)))))))))))))))))))))))))))))))) :: ((Npos (XO
    (XI (XO (XI (XO (XI (XO (XO (XO (XO (XO (XO (XO (XO (XO (XO (XO (XO (XO
    (XO (XO (XO (XO (XO (XO (XO (XI (XO (XO (XO (XO
    XH)))))))))))))))))))))))))))))))) :: ((Npos (XO (XO (XI (XO (XI (XI (XO
    (XI (XO (XO (XO (XO (XO (XO (XO (XO (XO (XO (XO (XO (XO (XO (XO (XO (XO
    (XO (XI (XO (XI (XO (XO XH)))))))))))))))))))))))))))))))) :: ((Npos (XO
    (XI (XO (XI (XO (XO (XO (XO (XO (XO (XO (XO (XO (XO (XO (XO (XO (XO (XO
    (XO (XO (XO (XO (XO (XO (XO (XI (XO (XO (XO (XO
    XH)))))))))))))))))))))))))))))))) :: ((Npos (XO (XI (XO (XI (XO (XO (XO
    (XI (XO (XO (XO (XO (XO (XO (XO (XO (XO (XO (XO (XO (XO (XO (XO (XO (XO
    (XO (XI (XO (XO (XO (XO XH)))))))))))))))))))))))))))))))) :: ((Npos (XO
    (XI (XO (XI (XO (XO (XI (XO (XO (XO (XO (XO (XO (XO (XO (XO (XO (XO (XO
    (XO (XO (XO (XO (XO (XO (XO (XI (XO (XO (XO (XO
    XH)))))))))))))))))))))))))))))))) :: ((Npos (XO (XO (XI (XO (XI (XI (XI
    (XI (XO (XO (XO (XO (XO (XO (XO (XO (XO (XO (XO (XO (XO (XO (XO (XO (XO
    (XO (XI (XO (XI (XO (XO XH)))))))))))))))))))))))))))))))) :: ((Npos (XI
    (XI (XO (XO (XO (XO (XO (XO (XI (XO (XO (XO (XO (XO (XO (XO (XO (XO (XO
    (XO (XO (XO (XO (XO (XO (XO (XI (XO (XI (XI
    XH))))))))))))))))))))))))))))))) :: ((Npos (XO (XI (XI (XO (XI (XO (XI
    (XO (XO (XO (XO (XO (XO (XO (XO (XO (XO (XO (XO (XO (XO (XO (XO (XO (XO
    (XO (XI (XO (XO (XO (XO XH)))))))))))))))))))))))))))))))) :: ((Npos (XO
    (XI (XI (XO (XI (XO (XO (XO (XO (XO (XO (XO (XO (XO (XO (XO (XO (XO (XO
    (XO (XO (XO (XO (XO (XO (XO (XI (XO (XO (XO (XO
    XH)))))))))))))))))))))))))))))))) :: (N0 :: ((Npos (XI (XO (XO (XO (XI
    (XI (XO (XO (XI (XO (XO (XO (XO (XO (XO (XO (XO (XO (XO (XO (XO (XO (XO
    (XO (XO (XO (XI (XO (XO (XI (XO
    XH)))))))))))))))))))))))))))))))) :: ((Npos (XO (XI (XI (XO (XI (XI (XI
    (XO (XO (XO (XO (XO (XO (XO (XO (XO (XO (XO (XO (XO (XO (XO (XO (XO (XO
    (XO (XI (XO (XO (XO (XO XH)))))))))))))))))))))))))))))))) :: ((Npos (XO
    (XI (XI (XO (XI (XI (XO (XO (XO (XO (XO (XO (XO (XO (XO (XO (XO (XO (XO
    (XO (XO (XO (XO (XO (XO (XO (XI (XO (XO (XO (XO
    XH)))))))))))))))))))))))))))))))) :: ((Npos (XO (XO (XI (XI (XO (XO (XI
    (XI (XO (XO (XO (XO (XO (XO (XO (XO (XO (XO (XO (XO (XO (XO (XO (XO (XO
    (XO (XI (XO (XI (XO (XO XH)))))))))))))))))))))))))))))))) :: ((Npos (XI
    (XO (XI (XI (XO (XO (XO (XO (XI (XO (XO (XO (XO (XO (XO (XO (XO (XO (XO
    (XO (XO (XO (XO (XO (XO (XO (XI (XO (XO (XO (XO
    XH)))))))))))))))))))))))))))))))) :: ((Npos (XO (XI (XI (XO (XO (XI (XI
    (XO (XO (XO (XO (XO (XO (XO (XO (XO (XO (XO (XO (XO (XO (XO (XO (XO (XO
    (XO (XI (XO (XO (XO (XO XH)))))))))))))))))))))))))))))))) :: ((Npos (XO
    (XI (XI (XO (XO (XI (XO (XO (XO (XO (XO (XO (XO (XO (XO (XO (XO (XO (XO
    (XO (XO (XO (XO (XO (XO (XO (XI (XO (XO (XO (XO
    XH)))))))))))))))))))))))))))))))) :: ((Npos (XO (XO (XI (XI (XO (XI (XO
    (XI (XO (XO (XO (XO (XO (XO (XO (XO (XO (XO (XO (XO (XO (XO (XO (XO (XO
    (XO (XI (XO (XI (XO (XO XH)))))))))))))))))))))))))))))))) :: ((Npos (XO
    (XI (XI (XO (XO (XO (XO (XO (XO (XO (XO (XO (XO (XO (XO (XO (XO (XO (XO
    (XO (XO (XO (XO (XO (XO (XO (XI (XO (XO (XO (XO
    XH)))))))))))))))))))))))))))))))) :: ((Npos (XO (XI (XI (XO (XO (XO (XO
    (XI (XO (XO (XO (XO (XO (XO (XO (XO (XO (XO (XO (XO (XO (XO (XO (XO (XO
    (XO (XI (XO (XO (XO (XO XH)))))))))))))))))))))))))))))))) :: ((Npos (XO
    (XI (XI (XO (XO (XO (XI (XO (XO (XO (XO (XO (XO (XO (XO (XO (XO (XO (XO
    (XO (XO (XO (XO (XO (XO (XO (XI (XO (XO (XO (XO
    XH)))))))))))))))))))))))))))))))) :: ((Npos (XO (XO (XI (XI (XO (XI (XI
    (XI (XO (XO (XO (XO (XO (XO (XO (XO (XO (XO (XO (XO (XO (XO (XO (XO (XO
    (XO (XI (XO (XI (XO (XO XH)))))))))))))))))))))))))))))))) :: ((Npos (XI
    (XI (XI (XO (XO (XO (XO (XO (XI (XO (XO (XO (XO (XO (XO (XO (XO (XO (XO
    (XO (XO (XO (XO (XO (XO (XO (XI (XO (XI (XI
    XH))))))))))))))))))))))))))))))) :: ((Npos (XO (XI (XI (XI (XI (XO (XI
    (XO (XO (XO (XO (XO (XO (XO (XO (XO (XO (XO (XO (XO (XO (XO (XO (XO (XO
    (XO (XI (XO (XO (XO (XO XH)))))))))))))))))))))))))))))))) :: ((Npos (XO
    (XI (XI (XI (XI (XO (XO (XO (XO (XO (XO (XO (XO (XO (XO (XO (XO (XO (XO
    (XO (XO (XO (XO (XO (XO (XO (XI (XO (XO (XO (XO
    XH)))))))))))))))))))))))))))))))) :: ((Npos (XO (XO (XI (XI (XI (XO (XO
    (XI (XO (XO (XO (XO (XO (XO (XO (XO (XO (XO (XO (XO (XO (XO (XO (XO (XO
    (XO (XI (XO (XI (XO (XO XH)))))))))))))))))))))))))))))))) :: ((Npos (XI
    (XO (XO (XI (XO (XI (XI (XO (XI (XO (XO (XO (XO (XO (XO (XO (XO (XO (XO
    (XO (XO (XO (XO (XO (XO (XO (XI (XO (XI (XI (XO
    XH)))))))))))))))))))))))))))))))) :: ((Npos (XO (XI (XI (XI (XI (XI (XI
    (XO (XO (XO (XO (XO (XO (XO (XO (XO (XO (XO (XO (XO (XO (XO (XO (XO (XO
    (XO (XI (XO (XO (XO (XO XH)))))))))))))))))))))))))))))))) :: ((Npos (XO
    (XI (XI (XI (XI (XI (XO (XO (XO (XO (XO (XO (XO (XO (XO (XO (XO (XO (XO
    (XO (XO (XO (XO (XO (XO (XO (XI (XO (XO (XO (XO
    XH)))))))))))))))))))))))))))))))) :: ((Npos (XO (XO (XI (XI (XI (XO (XI
    (XI (XO (XO (XO (XO (XO (XO (XO (XO (XO (XO (XO (XO (XO (XO (XO (XO (XO
    (XO (XI (XO (XI (XO (XO XH)))))))))))))))))))))))))))))))) :: ((Npos (XI
    (XO (XO (XI (XI (XO (XO (XO (XI (XO (XO (XO (XO (XO (XO (XO (XO (XO (XO
    (XO (XO (XO (XO (XO (XO (XO (XI (XO (XI (XO (XO
    XH)))))))))))))))))))))))))))))))) :: ((Npos (XO (XI (XI (XI (XO (XI (XI
    (XO (XO (XO (XO (XO (XO (XO (XO (XO (XO (XO (XO (XO (XO (XO (XO (XO (XO
    (XO (XI (XO (XO (XO (XO XH)))))))))))))))))))))))))))))))) :: ((Npos (XO
    (XI (XI (XI (XO (XI (XO (XO (XO (XO (XO (XO (XO (XO (XO (XO (XO (XO (XO
    (XO (XO (XO (XO (XO (XO (XO (XI (XO (XO (XO (XO
    XH)))))))))))))))))))))))))))))))) :: ((Npos (XO (XO (XI (XI (XI (XI (XO
    (XI (XO (XO (XO (XO (XO (XO (XO (XO (XO (XO (XO (XO (XO (XO (XO (XO (XO
    (XO (XI (XO (XI (XO (XO XH)))))))))))))))))))))))))))))))) :: ((Npos (XO
    (XI (XI (XI (XO (XO (XO (XO (XO (XO (XO (XO (XO (XO (XO (XO (XO (XO (XO
    (XO (XO (XO (XO (XO (XO (XO (XI (XO (XO (XO (XO
    XH)))))))))))))))))))))))))))))))) :: ((Npos (XO (XI (XI (XI (XO (XO (XO
    (XI (XO (XO (XO (XO (XO (XO (XO (XO (XO (XO (XO (XO (XO (XO (XO (XO (XO
    (XO (XI (XO (XO (XO (XO XH)))))))))))))))))))))))))))))))) :: ((Npos (XO
    (XI (XI (XI (XO (XO (XI (XO (XO (XO (XO (XO (XO (XO (XO (XO (XO (XO (XO
    (XO (XO (XO (XO (XO (XO (XO (XI (XO (XO (XO (XO
    XH)))))))))))))))))))))))))))))))) :: ((Npos (XO (XO (XI (XI (XI (XI (XI
    (XI (XO (XO (XO (XO (XO (XO (XO (XO (XO (XO (XO (XO (XO (XO (XO (XO (XO
    (XO (XI (XO (XI (XO (XO XH)))))))))))))))))))))))))))))))) :: ((Npos (XO
    (XO (XO (XO (XO (XO (XO (XO (XI (XO (XO (XO (XO (XO (XO (XO (XO (XO (XO
    (XO (XO (XO (XO (XO (XO (XO (XI (XO (XI (XI
    XH))))))))))))))))))))))))))))))) :: ((Npos (XI (XO (XO (XO (XI (XO (XI
    (XO (XO (XO (XO (XO (XO (XO (XO (XO (XO (XO (XO (XO (XO (XO (XO (XO (XO
    (XO (XI (XO (XO (XO (XO XH)))))))))))))))))))))))))))))))) :: ((Npos (XI
    (XO (XO (XO (XI (XO (XO (XO (XO (XO (XO (XO (XO (XO (XO (XO (XO (XO (XO
    (XO (XO (XO (XO (XO (XO (XO (XI (XO (XO (XO (XO
    XH)))))))))))))))))))))))))))))))) :: ((Npos (XO (XO (XO (XI (XI (XO (XO
    (XO (XO (XO (XO (XO (XO (XO (XO (XO (XO (XO (XO (XO (XO (XO (XO (XO (XO
    (XI (XI (XO (XI XH)))))))))))))))))))))))))))))) :: ((Npos (XO (XI (XI
    (XI (XI (XO (XO (XO (XI (XO (XO (XO (XO (XO (XO (XO (XO (XO (XO (XO (XO
    (XO (XO (XO (XO (XO (XI (XO (XI (XO (XO
    XH)))))))))))))))))))))))))))))))) :: ((Npos (XI (XO (XO (XO (XI (XI (XI
    (XO (XO (XO (XO (XO (XO (XO (XO (XO (XO (XO (XO (XO (XO (XO (XO (XO (XO
    (XO (XI (XO (XO (XO (XO XH)))))))))))))))))))))))))))))))) :: ((Npos (XI
    (XO (XO (XO (XI (XI (XO (XO (XO (XO (XO (XO (XO (XO (XO (XO (XO (XO (XO
    (XO (XO (XO (XO (XO (XO (XO (XI (XO (XO (XO (XO
    XH)))))))))))))))))))))))))))))))) :: ((Npos (XO (XI (XO (XO (XO (XO (XI
    (XI (XO (XO (XO (XO (XO (XO (XO (XO (XO (XO (XO (XO (XO (XO (XO (XO (XO
    (XO (XI (XO (XI (XO (XO XH)))))))))))))))))))))))))))))))) :: ((Npos (XO
    (XO (XO (XI (XO (XO (XO (XO (XI (XO (XO (XO (XO (XO (XO (XO (XO (XO (XO
    (XO (XO (XO (XO (XO (XO (XO (XI (XO (XI (XI
    XH))))))))))))))))))))))))))))))) :: ((Npos (XI (XO (XO (XO (XO (XI (XI
    (XO (XO (XO (XO (XO (XO (XO (XO (XO (XO (XO (XO (XO (XO (XO (XO (XO (XO
    (XO (XI (XO (XO (XO (XO XH)))))))))))))))))))))))))))))))) :: ((Npos (XI
    (XO (XO (XO (XO (XI (XO (XO (XO (XO (XO (XO (XO (XO (XO (XO (XO (XO (XO
    (XO (XO (XO (XO (XO (XO (XO (XI (XO (XO (XO (XO
    XH)))))))))))))))))))))))))))))))) :: ((Npos (XO (XI (XO (XO (XO (XI (XO
    (XI (XO (XO (XO (XO (XO (XO (XO (XO (XO (XO (XO (XO (XO (XO (XO (XO (XO
    (XO (XI (XO (XI (XO (XO XH)))))))))))))))))))))))))))))))) :: ((Npos (XI
    (XO (XO (XO (XO (XO (XO (XO (XO (XO (XO (XO (XO (XO (XO (XO (XO (XO (XO
    (XO (XO (XO (XO (XO (XO (XO (XI (XO (XO (XO (XO
    XH)))))))))))))))))))))))))))))))) :: ((Npos (XI (XO (XO (XO (XO (XO (XO
    (XI (XO (XO (XO (XO (XO (XO (XO (XO (XO (XO (XO (XO (XO (XO (XO (XO (XO
    (XO (XI (XO (XO (XO (XO XH)))))))))))))))))))))))))))))))) :: ((Npos (XI
    (XO (XO (XO (XO (XO (XI (XO (XO (XO (XO (XO (XO (XO (XO (XO (XO (XO (XO
    (XO (XO (XO (XO (XO (XO (XO (XI (XO (XO (XO (XO
    XH)))))))))))))))))))))))))))))))) :: ((Npos (XO (XI (XO (XO (XO (XI (XI
    (XI (XO (XO (XO (XO (XO (XO (XO (XO (XO (XO (XO (XO (XO (XO (XO (XO (XO
    (XO (XI (XO (XI (XO (XO XH)))))))))))))))))))))))))))))))) :: ((Npos (XO
    (XO (XI (XO (XO (XO (XO (XO (XI (XO (XO (XO (XO (XO (XO (XO (XO (XO (XO
    (XO (XO (XO (XO (XO (XO (XO (XI (XO (XI (XI
    XH))))))))))))))))))))))))))))))) :: ((Npos (XI (XO (XO (XI (XI (XO (XI
    (XO (XO (XO (XO (XO (XO (XO (XO (XO (XO (XO (XO (XO (XO (XO (XO (XO (XO
    (XO (XI (XO (XO (XO (XO XH)))))))))))))))))))))))))))))))) :: ((Npos (XI
    (XO (XO (XI (XI (XO (XO (XO (XO (XO (XO (XO (XO (XO (XO (XO (XO (XO (XO
    (XO (XO (XO (XO (XO (XO (XO (XI (XO (XO (XO (XO
    XH)))))))))))))))))))))))))))))))) :: ((Npos (XO (XI (XO (XO (XI (XO (XO
    (XI (XO (XO (XO (XO (XO (XO (XO (XO (XO (XO (XO (XO (XO (XO (XO (XO (XO
    (XO (XI (XO (XI (XO (XO XH)))))))))))))))))))))))))))))))) :: ((Npos (XO
    (XI (XO (XI (XI (XI (XO (XO (XI (XO (XO (XO (XO (XO (XO (XO (XO (XO (XO
    (XO (XO (XO (XO (XO (XO (XO (XI (XO (XO (XI (XO
    XH)))))))))))))))))))))))))))))))) :: ((Npos (XI (XO (XO (XI (XI (XI (XI
    (XO (XO (XO (XO (XO (XO (XO (XO (XO (XO (XO (XO (XO (XO (XO (XO (XO (XO
    (XO (XI (XO (XO (XO (XO XH)))))))))))))))))))))))))))))))) :: ((Npos (XI
    (XO (XO (XI (XI (XI (XO (XO (XO (XO (XO (XO (XO (XO (XO (XO (XO (XO (XO
    (XO (XO (XO (XO (XO (XO (XO (XI (XO (XO (XO (XO
    XH)))))))))))))))))))))))))))))))) :: ((Npos (XO (XI (XO (XO (XI (XO (XI
    (XI (XO (XO (XO (XO (XO (XO (XO (XO (XO (XO (XO (XO (XO (XO (XO (XO (XO
    (XO (XI (XO (XI (XO (XO XH)))))))))))))))))))))))))))))))) :: ((Npos (XO
    (XO (XO (XO (XI (XO (XO (XO (XI (XO (XO (XO (XO (XO (XO (XO (XO (XO (XO
    (XO (XO (XO (XO (XO (XO (XO (XI (XO (XO (XO (XO
    XH)))))))))))))))))))))))))))))))) :: ((Npos (XI (XO (XO (XI (XO (XI (XI
    (XO (XO (XO (XO (XO (XO (XO (XO (XO (XO (XO (XO (XO (XO (XO (XO (XO (XO
    (XO (XI (XO (XO (XO (XO XH)))))))))))))))))))))))))))))))) :: ((Npos (XI
    (XO (XO (XI (XO (XI (XO (XO (XO (XO (XO (XO (XO (XO (XO (XO (XO (XO (XO
    (XO (XO (XO (XO (XO (XO (XO (XI (XO (XO (XO (XO
    XH)))))))))))))))))))))))))))))))) :: ((Npos (XO (XI (XO (XO (XI (XI (XO
    (XI (XO (XO (XO (XO (XO (XO (XO (XO (XO (XO (XO (XO (XO (XO (XO (XO (XO
    (XO (XI (XO (XI (XO (XO XH)))))))))))))))))))))))))))))))) :: ((Npos (XI
    (XO (XO (XI (XO (XO (XO (XO (XO (XO (XO (XO (XO (XO (XO (XO (XO (XO (XO
    (XO (XO (XO (XO (XO (XO (XO (XI (XO (XO (XO (XO
    XH)))))))))))))))))))))))))))))))) :: ((Npos (XI (XO (XO (XI (XO (XO (XO
    (XI (XO (XO (XO (XO (XO (XO (XO (XO (XO (XO (XO (XO (XO (XO (XO (XO (XO
    (XO (XI (XO (XO (XO (XO XH)))))))))))))))))))))))))))))))) :: ((Npos (XI
    (XO (XO (XI (XO (XO (XI (XO (XO (XO (XO (XO (XO (XO (XO (XO (XO (XO (XO
    (XO (XO (XO (XO (XO (XO (XO (XI (XO (XO (XO (XO
    XH)))))))))))))))))))))))))))))))) :: ((Npos (XO (XI (XO (XO (XI (XI (XI
    (XI (XO (XO (XO (XO (XO (XO (XO (XO (XO (XO (XO (XO (XO (XO (XO (XO (XO
    (XO (XI (XO (XI (XO (XO XH)))))))))))))))))))))))))))))))) :: ((Npos (XO
    (XI (XO (XO (XO (XO (XO (XO (XI (XO (XO (XO (XO (XO (XO (XO (XO (XO (XO
    (XO (XO (XO (XO (XO (XO (XO (XI (XO (XI (XI
    XH))))))))))))))))))))))))))))))) :: ((Npos (XI (XO (XI (XO (XI (XO (XI
    (XO (XO (XO (XO (XO (XO (XO (XO (XO (XO (XO (XO (XO (XO (XO (XO (XO (XO
    (XO (XI (XO (XO (XO (XO XH)))))))))))))))))))))))))))))))) :: ((Npos (XI
    (XO (XI (XO (XI (XO (XO (XO (XO (XO (XO (XO (XO (XO (XO (XO (XO (XO (XO
    (XO (XO (XO (XO (XO (XO (XO (XI (XO (XO (XO (XO
    XH)))))))))))))))))))))))))))))))) :: ((Npos (XO (XO (XO (XO (XO (XO (XO
    (XO (XO (XI (XO (XO (XO (XO (XO (XO (XO (XO (XO (XO (XO (XO (XO (XO (XO
    (XO (XI (XO (XO (XO (XO XH)))))))))))))))))))))))))))))))) :: ((Npos (XO
    (XI (XO (XI (XO (XI (XO (XO (XI (XO (XO (XO (XO (XO (XO (XO (XO (XO (XO
    (XO (XO (XO (XO (XO (XO (XO (XI (XO (XO (XI (XO
    XH)))))))))))))))))))))))))))))))) :: ((Npos (XI (XO (XI (XO (XI (XI (XI
    (XO (XO (XO (XO (XO (XO (XO (XO (XO (XO (XO (XO (XO (XO (XO (XO (XO (XO
    (XO (XI (XO (XO (XO (XO XH)))))))))))))))))))))))))))))))) :: ((Npos (XI
    (XO (XI (XO (XI (XI (XO (XO (XO (XO (XO (XO (XO (XO (XO (XO (XO (XO (XO
    (XO (XO (XO (XO (XO (XO (XO (XI (XO (XO (XO (XO
    XH)))))))))))))))))))))))))))))))) :: ((Npos (XO (XI (XO (XI (XO (XO (XI
    (XI (XO (XO (XO (XO (XO (XO (XO (XO (XO (XO (XO (XO (XO (XO (XO (XO (XO
    (XO (XI (XO (XI (XO (XO XH)))))))))))))))))))))))))))))))) :: ((Npos (XO
    (XO (XI (XI (XO (XO (XO (XO (XI (XO (XO (XO (XO (XO (XO (XO (XO (XO (XO
    (XO (XO (XO (XO (XO (XO (XO (XI (XO (XO (XO (XO
    XH)))))))))))))))))))))))))))))))) :: ((Npos (XI (XO (XI (XO (XO (XI (XI
    (XO (XO (XO (XO (XO (XO (XO (XO (XO (XO (XO (XO (XO (XO (XO (XO (XO (XO
    (XO (XI (XO (XO (XO (XO XH)))))))))))))))))))))))))))))))) :: ((Npos (XI
    (XO (XI (XO (XO (XI (XO (XO (XO (XO (XO (XO (XO (XO (XO (XO (XO (XO (XO
    (XO (XO (XO (XO (XO (XO (XO (XI (XO (XO (XO (XO
    XH)))))))))))))))))))))))))))))))) :: ((Npos (XO (XI (XO (XI (XO (XI (XO
    (XI (XO (XO (XO (XO (XO (XO (XO (XO (XO (XO (XO (XO (XO (XO (XO (XO (XO
    (XO (XI (XO (XI (XO (XO XH)))))))))))))))))))))))))))))))) :: ((Npos (XI
    (XO (XI (XO (XO (XO (XO (XO (XO (XO (XO (XO (XO (XO (XO (XO (XO (XO (XO
    (XO (XO (XO (XO (XO (XO (XO (XI (XO (XO (XO (XO
    XH)))))))))))))))))))))))))))))))) :: ((Npos (XI (XO (XI (XO (XO (XO (XO
    (XI (XO (XO (XO (XO (XO (XO (XO (XO (XO (XO (XO (XO (XO (XO (XO (XO (XO
    (XO (XI (XO (XO (XO (XO XH)))))))))))))))))))))))))))))))) :: ((Npos (XI
    (XO (XI (XO (XO (XO (XI (XO (XO (XO (XO (XO (XO (XO (XO (XO (XO (XO (XO
    (XO (XO (XO (XO (XO (XO (XO (XI (XO (XO (XO (XO
    XH)))))))))))))))))))))))))))))))) :: ((Npos (XO (XI (XO (XI (XO (XI (XI
    (XI (XO (XO (XO (XO (XO (XO (XO (XO (XO (XO (XO (XO (XO (XO (XO (XO (XO
    (XO (XI (XO (XI (XO (XO XH)))))))))))))))))))))))))))))))) :: ((Npos (XO
    (XI (XI (XO (XO (XO (XO (XO (XI (XO (XO (XO (XO (XO (XO (XO (XO (XO (XO
    (XO (XO (XO (XO (XO (XO (XO (XI (XO (XI (XI
    XH))))))))))))))))))))))))))))))) :: ((Npos (XI (XO (XI (XI (XI (XO (XI
    (XO (XO (XO (XO (XO (XO (XO (XO (XO (XO (XO (XO (XO (XO (XO (XO (XO (XO
    (XO (XI (XO (XO (XO (XO XH)))))))))))))))))))))))))))))))) :: ((Npos (XI
    (XO (XI (XI (XI (XO (XO (XO (XO (XO (XO (XO (XO (XO (XO (XO (XO (XO (XO
    (XO (XO (XO (XO (XO (XO (XO (XI (XO (XO (XO (XO
    XH)))))))))))))))))))))))))))))))) :: ((Npos (XO (XI (XO (XI (XI (XO (XO
    (XI (XO (XO (XO (XO (XO (XO (XO (XO (XO (XO (XO (XO (XO (XO (XO (XO (XO
    (XO (XI (XO (XI (XO (XO XH)))))))))))))))))))))))))))))))) :: ((Npos (XO
    (XI (XO (XI (XI (XO (XI (XO (XI (XO (XO (XO (XO (XO (XO (XO (XO (XO (XO
    (XO (XO (XO (XO (XO (XO (XO (XI (XO (XI (XI (XO
    XH)))))))))))))))))))))))))))))))) :: ((Npos (XI (XO (XI (XI (XI (XI (XI
    (XO (XO (XO (XO (XO (XO (XO (XO (XO (XO (XO (XO (XO (XO (XO (XO (XO (XO
    (XO (XI (XO (XO (XO (XO XH)))))))))))))))))))))))))))))))) :: ((Npos (XI
    (XO (XI (XI (XI (XI (XO (XO (XO (XO (XO (XO (XO (XO (XO (XO (XO (XO (XO
    (XO (XO (XO (XO (XO (XO (XO (XI (XO (XO (XO (XO
    XH)))))))))))))))))))))))))))))))) :: ((Npos (XO (XI (XO (XI (XI (XO (XI
    (XI (XO (XO (XO (XO (XO (XO (XO (XO (XO (XO (XO (XO (XO (XO (XO (XO (XO
    (XO (XI (XO (XI (XO (XO XH)))))))))))))))))))))))))))))))) :: ((Npos (XO
    (XI (XI (XO (XI (XO (XO (XO (XI (XO (XO (XO (XO (XO (XO (XO (XO (XO (XO
    (XO (XO (XO (XO (XO (XO (XO (XI (XO (XI (XO (XO
    XH)))))))))))))))))))))))))))))))) :: ((Npos (XI (XO (XI (XI (XO (XI (XI
    (XO (XO (XO (XO (XO (XO (XO (XO (XO (XO (XO (XO (XO (XO (XO (XO (XO (XO
    (XO (XI (XO (XO (XO (XO XH)))))))))))))))))))))))))))))))) :: ((Npos (XI
    (XO (XI (XI (XO (XI (XO (XO (XO (XO (XO (XO (XO (XO (XO (XO (XO (XO (XO
    (XO (XO (XO (XO (XO (XO (XO (XI (XO (XO (XO (XO
    XH)))))))))))))))))))))))))))))))) :: ((Npos (XO (XI (XO (XI (XI (XI (XO
    (XI (XO (XO (XO (XO (XO (XO (XO (XO (XO (XO (XO (XO (XO (XO (XO (XO (XO
    (XO (XI (XO (XI (XO (XO XH)))))))))))))))))))))))))))))))) :: ((Npos (XI
    (XO (XI (XI (XO (XO (XO (XO (XO (XO (XO (XO (XO (XO (XO (XO (XO (XO (XO
    (XO (XO (XO (XO (XO (XO (XO (XI (XO (XO (XO (XO
    XH)))))))))))))))))))))))))))))))) :: ((Npos (XI (XO (XI (XI (XO (XO (XO
    (XI (XO (XO (XO (XO (XO (XO (XO (XO (XO (XO (XO (XO (XO (XO (XO (XO (XO
    (XO (XI (XO (XO (XO (XO XH)))))))))))))))))))))))))))))))) :: ((Npos (XI
    (XO (XI (XI (XO (XO (XI (XO (XO (XO (XO (XO (XO (XO (XO (XO (XO (XO (XO
    (XO (XO (XO (XO (XO (XO (XO (XI (XO (XO (XO (XO
    XH)))))))))))))))))))))))))))))))) :: ((Npos (XO (XI (XO (XI (XI (XI (XI
    (XI (XO (XO (XO (XO (XO (XO (XO (XO (XO (XO (XO (XO (XO (XO (XO (XO (XO
    (XO (XI (XO (XI (XO (XO XH)))))))))))))))))))))))))))))))) :: ((Npos (XI
    (XO (XO (XO (XO (XO (XO (XO (XI (XO (XO (XO (XO (XO (XO (XO (XO (XO (XO
    (XO (XO (XO (XO (XO (XO (XO (XI (XO (XI (XI
    XH))))))))))))))))))))))))))))))) :: ((Npos (XI (XI (XO (XO (XI (XO (XI
    (XO (XO (XO (XO (XO (XO (XO (XO (XO (XO (XO (XO (XO (XO (XO (XO (XO (XO
    (XO (XI (XO (XO (XO (XO XH)))))))))))))))))))))))))))))))) :: ((Npos (XI
    (XI (XO (XO (XI (XO (XO (XO (XO (XO (XO (XO (XO (XO (XO (XO (XO (XO (XO
    (XO (XO (XO (XO (XO (XO (XO (XI (XO (XO (XO (XO
    XH)))))))))))))))))))))))))))))))) :: ((Npos (XO (XO (XO (XI (XI (XO (XI
    (XO (XO (XO (XO (XO (XO (XO (XO (XO (XO (XO (XO (XO (XO (XO (XO (XO (XO
    (XI (XI (XO (XI XH)))))))))))))))))))))))))))))) :: ((Npos (XO (XI (XO
    (XO (XO (XI (XO (XO (XI (XO (XO (XO (XO (XO (XO (XO (XO (XO (XO (XO (XO
    (XO (XO (XO (XO (XO (XI (XO (XO (XI (XO
    XH)))))))))))))))))))))))))))))))) :: ((Npos (XI (XI (XO (XO (XI (XI (XI
    (XO (XO (XO (XO (XO (XO (XO (XO (XO (XO (XO (XO (XO (XO (XO (XO (XO (XO
    (XO (XI (XO (XO (XO (XO XH)))))))))))))))))))))))))))))))) :: ((Npos (XI
    (XI (XO (XO (XI (XI (XO (XO (XO (XO (XO (XO (XO (XO (XO (XO (XO (XO (XO
    (XO (XO (XO (XO (XO (XO (XO (XI (XO (XO (XO (XO
    XH)))))))))))))))))))))))))))))))) :: ((Npos (XO (XI (XI (XO (XO (XO (XI
    (XI (XO (XO (XO (XO (XO (XO (XO (XO (XO (XO (XO (XO (XO (XO (XO (XO (XO
    (XO (XI (XO (XI (XO (XO XH)))))))))))))))))))))))))))))))) :: ((Npos (XO
    (XI (XO (XI (XO (XO (XO (XO (XI (XO (XO (XO (XO (XO (XO (XO (XO (XO (XO
    (XO (XO (XO (XO (XO (XO (XO (XI (XO (XO (XO (XO
    XH)))))))))))))))))))))))))))))))) :: ((Npos (XI (XI (XO (XO (XO (XI (XI
    (XO (XO (XO (XO (XO (XO (XO (XO (XO (XO (XO (XO (XO (XO (XO (XO (XO (XO
    (XO (XI (XO (XO (XO (XO XH)))))))))))))))))))))))))))))))) :: ((Npos (XI
    (XI (XO (XO (XO (XI (XO (XO (XO (XO (XO (XO (XO (XO (XO (XO (XO (XO (XO
    (XO (XO (XO (XO (XO (XO (XO (XI (XO (XO (XO (XO
    XH)))))))))))))))))))))))))))))))) :: ((Npos (XO (XI (XI (XO (XO (XI (XO
    (XI (XO (XO (XO (XO (XO (XO (XO (XO (XO (XO (XO (XO (XO (XO (XO (XO (XO
    (XO (XI (XO (XI (XO (XO XH)))))))))))))))))))))))))))))))) :: ((Npos (XI
    (XI (XO (XO (XO (XO (XO (XO (XO (XO (XO (XO (XO (XO (XO (XO (XO (XO (XO
    (XO (XO (XO (XO (XO (XO (XO (XI (XO (XO (XO (XO
    XH)))))))))))))))))))))))))))))))) :: ((Npos (XI (XI (XO (XO (XO (XO (XO
    (XI (XO (XO (XO (XO (XO (XO (XO (XO (XO (XO (XO (XO (XO (XO (XO (XO (XO
    (XO (XI (XO (XO (XO (XO XH)))))))))))))))))))))))))))))))) :: ((Npos (XI
    (XI (XO (XO (XO (XO (XI (XO (XO (XO (XO (XO (XO (XO (XO (XO (XO (XO (XO
    (XO (XO (XO (XO (XO (XO (XO (XI (XO (XO (XO (XO
    XH)))))))))))))))))))))))))))))))) :: ((Npos (XO (XI (XI (XO (XO (XI (XI
    (XI (XO (XO (XO (XO (XO (XO (XO (XO (XO (XO (XO (XO (XO (XO (XO (XO (XO
    (XO (XI (XO (XI (XO (XO XH)))))))))))))))))))))))))))))))) :: ((Npos (XI
    (XO (XI (XO (XO (XO (XO (XO (XI (XO (XO (XO (XO (XO (XO (XO (XO (XO (XO
    (XO (XO (XO (XO (XO (XO (XO (XI (XO (XI (XI
    XH))))))))))))))))))))))))))))))) :: ((Npos (XI (XI (XO (XI (XI (XO (XI
    (XO (XO (XO (XO (XO (XO (XO (XO (XO (XO (XO (XO (XO (XO (XO (XO (XO (XO
    (XO (XI (XO (XO (XO (XO XH)))))))))))))))))))))))))))))))) :: ((Npos (XI
    (XI (XO (XI (XI (XO (XO (XO (XO (XO (XO (XO (XO (XO (XO (XO (XO (XO (XO
    (XO (XO (XO (XO (XO (XO (XO (XI (XO (XO (XO (XO
    XH)))))))))))))))))))))))))))))))) :: ((Npos (XO (XI (XI (XO (XI (XO (XO
    (XI (XO (XO (XO (XO (XO (XO (XO (XO (XO (XO (XO (XO (XO (XO (XO (XO (XO
    (XO (XI (XO (XI (XO (XO XH)))))))))))))))))))))))))))))))) :: ((Npos (XO
    (XI (XO (XI (XO (XO (XI (XO (XI (XO (XO (XO (XO (XO (XO (XO (XO (XO (XO
    (XO (XO (XO (XO (XO (XO (XO (XI (XO (XI (XI (XO
    XH)))))))))))))))))))))))))))))))) :: ((Npos (XI (XI (XO (XI (XI (XI (XI
    (XO (XO (XO (XO (XO (XO (XO (XO (XO (XO (XO (XO (XO (XO (XO (XO (XO (XO
    (XO (XI (XO (XO (XO (XO XH)))))))))))))))))))))))))))))))) :: ((Npos (XI
    (XI (XO (XI (XI (XI (XO (XO (XO (XO (XO (XO (XO (XO (XO (XO (XO (XO (XO
    (XO (XO (XO (XO (XO (XO (XO (XI (XO (XO (XO (XO
    XH)))))))))))))))))))))))))))))))) :: ((Npos (XO (XI (XI (XO (XI (XO (XI
    (XI (XO (XO (XO (XO (XO (XO (XO (XO (XO (XO (XO (XO (XO (XO (XO (XO (XO
    (XO (XI (XO (XI (XO (XO XH)))))))))))))))))))))))))))))))) :: ((Npos (XO
    (XI (XO (XO (XI (XO (XO (XO (XI (XO (XO (XO (XO (XO (XO (XO (XO (XO (XO
    (XO (XO (XO (XO (XO (XO (XO (XI (XO (XI (XO (XO
    XH)))))))))))))))))))))))))))))))) :: ((Npos (XI (XI (XO (XI (XO (XI (XI
    (XO (XO (XO (XO (XO (XO (XO (XO (XO (XO (XO (XO (XO (XO (XO (XO (XO (XO
    (XO (XI (XO (XO (XO (XO XH)))))))))))))))))))))))))))))))) :: ((Npos (XI
    (XI (XO (XI (XO (XI (XO (XO (XO (XO (XO (XO (XO (XO (XO (XO (XO (XO (XO
    (XO (XO (XO (XO (XO (XO (XO (XI (XO (XO (XO (XO
    XH)))))))))))))))))))))))))))))))) :: ((Npos (XO (XI (XI (XO (XI (XI (XO
    (XI (XO (XO (XO (XO (XO (XO (XO (XO (XO (XO (XO (XO (XO (XO (XO (XO (XO
    (XO (XI (XO (XI (XO (XO XH)))))))))))))))))))))))))))))))) :: ((Npos (XI
    (XI (XO (XI (XO (XO (XO (XO (XO (XO (XO (XO (XO (XO (XO (XO (XO (XO (XO
    (XO (XO (XO (XO (XO (XO (XO (XI (XO (XO (XO (XO
    XH)))))))))))))))))))))))))))))))) :: ((Npos (XI (XI (XO (XI (XO (XO (XO
    (XI (XO (XO (XO (XO (XO (XO (XO (XO (XO (XO (XO (XO (XO (XO (XO (XO (XO
    (XO (XI (XO (XO (XO (XO XH)))))))))))))))))))))))))))))))) :: ((Npos (XI
    (XI (XO (XI (XO (XO (XI (XO (XO (XO (XO (XO (XO (XO (XO (XO (XO (XO (XO
    (XO (XO (XO (XO (XO (XO (XO (XI (XO (XO (XO (XO
    XH)))))))))))))))))))))))))))))))) :: ((Npos (XO (XI (XI (XO (XI (XI (XI
    (XI (XO (XO (XO (XO (XO (XO (XO (XO (XO (XO (XO (XO (XO (XO (XO (XO (XO
    (XO (XI (XO (XI (XO (XO XH)))))))))))))))))))))))))))))))) :: ((Npos (XI
    (XI (XO (XO (XO (XO (XO (XO (XI (XO (XO (XO (XO (XO (XO (XO (XO (XO (XO
    (XO (XO (XO (XO (XO (XO (XO (XI (XO (XI (XI
    XH))))))))))))))))))))))))))))))) :: ((Npos (XI (XI (XI (XO (XI (XO (XI
    (XO (XO (XO (XO (XO (XO (XO (XO (XO (XO (XO (XO (XO (XO (XO (XO (XO (XO
    (XO (XI (XO (XO (XO (XO XH)))))))))))))))))))))))))))))))) :: ((Npos (XI
    (XI (XI (XO (XI (XO (XO (XO (XO (XO (XO (XO (XO (XO (XO (XO (XO (XO (XO
    (XO (XO (XO (XO (XO (XO (XO (XI (XO (XO (XO (XO
    XH)))))))))))))))))))))))))))))))) :: (N0 :: ((Npos (XO (XI (XO (XO (XI
    (XI (XO (XO (XI (XO (XO (XO (XO (XO (XO (XO (XO (XO (XO (XO (XO (XO (XO
    (XO (XO (XO (XI (XO (XO (XI (XO
    XH)))))))))))))))))))))))))))))))) :: ((Npos (XI (XI (XI (XO (XI (XI (XI
    (XO (XO (XO (XO (XO (XO (XO (XO (XO (XO (XO (XO (XO (XO (XO (XO (XO (XO
    (XO (XI (XO (XO (XO (XO XH)))))))))))))))))))))))))))))))) :: ((Npos (XI
    (XI (XI (XO (XI (XI (XO (XO (XO (XO (XO (XO (XO (XO (XO (XO (XO (XO (XO
    (XO (XO (XO (XO (XO (XO (XO (XI (XO (XO (XO (XO
    XH)))))))))))))))))))))))))))))))) :: ((Npos (XO (XI (XI (XI (XO (XO (XI
    (XI (XO (XO (XO (XO (XO (XO (XO (XO (XO (XO (XO (XO (XO (XO (XO (XO (XO
    (XO (XI (XO (XI (XO (XO XH)))))))))))))))))))))))))))))))) :: ((Npos (XO
    (XI (XI (XI (XO (XO (XO (XO (XI (XO (XO (XO (XO (XO (XO (XO (XO (XO (XO
    (XO (XO (XO (XO (XO (XO (XO (XI (XO (XO (XO (XO
    XH)))))))))))))))))))))))))))))))) :: ((Npos (XI (XI (XI (XO (XO (XI (XI
    (XO (XO (XO (XO (XO (XO (XO (XO (XO (XO (XO (XO (XO (XO (XO (XO (XO (XO
    (XO (XI (XO (XO (XO (XO XH)))))))))))))))))))))))))))))))) :: ((Npos (XI
    (XI (XI (XO (XO (XI (XO (XO (XO (XO (XO (XO (XO (XO (XO (XO (XO (XO (XO
    (XO (XO (XO (XO (XO (XO (XO (XI (XO (XO (XO (XO
    XH)))))))))))))))))))))))))))))))) :: ((Npos (XO (XI (XI (XI (XO (XI (XO
    (XI (XO (XO (XO (XO (XO (XO (XO (XO (XO (XO (XO (XO (XO (XO (XO (XO (XO
    (XO (XI (XO (XI (XO (XO XH)))))))))))))))))))))))))))))))) :: ((Npos (XI
    (XI (XI (XO (XO (XO (XO (XO (XO (XO (XO (XO (XO (XO (XO (XO (XO (XO (XO
    (XO (XO (XO (XO (XO (XO (XO (XI (XO (XO (XO (XO
    XH)))))))))))))))))))))))))))))))) :: ((Npos (XI (XI (XI (XO (XO (XO (XO
    (XI (XO (XO (XO (XO (XO (XO (XO (XO (XO (XO (XO (XO (XO (XO (XO (XO (XO
    (XO (XI (XO (XO (XO (XO XH)))))))))))))))))))))))))))))))) :: ((Npos (XI
    (XI (XI (XO (XO (XO (XI (XO (XO (XO (XO (XO (XO (XO (XO (XO (XO (XO (XO
    (XO (XO (XO (XO (XO (XO (XO (XI (XO (XO (XO (XO
    XH)))))))))))))))))))))))))))))))) :: ((Npos (XO (XI (XI (XI (XO (XI (XI
    (XI (XO (XO (XO (XO (XO (XO (XO (XO (XO (XO (XO (XO (XO (XO (XO (XO (XO
    (XO (XI (XO (XI (XO (XO XH)))))))))))))))))))))))))))))))) :: ((Npos (XI
    (XI (XI (XO (XO (XO (XO (XO (XI (XO (XO (XO (XO (XO (XO (XO (XO (XO (XO
    (XO (XO (XO (XO (XO (XO (XO (XI (XO (XI (XI
    XH))))))))))))))))))))))))))))))) :: ((Npos (XI (XI (XI (XI (XI (XO (XI
    (XO (XO (XO (XO (XO (XO (XO (XO (XO (XO (XO (XO (XO (XO (XO (XO (XO (XO
    (XO (XI (XO (XO (XO (XO XH)))))))))))))))))))))))))))))))) :: ((Npos (XI
    (XI (XI (XI (XI (XO (XO (XO (XO (XO (XO (XO (XO (XO (XO (XO (XO (XO (XO
    (XO (XO (XO (XO (XO (XO (XO (XI (XO (XO (XO (XO
    XH)))))))))))))))))))))))))))))))) :: ((Npos (XO (XI (XI (XI (XI (XO (XO
    (XI (XO (XO (XO (XO (XO (XO (XO (XO (XO (XO (XO (XO (XO (XO (XO (XO (XO
    (XO (XI (XO (XI (XO (XO XH)))))))))))))))))))))))))))))))) :: ((Npos (XO
    (XI (XO (XI (XO (XI (XI (XO (XI (XO (XO (XO (XO (XO (XO (XO (XO (XO (XO
    (XO (XO (XO (XO (XO (XO (XO (XI (XO (XI (XI (XO
    XH)))))))))))))))))))))))))))))))) :: ((Npos (XI (XI (XI (XI (XI (XI (XI
    (XO (XO (XO (XO (XO (XO (XO (XO (XO (XO (XO (XO (XO (XO (XO (XO (XO (XO
    (XO (XI (XO (XO (XO (XO XH)))))))))))))))))))))))))))))))) :: ((Npos (XI
    (XI (XI (XI (XI (XI (XO (XO (XO (XO (XO (XO (XO (XO (XO (XO (XO (XO (XO
    (XO (XO (XO (XO (XO (XO (XO (XI (XO (XO (XO (XO
    XH)))))))))))))))))))))))))))))))) :: ((Npos (XO (XI (XI (XI (XI (XO (XI
    (XI (XO (XO (XO (XO (XO (XO (XO (XO (XO (XO (XO (XO (XO (XO (XO (XO (XO
    (XO (XI (XO (XI (XO (XO XH)))))))))))))))))))))))))))))))) :: ((Npos (XO
    (XI (XO (XI (XI (XO (XO (XO (XI (XO (XO (XO (XO (XO (XO (XO (XO (XO (XO
    (XO (XO (XO (XO (XO (XO (XO (XI (XO (XI (XO (XO
    XH)))))))))))))))))))))))))))))))) :: ((Npos (XI (XI (XI (XI (XO (XI (XI
    (XO (XO (XO (XO (XO (XO (XO (XO (XO (XO (XO (XO (XO (XO (XO (XO (XO (XO
    (XO (XI (XO (XO (XO (XO XH)))))))))))))))))))))))))))))))) :: ((Npos (XI
    (XI (XI (XI (XO (XI (XO (XO (XO (XO (XO (XO (XO (XO (XO (XO (XO (XO (XO
    (XO (XO (XO (XO (XO (XO (XO (XI (XO (XO (XO (XO
    XH)))))))))))))))))))))))))))))))) :: ((Npos (XO (XI (XI (XI (XI (XI (XO
    (XI (XO (XO (XO (XO (XO (XO (XO (XO (XO (XO (XO (XO (XO (XO (XO (XO (XO
    (XO (XI (XO (XI (XO (XO XH)))))))))))))))))))))))))))))))) :: ((Npos (XI
    (XI (XI (XI (XO (XO (XO (XO (XO (XO (XO (XO (XO (XO (XO (XO (XO (XO (XO
    (XO (XO (XO (XO (XO (XO (XO (XI (XO (XO (XO (XO
    XH)))))))))))))))))))))))))))))))) :: ((Npos (XI (XI (XI (XI (XO (XO (XO
    (XI (XO (XO (XO (XO (XO (XO (XO (XO (XO (XO (XO (XO (XO (XO (XO (XO (XO
    (XO (XI (XO (XO (XO (XO XH)))))))))))))))))))))))))))))))) :: ((Npos (XI
    (XI (XI (XI (XO (XO (XI (XO (XO (XO (XO (XO (XO (XO (XO (XO (XO (XO (XO
    (XO (XO (XO (XO (XO (XO (XO (XI (XO (XO (XO (XO
    XH)))))))))))))))))))))))))))))))) :: ((Npos (XO (XI (XI (XI (XI (XI (XI
    (XI (XO (XO (XO (XO (XO (XO (XO (XO (XO (XO (XO (XO (XO (XO (XO (XO (XO
    (XO (XI (XO (XI (XO (XO XH)))))))))))))))))))))))))))))))) :: ((Npos (XO
    (XO (XO (XO (XO (XO (XO (XO (XI (XO (XO (XO (XO (XO (XO (XO (XO (XO (XO
    (XO (XO (XO (XO (XO (XO (XO (XI (XO (XI (XI
    XH))))))))))))))))))))))))))))))) :: ((Npos (XO (XO (XO (XO (XI (XO (XI
    (XO (XO (XO (XO (XO (XO (XO (XO (XO (XO (XO (XO (XO (XO (XO (XO (XO (XO
    (XO (XI (XO (XO (XO (XO XH)))))))))))))))))))))))))))))))) :: ((Npos (XO
    (XO (XO (XO (XI (XO (XO (XO (XO (XO (XO (XO (XO (XO (XO (XO (XO (XO (XO
    (XO (XO (XO (XO (XO (XO (XO (XI (XO (XO (XO (XO
    XH)))))))))))))))))))))))))))))))) :: ((Npos (XO (XI (XI (XI (XI (XI (XI
    (XO (XI (XO (XO (XO (XO (XO (XO (XO (XO (XO (XO (XO (XO (XO (XO (XO (XO
    (XO (XI (XO (XO (XO (XI XH)))))))))))))))))))))))))))))))) :: ((Npos (XI
    (XI (XI (XI (XI (XO (XO (XO (XI (XO (XO (XO (XO (XO (XO (XO (XO (XO (XO
    (XO (XO (XO (XO (XO (XO (XO (XI (XO (XI (XO (XO
    XH)))))))))))))))))))))))))))))))) :: ((Npos (XO (XO (XO (XO (XI (XI (XI
    (XO (XO (XO (XO (XO (XO (XO (XO (XO (XO (XO (XO (XO (XO (XO (XO (XO (XO
    (XO (XI (XO (XO (XO (XO XH)))))))))))))))))))))))))))))))) :: ((Npos (XO
    (XO (XO (XO (XI (XI (XO (XO (XO (XO (XO (XO (XO (XO (XO (XO (XO (XO (XO
    (XO (XO (XO (XO (XO (XO (XO (XI (XO (XO (XO (XO
    XH)))))))))))))))))))))))))))))))) :: ((Npos (XI (XO (XO (XO (XO (XO (XI
    (XI (XO (XO (XO (XO (XO (XO (XO (XO (XO (XO (XO (XO (XO (XO (XO (XO (XO
    (XO (XI (XO (XI (XO (XO XH)))))))))))))))))))))))))))))))) :: ((Npos (XO
    (XO (XO (XI (XO (XO (XO (XO (XI (XO (XO (XO (XO (XO (XO (XO (XO (XO (XO
    (XO (XO (XO (XO (XO (XO (XO (XI (XO (XI (XI
    XH))))))))))))))))))))))))))))))) :: ((Npos (XO (XO (XO (XO (XO (XI (XI
    (XO (XO (XO (XO (XO (XO (XO (XO (XO (XO (XO (XO (XO (XO (XO (XO (XO (XO
    (XO (XI (XO (XO (XO (XO XH)))))))))))))))))))))))))))))))) :: ((Npos (XO
    (XO (XO (XO (XO (XI (XO (XO (XO (XO (XO (XO (XO (XO (XO (XO (XO (XO (XO
    (XO (XO (XO (XO (XO (XO (XO (XI (XO (XO (XO (XO
    XH)))))))))))))))))))))))))))))))) :: ((Npos (XI (XO (XO (XO (XO (XI (XO
    (XI (XO (XO (XO (XO (XO (XO (XO (XO (XO (XO (XO (XO (XO (XO (XO (XO (XO
    (XO (XI (XO (XI (XO (XO XH)))))))))))))))))))))))))))))))) :: ((Npos (XO
    (XO (XO (XO (XO (XO (XO (XO (XO (XO (XO (XO (XO (XO (XO (XO (XO (XO (XO
    (XO (XO (XO (XO (XO (XO (XO (XI (XO (XO (XO (XO
    XH)))))))))))))))))))))))))))))))) :: ((Npos (XO (XO (XO (XO (XO (XO (XO
    (XI (XO (XO (XO (XO (XO (XO (XO (XO (XO (XO (XO (XO (XO (XO (XO (XO (XO
    (XO (XI (XO (XO (XO (XO XH)))))))))))))))))))))))))))))))) :: ((Npos (XO
    (XO (XO (XO (XO (XO (XI (XO (XO (XO (XO (XO (XO (XO (XO (XO (XO (XO (XO
    (XO (XO (XO (XO (XO (XO (XO (XI (XO (XO (XO (XO
    XH)))))))))))))))))))))))))))))))) :: ((Npos (XI (XO (XO (XO (XO (XI (XI
    (XI (XO (XO (XO (XO (XO (XO (XO (XO (XO (XO (XO (XO (XO (XO (XO (XO (XO
    (XO (XI (XO (XI (XO (XO XH)))))))))))))))))))))))))))))))) :: ((Npos (XO
    (XO (XI (XO (XO (XO (XO (XO (XI (XO (XO (XO (XO (XO (XO (XO (XO (XO (XO
    (XO (XO (XO (XO (XO (XO (XO (XI (XO (XI (XI
    XH))))))))))))))))))))))))))))))) :: ((Npos (XO (XO (XO (XI (XI (XO (XI
    (XO (XO (XO (XO (XO (XO (XO (XO (XO (XO (XO (XO (XO (XO (XO (XO (XO (XO
    (XO (XI (XO (XO (XO (XO XH)))))))))))))))))))))))))))))))) :: ((Npos (XO
    (XO (XO (XI (XI (XO (XO (XO (XO (XO (XO (XO (XO (XO (XO (XO (XO (XO (XO
    (XO (XO (XO (XO (XO (XO (XO (XI (XO (XO (XO (XO
    XH)))))))))))))))))))))))))))))))) :: ((Npos (XI (XO (XO (XO (XI (XO (XO
    (XI (XO (XO (XO (XO (XO (XO (XO (XO (XO (XO (XO (XO (XO (XO (XO (XO (XO
    (XO (XI (XO (XI (XO (XO XH)))))))))))))))))))))))))))))))) :: ((Npos (XI
    (XI (XO (XI (XI (XI (XO (XO (XI (XO (XO (XO (XO (XO (XO (XO (XO (XO (XO
    (XO (XO (XO (XO (XO (XO (XO (XI (XO (XO (XI (XO
    XH)))))))))))))))))))))))))))))))) :: ((Npos (XO (XO (XO (XI (XI (XI (XI
    (XO (XO (XO (XO (XO (XO (XO (XO (XO (XO (XO (XO (XO (XO (XO (XO (XO (XO
    (XO (XI (XO (XO (XO (XO XH)))))))))))))))))))))))))))))))) :: ((Npos (XO
    (XO (XO (XI (XI (XI (XO (XO (XO (XO (XO (XO (XO (XO (XO (XO (XO (XO (XO
    (XO (XO (XO (XO (XO (XO (XO (XI (XO (XO (XO (XO
    XH)))))))))))))))))))))))))))))))) :: ((Npos (XI (XO (XO (XO (XI (XO (XI
    (XI (XO (XO (XO (XO (XO (XO (XO (XO (XO (XO (XO (XO (XO (XO (XO (XO (XO
    (XO (XI (XO (XI (XO (XO XH)))))))))))))))))))))))))))))))) :: ((Npos (XI
    (XI (XI (XI (XO (XO (XO (XO (XI (XO (XO (XO (XO (XO (XO (XO (XO (XO (XO
    (XO (XO (XO (XO (XO (XO (XO (XI (XO (XO (XO (XO
    XH)))))))))))))))))))))))))))))))) :: ((Npos (XO (XO (XO (XI (XO (XI (XI
    (XO (XO (XO (XO (XO (XO (XO (XO (XO (XO (XO (XO (XO (XO (XO (XO (XO (XO
    (XO (XI (XO (XO (XO (XO XH)))))))))))))))))))))))))))))))) :: ((Npos (XO
    (XO (XO (XI (XO (XI (XO (XO (XO (XO (XO (XO (XO (XO (XO (XO (XO (XO (XO
    (XO (XO (XO (XO (XO (XO (XO (XI (XO (XO (XO (XO
    XH)))))))))))))))))))))))))))))))) :: ((Npos (XI (XO (XO (XO (XI (XI (XO
    (XI (XO (XO (XO (XO (XO (XO (XO (XO (XO (XO (XO (XO (XO (XO (XO (XO (XO
    (XO (XI (XO (XI (XO (XO XH)))))))))))))))))))))))))))))))) :: ((Npos (XO
    (XO (XO (XI (XO (XO (XO (XO (XO (XO (XO (XO (XO (XO (XO (XO (XO (XO (XO
    (XO (XO (XO (XO (XO (XO (XO (XI (XO (XO (XO (XO
    XH)))))))))))))))))))))))))))))))) :: ((Npos (XO (XO (XO (XI (XO (XO (XO
    (XI (XO (XO (XO (XO (XO (XO (XO (XO (XO (XO (XO (XO (XO (XO (XO (XO (XO
    (XO (XI (XO (XO (XO (XO XH)))))))))))))))))))))))))))))))) :: ((Npos (XO
    (XO (XO (XI (XO (XO (XI (XO (XO (XO (XO (XO (XO (XO (XO (XO (XO (XO (XO
    (XO (XO (XO (XO (XO (XO (XO (XI (XO (XO (XO (XO
    XH)))))))))))))))))))))))))))))))) :: ((Npos (XI (XO (XO (XO (XI (XI (XI
    (XI (XO (XO (XO (XO (XO (XO (XO (XO (XO (XO (XO (XO (XO (XO (XO (XO (XO
    (XO (XI (XO (XI (XO (XO XH)))))))))))))))))))))))))))))))) :: ((Npos (XO
    (XI (XO (XO (XO (XO (XO (XO (XI (XO (XO (XO (XO (XO (XO (XO (XO (XO (XO
    (XO (XO (XO (XO (XO (XO (XO (XI (XO (XI (XI
    XH))))))))))))))))))))))))))))))) :: ((Npos (XO (XO (XI (XO (XI (XO (XI
    (XO (XO (XO (XO (XO (XO (XO (XO (XO (XO (XO (XO (XO (XO (XO (XO (XO (XO
    (XO (XI (XO (XO (XO (XO XH)))))))))))))))))))))))))))))))) :: ((Npos (XO
    (XO (XI (XO (XI (XO (XO (XO (XO (XO (XO (XO (XO (XO (XO (XO (XO (XO (XO
    (XO (XO (XO (XO (XO (XO (XO (XI (XO (XO (XO (XO
    XH)))))))))))))))))))))))))))))))) :: ((Npos (XO (XI (XO (XI (XI (XI (XI
    (XO (XO (XO (XO (XO (XO (XO (XO (XO (XO (XO (XO (XO (XO (XO (XO (XO (XO
    (XI (XI (XO (XI XH)))))))))))))))))))))))))))))) :: ((Npos (XI (XI (XO
    (XI (XO (XI (XO (XO (XI (XO (XO (XO (XO (XO (XO (XO (XO (XO (XO (XO (XO
    (XO (XO (XO (XO (XO (XI (XO (XO (XI (XO
    XH)))))))))))))))))))))))))))))))) :: ((Npos (XO (XO (XI (XO (XI (XI (XI
    (XO (XO (XO (XO (XO (XO (XO (XO (XO (XO (XO (XO (XO (XO (XO (XO (XO (XO
    (XO (XI (XO (XO (XO (XO XH)))))))))))))))))))))))))))))))) :: ((Npos (XO
    (XO (XI (XO (XI (XI (XO (XO (XO (XO (XO (XO (XO (XO (XO (XO (XO (XO (XO
    (XO (XO (XO (XO (XO (XO (XO (XI (XO (XO (XO (XO
    XH)))))))))))))))))))))))))))))))) :: ((Npos (XI (XO (XO (XI (XO (XO (XI
    (XI (XO (XO (XO (XO (XO (XO (XO (XO (XO (XO (XO (XO (XO (XO (XO (XO (XO
    (XO (XI (XO (XI (XO (XO XH)))))))))))))))))))))))))))))))) :: ((Npos (XI
    (XI (XO (XI (XO (XO (XO (XO (XI (XO (XO (XO (XO (XO (XO (XO (XO (XO (XO
    (XO (XO (XO (XO (XO (XO (XO (XI (XO (XO (XO (XO
    XH)))))))))))))))))))))))))))))))) :: ((Npos (XO (XO (XI (XO (XO (XI (XI
    (XO (XO (XO (XO (XO (XO (XO (XO (XO (XO (XO (XO (XO (XO (XO (XO (XO (XO
    (XO (XI (XO (XO (XO (XO XH)))))))))))))))))))))))))))))))) :: ((Npos (XO
    (XO (XI (XO (XO (XI (XO (XO (XO (XO (XO (XO (XO (XO (XO (XO (XO (XO (XO
    (XO (XO (XO (XO (XO (XO (XO (XI (XO (XO (XO (XO
    XH)))))))))))))))))))))))))))))))) :: ((Npos (XI (XO (XO (XI (XO (XI (XO
    (XI (XO (XO (XO (XO (XO (XO (XO (XO (XO (XO (XO (XO (XO (XO (XO (XO (XO
    (XO (XI (XO (XI (XO (XO XH)))))))))))))))))))))))))))))))) :: ((Npos (XO
    (XO (XI (XO (XO (XO (XO (XO (XO (XO (XO (XO (XO (XO (XO (XO (XO (XO (XO
    (XO (XO (XO (XO (XO (XO (XO (XI (XO (XO (XO (XO
    XH)))))))))))))))))))))))))))))))) :: ((Npos (XO (XO (XI (XO (XO (XO (XO
    (XI (XO (XO (XO (XO (XO (XO (XO (XO (XO (XO (XO (XO (XO (XO (XO (XO (XO
    (XO (XI (XO (XO (XO (XO XH)))))))))))))))))))))))))))))))) :: ((Npos (XO
    (XO (XI (XO (XO (XO (XI (XO (XO (XO (XO (XO (XO (XO (XO (XO (XO (XO (XO
    (XO (XO (XO (XO (XO (XO (XO (XI (XO (XO (XO (XO
    XH)))))))))))))))))))))))))))))))) :: ((Npos (XI (XO (XO (XI (XO (XI (XI
    (XI (XO (XO (XO (XO (XO (XO (XO (XO (XO (XO (XO (XO (XO (XO (XO (XO (XO
    (XO (XI (XO (XI (XO (XO XH)))))))))))))))))))))))))))))))) :: ((Npos (XO
    (XI (XI (XO (XO (XO (XO (XO (XI (XO (XO (XO (XO (XO (XO (XO (XO (XO (XO
    (XO (XO (XO (XO (XO (XO (XO (XI (XO (XI (XI
    XH))))))))))))))))))))))))))))))) :: ((Npos (XO (XO (XI (XI (XI (XO (XI
    (XO (XO (XO (XO (XO (XO (XO (XO (XO (XO (XO (XO (XO (XO (XO (XO (XO (XO
    (XO (XI (XO (XO (XO (XO XH)))))))))))))))))))))))))))))))) :: ((Npos (XO
    (XO (XI (XI (XI (XO (XO (XO (XO (XO (XO (XO (XO (XO (XO (XO (XO (XO (XO
    (XO (XO (XO (XO (XO (XO (XO (XI (XO (XO (XO (XO
    XH)))))))))))))))))))))))))))))))) :: ((Npos (XI (XO (XO (XI (XI (XO (XO
    (XI (XO (XO (XO (XO (XO (XO (XO (XO (XO (XO (XO (XO (XO (XO (XO (XO (XO
    (XO (XI (XO (XI (XO (XO XH)))))))))))))))))))))))))))))))) :: ((Npos (XI
    (XI (XO (XI (XI (XO (XI (XO (XI (XO (XO (XO (XO (XO (XO (XO (XO (XO (XO
    (XO (XO (XO (XO (XO (XO (XO (XI (XO (XI (XI (XO
    XH)))))))))))))))))))))))))))))))) :: ((Npos (XO (XO (XI (XI (XI (XI (XI
    (XO (XO (XO (XO (XO (XO (XO (XO (XO (XO (XO (XO (XO (XO (XO (XO (XO (XO
    (XO (XI (XO (XO (XO (XO XH)))))))))))))))))))))))))))))))) :: ((Npos (XO
    (XO (XI (XI (XI (XI (XO (XO (XO (XO (XO (XO (XO (XO (XO (XO (XO (XO (XO
    (XO (XO (XO (XO (XO (XO (XO (XI (XO (XO (XO (XO
    XH)))))))))))))))))))))))))))))))) :: ((Npos (XI (XO (XO (XI (XI (XO (XI
    (XI (XO (XO (XO (XO (XO (XO (XO (XO (XO (XO (XO (XO (XO (XO (XO (XO (XO
    (XO (XI (XO (XI (XO (XO XH)))))))))))))))))))))))))))))))) :: ((Npos (XI
    (XI (XI (XO (XI (XO (XO (XO (XI (XO (XO (XO (XO (XO (XO (XO (XO (XO (XO
    (XO (XO (XO (XO (XO (XO (XO (XI (XO (XI (XO (XO
    XH)))))))))))))))))))))))))))))))) :: ((Npos (XO (XO (XI (XI (XO (XI (XI
    (XO (XO (XO (XO (XO (XO (XO (XO (XO (XO (XO (XO (XO (XO (XO (XO (XO (XO
    (XO (XI (XO (XO (XO (XO XH)))))))))))))))))))))))))))))))) :: ((Npos (XO
    (XO (XI (XI (XO (XI (XO (XO (XO (XO (XO (XO (XO (XO (XO (XO (XO (XO (XO
    (XO (XO (XO (XO (XO (XO (XO (XI (XO (XO (XO (XO
    XH)))))))))))))))))))))))))))))))) :: ((Npos (XI (XO (XO (XI (XI (XI (XO
    (XI (XO (XO (XO (XO (XO (XO (XO (XO (XO (XO (XO (XO (XO (XO (XO (XO (XO
    (XO (XI (XO (XI (XO (XO XH)))))))))))))))))))))))))))))))) :: ((Npos (XO
    (XO (XI (XI (XO (XO (XO (XO (XO (XO (XO (XO (XO (XO (XO (XO (XO (XO (XO
    (XO (XO (XO (XO (XO (XO (XO (XI (XO (XO (XO (XO
    XH)))))))))))))))))))))))))))))))) :: ((Npos (XO (XO (XI (XI (XO (XO (XO
    (XI (XO (XO (XO (XO (XO (XO (XO (XO (XO (XO (XO (XO (XO (XO (XO (XO (XO
    (XO (XI (XO (XO (XO (XO XH)))))))))))))))))))))))))))))))) :: ((Npos (XO
    (XO (XI (XI (XO (XO (XI (XO (XO (XO (XO (XO (XO (XO (XO (XO (XO (XO (XO
    (XO (XO (XO (XO (XO (XO (XO (XI (XO (XO (XO (XO
    XH)))))))))))))))))))))))))))))))) :: ((Npos (XI (XO (XO (XI (XI (XI (XI
    (XI (XO (XO (XO (XO (XO (XO (XO (XO (XO (XO (XO (XO (XO (XO (XO (XO (XO
    (XO (XI (XO (XI (XO (XO XH)))))))))))))))))))))))))))))))) :: ((Npos (XI
    (XO (XO (XO (XO (XO (XO (XO (XI (XO (XO (XO (XO (XO (XO (XO (XO (XO (XO
    (XO (XO (XO (XO (XO (XO (XO (XI (XO (XI (XI
    XH))))))))))))))))))))))))))))))) :: ((Npos (XO (XI (XO (XO (XI (XO (XI
    (XO (XO (XO (XO (XO (XO (XO (XO (XO (XO (XO (XO (XO (XO (XO (XO (XO (XO
    (XO (XI (XO (XO (XO (XO XH)))))))))))))))))))))))))))))))) :: ((Npos (XO
    (XI (XO (XO (XI (XO (XO (XO (XO (XO (XO (XO (XO (XO (XO (XO (XO (XO (XO
    (XO (XO (XO (XO (XO (XO (XO (XI (XO (XO (XO (XO
    XH)))))))))))))))))))))))))))))))) :: ((Npos (XO (XI (XO (XI (XI (XI (XO
    (XO (XO (XO (XO (XO (XO (XO (XO (XO (XO (XO (XO (XO (XO (XO (XO (XO (XO
    (XI (XI (XO (XI XH)))))))))))))))))))))))))))))) :: ((Npos (XI (XI (XO
    (XO (XO (XI (XO (XO (XI (XO (XO (XO (XO (XO (XO (XO (XO (XO (XO (XO (XO
    (XO (XO (XO (XO (XO (XI (XO (XO (XI (XO
    XH)))))))))))))))))))))))))))))))) :: ((Npos (XO (XI (XO (XO (XI (XI (XI
    (XO (XO (XO (XO (XO (XO (XO (XO (XO (XO (XO (XO (XO (XO (XO (XO (XO (XO
    (XO (XI (XO (XO (XO (XO XH)))))))))))))))))))))))))))))))) :: ((Npos (XO
    (XI (XO (XO (XI (XI (XO (XO (XO (XO (XO (XO (XO (XO (XO (XO (XO (XO (XO
    (XO (XO (XO (XO (XO (XO (XO (XI (XO (XO (XO (XO
    XH)))))))))))))))))))))))))))))))) :: ((Npos (XI (XO (XI (XO (XO (XO (XI
    (XI (XO (XO (XO (XO (XO (XO (XO (XO (XO (XO (XO (XO (XO (XO (XO (XO (XO
    (XO (XI (XO (XI (XO (XO XH)))))))))))))))))))))))))))))))) :: ((Npos (XI
    (XO (XO (XI (XO (XO (XO (XO (XI (XO (XO (XO (XO (XO (XO (XO (XO (XO (XO
    (XO (XO (XO (XO (XO (XO (XO (XI (XO (XO (XO (XO
    XH)))))))))))))))))))))))))))))))) :: ((Npos (XO (XI (XO (XO (XO (XI (XI
    (XO (XO (XO (XO (XO (XO (XO (XO (XO (XO (XO (XO (XO (XO (XO (XO (XO (XO
    (XO (XI (XO (XO (XO (XO XH)))))))))))))))))))))))))))))))) :: ((Npos (XO
    (XI (XO (XO (XO (XI (XO (XO (XO (XO (XO (XO (XO (XO (XO (XO (XO (XO (XO
    (XO (XO (XO (XO (XO (XO (XO (XI (XO (XO (XO (XO
    XH)))))))))))))))))))))))))))))))) :: ((Npos (XI (XO (XI (XO (XO (XI (XO
    (XI (XO (XO (XO (XO (XO (XO (XO (XO (XO (XO (XO (XO (XO (XO (XO (XO (XO
    (XO (XI (XO (XI (XO (XO XH)))))))))))))))))))))))))))))))) :: ((Npos (XO
    (XI (XO (XO (XO (XO (XO (XO (XO (XO (XO (XO (XO (XO (XO (XO (XO (XO (XO
    (XO (XO (XO (XO (XO (XO (XO (XI (XO (XO (XO (XO
    XH)))))))))))))))))))))))))))))))) :: ((Npos (XO (XI (XO (XO (XO (XO (XO
    (XI (XO (XO (XO (XO (XO (XO (XO (XO (XO (XO (XO (XO (XO (XO (XO (XO (XO
    (XO (XI (XO (XO (XO (XO XH)))))))))))))))))))))))))))))))) :: ((Npos (XO
    (XI (XO (XO (XO (XO (XI (XO (XO (XO (XO (XO (XO (XO (XO (XO (XO (XO (XO
    (XO (XO (XO (XO (XO (XO (XO (XI (XO (XO (XO (XO
    XH)))))))))))))))))))))))))))))))) :: ((Npos (XI (XO (XI (XO (XO (XI (XI
    (XI (XO (XO (XO (XO (XO (XO (XO (XO (XO (XO (XO (XO (XO (XO (XO (XO (XO
    (XO (XI (XO (XI (XO (XO XH)))))))))))))))))))))))))))))))) :: ((Npos (XI
    (XO (XI (XO (XO (XO (XO (XO (XI (XO (XO (XO (XO (XO (XO (XO (XO (XO (XO
    (XO (XO (XO (XO (XO (XO (XO (XI (XO (XI (XI
    XH))))))))))))))))))))))))))))))) :: ((Npos (XO (XI (XO (XI (XI (XO (XI
    (XO (XO (XO (XO (XO (XO (XO (XO (XO (XO (XO (XO (XO (XO (XO (XO (XO (XO
    (XO (XI (XO (XO (XO (XO XH)))))))))))))))))))))))))))))))) :: ((Npos (XO
    (XI (XO (XI (XI (XO (XO (XO (XO (XO (XO (XO (XO (XO (XO (XO (XO (XO (XO
    (XO (XO (XO (XO (XO (XO (XO (XI (XO (XO (XO (XO
    XH)))))))))))))))))))))))))))))))) :: ((Npos (XI (XO (XI (XO (XI (XO (XO
    (XI (XO (XO (XO (XO (XO (XO (XO (XO (XO (XO (XO (XO (XO (XO (XO (XO (XO
    (XO (XI (XO (XI (XO (XO XH)))))))))))))))))))))))))))))))) :: ((Npos (XI
    (XI (XO (XI (XO (XO (XI (XO (XI (XO (XO (XO (XO (XO (XO (XO (XO (XO (XO
    (XO (XO (XO (XO (XO (XO (XO (XI (XO (XI (XI (XO
    XH)))))))))))))))))))))))))))))))) :: ((Npos (XO (XI (XO (XI (XI (XI (XI
    (XO (XO (XO (XO (XO (XO (XO (XO (XO (XO (XO (XO (XO (XO (XO (XO (XO (XO
    (XO (XI (XO (XO (XO (XO XH)))))))))))))))))))))))))))))))) :: ((Npos (XO
    (XI (XO (XI (XI (XI (XO (XO (XO (XO (XO (XO (XO (XO (XO (XO (XO (XO (XO
    (XO (XO (XO (XO (XO (XO (XO (XI (XO (XO (XO (XO
    XH)))))))))))))))))))))))))))))))) :: ((Npos (XI (XO (XI (XO (XI (XO (XI
    (XI (XO (XO (XO (XO (XO (XO (XO (XO (XO (XO (XO (XO (XO (XO (XO (XO (XO
    (XO (XI (XO (XI (XO (XO XH)))))))))))))))))))))))))))))))) :: ((Npos (XI
    (XI (XO (XO (XI (XO (XO (XO (XI (XO (XO (XO (XO (XO (XO (XO (XO (XO (XO
    (XO (XO (XO (XO (XO (XO (XO (XI (XO (XI (XO (XO
    XH)))))))))))))))))))))))))))))))) :: ((Npos (XO (XI (XO (XI (XO (XI (XI
    (XO (XO (XO (XO (XO (XO (XO (XO (XO (XO (XO (XO (XO (XO (XO (XO (XO (XO
    (XO (XI (XO (XO (XO (XO XH)))))))))))))))))))))))))))))))) :: ((Npos (XO
    (XI (XO (XI (XO (XI (XO (XO (XO (XO (XO (XO (XO (XO (XO (XO (XO (XO (XO
    (XO (XO (XO (XO (XO (XO (XO (XI (XO (XO (XO (XO
    XH)))))))))))))))))))))))))))))))) :: ((Npos (XI (XO (XI (XO (XI (XI (XO
    (XI (XO (XO (XO (XO (XO (XO (XO (XO (XO (XO (XO (XO (XO (XO (XO (XO (XO
    (XO (XI (XO (XI (XO (XO XH)))))))))))))))))))))))))))))))) :: ((Npos (XO
    (XI (XO (XI (XO (XO (XO (XO (XO (XO (XO (XO (XO (XO (XO (XO (XO (XO (XO
    (XO (XO (XO (XO (XO (XO (XO (XI (XO (XO (XO (XO
    XH)))))))))))))))))))))))))))))))) :: ((Npos (XO (XI (XO (XI (XO (XO (XO
    (XI (XO (XO (XO (XO (XO (XO (XO (XO (XO (XO (XO (XO (XO (XO (XO (XO (XO
    (XO (XI (XO (XO (XO (XO XH)))))))))))))))))))))))))))))))) :: ((Npos (XO
    (XI (XO (XI (XO (XO (XI (XO (XO (XO (XO (XO (XO (XO (XO (XO (XO (XO (XO
    (XO (XO (XO (XO (XO (XO (XO (XI (XO (XO (XO (XO
    XH)))))))))))))))))))))))))))))))) :: ((Npos (XI (XO (XI (XO (XI (XI (XI
    (XI (XO (XO (XO (XO (XO (XO (XO (XO (XO (XO (XO (XO (XO (XO (XO (XO (XO
    (XO (XI (XO (XI (XO (XO XH)))))))))))))))))))))))))))))))) :: ((Npos (XI
    (XI (XO (XO (XO (XO (XO (XO (XI (XO (XO (XO (XO (XO (XO (XO (XO (XO (XO
    (XO (XO (XO (XO (XO (XO (XO (XI (XO (XI (XI
    XH))))))))))))))))))))))))))))))) :: ((Npos (XO (XI (XI (XO (XI (XO (XI
    (XO (XO (XO (XO (XO (XO (XO (XO (XO (XO (XO (XO (XO (XO (XO (XO (XO (XO
    (XO (XI (XO (XO (XO (XO XH)))))))))))))))))))))))))))))))) :: ((Npos (XO
    (XI (XI (XO (XI (XO (XO (XO (XO (XO (XO (XO (XO (XO (XO (XO (XO (XO (XO
    (XO (XO (XO (XO (XO (XO (XO (XI (XO (XO (XO (XO
    XH)))))))))))))))))))))))))))))))) :: (N0 :: ((Npos (XI (XI (XO (XO (XI
    (XI (XO (XO (XI (XO (XO (XO (XO (XO (XO (XO (XO (XO (XO (XO (XO (XO (XO
    (XO (XO (XO (XI (XO (XO (XI (XO
    XH)))))))))))))))))))))))))))))))) :: ((Npos (XO (XI (XI (XO (XI (XI (XI
    (XO (XO (XO (XO (XO (XO (XO (XO (XO (XO (XO (XO (XO (XO (XO (XO (XO (XO
    (XO (XI (XO (XO (XO (XO XH)))))))))))))))))))))))))))))))) :: ((Npos (XO
    (XI (XI (XO (XI (XI (XO (XO (XO (XO (XO (XO (XO (XO (XO (XO (XO (XO (XO
    (XO (XO (XO (XO (XO (XO (XO (XI (XO (XO (XO (XO
    XH)))))))))))))))))))))))))))))))) :: ((Npos (XI (XO (XI (XI (XO (XO (XI
    (XI (XO (XO (XO (XO (XO (XO (XO (XO (XO (XO (XO (XO (XO (XO (XO (XO (XO
    (XO (XI (XO (XI (XO (XO XH)))))))))))))))))))))))))))))))) :: ((Npos (XI
    (XO (XI (XI (XO (XO (XO (XO (XI (XO (XO (XO (XO (XO (XO (XO (XO (XO (XO
    (XO (XO (XO (XO (XO (XO (XO (XI (XO (XO (XO (XO
    XH)))))))))))))))))))))))))))))))) :: ((Npos (XO (XI (XI (XO (XO (XI (XI
    (XO (XO (XO (XO (XO (XO (XO (XO (XO (XO (XO (XO (XO (XO (XO (XO (XO (XO
    (XO (XI (XO (XO (XO (XO XH)))))))))))))))))))))))))))))))) :: ((Npos (XO
    (XI (XI (XO (XO (XI (XO (XO (XO (XO (XO (XO (XO (XO (XO (XO (XO (XO (XO
    (XO (XO (XO (XO (XO (XO (XO (XI (XO (XO (XO (XO
    XH)))))))))))))))))))))))))))))))) :: ((Npos (XI (XO (XI (XI (XO (XI (XO
    (XI (XO (XO (XO (XO (XO (XO (XO (XO (XO (XO (XO (XO (XO (XO (XO (XO (XO
    (XO (XI (XO (XI (XO (XO XH)))))))))))))))))))))))))))))))) :: ((Npos (XO
    (XI (XI (XO (XO (XO (XO (XO (XO (XO (XO (XO (XO (XO (XO (XO (XO (XO (XO
    (XO (XO (XO (XO (XO (XO (XO (XI (XO (XO (XO (XO
    XH)))))))))))))))))))))))))))))))) :: ((Npos (XO (XI (XI (XO (XO (XO (XO
    (XI (XO (XO (XO (XO (XO (XO (XO (XO (XO (XO (XO (XO (XO (XO (XO (XO (XO
    (XO (XI (XO (XO (XO (XO XH)))))))))))))))))))))))))))))))) :: ((Npos (XO
    (XI (XI (XO (XO (XO (XI (XO (XO (XO (XO (XO (XO (XO (XO (XO (XO (XO (XO
    (XO (XO (XO (XO (XO (XO (XO (XI (XO (XO (XO (XO
    XH)))))))))))))))))))))))))))))))) :: ((Npos (XI (XO (XI (XI (XO (XI (XI
    (XI (XO (XO (XO (XO (XO (XO (XO (XO (XO (XO (XO (XO (XO (XO (XO (XO (XO
    (XO (XI (XO (XI (XO (XO XH)))))))))))))))))))))))))))))))) :: ((Npos (XI
    (XI (XI (XO (XO (XO (XO (XO (XI (XO (XO (XO (XO (XO (XO (XO (XO (XO (XO
    (XO (XO (XO (XO (XO (XO (XO (XI (XO (XI (XI
    XH))))))))))))))))))))))))))))))) :: ((Npos (XO (XI (XI (XI (XI (XO (XI
    (XO (XO (XO (XO (XO (XO (XO (XO (XO (XO (XO (XO (XO (XO (XO (XO (XO (XO
    (XO (XI (XO (XO (XO (XO XH)))))))))))))))))))))))))))))))) :: ((Npos (XO
    (XI (XI (XI (XI (XO (XO (XO (XO (XO (XO (XO (XO (XO (XO (XO (XO (XO (XO
    (XO (XO (XO (XO (XO (XO (XO (XI (XO (XO (XO (XO
    XH)))))))))))))))))))))))))))))))) :: ((Npos (XI (XO (XI (XI (XI (XO (XO
    (XI (XO (XO (XO (XO (XO (XO (XO (XO (XO (XO (XO (XO (XO (XO (XO (XO (XO
    (XO (XI (XO (XI (XO (XO XH)))))))))))))))))))))))))))))))) :: ((Npos (XI
    (XI (XO (XI (XO (XI (XI (XO (XI (XO (XO (XO (XO (XO (XO (XO (XO (XO (XO
    (XO (XO (XO (XO (XO (XO (XO (XI (XO (XI (XI (XO
    XH)))))))))))))))))))))))))))))))) :: ((Npos (XO (XI (XI (XI (XI (XI (XI
    (XO (XO (XO (XO (XO (XO (XO (XO (XO (XO (XO (XO (XO (XO (XO (XO (XO (XO
    (XO (XI (XO (XO (XO (XO XH)))))))))))))))))))))))))))))))) :: ((Npos (XO
    (XI (XI (XI (XI (XI (XO (XO (XO (XO (XO (XO (XO (XO (XO (XO (XO (XO (XO
    (XO (XO (XO (XO (XO (XO (XO (XI (XO (XO (XO (XO
    XH)))))))))))))))))))))))))))))))) :: ((Npos (XI (XO (XI (XI (XI (XO (XI
    (XI (XO (XO (XO (XO (XO (XO (XO (XO (XO (XO (XO (XO (XO (XO (XO (XO (XO
    (XO (XI (XO (XI (XO (XO XH)))))))))))))))))))))))))))))))) :: ((Npos (XI
    (XI (XO (XI (XI (XO (XO (XO (XI (XO (XO (XO (XO (XO (XO (XO (XO (XO (XO
    (XO (XO (XO (XO (XO (XO (XO (XI (XO (XI (XO (XO
    XH)))))))))))))))))))))))))))))))) :: ((Npos (XO (XI (XI (XI (XO (XI (XI
    (XO (XO (XO (XO (XO (XO (XO (XO (XO (XO (XO (XO (XO (XO (XO (XO (XO (XO
    (XO (XI (XO (XO (XO (XO XH)))))))))))))))))))))))))))))))) :: ((Npos (XO
    (XI (XI (XI (XO (XI (XO (XO (XO (XO (XO (XO (XO (XO (XO (XO (XO (XO (XO
    (XO (XO (XO (XO (XO (XO (XO (XI (XO (XO (XO (XO
    XH)))))))))))))))))))))))))))))))) :: ((Npos (XI (XO (XI (XI (XI (XI (XO
    (XI (XO (XO (XO (XO (XO (XO (XO (XO (XO (XO (XO (XO (XO (XO (XO (XO (XO
    (XO (XI (XO (XI (XO (XO XH)))))))))))))))))))))))))))))))) :: ((Npos (XO
    (XI (XI (XI (XO (XO (XO (XO (XO (XO (XO (XO (XO (XO (XO (XO (XO (XO (XO
    (XO (XO (XO (XO (XO (XO (XO (XI (XO (XO (XO (XO
    XH)))))))))))))))))))))))))))))))) :: ((Npos (XO (XI (XI (XI (XO (XO (XO
    (XI (XO (XO (XO (XO (XO (XO (XO (XO (XO (XO (XO (XO (XO (XO (XO (XO (XO
    (XO (XI (XO (XO (XO (XO XH)))))))))))))))))))))))))))))))) :: ((Npos (XO
    (XI (XI (XI (XO (XO (XI (XO (XO (XO (XO (XO (XO (XO (XO (XO (XO (XO (XO
    (XO (XO (XO (XO (XO (XO (XO (XI (XO (XO (XO (XO
    XH)))))))))))))))))))))))))))))))) :: ((Npos (XI (XO (XI (XI (XI (XI (XI
    (XI (XO (XO (XO (XO (XO (XO (XO (XO (XO (XO (XO (XO (XO (XO (XO (XO (XO
    (XO (XI (XO (XI (XO (XO XH)))))))))))))))))))))))))))))))) :: ((Npos (XO
    (XO (XO (XO (XO (XO (XO (XO (XI (XO (XO (XO (XO (XO (XO (XO (XO (XO (XO
    (XO (XO (XO (XO (XO (XO (XO (XI (XO (XI (XI
    XH))))))))))))))))))))))))))))))) :: ((Npos (XI (XO (XO (XO (XI (XO (XI
    (XO (XO (XO (XO (XO (XO (XO (XO (XO (XO (XO (XO (XO (XO (XO (XO (XO (XO
    (XO (XI (XO (XO (XO (XO XH)))))))))))))))))))))))))))))))) :: ((Npos (XI
    (XO (XO (XO (XI (XO (XO (XO (XO (XO (XO (XO (XO (XO (XO (XO (XO (XO (XO
    (XO (XO (XO (XO (XO (XO (XO (XI (XO (XO (XO (XO
    XH)))))))))))))))))))))))))))))))) :: ((Npos (XO (XI (XO (XI (XI (XO (XO
    (XO (XO (XO (XO (XO (XO (XO (XO (XO (XO (XO (XO (XO (XO (XO (XO (XO (XO
    (XI (XI (XO (XI XH)))))))))))))))))))))))))))))) :: ((Npos (XO (XO (XO
    (XO (XO (XI (XO (XO (XI (XO (XO (XO (XO (XO (XO (XO (XO (XO (XO (XO (XO
    (XO (XO (XO (XO (XO (XI (XO (XI (XO (XO
    XH)))))))))))))))))))))))))))))))) :: ((Npos (XI (XO (XO (XO (XI (XI (XI
    (XO (XO (XO (XO (XO (XO (XO (XO (XO (XO (XO (XO (XO (XO (XO (XO (XO (XO
    (XO (XI (XO (XO (XO (XO XH)))))))))))))))))))))))))))))))) :: ((Npos (XI
    (XO (XO (XO (XI (XI (XO (XO (XO (XO (XO (XO (XO (XO (XO (XO (XO (XO (XO
    (XO (XO (XO (XO (XO (XO (XO (XI (XO (XO (XO (XO
    XH)))))))))))))))))))))))))))))))) :: ((Npos (XI (XI (XO (XO (XO (XO (XI
    (XI (XO (XO (XO (XO (XO (XO (XO (XO (XO (XO (XO (XO (XO (XO (XO (XO (XO
    (XO (XI (XO (XI (XO (XO XH)))))))))))))))))))))))))))))))) :: ((Npos (XO
    (XO (XO (XI (XO (XO (XO (XO (XI (XO (XO (XO (XO (XO (XO (XO (XO (XO (XO
    (XO (XO (XO (XO (XO (XO (XO (XI (XO (XI (XI
    XH))))))))))))))))))))))))))))))) :: ((Npos (XI (XO (XO (XO (XO (XI (XI
    (XO (XO (XO (XO (XO (XO (XO (XO (XO (XO (XO (XO (XO (XO (XO (XO (XO (XO
    (XO (XI (XO (XO (XO (XO XH)))))))))))))))))))))))))))))))) :: ((Npos (XI
    (XO (XO (XO (XO (XI (XO (XO (XO (XO (XO (XO (XO (XO (XO (XO (XO (XO (XO
    (XO (XO (XO (XO (XO (XO (XO (XI (XO (XO (XO (XO
    XH)))))))))))))))))))))))))))))))) :: ((Npos (XI (XI (XO (XO (XO (XI (XO
    (XI (XO (XO (XO (XO (XO (XO (XO (XO (XO (XO (XO (XO (XO (XO (XO (XO (XO
    (XO (XI (XO (XI (XO (XO XH)))))))))))))))))))))))))))))))) :: ((Npos (XI
    (XO (XO (XO (XO (XO (XO (XO (XO (XO (XO (XO (XO (XO (XO (XO (XO (XO (XO
    (XO (XO (XO (XO (XO (XO (XO (XI (XO (XO (XO (XO
    XH)))))))))))))))))))))))))))))))) :: ((Npos (XI (XO (XO (XO (XO (XO (XO
    (XI (XO (XO (XO (XO (XO (XO (XO (XO (XO (XO (XO (XO (XO (XO (XO (XO (XO
    (XO (XI (XO (XO (XO (XO XH)))))))))))))))))))))))))))))))) :: ((Npos (XI
    (XO (XO (XO (XO (XO (XI (XO (XO (XO (XO (XO (XO (XO (XO (XO (XO (XO (XO
    (XO (XO (XO (XO (XO (XO (XO (XI (XO (XO (XO (XO
    XH)))))))))))))))))))))))))))))))) :: ((Npos (XI (XI (XO (XO (XO (XI (XI
    (XI (XO (XO (XO (XO (XO (XO (XO (XO (XO (XO (XO (XO (XO (XO (XO (XO (XO
    (XO (XI (XO (XI (XO (XO XH)))))))))))))))))))))))))))))))) :: ((Npos (XO
    (XO (XI (XO (XO (XO (XO (XO (XI (XO (XO (XO (XO (XO (XO (XO (XO (XO (XO
    (XO (XO (XO (XO (XO (XO (XO (XI (XO (XI (XI
    XH))))))))))))))))))))))))))))))) :: ((Npos (XI (XO (XO (XI (XI (XO (XI
    (XO (XO (XO (XO (XO (XO (XO (XO (XO (XO (XO (XO (XO (XO (XO (XO (XO (XO
    (XO (XI (XO (XO (XO (XO XH)))))))))))))))))))))))))))))))) :: ((Npos (XI
    (XO (XO (XI (XI (XO (XO (XO (XO (XO (XO (XO (XO (XO (XO (XO (XO (XO (XO
    (XO (XO (XO (XO (XO (XO (XO (XI (XO (XO (XO (XO
    XH)))))))))))))))))))))))))))))))) :: ((Npos (XI (XI (XO (XO (XI (XO (XO
    (XI (XO (XO (XO (XO (XO (XO (XO (XO (XO (XO (XO (XO (XO (XO (XO (XO (XO
    (XO (XI (XO (XI (XO (XO XH)))))))))))))))))))))))))))))))) :: ((Npos (XO
    (XO (XI (XI (XI (XI (XO (XO (XI (XO (XO (XO (XO (XO (XO (XO (XO (XO (XO
    (XO (XO (XO (XO (XO (XO (XO (XI (XO (XO (XI (XO
    XH)))))))))))))))))))))))))))))))) :: ((Npos (XI (XO (XO (XI (XI (XI (XI
    (XO (XO (XO (XO (XO (XO (XO (XO (XO (XO (XO (XO (XO (XO (XO (XO (XO (XO
    (XO (XI (XO (XO (XO (XO XH)))))))))))))))))))))))))))))))) :: ((Npos (XI
    (XO (XO (XI (XI (XI (XO (XO (XO (XO (XO (XO (XO (XO (XO (XO (XO (XO (XO
    (XO (XO (XO (XO (XO (XO (XO (XI (XO (XO (XO (XO
    XH)))))))))))))))))))))))))))))))) :: ((Npos (XI (XI (XO (XO (XI (XO (XI
    (XI (XO (XO (XO (XO (XO (XO (XO (XO (XO (XO (XO (XO (XO (XO (XO (XO (XO
    (XO (XI (XO (XI (XO (XO XH)))))))))))))))))))))))))))))))) :: ((Npos (XO
    (XO (XO (XO (XI (XO (XO (XO (XI (XO (XO (XO (XO (XO (XO (XO (XO (XO (XO
    (XO (XO (XO (XO (XO (XO (XO (XI (XO (XO (XO (XO
    XH)))))))))))))))))))))))))))))))) :: ((Npos (XI (XO (XO (XI (XO (XI (XI
    (XO (XO (XO (XO (XO (XO (XO (XO (XO (XO (XO (XO (XO (XO (XO (XO (XO (XO
    (XO (XI (XO (XO (XO (XO XH)))))))))))))))))))))))))))))))) :: ((Npos (XI
    (XO (XO (XI (XO (XI (XO (XO (XO (XO (XO (XO (XO (XO (XO (XO (XO (XO (XO
    (XO (XO (XO (XO (XO (XO (XO (XI (XO (XO (XO (XO
    XH)))))))))))))))))))))))))))))))) :: ((Npos (XI (XI (XO (XO (XI (XI (XO
    (XI (XO (XO (XO (XO (XO (XO (XO (XO (XO (XO (XO (XO (XO (XO (XO (XO (XO
    (XO (XI (XO (XI (XO (XO XH)))))))))))))))))))))))))))))))) :: ((Npos (XI
    (XO (XO (XI (XO (XO (XO (XO (XO (XO (XO (XO (XO (XO (XO (XO (XO (XO (XO
    (XO (XO (XO (XO (XO (XO (XO (XI (XO (XO (XO (XO
    XH)))))))))))))))))))))))))))))))) :: ((Npos (XI (XO (XO (XI (XO (XO (XO
    (XI (XO (XO (XO (XO (XO (XO (XO (XO (XO (XO (XO (XO (XO (XO (XO (XO (XO
    (XO (XI (XO (XO (XO (XO XH)))))))))))))))))))))))))))))))) :: ((Npos (XI
    (XO (XO (XI (XO (XO (XI (XO (XO (XO (XO (XO (XO (XO (XO (XO (XO (XO (XO
    (XO (XO (XO (XO (XO (XO (XO (XI (XO (XO (XO (XO
    XH)))))))))))))))))))))))))))))))) :: ((Npos (XI (XI (XO (XO (XI (XI (XI
    (XI (XO (XO (XO (XO (XO (XO (XO (XO (XO (XO (XO (XO (XO (XO (XO (XO (XO
    (XO (XI (XO (XI (XO (XO XH)))))))))))))))))))))))))))))))) :: ((Npos (XO
    (XI (XO (XO (XO (XO (XO (XO (XI (XO (XO (XO (XO (XO (XO (XO (XO (XO (XO
    (XO (XO (XO (XO (XO (XO (XO (XI (XO (XI (XI
    XH))))))))))))))))))))))))))))))) :: ((Npos (XI (XO (XI (XO (XI (XO (XI
    (XO (XO (XO (XO (XO (XO (XO (XO (XO (XO (XO (XO (XO (XO (XO (XO (XO (XO
    (XO (XI (XO (XO (XO (XO XH)))))))))))))))))))))))))))))))) :: ((Npos (XI
    (XO (XI (XO (XI (XO (XO (XO (XO (XO (XO (XO (XO (XO (XO (XO (XO (XO (XO
    (XO (XO (XO (XO (XO (XO (XO (XI (XO (XO (XO (XO
    XH)))))))))))))))))))))))))))))))) :: ((Npos (XO (XO (XO (XO (XO (XO (XO
    (XO (XO (XI (XO (XO (XO (XO (XO (XO (XO (XO (XO (XO (XO (XO (XO (XO (XO
    (XO (XI (XO (XO (XO (XO XH)))))))))))))))))))))))))))))))) :: ((Npos (XO
    (XO (XI (XI (XO (XI (XO (XO (XI (XO (XO (XO (XO (XO (XO (XO (XO (XO (XO
    (XO (XO (XO (XO (XO (XO (XO (XI (XO (XO (XI (XO
    XH)))))))))))))))))))))))))))))))) :: ((Npos (XI (XO (XI (XO (XI (XI (XI
    (XO (XO (XO (XO (XO (XO (XO (XO (XO (XO (XO (XO (XO (XO (XO (XO (XO (XO
    (XO (XI (XO (XO (XO (XO XH)))))))))))))))))))))))))))))))) :: ((Npos (XI
    (XO (XI (XO (XI (XI (XO (XO (XO (XO (XO (XO (XO (XO (XO (XO (XO (XO (XO
    (XO (XO (XO (XO (XO (XO (XO (XI (XO (XO (XO (XO
    XH)))))))))))))))))))))))))))))))) :: ((Npos (XI (XI (XO (XI (XO (XO (XI
    (XI (XO (XO (XO (XO (XO (XO (XO (XO (XO (XO (XO (XO (XO (XO (XO (XO (XO
    (XO (XI (XO (XI (XO (XO XH)))))))))))))))))))))))))))))))) :: ((Npos (XO
    (XO (XI (XI (XO (XO (XO (XO (XI (XO (XO (XO (XO (XO (XO (XO (XO (XO (XO
    (XO (XO (XO (XO (XO (XO (XO (XI (XO (XO (XO (XO
    XH)))))))))))))))))))))))))))))))) :: ((Npos (XI (XO (XI (XO (XO (XI (XI
    (XO (XO (XO (XO (XO (XO (XO (XO (XO (XO (XO (XO (XO (XO (XO (XO (XO (XO
    (XO (XI (XO (XO (XO (XO XH)))))))))))))))))))))))))))))))) :: ((Npos (XI
    (XO (XI (XO (XO (XI (XO (XO (XO (XO (XO (XO (XO (XO (XO (XO (XO (XO (XO
    (XO (XO (XO (XO (XO (XO (XO (XI (XO (XO (XO (XO
    XH)))))))))))))))))))))))))))))))) :: ((Npos (XI (XI (XO (XI (XO (XI (XO
    (XI (XO (XO (XO (XO (XO (XO (XO (XO (XO (XO (XO (XO (XO (XO (XO (XO (XO
    (XO (XI (XO (XI (XO (XO XH)))))))))))))))))))))))))))))))) :: ((Npos (XI
    (XO (XI (XO (XO (XO (XO (XO (XO (XO (XO (XO (XO (XO (XO (XO (XO (XO (XO
    (XO (XO (XO (XO (XO (XO (XO (XI (XO (XO (XO (XO
    XH)))))))))))))))))))))))))))))))) :: ((Npos (XI (XO (XI (XO (XO (XO (XO
    (XI (XO (XO (XO (XO (XO (XO (XO (XO (XO (XO (XO (XO (XO (XO (XO (XO (XO
    (XO (XI (XO (XO (XO (XO XH)))))))))))))))))))))))))))))))) :: ((Npos (XI
    (XO (XI (XO (XO (XO (XI (XO (XO (XO (XO (XO (XO (XO (XO (XO (XO (XO (XO
    (XO (XO (XO (XO (XO (XO (XO (XI (XO (XO (XO (XO
    XH)))))))))))))))))))))))))))))))) :: ((Npos (XI (XI (XO (XI (XO (XI (XI
    (XI (XO (XO (XO (XO (XO (XO (XO (XO (XO (XO (XO (XO (XO (XO (XO (XO (XO
    (XO (XI (XO (XI (XO (XO XH)))))))))))))))))))))))))))))))) :: ((Npos (XO
    (XI (XI (XO (XO (XO (XO (XO (XI (XO (XO (XO (XO (XO (XO (XO (XO (XO (XO
    (XO (XO (XO (XO (XO (XO (XO (XI (XO (XI (XI
    XH))))))))))))))))))))))))))))))) :: ((Npos (XI (XO (XI (XI (XI (XO (XI
    (XO (XO (XO (XO (XO (XO (XO (XO (XO (XO (XO (XO (XO (XO (XO (XO (XO (XO
    (XO (XI (XO (XO (XO (XO XH)))))))))))))))))))))))))))))))) :: ((Npos (XI
    (XO (XI (XI (XI (XO (XO (XO (XO (XO (XO (XO (XO (XO (XO (XO (XO (XO (XO
    (XO (XO (XO (XO (XO (XO (XO (XI (XO (XO (XO (XO
    XH)))))))))))))))))))))))))))))))) :: ((Npos (XI (XI (XO (XI (XI (XO (XO
    (XI (XO (XO (XO (XO (XO (XO (XO (XO (XO (XO (XO (XO (XO (XO (XO (XO (XO
    (XO (XI (XO (XI (XO (XO XH)))))))))))))))))))))))))))))))) :: ((Npos (XO
    (XO (XI (XI (XI (XO (XI (XO (XI (XO (XO (XO (XO (XO (XO (XO (XO (XO (XO
    (XO (XO (XO (XO (XO (XO (XO (XI (XO (XI (XI (XO
    XH)))))))))))))))))))))))))))))))) :: ((Npos (XI (XO (XI (XI (XI (XI (XI
    (XO (XO (XO (XO (XO (XO (XO (XO (XO (XO (XO (XO (XO (XO (XO (XO (XO (XO
    (XO (XI (XO (XO (XO (XO XH)))))))))))))))))))))))))))))))) :: ((Npos (XI
    (XO (XI (XI (XI (XI (XO (XO (XO (XO (XO (XO (XO (XO (XO (XO (XO (XO (XO
    (XO (XO (XO (XO (XO (XO (XO (XI (XO (XO (XO (XO
    XH)))))))))))))))))))))))))))))))) :: ((Npos (XI (XI (XO (XI (XI (XO (XI
    (XI (XO (XO (XO (XO (XO (XO (XO (XO (XO (XO (XO (XO (XO (XO (XO (XO (XO
    (XO (XI (XO (XI (XO (XO XH)))))))))))))))))))))))))))))))) :: ((Npos (XO
    (XO (XO (XI (XI (XO (XO (XO (XI (XO (XO (XO (XO (XO (XO (XO (XO (XO (XO
    (XO (XO (XO (XO (XO (XO (XO (XI (XO (XI (XO (XO
    XH)))))))))))))))))))))))))))))))) :: ((Npos (XI (XO (XI (XI (XO (XI (XI
    (XO (XO (XO (XO (XO (XO (XO (XO (XO (XO (XO (XO (XO (XO (XO (XO (XO (XO
    (XO (XI (XO (XO (XO (XO XH)))))))))))))))))))))))))))))))) :: ((Npos (XI
    (XO (XI (XI (XO (XI (XO (XO (XO (XO (XO (XO (XO (XO (XO (XO (XO (XO (XO
    (XO (XO (XO (XO (XO (XO (XO (XI (XO (XO (XO (XO
    XH)))))))))))))))))))))))))))))))) :: ((Npos (XI (XI (XO (XI (XI (XI (XO
    (XI (XO (XO (XO (XO (XO (XO (XO (XO (XO (XO (XO (XO (XO (XO (XO (XO (XO
    (XO (XI (XO (XI (XO (XO XH)))))))))))))))))))))))))))))))) :: ((Npos (XI
    (XO (XI (XI (XO (XO (XO (XO (XO (XO (XO (XO (XO (XO (XO (XO (XO (XO (XO
    (XO (XO (XO (XO (XO (XO (XO (XI (XO (XO (XO (XO
    XH)))))))))))))))))))))))))))))))) :: ((Npos (XI (XO (XI (XI (XO (XO (XO
    (XI (XO (XO (XO (XO (XO (XO (XO (XO (XO (XO (XO (XO (XO (XO (XO (XO (XO
    (XO (XI (XO (XO (XO (XO XH)))))))))))))))))))))))))))))))) :: ((Npos (XI
    (XO (XI (XI (XO (XO (XI (XO (XO (XO (XO (XO (XO (XO (XO (XO (XO (XO (XO
    (XO (XO (XO (XO (XO (XO (XO (XI (XO (XO (XO (XO
    XH)))))))))))))))))))))))))))))))) :: ((Npos (XI (XI (XO (XI (XI (XI (XI
    (XI (XO (XO (XO (XO (XO (XO (XO (XO (XO (XO (XO (XO (XO (XO (XO (XO (XO
    (XO (XI (XO (XI (XO (XO XH)))))))))))))))))))))))))))))))) :: ((Npos (XI
    (XO (XO (XO (XO (XO (XO (XO (XI (XO (XO (XO (XO (XO (XO (XO (XO (XO (XO
    (XO (XO (XO (XO (XO (XO (XO (XI (XO (XI (XI
    XH))))))))))))))))))))))))))))))) :: ((Npos (XI (XI (XO (XO (XI (XO (XI
    (XO (XO (XO (XO (XO (XO (XO (XO (XO (XO (XO (XO (XO (XO (XO (XO (XO (XO
    (XO (XI (XO (XO (XO (XO XH)))))))))))))))))))))))))))))))) :: ((Npos (XI
    (XI (XO (XO (XI (XO (XO (XO (XO (XO (XO (XO (XO (XO (XO (XO (XO (XO (XO
    (XO (XO (XO (XO (XO (XO (XO (XI (XO (XO (XO (XO
    XH)))))))))))))))))))))))))))))))) :: ((Npos (XO (XI (XO (XI (XI (XO (XI
    (XO (XO (XO (XO (XO (XO (XO (XO (XO (XO (XO (XO (XO (XO (XO (XO (XO (XO
    (XI (XI (XO (XI XH)))))))))))))))))))))))))))))) :: ((Npos (XO (XO (XI
    (XO (XO (XI (XO (XO (XI (XO (XO (XO (XO (XO (XO (XO (XO (XO (XO (XO (XO
    (XO (XO (XO (XO (XO (XI (XO (XO (XI (XO
    XH)))))))))))))))))))))))))))))))) :: ((Npos (XI (XI (XO (XO (XI (XI (XI
    (XO (XO (XO (XO (XO (XO (XO (XO (XO (XO (XO (XO (XO (XO (XO (XO (XO (XO
    (XO (XI (XO (XO (XO (XO XH)))))))))))))))))))))))))))))))) :: ((Npos (XI
    (XI (XO (XO (XI (XI (XO (XO (XO (XO (XO (XO (XO (XO (XO (XO (XO (XO (XO
    (XO (XO (XO (XO (XO (XO (XO (XI (XO (XO (XO (XO
    XH)))))))))))))))))))))))))))))))) :: ((Npos (XI (XI (XI (XO (XO (XO (XI
    (XI (XO (XO (XO (XO (XO (XO (XO (XO (XO (XO (XO (XO (XO (XO (XO (XO (XO
    (XO (XI (XO (XI (XO (XO XH)))))))))))))))))))))))))))))))) :: ((Npos (XO
    (XI (XO (XI (XO (XO (XO (XO (XI (XO (XO (XO (XO (XO (XO (XO (XO (XO (XO
    (XO (XO (XO (XO (XO (XO (XO (XI (XO (XO (XO (XO
    XH)))))))))))))))))))))))))))))))) :: ((Npos (XI (XI (XO (XO (XO (XI (XI
    (XO (XO (XO (XO (XO (XO (XO (XO (XO (XO (XO (XO (XO (XO (XO (XO (XO (XO
    (XO (XI (XO (XO (XO (XO XH)))))))))))))))))))))))))))))))) :: ((Npos (XI
    (XI (XO (XO (XO (XI (XO (XO (XO (XO (XO (XO (XO (XO (XO (XO (XO (XO (XO
    (XO (XO (XO (XO (XO (XO (XO (XI (XO (XO (XO (XO
    XH)))))))))))))))))))))))))))))))) :: ((Npos (XI (XI (XI (XO (XO (XI (XO
    (XI (XO (XO (XO (XO (XO (XO (XO (XO (XO (XO (XO (XO (XO (XO (XO (XO (XO
    (XO (XI (XO (XI (XO (XO XH)))))))))))))))))))))))))))))))) :: ((Npos (XI
    (XI (XO (XO (XO (XO (XO (XO (XO (XO (XO (XO (XO (XO (XO (XO (XO (XO (XO
    (XO (XO (XO (XO (XO (XO (XO (XI (XO (XO (XO (XO
    XH)))))))))))))))))))))))))))))))) :: ((Npos (XI (XI (XO (XO (XO (XO (XO
    (XI (XO (XO (XO (XO (XO (XO (XO (XO (XO (XO (XO (XO (XO (XO (XO (XO (XO
    (XO (XI (XO (XO (XO (XO XH)))))))))))))))))))))))))))))))) :: ((Npos (XI
    (XI (XO (XO (XO (XO (XI (XO (XO (XO (XO (XO (XO (XO (XO (XO (XO (XO (XO
    (XO (XO (XO (XO (XO (XO (XO (XI (XO (XO (XO (XO
    XH)))))))))))))))))))))))))))))))) :: ((Npos (XI (XI (XI (XO (XO (XI (XI
    (XI (XO (XO (XO (XO (XO (XO (XO (XO (XO (XO (XO (XO (XO (XO (XO (XO (XO
    (XO (XI (XO (XI (XO (XO XH)))))))))))))))))))))))))))))))) :: ((Npos (XI
    (XO (XI (XO (XO (XO (XO (XO (XI (XO (XO (XO (XO (XO (XO (XO (XO (XO (XO
    (XO (XO (XO (XO (XO (XO (XO (XI (XO (XI (XI
    XH))))))))))))))))))))))))))))))) :: ((Npos (XI (XI (XO (XI (XI (XO (XI
    (XO (XO (XO (XO (XO (XO (XO (XO (XO (XO (XO (XO (XO (XO (XO (XO (XO (XO
    (XO (XI (XO (XO (XO (XO XH)))))))))))))))))))))))))))))))) :: ((Npos (XI
    (XI (XO (XI (XI (XO (XO (XO (XO (XO (XO (XO (XO (XO (XO (XO (XO (XO (XO
    (XO (XO (XO (XO (XO (XO (XO (XI (XO (XO (XO (XO
    XH)))))))))))))))))))))))))))))))) :: ((Npos (XI (XI (XI (XO (XI (XO (XO
    (XI (XO (XO (XO (XO (XO (XO (XO (XO (XO (XO (XO (XO (XO (XO (XO (XO (XO
    (XO (XI (XO (XI (XO (XO XH)))))))))))))))))))))))))))))))) :: ((Npos (XO
    (XO (XI (XI (XO (XO (XI (XO (XI (XO (XO (XO (XO (XO (XO (XO (XO (XO (XO
    (XO (XO (XO (XO (XO (XO (XO (XI (XO (XI (XI (XO
    XH)))))))))))))))))))))))))))))))) :: ((Npos (XI (XI (XO (XI (XI (XI (XI
    (XO (XO (XO (XO (XO (XO (XO (XO (XO (XO (XO (XO (XO (XO (XO (XO (XO (XO
    (XO (XI (XO (XO (XO (XO XH)))))))))))))))))))))))))))))))) :: ((Npos (XI
    (XI (XO (XI (XI (XI (XO (XO (XO (XO (XO (XO (XO (XO (XO (XO (XO (XO (XO
    (XO (XO (XO (XO (XO (XO (XO (XI (XO (XO (XO (XO
    XH)))))))))))))))))))))))))))))))) :: ((Npos (XI (XI (XI (XO (XI (XO (XI
    (XI (XO (XO (XO (XO (XO (XO (XO (XO (XO (XO (XO (XO (XO (XO (XO (XO (XO
    (XO (XI (XO (XI (XO (XO XH)))))))))))))))))))))))))))))))) :: ((Npos (XO
    (XO (XI (XO (XI (XO (XO (XO (XI (XO (XO (XO (XO (XO (XO (XO (XO (XO (XO
    (XO (XO (XO (XO (XO (XO (XO (XI (XO (XI (XO (XO
    XH)))))))))))))))))))))))))))))))) :: ((Npos (XI (XI (XO (XI (XO (XI (XI
    (XO (XO (XO (XO (XO (XO (XO (XO (XO (XO (XO (XO (XO (XO (XO (XO (XO (XO
    (XO (XI (XO (XO (XO (XO XH)))))))))))))))))))))))))))))))) :: ((Npos (XI
    (XI (XO (XI (XO (XI (XO (XO (XO (XO (XO (XO (XO (XO (XO (XO (XO (XO (XO
    (XO (XO (XO (XO (XO (XO (XO (XI (XO (XO (XO (XO
    XH)))))))))))))))))))))))))))))))) :: ((Npos (XI (XI (XI (XO (XI (XI (XO
    (XI (XO (XO (XO (XO (XO (XO (XO (XO (XO (XO (XO (XO (XO (XO (XO (XO (XO
    (XO (XI (XO (XI (XO (XO XH)))))))))))))))))))))))))))))))) :: ((Npos (XI
    (XI (XO (XI (XO (XO (XO (XO (XO (XO (XO (XO (XO (XO (XO (XO (XO (XO (XO
    (XO (XO (XO (XO (XO (XO (XO (XI (XO (XO (XO (XO
    XH)))))))))))))))))))))))))))))))) :: ((Npos (XI (XI (XO (XI (XO (XO (XO
    (XI (XO (XO (XO (XO (XO (XO (XO (XO (XO (XO (XO (XO (XO (XO (XO (XO (XO
    (XO (XI (XO (XO (XO (XO XH)))))))))))))))))))))))))))))))) :: ((Npos (XI
    (XI (XO (XI (XO (XO (XI (XO (XO (XO (XO (XO (XO (XO (XO (XO (XO (XO (XO
    (XO (XO (XO (XO (XO (XO (XO (XI (XO (XO (XO (XO
    XH)))))))))))))))))))))))))))))))) :: ((Npos (XI (XI (XI (XO (XI (XI (XI
    (XI (XO (XO (XO (XO (XO (XO (XO (XO (XO (XO (XO (XO (XO (XO (XO (XO (XO
    (XO (XI (XO (XI (XO (XO XH)))))))))))))))))))))))))))))))) :: ((Npos (XI
    (XI (XO (XO (XO (XO (XO (XO (XI (XO (XO (XO (XO (XO (XO (XO (XO (XO (XO
    (XO (XO (XO (XO (XO (XO (XO (XI (XO (XI (XI
    XH))))))))))))))))))))))))))))))) :: ((Npos (XI (XI (XI (XO (XI (XO (XI
    (XO (XO (XO (XO (XO (XO (XO (XO (XO (XO (XO (XO (XO (XO (XO (XO (XO (XO
    (XO (XI (XO (XO (XO (XO XH)))))))))))))))))))))))))))))))) :: ((Npos (XI
    (XI (XI (XO (XI (XO (XO (XO (XO (XO (XO (XO (XO (XO (XO (XO (XO (XO (XO
    (XO (XO (XO (XO (XO (XO (XO (XI (XO (XO (XO (XO
    XH)))))))))))))))))))))))))))))))) :: (N0 :: ((Npos (XO (XO (XI (XO (XI
    (XI (XO (XO (XI (XO (XO (XO (XO (XO (XO (XO (XO (XO (XO (XO (XO (XO (XO
    (XO (XO (XO (XI (XO (XO (XI (XO
    XH)))))))))))))))))))))))))))))))) :: ((Npos (XI (XI (XI (XO (XI (XI (XI
    (XO (XO (XO (XO (XO (XO (XO (XO (XO (XO (XO (XO (XO (XO (XO (XO (XO (XO
    (XO (XI (XO (XO (XO (XO XH)))))))))))))))))))))))))))))))) :: ((Npos (XI
    (XI (XI (XO (XI (XI (XO (XO (XO (XO (XO (XO (XO (XO (XO (XO (XO (XO (XO
    (XO (XO (XO (XO (XO (XO (XO (XI (XO (XO (XO (XO
    XH)))))))))))))))))))))))))))))))) :: ((Npos (XI (XI (XI (XI (XO (XO (XI
    (XI (XO (XO (XO (XO (XO (XO (XO (XO (XO (XO (XO (XO (XO (XO (XO (XO (XO
    (XO (XI (XO (XI (XO (XO XH)))))))))))))))))))))))))))))))) :: ((Npos (XO
    (XI (XI (XI (XO (XO (XO (XO (XI (XO (XO (XO (XO (XO (XO (XO (XO (XO (XO
    (XO (XO (XO (XO (XO (XO (XO (XI (XO (XO (XO (XO
    XH)))))))))))))))))))))))))))))))) :: ((Npos (XI (XI (XI (XO (XO (XI (XI
    (XO (XO (XO (XO (XO (XO (XO (XO (XO (XO (XO (XO (XO (XO (XO (XO (XO (XO
    (XO (XI (XO (XO (XO (XO XH)))))))))))))))))))))))))))))))) :: ((Npos (XI
    (XI (XI (XO (XO (XI (XO (XO (XO (XO (XO (XO (XO (XO (XO (XO (XO (XO (XO
    (XO (XO (XO (XO (XO (XO (XO (XI (XO (XO (XO (XO
    XH)))))))))))))))))))))))))))))))) :: ((Npos (XI (XI (XI (XI (XO (XI (XO
    (XI (XO (XO (XO (XO (XO (XO (XO (XO (XO (XO (XO (XO (XO (XO (XO (XO (XO
    (XO (XI (XO (XI (XO (XO XH)))))))))))))))))))))))))))))))) :: ((Npos (XI
    (XI (XI (XO (XO (XO (XO (XO (XO (XO (XO (XO (XO (XO (XO (XO (XO (XO (XO
    (XO (XO (XO (XO (XO (XO (XO (XI (XO (XO (XO (XO
    XH)))))))))))))))))))))))))))))))) :: ((Npos (XI (XI (XI (XO (XO (XO (XO
    (XI (XO (XO (XO (XO (XO (XO (XO (XO (XO (XO (XO (XO (XO (XO (XO (XO (XO
    (XO (XI (XO (XO (XO (XO XH)))))))))))))))))))))))))))))))) :: ((Npos (XI
    (XI (XI (XO (XO (XO (XI (XO (XO (XO (XO (XO (XO (XO (XO (XO (XO (XO (XO
    (XO (XO (XO (XO (XO (XO (XO (XI (XO (XO (XO (XO
    XH)))))))))))))))))))))))))))))))) :: ((Npos (XI (XI (XI (XI (XO (XI (XI
    (XI (XO (XO (XO (XO (XO (XO (XO (XO (XO (XO (XO (XO (XO (XO (XO (XO (XO
    (XO (XI (XO (XI (XO (XO XH)))))))))))))))))))))))))))))))) :: ((Npos (XI
    (XI (XI (XO (XO (XO (XO (XO (XI (XO (XO (XO (XO (XO (XO (XO (XO (XO (XO
    (XO (XO (XO (XO (XO (XO (XO (XI (XO (XI (XI
    XH))))))))))))))))))))))))))))))) :: ((Npos (XI (XI (XI (XI (XI (XO (XI
    (XO (XO (XO (XO (XO (XO (XO (XO (XO (XO (XO (XO (XO (XO (XO (XO (XO (XO
    (XO (XI (XO (XO (XO (XO XH)))))))))))))))))))))))))))))))) :: ((Npos (XI
    (XI (XI (XI (XI (XO (XO (XO (XO (XO (XO (XO (XO (XO (XO (XO (XO (XO (XO
    (XO (XO (XO (XO (XO (XO (XO (XI (XO (XO (XO (XO
    XH)))))))))))))))))))))))))))))))) :: ((Npos (XI (XI (XI (XI (XI (XO (XO
    (XI (XO (XO (XO (XO (XO (XO (XO (XO (XO (XO (XO (XO (XO (XO (XO (XO (XO
    (XO (XI (XO (XI (XO (XO XH)))))))))))))))))))))))))))))))) :: ((Npos (XO
    (XO (XI (XI (XO (XI (XI (XO (XI (XO (XO (XO (XO (XO (XO (XO (XO (XO (XO
    (XO (XO (XO (XO (XO (XO (XO (XI (XO (XI (XI (XO
    XH)))))))))))))))))))))))))))))))) :: ((Npos (XI (XI (XI (XI (XI (XI (XI
    (XO (XO (XO (XO (XO (XO (XO (XO (XO (XO (XO (XO (XO (XO (XO (XO (XO (XO
    (XO (XI (XO (XO (XO (XO XH)))))))))))))))))))))))))))))))) :: ((Npos (XI
    (XI (XI (XI (XI (XI (XO (XO (XO (XO (XO (XO (XO (XO (XO (XO (XO (XO (XO
    (XO (XO (XO (XO (XO (XO (XO (XI (XO (XO (XO (XO
    XH)))))))))))))))))))))))))))))))) :: ((Npos (XI (XI (XI (XI (XI (XO (XI
    (XI (XO (XO (XO (XO (XO (XO (XO (XO (XO (XO (XO (XO (XO (XO (XO (XO (XO
    (XO (XI (XO (XI (XO (XO XH)))))))))))))))))))))))))))))))) :: ((Npos (XO
    (XO (XI (XI (XI (XO (XO (XO (XI (XO (XO (XO (XO (XO (XO (XO (XO (XO (XO
    (XO (XO (XO (XO (XO (XO (XO (XI (XO (XI (XO (XO
    XH)))))))))))))))))))))))))))))))) :: ((Npos (XI (XI (XI (XI (XO (XI (XI
    (XO (XO (XO (XO (XO (XO (XO (XO (XO (XO (XO (XO (XO (XO (XO (XO (XO (XO
    (XO (XI (XO (XO (XO (XO XH)))))))))))))))))))))))))))))))) :: ((Npos (XI
    (XI (XI (XI (XO (XI (XO (XO (XO (XO (XO (XO (XO (XO (XO (XO (XO (XO (XO
    (XO (XO (XO (XO (XO (XO (XO (XI (XO (XO (XO (XO
    XH)))))))))))))))))))))))))))))))) :: ((Npos (XI (XI (XI (XI (XI (XI (XO
    (XI (XO (XO (XO (XO (XO (XO (XO (XO (XO (XO (XO (XO (XO (XO (XO (XO (XO
    (XO (XI (XO (XI (XO (XO XH)))))))))))))))))))))))))))))))) :: ((Npos (XI
    (XI (XI (XI (XO (XO (XO (XO (XO (XO (XO (XO (XO (XO (XO (XO (XO (XO (XO
    (XO (XO (XO (XO (XO (XO (XO (XI (XO (XO (XO (XO
    XH)))))))))))))))))))))))))))))))) :: ((Npos (XI (XI (XI (XI (XO (XO (XO
    (XI (XO (XO (XO (XO (XO (XO (XO (XO (XO (XO (XO (XO (XO (XO (XO (XO (XO
    (XO (XI (XO (XO (XO (XO XH)))))))))))))))))))))))))))))))) :: ((Npos (XI
    (XI (XI (XI (XO (XO (XI (XO (XO (XO (XO (XO (XO (XO (XO (XO (XO (XO (XO
    (XO (XO (XO (XO (XO (XO (XO (XI (XO (XO (XO (XO
    XH)))))))))))))))))))))))))))))))) :: ((Npos (XI (XI (XI (XI (XI (XI (XI
    (XI (XO (XO (XO (XO (XO (XO (XO (XO (XO (XO (XO (XO (XO (XO (XO (XO (XO
    (XO (XI (XO (XI (XO (XO XH)))))))))))))))))))))))))))))))) :: ((Npos (XO
    (XO (XO (XO (XO (XO (XO (XO (XI (XO (XO (XO (XO (XO (XO (XO (XO (XO (XO
    (XO (XO (XO (XO (XO (XO (XO (XI (XO (XI (XI
    XH))))))))))))))))))))))))))))))) :: ((Npos (XO (XO (XO (XO (XI (XO (XI
    (XO (XO (XO (XO (XO (XO (XO (XO (XO (XO (XO (XO (XO (XO (XO (XO (XO (XO
    (XO (XI (XO (XO (XO (XO XH)))))))))))))))))))))))))))))))) :: ((Npos (XO
    (XO (XO (XO (XI (XO (XO (XO (XO (XO (XO (XO (XO (XO (XO (XO (XO (XO (XO
    (XO (XO (XO (XO (XO (XO (XO (XI (XO (XO (XO (XO
    XH)))))))))))))))))))))))))))))))) :: ((Npos (XI (XI (XI (XI (XI (XI (XI
    (XO (XI (XO (XO (XO (XO (XO (XO (XO (XO (XO (XO (XO (XO (XO (XO (XO (XO
    (XO (XI (XO (XO (XO (XI XH)))))))))))))))))))))))))))))))) :: ((Npos (XI
    (XO (XI (XI (XI (XO (XO (XO (XI (XO (XO (XO (XO (XO (XO (XO (XO (XO (XO
    (XO (XO (XO (XO (XO (XO (XO (XI (XO (XI (XO (XO
    XH)))))))))))))))))))))))))))))))) :: ((Npos (XO (XO (XO (XO (XI (XI (XI
    (XO (XO (XO (XO (XO (XO (XO (XO (XO (XO (XO (XO (XO (XO (XO (XO (XO (XO
    (XO (XI (XO (XO (XO (XO XH)))))))))))))))))))))))))))))))) :: ((Npos (XO
    (XO (XO (XO (XI (XI (XO (XO (XO (XO (XO (XO (XO (XO (XO (XO (XO (XO (XO
    (XO (XO (XO (XO (XO (XO (XO (XI (XO (XO (XO (XO
    XH)))))))))))))))))))))))))))))))) :: ((Npos (XO (XO (XO (XO (XO (XO (XI
    (XI (XO (XO (XO (XO (XO (XO (XO (XO (XO (XO (XO (XO (XO (XO (XO (XO (XO
    (XO (XI (XO (XI (XO (XO XH)))))))))))))))))))))))))))))))) :: ((Npos (XO
    (XO (XO (XI (XO (XO (XO (XO (XI (XO (XO (XO (XO (XO (XO (XO (XO (XO (XO
    (XO (XO (XO (XO (XO (XO (XO (XI (XO (XI (XI
    XH))))))))))))))))))))))))))))))) :: ((Npos (XO (XO (XO (XO (XO (XI (XI
    (XO (XO (XO (XO (XO (XO (XO (XO (XO (XO (XO (XO (XO (XO (XO (XO (XO (XO
    (XO (XI (XO (XO (XO (XO XH)))))))))))))))))))))))))))))))) :: ((Npos (XO
    (XO (XO (XO (XO (XI (XO (XO (XO (XO (XO (XO (XO (XO (XO (XO (XO (XO (XO
    (XO (XO (XO (XO (XO (XO (XO (XI (XO (XO (XO (XO
    XH)))))))))))))))))))))))))))))))) :: ((Npos (XO (XO (XO (XO (XO (XI (XO
    (XI (XO (XO (XO (XO (XO (XO (XO (XO (XO (XO (XO (XO (XO (XO (XO (XO (XO
    (XO (XI (XO (XI (XO (XO XH)))))))))))))))))))))))))))))))) :: ((Npos (XO
    (XO (XO (XO (XO (XO (XO (XO (XO (XO (XO (XO (XO (XO (XO (XO (XO (XO (XO
    (XO (XO (XO (XO (XO (XO (XO (XI (XO (XO (XO (XO
    XH)))))))))))))))))))))))))))))))) :: ((Npos (XO (XO (XO (XO (XO (XO (XO
    (XI (XO (XO (XO (XO (XO (XO (XO (XO (XO (XO (XO (XO (XO (XO (XO (XO (XO
    (XO (XI (XO (XO (XO (XO XH)))))))))))))))))))))))))))))))) :: ((Npos (XO
    (XO (XO (XO (XO (XO (XI (XO (XO (XO (XO (XO (XO (XO (XO (XO (XO (XO (XO
    (XO (XO (XO (XO (XO (XO (XO (XI (XO (XO (XO (XO
    XH)))))))))))))))))))))))))))))))) :: ((Npos (XO (XO (XO (XO (XO (XI (XI
    (XI (XO (XO (XO (XO (XO (XO (XO (XO (XO (XO (XO (XO (XO (XO (XO (XO (XO
    (XO (XI (XO (XI (XO (XO XH)))))))))))))))))))))))))))))))) :: ((Npos (XO
    (XO (XI (XO (XO (XO (XO (XO (XI (XO (XO (XO (XO (XO (XO (XO (XO (XO (XO
    (XO (XO (XO (XO (XO (XO (XO (XI (XO (XI (XI
    XH))))))))))))))))))))))))))))))) :: ((Npos (XO (XO (XO (XI (XI (XO (XI
    (XO (XO (XO (XO (XO (XO (XO (XO (XO (XO (XO (XO (XO (XO (XO (XO (XO (XO
    (XO (XI (XO (XO (XO (XO XH)))))))))))))))))))))))))))))))) :: ((Npos (XO
    (XO (XO (XI (XI (XO (XO (XO (XO (XO (XO (XO (XO (XO (XO (XO (XO (XO (XO
    (XO (XO (XO (XO (XO (XO (XO (XI (XO (XO (XO (XO
    XH)))))))))))))))))))))))))))))))) :: ((Npos (XO (XO (XO (XO (XI (XO (XO
    (XI (XO (XO (XO (XO (XO (XO (XO (XO (XO (XO (XO (XO (XO (XO (XO (XO (XO
    (XO (XI (XO (XI (XO (XO XH)))))))))))))))))))))))))))))))) :: ((Npos (XI
    (XO (XI (XI (XI (XI (XO (XO (XI (XO (XO (XO (XO (XO (XO (XO (XO (XO (XO
    (XO (XO (XO (XO (XO (XO (XO (XI (XO (XO (XI (XO
    XH)))))))))))))))))))))))))))))))) :: ((Npos (XO (XO (XO (XI (XI (XI (XI
    (XO (XO (XO (XO (XO (XO (XO (XO (XO (XO (XO (XO (XO (XO (XO (XO (XO (XO
    (XO (XI (XO (XO (XO (XO XH)))))))))))))))))))))))))))))))) :: ((Npos (XO
    (XO (XO (XI (XI (XI (XO (XO (XO (XO (XO (XO (XO (XO (XO (XO (XO (XO (XO
    (XO (XO (XO (XO (XO (XO (XO (XI (XO (XO (XO (XO
    XH)))))))))))))))))))))))))))))))) :: ((Npos (XO (XO (XO (XO (XI (XO (XI
    (XI (XO (XO (XO (XO (XO (XO (XO (XO (XO (XO (XO (XO (XO (XO (XO (XO (XO
    (XO (XI (XO (XI (XO (XO XH)))))))))))))))))))))))))))))))) :: ((Npos (XI
    (XI (XI (XI (XO (XO (XO (XO (XI (XO (XO (XO (XO (XO (XO (XO (XO (XO (XO
    (XO (XO (XO (XO (XO (XO (XO (XI (XO (XO (XO (XO
    XH)))))))))))))))))))))))))))))))) :: ((Npos (XO (XO (XO (XI (XO (XI (XI
    (XO (XO (XO (XO (XO (XO (XO (XO (XO (XO (XO (XO (XO (XO (XO (XO (XO (XO
    (XO (XI (XO (XO (XO (XO XH)))))))))))))))))))))))))))))))) :: ((Npos (XO
    (XO (XO (XI (XO (XI (XO (XO (XO (XO (XO (XO (XO (XO (XO (XO (XO (XO (XO
    (XO (XO (XO (XO (XO (XO (XO (XI (XO (XO (XO (XO
    XH)))))))))))))))))))))))))))))))) :: ((Npos (XO (XO (XO (XO (XI (XI (XO
    (XI (XO (XO (XO (XO (XO (XO (XO (XO (XO (XO (XO (XO (XO (XO (XO (XO (XO
    (XO (XI (XO (XI (XO (XO XH)))))))))))))))))))))))))))))))) :: ((Npos (XO
    (XO (XO (XI (XO (XO (XO (XO (XO (XO (XO (XO (XO (XO (XO (XO (XO (XO (XO
    (XO (XO (XO (XO (XO (XO (XO (XI (XO (XO (XO (XO
    XH)))))))))))))))))))))))))))))))) :: ((Npos (XO (XO (XO (XI (XO (XO (XO
    (XI (XO (XO (XO (XO (XO (XO (XO (XO (XO (XO (XO (XO (XO (XO (XO (XO (XO
    (XO (XI (XO (XO (XO (XO XH)))))))))))))))))))))))))))))))) :: ((Npos (XO
    (XO (XO (XI (XO (XO (XI (XO (XO (XO (XO (XO (XO (XO (XO (XO (XO (XO (XO
    (XO (XO (XO (XO (XO (XO (XO (XI (XO (XO (XO (XO
    XH)))))))))))))))))))))))))))))))) :: ((Npos (XO (XO (XO (XO (XI (XI (XI
    (XI (XO (XO (XO (XO (XO (XO (XO (XO (XO (XO (XO (XO (XO (XO (XO (XO (XO
    (XO (XI (XO (XI (XO (XO XH)))))))))))))))))))))))))))))))) :: ((Npos (XO
    (XI (XO (XO (XO (XO (XO (XO (XI (XO (XO (XO (XO (XO (XO (XO (XO (XO (XO
    (XO (XO (XO (XO (XO (XO (XO (XI (XO (XI (XI
    XH))))))))))))))))))))))))))))))) :: ((Npos (XO (XO (XI (XO (XI (XO (XI
    (XO (XO (XO (XO (XO (XO (XO (XO (XO (XO (XO (XO (XO (XO (XO (XO (XO (XO
    (XO (XI (XO (XO (XO (XO XH)))))))))))))))))))))))))))))))) :: ((Npos (XO
    (XO (XI (XO (XI (XO (XO (XO (XO (XO (XO (XO (XO (XO (XO (XO (XO (XO (XO
    (XO (XO (XO (XO (XO (XO (XO (XI (XO (XO (XO (XO
    XH)))))))))))))))))))))))))))))))) :: ((Npos (XO (XO (XI (XI (XI (XI (XI
    (XO (XO (XO (XO (XO (XO (XO (XO (XO (XO (XO (XO (XO (XO (XO (XO (XO (XO
    (XI (XI (XO (XI XH)))))))))))))))))))))))))))))) :: ((Npos (XI (XO (XI
    (XI (XO (XI (XO (XO (XI (XO (XO (XO (XO (XO (XO (XO (XO (XO (XO (XO (XO
    (XO (XO (XO (XO (XO (XI (XO (XO (XI (XO
    XH)))))))))))))))))))))))))))))))) :: ((Npos (XO (XO (XI (XO (XI (XI (XI
    (XO (XO (XO (XO (XO (XO (XO (XO (XO (XO (XO (XO (XO (XO (XO (XO (XO (XO
    (XO (XI (XO (XO (XO (XO XH)))))))))))))))))))))))))))))))) :: ((Npos (XO
    (XO (XI (XO (XI (XI (XO (XO (XO (XO (XO (XO (XO (XO (XO (XO (XO (XO (XO
    (XO (XO (XO (XO (XO (XO (XO (XI (XO (XO (XO (XO
    XH)))))))))))))))))))))))))))))))) :: ((Npos (XO (XO (XO (XI (XO (XO (XI
    (XI (XO (XO (XO (XO (XO (XO (XO (XO (XO (XO (XO (XO (XO (XO (XO (XO (XO
    (XO (XI (XO (XI (XO (XO XH)))))))))))))))))))))))))))))))) :: ((Npos (XI
    (XI (XO (XI (XO (XO (XO (XO (XI (XO (XO (XO (XO (XO (XO (XO (XO (XO (XO
    (XO (XO (XO (XO (XO (XO (XO (XI (XO (XO (XO (XO
    XH)))))))))))))))))))))))))))))))) :: ((Npos (XO (XO (XI (XO (XO (XI (XI
    (XO (XO (XO (XO (XO (XO (XO (XO (XO (XO (XO (XO (XO (XO (XO (XO (XO (XO
    (XO (XI (XO (XO (XO (XO XH)))))))))))))))))))))))))))))))) :: ((Npos (XO
    (XO (XI (XO (XO (XI (XO (XO (XO (XO (XO (XO (XO (XO (XO (XO (XO (XO (XO
    (XO (XO (XO (XO (XO (XO (XO (XI (XO (XO (XO (XO
    XH)))))))))))))))))))))))))))))))) :: ((Npos (XO (XO (XO (XI (XO (XI (XO
    (XI (XO (XO (XO (XO (XO (XO (XO (XO (XO (XO (XO (XO (XO (XO (XO (XO (XO
    (XO (XI (XO (XI (XO (XO XH)))))))))))))))))))))))))))))))) :: ((Npos (XO
    (XO (XI (XO (XO (XO (XO (XO (XO (XO (XO (XO (XO (XO (XO (XO (XO (XO (XO
    (XO (XO (XO (XO (XO (XO (XO (XI (XO (XO (XO (XO
    XH)))))))))))))))))))))))))))))))) :: ((Npos (XO (XO (XI (XO (XO (XO (XO
    (XI (XO (XO (XO (XO (XO (XO (XO (XO (XO (XO (XO (XO (XO (XO (XO (XO (XO
    (XO (XI (XO (XO (XO (XO XH)))))))))))))))))))))))))))))))) :: ((Npos (XO
    (XO (XI (XO (XO (XO (XI (XO (XO (XO (XO (XO (XO (XO (XO (XO (XO (XO (XO
    (XO (XO (XO (XO (XO (XO (XO (XI (XO (XO (XO (XO
    XH)))))))))))))))))))))))))))))))) :: ((Npos (XO (XO (XO (XI (XO (XI (XI
    (XI (XO (XO (XO (XO (XO (XO (XO (XO (XO (XO (XO (XO (XO (XO (XO (XO (XO
    (XO (XI (XO (XI (XO (XO XH)))))))))))))))))))))))))))))))) :: ((Npos (XO
    (XI (XI (XO (XO (XO (XO (XO (XI (XO (XO (XO (XO (XO (XO (XO (XO (XO (XO
    (XO (XO (XO (XO (XO (XO (XO (XI (XO (XI (XI
    XH))))))))))))))))))))))))))))))) :: ((Npos (XO (XO (XI (XI (XI (XO (XI
    (XO (XO (XO (XO (XO (XO (XO (XO (XO (XO (XO (XO (XO (XO (XO (XO (XO (XO
    (XO (XI (XO (XO (XO (XO XH)))))))))))))))))))))))))))))))) :: ((Npos (XO
    (XO (XI (XI (XI (XO (XO (XO (XO (XO (XO (XO (XO (XO (XO (XO (XO (XO (XO
    (XO (XO (XO (XO (XO (XO (XO (XI (XO (XO (XO (XO
    XH)))))))))))))))))))))))))))))))) :: ((Npos (XO (XO (XO (XI (XI (XO (XO
    (XI (XO (XO (XO (XO (XO (XO (XO (XO (XO (XO (XO (XO (XO (XO (XO (XO (XO
    (XO (XI (XO (XI (XO (XO XH)))))))))))))))))))))))))))))))) :: ((Npos (XI
    (XO (XI (XI (XI (XO (XI (XO (XI (XO (XO (XO (XO (XO (XO (XO (XO (XO (XO
    (XO (XO (XO (XO (XO (XO (XO (XI (XO (XI (XI (XO
    XH)))))))))))))))))))))))))))))))) :: ((Npos (XO (XO (XI (XI (XI (XI (XI
    (XO (XO (XO (XO (XO (XO (XO (XO (XO (XO (XO (XO (XO (XO (XO (XO (XO (XO
    (XO (XI (XO (XO (XO (XO XH)))))))))))))))))))))))))))))))) :: ((Npos (XO
    (XO (XI (XI (XI (XI (XO (XO (XO (XO (XO (XO (XO (XO (XO (XO (XO (XO (XO
    (XO (XO (XO (XO (XO (XO (XO (XI (XO (XO (XO (XO
    XH)))))))))))))))))))))))))))))))) :: ((Npos (XO (XO (XO (XI (XI (XO (XI
    (XI (XO (XO (XO (XO (XO (XO (XO (XO (XO (XO (XO (XO (XO (XO (XO (XO (XO
    (XO (XI (XO (XI (XO (XO XH)))))))))))))))))))))))))))))))) :: ((Npos (XI
    (XO (XI (XO (XI (XO (XO (XO (XI (XO (XO (XO (XO (XO (XO (XO (XO (XO (XO
    (XO (XO (XO (XO (XO (XO (XO (XI (XO (XI (XO (XO
    XH)))))))))))))))))))))))))))))))) :: ((Npos (XO (XO (XI (XI (XO (XI (XI
    (XO (XO (XO (XO (XO (XO (XO (XO (XO (XO (XO (XO (XO (XO (XO (XO (XO (XO
    (XO (XI (XO (XO (XO (XO XH)))))))))))))))))))))))))))))))) :: ((Npos (XO
    (XO (XI (XI (XO (XI (XO (XO (XO (XO (XO (XO (XO (XO (XO (XO (XO (XO (XO
    (XO (XO (XO (XO (XO (XO (XO (XI (XO (XO (XO (XO
    XH)))))))))))))))))))))))))))))))) :: ((Npos (XO (XO (XO (XI (XI (XI (XO
    (XI (XO (XO (XO (XO (XO (XO (XO (XO (XO (XO (XO (XO (XO (XO (XO (XO (XO
    (XO (XI (XO (XI (XO (XO XH)))))))))))))))))))))))))))))))) :: ((Npos (XO
    (XO (XI (XI (XO (XO (XO (XO (XO (XO (XO (XO (XO (XO (XO (XO (XO (XO (XO
    (XO (XO (XO (XO (XO (XO (XO (XI (XO (XO (XO (XO
    XH)))))))))))))))))))))))))))))))) :: ((Npos (XO (XO (XI (XI (XO (XO (XO
    (XI (XO (XO (XO (XO (XO (XO (XO (XO (XO (XO (XO (XO (XO (XO (XO (XO (XO
    (XO (XI (XO (XO (XO (XO XH)))))))))))))))))))))))))))))))) :: ((Npos (XO
    (XO (XI (XI (XO (XO (XI (XO (XO (XO (XO (XO (XO (XO (XO (XO (XO (XO (XO
    (XO (XO (XO (XO (XO (XO (XO (XI (XO (XO (XO (XO
    XH)))))))))))))))))))))))))))))))) :: ((Npos (XO (XO (XO (XI (XI (XI (XI
    (XI (XO (XO (XO (XO (XO (XO (XO (XO (XO (XO (XO (XO (XO (XO (XO (XO (XO
    (XO (XI (XO (XI (XO (XO XH)))))))))))))))))))))))))))))))) :: ((Npos (XI
    (XO (XO (XO (XO (XO (XO (XO (XI (XO (XO (XO (XO (XO (XO (XO (XO (XO (XO
    (XO (XO (XO (XO (XO (XO (XO (XI (XO (XI (XI
    XH))))))))))))))))))))))))))))))) :: ((Npos (XO (XI (XO (XO (XI (XO (XI
    (XO (XO (XO (XO (XO (XO (XO (XO (XO (XO (XO (XO (XO (XO (XO (XO (XO (XO
    (XO (XI (XO (XO (XO (XO XH)))))))))))))))))))))))))))))))) :: ((Npos (XO
    (XI (XO (XO (XI (XO (XO (XO (XO (XO (XO (XO (XO (XO (XO (XO (XO (XO (XO
    (XO (XO (XO (XO (XO (XO (XO (XI (XO (XO (XO (XO
    XH)))))))))))))))))))))))))))))))) :: ((Npos (XO (XO (XI (XI (XI (XI (XO
    (XO (XO (XO (XO (XO (XO (XO (XO (XO (XO (XO (XO (XO (XO (XO (XO (XO (XO
    (XI (XI (XO (XI XH)))))))))))))))))))))))))))))) :: ((Npos (XI (XO (XI
    (XO (XO (XI (XO (XO (XI (XO (XO (XO (XO (XO (XO (XO (XO (XO (XO (XO (XO
    (XO (XO (XO (XO (XO (XI (XO (XO (XI (XO
    XH)))))))))))))))))))))))))))))))) :: ((Npos (XO (XI (XO (XO (XI (XI (XI
    (XO (XO (XO (XO (XO (XO (XO (XO (XO (XO (XO (XO (XO (XO (XO (XO (XO (XO
    (XO (XI (XO (XO (XO (XO XH)))))))))))))))))))))))))))))))) :: ((Npos (XO
    (XI (XO (XO (XI (XI (XO (XO (XO (XO (XO (XO (XO (XO (XO (XO (XO (XO (XO
    (XO (XO (XO (XO (XO (XO (XO (XI (XO (XO (XO (XO
    XH)))))))))))))))))))))))))))))))) :: ((Npos (XO (XO (XI (XO (XO (XO (XI
    (XI (XO (XO (XO (XO (XO (XO (XO (XO (XO (XO (XO (XO (XO (XO (XO (XO (XO
    (XO (XI (XO (XI (XO (XO XH)))))))))))))))))))))))))))))))) :: ((Npos (XI
    (XO (XO (XI (XO (XO (XO (XO (XI (XO (XO (XO (XO (XO (XO (XO (XO (XO (XO
    (XO (XO (XO (XO (XO (XO (XO (XI (XO (XO (XO (XO
    XH)))))))))))))))))))))))))))))))) :: ((Npos (XO (XI (XO (XO (XO (XI (XI
    (XO (XO (XO (XO (XO (XO (XO (XO (XO (XO (XO (XO (XO (XO (XO (XO (XO (XO
    (XO (XI (XO (XO (XO (XO XH)))))))))))))))))))))))))))))))) :: ((Npos (XO
    (XI (XO (XO (XO (XI (XO (XO (XO (XO (XO (XO (XO (XO (XO (XO (XO (XO (XO
    (XO (XO (XO (XO (XO (XO (XO (XI (XO (XO (XO (XO
    XH)))))))))))))))))))))))))))))))) :: ((Npos (XO (XO (XI (XO (XO (XI (XO
    (XI (XO (XO (XO (XO (XO (XO (XO (XO (XO (XO (XO (XO (XO (XO (XO (XO (XO
    (XO (XI (XO (XI (XO (XO XH)))))))))))))))))))))))))))))))) :: ((Npos (XO
    (XI (XO (XO (XO (XO (XO (XO (XO (XO (XO (XO (XO (XO (XO (XO (XO (XO (XO
    (XO (XO (XO (XO (XO (XO (XO (XI (XO (XO (XO (XO
    XH)))))))))))))))))))))))))))))))) :: ((Npos (XO (XI (XO (XO (XO (XO (XO
    (XI (XO (XO (XO (XO (XO (XO (XO (XO (XO (XO (XO (XO (XO (XO (XO (XO (XO
    (XO (XI (XO (XO (XO (XO XH)))))))))))))))))))))))))))))))) :: ((Npos (XO
    (XI (XO (XO (XO (XO (XI (XO (XO (XO (XO (XO (XO (XO (XO (XO (XO (XO (XO
    (XO (XO (XO (XO (XO (XO (XO (XI (XO (XO (XO (XO
    XH)))))))))))))))))))))))))))))))) :: ((Npos (XO (XO (XI (XO (XO (XI (XI
    (XI (XO (XO (XO (XO (XO (XO (XO (XO (XO (XO (XO (XO (XO (XO (XO (XO (XO
    (XO (XI (XO (XI (XO (XO XH)))))))))))))))))))))))))))))))) :: ((Npos (XI
    (XO (XI (XO (XO (XO (XO (XO (XI (XO (XO (XO (XO (XO (XO (XO (XO (XO (XO
    (XO (XO (XO (XO (XO (XO (XO (XI (XO (XI (XI
    XH))))))))))))))))))))))))))))))) :: ((Npos (XO (XI (XO (XI (XI (XO (XI
    (XO (XO (XO (XO (XO (XO (XO (XO (XO (XO (XO (XO (XO (XO (XO (XO (XO (XO
    (XO (XI (XO (XO (XO (XO XH)))))))))))))))))))))))))))))))) :: ((Npos (XO
    (XI (XO (XI (XI (XO (XO (XO (XO (XO (XO (XO (XO (XO (XO (XO (XO (XO (XO
    (XO (XO (XO (XO (XO (XO (XO (XI (XO (XO (XO (XO
    XH)))))))))))))))))))))))))))))))) :: ((Npos (XO (XO (XI (XO (XI (XO (XO
    (XI (XO (XO (XO (XO (XO (XO (XO (XO (XO (XO (XO (XO (XO (XO (XO (XO (XO
    (XO (XI (XO (XI (XO (XO XH)))))))))))))))))))))))))))))))) :: ((Npos (XI
    (XO (XI (XI (XO (XO (XI (XO (XI (XO (XO (XO (XO (XO (XO (XO (XO (XO (XO
    (XO (XO (XO (XO (XO (XO (XO (XI (XO (XI (XI (XO
    XH)))))))))))))))))))))))))))))))) :: ((Npos (XO (XI (XO (XI (XI (XI (XI
    (XO (XO (XO (XO (XO (XO (XO (XO (XO (XO (XO (XO (XO (XO (XO (XO (XO (XO
    (XO (XI (XO (XO (XO (XO XH)))))))))))))))))))))))))))))))) :: ((Npos (XO
    (XI (XO (XI (XI (XI (XO (XO (XO (XO (XO (XO (XO (XO (XO (XO (XO (XO (XO
    (XO (XO (XO (XO (XO (XO (XO (XI (XO (XO (XO (XO
    XH)))))))))))))))))))))))))))))))) :: ((Npos (XO (XO (XI (XO (XI (XO (XI
    (XI (XO (XO (XO (XO (XO (XO (XO (XO (XO (XO (XO (XO (XO (XO (XO (XO (XO
    (XO (XI (XO (XI (XO (XO XH)))))))))))))))))))))))))))))))) :: ((Npos (XI
    (XO (XO (XO (XI (XO (XO (XO (XI (XO (XO (XO (XO (XO (XO (XO (XO (XO (XO
    (XO (XO (XO (XO (XO (XO (XO (XI (XO (XI (XO (XO
    XH)))))))))))))))))))))))))))))))) :: ((Npos (XO (XI (XO (XI (XO (XI (XI
    (XO (XO (XO (XO (XO (XO (XO (XO (XO (XO (XO (XO (XO (XO (XO (XO (XO (XO
    (XO (XI (XO (XO (XO (XO XH)))))))))))))))))))))))))))))))) :: ((Npos (XO
    (XI (XO (XI (XO (XI (XO (XO (XO (XO (XO (XO (XO (XO (XO (XO (XO (XO (XO
    (XO (XO (XO (XO (XO (XO (XO (XI (XO (XO (XO (XO
    XH)))))))))))))))))))))))))))))))) :: ((Npos (XO (XO (XI (XO (XI (XI (XO
    (XI (XO (XO (XO (XO (XO (XO (XO (XO (XO (XO (XO (XO (XO (XO (XO (XO (XO
    (XO (XI (XO (XI (XO (XO XH)))))))))))))))))))))))))))))))) :: ((Npos (XO
    (XI (XO (XI (XO (XO (XO (XO (XO (XO (XO (XO (XO (XO (XO (XO (XO (XO (XO
    (XO (XO (XO (XO (XO (XO (XO (XI (XO (XO (XO (XO
    XH)))))))))))))))))))))))))))))))) :: ((Npos (XO (XI (XO (XI (XO (XO (XO
    (XI (XO (XO (XO (XO (XO (XO (XO (XO (XO (XO (XO (XO (XO (XO (XO (XO (XO
    (XO (XI (XO (XO (XO (XO XH)))))))))))))))))))))))))))))))) :: ((Npos (XO
    (XI (XO (XI (XO (XO (XI (XO (XO (XO (XO (XO (XO (XO (XO (XO (XO (XO (XO
    (XO (XO (XO (XO (XO (XO (XO (XI (XO (XO (XO (XO
    XH)))))))))))))))))))))))))))))))) :: ((Npos (XO (XO (XI (XO (XI (XI (XI
    (XI (XO (XO (XO (XO (XO (XO (XO (XO (XO (XO (XO (XO (XO (XO (XO (XO (XO
    (XO (XI (XO (XI (XO (XO XH)))))))))))))))))))))))))))))))) :: ((Npos (XI
    (XI (XO (XO (XO (XO (XO (XO (XI (XO (XO (XO (XO (XO (XO (XO (XO (XO (XO
    (XO (XO (XO (XO (XO (XO (XO (XI (XO (XI (XI
    XH))))))))))))))))))))))))))))))) :: ((Npos (XO (XI (XI (XO (XI (XO (XI
    (XO (XO (XO (XO (XO (XO (XO (XO (XO (XO (XO (XO (XO (XO (XO (XO (XO (XO
    (XO (XI (XO (XO (XO (XO XH)))))))))))))))))))))))))))))))) :: ((Npos (XO
    (XI (XI (XO (XI (XO (XO (XO (XO (XO (XO (XO (XO (XO (XO (XO (XO (XO (XO
    (XO (XO (XO (XO (XO (XO (XO (XI (XO (XO (XO (XO
    XH)))))))))))))))))))))))))))))))) :: (N0 :: ((Npos (XI (XO (XI (XO (XI
    (XI (XO (XO (XI (XO (XO (XO (XO (XO (XO (XO (XO (XO (XO (XO (XO (XO (XO
    (XO (XO (XO (XI (XO (XO (XI (XO
    XH)))))))))))))))))))))))))))))))) :: ((Npos (XO (XI (XI (XO (XI (XI (XI
    (XO (XO (XO (XO (XO (XO (XO (XO (XO (XO (XO (XO (XO (XO (XO (XO (XO (XO
    (XO (XI (XO (XO (XO (XO XH)))))))))))))))))))))))))))))))) :: ((Npos (XO
    (XI (XI (XO (XI (XI (XO (XO (XO (XO (XO (XO (XO (XO (XO (XO (XO (XO (XO
    (XO (XO (XO (XO (XO (XO (XO (XI (XO (XO (XO (XO
    XH)))))))))))))))))))))))))))))))) :: ((Npos (XO (XO (XI (XI (XO (XO (XI
    (XI (XO (XO (XO (XO (XO (XO (XO (XO (XO (XO (XO (XO (XO (XO (XO (XO (XO
    (XO (XI (XO (XI (XO (XO XH)))))))))))))))))))))))))))))))) :: ((Npos (XI
    (XO (XI (XI (XO (XO (XO (XO (XI (XO (XO (XO (XO (XO (XO (XO (XO (XO (XO
    (XO (XO (XO (XO (XO (XO (XO (XI (XO (XO (XO (XO
    XH)))))))))))))))))))))))))))))))) :: ((Npos (XO (XI (XI (XO (XO (XI (XI
    (XO (XO (XO (XO (XO (XO (XO (XO (XO (XO (XO (XO (XO (XO (XO (XO (XO (XO
    (XO (XI (XO (XO (XO (XO XH)))))))))))))))))))))))))))))))) :: ((Npos (XO
    (XI (XI (XO (XO (XI (XO (XO (XO (XO (XO (XO (XO (XO (XO (XO (XO (XO (XO
    (XO (XO (XO (XO (XO (XO (XO (XI (XO (XO (XO (XO
    XH)))))))))))))))))))))))))))))))) :: ((Npos (XO (XO (XI (XI (XO (XI (XO
    (XI (XO (XO (XO (XO (XO (XO (XO (XO (XO (XO (XO (XO (XO (XO (XO (XO (XO
    (XO (XI (XO (XI (XO (XO XH)))))))))))))))))))))))))))))))) :: ((Npos (XO
    (XI (XI (XO (XO (XO (XO (XO (XO (XO (XO (XO (XO (XO (XO (XO (XO (XO (XO
    (XO (XO (XO (XO (XO (XO (XO (XI (XO (XO (XO (XO
    XH)))))))))))))))))))))))))))))))) :: ((Npos (XO (XI (XI (XO (XO (XO (XO
    (XI (XO (XO (XO (XO (XO (XO (XO (XO (XO (XO (XO (XO (XO (XO (XO (XO (XO
    (XO (XI (XO (XO (XO (XO XH)))))))))))))))))))))))))))))))) :: ((Npos (XO
    (XI (XI (XO (XO (XO (XI (XO (XO (XO (XO (XO (XO (XO (XO (XO (XO (XO (XO
    (XO (XO (XO (XO (XO (XO (XO (XI (XO (XO (XO (XO
    XH)))))))))))))))))))))))))))))))) :: ((Npos (XO (XO (XI (XI (XO (XI (XI
    (XI (XO (XO (XO (XO (XO (XO (XO (XO (XO (XO (XO (XO (XO (XO (XO (XO (XO
    (XO (XI (XO (XI (XO (XO XH)))))))))))))))))))))))))))))))) :: ((Npos (XI
    (XI (XI (XO (XO (XO (XO (XO (XI (XO (XO (XO (XO (XO (XO (XO (XO (XO (XO
    (XO (XO (XO (XO (XO (XO (XO (XI (XO (XI (XI
    XH))))))))))))))))))))))))))))))) :: ((Npos (XO (XI (XI (XI (XI (XO (XI
    (XO (XO (XO (XO (XO (XO (XO (XO (XO (XO (XO (XO (XO (XO (XO (XO (XO (XO
    (XO (XI (XO (XO (XO (XO XH)))))))))))))))))))))))))))))))) :: ((Npos (XO
    (XI (XI (XI (XI (XO (XO (XO (XO (XO (XO (XO (XO (XO (XO (XO (XO (XO (XO
    (XO (XO (XO (XO (XO (XO (XO (XI (XO (XO (XO (XO
    XH)))))))))))))))))))))))))))))))) :: ((Npos (XO (XO (XI (XI (XI (XO (XO
    (XI (XO (XO (XO (XO (XO (XO (XO (XO (XO (XO (XO (XO (XO (XO (XO (XO (XO
    (XO (XI (XO (XI (XO (XO XH)))))))))))))))))))))))))))))))) :: ((Npos (XI
    (XO (XI (XI (XO (XI (XI (XO (XI (XO (XO (XO (XO (XO (XO (XO (XO (XO (XO
    (XO (XO (XO (XO (XO (XO (XO (XI (XO (XI (XI (XO
    XH)))))))))))))))))))))))))))))))) :: ((Npos (XO (XI (XI (XI (XI (XI (XI
    (XO (XO (XO (XO (XO (XO (XO (XO (XO (XO (XO (XO (XO (XO (XO (XO (XO (XO
    (XO (XI (XO (XO (XO (XO XH)))))))))))))))))))))))))))))))) :: ((Npos (XO
    (XI (XI (XI (XI (XI (XO (XO (XO (XO (XO (XO (XO (XO (XO (XO (XO (XO (XO
    (XO (XO (XO (XO (XO (XO (XO (XI (XO (XO (XO (XO
    XH)))))))))))))))))))))))))))))))) :: ((Npos (XO (XO (XI (XI (XI (XO (XI
    (XI (XO (XO (XO (XO (XO (XO (XO (XO (XO (XO (XO (XO (XO (XO (XO (XO (XO
    (XO (XI (XO (XI (XO (XO XH)))))))))))))))))))))))))))))))) :: ((Npos (XI
    (XO (XO (XI (XI (XO (XO (XO (XI (XO (XO (XO (XO (XO (XO (XO (XO (XO (XO
    (XO (XO (XO (XO (XO (XO (XO (XI (XO (XI (XO (XO
    XH)))))))))))))))))))))))))))))))) :: ((Npos (XO (XI (XI (XI (XO (XI (XI
    (XO (XO (XO (XO (XO (XO (XO (XO (XO (XO (XO (XO (XO (XO (XO (XO (XO (XO
    (XO (XI (XO (XO (XO (XO XH)))))))))))))))))))))))))))))))) :: ((Npos (XO
    (XI (XI (XI (XO (XI (XO (XO (XO (XO (XO (XO (XO (XO (XO (XO (XO (XO (XO
    (XO (XO (XO (XO (XO (XO (XO (XI (XO (XO (XO (XO
    XH)))))))))))))))))))))))))))))))) :: ((Npos (XO (XO (XI (XI (XI (XI (XO
    (XI (XO (XO (XO (XO (XO (XO (XO (XO (XO (XO (XO (XO (XO (XO (XO (XO (XO
    (XO (XI (XO (XI (XO (XO XH)))))))))))))))))))))))))))))))) :: ((Npos (XO
    (XI (XI (XI (XO (XO (XO (XO (XO (XO (XO (XO (XO (XO (XO (XO (XO (XO (XO
    (XO (XO (XO (XO (XO (XO (XO (XI (XO (XO (XO (XO
    XH)))))))))))))))))))))))))))))))) :: ((Npos (XO (XI (XI (XI (XO (XO (XO
    (XI (XO (XO (XO (XO (XO (XO (XO (XO (XO (XO (XO (XO (XO (XO (XO (XO (XO
    (XO (XI (XO (XO (XO (XO XH)))))))))))))))))))))))))))))))) :: ((Npos (XO
    (XI (XI (XI (XO (XO (XI (XO (XO (XO (XO (XO (XO (XO (XO (XO (XO (XO (XO
    (XO (XO (XO (XO (XO (XO (XO (XI (XO (XO (XO (XO
    XH)))))))))))))))))))))))))))))))) :: ((Npos (XO (XO (XI (XI (XI (XI (XI
    (XI (XO (XO (XO (XO (XO (XO (XO (XO (XO (XO (XO (XO (XO (XO (XO (XO (XO
    (XO (XI (XO (XI (XO (XO XH)))))))))))))))))))))))))))))))) :: ((Npos (XO
    (XO (XO (XO (XO (XO (XO (XO (XI (XO (XO (XO (XO (XO (XO (XO (XO (XO (XO
    (XO (XO (XO (XO (XO (XO (XO (XI (XO (XI (XI
    XH))))))))))))))))))))))))))))))) :: ((Npos (XI (XO (XO (XO (XI (XO (XI
    (XO (XO (XO (XO (XO (XO (XO (XO (XO (XO (XO (XO (XO (XO (XO (XO (XO (XO
    (XO (XI (XO (XO (XO (XO XH)))))))))))))))))))))))))))))))) :: ((Npos (XI
    (XO (XO (XO (XI (XO (XO (XO (XO (XO (XO (XO (XO (XO (XO (XO (XO (XO (XO
    (XO (XO (XO (XO (XO (XO (XO (XI (XO (XO (XO (XO
    XH)))))))))))))))))))))))))))))))) :: ((Npos (XO (XO (XI (XI (XI (XO (XO
    (XO (XO (XO (XO (XO (XO (XO (XO (XO (XO (XO (XO (XO (XO (XO (XO (XO (XO
    (XI (XI (XO (XI XH)))))))))))))))))))))))))))))) :: ((Npos (XO (XI (XI
    (XI (XI (XO (XO (XO (XI (XO (XO (XO (XO (XO (XO (XO (XO (XO (XO (XO (XO
    (XO (XO (XO (XO (XO (XI (XO (XI (XO (XO
    XH)))))))))))))))))))))))))))))))) :: ((Npos (XI (XO (XO (XO (XI (XI (XI
    (XO (XO (XO (XO (XO (XO (XO (XO (XO (XO (XO (XO (XO (XO (XO (XO (XO (XO
    (XO (XI (XO (XO (XO (XO XH)))))))))))))))))))))))))))))))) :: ((Npos (XI
    (XO (XO (XO (XI (XI (XO (XO (XO (XO (XO (XO (XO (XO (XO (XO (XO (XO (XO
    (XO (XO (XO (XO (XO (XO (XO (XI (XO (XO (XO (XO
    XH)))))))))))))))))))))))))))))))) :: ((Npos (XO (XI (XO (XO (XO (XO (XI
    (XI (XO (XO (XO (XO (XO (XO (XO (XO (XO (XO (XO (XO (XO (XO (XO (XO (XO
    (XO (XI (XO (XI (XO (XO XH)))))))))))))))))))))))))))))))) :: ((Npos (XO
    (XO (XO (XI (XO (XO (XO (XO (XI (XO (XO (XO (XO (XO (XO (XO (XO (XO (XO
    (XO (XO (XO (XO (XO (XO (XO (XI (XO (XI (XI
    XH))))))))))))))))))))))))))))))) :: ((Npos (XI (XO (XO (XO (XO (XI (XI
    (XO (XO (XO (XO (XO (XO (XO (XO (XO (XO (XO (XO (XO (XO (XO (XO (XO (XO
    (XO (XI (XO (XO (XO (XO XH)))))))))))))))))))))))))))))))) :: ((Npos (XI
    (XO (XO (XO (XO (XI (XO (XO (XO (XO (XO (XO (XO (XO (XO (XO (XO (XO (XO
    (XO (XO (XO (XO (XO (XO (XO (XI (XO (XO (XO (XO
    XH)))))))))))))))))))))))))))))))) :: ((Npos (XO (XI (XO (XO (XO (XI (XO
    (XI (XO (XO (XO (XO (XO (XO (XO (XO (XO (XO (XO (XO (XO (XO (XO (XO (XO
    (XO (XI (XO (XI (XO (XO XH)))))))))))))))))))))))))))))))) :: ((Npos (XI
    (XO (XO (XO (XO (XO (XO (XO (XO (XO (XO (XO (XO (XO (XO (XO (XO (XO (XO
    (XO (XO (XO (XO (XO (XO (XO (XI (XO (XO (XO (XO
    XH)))))))))))))))))))))))))))))))) :: ((Npos (XI (XO (XO (XO (XO (XO (XO
    (XI (XO (XO (XO (XO (XO (XO (XO (XO (XO (XO (XO (XO (XO (XO (XO (XO (XO
    (XO (XI (XO (XO (XO (XO XH)))))))))))))))))))))))))))))))) :: ((Npos (XI
    (XO (XO (XO (XO (XO (XI (XO (XO (XO (XO (XO (XO (XO (XO (XO (XO (XO (XO
    (XO (XO (XO (XO (XO (XO (XO (XI (XO (XO (XO (XO
    XH)))))))))))))))))))))))))))))))) :: ((Npos (XO (XI (XO (XO (XO (XI (XI
    (XI (XO (XO (XO (XO (XO (XO (XO (XO (XO (XO (XO (XO (XO (XO (XO (XO (XO
    (XO (XI (XO (XI (XO (XO XH)))))))))))))))))))))))))))))))) :: ((Npos (XO
    (XO (XI (XO (XO (XO (XO (XO (XI (XO (XO (XO (XO (XO (XO (XO (XO (XO (XO
    (XO (XO (XO (XO (XO (XO (XO (XI (XO (XI (XI
    XH))))))))))))))))))))))))))))))) :: ((Npos (XI (XO (XO (XI (XI (XO (XI
    (XO (XO (XO (XO (XO (XO (XO (XO (XO (XO (XO (XO (XO (XO (XO (XO (XO (XO
    (XO (XI (XO (XO (XO (XO XH)))))))))))))))))))))))))))))))) :: ((Npos (XI
    (XO (XO (XI (XI (XO (XO (XO (XO (XO (XO (XO (XO (XO (XO (XO (XO (XO (XO
    (XO (XO (XO (XO (XO (XO (XO (XI (XO (XO (XO (XO
    XH)))))))))))))))))))))))))))))))) :: ((Npos (XO (XI (XO (XO (XI (XO (XO
    (XI (XO (XO (XO (XO (XO (XO (XO (XO (XO (XO (XO (XO (XO (XO (XO (XO (XO
    (XO (XI (XO (XI (XO (XO XH)))))))))))))))))))))))))))))))) :: ((Npos (XO
    (XI (XI (XI (XI (XI (XO (XO (XI (XO (XO (XO (XO (XO (XO (XO (XO (XO (XO
    (XO (XO (XO (XO (XO (XO (XO (XI (XO (XO (XI (XO
    XH)))))))))))))))))))))))))))))))) :: ((Npos (XI (XO (XO (XI (XI (XI (XI
    (XO (XO (XO (XO (XO (XO (XO (XO (XO (XO (XO (XO (XO (XO (XO (XO (XO (XO
    (XO (XI (XO (XO (XO (XO XH)))))))))))))))))))))))))))))))) :: ((Npos (XI
    (XO (XO (XI (XI (XI (XO (XO (XO (XO (XO (XO (XO (XO (XO (XO (XO (XO (XO
    (XO (XO (XO (XO (XO (XO (XO (XI (XO (XO (XO (XO
    XH)))))))))))))))))))))))))))))))) :: ((Npos (XO (XI (XO (XO (XI (XO (XI
    (XI (XO (XO (XO (XO (XO (XO (XO (XO (XO (XO (XO (XO (XO (XO (XO (XO (XO
    (XO (XI (XO (XI (XO (XO XH)))))))))))))))))))))))))))))))) :: ((Npos (XO
    (XO (XO (XO (XI (XO (XO (XO (XI (XO (XO (XO (XO (XO (XO (XO (XO (XO (XO
    (XO (XO (XO (XO (XO (XO (XO (XI (XO (XO (XO (XO
    XH)))))))))))))))))))))))))))))))) :: ((Npos (XI (XO (XO (XI (XO (XI (XI
    (XO (XO (XO (XO (XO (XO (XO (XO (XO (XO (XO (XO (XO (XO (XO (XO (XO (XO
    (XO (XI (XO (XO (XO (XO XH)))))))))))))))))))))))))))))))) :: ((Npos (XI
    (XO (XO (XI (XO (XI (XO (XO (XO (XO (XO (XO (XO (XO (XO (XO (XO (XO (XO
    (XO (XO (XO (XO (XO (XO (XO (XI (XO (XO (XO (XO
    XH)))))))))))))))))))))))))))))))) :: ((Npos (XO (XI (XO (XO (XI (XI (XO
    (XI (XO (XO (XO (XO (XO (XO (XO (XO (XO (XO (XO (XO (XO (XO (XO (XO (XO
    (XO (XI (XO (XI (XO (XO XH)))))))))))))))))))))))))))))))) :: ((Npos (XI
    (XO (XO (XI (XO (XO (XO (XO (XO (XO (XO (XO (XO (XO (XO (XO (XO (XO (XO
    (XO (XO (XO (XO (XO (XO (XO (XI (XO (XO (XO (XO
    XH)))))))))))))))))))))))))))))))) :: ((Npos (XI (XO (XO (XI (XO (XO (XO
    (XI (XO (XO (XO (XO (XO (XO (XO (XO (XO (XO (XO (XO (XO (XO (XO (XO (XO
    (XO (XI (XO (XO (XO (XO XH)))))))))))))))))))))))))))))))) :: ((Npos (XI
    (XO (XO (XI (XO (XO (XI (XO (XO (XO (XO (XO (XO (XO (XO (XO (XO (XO (XO
    (XO (XO (XO (XO (XO (XO (XO (XI (XO (XO (XO (XO
    XH)))))))))))))))))))))))))))))))) :: ((Npos (XO (XI (XO (XO (XI (XI (XI
    (XI (XO (XO (XO (XO (XO (XO (XO (XO (XO (XO (XO (XO (XO (XO (XO (XO (XO
    (XO (XI (XO (XI (XO (XO XH)))))))))))))))))))))))))))))))) :: ((Npos (XO
    (XI (XO (XO (XO (XO (XO (XO (XI (XO (XO (XO (XO (XO (XO (XO (XO (XO (XO
    (XO (XO (XO (XO (XO (XO (XO (XI (XO (XI (XI
    XH))))))))))))))))))))))))))))))) :: ((Npos (XI (XO (XI (XO (XI (XO (XI
    (XO (XO (XO (XO (XO (XO (XO (XO (XO (XO (XO (XO (XO (XO (XO (XO (XO (XO
    (XO (XI (XO (XO (XO (XO XH)))))))))))))))))))))))))))))))) :: ((Npos (XI
    (XO (XI (XO (XI (XO (XO (XO (XO (XO (XO (XO (XO (XO (XO (XO (XO (XO (XO
    (XO (XO (XO (XO (XO (XO (XO (XI (XO (XO (XO (XO
    XH)))))))))))))))))))))))))))))))) :: ((Npos (XO (XO (XO (XO (XO (XO (XO
    (XO (XO (XI (XO (XO (XO (XO (XO (XO (XO (XO (XO (XO (XO (XO (XO (XO (XO
    (XO (XI (XO (XO (XO (XO XH)))))))))))))))))))))))))))))))) :: ((Npos (XO
    (XI (XI (XI (XO (XI (XO (XO (XI (XO (XO (XO (XO (XO (XO (XO (XO (XO (XO
    (XO (XO (XO (XO (XO (XO (XO (XI (XO (XO (XI (XO
    XH)))))))))))))))))))))))))))))))) :: ((Npos (XI (XO (XI (XO (XI (XI (XI
    (XO (XO (XO (XO (XO (XO (XO (XO (XO (XO (XO (XO (XO (XO (XO (XO (XO (XO
    (XO (XI (XO (XO (XO (XO XH)))))))))))))))))))))))))))))))) :: ((Npos (XI
    (XO (XI (XO (XI (XI (XO (XO (XO (XO (XO (XO (XO (XO (XO (XO (XO (XO (XO
    (XO (XO (XO (XO (XO (XO (XO (XI (XO (XO (XO (XO
    XH)))))))))))))))))))))))))))))))) :: ((Npos (XO (XI (XO (XI (XO (XO (XI
    (XI (XO (XO (XO (XO (XO (XO (XO (XO (XO (XO (XO (XO (XO (XO (XO (XO (XO
    (XO (XI (XO (XI (XO (XO XH)))))))))))))))))))))))))))))))) :: ((Npos (XO
    (XO (XI (XI (XO (XO (XO (XO (XI (XO (XO (XO (XO (XO (XO (XO (XO (XO (XO
    (XO (XO (XO (XO (XO (XO (XO (XI (XO (XO (XO (XO
    XH)))))))))))))))))))))))))))))))) :: ((Npos (XI (XO (XI (XO (XO (XI (XI
    (XO (XO (XO (XO (XO (XO (XO (XO (XO (XO (XO (XO (XO (XO (XO (XO (XO (XO
    (XO (XI (XO (XO (XO (XO XH)))))))))))))))))))))))))))))))) :: ((Npos (XI
    (XO (XI (XO (XO (XI (XO (XO (XO (XO (XO (XO (XO (XO (XO (XO (XO (XO (XO
    (XO (XO (XO (XO (XO (XO (XO (XI (XO (XO (XO (XO
    XH)))))))))))))))))))))))))))))))) :: ((Npos (XO (XI (XO (XI (XO (XI (XO
    (XI (XO (XO (XO (XO (XO (XO (XO (XO (XO (XO (XO (XO (XO (XO (XO (XO (XO
    (XO (XI (XO (XI (XO (XO XH)))))))))))))))))))))))))))))))) :: ((Npos (XI
    (XO (XI (XO (XO (XO (XO (XO (XO (XO (XO (XO (XO (XO (XO (XO (XO (XO (XO
    (XO (XO (XO (XO (XO (XO (XO (XI (XO (XO (XO (XO
    XH)))))))))))))))))))))))))))))))) :: ((Npos (XI (XO (XI (XO (XO (XO (XO
    (XI (XO (XO (XO (XO (XO (XO (XO (XO (XO (XO (XO (XO (XO (XO (XO (XO (XO
    (XO (XI (XO (XO (XO (XO XH)))))))))))))))))))))))))))))))) :: ((Npos (XI
    (XO (XI (XO (XO (XO (XI (XO (XO (XO (XO (XO (XO (XO (XO (XO (XO (XO (XO
    (XO (XO (XO (XO (XO (XO (XO (XI (XO (XO (XO (XO
    XH)))))))))))))))))))))))))))))))) :: ((Npos (XO (XI (XO (XI (XO (XI (XI
    (XI (XO (XO (XO (XO (XO (XO (XO (XO (XO (XO (XO (XO (XO (XO (XO (XO (XO
    (XO (XI (XO (XI (XO (XO XH)))))))))))))))))))))))))))))))) :: ((Npos (XO
    (XI (XI (XO (XO (XO (XO (XO (XI (XO (XO (XO (XO (XO (XO (XO (XO (XO (XO
    (XO (XO (XO (XO (XO (XO (XO (XI (XO (XI (XI
    XH))))))))))))))))))))))))))))))) :: ((Npos (XI (XO (XI (XI (XI (XO (XI
    (XO (XO (XO (XO (XO (XO (XO (XO (XO (XO (XO (XO (XO (XO (XO (XO (XO (XO
    (XO (XI (XO (XO (XO (XO XH)))))))))))))))))))))))))))))))) :: ((Npos (XI
    (XO (XI (XI (XI (XO (XO (XO (XO (XO (XO (XO (XO (XO (XO (XO (XO (XO (XO
    (XO (XO (XO (XO (XO (XO (XO (XI (XO (XO (XO (XO
    XH)))))))))))))))))))))))))))))))) :: ((Npos (XO (XI (XO (XI (XI (XO (XO
    (XI (XO (XO (XO (XO (XO (XO (XO (XO (XO (XO (XO (XO (XO (XO (XO (XO (XO
    (XO (XI (XO (XI (XO (XO XH)))))))))))))))))))))))))))))))) :: ((Npos (XO
    (XI (XI (XI (XI (XO (XI (XO (XI (XO (XO (XO (XO (XO (XO (XO (XO (XO (XO
    (XO (XO (XO (XO (XO (XO (XO (XI (XO (XI (XI (XO
    XH)))))))))))))))))))))))))))))))) :: ((Npos (XI (XO (XI (XI (XI (XI (XI
    (XO (XO (XO (XO (XO (XO (XO (XO (XO (XO (XO (XO (XO (XO (XO (XO (XO (XO
    (XO (XI (XO (XO (XO (XO XH)))))))))))))))))))))))))))))))) :: ((Npos (XI
    (XO (XI (XI (XI (XI (XO (XO (XO (XO (XO (XO (XO (XO (XO (XO (XO (XO (XO
    (XO (XO (XO (XO (XO (XO (XO (XI (XO (XO (XO (XO
    XH)))))))))))))))))))))))))))))))) :: ((Npos (XO (XI (XO (XI (XI (XO (XI
    (XI (XO (XO (XO (XO (XO (XO (XO (XO (XO (XO (XO (XO (XO (XO (XO (XO (XO
    (XO (XI (XO (XI (XO (XO XH)))))))))))))))))))))))))))))))) :: ((Npos (XO
    (XI (XI (XO (XI (XO (XO (XO (XI (XO (XO (XO (XO (XO (XO (XO (XO (XO (XO
    (XO (XO (XO (XO (XO (XO (XO (XI (XO (XI (XO (XO
    XH)))))))))))))))))))))))))))))))) :: ((Npos (XI (XO (XI (XI (XO (XI (XI
    (XO (XO (XO (XO (XO (XO (XO (XO (XO (XO (XO (XO (XO (XO (XO (XO (XO (XO
    (XO (XI (XO (XO (XO (XO XH)))))))))))))))))))))))))))))))) :: ((Npos (XI
    (XO (XI (XI (XO (XI (XO (XO (XO (XO (XO (XO (XO (XO (XO (XO (XO (XO (XO
    (XO (XO (XO (XO (XO (XO (XO (XI (XO (XO (XO (XO
    XH)))))))))))))))))))))))))))))))) :: ((Npos (XO (XI (XO (XI (XI (XI (XO
    (XI (XO (XO (XO (XO (XO (XO (XO (XO (XO (XO (XO (XO (XO (XO (XO (XO (XO
    (XO (XI (XO (XI (XO (XO XH)))))))))))))))))))))))))))))))) :: ((Npos (XI
    (XO (XI (XI (XO (XO (XO (XO (XO (XO (XO (XO (XO (XO (XO (XO (XO (XO (XO
    (XO (XO (XO (XO (XO (XO (XO (XI (XO (XO (XO (XO
    XH)))))))))))))))))))))))))))))))) :: ((Npos (XI (XO (XI (XI (XO (XO (XO
    (XI (XO (XO (XO (XO (XO (XO (XO (XO (XO (XO (XO (XO (XO (XO (XO (XO (XO
    (XO (XI (XO (XO (XO (XO XH)))))))))))))))))))))))))))))))) :: ((Npos (XI
    (XO (XI (XI (XO (XO (XI (XO (XO (XO (XO (XO (XO (XO (XO (XO (XO (XO (XO
    (XO (XO (XO (XO (XO (XO (XO (XI (XO (XO (XO (XO
    XH)))))))))))))))))))))))))))))))) :: ((Npos (XO (XI (XO (XI (XI (XI (XI
    (XI (XO (XO (XO (XO (XO (XO (XO (XO (XO (XO (XO (XO (XO (XO (XO (XO (XO
    (XO (XI (XO (XI (XO (XO XH)))))))))))))))))))))))))))))))) :: ((Npos (XI
    (XO (XO (XO (XO (XO (XO (XO (XI (XO (XO (XO (XO (XO (XO (XO (XO (XO (XO
    (XO (XO (XO (XO (XO (XO (XO (XI (XO (XI (XI
    XH))))))))))))))))))))))))))))))) :: ((Npos (XI (XI (XO (XO (XI (XO (XI
    (XO (XO (XO (XO (XO (XO (XO (XO (XO (XO (XO (XO (XO (XO (XO (XO (XO (XO
    (XO (XI (XO (XO (XO (XO XH)))))))))))))))))))))))))))))))) :: ((Npos (XI
    (XI (XO (XO (XI (XO (XO (XO (XO (XO (XO (XO (XO (XO (XO (XO (XO (XO (XO
    (XO (XO (XO (XO (XO (XO (XO (XI (XO (XO (XO (XO
    XH)))))))))))))))))))))))))))))))) :: ((Npos (XO (XO (XI (XI (XI (XO (XI
    (XO (XO (XO (XO (XO (XO (XO (XO (XO (XO (XO (XO (XO (XO (XO (XO (XO (XO
    (XI (XI (XO (XI XH)))))))))))))))))))))))))))))) :: ((Npos (XO (XI (XI
    (XO (XO (XI (XO (XO (XI (XO (XO (XO (XO (XO (XO (XO (XO (XO (XO (XO (XO
    (XO (XO (XO (XO (XO (XI (XO (XO (XI (XO
    XH)))))))))))))))))))))))))))))))) :: ((Npos (XI (XI (XO (XO (XI (XI (XI
    (XO (XO (XO (XO (XO (XO (XO (XO (XO (XO (XO (XO (XO (XO (XO (XO (XO (XO
    (XO (XI (XO (XO (XO (XO XH)))))))))))))))))))))))))))))))) :: ((Npos (XI
    (XI (XO (XO (XI (XI (XO (XO (XO (XO (XO (XO (XO (XO (XO (XO (XO (XO (XO
    (XO (XO (XO (XO (XO (XO (XO (XI (XO (XO (XO (XO
    XH)))))))))))))))))))))))))))))))) :: ((Npos (XO (XI (XI (XO (XO (XO (XI
    (XI (XO (XO (XO (XO (XO (XO (XO (XO (XO (XO (XO (XO (XO (XO (XO (XO (XO
    (XO (XI (XO (XI (XO (XO XH)))))))))))))))))))))))))))))))) :: ((Npos (XO
    (XI (XO (XI (XO (XO (XO (XO (XI (XO (XO (XO (XO (XO (XO (XO (XO (XO (XO
    (XO (XO (XO (XO (XO (XO (XO (XI (XO (XO (XO (XO
    XH)))))))))))))))))))))))))))))))) :: ((Npos (XI (XI (XO (XO (XO (XI (XI
    (XO (XO (XO (XO (XO (XO (XO (XO (XO (XO (XO (XO (XO (XO (XO (XO (XO (XO
    (XO (XI (XO (XO (XO (XO XH)))))))))))))))))))))))))))))))) :: ((Npos (XI
    (XI (XO (XO (XO (XI (XO (XO (XO (XO (XO (XO (XO (XO (XO (XO (XO (XO (XO
    (XO (XO (XO (XO (XO (XO (XO (XI (XO (XO (XO (XO
    XH)))))))))))))))))))))))))))))))) :: ((Npos (XO (XI (XI (XO (XO (XI (XO
    (XI (XO (XO (XO (XO (XO (XO (XO (XO (XO (XO (XO (XO (XO (XO (XO (XO (XO
    (XO (XI (XO (XI (XO (XO XH)))))))))))))))))))))))))))))))) :: ((Npos (XI
    (XI (XO (XO (XO (XO (XO (XO (XO (XO (XO (XO (XO (XO (XO (XO (XO (XO (XO
    (XO (XO (XO (XO (XO (XO (XO (XI (XO (XO (XO (XO
    XH)))))))))))))))))))))))))))))))) :: ((Npos (XI (XI (XO (XO (XO (XO (XO
    (XI (XO (XO (XO (XO (XO (XO (XO (XO (XO (XO (XO (XO (XO (XO (XO (XO (XO
    (XO (XI (XO (XO (XO (XO XH)))))))))))))))))))))))))))))))) :: ((Npos (XI
    (XI (XO (XO (XO (XO (XI (XO (XO (XO (XO (XO (XO (XO (XO (XO (XO (XO (XO
    (XO (XO (XO (XO (XO (XO (XO (XI (XO (XO (XO (XO
    XH)))))))))))))))))))))))))))))))) :: ((Npos (XO (XI (XI (XO (XO (XI (XI
    (XI (XO (XO (XO (XO (XO (XO (XO (XO (XO (XO (XO (XO (XO (XO (XO (XO (XO
    (XO (XI (XO (XI (XO (XO XH)))))))))))))))))))))))))))))))) :: ((Npos (XI
    (XO (XI (XO (XO (XO (XO (XO (XI (XO (XO (XO (XO (XO (XO (XO (XO (XO (XO
    (XO (XO (XO (XO (XO (XO (XO (XI (XO (XI (XI
    XH))))))))))))))))))))))))))))))) :: ((Npos (XI (XI (XO (XI (XI (XO (XI
    (XO (XO (XO (XO (XO (XO (XO (XO (XO (XO (XO (XO (XO (XO (XO (XO (XO (XO
    (XO (XI (XO (XO (XO (XO XH)))))))))))))))))))))))))))))))) :: ((Npos (XI
    (XI (XO (XI (XI (XO (XO (XO (XO (XO (XO (XO (XO (XO (XO (XO (XO (XO (XO
    (XO (XO (XO (XO (XO (XO (XO (XI (XO (XO (XO (XO
    XH)))))))))))))))))))))))))))))))) :: ((Npos (XO (XI (XI (XO (XI (XO (XO
    (XI (XO (XO (XO (XO (XO (XO (XO (XO (XO (XO (XO (XO (XO (XO (XO (XO (XO
    (XO (XI (XO (XI (XO (XO XH)))))))))))))))))))))))))))))))) :: ((Npos (XO
    (XI (XI (XI (XO (XO (XI (XO (XI (XO (XO (XO (XO (XO (XO (XO (XO (XO (XO
    (XO (XO (XO (XO (XO (XO (XO (XI (XO (XI (XI (XO
    XH)))))))))))))))))))))))))))))))) :: ((Npos (XI (XI (XO (XI (XI (XI (XI
    (XO (XO (XO (XO (XO (XO (XO (XO (XO (XO (XO (XO (XO (XO (XO (XO (XO (XO
    (XO (XI (XO (XO (XO (XO XH)))))))))))))))))))))))))))))))) :: ((Npos (XI
    (XI (XO (XI (XI (XI (XO (XO (XO (XO (XO (XO (XO (XO (XO (XO (XO (XO (XO
    (XO (XO (XO (XO (XO (XO (XO (XI (XO (XO (XO (XO
    XH)))))))))))))))))))))))))))))))) :: ((Npos (XO (XI (XI (XO (XI (XO (XI
    (XI (XO (XO (XO (XO (XO (XO (XO (XO (XO (XO (XO (XO (XO (XO (XO (XO (XO
    (XO (XI (XO (XI (XO (XO XH)))))))))))))))))))))))))))))))) :: ((Npos (XO
    (XI (XO (XO (XI (XO (XO (XO (XI (XO (XO (XO (XO (XO (XO (XO (XO (XO (XO
    (XO (XO (XO (XO (XO (XO (XO (XI (XO (XI (XO (XO
    XH)))))))))))))))))))))))))))))))) :: ((Npos (XI (XI (XO (XI (XO (XI (XI
    (XO (XO (XO (XO (XO (XO (XO (XO (XO (XO (XO (XO (XO (XO (XO (XO (XO (XO
    (XO (XI (XO (XO (XO (XO XH)))))))))))))))))))))))))))))))) :: ((Npos (XI
    (XI (XO (XI (XO (XI (XO (XO (XO (XO (XO (XO (XO (XO (XO (XO (XO (XO (XO
    (XO (XO (XO (XO (XO (XO (XO (XI (XO (XO (XO (XO
    XH)))))))))))))))))))))))))))))))) :: ((Npos (XO (XI (XI (XO (XI (XI (XO
    (XI (XO (XO (XO (XO (XO (XO (XO (XO (XO (XO (XO (XO (XO (XO (XO (XO (XO
    (XO (XI (XO (XI (XO (XO XH)))))))))))))))))))))))))))))))) :: ((Npos (XI
    (XI (XO (XI (XO (XO (XO (XO (XO (XO (XO (XO (XO (XO (XO (XO (XO (XO (XO
    (XO (XO (XO (XO (XO (XO (XO (XI (XO (XO (XO (XO
    XH)))))))))))))))))))))))))))))))) :: ((Npos (XI (XI (XO (XI (XO (XO (XO
    (XI (XO (XO (XO (XO (XO (XO (XO (XO (XO (XO (XO (XO (XO (XO (XO (XO (XO
    (XO (XI (XO (XO (XO (XO XH)))))))))))))))))))))))))))))))) :: ((Npos (XI
    (XI (XO (XI (XO (XO (XI (XO (XO (XO (XO (XO (XO (XO (XO (XO (XO (XO (XO
    (XO (XO (XO (XO (XO (XO (XO (XI (XO (XO (XO (XO
    XH)))))))))))))))))))))))))))))))) :: ((Npos (XO (XI (XI (XO (XI (XI (XI
    (XI (XO (XO (XO (XO (XO (XO (XO (XO (XO (XO (XO (XO (XO (XO (XO (XO (XO
    (XO (XI (XO (XI (XO (XO XH)))))))))))))))))))))))))))))))) :: ((Npos (XI
    (XI (XO (XO (XO (XO (XO (XO (XI (XO (XO (XO (XO (XO (XO (XO (XO (XO (XO
    (XO (XO (XO (XO (XO (XO (XO (XI (XO (XI (XI
    XH))))))))))))))))))))))))))))))) :: ((Npos (XI (XI (XI (XO (XI (XO (XI
    (XO (XO (XO (XO (XO (XO (XO (XO (XO (XO (XO (XO (XO (XO (XO (XO (XO (XO
    (XO (XI (XO (XO (XO (XO XH)))))))))))))))))))))))))))))))) :: ((Npos (XI
    (XI (XI (XO (XI (XO (XO (XO (XO (XO (XO (XO (XO (XO (XO (XO (XO (XO (XO
    (XO (XO (XO (XO (XO (XO (XO (XI (XO (XO (XO (XO
    XH)))))))))))))))))))))))))))))))) :: (N0 :: ((Npos (XO (XI (XI (XO (XI
    (XI (XO (XO (XI (XO (XO (XO (XO (XO (XO (XO (XO (XO (XO (XO (XO (XO (XO
    (XO (XO (XO (XI (XO (XO (XI (XO
    XH)))))))))))))))))))))))))))))))) :: ((Npos (XI (XI (XI (XO (XI (XI (XI
    (XO (XO (XO (XO (XO (XO (XO (XO (XO (XO (XO (XO (XO (XO (XO (XO (XO (XO
    (XO (XI (XO (XO (XO (XO XH)))))))))))))))))))))))))))))))) :: ((Npos (XI
    (XI (XI (XO (XI (XI (XO (XO (XO (XO (XO (XO (XO (XO (XO (XO (XO (XO (XO
    (XO (XO (XO (XO (XO (XO (XO (XI (XO (XO (XO (XO
    XH)))))))))))))))))))))))))))))))) :: ((Npos (XO (XI (XI (XI (XO (XO (XI
    (XI (XO (XO (XO (XO (XO (XO (XO (XO (XO (XO (XO (XO (XO (XO (XO (XO (XO
    (XO (XI (XO (XI (XO (XO XH)))))))))))))))))))))))))))))))) :: ((Npos (XO
    (XI (XI (XI (XO (XO (XO (XO (XI (XO (XO (XO (XO (XO (XO (XO (XO (XO (XO
    (XO (XO (XO (XO (XO (XO (XO (XI (XO (XO (XO (XO
    XH)))))))))))))))))))))))))))))))) :: ((Npos (XI (XI (XI (XO (XO (XI (XI
    (XO (XO (XO (XO (XO (XO (XO (XO (XO (XO (XO (XO (XO (XO (XO (XO (XO (XO
    (XO (XI (XO (XO (XO (XO XH)))))))))))))))))))))))))))))))) :: ((Npos (XI
    (XI (XI (XO (XO (XI (XO (XO (XO (XO (XO (XO (XO (XO (XO (XO (XO (XO (XO
    (XO (XO (XO (XO (XO (XO (XO (XI (XO (XO (XO (XO
    XH)))))))))))))))))))))))))))))))) :: ((Npos (XO (XI (XI (XI (XO (XI (XO
    (XI (XO (XO (XO (XO (XO (XO (XO (XO (XO (XO (XO (XO (XO (XO (XO (XO (XO
    (XO (XI (XO (XI (XO (XO XH)))))))))))))))))))))))))))))))) :: ((Npos (XI
    (XI (XI (XO (XO (XO (XO (XO (XO (XO (XO (XO (XO (XO (XO (XO (XO (XO (XO
    (XO (XO (XO (XO (XO (XO (XO (XI (XO (XO (XO (XO
    XH)))))))))))))))))))))))))))))))) :: ((Npos (XI (XI (XI (XO (XO (XO (XO
    (XI (XO (XO (XO (XO (XO (XO (XO (XO (XO (XO (XO (XO (XO (XO (XO (XO (XO
    (XO (XI (XO (XO (XO (XO XH)))))))))))))))))))))))))))))))) :: ((Npos (XI
    (XI (XI (XO (XO (XO (XI (XO (XO (XO (XO (XO (XO (XO (XO (XO (XO (XO (XO
    (XO (XO (XO (XO (XO (XO (XO (XI (XO (XO (XO (XO
    XH)))))))))))))))))))))))))))))))) :: ((Npos (XO (XI (XI (XI (XO (XI (XI
    (XI (XO (XO (XO (XO (XO (XO (XO (XO (XO (XO (XO (XO (XO (XO (XO (XO (XO
    (XO (XI (XO (XI (XO (XO XH)))))))))))))))))))))))))))))))) :: ((Npos (XI
    (XI (XI (XO (XO (XO (XO (XO (XI (XO (XO (XO (XO (XO (XO (XO (XO (XO (XO
    (XO (XO (XO (XO (XO (XO (XO (XI (XO (XI (XI
    XH))))))))))))))))))))))))))))))) :: ((Npos (XI (XI (XI (XI (XI (XO (XI
    (XO (XO (XO (XO (XO (XO (XO (XO (XO (XO (XO (XO (XO (XO (XO (XO (XO (XO
    (XO (XI (XO (XO (XO (XO XH)))))))))))))))))))))))))))))))) :: ((Npos (XI
    (XI (XI (XI (XI (XO (XO (XO (XO (XO (XO (XO (XO (XO (XO (XO (XO (XO (XO
    (XO (XO (XO (XO (XO (XO (XO (XI (XO (XO (XO (XO
    XH)))))))))))))))))))))))))))))))) :: ((Npos (XO (XI (XI (XI (XI (XO (XO
    (XI (XO (XO (XO (XO (XO (XO (XO (XO (XO (XO (XO (XO (XO (XO (XO (XO (XO
    (XO (XI (XO (XI (XO (XO XH)))))))))))))))))))))))))))))))) :: ((Npos (XO
    (XI (XI (XI (XO (XI (XI (XO (XI (XO (XO (XO (XO (XO (XO (XO (XO (XO (XO
    (XO (XO (XO (XO (XO (XO (XO (XI (XO (XI (XI (XO
    XH)))))))))))))))))))))))))))))))) :: ((Npos (XI (XI (XI (XI (XI (XI (XI
    (XO (XO (XO (XO (XO (XO (XO (XO (XO (XO (XO (XO (XO (XO (XO (XO (XO (XO
    (XO (XI (XO (XO (XO (XO XH)))))))))))))))))))))))))))))))) :: ((Npos (XI
    (XI (XI (XI (XI (XI (XO (XO (XO (XO (XO (XO (XO (XO (XO (XO (XO (XO (XO
    (XO (XO (XO (XO (XO (XO (XO (XI (XO (XO (XO (XO
    XH)))))))))))))))))))))))))))))))) :: ((Npos (XO (XI (XI (XI (XI (XO (XI
    (XI (XO (XO (XO (XO (XO (XO (XO (XO (XO (XO (XO (XO (XO (XO (XO (XO (XO
    (XO (XI (XO (XI (XO (XO XH)))))))))))))))))))))))))))))))) :: ((Npos (XO
    (XI (XO (XI (XI (XO (XO (XO (XI (XO (XO (XO (XO (XO (XO (XO (XO (XO (XO
    (XO (XO (XO (XO (XO (XO (XO (XI (XO (XI (XO (XO
    XH)))))))))))))))))))))))))))))))) :: ((Npos (XI (XI (XI (XI (XO (XI (XI
    (XO (XO (XO (XO (XO (XO (XO (XO (XO (XO (XO (XO (XO (XO (XO (XO (XO (XO
    (XO (XI (XO (XO (XO (XO XH)))))))))))))))))))))))))))))))) :: ((Npos (XI
    (XI (XI (XI (XO (XI (XO (XO (XO (XO (XO (XO (XO (XO (XO (XO (XO (XO (XO
    (XO (XO (XO (XO (XO (XO (XO (XI (XO (XO (XO (XO
    XH)))))))))))))))))))))))))))))))) :: ((Npos (XO (XI (XI (XI (XI (XI (XO
    (XI (XO (XO (XO (XO (XO (XO (XO (XO (XO (XO (XO (XO (XO (XO (XO (XO (XO
    (XO (XI (XO (XI (XO (XO XH)))))))))))))))))))))))))))))))) :: ((Npos (XI
    (XI (XI (XI (XO (XO (XO (XO (XO (XO (XO (XO (XO (XO (XO (XO (XO (XO (XO
    (XO (XO (XO (XO (XO (XO (XO (XI (XO (XO (XO (XO
    XH)))))))))))))))))))))))))))))))) :: ((Npos (XI (XI (XI (XI (XO (XO (XO
    (XI (XO (XO (XO (XO (XO (XO (XO (XO (XO (XO (XO (XO (XO (XO (XO (XO (XO
    (XO (XI (XO (XO (XO (XO XH)))))))))))))))))))))))))))))))) :: ((Npos (XI
    (XI (XI (XI (XO (XO (XI (XO (XO (XO (XO (XO (XO (XO (XO (XO (XO (XO (XO
    (XO (XO (XO (XO (XO (XO (XO (XI (XO (XO (XO (XO
    XH)))))))))))))))))))))))))))))))) :: ((Npos (XO (XI (XI (XI (XI (XI (XI
    (XI (XO (XO (XO (XO (XO (XO (XO (XO (XO (XO (XO (XO (XO (XO (XO (XO (XO
    (XO (XI (XO (XI (XO (XO XH)))))))))))))))))))))))))))))))) :: ((Npos (XO
    (XO (XO (XO (XO (XO (XO (XO (XI (XO (XO (XO (XO (XO (XO (XO (XO (XO (XO
    (XO (XO (XO (XO (XO (XO (XO (XI (XO (XI (XI
    XH))))))))))))))))))))))))))))))) :: ((Npos (XO (XO (XO (XO (XI (XO (XI
    (XO (XO (XO (XO (XO (XO (XO (XO (XO (XO (XO (XO (XO (XO (XO (XO (XO (XO
    (XO (XI (XO (XO (XO (XO XH)))))))))))))))))))))))))))))))) :: ((Npos (XO
    (XO (XO (XO (XI (XO (XO (XO (XO (XO (XO (XO (XO (XO (XO (XO (XO (XO (XO
    (XO (XO (XO (XO (XO (XO (XO (XI (XO (XO (XO (XO
    XH)))))))))))))))))))))))))))))))) :: ((Npos (XO (XO (XO (XO (XO (XO (XO
    (XI (XI (XO (XO (XO (XO (XO (XO (XO (XO (XO (XO (XO (XO (XO (XO (XO (XO
    (XO (XI (XO (XO (XO (XI XH)))))))))))))))))))))))))))))))) :: ((Npos (XI
    (XI (XI (XI (XI (XO (XO (XO (XI (XO (XO (XO (XO (XO (XO (XO (XO (XO (XO
    (XO (XO (XO (XO (XO (XO (XO (XI (XO (XI (XO (XO
    XH)))))))))))))))))))))))))))))))) :: ((Npos (XO (XO (XO (XO (XI (XI (XI
    (XO (XO (XO (XO (XO (XO (XO (XO (XO (XO (XO (XO (XO (XO (XO (XO (XO (XO
    (XO (XI (XO (XO (XO (XO XH)))))))))))))))))))))))))))))))) :: ((Npos (XO
    (XO (XO (XO (XI (XI (XO (XO (XO (XO (XO (XO (XO (XO (XO (XO (XO (XO (XO
    (XO (XO (XO (XO (XO (XO (XO (XI (XO (XO (XO (XO
    XH)))))))))))))))))))))))))))))))) :: ((Npos (XI (XO (XO (XO (XO (XO (XI
    (XI (XO (XO (XO (XO (XO (XO (XO (XO (XO (XO (XO (XO (XO (XO (XO (XO (XO
    (XO (XI (XO (XI (XO (XO XH)))))))))))))))))))))))))))))))) :: ((Npos (XO
    (XO (XO (XI (XO (XO (XO (XO (XI (XO (XO (XO (XO (XO (XO (XO (XO (XO (XO
    (XO (XO (XO (XO (XO (XO (XO (XI (XO (XI (XI
    XH))))))))))))))))))))))))))))))) :: ((Npos (XO (XO (XO (XO (XO (XI (XI
    (XO (XO (XO (XO (XO (XO (XO (XO (XO (XO (XO (XO (XO (XO (XO (XO (XO (XO
    (XO (XI (XO (XO (XO (XO XH)))))))))))))))))))))))))))))))) :: ((Npos (XO
    (XO (XO (XO (XO (XI (XO (XO (XO (XO (XO (XO (XO (XO (XO (XO (XO (XO (XO
    (XO (XO (XO (XO (XO (XO (XO (XI (XO (XO (XO (XO
    XH)))))))))))))))))))))))))))))))) :: ((Npos (XI (XO (XO (XO (XO (XI (XO
    (XI (XO (XO (XO (XO (XO (XO (XO (XO (XO (XO (XO (XO (XO (XO (XO (XO (XO
    (XO (XI (XO (XI (XO (XO XH)))))))))))))))))))))))))))))))) :: ((Npos (XO
    (XO (XO (XO (XO (XO (XO (XO (XO (XO (XO (XO (XO (XO (XO (XO (XO (XO (XO
    (XO (XO (XO (XO (XO (XO (XO (XI (XO (XO (XO (XO
    XH)))))))))))))))))))))))))))))))) :: ((Npos (XO (XO (XO (XO (XO (XO (XO
    (XI (XO (XO (XO (XO (XO (XO (XO (XO (XO (XO (XO (XO (XO (XO (XO (XO (XO
    (XO (XI (XO (XO (XO (XO XH)))))))))))))))))))))))))))))))) :: ((Npos (XO
    (XO (XO (XO (XO (XO (XI (XO (XO (XO (XO (XO (XO (XO (XO (XO (XO (XO (XO
    (XO (XO (XO (XO (XO (XO (XO (XI (XO (XO (XO (XO
    XH)))))))))))))))))))))))))))))))) :: ((Npos (XI (XO (XO (XO (XO (XI (XI
    (XI (XO (XO (XO (XO (XO (XO (XO (XO (XO (XO (XO (XO (XO (XO (XO (XO (XO
    (XO (XI (XO (XI (XO (XO XH)))))))))))))))))))))))))))))))) :: ((Npos (XO
    (XO (XI (XO (XO (XO (XO (XO (XI (XO (XO (XO (XO (XO (XO (XO (XO (XO (XO
    (XO (XO (XO (XO (XO (XO (XO (XI (XO (XI (XI
    XH))))))))))))))))))))))))))))))) :: ((Npos (XO (XO (XO (XI (XI (XO (XI
    (XO (XO (XO (XO (XO (XO (XO (XO (XO (XO (XO (XO (XO (XO (XO (XO (XO (XO
    (XO (XI (XO (XO (XO (XO XH)))))))))))))))))))))))))))))))) :: ((Npos (XO
    (XO (XO (XI (XI (XO (XO (XO (XO (XO (XO (XO (XO (XO (XO (XO (XO (XO (XO
    (XO (XO (XO (XO (XO (XO (XO (XI (XO (XO (XO (XO
    XH)))))))))))))))))))))))))))))))) :: ((Npos (XI (XO (XO (XO (XI (XO (XO
    (XI (XO (XO (XO (XO (XO (XO (XO (XO (XO (XO (XO (XO (XO (XO (XO (XO (XO
    (XO (XI (XO (XI (XO (XO XH)))))))))))))))))))))))))))))))) :: ((Npos (XI
    (XI (XI (XI (XI (XI (XO (XO (XI (XO (XO (XO (XO (XO (XO (XO (XO (XO (XO
    (XO (XO (XO (XO (XO (XO (XO (XI (XO (XO (XI (XO
    XH)))))))))))))))))))))))))))))))) :: ((Npos (XO (XO (XO (XI (XI (XI (XI
    (XO (XO (XO (XO (XO (XO (XO (XO (XO (XO (XO (XO (XO (XO (XO (XO (XO (XO
    (XO (XI (XO (XO (XO (XO XH)))))))))))))))))))))))))))))))) :: ((Npos (XO
    (XO (XO (XI (XI (XI (XO (XO (XO (XO (XO (XO (XO (XO (XO (XO (XO (XO (XO
    (XO (XO (XO (XO (XO (XO (XO (XI (XO (XO (XO (XO
    XH)))))))))))))))))))))))))))))))) :: ((Npos (XI (XO (XO (XO (XI (XO (XI
    (XI (XO (XO (XO (XO (XO (XO (XO (XO (XO (XO (XO (XO (XO (XO (XO (XO (XO
    (XO (XI (XO (XI (XO (XO XH)))))))))))))))))))))))))))))))) :: ((Npos (XI
    (XI (XI (XI (XO (XO (XO (XO (XI (XO (XO (XO (XO (XO (XO (XO (XO (XO (XO
    (XO (XO (XO (XO (XO (XO (XO (XI (XO (XO (XO (XO
    XH)))))))))))))))))))))))))))))))) :: ((Npos (XO (XO (XO (XI (XO (XI (XI
    (XO (XO (XO (XO (XO (XO (XO (XO (XO (XO (XO (XO (XO (XO (XO (XO (XO (XO
    (XO (XI (XO (XO (XO (XO XH)))))))))))))))))))))))))))))))) :: ((Npos (XO
    (XO (XO (XI (XO (XI (XO (XO (XO (XO (XO (XO (XO (XO (XO (XO (XO (XO (XO
    (XO (XO (XO (XO (XO (XO (XO (XI (XO (XO (XO (XO
    XH)))))))))))))))))))))))))))))))) :: ((Npos (XI (XO (XO (XO (XI (XI (XO
    (XI (XO (XO (XO (XO (XO (XO (XO (XO (XO (XO (XO (XO (XO (XO (XO (XO (XO
    (XO (XI (XO (XI (XO (XO XH)))))))))))))))))))))))))))))))) :: ((Npos (XO
    (XO (XO (XI (XO (XO (XO (XO (XO (XO (XO (XO (XO (XO (XO (XO (XO (XO (XO
    (XO (XO (XO (XO (XO (XO (XO (XI (XO (XO (XO (XO
    XH)))))))))))))))))))))))))))))))) :: ((Npos (XO (XO (XO (XI (XO (XO (XO
    (XI (XO (XO (XO (XO (XO (XO (XO (XO (XO (XO (XO (XO (XO (XO (XO (XO (XO
    (XO (XI (XO (XO (XO (XO XH)))))))))))))))))))))))))))))))) :: ((Npos (XO
    (XO (XO (XI (XO (XO (XI (XO (XO (XO (XO (XO (XO (XO (XO (XO (XO (XO (XO
    (XO (XO (XO (XO (XO (XO (XO (XI (XO (XO (XO (XO
    XH)))))))))))))))))))))))))))))))) :: ((Npos (XI (XO (XO (XO (XI (XI (XI
    (XI (XO (XO (XO (XO (XO (XO (XO (XO (XO (XO (XO (XO (XO (XO (XO (XO (XO
    (XO (XI (XO (XI (XO (XO XH)))))))))))))))))))))))))))))))) :: ((Npos (XO
    (XI (XO (XO (XO (XO (XO (XO (XI (XO (XO (XO (XO (XO (XO (XO (XO (XO (XO
    (XO (XO (XO (XO (XO (XO (XO (XI (XO (XI (XI
    XH))))))))))))))))))))))))))))))) :: ((Npos (XO (XO (XI (XO (XI (XO (XI
    (XO (XO (XO (XO (XO (XO (XO (XO (XO (XO (XO (XO (XO (XO (XO (XO (XO (XO
    (XO (XI (XO (XO (XO (XO XH)))))))))))))))))))))))))))))))) :: ((Npos (XO
    (XO (XI (XO (XI (XO (XO (XO (XO (XO (XO (XO (XO (XO (XO (XO (XO (XO (XO
    (XO (XO (XO (XO (XO (XO (XO (XI (XO (XO (XO (XO
    XH)))))))))))))))))))))))))))))))) :: ((Npos (XO (XI (XI (XI (XI (XI (XI
    (XO (XO (XO (XO (XO (XO (XO (XO (XO (XO (XO (XO (XO (XO (XO (XO (XO (XO
    (XI (XI (XO (XI XH)))))))))))))))))))))))))))))) :: ((Npos (XI (XI (XI
    (XI (XO (XI (XO (XO (XI (XO (XO (XO (XO (XO (XO (XO (XO (XO (XO (XO (XO
    (XO (XO (XO (XO (XO (XI (XO (XO (XI (XO
    XH)))))))))))))))))))))))))))))))) :: ((Npos (XO (XO (XI (XO (XI (XI (XI
    (XO (XO (XO (XO (XO (XO (XO (XO (XO (XO (XO (XO (XO (XO (XO (XO (XO (XO
    (XO (XI (XO (XO (XO (XO XH)))))))))))))))))))))))))))))))) :: ((Npos (XO
    (XO (XI (XO (XI (XI (XO (XO (XO (XO (XO (XO (XO (XO (XO (XO (XO (XO (XO
    (XO (XO (XO (XO (XO (XO (XO (XI (XO (XO (XO (XO
    XH)))))))))))))))))))))))))))))))) :: ((Npos (XI (XO (XO (XI (XO (XO (XI
    (XI (XO (XO (XO (XO (XO (XO (XO (XO (XO (XO (XO (XO (XO (XO (XO (XO (XO
    (XO (XI (XO (XI (XO (XO XH)))))))))))))))))))))))))))))))) :: ((Npos (XI
    (XI (XO (XI (XO (XO (XO (XO (XI (XO (XO (XO (XO (XO (XO (XO (XO (XO (XO
    (XO (XO (XO (XO (XO (XO (XO (XI (XO (XO (XO (XO
    XH)))))))))))))))))))))))))))))))) :: ((Npos (XO (XO (XI (XO (XO (XI (XI
    (XO (XO (XO (XO (XO (XO (XO (XO (XO (XO (XO (XO (XO (XO (XO (XO (XO (XO
    (XO (XI (XO (XO (XO (XO XH)))))))))))))))))))))))))))))))) :: ((Npos (XO
    (XO (XI (XO (XO (XI (XO (XO (XO (XO (XO (XO (XO (XO (XO (XO (XO (XO (XO
    (XO (XO (XO (XO (XO (XO (XO (XI (XO (XO (XO (XO
    XH)))))))))))))))))))))))))))))))) :: ((Npos (XI (XO (XO (XI (XO (XI (XO
    (XI (XO (XO (XO (XO (XO (XO (XO (XO (XO (XO (XO (XO (XO (XO (XO (XO (XO
    (XO (XI (XO (XI (XO (XO XH)))))))))))))))))))))))))))))))) :: ((Npos (XO
    (XO (XI (XO (XO (XO (XO (XO (XO (XO (XO (XO (XO (XO (XO (XO (XO (XO (XO
    (XO (XO (XO (XO (XO (XO (XO (XI (XO (XO (XO (XO
    XH)))))))))))))))))))))))))))))))) :: ((Npos (XO (XO (XI (XO (XO (XO (XO
    (XI (XO (XO (XO (XO (XO (XO (XO (XO (XO (XO (XO (XO (XO (XO (XO (XO (XO
    (XO (XI (XO (XO (XO (XO XH)))))))))))))))))))))))))))))))) :: ((Npos (XO
    (XO (XI (XO (XO (XO (XI (XO (XO (XO (XO (XO (XO (XO (XO (XO (XO (XO (XO
    (XO (XO (XO (XO (XO (XO (XO (XI (XO (XO (XO (XO
    XH)))))))))))))))))))))))))))))))) :: ((Npos (XI (XO (XO (XI (XO (XI (XI
    (XI (XO (XO (XO (XO (XO (XO (XO (XO (XO (XO (XO (XO (XO (XO (XO (XO (XO
    (XO (XI (XO (XI (XO (XO XH)))))))))))))))))))))))))))))))) :: ((Npos (XO
    (XI (XI (XO (XO (XO (XO (XO (XI (XO (XO (XO (XO (XO (XO (XO (XO (XO (XO
    (XO (XO (XO (XO (XO (XO (XO (XI (XO (XI (XI
    XH))))))))))))))))))))))))))))))) :: ((Npos (XO (XO (XI (XI (XI (XO (XI
    (XO (XO (XO (XO (XO (XO (XO (XO (XO (XO (XO (XO (XO (XO (XO (XO (XO (XO
    (XO (XI (XO (XO (XO (XO XH)))))))))))))))))))))))))))))))) :: ((Npos (XO
    (XO (XI (XI (XI (XO (XO (XO (XO (XO (XO (XO (XO (XO (XO (XO (XO (XO (XO
    (XO (XO (XO (XO (XO (XO (XO (XI (XO (XO (XO (XO
    XH)))))))))))))))))))))))))))))))) :: ((Npos (XI (XO (XO (XI (XI (XO (XO
    (XI (XO (XO (XO (XO (XO (XO (XO (XO (XO (XO (XO (XO (XO (XO (XO (XO (XO
    (XO (XI (XO (XI (XO (XO XH)))))))))))))))))))))))))))))))) :: ((Npos (XI
    (XI (XI (XI (XI (XO (XI (XO (XI (XO (XO (XO (XO (XO (XO (XO (XO (XO (XO
    (XO (XO (XO (XO (XO (XO (XO (XI (XO (XI (XI (XO
    XH)))))))))))))))))))))))))))))))) :: ((Npos (XO (XO (XI (XI (XI (XI (XI
    (XO (XO (XO (XO (XO (XO (XO (XO (XO (XO (XO (XO (XO (XO (XO (XO (XO (XO
    (XO (XI (XO (XO (XO (XO XH)))))))))))))))))))))))))))))))) :: ((Npos (XO
    (XO (XI (XI (XI (XI (XO (XO (XO (XO (XO (XO (XO (XO (XO (XO (XO (XO (XO
    (XO (XO (XO (XO (XO (XO (XO (XI (XO (XO (XO (XO
    XH)))))))))))))))))))))))))))))))) :: ((Npos (XI (XO (XO (XI (XI (XO (XI
    (XI (XO (XO (XO (XO (XO (XO (XO (XO (XO (XO (XO (XO (XO (XO (XO (XO (XO
    (XO (XI (XO (XI (XO (XO XH)))))))))))))))))))))))))))))))) :: ((Npos (XI
    (XI (XI (XO (XI (XO (XO (XO (XI (XO (XO (XO (XO (XO (XO (XO (XO (XO (XO
    (XO (XO (XO (XO (XO (XO (XO (XI (XO (XI (XO (XO
    XH)))))))))))))))))))))))))))))))) :: ((Npos (XO (XO (XI (XI (XO (XI (XI
    (XO (XO (XO (XO (XO (XO (XO (XO (XO (XO (XO (XO (XO (XO (XO (XO (XO (XO
    (XO (XI (XO (XO (XO (XO XH)))))))))))))))))))))))))))))))) :: ((Npos (XO
    (XO (XI (XI (XO (XI (XO (XO (XO (XO (XO (XO (XO (XO (XO (XO (XO (XO (XO
    (XO (XO (XO (XO (XO (XO (XO (XI (XO (XO (XO (XO
    XH)))))))))))))))))))))))))))))))) :: ((Npos (XI (XO (XO (XI (XI (XI (XO
    (XI (XO (XO (XO (XO (XO (XO (XO (XO (XO (XO (XO (XO (XO (XO (XO (XO (XO
    (XO (XI (XO (XI (XO (XO XH)))))))))))))))))))))))))))))))) :: ((Npos (XO
    (XO (XI (XI (XO (XO (XO (XO (XO (XO (XO (XO (XO (XO (XO (XO (XO (XO (XO
    (XO (XO (XO (XO (XO (XO (XO (XI (XO (XO (XO (XO
    XH)))))))))))))))))))))))))))))))) :: ((Npos (XO (XO (XI (XI (XO (XO (XO
    (XI (XO (XO (XO (XO (XO (XO (XO (XO (XO (XO (XO (XO (XO (XO (XO (XO (XO
    (XO (XI (XO (XO (XO (XO XH)))))))))))))))))))))))))))))))) :: ((Npos (XO
    (XO (XI (XI (XO (XO (XI (XO (XO (XO (XO (XO (XO (XO (XO (XO (XO (XO (XO
    (XO (XO (XO (XO (XO (XO (XO (XI (XO (XO (XO (XO
    XH)))))))))))))))))))))))))))))))) :: ((Npos (XI (XO (XO (XI (XI (XI (XI
    (XI (XO (XO (XO (XO (XO (XO (XO (XO (XO (XO (XO (XO (XO (XO (XO (XO (XO
    (XO (XI (XO (XI (XO (XO XH)))))))))))))))))))))))))))))))) :: ((Npos (XI
    (XO (XO (XO (XO (XO (XO (XO (XI (XO (XO (XO (XO (XO (XO (XO (XO (XO (XO
    (XO (XO (XO (XO (XO (XO (XO (XI (XO (XI (XI
    XH))))))))))))))))))))))))))))))) :: ((Npos (XO (XI (XO (XO (XI (XO (XI
    (XO (XO (XO (XO (XO (XO (XO (XO (XO (XO (XO (XO (XO (XO (XO (XO (XO (XO
    (XO (XI (XO (XO (XO (XO XH)))))))))))))))))))))))))))))))) :: ((Npos (XO
    (XI (XO (XO (XI (XO (XO (XO (XO (XO (XO (XO (XO (XO (XO (XO (XO (XO (XO
    (XO (XO (XO (XO (XO (XO (XO (XI (XO (XO (XO (XO
    XH)))))))))))))))))))))))))))))))) :: ((Npos (XO (XI (XI (XI (XI (XI (XO
    (XO (XO (XO (XO (XO (XO (XO (XO (XO (XO (XO (XO (XO (XO (XO (XO (XO (XO
    (XI (XI (XO (XI XH)))))))))))))))))))))))))))))) :: ((Npos (XI (XI (XI
    (XO (XO (XI (XO (XO (XI (XO (XO (XO (XO (XO (XO (XO (XO (XO (XO (XO (XO
    (XO (XO (XO (XO (XO (XI (XO (XO (XI (XO
    XH)))))))))))))))))))))))))))))))) :: ((Npos (XO (XI (XO (XO (XI (XI (XI
    (XO (XO (XO (XO (XO (XO (XO (XO (XO (XO (XO (XO (XO (XO (XO (XO (XO (XO
    (XO (XI (XO (XO (XO (XO XH)))))))))))))))))))))))))))))))) :: ((Npos (XO
    (XI (XO (XO (XI (XI (XO (XO (XO (XO (XO (XO (XO (XO (XO (XO (XO (XO (XO
    (XO (XO (XO (XO (XO (XO (XO (XI (XO (XO (XO (XO
    XH)))))))))))))))))))))))))))))))) :: ((Npos (XI (XO (XI (XO (XO (XO (XI
    (XI (XO (XO (XO (XO (XO (XO (XO (XO (XO (XO (XO (XO (XO (XO (XO (XO (XO
    (XO (XI (XO (XI (XO (XO XH)))))))))))))))))))))))))))))))) :: ((Npos (XI
    (XO (XO (XI (XO (XO (XO (XO (XI (XO (XO (XO (XO (XO (XO (XO (XO (XO (XO
    (XO (XO (XO (XO (XO (XO (XO (XI (XO (XO (XO (XO
    XH)))))))))))))))))))))))))))))))) :: ((Npos (XO (XI (XO (XO (XO (XI (XI
    (XO (XO (XO (XO (XO (XO (XO (XO (XO (XO (XO (XO (XO (XO (XO (XO (XO (XO
    (XO (XI (XO (XO (XO (XO XH)))))))))))))))))))))))))))))))) :: ((Npos (XO
    (XI (XO (XO (XO (XI (XO (XO (XO (XO (XO (XO (XO (XO (XO (XO (XO (XO (XO
    (XO (XO (XO (XO (XO (XO (XO (XI (XO (XO (XO (XO
    XH)))))))))))))))))))))))))))))))) :: ((Npos (XI (XO (XI (XO (XO (XI (XO
    (XI (XO (XO (XO (XO (XO (XO (XO (XO (XO (XO (XO (XO (XO (XO (XO (XO (XO
    (XO (XI (XO (XI (XO (XO XH)))))))))))))))))))))))))))))))) :: ((Npos (XO
    (XI (XO (XO (XO (XO (XO (XO (XO (XO (XO (XO (XO (XO (XO (XO (XO (XO (XO
    (XO (XO (XO (XO (XO (XO (XO (XI (XO (XO (XO (XO
    XH)))))))))))))))))))))))))))))))) :: ((Npos (XO (XI (XO (XO (XO (XO (XO
    (XI (XO (XO (XO (XO (XO (XO (XO (XO (XO (XO (XO (XO (XO (XO (XO (XO (XO
    (XO (XI (XO (XO (XO (XO XH)))))))))))))))))))))))))))))))) :: ((Npos (XO
    (XI (XO (XO (XO (XO (XI (XO (XO (XO (XO (XO (XO (XO (XO (XO (XO (XO (XO
    (XO (XO (XO (XO (XO (XO (XO (XI (XO (XO (XO (XO
    XH)))))))))))))))))))))))))))))))) :: ((Npos (XI (XO (XI (XO (XO (XI (XI
    (XI (XO (XO (XO (XO (XO (XO (XO (XO (XO (XO (XO (XO (XO (XO (XO (XO (XO
    (XO (XI (XO (XI (XO (XO XH)))))))))))))))))))))))))))))))) :: ((Npos (XI
    (XO (XI (XO (XO (XO (XO (XO (XI (XO (XO (XO (XO (XO (XO (XO (XO (XO (XO
    (XO (XO (XO (XO (XO (XO (XO (XI (XO (XI (XI
    XH))))))))))))))))))))))))))))))) :: ((Npos (XO (XI (XO (XI (XI (XO (XI
    (XO (XO (XO (XO (XO (XO (XO (XO (XO (XO (XO (XO (XO (XO (XO (XO (XO (XO
    (XO (XI (XO (XO (XO (XO XH)))))))))))))))))))))))))))))))) :: ((Npos (XO
    (XI (XO (XI (XI (XO (XO (XO (XO (XO (XO (XO (XO (XO (XO (XO (XO (XO (XO
    (XO (XO (XO (XO (XO (XO (XO (XI (XO (XO (XO (XO
    XH)))))))))))))))))))))))))))))))) :: ((Npos (XI (XO (XI (XO (XI (XO (XO
    (XI (XO (XO (XO (XO (XO (XO (XO (XO (XO (XO (XO (XO (XO (XO (XO (XO (XO
    (XO (XI (XO (XI (XO (XO XH)))))))))))))))))))))))))))))))) :: ((Npos (XI
    (XI (XI (XI (XO (XO (XI (XO (XI (XO (XO (XO (XO (XO (XO (XO (XO (XO (XO
    (XO (XO (XO (XO (XO (XO (XO (XI (XO (XI (XI (XO
    XH)))))))))))))))))))))))))))))))) :: ((Npos (XO (XI (XO (XI (XI (XI (XI
    (XO (XO (XO (XO (XO (XO (XO (XO (XO (XO (XO (XO (XO (XO (XO (XO (XO (XO
    (XO (XI (XO (XO (XO (XO XH)))))))))))))))))))))))))))))))) :: ((Npos (XO
    (XI (XO (XI (XI (XI (XO (XO (XO (XO (XO (XO (XO (XO (XO (XO (XO (XO (XO
    (XO (XO (XO (XO (XO (XO (XO (XI (XO (XO (XO (XO
    XH)))))))))))))))))))))))))))))))) :: ((Npos (XI (XO (XI (XO (XI (XO (XI
    (XI (XO (XO (XO (XO (XO (XO (XO (XO (XO (XO (XO (XO (XO (XO (XO (XO (XO
    (XO (XI (XO (XI (XO (XO XH)))))))))))))))))))))))))))))))) :: ((Npos (XI
    (XI (XO (XO (XI (XO (XO (XO (XI (XO (XO (XO (XO (XO (XO (XO (XO (XO (XO
    (XO (XO (XO (XO (XO (XO (XO (XI (XO (XI (XO (XO
    XH)))))))))))))))))))))))))))))))) :: ((Npos (XO (XI (XO (XI (XO (XI (XI
    (XO (XO (XO (XO (XO (XO (XO (XO (XO (XO (XO (XO (XO (XO (XO (XO (XO (XO
    (XO (XI (XO (XO (XO (XO XH)))))))))))))))))))))))))))))))) :: ((Npos (XO
    (XI (XO (XI (XO (XI (XO (XO (XO (XO (XO (XO (XO (XO (XO (XO (XO (XO (XO
    (XO (XO (XO (XO (XO (XO (XO (XI (XO (XO (XO (XO
    XH)))))))))))))))))))))))))))))))) :: ((Npos (XI (XO (XI (XO (XI (XI (XO
    (XI (XO (XO (XO (XO (XO (XO (XO (XO (XO (XO (XO (XO (XO (XO (XO (XO (XO
    (XO (XI (XO (XI (XO (XO XH)))))))))))))))))))))))))))))))) :: ((Npos (XO
    (XI (XO (XI (XO (XO (XO (XO (XO (XO (XO (XO (XO (XO (XO (XO (XO (XO (XO
    (XO (XO (XO (XO (XO (XO (XO (XI (XO (XO (XO (XO
    XH)))))))))))))))))))))))))))))))) :: ((Npos (XO (XI (XO (XI (XO (XO (XO
    (XI (XO (XO (XO (XO (XO (XO (XO (XO (XO (XO (XO (XO (XO (XO (XO (XO (XO
    (XO (XI (XO (XO (XO (XO XH)))))))))))))))))))))))))))))))) :: ((Npos (XO
    (XI (XO (XI (XO (XO (XI (XO (XO (XO (XO (XO (XO (XO (XO (XO (XO (XO (XO
    (XO (XO (XO (XO (XO (XO (XO (XI (XO (XO (XO (XO
    XH)))))))))))))))))))))))))))))))) :: ((Npos (XI (XO (XI (XO (XI (XI (XI
    (XI (XO (XO (XO (XO (XO (XO (XO (XO (XO (XO (XO (XO (XO (XO (XO (XO (XO
    (XO (XI (XO (XI (XO (XO XH)))))))))))))))))))))))))))))))) :: ((Npos (XI
    (XI (XO (XO (XO (XO (XO (XO (XI (XO (XO (XO (XO (XO (XO (XO (XO (XO (XO
    (XO (XO (XO (XO (XO (XO (XO (XI (XO (XI (XI
    XH))))))))))))))))))))))))))))))) :: ((Npos (XO (XI (XI (XO (XI (XO (XI
    (XO (XO (XO (XO (XO (XO (XO (XO (XO (XO (XO (XO (XO (XO (XO (XO (XO (XO
    (XO (XI (XO (XO (XO (XO XH)))))))))))))))))))))))))))))))) :: ((Npos (XO
    (XI (XI (XO (XI (XO (XO (XO (XO (XO (XO (XO (XO (XO (XO (XO (XO (XO (XO
    (XO (XO (XO (XO (XO (XO (XO (XI (XO (XO (XO (XO
    XH)))))))))))))))))))))))))))))))) :: (N0 :: ((Npos (XI (XI (XI (XO (XI
    (XI (XO (XO (XI (XO (XO (XO (XO (XO (XO (XO (XO (XO (XO (XO (XO (XO (XO
    (XO (XO (XO (XI (XO (XO (XI (XO
    XH)))))))))))))))))))))))))))))))) :: ((Npos (XO (XI (XI (XO (XI (XI (XI
    (XO (XO (XO (XO (XO (XO (XO (XO (XO (XO (XO (XO (XO (XO (XO (XO (XO (XO
    (XO (XI (XO (XO (XO (XO XH)))))))))))))))))))))))))))))))) :: ((Npos (XO
    (XI (XI (XO (XI (XI (XO (XO (XO (XO (XO (XO (XO (XO (XO (XO (XO (XO (XO
    (XO (XO (XO (XO (XO (XO (XO (XI (XO (XO (XO (XO
    XH)))))))))))))))))))))))))))))))) :: ((Npos (XI (XO (XI (XI (XO (XO (XI
    (XI (XO (XO (XO (XO (XO (XO (XO (XO (XO (XO (XO (XO (XO (XO (XO (XO (XO
    (XO (XI (XO (XI (XO (XO XH)))))))))))))))))))))))))))))))) :: ((Npos (XI
    (XO (XI (XI (XO (XO (XO (XO (XI (XO (XO (XO (XO (XO (XO (XO (XO (XO (XO
    (XO (XO (XO (XO (XO (XO (XO (XI (XO (XO (XO (XO
    XH)))))))))))))))))))))))))))))))) :: ((Npos (XO (XI (XI (XO (XO (XI (XI
    (XO (XO (XO (XO (XO (XO (XO (XO (XO (XO (XO (XO (XO (XO (XO (XO (XO (XO
    (XO (XI (XO (XO (XO (XO XH)))))))))))))))))))))))))))))))) :: ((Npos (XO
    (XI (XI (XO (XO (XI (XO (XO (XO (XO (XO (XO (XO (XO (XO (XO (XO (XO (XO
    (XO (XO (XO (XO (XO (XO (XO (XI (XO (XO (XO (XO
    XH)))))))))))))))))))))))))))))))) :: ((Npos (XI (XO (XI (XI (XO (XI (XO
    (XI (XO (XO (XO (XO (XO (XO (XO (XO (XO (XO (XO (XO (XO (XO (XO (XO (XO
    (XO (XI (XO (XI (XO (XO XH)))))))))))))))))))))))))))))))) :: ((Npos (XO
    (XI (XI (XO (XO (XO (XO (XO (XO (XO (XO (XO (XO (XO (XO (XO (XO (XO (XO
    (XO (XO (XO (XO (XO (XO (XO (XI (XO (XO (XO (XO
    XH)))))))))))))))))))))))))))))))) :: ((Npos (XO (XI (XI (XO (XO (XO (XO
    (XI (XO (XO (XO (XO (XO (XO (XO (XO (XO (XO (XO (XO (XO (XO (XO (XO (XO
    (XO (XI (XO (XO (XO (XO XH)))))))))))))))))))))))))))))))) :: ((Npos (XO
    (XI (XI (XO (XO (XO (XI (XO (XO (XO (XO (XO (XO (XO (XO (XO (XO (XO (XO
    (XO (XO (XO (XO (XO (XO (XO (XI (XO (XO (XO (XO
    XH)))))))))))))))))))))))))))))))) :: ((Npos (XI (XO (XI (XI (XO (XI (XI
    (XI (XO (XO (XO (XO (XO (XO (XO (XO (XO (XO (XO (XO (XO (XO (XO (XO (XO
    (XO (XI (XO (XI (XO (XO XH)))))))))))))))))))))))))))))))) :: ((Npos (XI
    (XI (XI (XO (XO (XO (XO (XO (XI (XO (XO (XO (XO (XO (XO (XO (XO (XO (XO
    (XO (XO (XO (XO (XO (XO (XO (XI (XO (XI (XI
    XH))))))))))))))))))))))))))))))) :: ((Npos (XO (XI (XI (XI (XI (XO (XI
    (XO (XO (XO (XO (XO (XO (XO (XO (XO (XO (XO (XO (XO (XO (XO (XO (XO (XO
    (XO (XI (XO (XO (XO (XO XH)))))))))))))))))))))))))))))))) :: ((Npos (XO
    (XI (XI (XI (XI (XO (XO (XO (XO (XO (XO (XO (XO (XO (XO (XO (XO (XO (XO
    (XO (XO (XO (XO (XO (XO (XO (XI (XO (XO (XO (XO
    XH)))))))))))))))))))))))))))))))) :: ((Npos (XI (XO (XI (XI (XI (XO (XO
    (XI (XO (XO (XO (XO (XO (XO (XO (XO (XO (XO (XO (XO (XO (XO (XO (XO (XO
    (XO (XI (XO (XI (XO (XO XH)))))))))))))))))))))))))))))))) :: ((Npos (XI
    (XI (XI (XI (XO (XI (XI (XO (XI (XO (XO (XO (XO (XO (XO (XO (XO (XO (XO
    (XO (XO (XO (XO (XO (XO (XO (XI (XO (XI (XI (XO
    XH)))))))))))))))))))))))))))))))) :: ((Npos (XO (XI (XI (XI (XI (XI (XI
    (XO (XO (XO (XO (XO (XO (XO (XO (XO (XO (XO (XO (XO (XO (XO (XO (XO (XO
    (XO (XI (XO (XO (XO (XO XH)))))))))))))))))))))))))))))))) :: ((Npos (XO
    (XI (XI (XI (XI (XI (XO (XO (XO (XO (XO (XO (XO (XO (XO (XO (XO (XO (XO
    (XO (XO (XO (XO (XO (XO (XO (XI (XO (XO (XO (XO
    XH)))))))))))))))))))))))))))))))) :: ((Npos (XI (XO (XI (XI (XI (XO (XI
    (XI (XO (XO (XO (XO (XO (XO (XO (XO (XO (XO (XO (XO (XO (XO (XO (XO (XO
    (XO (XI (XO (XI (XO (XO XH)))))))))))))))))))))))))))))))) :: ((Npos (XI
    (XI (XO (XI (XI (XO (XO (XO (XI (XO (XO (XO (XO (XO (XO (XO (XO (XO (XO
    (XO (XO (XO (XO (XO (XO (XO (XI (XO (XI (XO (XO
    XH)))))))))))))))))))))))))))))))) :: ((Npos (XO (XI (XI (XI (XO (XI (XI
    (XO (XO (XO (XO (XO (XO (XO (XO (XO (XO (XO (XO (XO (XO (XO (XO (XO (XO
    (XO (XI (XO (XO (XO (XO XH)))))))))))))))))))))))))))))))) :: ((Npos (XO
    (XI (XI (XI (XO (XI (XO (XO (XO (XO (XO (XO (XO (XO (XO (XO (XO (XO (XO
    (XO (XO (XO (XO (XO (XO (XO (XI (XO (XO (XO (XO
    XH)))))))))))))))))))))))))))))))) :: ((Npos (XI (XO (XI (XI (XI (XI (XO
    (XI (XO (XO (XO (XO (XO (XO (XO (XO (XO (XO (XO (XO (XO (XO (XO (XO (XO
    (XO (XI (XO (XI (XO (XO XH)))))))))))))))))))))))))))))))) :: ((Npos (XO
    (XI (XI (XI (XO (XO (XO (XO (XO (XO (XO (XO (XO (XO (XO (XO (XO (XO (XO
    (XO (XO (XO (XO (XO (XO (XO (XI (XO (XO (XO (XO
    XH)))))))))))))))))))))))))))))))) :: ((Npos (XO (XI (XI (XI (XO (XO (XO
    (XI (XO (XO (XO (XO (XO (XO (XO (XO (XO (XO (XO (XO (XO (XO (XO (XO (XO
    (XO (XI (XO (XO (XO (XO XH)))))))))))))))))))))))))))))))) :: ((Npos (XO
    (XI (XI (XI (XO (XO (XI (XO (XO (XO (XO (XO (XO (XO (XO (XO (XO (XO (XO
    (XO (XO (XO (XO (XO (XO (XO (XI (XO (XO (XO (XO
    XH)))))))))))))))))))))))))))))))) :: ((Npos (XI (XO (XI (XI (XI (XI (XI
    (XI (XO (XO (XO (XO (XO (XO (XO (XO (XO (XO (XO (XO (XO (XO (XO (XO (XO
    (XO (XI (XO (XI (XO (XO XH)))))))))))))))))))))))))))))))) :: ((Npos (XO
    (XO (XO (XO (XO (XO (XO (XO (XI (XO (XO (XO (XO (XO (XO (XO (XO (XO (XO
    (XO (XO (XO (XO (XO (XO (XO (XI (XO (XI (XI
    XH))))))))))))))))))))))))))))))) :: ((Npos (XI (XO (XO (XO (XI (XO (XI
    (XO (XO (XO (XO (XO (XO (XO (XO (XO (XO (XO (XO (XO (XO (XO (XO (XO (XO
    (XO (XI (XO (XO (XO (XO XH)))))))))))))))))))))))))))))))) :: ((Npos (XI
    (XO (XO (XO (XI (XO (XO (XO (XO (XO (XO (XO (XO (XO (XO (XO (XO (XO (XO
    (XO (XO (XO (XO (XO (XO (XO (XI (XO (XO (XO (XO
    XH)))))))))))))))))))))))))))))))) :: ((Npos (XO (XI (XI (XI (XI (XO (XO
    (XO (XO (XO (XO (XO (XO (XO (XO (XO (XO (XO (XO (XO (XO (XO (XO (XO (XO
    (XI (XI (XO (XI XH)))))))))))))))))))))))))))))) :: ((Npos (XO (XO (XO
    (XO (XO (XI (XO (XO (XI (XO (XO (XO (XO (XO (XO (XO (XO (XO (XO (XO (XO
    (XO (XO (XO (XO (XO (XI (XO (XI (XO (XO
    XH)))))))))))))))))))))))))))))))) :: ((Npos (XI (XO (XO (XO (XI (XI (XI
    (XO (XO (XO (XO (XO (XO (XO (XO (XO (XO (XO (XO (XO (XO (XO (XO (XO (XO
    (XO (XI (XO (XO (XO (XO XH)))))))))))))))))))))))))))))))) :: ((Npos (XI
    (XO (XO (XO (XI (XI (XO (XO (XO (XO (XO (XO (XO (XO (XO (XO (XO (XO (XO
    (XO (XO (XO (XO (XO (XO (XO (XI (XO (XO (XO (XO
    XH)))))))))))))))))))))))))))))))) :: ((Npos (XI (XI (XO (XO (XO (XO (XI
    (XI (XO (XO (XO (XO (XO (XO (XO (XO (XO (XO (XO (XO (XO (XO (XO (XO (XO
    (XO (XI (XO (XI (XO (XO XH)))))))))))))))))))))))))))))))) :: ((Npos (XO
    (XO (XO (XI (XO (XO (XO (XO (XI (XO (XO (XO (XO (XO (XO (XO (XO (XO (XO
    (XO (XO (XO (XO (XO (XO (XO (XI (XO (XI (XI
    XH))))))))))))))))))))))))))))))) :: ((Npos (XI (XO (XO (XO (XO (XI (XI
    (XO (XO (XO (XO (XO (XO (XO (XO (XO (XO (XO (XO (XO (XO (XO (XO (XO (XO
    (XO (XI (XO (XO (XO (XO XH)))))))))))))))))))))))))))))))) :: ((Npos (XI
    (XO (XO (XO (XO (XI (XO (XO (XO (XO (XO (XO (XO (XO (XO (XO (XO (XO (XO
    (XO (XO (XO (XO (XO (XO (XO (XI (XO (XO (XO (XO
    XH)))))))))))))))))))))))))))))))) :: ((Npos (XI (XI (XO (XO (XO (XI (XO
    (XI (XO (XO (XO (XO (XO (XO (XO (XO (XO (XO (XO (XO (XO (XO (XO (XO (XO
    (XO (XI (XO (XI (XO (XO XH)))))))))))))))))))))))))))))))) :: ((Npos (XI
    (XO (XO (XO (XO (XO (XO (XO (XO (XO (XO (XO (XO (XO (XO (XO (XO (XO (XO
    (XO (XO (XO (XO (XO (XO (XO (XI (XO (XO (XO (XO
    XH)))))))))))))))))))))))))))))))) :: ((Npos (XI (XO (XO (XO (XO (XO (XO
    (XI (XO (XO (XO (XO (XO (XO (XO (XO (XO (XO (XO (XO (XO (XO (XO (XO (XO
    (XO (XI (XO (XO (XO (XO XH)))))))))))))))))))))))))))))))) :: ((Npos (XI
    (XO (XO (XO (XO (XO (XI (XO (XO (XO (XO (XO (XO (XO (XO (XO (XO (XO (XO
    (XO (XO (XO (XO (XO (XO (XO (XI (XO (XO (XO (XO
    XH)))))))))))))))))))))))))))))))) :: ((Npos (XI (XI (XO (XO (XO (XI (XI
    (XI (XO (XO (XO (XO (XO (XO (XO (XO (XO (XO (XO (XO (XO (XO (XO (XO (XO
    (XO (XI (XO (XI (XO (XO XH)))))))))))))))))))))))))))))))) :: ((Npos (XO
    (XO (XI (XO (XO (XO (XO (XO (XI (XO (XO (XO (XO (XO (XO (XO (XO (XO (XO
    (XO (XO (XO (XO (XO (XO (XO (XI (XO (XI (XI
    XH))))))))))))))))))))))))))))))) :: ((Npos (XI (XO (XO (XI (XI (XO (XI
    (XO (XO (XO (XO (XO (XO (XO (XO (XO (XO (XO (XO (XO (XO (XO (XO (XO (XO
    (XO (XI (XO (XO (XO (XO XH)))))))))))))))))))))))))))))))) :: ((Npos (XI
    (XO (XO (XI (XI (XO (XO (XO (XO (XO (XO (XO (XO (XO (XO (XO (XO (XO (XO
    (XO (XO (XO (XO (XO (XO (XO (XI (XO (XO (XO (XO
    XH)))))))))))))))))))))))))))))))) :: ((Npos (XI (XI (XO (XO (XI (XO (XO
    (XI (XO (XO (XO (XO (XO (XO (XO (XO (XO (XO (XO (XO (XO (XO (XO (XO (XO
    (XO (XI (XO (XI (XO (XO XH)))))))))))))))))))))))))))))))) :: ((Npos (XO
    (XO (XO (XO (XO (XO (XI (XO (XI (XO (XO (XO (XO (XO (XO (XO (XO (XO (XO
    (XO (XO (XO (XO (XO (XO (XO (XI (XO (XO (XI (XO
    XH)))))))))))))))))))))))))))))))) :: ((Npos (XI (XO (XO (XI (XI (XI (XI
    (XO (XO (XO (XO (XO (XO (XO (XO (XO (XO (XO (XO (XO (XO (XO (XO (XO (XO
    (XO (XI (XO (XO (XO (XO XH)))))))))))))))))))))))))))))))) :: ((Npos (XI
    (XO (XO (XI (XI (XI (XO (XO (XO (XO (XO (XO (XO (XO (XO (XO (XO (XO (XO
    (XO (XO (XO (XO (XO (XO (XO (XI (XO (XO (XO (XO
    XH)))))))))))))))))))))))))))))))) :: ((Npos (XI (XI (XO (XO (XI (XO (XI
    (XI (XO (XO (XO (XO (XO (XO (XO (XO (XO (XO (XO (XO (XO (XO (XO (XO (XO
    (XO (XI (XO (XI (XO (XO XH)))))))))))))))))))))))))))))))) :: ((Npos (XO
    (XO (XO (XO (XI (XO (XO (XO (XI (XO (XO (XO (XO (XO (XO (XO (XO (XO (XO
    (XO (XO (XO (XO (XO (XO (XO (XI (XO (XO (XO (XO
    XH)))))))))))))))))))))))))))))))) :: ((Npos (XI (XO (XO (XI (XO (XI (XI
    (XO (XO (XO (XO (XO (XO (XO (XO (XO (XO (XO (XO (XO (XO (XO (XO (XO (XO
    (XO (XI (XO (XO (XO (XO XH)))))))))))))))))))))))))))))))) :: ((Npos (XI
    (XO (XO (XI (XO (XI (XO (XO (XO (XO (XO (XO (XO (XO (XO (XO (XO (XO (XO
    (XO (XO (XO (XO (XO (XO (XO (XI (XO (XO (XO (XO
    XH)))))))))))))))))))))))))))))))) :: ((Npos (XI (XI (XO (XO (XI (XI (XO
    (XI (XO (XO (XO (XO (XO (XO (XO (XO (XO (XO (XO (XO (XO (XO (XO (XO (XO
    (XO (XI (XO (XI (XO (XO XH)))))))))))))))))))))))))))))))) :: ((Npos (XI
    (XO (XO (XI (XO (XO (XO (XO (XO (XO (XO (XO (XO (XO (XO (XO (XO (XO (XO
    (XO (XO (XO (XO (XO (XO (XO (XI (XO (XO (XO (XO
    XH)))))))))))))))))))))))))))))))) :: ((Npos (XI (XO (XO (XI (XO (XO (XO
    (XI (XO (XO (XO (XO (XO (XO (XO (XO (XO (XO (XO (XO (XO (XO (XO (XO (XO
    (XO (XI (XO (XO (XO (XO XH)))))))))))))))))))))))))))))))) :: ((Npos (XI
    (XO (XO (XI (XO (XO (XI (XO (XO (XO (XO (XO (XO (XO (XO (XO (XO (XO (XO
    (XO (XO (XO (XO (XO (XO (XO (XI (XO (XO (XO (XO
    XH)))))))))))))))))))))))))))))))) :: ((Npos (XI (XI (XO (XO (XI (XI (XI
    (XI (XO (XO (XO (XO (XO (XO (XO (XO (XO (XO (XO (XO (XO (XO (XO (XO (XO
    (XO (XI (XO (XI (XO (XO XH)))))))))))))))))))))))))))))))) :: ((Npos (XO
    (XI (XO (XO (XO (XO (XO (XO (XI (XO (XO (XO (XO (XO (XO (XO (XO (XO (XO
    (XO (XO (XO (XO (XO (XO (XO (XI (XO (XI (XI
    XH))))))))))))))))))))))))))))))) :: ((Npos (XI (XO (XI (XO (XI (XO (XI
    (XO (XO (XO (XO (XO (XO (XO (XO (XO (XO (XO (XO (XO (XO (XO (XO (XO (XO
    (XO (XI (XO (XO (XO (XO XH)))))))))))))))))))))))))))))))) :: ((Npos (XI
    (XO (XI (XO (XI (XO (XO (XO (XO (XO (XO (XO (XO (XO (XO (XO (XO (XO (XO
    (XO (XO (XO (XO (XO (XO (XO (XI (XO (XO (XO (XO
    XH)))))))))))))))))))))))))))))))) :: ((Npos (XO (XO (XO (XO (XO (XO (XO
    (XO (XO (XI (XO (XO (XO (XO (XO (XO (XO (XO (XO (XO (XO (XO (XO (XO (XO
    (XO (XI (XO (XO (XO (XO XH)))))))))))))))))))))))))))))))) :: ((Npos (XO
    (XO (XO (XO (XI (XI (XO (XO (XI (XO (XO (XO (XO (XO (XO (XO (XO (XO (XO
    (XO (XO (XO (XO (XO (XO (XO (XI (XO (XO (XI (XO
    XH)))))))))))))))))))))))))))))))) :: ((Npos (XI (XO (XI (XO (XI (XI (XI
    (XO (XO (XO (XO (XO (XO (XO (XO (XO (XO (XO (XO (XO (XO (XO (XO (XO (XO
    (XO (XI (XO (XO (XO (XO XH)))))))))))))))))))))))))))))))) :: ((Npos (XI
    (XO (XI (XO (XI (XI (XO (XO (XO (XO (XO (XO (XO (XO (XO (XO (XO (XO (XO
    (XO (XO (XO (XO (XO (XO (XO (XI (XO (XO (XO (XO
    XH)))))))))))))))))))))))))))))))) :: ((Npos (XI (XI (XO (XI (XO (XO (XI
    (XI (XO (XO (XO (XO (XO (XO (XO (XO (XO (XO (XO (XO (XO (XO (XO (XO (XO
    (XO (XI (XO (XI (XO (XO XH)))))))))))))))))))))))))))))))) :: ((Npos (XO
    (XO (XI (XI (XO (XO (XO (XO (XI (XO (XO (XO (XO (XO (XO (XO (XO (XO (XO
    (XO (XO (XO (XO (XO (XO (XO (XI (XO (XO (XO (XO
    XH)))))))))))))))))))))))))))))))) :: ((Npos (XI (XO (XI (XO (XO (XI (XI
    (XO (XO (XO (XO (XO (XO (XO (XO (XO (XO (XO (XO (XO (XO (XO (XO (XO (XO
    (XO (XI (XO (XO (XO (XO XH)))))))))))))))))))))))))))))))) :: ((Npos (XI
    (XO (XI (XO (XO (XI (XO (XO (XO (XO (XO (XO (XO (XO (XO (XO (XO (XO (XO
    (XO (XO (XO (XO (XO (XO (XO (XI (XO (XO (XO (XO
    XH)))))))))))))))))))))))))))))))) :: ((Npos (XI (XI (XO (XI (XO (XI (XO
    (XI (XO (XO (XO (XO (XO (XO (XO (XO (XO (XO (XO (XO (XO (XO (XO (XO (XO
    (XO (XI (XO (XI (XO (XO XH)))))))))))))))))))))))))))))))) :: ((Npos (XI
    (XO (XI (XO (XO (XO (XO (XO (XO (XO (XO (XO (XO (XO (XO (XO (XO (XO (XO
    (XO (XO (XO (XO (XO (XO (XO (XI (XO (XO (XO (XO
    XH)))))))))))))))))))))))))))))))) :: ((Npos (XI (XO (XI (XO (XO (XO (XO
    (XI (XO (XO (XO (XO (XO (XO (XO (XO (XO (XO (XO (XO (XO (XO (XO (XO (XO
    (XO (XI (XO (XO (XO (XO XH)))))))))))))))))))))))))))))))) :: ((Npos (XI
    (XO (XI (XO (XO (XO (XI (XO (XO (XO (XO (XO (XO (XO (XO (XO (XO (XO (XO
    (XO (XO (XO (XO (XO (XO (XO (XI (XO (XO (XO (XO
    XH)))))))))))))))))))))))))))))))) :: ((Npos (XI (XI (XO (XI (XO (XI (XI
    (XI (XO (XO (XO (XO (XO (XO (XO (XO (XO (XO (XO (XO (XO (XO (XO (XO (XO
    (XO (XI (XO (XI (XO (XO XH)))))))))))))))))))))))))))))))) :: ((Npos (XO
    (XI (XI (XO (XO (XO (XO (XO (XI (XO (XO (XO (XO (XO (XO (XO (XO (XO (XO
    (XO (XO (XO (XO (XO (XO (XO (XI (XO (XI (XI
    XH))))))))))))))))))))))))))))))) :: ((Npos (XI (XO (XI (XI (XI (XO (XI
    (XO (XO (XO (XO (XO (XO (XO (XO (XO (XO (XO (XO (XO (XO (XO (XO (XO (XO
    (XO (XI (XO (XO (XO (XO XH)))))))))))))))))))))))))))))))) :: ((Npos (XI
    (XO (XI (XI (XI (XO (XO (XO (XO (XO (XO (XO (XO (XO (XO (XO (XO (XO (XO
    (XO (XO (XO (XO (XO (XO (XO (XI (XO (XO (XO (XO
    XH)))))))))))))))))))))))))))))))) :: ((Npos (XI (XI (XO (XI (XI (XO (XO
    (XI (XO (XO (XO (XO (XO (XO (XO (XO (XO (XO (XO (XO (XO (XO (XO (XO (XO
    (XO (XI (XO (XI (XO (XO XH)))))))))))))))))))))))))))))))) :: ((Npos (XO
    (XO (XO (XO (XO (XI (XI (XO (XI (XO (XO (XO (XO (XO (XO (XO (XO (XO (XO
    (XO (XO (XO (XO (XO (XO (XO (XI (XO (XI (XI (XO
    XH)))))))))))))))))))))))))))))))) :: ((Npos (XI (XO (XI (XI (XI (XI (XI
    (XO (XO (XO (XO (XO (XO (XO (XO (XO (XO (XO (XO (XO (XO (XO (XO (XO (XO
    (XO (XI (XO (XO (XO (XO XH)))))))))))))))))))))))))))))))) :: ((Npos (XI
    (XO (XI (XI (XI (XI (XO (XO (XO (XO (XO (XO (XO (XO (XO (XO (XO (XO (XO
    (XO (XO (XO (XO (XO (XO (XO (XI (XO (XO (XO (XO
    XH)))))))))))))))))))))))))))))))) :: ((Npos (XI (XI (XO (XI (XI (XO (XI
    (XI (XO (XO (XO (XO (XO (XO (XO (XO (XO (XO (XO (XO (XO (XO (XO (XO (XO
    (XO (XI (XO (XI (XO (XO XH)))))))))))))))))))))))))))))))) :: ((Npos (XO
    (XO (XO (XI (XI (XO (XO (XO (XI (XO (XO (XO (XO (XO (XO (XO (XO (XO (XO
    (XO (XO (XO (XO (XO (XO (XO (XI (XO (XI (XO (XO
    XH)))))))))))))))))))))))))))))))) :: ((Npos (XI (XO (XI (XI (XO (XI (XI
    (XO (XO (XO (XO (XO (XO (XO (XO (XO (XO (XO (XO (XO (XO (XO (XO (XO (XO
    (XO (XI (XO (XO (XO (XO XH)))))))))))))))))))))))))))))))) :: ((Npos (XI
    (XO (XI (XI (XO (XI (XO (XO (XO (XO (XO (XO (XO (XO (XO (XO (XO (XO (XO
    (XO (XO (XO (XO (XO (XO (XO (XI (XO (XO (XO (XO
    XH)))))))))))))))))))))))))))))))) :: ((Npos (XI (XI (XO (XI (XI (XI (XO
    (XI (XO (XO (XO (XO (XO (XO (XO (XO (XO (XO (XO (XO (XO (XO (XO (XO (XO
    (XO (XI (XO (XI (XO (XO XH)))))))))))))))))))))))))))))))) :: ((Npos (XI
    (XO (XI (XI (XO (XO (XO (XO (XO (XO (XO (XO (XO (XO (XO (XO (XO (XO (XO
    (XO (XO (XO (XO (XO (XO (XO (XI (XO (XO (XO (XO
    XH)))))))))))))))))))))))))))))))) :: ((Npos (XI (XO (XI (XI (XO (XO (XO
    (XI (XO (XO (XO (XO (XO (XO (XO (XO (XO (XO (XO (XO (XO (XO (XO (XO (XO
    (XO (XI (XO (XO (XO (XO XH)))))))))))))))))))))))))))))))) :: ((Npos (XI
    (XO (XI (XI (XO (XO (XI (XO (XO (XO (XO (XO (XO (XO (XO (XO (XO (XO (XO
    (XO (XO (XO (XO (XO (XO (XO (XI (XO (XO (XO (XO
    XH)))))))))))))))))))))))))))))))) :: ((Npos (XI (XI (XO (XI (XI (XI (XI
    (XI (XO (XO (XO (XO (XO (XO (XO (XO (XO (XO (XO (XO (XO (XO (XO (XO (XO
    (XO (XI (XO (XI (XO (XO XH)))))))))))))))))))))))))))))))) :: ((Npos (XI
    (XO (XO (XO (XO (XO (XO (XO (XI (XO (XO (XO (XO (XO (XO (XO (XO (XO (XO
    (XO (XO (XO (XO (XO (XO (XO (XI (XO (XI (XI
    XH))))))))))))))))))))))))))))))) :: ((Npos (XI (XI (XO (XO (XI (XO (XI
    (XO (XO (XO (XO (XO (XO (XO (XO (XO (XO (XO (XO (XO (XO (XO (XO (XO (XO
    (XO (XI (XO (XO (XO (XO XH)))))))))))))))))))))))))))))))) :: ((Npos (XI
    (XI (XO (XO (XI (XO (XO (XO (XO (XO (XO (XO (XO (XO (XO (XO (XO (XO (XO
    (XO (XO (XO (XO (XO (XO (XO (XI (XO (XO (XO (XO
    XH)))))))))))))))))))))))))))))))) :: ((Npos (XO (XI (XI (XI (XI (XO (XI
    (XO (XO (XO (XO (XO (XO (XO (XO (XO (XO (XO (XO (XO (XO (XO (XO (XO (XO
    (XI (XI (XO (XI XH)))))))))))))))))))))))))))))) :: ((Npos (XO (XO (XO
    (XI (XO (XI (XO (XO (XI (XO (XO (XO (XO (XO (XO (XO (XO (XO (XO (XO (XO
    (XO (XO (XO (XO (XO (XI (XO (XO (XI (XO
    XH)))))))))))))))))))))))))))))))) :: ((Npos (XI (XI (XO (XO (XI (XI (XI
    (XO (XO (XO (XO (XO (XO (XO (XO (XO (XO (XO (XO (XO (XO (XO (XO (XO (XO
    (XO (XI (XO (XO (XO (XO XH)))))))))))))))))))))))))))))))) :: ((Npos (XI
    (XI (XO (XO (XI (XI (XO (XO (XO (XO (XO (XO (XO (XO (XO (XO (XO (XO (XO
    (XO (XO (XO (XO (XO (XO (XO (XI (XO (XO (XO (XO
    XH)))))))))))))))))))))))))))))))) :: ((Npos (XI (XI (XI (XO (XO (XO (XI
    (XI (XO (XO (XO (XO (XO (XO (XO (XO (XO (XO (XO (XO (XO (XO (XO (XO (XO
    (XO (XI (XO (XI (XO (XO XH)))))))))))))))))))))))))))))))) :: ((Npos (XO
    (XI (XO (XI (XO (XO (XO (XO (XI (XO (XO (XO (XO (XO (XO (XO (XO (XO (XO
    (XO (XO (XO (XO (XO (XO (XO (XI (XO (XO (XO (XO
    XH)))))))))))))))))))))))))))))))) :: ((Npos (XI (XI (XO (XO (XO (XI (XI
    (XO (XO (XO (XO (XO (XO (XO (XO (XO (XO (XO (XO (XO (XO (XO (XO (XO (XO
    (XO (XI (XO (XO (XO (XO XH)))))))))))))))))))))))))))))))) :: ((Npos (XI
    (XI (XO (XO (XO (XI (XO (XO (XO (XO (XO (XO (XO (XO (XO (XO (XO (XO (XO
    (XO (XO (XO (XO (XO (XO (XO (XI (XO (XO (XO (XO
    XH)))))))))))))))))))))))))))))))) :: ((Npos (XI (XI (XI (XO (XO (XI (XO
    (XI (XO (XO (XO (XO (XO (XO (XO (XO (XO (XO (XO (XO (XO (XO (XO (XO (XO
    (XO (XI (XO (XI (XO (XO XH)))))))))))))))))))))))))))))))) :: ((Npos (XI
    (XI (XO (XO (XO (XO (XO (XO (XO (XO (XO (XO (XO (XO (XO (XO (XO (XO (XO
    (XO (XO (XO (XO (XO (XO (XO (XI (XO (XO (XO (XO
    XH)))))))))))))))))))))))))))))))) :: ((Npos (XI (XI (XO (XO (XO (XO (XO
    (XI (XO (XO (XO (XO (XO (XO (XO (XO (XO (XO (XO (XO (XO (XO (XO (XO (XO
    (XO (XI (XO (XO (XO (XO XH)))))))))))))))))))))))))))))))) :: ((Npos (XI
    (XI (XO (XO (XO (XO (XI (XO (XO (XO (XO (XO (XO (XO (XO (XO (XO (XO (XO
    (XO (XO (XO (XO (XO (XO (XO (XI (XO (XO (XO (XO
    XH)))))))))))))))))))))))))))))))) :: ((Npos (XI (XI (XI (XO (XO (XI (XI
    (XI (XO (XO (XO (XO (XO (XO (XO (XO (XO (XO (XO (XO (XO (XO (XO (XO (XO
    (XO (XI (XO (XI (XO (XO XH)))))))))))))))))))))))))))))))) :: ((Npos (XI
    (XO (XI (XO (XO (XO (XO (XO (XI (XO (XO (XO (XO (XO (XO (XO (XO (XO (XO
    (XO (XO (XO (XO (XO (XO (XO (XI (XO (XI (XI
    XH))))))))))))))))))))))))))))))) :: ((Npos (XI (XI (XO (XI (XI (XO (XI
    (XO (XO (XO (XO (XO (XO (XO (XO (XO (XO (XO (XO (XO (XO (XO (XO (XO (XO
    (XO (XI (XO (XO (XO (XO XH)))))))))))))))))))))))))))))))) :: ((Npos (XI
    (XI (XO (XI (XI (XO (XO (XO (XO (XO (XO (XO (XO (XO (XO (XO (XO (XO (XO
    (XO (XO (XO (XO (XO (XO (XO (XI (XO (XO (XO (XO
    XH)))))))))))))))))))))))))))))))) :: ((Npos (XI (XI (XI (XO (XI (XO (XO
    (XI (XO (XO (XO (XO (XO (XO (XO (XO (XO (XO (XO (XO (XO (XO (XO (XO (XO
    (XO (XI (XO (XI (XO (XO XH)))))))))))))))))))))))))))))))) :: ((Npos (XO
    (XO (XO (XO (XI (XO (XI (XO (XI (XO (XO (XO (XO (XO (XO (XO (XO (XO (XO
    (XO (XO (XO (XO (XO (XO (XO (XI (XO (XI (XI (XO
    XH)))))))))))))))))))))))))))))))) :: ((Npos (XI (XI (XO (XI (XI (XI (XI
    (XO (XO (XO (XO (XO (XO (XO (XO (XO (XO (XO (XO (XO (XO (XO (XO (XO (XO
    (XO (XI (XO (XO (XO (XO XH)))))))))))))))))))))))))))))))) :: ((Npos (XI
    (XI (XO (XI (XI (XI (XO (XO (XO (XO (XO (XO (XO (XO (XO (XO (XO (XO (XO
    (XO (XO (XO (XO (XO (XO (XO (XI (XO (XO (XO (XO
    XH)))))))))))))))))))))))))))))))) :: ((Npos (XI (XI (XI (XO (XI (XO (XI
    (XI (XO (XO (XO (XO (XO (XO (XO (XO (XO (XO (XO (XO (XO (XO (XO (XO (XO
    (XO (XI (XO (XI (XO (XO XH)))))))))))))))))))))))))))))))) :: ((Npos (XO
    (XO (XI (XO (XI (XO (XO (XO (XI (XO (XO (XO (XO (XO (XO (XO (XO (XO (XO
    (XO (XO (XO (XO (XO (XO (XO (XI (XO (XI (XO (XO
    XH)))))))))))))))))))))))))))))))) :: ((Npos (XI (XI (XO (XI (XO (XI (XI
    (XO (XO (XO (XO (XO (XO (XO (XO (XO (XO (XO (XO (XO (XO (XO (XO (XO (XO
    (XO (XI (XO (XO (XO (XO XH)))))))))))))))))))))))))))))))) :: ((Npos (XI
    (XI (XO (XI (XO (XI (XO (XO (XO (XO (XO (XO (XO (XO (XO (XO (XO (XO (XO
    (XO (XO (XO (XO (XO (XO (XO (XI (XO (XO (XO (XO
    XH)))))))))))))))))))))))))))))))) :: ((Npos (XI (XI (XI (XO (XI (XI (XO
    (XI (XO (XO (XO (XO (XO (XO (XO (XO (XO (XO (XO (XO (XO (XO (XO (XO (XO
    (XO (XI (XO (XI (XO (XO XH)))))))))))))))))))))))))))))))) :: ((Npos (XI
    (XI (XO (XI (XO (XO (XO (XO (XO (XO (XO (XO (XO (XO (XO (XO (XO (XO (XO
    (XO (XO (XO (XO (XO (XO (XO (XI (XO (XO (XO (XO
    XH)))))))))))))))))))))))))))))))) :: ((Npos (XI (XI (XO (XI (XO (XO (XO
    (XI (XO (XO (XO (XO (XO (XO (XO (XO (XO (XO (XO (XO (XO (XO (XO (XO (XO
    (XO (XI (XO (XO (XO (XO XH)))))))))))))))))))))))))))))))) :: ((Npos (XI
    (XI (XO (XI (XO (XO (XI (XO (XO (XO (XO (XO (XO (XO (XO (XO (XO (XO (XO
    (XO (XO (XO (XO (XO (XO (XO (XI (XO (XO (XO (XO
    XH)))))))))))))))))))))))))))))))) :: ((Npos (XI (XI (XI (XO (XI (XI (XI
    (XI (XO (XO (XO (XO (XO (XO (XO (XO (XO (XO (XO (XO (XO (XO (XO (XO (XO
    (XO (XI (XO (XI (XO (XO XH)))))))))))))))))))))))))))))))) :: ((Npos (XI
    (XI (XO (XO (XO (XO (XO (XO (XI (XO (XO (XO (XO (XO (XO (XO (XO (XO (XO
    (XO (XO (XO (XO (XO (XO (XO (XI (XO (XI (XI
    XH))))))))))))))))))))))))))))))) :: ((Npos (XI (XI (XI (XO (XI (XO (XI
    (XO (XO (XO (XO (XO (XO (XO (XO (XO (XO (XO (XO (XO (XO (XO (XO (XO (XO
    (XO (XI (XO (XO (XO (XO XH)))))))))))))))))))))))))))))))) :: ((Npos (XI
    (XI (XI (XO (XI (XO (XO (XO (XO (XO (XO (XO (XO (XO (XO (XO (XO (XO (XO
    (XO (XO (XO (XO (XO (XO (XO (XI (XO (XO (XO (XO
    XH)))))))))))))))))))))))))))))))) :: (N0 :: ((Npos (XO (XO (XO (XI (XI
    (XI (XO (XO (XI (XO (XO (XO (XO (XO (XO (XO (XO (XO (XO (XO (XO (XO (XO
    (XO (XO (XO (XI (XO (XO (XI (XO
    XH)))))))))))))))))))))))))))))))) :: ((Npos (XI (XI (XI (XO (XI (XI (XI
    (XO (XO (XO (XO (XO (XO (XO (XO (XO (XO (XO (XO (XO (XO (XO (XO (XO (XO
    (XO (XI (XO (XO (XO (XO XH)))))))))))))))))))))))))))))))) :: ((Npos (XI
    (XI (XI (XO (XI (XI (XO (XO (XO (XO (XO (XO (XO (XO (XO (XO (XO (XO (XO
    (XO (XO (XO (XO (XO (XO (XO (XI (XO (XO (XO (XO
    XH)))))))))))))))))))))))))))))))) :: ((Npos (XI (XI (XI (XI (XO (XO (XI
    (XI (XO (XO (XO (XO (XO (XO (XO (XO (XO (XO (XO (XO (XO (XO (XO (XO (XO
    (XO (XI (XO (XI (XO (XO XH)))))))))))))))))))))))))))))))) :: ((Npos (XO
    (XI (XI (XI (XO (XO (XO (XO (XI (XO (XO (XO (XO (XO (XO (XO (XO (XO (XO
    (XO (XO (XO (XO (XO (XO (XO (XI (XO (XO (XO (XO
    XH)))))))))))))))))))))))))))))))) :: ((Npos (XI (XI (XI (XO (XO (XI (XI
    (XO (XO (XO (XO (XO (XO (XO (XO (XO (XO (XO (XO (XO (XO (XO (XO (XO (XO
    (XO (XI (XO (XO (XO (XO XH)))))))))))))))))))))))))))))))) :: ((Npos (XI
    (XI (XI (XO (XO (XI (XO (XO (XO (XO (XO (XO (XO (XO (XO (XO (XO (XO (XO
    (XO (XO (XO (XO (XO (XO (XO (XI (XO (XO (XO (XO
    XH)))))))))))))))))))))))))))))))) :: ((Npos (XI (XI (XI (XI (XO (XI (XO
    (XI (XO (XO (XO (XO (XO (XO (XO (XO (XO (XO (XO (XO (XO (XO (XO (XO (XO
    (XO (XI (XO (XI (XO (XO XH)))))))))))))))))))))))))))))))) :: ((Npos (XI
    (XI (XI (XO (XO (XO (XO (XO (XO (XO (XO (XO (XO (XO (XO (XO (XO (XO (XO
    (XO (XO (XO (XO (XO (XO (XO (XI (XO (XO (XO (XO
    XH)))))))))))))))))))))))))))))))) :: ((Npos (XI (XI (XI (XO (XO (XO (XO
    (XI (XO (XO (XO (XO (XO (XO (XO (XO (XO (XO (XO (XO (XO (XO (XO (XO (XO
    (XO (XI (XO (XO (XO (XO XH)))))))))))))))))))))))))))))))) :: ((Npos (XI
    (XI (XI (XO (XO (XO (XI (XO (XO (XO (XO (XO (XO (XO (XO (XO (XO (XO (XO
    (XO (XO (XO (XO (XO (XO (XO (XI (XO (XO (XO (XO
    XH)))))))))))))))))))))))))))))))) :: ((Npos (XI (XI (XI (XI (XO (XI (XI
    (XI (XO (XO (XO (XO (XO (XO (XO (XO (XO (XO (XO (XO (XO (XO (XO (XO (XO
    (XO (XI (XO (XI (XO (XO XH)))))))))))))))))))))))))))))))) :: ((Npos (XI
    (XI (XI (XO (XO (XO (XO (XO (XI (XO (XO (XO (XO (XO (XO (XO (XO (XO (XO
    (XO (XO (XO (XO (XO (XO (XO (XI (XO (XI (XI
    XH))))))))))))))))))))))))))))))) :: ((Npos (XI (XI (XI (XI (XI (XO (XI
    (XO (XO (XO (XO (XO (XO (XO (XO (XO (XO (XO (XO (XO (XO (XO (XO (XO (XO
    (XO (XI (XO (XO (XO (XO XH)))))))))))))))))))))))))))))))) :: ((Npos (XI
    (XI (XI (XI (XI (XO (XO (XO (XO (XO (XO (XO (XO (XO (XO (XO (XO (XO (XO
    (XO (XO (XO (XO (XO (XO (XO (XI (XO (XO (XO (XO
    XH)))))))))))))))))))))))))))))))) :: ((Npos (XI (XI (XI (XI (XI (XO (XO
    (XI (XO (XO (XO (XO (XO (XO (XO (XO (XO (XO (XO (XO (XO (XO (XO (XO (XO
    (XO (XI (XO (XI (XO (XO XH)))))))))))))))))))))))))))))))) :: ((Npos (XO
    (XO (XO (XO (XI (XI (XI (XO (XI (XO (XO (XO (XO (XO (XO (XO (XO (XO (XO
    (XO (XO (XO (XO (XO (XO (XO (XI (XO (XI (XI (XO
    XH)))))))))))))))))))))))))))))))) :: ((Npos (XI (XI (XI (XI (XI (XI (XI
    (XO (XO (XO (XO (XO (XO (XO (XO (XO (XO (XO (XO (XO (XO (XO (XO (XO (XO
    (XO (XI (XO (XO (XO (XO XH)))))))))))))))))))))))))))))))) :: ((Npos (XI
    (XI (XI (XI (XI (XI (XO (XO (XO (XO (XO (XO (XO (XO (XO (XO (XO (XO (XO
    (XO (XO (XO (XO (XO (XO (XO (XI (XO (XO (XO (XO
    XH)))))))))))))))))))))))))))))))) :: ((Npos (XI (XI (XI (XI (XI (XO (XI
    (XI (XO (XO (XO (XO (XO (XO (XO (XO (XO (XO (XO (XO (XO (XO (XO (XO (XO
    (XO (XI (XO (XI (XO (XO XH)))))))))))))))))))))))))))))))) :: ((Npos (XO
    (XO (XI (XI (XI (XO (XO (XO (XI (XO (XO (XO (XO (XO (XO (XO (XO (XO (XO
    (XO (XO (XO (XO (XO (XO (XO (XI (XO (XI (XO (XO
    XH)))))))))))))))))))))))))))))))) :: ((Npos (XI (XI (XI (XI (XO (XI (XI
    (XO (XO (XO (XO (XO (XO (XO (XO (XO (XO (XO (XO (XO (XO (XO (XO (XO (XO
    (XO (XI (XO (XO (XO (XO XH)))))))))))))))))))))))))))))))) :: ((Npos (XI
    (XI (XI (XI (XO (XI (XO (XO (XO (XO (XO (XO (XO (XO (XO (XO (XO (XO (XO
    (XO (XO (XO (XO (XO (XO (XO (XI (XO (XO (XO (XO
    XH)))))))))))))))))))))))))))))))) :: ((Npos (XI (XI (XI (XI (XI (XI (XO
    (XI (XO (XO (XO (XO (XO (XO (XO (XO (XO (XO (XO (XO (XO (XO (XO (XO (XO
    (XO (XI (XO (XI (XO (XO XH)))))))))))))))))))))))))))))))) :: ((Npos (XI
    (XI (XI (XI (XO (XO (XO (XO (XO (XO (XO (XO (XO (XO (XO (XO (XO (XO (XO
    (XO (XO (XO (XO (XO (XO (XO (XI (XO (XO (XO (XO
    XH)))))))))))))))))))))))))))))))) :: ((Npos (XI (XI (XI (XI (XO (XO (XO
    (XI (XO (XO (XO (XO (XO (XO (XO (XO (XO (XO (XO (XO (XO (XO (XO (XO (XO
    (XO (XI (XO (XO (XO (XO XH)))))))))))))))))))))))))))))))) :: ((Npos (XI
    (XI (XI (XI (XO (XO (XI (XO (XO (XO (XO (XO (XO (XO (XO (XO (XO (XO (XO
    (XO (XO (XO (XO (XO (XO (XO (XI (XO (XO (XO (XO
    XH)))))))))))))))))))))))))))))))) :: ((Npos (XI (XI (XI (XI (XI (XI (XI
    (XI (XO (XO (XO (XO (XO (XO (XO (XO (XO (XO (XO (XO (XO (XO (XO (XO (XO
    (XO (XI (XO (XI (XO (XO
    XH)))))))))))))))))))))))))))))))) :: [])))))))))))))))))))))))))))))))))))))))))))))))))))))))))))))))))))))))))))))))))))))))))))))))))))))))))))))))))))))))))))))))))))))))))))))))))))))))))))))))))))))))))))))))))))))))))))))))))))))))))))))))))))))))))))))))))))))))))))))))))))))))))))))))))))))))))))))))))))))))))))))))))))))))))))))))))))))))))))))))))))))))))))))))))))))))))))))))))))))))))))))))))))))))))))))))))))))))))))))))))))))))))))))))))))))))))))))))))))))))))))))))))))))))))))))))))))))))))))))))))))))))))))))))))))))))))))))))))))))))))))))))))))))))))))))))))))))))))))))))))))))))))))))))))))))))))))))))))))))))))))))))))))))))))))))))))))))))))))))))))))))))))))))))))))))))))))))))))))))))))))))))))))))))))))))))))))))))))))))))))))))))))))))))))))))))))))))))))))))))))))))))))))))))))))))))))))))))))))))))))))))))))))))))))))))))))))))))))))))))))))))))))))))))))))))))))))))))))))))))))))))))))))))))))))))))))))))))))))))))))))))))))))))))))))))))))))))))))))))))))))))))))))))))))))))))))))))))))))))))))))))))))))))))))))))))))))))))))))))))))))))))))))))))))))))))))))))))))))))))))))))))))))))))))))))))))))))))))))))))))))))))))))))))))))))))))))))))))))))))))))))))))))))))))))))))))))))))))))))))))))))))))))))))))))))))))))))))))))))))))))))))))))))))))))))))))))))))))))))))))))))))))))))))))))))))))))))))))))))))))))))))))))))))))))))))))))))))))))))))))))))))))))))))))))))))))))))))))))))))))))))))))))))))))))))))))))))))))))))))))))))))))))))))))))))))))))))))))))))))))))))))))))))))))))))))))))))))))))))))))))))))))))))))))))))))))))))))))))))))))))))))))))))))))))))))))))))))))))))))))))))))))))))))))))))))))))))))))))))))))))))))))))))))))))))))))))))))))))))))))))))))))))))))))))))))))))))))))))))))))))))))))))))))))))))))))))))))))))))))))))))))))))))))))))))))))))))))))))))))))))))))))))))))))))))))))))))))))))))))))))))))))))))))))))))))))))))))))))))))))))))))))))))))))))))))))))))))))))))))))))))))))))))))))))))))))))))))))))))))))))))))))))))))))))))))))))))))))))))))))))))))))))))))))))))))))))))))))))))))))))))))))))))))))))))))))))))))))))))))))))))))))))))))))))))))))))))))))))))))))))))))))))))))))))))))))))))))))))))))))))))))))))))))))))))))))))))))))))))))))))))))))))))))))))))))))))))))))))))))))))))))))))))))))))))))))))))))))))))))))))))))))))))))))))))))))))))))))))))))))))))))))))))))))))))))))))))))))))))))))))))))))))))))))))))))))))))))))))))))))))))))))))))))))))))))))))))))))))))))))))))))))))))))))))))))))))))))))))))))))))))))))))))))))))))))))))))))))))))))))))))))))))))))))))))))))))))))))))))))))))))))))))))))))))))))))))))))))))))))))))))))))))))))))))))))))))))))))))))))))))))))))))))))))))))))))))))))))))))))))))))))))))))))))))))))))))))))))))))))))))))))))))))))))))))))))))))))))))))))))))))))))))))))))))))))))))))))))))))))))))))))))))))))))))))))))))))))))))))))))))))))))))))))))))))))))))))))))))))))))))))))))))))))))))))))))))))))))))))))))))))))))))))))))))))))))))))))))))))))))))))))))))))))))))))))))))))))))))))))))))))))))))))))))))))))))))))))))))))))))))))))))))))))))))))))))))))))))))))))))))))))))))))))))))))))))))))))))))))))))))))))))))))))))))))))))))))))))))))))))))))))))))))))))))))))))))))))))))))))))))))))))))))))))))))))))))))))))))))))))))))))))))))))))))))))))))))))))))))))))))))))))))))))))))))))))))))))))))))))))))))))))))))))))))))))))))))))))))))))))))))))))))))))))))))))))))))))))))))))))))))))))))))))))))))))))))))))))))))))))))))))))))))))))))))))))))))))))))))))))))))))))))))))))))))))))))))))))))))))))))))))))))))))))))))))))))))))))))))))))))))))))))))))))))))))))))))))))))))))))))))))))))))))))))))))))))))))))))))))))))))))))))))))))))))))))))))))))))))))))))))))))))))))))))))))))))))))))))))))))))))))))))))))))))))))))))))))))))))))))))))))))))))))))))))))))))))))))))))))))))))))))))))))))))))))))))))))))))))))))))))))))))))))))))))))))))))))))))))))))))))))))))))))))))))))))))))))))))))))))))))))))))))))))))))))))))))))))))))))))))))))))))))))))))))))))))))))))))))))))))))))))))))))))))))))))))))))))))))))))))))))))))))))))))))))))))))))))))))))))))))))))))))))

(** val static_lit_long_l : n list **)

let static_lit_long_l =
  (Npos (XI (XO (XO (XO (XO (XO (XO (XI (XI (XO (XI (XO (XI
    XH)))))))))))))) :: ((Npos (XI (XO (XO (XO (XI (XO (XO (XI (XI (XO (XI
    (XO (XI XH)))))))))))))) :: ((Npos (XO (XI (XO (XO (XO (XO (XO (XI (XI
    (XO (XI (XO (XI XH)))))))))))))) :: ((Npos (XO (XI (XO (XO (XI (XO (XO
    (XI (XI (XO (XI (XO (XI XH)))))))))))))) :: ((Npos (XI (XI (XO (XO (XO
    (XO (XO (XI (XI (XO (XI (XO (XI XH)))))))))))))) :: ((Npos (XI (XI (XO
    (XO (XI (XO (XO (XI (XI (XO (XI (XO (XI XH)))))))))))))) :: ((Npos (XO
    (XO (XI (XO (XO (XO (XO (XI (XI (XO (XI (XO (XI
    XH)))))))))))))) :: ((Npos (XO (XO (XI (XO (XI (XO (XO (XI (XI (XO (XI
    (XO (XI XH)))))))))))))) :: ((Npos (XI (XO (XI (XO (XO (XO (XO (XI (XI
    (XO (XI (XO (XI XH)))))))))))))) :: ((Npos (XI (XO (XI (XO (XI (XO (XO
    (XI (XI (XO (XI (XO (XI XH)))))))))))))) :: ((Npos (XO (XI (XI (XO (XO
    (XO (XO (XI (XI (XO (XI (XO (XI XH)))))))))))))) :: ((Npos (XO (XI (XI
    (XO (XI (XO (XO (XI (XI (XO (XI (XO (XI XH)))))))))))))) :: ((Npos (XI
    (XI (XI (XO (XO (XO (XO (XI (XI (XO (XI (XO (XI
    XH)))))))))))))) :: ((Npos (XI (XI (XI (XO (XI (XO (XO (XI (XI (XO (XI
    (XO (XI XH)))))))))))))) :: ((Npos (XO (XO (XO (XI (XO (XO (XO (XI (XI
    (XO (XI (XO (XI XH)))))))))))))) :: ((Npos (XO (XO (XO (XI (XI (XO (XO
    (XI (XI (XO (XI (XO (XI XH)))))))))))))) :: ((Npos (XI (XO (XO (XI (XO
    (XO (XO (XI (XI (XO (XI (XO (XI XH)))))))))))))) :: ((Npos (XI (XO (XO
    (XI (XI (XO (XO (XI (XI (XO (XI (XO (XI XH)))))))))))))) :: ((Npos (XO
    (XI (XO (XI (XO (XO (XO (XI (XI (XO (XI (XO (XI
    XH)))))))))))))) :: ((Npos (XO (XI (XO (XI (XI (XO (XO (XI (XI (XO (XI
    (XO (XI XH)))))))))))))) :: ((Npos (XI (XI (XO (XI (XO (XO (XO (XI (XI
    (XO (XI (XO (XI XH)))))))))))))) :: ((Npos (XI (XI (XO (XI (XI (XO (XO
    (XI (XI (XO (XI (XO (XI XH)))))))))))))) :: ((Npos (XO (XO (XI (XI (XO
    (XO (XO (XI (XI (XO (XI (XO (XI XH)))))))))))))) :: ((Npos (XO (XO (XI
    (XI (XI (XO (XO (XI (XI (XO (XI (XO (XI XH)))))))))))))) :: ((Npos (XI
    (XO (XI (XI (XO (XO (XO (XI (XI (XO (XI (XO (XI
    XH)))))))))))))) :: ((Npos (XI (XO (XI (XI (XI (XO (XO (XI (XI (XO (XI
    (XO (XI XH)))))))))))))) :: ((Npos (XO (XI (XI (XI (XO (XO (XO (XI (XI
    (XO (XI (XO (XI XH)))))))))))))) :: ((Npos (XO (XI (XI (XI (XI (XO (XO
    (XI (XI (XO (XI (XO (XI XH)))))))))))))) :: ((Npos (XI (XI (XI (XI (XO
    (XO (XO (XI (XI (XO (XI (XO (XI XH)))))))))))))) :: ((Npos (XI (XI (XI
    (XI (XI (XO (XO (XI (XI (XO (XI (XO (XI XH)))))))))))))) :: ((Npos (XO
    (XO (XO (XO (XI (XO (XO (XI (XI (XO (XI (XO (XI
    XH)))))))))))))) :: ((Npos (XO (XO (XO (XO (XO (XI (XO (XI (XI (XO (XI
    (XO (XI XH)))))))))))))) :: ((Npos (XI (XO (XO (XO (XO (XI (XO (XI (XI
    (XO (XI (XO (XI XH)))))))))))))) :: ((Npos (XI (XO (XO (XO (XI (XI (XO
    (XI (XI (XO (XI (XO (XI XH)))))))))))))) :: ((Npos (XO (XI (XO (XO (XO
    (XI (XO (XI (XI (XO (XI (XO (XI XH)))))))))))))) :: ((Npos (XO (XI (XO
    (XO (XI (XI (XO (XI (XI (XO (XI (XO (XI XH)))))))))))))) :: ((Npos (XI
    (XI (XO (XO (XO (XI (XO (XI (XI (XO (XI (XO (XI
    XH)))))))))))))) :: ((Npos (XI (XI (XO (XO (XI (XI (XO (XI (XI (XO (XI
    (XO (XI XH)))))))))))))) :: ((Npos (XO (XO (XI (XO (XO (XI (XO (XI (XI
    (XO (XI (XO (XI XH)))))))))))))) :: ((Npos (XO (XO (XI (XO (XI (XI (XO
    (XI (XI (XO (XI (XO (XI XH)))))))))))))) :: ((Npos (XI (XO (XI (XO (XO
    (XI (XO (XI (XI (XO (XI (XO (XI XH)))))))))))))) :: ((Npos (XI (XO (XI
    (XO (XI (XI (XO (XI (XI (XO (XI (XO (XI XH)))))))))))))) :: ((Npos (XO
    (XI (XI (XO (XO (XI (XO (XI (XI (XO (XI (XO (XI
    XH)))))))))))))) :: ((Npos (XO (XI (XI (XO (XI (XI (XO (XI (XI (XO (XI
    (XO (XI XH)))))))))))))) :: ((Npos (XI (XI (XI (XO (XO (XI (XO (XI (XI
    (XO (XI (XO (XI XH)))))))))))))) :: ((Npos (XI (XI (XI (XO (XI (XI (XO
    (XI (XI (XO (XI (XO (XI XH)))))))))))))) :: ((Npos (XO (XO (XO (XI (XO
    (XI (XO (XI (XI (XO (XI (XO (XI XH)))))))))))))) :: ((Npos (XO (XO (XO
    (XI (XI (XI (XO (XI (XI (XO (XI (XO (XI XH)))))))))))))) :: ((Npos (XI
    (XO (XO (XI (XO (XI (XO (XI (XI (XO (XI (XO (XI
    XH)))))))))))))) :: ((Npos (XI (XO (XO (XI (XI (XI (XO (XI (XI (XO (XI
    (XO (XI XH)))))))))))))) :: ((Npos (XO (XI (XO (XI (XO (XI (XO (XI (XI
    (XO (XI (XO (XI XH)))))))))))))) :: ((Npos (XO (XI (XO (XI (XI (XI (XO
    (XI (XI (XO (XI (XO (XI XH)))))))))))))) :: ((Npos (XI (XI (XO (XI (XO
    (XI (XO (XI (XI (XO (XI (XO (XI XH)))))))))))))) :: ((Npos (XI (XI (XO
    (XI (XI (XI (XO (XI (XI (XO (XI (XO (XI XH)))))))))))))) :: ((Npos (XO
    (XO (XI (XI (XO (XI (XO (XI (XI (XO (XI (XO (XI
    XH)))))))))))))) :: ((Npos (XO (XO (XI (XI (XI (XI (XO (XI (XI (XO (XI
    (XO (XI XH)))))))))))))) :: ((Npos (XI (XO (XI (XI (XO (XI (XO (XI (XI
    (XO (XI (XO (XI XH)))))))))))))) :: ((Npos (XI (XO (XI (XI (XI (XI (XO
    (XI (XI (XO (XI (XO (XI XH)))))))))))))) :: ((Npos (XO (XI (XI (XI (XO
    (XI (XO (XI (XI (XO (XI (XO (XI XH)))))))))))))) :: ((Npos (XO (XI (XI
    (XI (XI (XI (XO (XI (XI (XO (XI (XO (XI XH)))))))))))))) :: ((Npos (XI
    (XI (XI (XI (XO (XI (XO (XI (XI (XO (XI (XO (XI
    XH)))))))))))))) :: ((Npos (XI (XI (XI (XI (XI (XI (XO (XI (XI (XO (XI
    (XO (XI XH)))))))))))))) :: ((Npos (XO (XO (XO (XO (XI (XI (XO (XI (XI
    (XO (XI (XO (XI XH)))))))))))))) :: ((Npos (XO (XO (XO (XO (XO (XO (XI
    (XI (XI (XO (XI (XO (XI XH)))))))))))))) :: ((Npos (XI (XO (XO (XO (XO
    (XO (XI (XI (XI (XO (XI (XO (XI XH)))))))))))))) :: ((Npos (XI (XO (XO
    (XO (XI (XO (XI (XI (XI (XO (XI (XO (XI XH)))))))))))))) :: ((Npos (XO
    (XI (XO (XO (XO (XO (XI (XI (XI (XO (XI (XO (XI
    XH)))))))))))))) :: ((Npos (XO (XI (XO (XO (XI (XO (XI (XI (XI (XO (XI
    (XO (XI XH)))))))))))))) :: ((Npos (XI (XI (XO (XO (XO (XO (XI (XI (XI
    (XO (XI (XO (XI XH)))))))))))))) :: ((Npos (XI (XI (XO (XO (XI (XO (XI
    (XI (XI (XO (XI (XO (XI XH)))))))))))))) :: ((Npos (XO (XO (XI (XO (XO
    (XO (XI (XI (XI (XO (XI (XO (XI XH)))))))))))))) :: ((Npos (XO (XO (XI
    (XO (XI (XO (XI (XI (XI (XO (XI (XO (XI XH)))))))))))))) :: ((Npos (XI
    (XO (XI (XO (XO (XO (XI (XI (XI (XO (XI (XO (XI
    XH)))))))))))))) :: ((Npos (XI (XO (XI (XO (XI (XO (XI (XI (XI (XO (XI
    (XO (XI XH)))))))))))))) :: ((Npos (XO (XI (XI (XO (XO (XO (XI (XI (XI
    (XO (XI (XO (XI XH)))))))))))))) :: ((Npos (XO (XI (XI (XO (XI (XO (XI
    (XI (XI (XO (XI (XO (XI XH)))))))))))))) :: ((Npos (XI (XI (XI (XO (XO
    (XO (XI (XI (XI (XO (XI (XO (XI XH)))))))))))))) :: ((Npos (XI (XI (XI
    (XO (XI (XO (XI (XI (XI (XO (XI (XO (XI XH)))))))))))))) :: ((Npos (XO
    (XO (XO (XI (XO (XO (XI (XI (XI (XO (XI (XO (XI
    XH)))))))))))))) :: ((Npos (XO (XO (XO (XI (XI (XO (XI (XI (XI (XO (XI
    (XO (XI XH)))))))))))))) :: ((Npos (XI (XO (XO (XI (XO (XO (XI (XI (XI
    (XO (XI (XO (XI XH)))))))))))))) :: ((Npos (XI (XO (XO (XI (XI (XO (XI
    (XI (XI (XO (XI (XO (XI XH)))))))))))))) :: ((Npos (XO (XI (XO (XI (XO
    (XO (XI (XI (XI (XO (XI (XO (XI XH)))))))))))))) :: ((Npos (XO (XI (XO
    (XI (XI (XO (XI (XI (XI (XO (XI (XO (XI XH)))))))))))))) :: ((Npos (XI
    (XI (XO (XI (XO (XO (XI (XI (XI (XO (XI (XO (XI
    XH)))))))))))))) :: ((Npos (XI (XI (XO (XI (XI (XO (XI (XI (XI (XO (XI
    (XO (XI XH)))))))))))))) :: ((Npos (XO (XO (XI (XI (XO (XO (XI (XI (XI
    (XO (XI (XO (XI XH)))))))))))))) :: ((Npos (XO (XO (XI (XI (XI (XO (XI
    (XI (XI (XO (XI (XO (XI XH)))))))))))))) :: ((Npos (XI (XO (XI (XI (XO
    (XO (XI (XI (XI (XO (XI (XO (XI XH)))))))))))))) :: ((Npos (XI (XO (XI
    (XI (XI (XO (XI (XI (XI (XO (XI (XO (XI XH)))))))))))))) :: ((Npos (XO
    (XI (XI (XI (XO (XO (XI (XI (XI (XO (XI (XO (XI
    XH)))))))))))))) :: ((Npos (XO (XI (XI (XI (XI (XO (XI (XI (XI (XO (XI
    (XO (XI XH)))))))))))))) :: ((Npos (XI (XI (XI (XI (XO (XO (XI (XI (XI
    (XO (XI (XO (XI XH)))))))))))))) :: ((Npos (XI (XI (XI (XI (XI (XO (XI
    (XI (XI (XO (XI (XO (XI XH)))))))))))))) :: ((Npos (XO (XO (XO (XO (XI
    (XO (XI (XI (XI (XO (XI (XO (XI XH)))))))))))))) :: ((Npos (XO (XO (XO
    (XO (XO (XI (XI (XI (XI (XO (XI (XO (XI XH)))))))))))))) :: ((Npos (XI
    (XO (XO (XO (XO (XI (XI (XI (XI (XO (XI (XO (XI
    XH)))))))))))))) :: ((Npos (XI (XO (XO (XO (XI (XI (XI (XI (XI (XO (XI
    (XO (XI XH)))))))))))))) :: ((Npos (XO (XI (XO (XO (XO (XI (XI (XI (XI
    (XO (XI (XO (XI XH)))))))))))))) :: ((Npos (XO (XI (XO (XO (XI (XI (XI
    (XI (XI (XO (XI (XO (XI XH)))))))))))))) :: ((Npos (XI (XI (XO (XO (XO
    (XI (XI (XI (XI (XO (XI (XO (XI XH)))))))))))))) :: ((Npos (XI (XI (XO
    (XO (XI (XI (XI (XI (XI (XO (XI (XO (XI XH)))))))))))))) :: ((Npos (XO
    (XO (XI (XO (XO (XI (XI (XI (XI (XO (XI (XO (XI
    XH)))))))))))))) :: ((Npos (XO (XO (XI (XO (XI (XI (XI (XI (XI (XO (XI
    (XO (XI XH)))))))))))))) :: ((Npos (XI (XO (XI (XO (XO (XI (XI (XI (XI
    (XO (XI (XO (XI XH)))))))))))))) :: ((Npos (XI (XO (XI (XO (XI (XI (XI
    (XI (XI (XO (XI (XO (XI XH)))))))))))))) :: ((Npos (XO (XI (XI (XO (XO
    (XI (XI (XI (XI (XO (XI (XO (XI XH)))))))))))))) :: ((Npos (XO (XI (XI
    (XO (XI (XI (XI (XI (XI (XO (XI (XO (XI XH)))))))))))))) :: ((Npos (XI
    (XI (XI (XO (XO (XI (XI (XI (XI (XO (XI (XO (XI
    XH)))))))))))))) :: ((Npos (XI (XI (XI (XO (XI (XI (XI (XI (XI (XO (XI
    (XO (XI XH)))))))))))))) :: ((Npos (XO (XO (XO (XI (XO (XI (XI (XI (XI
    (XO (XI (XO (XI XH)))))))))))))) :: ((Npos (XO (XO (XO (XI (XI (XI (XI
    (XI (XI (XO (XI (XO (XI XH)))))))))))))) :: ((Npos (XI (XO (XO (XI (XO
    (XI (XI (XI (XI (XO (XI (XO (XI XH)))))))))))))) :: ((Npos (XI (XO (XO
    (XI (XI (XI (XI (XI (XI (XO (XI (XO (XI XH)))))))))))))) :: ((Npos (XO
    (XI (XO (XI (XO (XI (XI (XI (XI (XO (XI (XO (XI
    XH)))))))))))))) :: ((Npos (XO (XI (XO (XI (XI (XI (XI (XI (XI (XO (XI
    (XO (XI XH)))))))))))))) :: ((Npos (XI (XI (XO (XI (XO (XI (XI (XI (XI
    (XO (XI (XO (XI XH)))))))))))))) :: ((Npos (XI (XI (XO (XI (XI (XI (XI
    (XI (XI (XO (XI (XO (XI XH)))))))))))))) :: ((Npos (XO (XO (XI (XI (XO
    (XI (XI (XI (XI (XO (XI (XO (XI XH)))))))))))))) :: ((Npos (XO (XO (XI
    (XI (XI (XI (XI (XI (XI (XO (XI (XO (XI XH)))))))))))))) :: ((Npos (XI
    (XO (XI (XI (XO (XI (XI (XI (XI (XO (XI (XO (XI
    XH)))))))))))))) :: ((Npos (XI (XO (XI (XI (XI (XI (XI (XI (XI (XO (XI
    (XO (XI XH)))))))))))))) :: ((Npos (XO (XI (XI (XI (XO (XI (XI (XI (XI
    (XO (XI (XO (XI XH)))))))))))))) :: ((Npos (XO (XI (XI (XI (XI (XI (XI
    (XI (XI (XO (XI (XO (XI XH)))))))))))))) :: ((Npos (XI (XI (XI (XI (XO
    (XI (XI (XI (XI (XO (XI (XO (XI XH)))))))))))))) :: ((Npos (XI (XI (XI
    (XI (XI (XI (XI (XI (XI (XO (XI (XO (XI XH)))))))))))))) :: ((Npos (XO
    (XO (XO (XO (XI (XI (XI (XI (XI (XO (XI (XO (XI
    XH)))))))))))))) :: ((Npos (XO (XO (XO (XO (XO (XO (XO (XO (XO (XI (XI
    (XO (XI
    XH)))))))))))))) :: (N0 :: (N0 :: (N0 :: (N0 :: (N0 :: (N0 :: (N0 :: (N0 :: (N0 :: (N0 :: (N0 :: (N0 :: (N0 :: (N0 :: (N0 :: (N0 :: (N0 :: (N0 :: (N0 :: (N0 :: (N0 :: (N0 :: (N0 :: (N0 :: (N0 :: (N0 :: (N0 :: (N0 :: (N0 :: (N0 :: (N0 :: (N0 :: (N0 :: (N0 :: (N0 :: (N0 :: (N0 :: (N0 :: (N0 :: (N0 :: (N0 :: (N0 :: (N0 :: (N0 :: (N0 :: (N0 :: (N0 :: (N0 :: (N0 :: (N0 :: (N0 :: (N0 :: (N0 :: (N0 :: (N0 :: (N0 :: (N0 :: (N0 :: (N0 :: (N0 :: (N0 :: (N0 :: (N0 :: (N0 :: (N0 :: (N0 :: (N0 :: (N0 :: (N0 :: (N0 :: (N0 :: (N0 :: (N0 :: (N0 :: (N0 :: (N0 :: (N0 :: (N0 :: (N0 :: (N0 :: (N0 :: (N0 :: (N0 :: (N0 :: (N0 :: (N0 :: (N0 :: (N0 :: (N0 :: (N0 :: (N0 :: (N0 :: (N0 :: (N0 :: (N0 :: (N0 :: (N0 :: (N0 :: (N0 :: (N0 :: (N0 :: (N0 :: (N0 :: (N0 :: (N0 :: (N0 :: (N0 :: (N0 :: (N0 :: (N0 :: (N0 :: (N0 :: (N0 :: (N0 :: (N0 :: (N0 :: (N0 :: (N0 :: (N0 :: (N0 :: (N0 :: (N0 :: (N0 :: (N0 :: (N0 :: (N0 :: (N0 :: (N0 :: (N0 :: (N0 :: (N0 :: (N0 :: (N0 :: (N0 :: (N0 :: (N0 :: (N0 :: (N0 :: (N0 :: (N0 :: (N0 :: (N0 :: (N0 :: (N0 :: (N0 :: (N0 :: (N0 :: (N0 :: (N0 :: (N0 :: (N0 :: (N0 :: (N0 :: (N0 :: (N0 :: (N0 :: (N0 :: (N0 :: (N0 :: (N0 :: (N0 :: (N0 :: (N0 :: (N0 :: (N0 :: (N0 :: (N0 :: (N0 :: (N0 :: (N0 :: (N0 :: (N0 :: (N0 :: (N0 :: (N0 :: (N0 :: (N0 :: (N0 :: (N0 :: (N0 :: (N0 :: (N0 :: (N0 :: (N0 :: (N0 :: (N0 :: (N0 :: (N0 :: (N0 :: (N0 :: (N0 :: (N0 :: (N0 :: (N0 :: (N0 :: (N0 :: (N0 :: (N0 :: (N0 :: (N0 :: (N0 :: (N0 :: (N0 :: (N0 :: (N0 :: (N0 :: (N0 :: (N0 :: (N0 :: (N0 :: (N0 :: (N0 :: (N0 :: (N0 :: (N0 :: (N0 :: (N0 :: (N0 :: (N0 :: (N0 :: (N0 :: (N0 :: (N0 :: (N0 :: (N0 :: (N0 :: (N0 :: (N0 :: (N0 :: (N0 :: (N0 :: (N0 :: (N0 :: (N0 :: (N0 :: (N0 :: (N0 :: (N0 :: (N0 :: (N0 :: (N0 :: (N0 :: (N0 :: (N0 :: (N0 :: (N0 :: (N0 :: (N0 :: (N0 :: (N0 :: (N0 :: (N0 :: (N0 :: (N0 :: (N0 :: (N0 :: (N0 :: (N0 :: (N0 :: (N0 :: (N0 :: (N0 :: (N0 :: (N0 :: (N0 :: (N0 :: (N0 :: (N0 :: (N0 :: (N0 :: (N0 :: (N0 :: (N0 :: (N0 :: (N0 :: (N0 :: (N0 :: (N0 :: (N0 :: (N0 :: (N0 :: (N0 :: (N0 :: (N0 :: (N0 :: (N0 :: (N0 :: (N0 :: (N0 :: (N0 :: (N0 :: (N0 :: (N0 :: (N0 :: (N0 :: (N0 :: (N0 :: (N0 :: (N0 :: (N0 :: (N0 :: (N0 :: (N0 :: (N0 :: (N0 :: (N0 :: (N0 :: (N0 :: (N0 :: (N0 :: (N0 :: (N0 :: (N0 :: (N0 :: (N0 :: (N0 :: (N0 :: (N0 :: (N0 :: (N0 :: (N0 :: (N0 :: (N0 :: (N0 :: (N0 :: (N0 :: (N0 :: (N0 :: (N0 :: (N0 :: (N0 :: (N0 :: (N0 :: (N0 :: (N0 :: (N0 :: (N0 :: (N0 :: (N0 :: (N0 :: (N0 :: (N0 :: (N0 :: (N0 :: (N0 :: (N0 :: (N0 :: (N0 :: (N0 :: (N0 :: (N0 :: (N0 :: (N0 :: (N0 :: (N0 :: (N0 :: (N0 :: (N0 :: (N0 :: (N0 :: (N0 :: (N0 :: (N0 :: (N0 :: (N0 :: (N0 :: (N0 :: (N0 :: (N0 :: (N0 :: (N0 :: (N0 :: (N0 :: (N0 :: (N0 :: (N0 :: (N0 :: (N0 :: (N0 :: (N0 :: (N0 :: (N0 :: (N0 :: (N0 :: (N0 :: (N0 :: (N0 :: (N0 :: (N0 :: (N0 :: (N0 :: (N0 :: (N0 :: (N0 :: (N0 :: (N0 :: (N0 :: (N0 :: (N0 :: (N0 :: (N0 :: (N0 :: (N0 :: (N0 :: (N0 :: (N0 :: (N0 :: (N0 :: (N0 :: (N0 :: (N0 :: (N0 :: (N0 :: (N0 :: (N0 :: (N0 :: (N0 :: (N0 :: (N0 :: (N0 :: (N0 :: (N0 :: (N0 :: (N0 :: (N0 :: (N0 :: (N0 :: (N0 :: (N0 :: (N0 :: (N0 :: (N0 :: (N0 :: (N0 :: (N0 :: (N0 :: (N0 :: (N0 :: (N0 :: (N0 :: (N0 :: (N0 :: (N0 :: (N0 :: (N0 :: (N0 :: (N0 :: (N0 :: (N0 :: (N0 :: (N0 :: (N0 :: (N0 :: (N0 :: (N0 :: (N0 :: (N0 :: (N0 :: (N0 :: (N0 :: (N0 :: (N0 :: (N0 :: (N0 :: (N0 :: (N0 :: (N0 :: (N0 :: (N0 :: (N0 :: (N0 :: (N0 :: (N0 :: (N0 :: (N0 :: (N0 :: (N0 :: (N0 :: (N0 :: (N0 :: (N0 :: (N0 :: (N0 :: (N0 :: (N0 :: (N0 :: (N0 :: (N0 :: (N0 :: (N0 :: (N0 :: (N0 :: (N0 :: (N0 :: (N0 :: (N0 :: (N0 :: (N0 :: (N0 :: (N0 :: (N0 :: (N0 :: (N0 :: (N0 :: (N0 :: (N0 :: (N0 :: (N0 :: (N0 :: (N0 :: (N0 :: (N0 :: (N0 :: (N0 :: (N0 :: (N0 :: (N0 :: (N0 :: (N0 :: (N0 :: (N0 :: (N0 :: (N0 :: (N0 :: (N0 :: (N0 :: (N0 :: (N0 :: (N0 :: (N0 :: (N0 :: (N0 :: (N0 :: (N0 :: (N0 :: (N0 :: (N0 :: (N0 :: (N0 :: (N0 :: (N0 :: (N0 :: (N0 :: (N0 :: (N0 :: (N0 :: (N0 :: (N0 :: (N0 :: (N0 :: (N0 :: (N0 :: (N0 :: (N0 :: (N0 :: (N0 :: (N0 :: (N0 :: (N0 :: (N0 :: (N0 :: (N0 :: (N0 :: (N0 :: (N0 :: (N0 :: (N0 :: (N0 :: (N0 :: (N0 :: (N0 :: (N0 :: (N0 :: (N0 :: (N0 :: (N0 :: (N0 :: (N0 :: (N0 :: (N0 :: (N0 :: (N0 :: (N0 :: (N0 :: (N0 :: (N0 :: (N0 :: (N0 :: (N0 :: (N0 :: (N0 :: (N0 :: (N0 :: (N0 :: (N0 :: (N0 :: (N0 :: (N0 :: (N0 :: (N0 :: (N0 :: (N0 :: (N0 :: (N0 :: (N0 :: (N0 :: (N0 :: (N0 :: (N0 :: (N0 :: (N0 :: (N0 :: (N0 :: (N0 :: (N0 :: (N0 :: (N0 :: (N0 :: (N0 :: (N0 :: (N0 :: (N0 :: (N0 :: (N0 :: (N0 :: (N0 :: (N0 :: (N0 :: (N0 :: (N0 :: (N0 :: (N0 :: (N0 :: (N0 :: (N0 :: (N0 :: (N0 :: (N0 :: (N0 :: (N0 :: (N0 :: (N0 :: (N0 :: (N0 :: (N0 :: (N0 :: (N0 :: (N0 :: (N0 :: (N0 :: (N0 :: (N0 :: (N0 :: (N0 :: (N0 :: (N0 :: (N0 :: (N0 :: (N0 :: (N0 :: (N0 :: (N0 :: (N0 :: (N0 :: (N0 :: (N0 :: (N0 :: (N0 :: (N0 :: (N0 :: (N0 :: (N0 :: (N0 :: (N0 :: (N0 :: (N0 :: (N0 :: (N0 :: (N0 :: (N0 :: (N0 :: (N0 :: (N0 :: (N0 :: (N0 :: (N0 :: (N0 :: (N0 :: (N0 :: (N0 :: (N0 :: (N0 :: (N0 :: (N0 :: (N0 :: (N0 :: (N0 :: (N0 :: (N0 :: (N0 :: (N0 :: (N0 :: (N0 :: (N0 :: (N0 :: (N0 :: (N0 :: (N0 :: (N0 :: (N0 :: (N0 :: (N0 :: (N0 :: (N0 :: (N0 :: (N0 :: (N0 :: (N0 :: (N0 :: (N0 :: (N0 :: (N0 :: (N0 :: (N0 :: (N0 :: (N0 :: (N0 :: (N0 :: (N0 :: (N0 :: (N0 :: (N0 :: (N0 :: (N0 :: (N0 :: (N0 :: (N0 :: (N0 :: (N0 :: (N0 :: (N0 :: (N0 :: (N0 :: (N0 :: (N0 :: (N0 :: (N0 :: (N0 :: (N0 :: (N0 :: (N0 :: (N0 :: (N0 :: (N0 :: (N0 :: (N0 :: (N0 :: (N0 :: (N0 :: (N0 :: (N0 :: (N0 :: (N0 :: (N0 :: (N0 :: (N0 :: (N0 :: (N0 :: (N0 :: (N0 :: (N0 :: (N0 :: (N0 :: (N0 :: (N0 :: (N0 :: (N0 :: (N0 :: (N0 :: (N0 :: (N0 :: (N0 :: (N0 :: (N0 :: (N0 :: (N0 :: (N0 :: (N0 :: (N0 :: (N0 :: (N0 :: (N0 :: (N0 :: (N0 :: (N0 :: (N0 :: (N0 :: (N0 :: (N0 :: (N0 :: (N0 :: (N0 :: (N0 :: (N0 :: (N0 :: (N0 :: (N0 :: (N0 :: (N0 :: (N0 :: (N0 :: (N0 :: (N0 :: (N0 :: (N0 :: (N0 :: (N0 :: (N0 :: (N0 :: (N0 :: (N0 :: (N0 :: (N0 :: (N0 :: (N0 :: (N0 :: (N0 :: (N0 :: (N0 :: (N0 :: (N0 :: (N0 :: (N0 :: (N0 :: (N0 :: (N0 :: (N0 :: (N0 :: (N0 :: (N0 :: (N0 :: (N0 :: (N0 :: (N0 :: (N0 :: (N0 :: (N0 :: (N0 :: (N0 :: (N0 :: (N0 :: (N0 :: (N0 :: (N0 :: (N0 :: (N0 :: (N0 :: (N0 :: (N0 :: (N0 :: (N0 :: (N0 :: (N0 :: (N0 :: (N0 :: (N0 :: (N0 :: (N0 :: (N0 :: (N0 :: (N0 :: (N0 :: (N0 :: (N0 :: (N0 :: (N0 :: (N0 :: (N0 :: (N0 :: (N0 :: (N0 :: (N0 :: (N0 :: (N0 :: (N0 :: (N0 :: (N0 :: (N0 :: (N0 :: (N0 :: (N0 :: (N0 :: (N0 :: (N0 :: (N0 :: (N0 :: (N0 :: (N0 :: (N0 :: (N0 :: (N0 :: (N0 :: (N0 :: (N0 :: (N0 :: (N0 :: (N0 :: (N0 :: (N0 :: (N0 :: (N0 :: (N0 :: (N0 :: (N0 :: (N0 :: (N0 :: (N0 :: (N0 :: (N0 :: (N0 :: (N0 :: (N0 :: (N0 :: (N0 :: (N0 :: (N0 :: (N0 :: (N0 :: (N0 :: (N0 :: (N0 :: (N0 :: (N0 :: (N0 :: (N0 :: (N0 :: (N0 :: (N0 :: (N0 :: (N0 :: (N0 :: (N0 :: (N0 :: (N0 :: (N0 :: (N0 :: (N0 :: (N0 :: (N0 :: (N0 :: (N0 :: (N0 :: (N0 :: (N0 :: (N0 :: (N0 :: (N0 :: (N0 :: (N0 :: (N0 :: (N0 :: (N0 :: (N0 :: (N0 :: (N0 :: (N0 :: (N0 :: (N0 :: (N0 :: (N0 :: (N0 :: (N0 :: (N0 :: (N0 :: (N0 :: (N0 :: (N0 :: (N0 :: (N0 :: (N0 :: (N0 :: (N0 :: (N0 :: (N0 :: (N0 :: (N0 :: (N0 :: (N0 :: (N0 :: (N0 :: (N0 :: (N0 :: (N0 :: (N0 :: (N0 :: (N0 :: (N0 :: (N0 :: (N0 :: (N0 :: (N0 :: (N0 :: (N0 :: (N0 :: (N0 :: (N0 :: (N0 :: (N0 :: (N0 :: (N0 :: (N0 :: (N0 :: (N0 :: (N0 :: (N0 :: (N0 :: (N0 :: (N0 :: (N0 :: (N0 :: (N0 :: (N0 :: (N0 :: (N0 :: (N0 :: (N0 :: (N0 :: (N0 :: (N0 :: (N0 :: (N0 :: (N0 :: (N0 :: (N0 :: (N0 :: (N0 :: (N0 :: (N0 :: (N0 :: (N0 :: (N0 :: (N0 :: (N0 :: (N0 :: (N0 :: (N0 :: (N0 :: (N0 :: (N0 :: (N0 :: (N0 :: (N0 :: (N0 :: (N0 :: (N0 :: (N0 :: (N0 :: (N0 :: (N0 :: (N0 :: (N0 :: (N0 :: (N0 :: (N0 :: (N0 :: (N0 :: (N0 :: (N0 :: (N0 :: (N0 :: (N0 :: (N0 :: (N0 :: (N0 :: (N0 :: (N0 :: (N0 :: (N0 :: (N0 :: (N0 :: (N0 :: (N0 :: (N0 :: (N0 :: (N0 :: (N0 :: (N0 :: (N0 :: (N0 :: (N0 :: (N0 :: (N0 :: (N0 :: (N0 :: (N0 :: (N0 :: (N0 :: (N0 :: (N0 :: (N0 :: (N0 :: (N0 :: (N0 :: (N0 :: (N0 :: (N0 :: (N0 :: (N0 :: (N0 :: (N0 :: (N0 :: (N0 :: (N0 :: (N0 :: (N0 :: (N0 :: (N0 :: (N0 :: (N0 :: (N0 :: (N0 :: (N0 :: (N0 :: (N0 :: (N0 :: (N0 :: (N0 :: (N0 :: (N0 :: (N0 :: (N0 :: (N0 :: (N0 :: (N0 :: (N0 :: (N0 :: [])))))))))))))))))))))))))))))))))))))))))))))))))))))))))))))))))))))))))))))))))))))))))))))))))))))))))))))))))))))))))))))))))))))))))))))))))))))))))))))))))))))))))))))))))))))))))))))))))))))))))))))))))))))))))))))))))))))))))))))))))))))))))))))))))))))))))))))))))))))))))))))))))))))))))))))))))))))))))))))))))))))))))))))))))))))))))))))))))))))))))))))))))))))))))))))))))))))))))))))))))))))))))))))))))))))))))))))))))))))))))))))))))))))))))))))))))))))))))))))))))))))))))))))))))))))))))))))))))))))))))))))))))))))))))))))))))))))))))))))))))))))))))))))))))))))))))))))))))))))))))))))))))))))))))))))))))))))))))))))))))))))))))))))))))))))))))))))))))))))))))))))))))))))))))))))))))))))))))))))))))))))))))))))))))))))))))))))))))))))))))))))))))))))))))))))))))))))))))))))))))))))))))))))))))))))))))))))))))))))))))))))))))))))))))))))))))))))))))))))))))))))))))))))))))))))))))))))))))))))))))))))))))))))))))))))))))))))))))))))))))))))))))))))))))))))))))))))))))))))))))))))))))))))))))))))))))))))))))))))))))))))))))))))))))))))))))))))))))))))))))))))))))))))))))))))))))))))))))))))))))))))))))))))))))))))))))))))))))))))))))))))))))))))))))))))))))))))))))))))))))))))))))))))))))))))))))))))))))))))))))))))))))))))))))))))))

(** val static_dist_short_l : n list **)

let static_dist_short_l =
  (Npos (XO (XO (XO (XO (XO (XO (XO (XO (XO (XO (XO (XI (XO
    XH)))))))))))))) :: ((Npos (XO (XO (XO (XO (XI (XI (XI (XI (XO (XO (XO
    (XI (XO XH)))))))))))))) :: ((Npos (XO (XO (XO (XI (XO (XI (XI (XO (XO
    (XO (XO (XI (XO XH)))))))))))))) :: ((Npos (XO (XO (XO (XI (XI (XI (XI
    (XO (XI (XO (XO (XI (XO XH)))))))))))))) :: ((Npos (XO (XO (XI (XO (XO
    (XI (XO (XO (XO (XO (XO (XI (XO XH)))))))))))))) :: ((Npos (XO (XO (XI
    (XO (XI (XI (XO (XO (XI (XO (XO (XI (XO XH)))))))))))))) :: ((Npos (XO
    (XO (XI (XI (XO (XI (XO (XI (XO (XO (XO (XI (XO
    XH)))))))))))))) :: ((Npos (XO (XO (XI (XI (XI (XI (XO (XI (XI (XO (XO
    (XI (XO XH)))))))))))))) :: ((Npos (XO (XI (XO (XO (XO (XO (XO (XO (XO
    (XO (XO (XI (XO XH)))))))))))))) :: ((Npos (XO (XI (XO (XO (XI (XO (XO
    (XO (XI (XO (XO (XI (XO XH)))))))))))))) :: ((Npos (XO (XI (XO (XI (XO
    (XO (XO (XI (XO (XO (XO (XI (XO XH)))))))))))))) :: ((Npos (XO (XI (XO
    (XI (XI (XO (XO (XI (XI (XO (XO (XI (XO XH)))))))))))))) :: ((Npos (XO
    (XI (XI (XO (XO (XO (XI (XO (XO (XO (XO (XI (XO
    XH)))))))))))))) :: ((Npos (XO (XI (XI (XO (XI (XO (XI (XO (XI (XO (XO
    (XI (XO XH)))))))))))))) :: ((Npos (XO (XI (XI (XI (XO (XO (XI (XI (XO
    (XO (XO (XI (XO XH)))))))))))))) :: ((Npos (XI (XO XH))) :: ((Npos (XI
    (XO (XO (XO (XO (XO (XO (XO (XO (XO (XO (XI (XO
    XH)))))))))))))) :: ((Npos (XI (XO (XO (XO (XI (XI (XI (XI (XO (XO (XO
    (XI (XO XH)))))))))))))) :: ((Npos (XI (XO (XO (XI (XO (XI (XI (XO (XO
    (XO (XO (XI (XO XH)))))))))))))) :: ((Npos (XI (XO (XO (XI (XI (XI (XI
    (XO (XI (XO (XO (XI (XO XH)))))))))))))) :: ((Npos (XI (XO (XI (XO (XO
    (XI (XO (XO (XO (XO (XO (XI (XO XH)))))))))))))) :: ((Npos (XI (XO (XI
    (XO (XI (XI (XO (XO (XI (XO (XO (XI (XO XH)))))))))))))) :: ((Npos (XI
    (XO (XI (XI (XO (XI (XO (XI (XO (XO (XO (XI (XO
    XH)))))))))))))) :: ((Npos (XI (XO (XI (XI (XI (XI (XO (XI (XI (XO (XO
    (XI (XO XH)))))))))))))) :: ((Npos (XI (XI (XO (XO (XO (XO (XO (XO (XO
    (XO (XO (XI (XO XH)))))))))))))) :: ((Npos (XI (XI (XO (XO (XI (XO (XO
    (XO (XI (XO (XO (XI (XO XH)))))))))))))) :: ((Npos (XI (XI (XO (XI (XO
    (XO (XO (XI (XO (XO (XO (XI (XO XH)))))))))))))) :: ((Npos (XI (XI (XO
    (XI (XI (XO (XO (XI (XI (XO (XO (XI (XO XH)))))))))))))) :: ((Npos (XI
    (XI (XI (XO (XO (XO (XI (XO (XO (XO (XO (XI (XO
    XH)))))))))))))) :: ((Npos (XI (XI (XI (XO (XI (XO (XI (XO (XI (XO (XO
    (XI (XO XH)))))))))))))) :: ((Npos (XI (XI (XI (XI (XO (XO (XI (XI (XO
    (XO (XO (XI (XO XH)))))))))))))) :: ((Npos (XI (XO XH))) :: ((Npos (XO
    (XO (XO (XO (XO (XO (XO (XO (XO (XO (XO (XI (XO
    XH)))))))))))))) :: ((Npos (XO (XO (XO (XO (XI (XI (XI (XI (XO (XO (XO
    (XI (XO XH)))))))))))))) :: ((Npos (XO (XO (XO (XI (XO (XI (XI (XO (XO
    (XO (XO (XI (XO XH)))))))))))))) :: ((Npos (XO (XO (XO (XI (XI (XI (XI
    (XO (XI (XO (XO (XI (XO XH)))))))))))))) :: ((Npos (XO (XO (XI (XO (XO
    (XI (XO (XO (XO (XO (XO (XI (XO XH)))))))))))))) :: ((Npos (XO (XO (XI
    (XO (XI (XI (XO (XO (XI (XO (XO (XI (XO XH)))))))))))))) :: ((Npos (XO
    (XO (XI (XI (XO (XI (XO (XI (XO (XO (XO (XI (XO
    XH)))))))))))))) :: ((Npos (XO (XO (XI (XI (XI (XI (XO (XI (XI (XO (XO
    (XI (XO XH)))))))))))))) :: ((Npos (XO (XI (XO (XO (XO (XO (XO (XO (XO
    (XO (XO (XI (XO XH)))))))))))))) :: ((Npos (XO (XI (XO (XO (XI (XO (XO
    (XO (XI (XO (XO (XI (XO XH)))))))))))))) :: ((Npos (XO (XI (XO (XI (XO
    (XO (XO (XI (XO (XO (XO (XI (XO XH)))))))))))))) :: ((Npos (XO (XI (XO
    (XI (XI (XO (XO (XI (XI (XO (XO (XI (XO XH)))))))))))))) :: ((Npos (XO
    (XI (XI (XO (XO (XO (XI (XO (XO (XO (XO (XI (XO
    XH)))))))))))))) :: ((Npos (XO (XI (XI (XO (XI (XO (XI (XO (XI (XO (XO
    (XI (XO XH)))))))))))))) :: ((Npos (XO (XI (XI (XI (XO (XO (XI (XI (XO
    (XO (XO (XI (XO XH)))))))))))))) :: ((Npos (XI (XO XH))) :: ((Npos (XI
    (XO (XO (XO (XO (XO (XO (XO (XO (XO (XO (XI (XO
    XH)))))))))))))) :: ((Npos (XI (XO (XO (XO (XI (XI (XI (XI (XO (XO (XO
    (XI (XO XH)))))))))))))) :: ((Npos (XI (XO (XO (XI (XO (XI (XI (XO (XO
    (XO (XO (XI (XO XH)))))))))))))) :: ((Npos (XI (XO (XO (XI (XI (XI (XI
    (XO (XI (XO (XO (XI (XO XH)))))))))))))) :: ((Npos (XI (XO (XI (XO (XO
    (XI (XO (XO (XO (XO (XO (XI (XO XH)))))))))))))) :: ((Npos (XI (XO (XI
    (XO (XI (XI (XO (XO (XI (XO (XO (XI (XO XH)))))))))))))) :: ((Npos (XI
    (XO (XI (XI (XO (XI (XO (XI (XO (XO (XO (XI (XO
    XH)))))))))))))) :: ((Npos (XI (XO (XI (XI (XI (XI (XO (XI (XI (XO (XO
    (XI (XO XH)))))))))))))) :: ((Npos (XI (XI (XO (XO (XO (XO (XO (XO (XO
    (XO (XO (XI (XO XH)))))))))))))) :: ((Npos (XI (XI (XO (XO (XI (XO (XO
    (XO (XI (XO (XO (XI (XO XH)))))))))))))) :: ((Npos (XI (XI (XO (XI (XO
    (XO (XO (XI (XO (XO (XO (XI (XO XH)))))))))))))) :: ((Npos (XI (XI (XO
    (XI (XI (XO (XO (XI (XI (XO (XO (XI (XO XH)))))))))))))) :: ((Npos (XI
    (XI (XI (XO (XO (XO (XI (XO (XO (XO (XO (XI (XO
    XH)))))))))))))) :: ((Npos (XI (XI (XI (XO (XI (XO (XI (XO (XI (XO (XO
    (XI (XO XH)))))))))))))) :: ((Npos (XI (XI (XI (XI (XO (XO (XI (XI (XO
    (XO (XO (XI (XO XH)))))))))))))) :: ((Npos (XI (XO XH))) :: ((Npos (XO
    (XO (XO (XO (XO (XO (XO (XO (XO (XO (XO (XI (XO
    XH)))))))))))))) :: ((Npos (XO (XO (XO (XO (XI (XI (XI (XI (XO (XO (XO
    (XI (XO XH)))))))))))))) :: ((Npos (XO (XO (XO (XI (XO (XI (XI (XO (XO
    (XO (XO (XI (XO XH)))))))))))))) :: ((Npos (XO (XO (XO (XI (XI (XI (XI
    (XO (XI (XO (XO (XI (XO XH)))))))))))))) :: ((Npos (XO (XO (XI (XO (XO
    (XI (XO (XO (XO (XO (XO (XI (XO XH)))))))))))))) :: ((Npos (XO (XO (XI
    (XO (XI (XI (XO (XO (XI (XO (XO (XI (XO XH)))))))))))))) :: ((Npos (XO
    (XO (XI (XI (XO (XI (XO (XI (XO (XO (XO (XI (XO
    XH)))))))))))))) :: ((Npos (XO (XO (XI (XI (XI (XI (XO (XI (XI (XO (XO
    (XI (XO XH)))))))))))))) :: ((Npos (XO (XI (XO (XO (XO (XO (XO (XO (XO
    (XO (XO (XI (XO XH)))))))))))))) :: ((Npos (XO (XI (XO (XO (XI (XO (XO
    (XO (XI (XO (XO (XI (XO XH)))))))))))))) :: ((Npos (XO (XI (XO (XI (XO
    (XO (XO (XI (XO (XO (XO (XI (XO XH)))))))))))))) :: ((Npos (XO (XI (XO
    (XI (XI (XO (XO (XI (XI (XO (XO (XI (XO XH)))))))))))))) :: ((Npos (XO
    (XI (XI (XO (XO (XO (XI (XO (XO (XO (XO (XI (XO
    XH)))))))))))))) :: ((Npos (XO (XI (XI (XO (XI (XO (XI (XO (XI (XO (XO
    (XI (XO XH)))))))))))))) :: ((Npos (XO (XI (XI (XI (XO (XO (XI (XI (XO
    (XO (XO (XI (XO XH)))))))))))))) :: ((Npos (XI (XO XH))) :: ((Npos (XI
    (XO (XO (XO (XO (XO (XO (XO (XO (XO (XO (XI (XO
    XH)))))))))))))) :: ((Npos (XI (XO (XO (XO (XI (XI (XI (XI (XO (XO (XO
    (XI (XO XH)))))))))))))) :: ((Npos (XI (XO (XO (XI (XO (XI (XI (XO (XO
    (XO (XO (XI (XO XH)))))))))))))) :: ((Npos (XI (XO (XO (XI (XI (XI (XI
    (XO (XI (XO (XO (XI (XO XH)))))))))))))) :: ((Npos (XI (XO (XI (XO (XO
    (XI (XO (XO (XO (XO (XO (XI (XO XH)))))))))))))) :: ((Npos (XI (XO (XI
    (XO (XI (XI (XO (XO (XI (XO (XO (XI (XO XH)))))))))))))) :: ((Npos (XI
    (XO (XI (XI (XO (XI (XO (XI (XO (XO (XO (XI (XO
    XH)))))))))))))) :: ((Npos (XI (XO (XI (XI (XI (XI (XO (XI (XI (XO (XO
    (XI (XO XH)))))))))))))) :: ((Npos (XI (XI (XO (XO (XO (XO (XO (XO (XO
    (XO (XO (XI (XO XH)))))))))))))) :: ((Npos (XI (XI (XO (XO (XI (XO (XO
    (XO (XI (XO (XO (XI (XO XH)))))))))))))) :: ((Npos (XI (XI (XO (XI (XO
    (XO (XO (XI (XO (XO (XO (XI (XO XH)))))))))))))) :: ((Npos (XI (XI (XO
    (XI (XI (XO (XO (XI (XI (XO (XO (XI (XO XH)))))))))))))) :: ((Npos (XI
    (XI (XI (XO (XO (XO (XI (XO (XO (XO (XO (XI (XO
    XH)))))))))))))) :: ((Npos (XI (XI (XI (XO (XI (XO (XI (XO (XI (XO (XO
    (XI (XO XH)))))))))))))) :: ((Npos (XI (XI (XI (XI (XO (XO (XI (XI (XO
    (XO (XO (XI (XO XH)))))))))))))) :: ((Npos (XI (XO XH))) :: ((Npos (XO
    (XO (XO (XO (XO (XO (XO (XO (XO (XO (XO (XI (XO
    XH)))))))))))))) :: ((Npos (XO (XO (XO (XO (XI (XI (XI (XI (XO (XO (XO
    (XI (XO XH)))))))))))))) :: ((Npos (XO (XO (XO (XI (XO (XI (XI (XO (XO
    (XO (XO (XI (XO XH)))))))))))))) :: ((Npos (XO (XO (XO (XI (XI (XI (XI
    (XO (XI (XO (XO (XI (XO XH)))))))))))))) :: ((Npos (XO (XO (XI (XO (XO
    (XI (XO (XO (XO (XO (XO (XI (XO XH)))))))))))))) :: ((Npos (XO (XO (XI
    (XO (XI (XI (XO (XO (XI (XO (XO (XI (XO XH)))))))))))))) :: ((Npos (XO
    (XO (XI (XI (XO (XI (XO (XI (XO (XO (XO (XI (XO
    XH)))))))))))))) :: ((Npos (XO (XO (XI (XI (XI (XI (XO (XI (XI (XO (XO
    (XI (XO XH)))))))))))))) :: ((Npos (XO (XI (XO (XO (XO (XO (XO (XO (XO
    (XO (XO (XI (XO XH)))))))))))))) :: ((Npos (XO (XI (XO (XO (XI (XO (XO
    (XO (XI (XO (XO (XI (XO XH)))))))))))))) :: ((Npos (XO (XI (XO (XI (XO
    (XO (XO (XI (XO (XO (XO (XI (XO XH)))))))))))))) :: ((Npos (XO (XI (XO
    (XI (XI (XO (XO (XI (XI (XO (XO (XI (XO XH)))))))))))))) :: ((Npos (XO
    (XI (XI (XO (XO (XO (XI (XO (XO (XO (XO (XI (XO
    XH)))))))))))))) :: ((Npos (XO (XI (XI (XO (XI (XO (XI (XO (XI (XO (XO
    (XI (XO XH)))))))))))))) :: ((Npos (XO (XI (XI (XI (XO (XO (XI (XI (XO
    (XO (XO (XI (XO XH)))))))))))))) :: ((Npos (XI (XO XH))) :: ((Npos (XI
    (XO (XO (XO (XO (XO (XO (XO (XO (XO (XO (XI (XO
    XH)))))))))))))) :: ((Npos (XI (XO (XO (XO (XI (XI (XI (XI (XO (XO (XO
    (XI (XO XH)))))))))))))) :: ((Npos (XI (XO (XO (XI (XO (XI (XI (XO (XO
    (XO (XO (XI (XO XH)))))))))))))) :: ((Npos (XI (XO (XO (XI (XI (XI (XI
    (XO (XI (XO (XO (XI (XO XH)))))))))))))) :: ((Npos (XI (XO (XI (XO (XO
    (XI (XO (XO (XO (XO (XO (XI (XO XH)))))))))))))) :: ((Npos (XI (XO (XI
    (XO (XI (XI (XO (XO (XI (XO (XO (XI (XO XH)))))))))))))) :: ((Npos (XI
    (XO (XI (XI (XO (XI (XO (XI (XO (XO (XO (XI (XO
    XH)))))))))))))) :: ((Npos (XI (XO (XI (XI (XI (XI (XO (XI (XI (XO (XO
    (XI (XO XH)))))))))))))) :: ((Npos (XI (XI (XO (XO (XO (XO (XO (XO (XO
    (XO (XO (XI (XO XH)))))))))))))) :: ((Npos (XI (XI (XO (XO (XI (XO (XO
    (XO (XI (XO (XO (XI (XO XH)))))))))))))) :: ((Npos (XI (XI (XO (XI (XO
    (XO (XO (XI (XO (XO (XO (XI (XO XH)))))))))))))) :: ((Npos (XI (XI (XO
    (XI (XI (XO (XO (XI (XI (XO (XO (XI (XO XH)))))))))))))) :: ((Npos (XI
    (XI (XI (XO (XO (XO (XI (XO (XO (XO (XO (XI (XO
    XH)))))))))))))) :: ((Npos (XI (XI (XI (XO (XI (XO (XI (XO (XI (XO (XO
    (XI (XO XH)))))))))))))) :: ((Npos (XI (XI (XI (XI (XO (XO (XI (XI (XO
    (XO (XO (XI (XO XH)))))))))))))) :: ((Npos (XI (XO XH))) :: ((Npos (XO
    (XO (XO (XO (XO (XO (XO (XO (XO (XO (XO (XI (XO
    XH)))))))))))))) :: ((Npos (XO (XO (XO (XO (XI (XI (XI (XI (XO (XO (XO
    (XI (XO XH)))))))))))))) :: ((Npos (XO (XO (XO (XI (XO (XI (XI (XO (XO
    (XO (XO (XI (XO XH)))))))))))))) :: ((Npos (XO (XO (XO (XI (XI (XI (XI
    (XO (XI (XO (XO (XI (XO XH)))))))))))))) :: ((Npos (XO (XO (XI (XO (XO
    (XI (XO (XO (XO (XO (XO (XI (XO XH)))))))))))))) :: ((Npos (XO (XO (XI
    (XO (XI (XI (XO (XO (XI (XO (XO (XI (XO XH)))))))))))))) :: ((Npos (XO
    (XO (XI (XI (XO (XI (XO (XI (XO (XO (XO (XI (XO
    XH)))))))))))))) :: ((Npos (XO (XO (XI (XI (XI (XI (XO (XI (XI (XO (XO
    (XI (XO XH)))))))))))))) :: ((Npos (XO (XI (XO (XO (XO (XO (XO (XO (XO
    (XO (XO (XI (XO XH)))))))))))))) :: ((Npos (XO (XI (XO (XO (XI (XO (XO
    (XO (XI (XO (XO (XI (XO XH)))))))))))))) :: ((Npos (XO (XI (XO (XI (XO
    (XO (XO (XI (XO (XO (XO (XI (XO XH)))))))))))))) :: ((Npos (XO (XI (XO
    (XI (XI (XO (XO (XI (XI (XO (XO (XI (XO XH)))))))))))))) :: ((Npos (XO
    (XI (XI (XO (XO (XO (XI (XO (XO (XO (XO (XI (XO
    XH)))))))))))))) :: ((Npos (XO (XI (XI (XO (XI (XO (XI (XO (XI (XO (XO
    (XI (XO XH)))))))))))))) :: ((Npos (XO (XI (XI (XI (XO (XO (XI (XI (XO
    (XO (XO (XI (XO XH)))))))))))))) :: ((Npos (XI (XO XH))) :: ((Npos (XI
    (XO (XO (XO (XO (XO (XO (XO (XO (XO (XO (XI (XO
    XH)))))))))))))) :: ((Npos (XI (XO (XO (XO (XI (XI (XI (XI (XO (XO (XO
    (XI (XO XH)))))))))))))) :: ((Npos (XI (XO (XO (XI (XO (XI (XI (XO (XO
    (XO (XO (XI (XO XH)))))))))))))) :: ((Npos (XI (XO (XO (XI (XI (XI (XI
    (XO (XI (XO (XO (XI (XO XH)))))))))))))) :: ((Npos (XI (XO (XI (XO (XO
    (XI (XO (XO (XO (XO (XO (XI (XO XH)))))))))))))) :: ((Npos (XI (XO (XI
    (XO (XI (XI (XO (XO (XI (XO (XO (XI (XO XH)))))))))))))) :: ((Npos (XI
    (XO (XI (XI (XO (XI (XO (XI (XO (XO (XO (XI (XO
    XH)))))))))))))) :: ((Npos (XI (XO (XI (XI (XI (XI (XO (XI (XI (XO (XO
    (XI (XO XH)))))))))))))) :: ((Npos (XI (XI (XO (XO (XO (XO (XO (XO (XO
    (XO (XO (XI (XO XH)))))))))))))) :: ((Npos (XI (XI (XO (XO (XI (XO (XO
    (XO (XI (XO (XO (XI (XO XH)))))))))))))) :: ((Npos (XI (XI (XO (XI (XO
    (XO (XO (XI (XO (XO (XO (XI (XO XH)))))))))))))) :: ((Npos (XI (XI (XO
    (XI (XI (XO (XO (XI (XI (XO (XO (XI (XO XH)))))))))))))) :: ((Npos (XI
    (XI (XI (XO (XO (XO (XI (XO (XO (XO (XO (XI (XO
    XH)))))))))))))) :: ((Npos (XI (XI (XI (XO (XI (XO (XI (XO (XI (XO (XO
    (XI (XO XH)))))))))))))) :: ((Npos (XI (XI (XI (XI (XO (XO (XI (XI (XO
    (XO (XO (XI (XO XH)))))))))))))) :: ((Npos (XI (XO XH))) :: ((Npos (XO
    (XO (XO (XO (XO (XO (XO (XO (XO (XO (XO (XI (XO
    XH)))))))))))))) :: ((Npos (XO (XO (XO (XO (XI (XI (XI (XI (XO (XO (XO
    (XI (XO XH)))))))))))))) :: ((Npos (XO (XO (XO (XI (XO (XI (XI (XO (XO
    (XO (XO (XI (XO XH)))))))))))))) :: ((Npos (XO (XO (XO (XI (XI (XI (XI
    (XO (XI (XO (XO (XI (XO XH)))))))))))))) :: ((Npos (XO (XO (XI (XO (XO
    (XI (XO (XO (XO (XO (XO (XI (XO XH)))))))))))))) :: ((Npos (XO (XO (XI
    (XO (XI (XI (XO (XO (XI (XO (XO (XI (XO XH)))))))))))))) :: ((Npos (XO
    (XO (XI (XI (XO (XI (XO (XI (XO (XO (XO (XI (XO
    XH)))))))))))))) :: ((Npos (XO (XO (XI (XI (XI (XI (XO (XI (XI (XO (XO
    (XI (XO XH)))))))))))))) :: ((Npos (XO (XI (XO (XO (XO (XO (XO (XO (XO
    (XO (XO (XI (XO XH)))))))))))))) :: ((Npos (XO (XI (XO (XO (XI (XO (XO
    (XO (XI (XO (XO (XI (XO XH)))))))))))))) :: ((Npos (XO (XI (XO (XI (XO
    (XO (XO (XI (XO (XO (XO (XI (XO XH)))))))))))))) :: ((Npos (XO (XI (XO
    (XI (XI (XO (XO (XI (XI (XO (XO (XI (XO XH)))))))))))))) :: ((Npos (XO
    (XI (XI (XO (XO (XO (XI (XO (XO (XO (XO (XI (XO
    XH)))))))))))))) :: ((Npos (XO (XI (XI (XO (XI (XO (XI (XO (XI (XO (XO
    (XI (XO XH)))))))))))))) :: ((Npos (XO (XI (XI (XI (XO (XO (XI (XI (XO
    (XO (XO (XI (XO XH)))))))))))))) :: ((Npos (XI (XO XH))) :: ((Npos (XI
    (XO (XO (XO (XO (XO (XO (XO (XO (XO (XO (XI (XO
    XH)))))))))))))) :: ((Npos (XI (XO (XO (XO (XI (XI (XI (XI (XO (XO (XO
    (XI (XO XH)))))))))))))) :: ((Npos (XI (XO (XO (XI (XO (XI (XI (XO (XO
    (XO (XO (XI (XO XH)))))))))))))) :: ((Npos (XI (XO (XO (XI (XI (XI (XI
    (XO (XI (XO (XO (XI (XO XH)))))))))))))) :: ((Npos (XI (XO (XI (XO (XO
    (XI (XO (XO (XO (XO (XO (XI (XO XH)))))))))))))) :: ((Npos (XI (XO (XI
    (XO (XI (XI (XO (XO (XI (XO (XO (XI (XO XH)))))))))))))) :: ((Npos (XI
    (XO (XI (XI (XO (XI (XO (XI (XO (XO (XO (XI (XO
    XH)))))))))))))) :: ((Npos (XI (XO (XI (XI (XI (XI (XO (XI (XI (XO (XO
    (XI (XO XH)))))))))))))) :: ((Npos (XI (XI (XO (XO (XO (XO (XO (XO (XO
    (XO (XO (XI (XO XH)))))))))))))) :: ((Npos (XI (XI (XO (XO (XI (XO (XO
    (XO (XI (XO (XO (XI (XO XH)))))))))))))) :: ((Npos (XI (XI (XO (XI (XO
    (XO (XO (XI (XO (XO (XO (XI (XO XH)))))))))))))) :: ((Npos (XI (XI (XO
    (XI (XI (XO (XO (XI (XI (XO (XO (XI (XO XH)))))))))))))) :: ((Npos (XI
    (XI (XI (XO (XO (XO (XI (XO (XO (XO (XO (XI (XO
    XH)))))))))))))) :: ((Npos (XI (XI (XI (XO (XI (XO (XI (XO (XI (XO (XO
    (XI (XO XH)))))))))))))) :: ((Npos (XI (XI (XI (XI (XO (XO (XI (XI (XO
    (XO (XO (XI (XO XH)))))))))))))) :: ((Npos (XI (XO XH))) :: ((Npos (XO
    (XO (XO (XO (XO (XO (XO (XO (XO (XO (XO (XI (XO
    XH)))))))))))))) :: ((Npos (XO (XO (XO (XO (XI (XI (XI (XI (XO (XO (XO
    (XI (XO XH)))))))))))))) :: ((Npos (XO (XO (XO (XI (XO (XI (XI (XO (XO
    (XO (XO (XI (XO XH)))))))))))))) :: ((Npos (XO (XO (XO (XI (XI (XI (XI
    (XO (XI (XO (XO (XI (XO XH)))))))))))))) :: ((Npos (XO (XO (XI (XO (XO
    (XI (XO (XO (XO (XO (XO (XI (XO XH)))))))))))))) :: ((Npos (XO (XO (XI
    (XO (XI (XI (XO (XO (XI (XO (XO (XI (XO XH)))))))))))))) :: ((Npos (XO
    (XO (XI (XI (XO (XI (XO (XI (XO (XO (XO (XI (XO
    XH)))))))))))))) :: ((Npos (XO (XO (XI (XI (XI (XI (XO (XI (XI (XO (XO
    (XI (XO XH)))))))))))))) :: ((Npos (XO (XI (XO (XO (XO (XO (XO (XO (XO
    (XO (XO (XI (XO XH)))))))))))))) :: ((Npos (XO (XI (XO (XO (XI (XO (XO
    (XO (XI (XO (XO (XI (XO XH)))))))))))))) :: ((Npos (XO (XI (XO (XI (XO
    (XO (XO (XI (XO (XO (XO (XI (XO XH)))))))))))))) :: ((Npos (XO (XI (XO
    (XI (XI (XO (XO (XI (XI (XO (XO (XI (XO XH)))))))))))))) :: ((Npos (XO
    (XI (XI (XO (XO (XO (XI (XO (XO (XO (XO (XI (XO
    XH)))))))))))))) :: ((Npos (XO (XI (XI (XO (XI (XO (XI (XO (XI (XO (XO
    (XI (XO XH)))))))))))))) :: ((Npos (XO (XI (XI (XI (XO (XO (XI (XI (XO
    (XO (XO (XI (XO XH)))))))))))))) :: ((Npos (XI (XO XH))) :: ((Npos (XI
    (XO (XO (XO (XO (XO (XO (XO (XO (XO (XO (XI (XO
    XH)))))))))))))) :: ((Npos (XI (XO (XO (XO (XI (XI (XI (XI (XO (XO (XO
    (XI (XO XH)))))))))))))) :: ((Npos (XI (XO (XO (XI (XO (XI (XI (XO (XO
    (XO (XO (XI (XO XH)))))))))))))) :: ((Npos (XI (XO (XO (XI (XI (XI (XI
    (XO (XI (XO (XO (XI (XO XH)))))))))))))) :: ((Npos (XI (XO (XI (XO (XO
    (XI (XO (XO (XO (XO (XO (XI (XO XH)))))))))))))) :: ((Npos (XI (XO (XI
    (XO (XI (XI (XO (XO (XI (XO (XO (XI (XO XH)))))))))))))) :: ((Npos (XI
    (XO (XI (XI (XO (XI (XO (XI (XO (XO (XO (XI (XO
    XH)))))))))))))) :: ((Npos (XI (XO (XI (XI (XI (XI (XO (XI (XI (XO (XO
    (XI (XO XH)))))))))))))) :: ((Npos (XI (XI (XO (XO (XO (XO (XO (XO (XO
    (XO (XO (XI (XO XH)))))))))))))) :: ((Npos (XI (XI (XO (XO (XI (XO (XO
    (XO (XI (XO (XO (XI (XO XH)))))))))))))) :: ((Npos (XI (XI (XO (XI (XO
    (XO (XO (XI (XO (XO (XO (XI (XO XH)))))))))))))) :: ((Npos (XI (XI (XO
    (XI (XI (XO (XO (XI (XI (XO (XO (XI (XO XH)))))))))))))) :: ((Npos (XI
    (XI (XI (XO (XO (XO (XI (XO (XO (XO (XO (XI (XO
    XH)))))))))))))) :: ((Npos (XI (XI (XI (XO (XI (XO (XI (XO (XI (XO (XO
    (XI (XO XH)))))))))))))) :: ((Npos (XI (XI (XI (XI (XO (XO (XI (XI (XO
    (XO (XO (XI (XO XH)))))))))))))) :: ((Npos (XI (XO XH))) :: ((Npos (XO
    (XO (XO (XO (XO (XO (XO (XO (XO (XO (XO (XI (XO
    XH)))))))))))))) :: ((Npos (XO (XO (XO (XO (XI (XI (XI (XI (XO (XO (XO
    (XI (XO XH)))))))))))))) :: ((Npos (XO (XO (XO (XI (XO (XI (XI (XO (XO
    (XO (XO (XI (XO XH)))))))))))))) :: ((Npos (XO (XO (XO (XI (XI (XI (XI
    (XO (XI (XO (XO (XI (XO XH)))))))))))))) :: ((Npos (XO (XO (XI (XO (XO
    (XI (XO (XO (XO (XO (XO (XI (XO XH)))))))))))))) :: ((Npos (XO (XO (XI
    (XO (XI (XI (XO (XO (XI (XO (XO (XI (XO XH)))))))))))))) :: ((Npos (XO
    (XO (XI (XI (XO (XI (XO (XI (XO (XO (XO (XI (XO
    XH)))))))))))))) :: ((Npos (XO (XO (XI (XI (XI (XI (XO (XI (XI (XO (XO
    (XI (XO XH)))))))))))))) :: ((Npos (XO (XI (XO (XO (XO (XO (XO (XO (XO
    (XO (XO (XI (XO XH)))))))))))))) :: ((Npos (XO (XI (XO (XO (XI (XO (XO
    (XO (XI (XO (XO (XI (XO XH)))))))))))))) :: ((Npos (XO (XI (XO (XI (XO
    (XO (XO (XI (XO (XO (XO (XI (XO XH)))))))))))))) :: ((Npos (XO (XI (XO
    (XI (XI (XO (XO (XI (XI (XO (XO (XI (XO XH)))))))))))))) :: ((Npos (XO
    (XI (XI (XO (XO (XO (XI (XO (XO (XO (XO (XI (XO
    XH)))))))))))))) :: ((Npos (XO (XI (XI (XO (XI (XO (XI (XO (XI (XO (XO
    (XI (XO XH)))))))))))))) :: ((Npos (XO (XI (XI (XI (XO (XO (XI (XI (XO
    (XO (XO (XI (XO XH)))))))))))))) :: ((Npos (XI (XO XH))) :: ((Npos (XI
    (XO (XO (XO (XO (XO (XO (XO (XO (XO (XO (XI (XO
    XH)))))))))))))) :: ((Npos (XI (XO (XO (XO (XI (XI (XI (XI (XO (XO (XO
    (XI (XO XH)))))))))))))) :: ((Npos (XI (XO (XO (XI (XO (XI (XI (XO (XO
    (XO (XO (XI (XO XH)))))))))))))) :: ((Npos (XI (XO (XO (XI (XI (XI (XI
    (XO (XI (XO (XO (XI (XO XH)))))))))))))) :: ((Npos (XI (XO (XI (XO (XO
    (XI (XO (XO (XO (XO (XO (XI (XO XH)))))))))))))) :: ((Npos (XI (XO (XI
    (XO (XI (XI (XO (XO (XI (XO (XO (XI (XO XH)))))))))))))) :: ((Npos (XI
    (XO (XI (XI (XO (XI (XO (XI (XO (XO (XO (XI (XO
    XH)))))))))))))) :: ((Npos (XI (XO (XI (XI (XI (XI (XO (XI (XI (XO (XO
    (XI (XO XH)))))))))))))) :: ((Npos (XI (XI (XO (XO (XO (XO (XO (XO (XO
    (XO (XO (XI (XO XH)))))))))))))) :: ((Npos (XI (XI (XO (XO (XI (XO (XO
    (XO (XI (XO (XO (XI (XO XH)))))))))))))) :: ((Npos (XI (XI (XO (XI (XO
    (XO (XO (XI (XO (XO (XO (XI (XO XH)))))))))))))) :: ((Npos (XI (XI (XO
    (XI (XI (XO (XO (XI (XI (XO (XO (XI (XO XH)))))))))))))) :: ((Npos (XI
    (XI (XI (XO (XO (XO (XI (XO (XO (XO (XO (XI (XO
    XH)))))))))))))) :: ((Npos (XI (XI (XI (XO (XI (XO (XI (XO (XI (XO (XO
    (XI (XO XH)))))))))))))) :: ((Npos (XI (XI (XI (XI (XO (XO (XI (XI (XO
    (XO (XO (XI (XO XH)))))))))))))) :: ((Npos (XI (XO XH))) :: ((Npos (XO
    (XO (XO (XO (XO (XO (XO (XO (XO (XO (XO (XI (XO
    XH)))))))))))))) :: ((Npos (XO (XO (XO (XO (XI (XI (XI (XI (XO (XO (XO
    (XI (XO XH)))))))))))))) :: ((Npos (XO (XO (XO (XI (XO (XI (XI (XO (XO
    (XO (XO (XI (XO XH)))))))))))))) :: ((Npos (XO (XO (XO (XI (XI (XI (XI
    (XO (XI (XO (XO (XI (XO XH)))))))))))))) :: ((Npos (XO (XO (XI (XO (XO
    (XI (XO (XO (XO (XO (XO (XI (XO XH)))))))))))))) :: ((Npos (XO (XO (XI
    (XO (XI (XI (XO (XO (XI (XO (XO (XI (XO XH)))))))))))))) :: ((Npos (XO
    (XO (XI (XI (XO (XI (XO (XI (XO (XO (XO (XI (XO
    XH)))))))))))))) :: ((Npos (XO (XO (XI (XI (XI (XI (XO (XI (XI (XO (XO
    (XI (XO XH)))))))))))))) :: ((Npos (XO (XI (XO (XO (XO (XO (XO (XO (XO
    (XO (XO (XI (XO XH)))))))))))))) :: ((Npos (XO (XI (XO (XO (XI (XO (XO
    (XO (XI (XO (XO (XI (XO XH)))))))))))))) :: ((Npos (XO (XI (XO (XI (XO
    (XO (XO (XI (XO (XO (XO (XI (XO XH)))))))))))))) :: ((Npos (XO (XI (XO
    (XI (XI (XO (XO (XI (XI (XO (XO (XI (XO XH)))))))))))))) :: ((Npos (XO
    (XI (XI (XO (XO (XO (XI (XO (XO (XO (XO (XI (XO
    XH)))))))))))))) :: ((Npos (XO (XI (XI (XO (XI (XO (XI (XO (XI (XO (XO
    (XI (XO XH)))))))))))))) :: ((Npos (XO (XI (XI (XI (XO (XO (XI (XI (XO
    (XO (XO (XI (XO XH)))))))))))))) :: ((Npos (XI (XO XH))) :: ((Npos (XI
    (XO (XO (XO (XO (XO (XO (XO (XO (XO (XO (XI (XO
    XH)))))))))))))) :: ((Npos (XI (XO (XO (XO (XI (XI (XI (XI (XO (XO (XO
    (XI (XO XH)))))))))))))) :: ((Npos (XI (XO (XO (XI (XO (XI (XI (XO (XO
    (XO (XO (XI (XO XH)))))))))))))) :: ((Npos (XI (XO (XO (XI (XI (XI (XI
    (XO (XI (XO (XO (XI (XO XH)))))))))))))) :: ((Npos (XI (XO (XI (XO (XO
    (XI (XO (XO (XO (XO (XO (XI (XO XH)))))))))))))) :: ((Npos (XI (XO (XI
    (XO (XI (XI (XO (XO (XI (XO (XO (XI (XO XH)))))))))))))) :: ((Npos (XI
    (XO (XI (XI (XO (XI (XO (XI (XO (XO (XO (XI (XO
    XH)))))))))))))) :: ((Npos (XI (XO (XI (XI (XI (XI (XO (XI (XI (XO (XO
    (XI (XO XH)))))))))))))) :: ((Npos (XI (XI (XO (XO (XO (XO (XO (XO (XO
    (XO (XO (XI (XO XH)))))))))))))) :: ((Npos (XI (XI (XO (XO (XI (XO (XO
    (XO (XI (XO (XO (XI (XO XH)))))))))))))) :: ((Npos (XI (XI (XO (XI (XO
    (XO (XO (XI (XO (XO (XO (XI (XO XH)))))))))))))) :: ((Npos (XI (XI (XO
    (XI (XI (XO (XO (XI (XI (XO (XO (XI (XO XH)))))))))))))) :: ((Npos (XI
    (XI (XI (XO (XO (XO (XI (XO (XO (XO (XO (XI (XO
    XH)))))))))))))) :: ((Npos (XI (XI (XI (XO (XI (XO (XI (XO (XI (XO (XO
    (XI (XO XH)))))))))))))) :: ((Npos (XI (XI (XI (XI (XO (XO (XI (XI (XO
    (XO (XO (XI (XO XH)))))))))))))) :: ((Npos (XI (XO XH))) :: ((Npos (XO
    (XO (XO (XO (XO (XO (XO (XO (XO (XO (XO (XI (XO
    XH)))))))))))))) :: ((Npos (XO (XO (XO (XO (XI (XI (XI (XI (XO (XO (XO
    (XI (XO XH)))))))))))))) :: ((Npos (XO (XO (XO (XI (XO (XI (XI (XO (XO
    (XO (XO (XI (XO XH)))))))))))))) :: ((Npos (XO (XO (XO (XI (XI (XI (XI
    (XO (XI (XO (XO (XI (XO XH)))))))))))))) :: ((Npos (XO (XO (XI (XO (XO
    (XI (XO (XO (XO (XO (XO (XI (XO XH)))))))))))))) :: ((Npos (XO (XO (XI
    (XO (XI (XI (XO (XO (XI (XO (XO (XI (XO XH)))))))))))))) :: ((Npos (XO
    (XO (XI (XI (XO (XI (XO (XI (XO (XO (XO (XI (XO
    XH)))))))))))))) :: ((Npos (XO (XO (XI (XI (XI (XI (XO (XI (XI (XO (XO
    (XI (XO XH)))))))))))))) :: ((Npos (XO (XI (XO (XO (XO (XO (XO (XO (XO
    (XO (XO (XI (XO XH)))))))))))))) :: ((Npos (XO (XI (XO (XO (XI (XO (XO
    (XO (XI (XO (XO (XI (XO XH)))))))))))))) :: ((Npos (XO (XI (XO (XI (XO
    (XO (XO (XI (XO (XO (XO (XI (XO XH)))))))))))))) :: ((Npos (XO (XI (XO
    (XI (XI (XO (XO (XI (XI (XO (XO (XI (XO XH)))))))))))))) :: ((Npos (XO
    (XI (XI (XO (XO (XO (XI (XO (XO (XO (XO (XI (XO
    XH)))))))))))))) :: ((Npos (XO (XI (XI (XO (XI (XO (XI (XO (XI (XO (XO
    (XI (XO XH)))))))))))))) :: ((Npos (XO (XI (XI (XI (XO (XO (XI (XI (XO
    (XO (XO (XI (XO XH)))))))))))))) :: ((Npos (XI (XO XH))) :: ((Npos (XI
    (XO (XO (XO (XO (XO (XO (XO (XO (XO (XO (XI (XO
    XH)))))))))))))) :: ((Npos (XI (XO (XO (XO (XI (XI (XI (XI (XO (XO (XO
    (XI (XO XH)))))))))))))) :: ((Npos (XI (XO (XO (XI (XO (XI (XI (XO (XO
    (XO (XO (XI (XO XH)))))))))))))) :: ((Npos (XI (XO (XO (XI (XI (XI (XI
    (XO (XI (XO (XO (XI (XO XH)))))))))))))) :: ((Npos (XI (XO (XI (XO (XO
    (XI (XO (XO (XO (XO (XO (XI (XO XH)))))))))))))) :: ((Npos (XI (XO (XI
    (XO (XI (XI (XO (XO (XI (XO (XO (XI (XO XH)))))))))))))) :: ((Npos (XI
    (XO (XI (XI (XO (XI (XO (XI (XO (XO (XO (XI (XO
    XH)))))))))))))) :: ((Npos (XI (XO (XI (XI (XI (XI (XO (XI (XI (XO (XO
    (XI (XO XH)))))))))))))) :: ((Npos (XI (XI (XO (XO (XO (XO (XO (XO (XO
    (XO (XO (XI (XO XH)))))))))))))) :: ((Npos (XI (XI (XO (XO (XI (XO (XO
    (XO (XI (XO (XO (XI (XO XH)))))))))))))) :: ((Npos (XI (XI (XO (XI (XO
    (XO (XO (XI (XO (XO (XO (XI (XO XH)))))))))))))) :: ((Npos (XI (XI (XO
    (XI (XI (XO (XO (XI (XI (XO (XO (XI (XO XH)))))))))))))) :: ((Npos (XI
    (XI (XI (XO (XO (XO (XI (XO (XO (XO (XO (XI (XO
    XH)))))))))))))) :: ((Npos (XI (XI (XI (XO (XI (XO (XI (XO (XI (XO (XO
    (XI (XO XH)))))))))))))) :: ((Npos (XI (XI (XI (XI (XO (XO (XI (XI (XO
    (XO (XO (XI (XO XH)))))))))))))) :: ((Npos (XI (XO XH))) :: ((Npos (XO
    (XO (XO (XO (XO (XO (XO (XO (XO (XO (XO (XI (XO
    XH)))))))))))))) :: ((Npos (XO (XO (XO (XO (XI (XI (XI (XI (XO (XO (XO
    (XI (XO XH)))))))))))))) :: ((Npos (XO (XO (XO (XI (XO (XI (XI (XO (XO
    (XO (XO (XI (XO XH)))))))))))))) :: ((Npos (XO (XO (XO (XI (XI (XI (XI
    (XO (XI (XO (XO (XI (XO XH)))))))))))))) :: ((Npos (XO (XO (XI (XO (XO
    (XI (XO (XO (XO (XO (XO (XI (XO XH)))))))))))))) :: ((Npos (XO (XO (XI
    (XO (XI (XI (XO (XO (XI (XO (XO (XI (XO XH)))))))))))))) :: ((Npos (XO
    (XO (XI (XI (XO (XI (XO (XI (XO (XO (XO (XI (XO
    XH)))))))))))))) :: ((Npos (XO (XO (XI (XI (XI (XI (XO (XI (XI (XO (XO
    (XI (XO XH)))))))))))))) :: ((Npos (XO (XI (XO (XO (XO (XO (XO (XO (XO
    (XO (XO (XI (XO XH)))))))))))))) :: ((Npos (XO (XI (XO (XO (XI (XO (XO
    (XO (XI (XO (XO (XI (XO XH)))))))))))))) :: ((Npos (XO (XI (XO (XI (XO
    (XO (XO (XI (XO (XO (XO (XI (XO XH)))))))))))))) :: ((Npos (XO (XI (XO
    (XI (XI (XO (XO (XI (XI (XO (XO (XI (XO XH)))))))))))))) :: ((Npos (XO
    (XI (XI (XO (XO (XO (XI (XO (XO (XO (XO (XI (XO
    XH)))))))))))))) :: ((Npos (XO (XI (XI (XO (XI (XO (XI (XO (XI (XO (XO
    (XI (XO XH)))))))))))))) :: ((Npos (XO (XI (XI (XI (XO (XO (XI (XI (XO
    (XO (XO (XI (XO XH)))))))))))))) :: ((Npos (XI (XO XH))) :: ((Npos (XI
    (XO (XO (XO (XO (XO (XO (XO (XO (XO (XO (XI (XO
    XH)))))))))))))) :: ((Npos (XI (XO (XO (XO (XI (XI (XI (XI (XO (XO (XO
    (XI (XO XH)))))))))))))) :: ((Npos (XI (XO (XO (XI (XO (XI (XI (XO (XO
    (XO (XO (XI (XO XH)))))))))))))) :: ((Npos (XI (XO (XO (XI (XI (XI (XI
    (XO (XI (XO (XO (XI (XO XH)))))))))))))) :: ((Npos (XI (XO (XI (XO (XO
    (XI (XO (XO (XO (XO (XO (XI (XO XH)))))))))))))) :: ((Npos (XI (XO (XI
    (XO (XI (XI (XO (XO (XI (XO (XO (XI (XO XH)))))))))))))) :: ((Npos (XI
    (XO (XI (XI (XO (XI (XO (XI (XO (XO (XO (XI (XO
    XH)))))))))))))) :: ((Npos (XI (XO (XI (XI (XI (XI (XO (XI (XI (XO (XO
    (XI (XO XH)))))))))))))) :: ((Npos (XI (XI (XO (XO (XO (XO (XO (XO (XO
    (XO (XO (XI (XO XH)))))))))))))) :: ((Npos (XI (XI (XO (XO (XI (XO (XO
    (XO (XI (XO (XO (XI (XO XH)))))))))))))) :: ((Npos (XI (XI (XO (XI (XO
    (XO (XO (XI (XO (XO (XO (XI (XO XH)))))))))))))) :: ((Npos (XI (XI (XO
    (XI (XI (XO (XO (XI (XI (XO (XO (XI (XO XH)))))))))))))) :: ((Npos (XI
    (XI (XI (XO (XO (XO (XI (XO (XO (XO (XO (XI (XO
    XH)))))))))))))) :: ((Npos (XI (XI (XI (XO (XI (XO (XI (XO (XI (XO (XO
    (XI (XO XH)))))))))))))) :: ((Npos (XI (XI (XI (XI (XO (XO (XI (XI (XO
    (XO (XO (XI (XO XH)))))))))))))) :: ((Npos (XI (XO XH))) :: ((Npos (XO
    (XO (XO (XO (XO (XO (XO (XO (XO (XO (XO (XI (XO
    XH)))))))))))))) :: ((Npos (XO (XO (XO (XO (XI (XI (XI (XI (XO (XO (XO
    (XI (XO XH)))))))))))))) :: ((Npos (XO (XO (XO (XI (XO (XI (XI (XO (XO
    (XO (XO (XI (XO XH)))))))))))))) :: ((Npos (XO (XO (XO (XI (XI (XI (XI
    (XO (XI (XO (XO (XI (XO XH)))))))))))))) :: ((Npos (XO (XO (XI (XO (XO
    (XI (XO (XO (XO (XO (XO (XI (XO XH)))))))))))))) :: ((Npos (XO (XO (XI
    (XO (XI (XI (XO (XO (XI (XO (XO (XI (XO XH)))))))))))))) :: ((Npos (XO
    (XO (XI (XI (XO (XI (XO (XI (XO (XO (XO (XI (XO
    XH)))))))))))))) :: ((Npos (XO (XO (XI (XI (XI (XI (XO (XI (XI (XO (XO
    (XI (XO XH)))))))))))))) :: ((Npos (XO (XI (XO (XO (XO (XO (XO (XO (XO
    (XO (XO (XI (XO XH)))))))))))))) :: ((Npos (XO (XI (XO (XO (XI (XO (XO
    (XO (XI (XO (XO (XI (XO XH)))))))))))))) :: ((Npos (XO (XI (XO (XI (XO
    (XO (XO (XI (XO (XO (XO (XI (XO XH)))))))))))))) :: ((Npos (XO (XI (XO
    (XI (XI (XO (XO (XI (XI (XO (XO (XI (XO XH)))))))))))))) :: ((Npos (XO
    (XI (XI (XO (XO (XO (XI (XO (XO (XO (XO (XI (XO
    XH)))))))))))))) :: ((Npos (XO (XI (XI (XO (XI (XO (XI (XO (XI (XO (XO
    (XI (XO XH)))))))))))))) :: ((Npos (XO (XI (XI (XI (XO (XO (XI (XI (XO
    (XO (XO (XI (XO XH)))))))))))))) :: ((Npos (XI (XO XH))) :: ((Npos (XI
    (XO (XO (XO (XO (XO (XO (XO (XO (XO (XO (XI (XO
    XH)))))))))))))) :: ((Npos (XI (XO (XO (XO (XI (XI (XI (XI (XO (XO (XO
    (XI (XO XH)))))))))))))) :: ((Npos (XI (XO (XO (XI (XO (XI (XI (XO (XO
    (XO (XO (XI (XO XH)))))))))))))) :: ((Npos (XI (XO (XO (XI (XI (XI (XI
    (XO (XI (XO (XO (XI (XO XH)))))))))))))) :: ((Npos (XI (XO (XI (XO (XO
    (XI (XO (XO (XO (XO (XO (XI (XO XH)))))))))))))) :: ((Npos (XI (XO (XI
    (XO (XI (XI (XO (XO (XI (XO (XO (XI (XO XH)))))))))))))) :: ((Npos (XI
    (XO (XI (XI (XO (XI (XO (XI (XO (XO (XO (XI (XO
    XH)))))))))))))) :: ((Npos (XI (XO (XI (XI (XI (XI (XO (XI (XI (XO (XO
    (XI (XO XH)))))))))))))) :: ((Npos (XI (XI (XO (XO (XO (XO (XO (XO (XO
    (XO (XO (XI (XO XH)))))))))))))) :: ((Npos (XI (XI (XO (XO (XI (XO (XO
    (XO (XI (XO (XO (XI (XO XH)))))))))))))) :: ((Npos (XI (XI (XO (XI (XO
    (XO (XO (XI (XO (XO (XO (XI (XO XH)))))))))))))) :: ((Npos (XI (XI (XO
    (XI (XI (XO (XO (XI (XI (XO (XO (XI (XO XH)))))))))))))) :: ((Npos (XI
    (XI (XI (XO (XO (XO (XI (XO (XO (XO (XO (XI (XO
    XH)))))))))))))) :: ((Npos (XI (XI (XI (XO (XI (XO (XI (XO (XI (XO (XO
    (XI (XO XH)))))))))))))) :: ((Npos (XI (XI (XI (XI (XO (XO (XI (XI (XO
    (XO (XO (XI (XO XH)))))))))))))) :: ((Npos (XI (XO XH))) :: ((Npos (XO
    (XO (XO (XO (XO (XO (XO (XO (XO (XO (XO (XI (XO
    XH)))))))))))))) :: ((Npos (XO (XO (XO (XO (XI (XI (XI (XI (XO (XO (XO
    (XI (XO XH)))))))))))))) :: ((Npos (XO (XO (XO (XI (XO (XI (XI (XO (XO
    (XO (XO (XI (XO XH)))))))))))))) :: ((Npos (XO (XO (XO (XI (XI (XI (XI
    (XO (XI (XO (XO (XI (XO XH)))))))))))))) :: ((Npos (XO (XO (XI (XO (XO
    (XI (XO (XO (XO (XO (XO (XI (XO XH)))))))))))))) :: ((Npos (XO (XO (XI
    (XO (XI (XI (XO (XO (XI (XO (XO (XI (XO XH)))))))))))))) :: ((Npos (XO
    (XO (XI (XI (XO (XI (XO (XI (XO (XO (XO (XI (XO
    XH)))))))))))))) :: ((Npos (XO (XO (XI (XI (XI (XI (XO (XI (XI (XO (XO
    (XI (XO XH)))))))))))))) :: ((Npos (XO (XI (XO (XO (XO (XO (XO (XO (XO
    (XO (XO (XI (XO XH)))))))))))))) :: ((Npos (XO (XI (XO (XO (XI (XO (XO
    (XO (XI (XO (XO (XI (XO XH)))))))))))))) :: ((Npos (XO (XI (XO (XI (XO
    (XO (XO (XI (XO (XO (XO (XI (XO XH)))))))))))))) :: ((Npos (XO (XI (XO
    (XI (XI (XO (XO (XI (XI (XO (XO (XI (XO XH)))))))))))))) :: ((Npos (XO
    (XI (XI (XO (XO (XO (XI (XO (XO (XO (XO (XI (XO
    XH)))))))))))))) :: ((Npos (XO (XI (XI (XO (XI (XO (XI (XO (XI (XO (XO
    (XI (XO XH)))))))))))))) :: ((Npos (XO (XI (XI (XI (XO (XO (XI (XI (XO
    (XO (XO (XI (XO XH)))))))))))))) :: ((Npos (XI (XO XH))) :: ((Npos (XI
    (XO (XO (XO (XO (XO (XO (XO (XO (XO (XO (XI (XO
    XH)))))))))))))) :: ((Npos (XI (XO (XO (XO (XI (XI (XI (XI (XO (XO (XO
    (XI (XO XH)))))))))))))) :: ((Npos (XI (XO (XO (XI (XO (XI (XI (XO (XO
    (XO (XO (XI (XO XH)))))))))))))) :: ((Npos (XI (XO (XO (XI (XI (XI (XI
    (XO (XI (XO (XO (XI (XO XH)))))))))))))) :: ((Npos (XI (XO (XI (XO (XO
    (XI (XO (XO (XO (XO (XO (XI (XO XH)))))))))))))) :: ((Npos (XI (XO (XI
    (XO (XI (XI (XO (XO (XI (XO (XO (XI (XO XH)))))))))))))) :: ((Npos (XI
    (XO (XI (XI (XO (XI (XO (XI (XO (XO (XO (XI (XO
    XH)))))))))))))) :: ((Npos (XI (XO (XI (XI (XI (XI (XO (XI (XI (XO (XO
    (XI (XO XH)))))))))))))) :: ((Npos (XI (XI (XO (XO (XO (XO (XO (XO (XO
    (XO (XO (XI (XO XH)))))))))))))) :: ((Npos (XI (XI (XO (XO (XI (XO (XO
    (XO (XI (XO (XO (XI (XO XH)))))))))))))) :: ((Npos (XI (XI (XO (XI (XO
    (XO (XO (XI (XO (XO (XO (XI (XO XH)))))))))))))) :: ((Npos (XI (XI (XO
    (XI (XI (XO (XO (XI (XI (XO (XO (XI (XO XH)))))))))))))) :: ((Npos (XI
    (XI (XI (XO (XO (XO (XI (XO (XO (XO (XO (XI (XO
    XH)))))))))))))) :: ((Npos (XI (XI (XI (XO (XI (XO (XI (XO (XI (XO (XO
    (XI (XO XH)))))))))))))) :: ((Npos (XI (XI (XI (XI (XO (XO (XI (XI (XO
    (XO (XO (XI (XO XH)))))))))))))) :: ((Npos (XI (XO XH))) :: ((Npos (XO
    (XO (XO (XO (XO (XO (XO (XO (XO (XO (XO (XI (XO
    XH)))))))))))))) :: ((Npos (XO (XO (XO (XO (XI (XI (XI (XI (XO (XO (XO
    (XI (XO XH)))))))))))))) :: ((Npos (XO (XO (XO (XI (XO (XI (XI (XO (XO
    (XO (XO (XI (XO XH)))))))))))))) :: ((Npos (XO (XO (XO (XI (XI (XI (XI
    (XO (XI (XO (XO (XI (XO XH)))))))))))))) :: ((Npos (XO (XO (XI (XO (XO
    (XI (XO (XO (XO (XO (XO (XI (XO XH)))))))))))))) :: ((Npos (XO (XO (XI
    (XO (XI (XI (XO (XO (XI (XO (XO (XI (XO XH)))))))))))))) :: ((Npos (XO
    (XO (XI (XI (XO (XI (XO (XI (XO (XO (XO (XI (XO
    XH)))))))))))))) :: ((Npos (XO (XO (XI (XI (XI (XI (XO (XI (XI (XO (XO
    (XI (XO XH)))))))))))))) :: ((Npos (XO (XI (XO (XO (XO (XO (XO (XO (XO
    (XO (XO (XI (XO XH)))))))))))))) :: ((Npos (XO (XI (XO (XO (XI (XO (XO
    (XO (XI (XO (XO (XI (XO XH)))))))))))))) :: ((Npos (XO (XI (XO (XI (XO
    (XO (XO (XI (XO (XO (XO (XI (XO XH)))))))))))))) :: ((Npos (XO (XI (XO
    (XI (XI (XO (XO (XI (XI (XO (XO (XI (XO XH)))))))))))))) :: ((Npos (XO
    (XI (XI (XO (XO (XO (XI (XO (XO (XO (XO (XI (XO
    XH)))))))))))))) :: ((Npos (XO (XI (XI (XO (XI (XO (XI (XO (XI (XO (XO
    (XI (XO XH)))))))))))))) :: ((Npos (XO (XI (XI (XI (XO (XO (XI (XI (XO
    (XO (XO (XI (XO XH)))))))))))))) :: ((Npos (XI (XO XH))) :: ((Npos (XI
    (XO (XO (XO (XO (XO (XO (XO (XO (XO (XO (XI (XO
    XH)))))))))))))) :: ((Npos (XI (XO (XO (XO (XI (XI (XI (XI (XO (XO (XO
    (XI (XO XH)))))))))))))) :: ((Npos (XI (XO (XO (XI (XO (XI (XI (XO (XO
    (XO (XO (XI (XO XH)))))))))))))) :: ((Npos (XI (XO (XO (XI (XI (XI (XI
    (XO (XI (XO (XO (XI (XO XH)))))))))))))) :: ((Npos (XI (XO (XI (XO (XO
    (XI (XO (XO (XO (XO (XO (XI (XO XH)))))))))))))) :: ((Npos (XI (XO (XI
    (XO (XI (XI (XO (XO (XI (XO (XO (XI (XO XH)))))))))))))) :: ((Npos (XI
    (XO (XI (XI (XO (XI (XO (XI (XO (XO (XO (XI (XO
    XH)))))))))))))) :: ((Npos (XI (XO (XI (XI (XI (XI (XO (XI (XI (XO (XO
    (XI (XO XH)))))))))))))) :: ((Npos (XI (XI (XO (XO (XO (XO (XO (XO (XO
    (XO (XO (XI (XO XH)))))))))))))) :: ((Npos (XI (XI (XO (XO (XI (XO (XO
    (XO (XI (XO (XO (XI (XO XH)))))))))))))) :: ((Npos (XI (XI (XO (XI (XO
    (XO (XO (XI (XO (XO (XO (XI (XO XH)))))))))))))) :: ((Npos (XI (XI (XO
    (XI (XI (XO (XO (XI (XI (XO (XO (XI (XO XH)))))))))))))) :: ((Npos (XI
    (XI (XI (XO (XO (XO (XI (XO (XO (XO (XO (XI (XO
    XH)))))))))))))) :: ((Npos (XI (XI (XI (XO (XI (XO (XI (XO (XI (XO (XO
    (XI (XO XH)))))))))))))) :: ((Npos (XI (XI (XI (XI (XO (XO (XI (XI (XO
    (XO (XO (XI (XO XH)))))))))))))) :: ((Npos (XI (XO XH))) :: ((Npos (XO
    (XO (XO (XO (XO (XO (XO (XO (XO (XO (XO (XI (XO
    XH)))))))))))))) :: ((Npos (XO (XO (XO (XO (XI (XI (XI (XI (XO (XO (XO
    (XI (XO XH)))))))))))))) :: ((Npos (XO (XO (XO (XI (XO (XI (XI (XO (XO
    (XO (XO (XI (XO XH)))))))))))))) :: ((Npos (XO (XO (XO (XI (XI (XI (XI
    (XO (XI (XO (XO (XI (XO XH)))))))))))))) :: ((Npos (XO (XO (XI (XO (XO
    (XI (XO (XO (XO (XO (XO (XI (XO XH)))))))))))))) :: ((Npos (XO (XO (XI
    (XO (XI (XI (XO (XO (XI (XO (XO (XI (XO XH)))))))))))))) :: ((Npos (XO
    (XO (XI (XI (XO (XI (XO (XI (XO (XO (XO (XI (XO
    XH)))))))))))))) :: ((Npos (XO (XO (XI (XI (XI (XI (XO (XI (XI (XO (XO
    (XI (XO XH)))))))))))))) :: ((Npos (XO (XI (XO (XO (XO (XO (XO (XO (XO
    (XO (XO (XI (XO XH)))))))))))))) :: ((Npos (XO (XI (XO (XO (XI (XO (XO
    (XO (XI (XO (XO (XI (XO XH)))))))))))))) :: ((Npos (XO (XI (XO (XI (XO
    (XO (XO (XI (XO (XO (XO (XI (XO XH)))))))))))))) :: ((Npos (XO (XI (XO
    (XI (XI (XO (XO (XI (XI (XO (XO (XI (XO XH)))))))))))))) :: ((Npos (XO
    (XI (XI (XO (XO (XO (XI (XO (XO (XO (XO (XI (XO
    XH)))))))))))))) :: ((Npos (XO (XI (XI (XO (XI (XO (XI (XO (XI (XO (XO
    (XI (XO XH)))))))))))))) :: ((Npos (XO (XI (XI (XI (XO (XO (XI (XI (XO
    (XO (XO (XI (XO XH)))))))))))))) :: ((Npos (XI (XO XH))) :: ((Npos (XI
    (XO (XO (XO (XO (XO (XO (XO (XO (XO (XO (XI (XO
    XH)))))))))))))) :: ((Npos (XI (XO (XO (XO (XI (XI (XI (XI (XO (XO (XO
    (XI (XO XH)))))))))))))) :: ((Npos (XI (XO (XO (XI (XO (XI (XI (XO (XO
    (XO (XO (XI (XO XH)))))))))))))) :: ((Npos (XI (XO (XO (XI (XI (XI (XI
    (XO (XI (XO (XO (XI (XO XH)))))))))))))) :: ((Npos (XI (XO (XI (XO (XO
    (XI (XO (XO (XO (XO (XO (XI (XO XH)))))))))))))) :: ((Npos (XI (XO (XI
    (XO (XI (XI (XO (XO (XI (XO (XO (XI (XO XH)))))))))))))) :: ((Npos (XI
    (XO (XI (XI (XO (XI (XO (XI (XO (XO (XO (XI (XO
    XH)))))))))))))) :: ((Npos (XI (XO (XI (XI (XI (XI (XO (XI (XI (XO (XO
    (XI (XO XH)))))))))))))) :: ((Npos (XI (XI (XO (XO (XO (XO (XO (XO (XO
    (XO (XO (XI (XO XH)))))))))))))) :: ((Npos (XI (XI (XO (XO (XI (XO (XO
    (XO (XI (XO (XO (XI (XO XH)))))))))))))) :: ((Npos (XI (XI (XO (XI (XO
    (XO (XO (XI (XO (XO (XO (XI (XO XH)))))))))))))) :: ((Npos (XI (XI (XO
    (XI (XI (XO (XO (XI (XI (XO (XO (XI (XO XH)))))))))))))) :: ((Npos (XI
    (XI (XI (XO (XO (XO (XI (XO (XO (XO (XO (XI (XO
    XH)))))))))))))) :: ((Npos (XI (XI (XI (XO (XI (XO (XI (XO (XI (XO (XO
    (XI (XO XH)))))))))))))) :: ((Npos (XI (XI (XI (XI (XO (XO (XI (XI (XO
    (XO (XO (XI (XO XH)))))))))))))) :: ((Npos (XI (XO XH))) :: ((Npos (XO
    (XO (XO (XO (XO (XO (XO (XO (XO (XO (XO (XI (XO
    XH)))))))))))))) :: ((Npos (XO (XO (XO (XO (XI (XI (XI (XI (XO (XO (XO
    (XI (XO XH)))))))))))))) :: ((Npos (XO (XO (XO (XI (XO (XI (XI (XO (XO
    (XO (XO (XI (XO XH)))))))))))))) :: ((Npos (XO (XO (XO (XI (XI (XI (XI
    (XO (XI (XO (XO (XI (XO XH)))))))))))))) :: ((Npos (XO (XO (XI (XO (XO
    (XI (XO (XO (XO (XO (XO (XI (XO XH)))))))))))))) :: ((Npos (XO (XO (XI
    (XO (XI (XI (XO (XO (XI (XO (XO (XI (XO XH)))))))))))))) :: ((Npos (XO
    (XO (XI (XI (XO (XI (XO (XI (XO (XO (XO (XI (XO
    XH)))))))))))))) :: ((Npos (XO (XO (XI (XI (XI (XI (XO (XI (XI (XO (XO
    (XI (XO XH)))))))))))))) :: ((Npos (XO (XI (XO (XO (XO (XO (XO (XO (XO
    (XO (XO (XI (XO XH)))))))))))))) :: ((Npos (XO (XI (XO (XO (XI (XO (XO
    (XO (XI (XO (XO (XI (XO XH)))))))))))))) :: ((Npos (XO (XI (XO (XI (XO
    (XO (XO (XI (XO (XO (XO (XI (XO XH)))))))))))))) :: ((Npos (XO (XI (XO
    (XI (XI (XO (XO (XI (XI (XO (XO (XI (XO XH)))))))))))))) :: ((Npos (XO
    (XI (XI (XO (XO (XO (XI (XO (XO (XO (XO (XI (XO
    XH)))))))))))))) :: ((Npos (XO (XI (XI (XO (XI (XO (XI (XO (XI (XO (XO
    (XI (XO XH)))))))))))))) :: ((Npos (XO (XI (XI (XI (XO (XO (XI (XI (XO
    (XO (XO (XI (XO XH)))))))))))))) :: ((Npos (XI (XO XH))) :: ((Npos (XI
    (XO (XO (XO (XO (XO (XO (XO (XO (XO (XO (XI (XO
    XH)))))))))))))) :: ((Npos (XI (XO (XO (XO (XI (XI (XI (XI (XO (XO (XO
    (XI (XO XH)))))))))))))) :: ((Npos (XI (XO (XO (XI (XO (XI (XI (XO (XO
    (XO (XO (XI (XO XH)))))))))))))) :: ((Npos (XI (XO (XO (XI (XI (XI (XI
    (XO (XI (XO (XO (XI (XO XH)))))))))))))) :: ((Npos (XI (XO (XI (XO (XO
    (XI (XO (XO (XO (XO (XO (XI (XO XH)))))))))))))) :: ((Npos (XI (XO (XI
    (XO (XI (XI (XO (XO (XI (XO (XO (XI (XO XH)))))))))))))) :: ((Npos (XI
    (XO (XI (XI (XO (XI (XO (XI (XO (XO (XO (XI (XO
    XH)))))))))))))) :: ((Npos (XI (XO (XI (XI (XI (XI (XO (XI (XI (XO (XO
    (XI (XO XH)))))))))))))) :: ((Npos (XI (XI (XO (XO (XO (XO (XO (XO (XO
    (XO (XO (XI (XO XH)))))))))))))) :: ((Npos (XI (XI (XO (XO (XI (XO (XO
    (XO (XI (XO (XO (XI (XO XH)))))))))))))) :: ((Npos (XI (XI (XO (XI (XO
    (XO (XO (XI (XO (XO (XO (XI (XO XH)))))))))))))) :: ((Npos (XI (XI (XO
    (XI (XI (XO (XO (XI (XI (XO (XO (XI (XO XH)))))))))))))) :: ((Npos (XI
    (XI (XI (XO (XO (XO (XI (XO (XO (XO (XO (XI (XO
    XH)))))))))))))) :: ((Npos (XI (XI (XI (XO (XI (XO (XI (XO (XI (XO (XO
    (XI (XO XH)))))))))))))) :: ((Npos (XI (XI (XI (XI (XO (XO (XI (XI (XO
    (XO (XO (XI (XO XH)))))))))))))) :: ((Npos (XI (XO XH))) :: ((Npos (XO
    (XO (XO (XO (XO (XO (XO (XO (XO (XO (XO (XI (XO
    XH)))))))))))))) :: ((Npos (XO (XO (XO (XO (XI (XI (XI (XI (XO (XO (XO
    (XI (XO XH)))))))))))))) :: ((Npos (XO (XO (XO (XI (XO (XI (XI (XO (XO
    (XO (XO (XI (XO XH)))))))))))))) :: ((Npos (XO (XO (XO (XI (XI (XI (XI
    (XO (XI (XO (XO (XI (XO XH)))))))))))))) :: ((Npos (XO (XO (XI (XO (XO
    (XI (XO (XO (XO (XO (XO (XI (XO XH)))))))))))))) :: ((Npos (XO (XO (XI
    (XO (XI (XI (XO (XO (XI (XO (XO (XI (XO XH)))))))))))))) :: ((Npos (XO
    (XO (XI (XI (XO (XI (XO (XI (XO (XO (XO (XI (XO
    XH)))))))))))))) :: ((Npos (XO (XO (XI (XI (XI (XI (XO (XI (XI (XO (XO
    (XI (XO XH)))))))))))))) :: ((Npos (XO (XI (XO (XO (XO (XO (XO (XO (XO
    (XO (XO (XI (XO XH)))))))))))))) :: ((Npos (XO (XI (XO (XO (XI (XO (XO
    (XO (XI (XO (XO (XI (XO XH)))))))))))))) :: ((Npos (XO (XI (XO (XI (XO
    (XO (XO (XI (XO (XO (XO (XI (XO XH)))))))))))))) :: ((Npos (XO (XI (XO
    (XI (XI (XO (XO (XI (XI (XO (XO (XI (XO XH)))))))))))))) :: ((Npos (XO
    (XI (XI (XO (XO (XO (XI (XO (XO (XO (XO (XI (XO
    XH)))))))))))))) :: ((Npos (XO (XI (XI (XO (XI (XO (XI (XO (XI (XO (XO
    (XI (XO XH)))))))))))))) :: ((Npos (XO (XI (XI (XI (XO (XO (XI (XI (XO
    (XO (XO (XI (XO XH)))))))))))))) :: ((Npos (XI (XO XH))) :: ((Npos (XI
    (XO (XO (XO (XO (XO (XO (XO (XO (XO (XO (XI (XO
    XH)))))))))))))) :: ((Npos (XI (XO (XO (XO (XI (XI (XI (XI (XO (XO (XO
    (XI (XO XH)))))))))))))) :: ((Npos (XI (XO (XO (XI (XO (XI (XI (XO (XO
    (XO (XO (XI (XO XH)))))))))))))) :: ((Npos (XI (XO (XO (XI (XI (XI (XI
    (XO (XI (XO (XO (XI (XO XH)))))))))))))) :: ((Npos (XI (XO (XI (XO (XO
    (XI (XO (XO (XO (XO (XO (XI (XO XH)))))))))))))) :: ((Npos (XI (XO (XI
    (XO (XI (XI (XO (XO (XI (XO (XO (XI (XO XH)))))))))))))) :: ((Npos (XI
    (XO (XI (XI (XO (XI (XO (XI (XO (XO (XO (XI (XO
    XH)))))))))))))) :: ((Npos (XI (XO (XI (XI (XI (XI (XO (XI (XI (XO (XO
    (XI (XO XH)))))))))))))) :: ((Npos (XI (XI (XO (XO (XO (XO (XO (XO (XO
    (XO (XO (XI (XO XH)))))))))))))) :: ((Npos (XI (XI (XO (XO (XI (XO (XO
    (XO (XI (XO (XO (XI (XO XH)))))))))))))) :: ((Npos (XI (XI (XO (XI (XO
    (XO (XO (XI (XO (XO (XO (XI (XO XH)))))))))))))) :: ((Npos (XI (XI (XO
    (XI (XI (XO (XO (XI (XI (XO (XO (XI (XO XH)))))))))))))) :: ((Npos (XI
    (XI (XI (XO (XO (XO (XI (XO (XO (XO (XO (XI (XO
    XH)))))))))))))) :: ((Npos (XI (XI (XI (XO (XI (XO (XI (XO (XI (XO (XO
    (XI (XO XH)))))))))))))) :: ((Npos (XI (XI (XI (XI (XO (XO (XI (XI (XO
    (XO (XO (XI (XO XH)))))))))))))) :: ((Npos (XI (XO XH))) :: ((Npos (XO
    (XO (XO (XO (XO (XO (XO (XO (XO (XO (XO (XI (XO
    XH)))))))))))))) :: ((Npos (XO (XO (XO (XO (XI (XI (XI (XI (XO (XO (XO
    (XI (XO XH)))))))))))))) :: ((Npos (XO (XO (XO (XI (XO (XI (XI (XO (XO
    (XO (XO (XI (XO XH)))))))))))))) :: ((Npos (XO (XO (XO (XI (XI (XI (XI
    (XO (XI (XO (XO (XI (XO XH)))))))))))))) :: ((Npos (XO (XO (XI (XO (XO
    (XI (XO (XO (XO (XO (XO (XI (XO XH)))))))))))))) :: ((Npos (XO (XO (XI
    (XO (XI (XI (XO (XO (XI (XO (XO (XI (XO XH)))))))))))))) :: ((Npos (XO
    (XO (XI (XI (XO (XI (XO (XI (XO (XO (XO (XI (XO
    XH)))))))))))))) :: ((Npos (XO (XO (XI (XI (XI (XI (XO (XI (XI (XO (XO
    (XI (XO XH)))))))))))))) :: ((Npos (XO (XI (XO (XO (XO (XO (XO (XO (XO
    (XO (XO (XI (XO XH)))))))))))))) :: ((Npos (XO (XI (XO (XO (XI (XO (XO
    (XO (XI (XO (XO (XI (XO XH)))))))))))))) :: ((Npos (XO (XI (XO (XI (XO
    (XO (XO (XI (XO (XO (XO (XI (XO XH)))))))))))))) :: ((Npos (XO (XI (XO
    (XI (XI (XO (XO (XI (XI (XO (XO (XI (XO XH)))))))))))))) :: ((Npos (XO
    (XI (XI (XO (XO (XO (XI (XO (XO (XO (XO (XI (XO
    XH)))))))))))))) :: ((Npos (XO (XI (XI (XO (XI (XO (XI (XO (XI (XO (XO
    (XI (XO XH)))))))))))))) :: ((Npos (XO (XI (XI (XI (XO (XO (XI (XI (XO
    (XO (XO (XI (XO XH)))))))))))))) :: ((Npos (XI (XO XH))) :: ((Npos (XI
    (XO (XO (XO (XO (XO (XO (XO (XO (XO (XO (XI (XO
    XH)))))))))))))) :: ((Npos (XI (XO (XO (XO (XI (XI (XI (XI (XO (XO (XO
    (XI (XO XH)))))))))))))) :: ((Npos (XI (XO (XO (XI (XO (XI (XI (XO (XO
    (XO (XO (XI (XO XH)))))))))))))) :: ((Npos (XI (XO (XO (XI (XI (XI (XI
    (XO (XI (XO (XO (XI (XO XH)))))))))))))) :: ((Npos (XI (XO (XI (XO (XO
    (XI (XO (XO (XO (XO (XO (XI (XO XH)))))))))))))) :: ((Npos (XI (XO (XI
    (XO (XI (XI (XO (XO (XI (XO (XO (XI (XO XH)))))))))))))) :: ((Npos (XI
    (XO (XI (XI (XO (XI (XO (XI (XO (XO (XO (XI (XO
    XH)))))))))))))) :: ((Npos (XI (XO (XI (XI (XI (XI (XO (XI (XI (XO (XO
    (XI (XO XH)))))))))))))) :: ((Npos (XI (XI (XO (XO (XO (XO (XO (XO (XO
    (XO (XO (XI (XO XH)))))))))))))) :: ((Npos (XI (XI (XO (XO (XI (XO (XO
    (XO (XI (XO (XO (XI (XO XH)))))))))))))) :: ((Npos (XI (XI (XO (XI (XO
    (XO (XO (XI (XO (XO (XO (XI (XO XH)))))))))))))) :: ((Npos (XI (XI (XO
    (XI (XI (XO (XO (XI (XI (XO (XO (XI (XO XH)))))))))))))) :: ((Npos (XI
    (XI (XI (XO (XO (XO (XI (XO (XO (XO (XO (XI (XO
    XH)))))))))))))) :: ((Npos (XI (XI (XI (XO (XI (XO (XI (XO (XI (XO (XO
    (XI (XO XH)))))))))))))) :: ((Npos (XI (XI (XI (XI (XO (XO (XI (XI (XO
    (XO (XO (XI (XO XH)))))))))))))) :: ((Npos (XI (XO XH))) :: ((Npos (XO
    (XO (XO (XO (XO (XO (XO (XO (XO (XO (XO (XI (XO
    XH)))))))))))))) :: ((Npos (XO (XO (XO (XO (XI (XI (XI (XI (XO (XO (XO
    (XI (XO XH)))))))))))))) :: ((Npos (XO (XO (XO (XI (XO (XI (XI (XO (XO
    (XO (XO (XI (XO XH)))))))))))))) :: ((Npos (XO (XO (XO (XI (XI (XI (XI
    (XO (XI (XO (XO (XI (XO XH)))))))))))))) :: ((Npos (XO (XO (XI (XO (XO
    (XI (XO (XO (XO (XO (XO (XI (XO XH)))))))))))))) :: ((Npos (XO (XO (XI
    (XO (XI (XI (XO (XO (XI (XO (XO (XI (XO XH)))))))))))))) :: ((Npos (XO
    (XO (XI (XI (XO (XI (XO (XI (XO (XO (XO (XI (XO
    XH)))))))))))))) :: ((Npos (XO (XO (XI (XI (XI (XI (XO (XI (XI (XO (XO
    (XI (XO XH)))))))))))))) :: ((Npos (XO (XI (XO (XO (XO (XO (XO (XO (XO
    (XO (XO (XI (XO XH)))))))))))))) :: ((Npos (XO (XI (XO (XO (XI (XO (XO
    (XO (XI (XO (XO (XI (XO XH)))))))))))))) :: ((Npos (XO (XI (XO (XI (XO
    (XO (XO (XI (XO (XO (XO (XI (XO XH)))))))))))))) :: ((Npos (XO (XI (XO
    (XI (XI (XO (XO (XI (XI (XO (XO (XI (XO XH)))))))))))))) :: ((Npos (XO
    (XI (XI (XO (XO (XO (XI (XO (XO (XO (XO (XI (XO
    XH)))))))))))))) :: ((Npos (XO (XI (XI (XO (XI (XO (XI (XO (XI (XO (XO
    (XI (XO XH)))))))))))))) :: ((Npos (XO (XI (XI (XI (XO (XO (XI (XI (XO
    (XO (XO (XI (XO XH)))))))))))))) :: ((Npos (XI (XO XH))) :: ((Npos (XI
    (XO (XO (XO (XO (XO (XO (XO (XO (XO (XO (XI (XO
    XH)))))))))))))) :: ((Npos (XI (XO (XO (XO (XI (XI (XI (XI (XO (XO (XO
    (XI (XO XH)))))))))))))) :: ((Npos (XI (XO (XO (XI (XO (XI (XI (XO (XO
    (XO (XO (XI (XO XH)))))))))))))) :: ((Npos (XI (XO (XO (XI (XI (XI (XI
    (XO (XI (XO (XO (XI (XO XH)))))))))))))) :: ((Npos (XI (XO (XI (XO (XO
    (XI (XO (XO (XO (XO (XO (XI (XO XH)))))))))))))) :: ((Npos (XI (XO (XI
    (XO (XI (XI (XO (XO (XI (XO (XO (XI (XO XH)))))))))))))) :: ((Npos (XI
    (XO (XI (XI (XO (XI (XO (XI (XO (XO (XO (XI (XO
    XH)))))))))))))) :: ((Npos (XI (XO (XI (XI (XI (XI (XO (XI (XI (XO (XO
    (XI (XO XH)))))))))))))) :: ((Npos (XI (XI (XO (XO (XO (XO (XO (XO (XO
    (XO (XO (XI (XO XH)))))))))))))) :: ((Npos (XI (XI (XO (XO (XI (XO (XO
    (XO (XI (XO (XO (XI (XO XH)))))))))))))) :: ((Npos (XI (XI (XO (XI (XO
    (XO (XO (XI (XO (XO (XO (XI (XO XH)))))))))))))) :: ((Npos (XI (XI (XO
    (XI (XI (XO (XO (XI (XI (XO (XO (XI (XO XH)))))))))))))) :: ((Npos (XI
    (XI (XI (XO (XO (XO (XI (XO (XO (XO (XO (XI (XO
    XH)))))))))))))) :: ((Npos (XI (XI (XI (XO (XI (XO (XI (XO (XI (XO (XO
    (XI (XO XH)))))))))))))) :: ((Npos (XI (XI (XI (XI (XO (XO (XI (XI (XO
    (XO (XO (XI (XO XH)))))))))))))) :: ((Npos (XI (XO XH))) :: ((Npos (XO
    (XO (XO (XO (XO (XO (XO (XO (XO (XO (XO (XI (XO
    XH)))))))))))))) :: ((Npos (XO (XO (XO (XO (XI (XI (XI (XI (XO (XO (XO
    (XI (XO XH)))))))))))))) :: ((Npos (XO (XO (XO (XI (XO (XI (XI (XO (XO
    (XO (XO (XI (XO XH)))))))))))))) :: ((Npos (XO (XO (XO (XI (XI (XI (XI
    (XO (XI (XO (XO (XI (XO XH)))))))))))))) :: ((Npos (XO (XO (XI (XO (XO
    (XI (XO (XO (XO (XO (XO (XI (XO XH)))))))))))))) :: ((Npos (XO (XO (XI
    (XO (XI (XI (XO (XO (XI (XO (XO (XI (XO XH)))))))))))))) :: ((Npos (XO
    (XO (XI (XI (XO (XI (XO (XI (XO (XO (XO (XI (XO
    XH)))))))))))))) :: ((Npos (XO (XO (XI (XI (XI (XI (XO (XI (XI (XO (XO
    (XI (XO XH)))))))))))))) :: ((Npos (XO (XI (XO (XO (XO (XO (XO (XO (XO
    (XO (XO (XI (XO XH)))))))))))))) :: ((Npos (XO (XI (XO (XO (XI (XO (XO
    (XO (XI (XO (XO (XI (XO XH)))))))))))))) :: ((Npos (XO (XI (XO (XI (XO
    (XO (XO (XI (XO (XO (XO (XI (XO XH)))))))))))))) :: ((Npos (XO (XI (XO
    (XI (XI (XO (XO (XI (XI (XO (XO (XI (XO XH)))))))))))))) :: ((Npos (XO
    (XI (XI (XO (XO (XO (XI (XO (XO (XO (XO (XI (XO
    XH)))))))))))))) :: ((Npos (XO (XI (XI (XO (XI (XO (XI (XO (XI (XO (XO
    (XI (XO XH)))))))))))))) :: ((Npos (XO (XI (XI (XI (XO (XO (XI (XI (XO
    (XO (XO (XI (XO XH)))))))))))))) :: ((Npos (XI (XO XH))) :: ((Npos (XI
    (XO (XO (XO (XO (XO (XO (XO (XO (XO (XO (XI (XO
    XH)))))))))))))) :: ((Npos (XI (XO (XO (XO (XI (XI (XI (XI (XO (XO (XO
    (XI (XO XH)))))))))))))) :: ((Npos (XI (XO (XO (XI (XO (XI (XI (XO (XO
    (XO (XO (XI (XO XH)))))))))))))) :: ((Npos (XI (XO (XO (XI (XI (XI (XI
    (XO (XI (XO (XO (XI (XO XH)))))))))))))) :: ((Npos (XI (XO (XI (XO (XO
    (XI (XO (XO (XO (XO (XO (XI (XO XH)))))))))))))) :: ((Npos (XI (XO (XI
    (XO (XI (XI (XO (XO (XI (XO (XO (XI (XO XH)))))))))))))) :: ((Npos (XI
    (XO (XI (XI (XO (XI (XO (XI (XO (XO (XO (XI (XO
    XH)))))))))))))) :: ((Npos (XI (XO (XI (XI (XI (XI (XO (XI (XI (XO (XO
    (XI (XO XH)))))))))))))) :: ((Npos (XI (XI (XO (XO (XO (XO (XO (XO (XO
    (XO (XO (XI (XO XH)))))))))))))) :: ((Npos (XI (XI (XO (XO (XI (XO (XO
    (XO (XI (XO (XO (XI (XO XH)))))))))))))) :: ((Npos (XI (XI (XO (XI (XO
    (XO (XO (XI (XO (XO (XO (XI (XO XH)))))))))))))) :: ((Npos (XI (XI (XO
    (XI (XI (XO (XO (XI (XI (XO (XO (XI (XO XH)))))))))))))) :: ((Npos (XI
    (XI (XI (XO (XO (XO (XI (XO (XO (XO (XO (XI (XO
    XH)))))))))))))) :: ((Npos (XI (XI (XI (XO (XI (XO (XI (XO (XI (XO (XO
    (XI (XO XH)))))))))))))) :: ((Npos (XI (XI (XI (XI (XO (XO (XI (XI (XO
    (XO (XO (XI (XO XH)))))))))))))) :: ((Npos (XI (XO XH))) :: ((Npos (XO
    (XO (XO (XO (XO (XO (XO (XO (XO (XO (XO (XI (XO
    XH)))))))))))))) :: ((Npos (XO (XO (XO (XO (XI (XI (XI (XI (XO (XO (XO
    (XI (XO XH)))))))))))))) :: ((Npos (XO (XO (XO (XI (XO (XI (XI (XO (XO
    (XO (XO (XI (XO XH)))))))))))))) :: ((Npos (XO (XO (XO (XI (XI (XI (XI
    (XO (XI (XO (XO (XI (XO XH)))))))))))))) :: ((Npos (XO (XO (XI (XO (XO
    (XI (XO (XO (XO (XO (XO (XI (XO XH)))))))))))))) :: ((Npos (XO (XO (XI
    (XO (XI (XI (XO (XO (XI (XO (XO (XI (XO XH)))))))))))))) :: ((Npos (XO
    (XO (XI (XI (XO (XI (XO (XI (XO (XO (XO (XI (XO
    XH)))))))))))))) :: ((Npos (XO (XO (XI (XI (XI (XI (XO (XI (XI (XO (XO
    (XI (XO XH)))))))))))))) :: ((Npos (XO (XI (XO (XO (XO (XO (XO (XO (XO
    (XO (XO (XI (XO XH)))))))))))))) :: ((Npos (XO (XI (XO (XO (XI (XO (XO
    (XO (XI (XO (XO (XI (XO XH)))))))))))))) :: ((Npos (XO (XI (XO (XI (XO
    (XO (XO (XI (XO (XO (XO (XI (XO XH)))))))))))))) :: ((Npos (XO (XI (XO
    (XI (XI (XO (XO (XI (XI (XO (XO (XI (XO XH)))))))))))))) :: ((Npos (XO
    (XI (XI (XO (XO (XO (XI (XO (XO (XO (XO (XI (XO
    XH)))))))))))))) :: ((Npos (XO (XI (XI (XO (XI (XO (XI (XO (XI (XO (XO
    (XI (XO XH)))))))))))))) :: ((Npos (XO (XI (XI (XI (XO (XO (XI (XI (XO
    (XO (XO (XI (XO XH)))))))))))))) :: ((Npos (XI (XO XH))) :: ((Npos (XI
    (XO (XO (XO (XO (XO (XO (XO (XO (XO (XO (XI (XO
    XH)))))))))))))) :: ((Npos (XI (XO (XO (XO (XI (XI (XI (XI (XO (XO (XO
    (XI (XO XH)))))))))))))) :: ((Npos (XI (XO (XO (XI (XO (XI (XI (XO (XO
    (XO (XO (XI (XO XH)))))))))))))) :: ((Npos (XI (XO (XO (XI (XI (XI (XI
    (XO (XI (XO (XO (XI (XO XH)))))))))))))) :: ((Npos (XI (XO (XI (XO (XO
    (XI (XO (XO (XO (XO (XO (XI (XO XH)))))))))))))) :: ((Npos (XI (XO (XI
    (XO (XI (XI (XO (XO (XI (XO (XO (XI (XO XH)))))))))))))) :: ((Npos (XI
    (XO (XI (XI (XO (XI (XO (XI (XO (XO (XO (XI (XO
    XH)))))))))))))) :: ((Npos (XI (XO (XI (XI (XI (XI (XO (XI (XI (XO (XO
    (XI (XO XH)))))))))))))) :: ((Npos (XI (XI (XO (XO (XO (XO (XO (XO (XO
    (XO (XO (XI (XO XH)))))))))))))) :: ((Npos (XI (XI (XO (XO (XI (XO (XO
    (XO (XI (XO (XO (XI (XO XH)))))))))))))) :: ((Npos (XI (XI (XO (XI (XO
    (XO (XO (XI (XO (XO (XO (XI (XO XH)))))))))))))) :: ((Npos (XI (XI (XO
    (XI (XI (XO (XO (XI (XI (XO (XO (XI (XO XH)))))))))))))) :: ((Npos (XI
    (XI (XI (XO (XO (XO (XI (XO (XO (XO (XO (XI (XO
    XH)))))))))))))) :: ((Npos (XI (XI (XI (XO (XI (XO (XI (XO (XI (XO (XO
    (XI (XO XH)))))))))))))) :: ((Npos (XI (XI (XI (XI (XO (XO (XI (XI (XO
    (XO (XO (XI (XO XH)))))))))))))) :: ((Npos (XI (XO XH))) :: ((Npos (XO
    (XO (XO (XO (XO (XO (XO (XO (XO (XO (XO (XI (XO
    XH)))))))))))))) :: ((Npos (XO (XO (XO (XO (XI (XI (XI (XI (XO (XO (XO
    (XI (XO XH)))))))))))))) :: ((Npos (XO (XO (XO (XI (XO (XI (XI (XO (XO
    (XO (XO (XI (XO XH)))))))))))))) :: ((Npos (XO (XO (XO (XI (XI (XI (XI
    (XO (XI (XO (XO (XI (XO XH)))))))))))))) :: ((Npos (XO (XO (XI (XO (XO
    (XI (XO (XO (XO (XO (XO (XI (XO XH)))))))))))))) :: ((Npos (XO (XO (XI
    (XO (XI (XI (XO (XO (XI (XO (XO (XI (XO XH)))))))))))))) :: ((Npos (XO
    (XO (XI (XI (XO (XI (XO (XI (XO (XO (XO (XI (XO
    XH)))))))))))))) :: ((Npos (XO (XO (XI (XI (XI (XI (XO (XI (XI (XO (XO
    (XI (XO XH)))))))))))))) :: ((Npos (XO (XI (XO (XO (XO (XO (XO (XO (XO
    (XO (XO (XI (XO XH)))))))))))))) :: ((Npos (XO (XI (XO (XO (XI (XO (XO
    (XO (XI (XO (XO (XI (XO XH)))))))))))))) :: ((Npos (XO (XI (XO (XI (XO
    (XO (XO (XI (XO (XO (XO (XI (XO XH)))))))))))))) :: ((Npos (XO (XI (XO
    (XI (XI (XO (XO (XI (XI (XO (XO (XI (XO XH)))))))))))))) :: ((Npos (XO
    (XI (XI (XO (XO (XO (XI (XO (XO (XO (XO (XI (XO
    XH)))))))))))))) :: ((Npos (XO (XI (XI (XO (XI (XO (XI (XO (XI (XO (XO
    (XI (XO XH)))))))))))))) :: ((Npos (XO (XI (XI (XI (XO (XO (XI (XI (XO
    (XO (XO (XI (XO XH)))))))))))))) :: ((Npos (XI (XO XH))) :: ((Npos (XI
    (XO (XO (XO (XO (XO (XO (XO (XO (XO (XO (XI (XO
    XH)))))))))))))) :: ((Npos (XI (XO (XO (XO (XI (XI (XI (XI (XO (XO (XO
    (XI (XO XH)))))))))))))) :: ((Npos (XI (XO (XO (XI (XO (XI (XI (XO (XO
    (XO (XO (XI (XO XH)))))))))))))) :: ((Npos (XI (XO (XO (XI (XI (XI (XI
    (XO (XI (XO (XO (XI (XO XH)))))))))))))) :: ((Npos (XI (XO (XI (XO (XO
    (XI (XO (XO (XO (XO (XO (XI (XO XH)))))))))))))) :: ((Npos (XI (XO (XI
    (XO (XI (XI (XO (XO (XI (XO (XO (XI (XO XH)))))))))))))) :: ((Npos (XI
    (XO (XI (XI (XO (XI (XO (XI (XO (XO (XO (XI (XO
    XH)))))))))))))) :: ((Npos (XI (XO (XI (XI (XI (XI (XO (XI (XI (XO (XO
    (XI (XO XH)))))))))))))) :: ((Npos (XI (XI (XO (XO (XO (XO (XO (XO (XO
    (XO (XO (XI (XO XH)))))))))))))) :: ((Npos (XI (XI (XO (XO (XI (XO (XO
    (XO (XI (XO (XO (XI (XO XH)))))))))))))) :: ((Npos (XI (XI (XO (XI (XO
    (XO (XO (XI (XO (XO (XO (XI (XO XH)))))))))))))) :: ((Npos (XI (XI (XO
    (XI (XI (XO (XO (XI (XI (XO (XO (XI (XO XH)))))))))))))) :: ((Npos (XI
    (XI (XI (XO (XO (XO (XI (XO (XO (XO (XO (XI (XO
    XH)))))))))))))) :: ((Npos (XI (XI (XI (XO (XI (XO (XI (XO (XI (XO (XO
    (XI (XO XH)))))))))))))) :: ((Npos (XI (XI (XI (XI (XO (XO (XI (XI (XO
    (XO (XO (XI (XO XH)))))))))))))) :: ((Npos (XI (XO XH))) :: ((Npos (XO
    (XO (XO (XO (XO (XO (XO (XO (XO (XO (XO (XI (XO
    XH)))))))))))))) :: ((Npos (XO (XO (XO (XO (XI (XI (XI (XI (XO (XO (XO
    (XI (XO XH)))))))))))))) :: ((Npos (XO (XO (XO (XI (XO (XI (XI (XO (XO
    (XO (XO (XI (XO XH)))))))))))))) :: ((Npos (XO (XO (XO (XI (XI (XI (XI
    (XO (XI (XO (XO (XI (XO XH)))))))))))))) :: ((Npos (XO (XO (XI (XO (XO
    (XI (XO (XO (XO (XO (XO (XI (XO XH)))))))))))))) :: ((Npos (XO (XO (XI
    (XO (XI (XI (XO (XO (XI (XO (XO (XI (XO XH)))))))))))))) :: ((Npos (XO
    (XO (XI (XI (XO (XI (XO (XI (XO (XO (XO (XI (XO
    XH)))))))))))))) :: ((Npos (XO (XO (XI (XI (XI (XI (XO (XI (XI (XO (XO
    (XI (XO XH)))))))))))))) :: ((Npos (XO (XI (XO (XO (XO (XO (XO (XO (XO
    (XO (XO (XI (XO XH)))))))))))))) :: ((Npos (XO (XI (XO (XO (XI (XO (XO
    (XO (XI (XO (XO (XI (XO XH)))))))))))))) :: ((Npos (XO (XI (XO (XI (XO
    (XO (XO (XI (XO (XO (XO (XI (XO XH)))))))))))))) :: ((Npos (XO (XI (XO
    (XI (XI (XO (XO (XI (XI (XO (XO (XI (XO XH)))))))))))))) :: ((Npos (XO
    (XI (XI (XO (XO (XO (XI (XO (XO (XO (XO (XI (XO
    XH)))))))))))))) :: ((Npos (XO (XI (XI (XO (XI (XO (XI (XO (XI (XO (XO
    (XI (XO XH)))))))))))))) :: ((Npos (XO (XI (XI (XI (XO (XO (XI (XI (XO
    (XO (XO (XI (XO XH)))))))))))))) :: ((Npos (XI (XO XH))) :: ((Npos (XI
    (XO (XO (XO (XO (XO (XO (XO (XO (XO (XO (XI (XO
    XH)))))))))))))) :: ((Npos (XI (XO (XO (XO (XI (XI (XI (XI (XO (XO (XO
    (XI (XO XH)))))))))))))) :: ((Npos (XI (XO (XO (XI (XO (XI (XI (XO (XO
    (XO (XO (XI (XO XH)))))))))))))) :: ((Npos (XI (XO (XO (XI (XI (XI (XI
    (XO (XI (XO (XO (XI (XO XH)))))))))))))) :: ((Npos (XI (XO (XI (XO (XO
    (XI (XO (XO (XO (XO (XO (XI (XO XH)))))))))))))) :: ((Npos (XI (XO (XI
    (XO (XI (XI (XO (XO (XI (XO (XO (XI (XO XH)))))))))))))) :: ((Npos (XI
    (XO (XI (XI (XO (XI (XO (XI (XO (XO (XO (XI (XO
    XH)))))))))))))) :: ((Npos (XI (XO (XI (XI (XI (XI (XO (XI (XI (XO (XO
    (XI (XO XH)))))))))))))) :: ((Npos (XI (XI (XO (XO (XO (XO (XO (XO (XO
    (XO (XO (XI (XO XH)))))))))))))) :: ((Npos (XI (XI (XO (XO (XI (XO (XO
    (XO (XI (XO (XO (XI (XO XH)))))))))))))) :: ((Npos (XI (XI (XO (XI (XO
    (XO (XO (XI (XO (XO (XO (XI (XO XH)))))))))))))) :: ((Npos (XI (XI (XO
    (XI (XI (XO (XO (XI (XI (XO (XO (XI (XO XH)))))))))))))) :: ((Npos (XI
    (XI (XI (XO (XO (XO (XI (XO (XO (XO (XO (XI (XO
    XH)))))))))))))) :: ((Npos (XI (XI (XI (XO (XI (XO (XI (XO (XI (XO (XO
    (XI (XO XH)))))))))))))) :: ((Npos (XI (XI (XI (XI (XO (XO (XI (XI (XO
    (XO (XO (XI (XO XH)))))))))))))) :: ((Npos (XI (XO XH))) :: ((Npos (XO
    (XO (XO (XO (XO (XO (XO (XO (XO (XO (XO (XI (XO
    XH)))))))))))))) :: ((Npos (XO (XO (XO (XO (XI (XI (XI (XI (XO (XO (XO
    (XI (XO XH)))))))))))))) :: ((Npos (XO (XO (XO (XI (XO (XI (XI (XO (XO
    (XO (XO (XI (XO XH)))))))))))))) :: ((Npos (XO (XO (XO (XI (XI (XI (XI
    (XO (XI (XO (XO (XI (XO XH)))))))))))))) :: ((Npos (XO (XO (XI (XO (XO
    (XI (XO (XO (XO (XO (XO (XI (XO XH)))))))))))))) :: ((Npos (XO (XO (XI
    (XO (XI (XI (XO (XO (XI (XO (XO (XI (XO XH)))))))))))))) :: ((Npos (XO
    (XO (XI (XI (XO (XI (XO (XI (XO (XO (XO (XI (XO
    XH)))))))))))))) :: ((Npos (XO (XO (XI (XI (XI (XI (XO (XI (XI (XO (XO
    (XI (XO XH)))))))))))))) :: ((Npos (XO (XI (XO (XO (XO (XO (XO (XO (XO
    (XO (XO (XI (XO XH)))))))))))))) :: ((Npos (XO (XI (XO (XO (XI (XO (XO
    (XO (XI (XO (XO (XI (XO XH)))))))))))))) :: ((Npos (XO (XI (XO (XI (XO
    (XO (XO (XI (XO (XO (XO (XI (XO XH)))))))))))))) :: ((Npos (XO (XI (XO
    (XI (XI (XO (XO (XI (XI (XO (XO (XI (XO XH)))))))))))))) :: ((Npos (XO
    (XI (XI (XO (XO (XO (XI (XO (XO (XO (XO (XI (XO
    XH)))))))))))))) :: ((Npos (XO (XI (XI (XO (XI (XO (XI (XO (XI (XO (XO
    (XI (XO XH)))))))))))))) :: ((Npos (XO (XI (XI (XI (XO (XO (XI (XI (XO
    (XO (XO (XI (XO XH)))))))))))))) :: ((Npos (XI (XO XH))) :: ((Npos (XI
    (XO (XO (XO (XO (XO (XO (XO (XO (XO (XO (XI (XO
    XH)))))))))))))) :: ((Npos (XI (XO (XO (XO (XI (XI (XI (XI (XO (XO (XO
    (XI (XO XH)))))))))))))) :: ((Npos (XI (XO (XO (XI (XO (XI (XI (XO (XO
    (XO (XO (XI (XO XH)))))))))))))) :: ((Npos (XI (XO (XO (XI (XI (XI (XI
    (XO (XI (XO (XO (XI (XO XH)))))))))))))) :: ((Npos (XI (XO (XI (XO (XO
    (XI (XO (XO (XO (XO (XO (XI (XO XH)))))))))))))) :: ((Npos (XI (XO (XI
    (XO (XI (XI (XO (XO (XI (XO (XO (XI (XO XH)))))))))))))) :: ((Npos (XI
    (XO (XI (XI (XO (XI (XO (XI (XO (XO (XO (XI (XO
    XH)))))))))))))) :: ((Npos (XI (XO (XI (XI (XI (XI (XO (XI (XI (XO (XO
    (XI (XO XH)))))))))))))) :: ((Npos (XI (XI (XO (XO (XO (XO (XO (XO (XO
    (XO (XO (XI (XO XH)))))))))))))) :: ((Npos (XI (XI (XO (XO (XI (XO (XO
    (XO (XI (XO (XO (XI (XO XH)))))))))))))) :: ((Npos (XI (XI (XO (XI (XO
    (XO (XO (XI (XO (XO (XO (XI (XO XH)))))))))))))) :: ((Npos (XI (XI (XO
    (XI (XI (XO (XO (XI (XI (XO (XO (XI (XO XH)))))))))))))) :: ((Npos (XI
    (XI (XI (XO (XO (XO (XI (XO (XO (XO (XO (XI (XO
    XH)))))))))))))) :: ((Npos (XI (XI (XI (XO (XI (XO (XI (XO (XI (XO (XO
    (XI (XO XH)))))))))))))) :: ((Npos (XI (XI (XI (XI (XO (XO (XI (XI (XO
    (XO (XO (XI (XO XH)))))))))))))) :: ((Npos (XI (XO XH))) :: ((Npos (XO
    (XO (XO (XO (XO (XO (XO (XO (XO (XO (XO (XI (XO
    XH)))))))))))))) :: ((Npos (XO (XO (XO (XO (XI (XI (XI (XI (XO (XO (XO
    (XI (XO XH)))))))))))))) :: ((Npos (XO (XO (XO (XI (XO (XI (XI (XO (XO
    (XO (XO (XI (XO XH)))))))))))))) :: ((Npos (XO (XO (XO (XI (XI (XI (XI
    (XO (XI (XO (XO (XI (XO XH)))))))))))))) :: ((Npos (XO (XO (XI (XO (XO
    (XI (XO (XO (XO (XO (XO (XI (XO XH)))))))))))))) :: ((Npos (XO (XO (XI
    (XO (XI (XI (XO (XO (XI (XO (XO (XI (XO XH)))))))))))))) :: ((Npos (XO
    (XO (XI (XI (XO (XI (XO (XI (XO (XO (XO (XI (XO
    XH)))))))))))))) :: ((Npos (XO (XO (XI (XI (XI (XI (XO (XI (XI (XO (XO
    (XI (XO XH)))))))))))))) :: ((Npos (XO (XI (XO (XO (XO (XO (XO (XO (XO
    (XO (XO (XI (XO XH)))))))))))))) :: ((Npos (XO (XI (XO (XO (XI (XO (XO
    (XO (XI (XO (XO (XI (XO XH)))))))))))))) :: ((Npos (XO (XI (XO (XI (XO
    (XO (XO (XI (XO (XO (XO (XI (XO XH)))))))))))))) :: ((Npos (XO (XI (XO
    (XI (XI (XO (XO (XI (XI (XO (XO (XI (XO XH)))))))))))))) :: ((Npos (XO
    (XI (XI (XO (XO (XO (XI (XO (XO (XO (XO (XI (XO
    XH)))))))))))))) :: ((Npos (XO (XI (XI (XO (XI (XO (XI (XO (XI (XO (XO
    (XI (XO XH)))))))))))))) :: ((Npos (XO (XI (XI (XI (XO (XO (XI (XI (XO
    (XO (XO (XI (XO XH)))))))))))))) :: ((Npos (XI (XO XH))) :: ((Npos (XI
    (XO (XO (XO (XO (XO (XO (XO (XO (XO (XO (XI (XO
    XH)))))))))))))) :: ((Npos (XI (XO (XO (XO (XI (XI (XI (XI (XO (XO (XO
    (XI (XO XH)))))))))))))) :: ((Npos (XI (XO (XO (XI (XO (XI (XI (XO (XO
    (XO (XO (XI (XO XH)))))))))))))) :: ((Npos (XI (XO (XO (XI (XI (XI (XI
    (XO (XI (XO (XO (XI (XO XH)))))))))))))) :: ((Npos (XI (XO (XI (XO (XO
    (XI (XO (XO (XO (XO (XO (XI (XO XH)))))))))))))) :: ((Npos (XI (XO (XI
    (XO (XI (XI (XO (XO (XI (XO (XO (XI (XO XH)))))))))))))) :: ((Npos (XI
    (XO (XI (XI (XO (XI (XO (XI (XO (XO (XO (XI (XO
    XH)))))))))))))) :: ((Npos (XI (XO (XI (XI (XI (XI (XO (XI (XI (XO (XO
    (XI (XO XH)))))))))))))) :: ((Npos (XI (XI (XO (XO (XO (XO (XO (XO (XO
    (XO (XO (XI (XO XH)))))))))))))) :: ((Npos (XI (XI (XO (XO (XI (XO (XO
    (XO (XI (XO (XO (XI (XO XH)))))))))))))) :: ((Npos (XI (XI (XO (XI (XO
    (XO (XO (XI (XO (XO (XO (XI (XO XH)))))))))))))) :: ((Npos (XI (XI (XO
    (XI (XI (XO (XO (XI (XI (XO (XO (XI (XO XH)))))))))))))) :: ((Npos (XI
    (XI (XI (XO (XO (XO (XI (XO (XO (XO (XO (XI (XO
    XH)))))))))))))) :: ((Npos (XI (XI (XI (XO (XI (XO (XI (XO (XI (XO (XO
    (XI (XO XH)))))))))))))) :: ((Npos (XI (XI (XI (XI (XO (XO (XI (XI (XO
    (XO (XO (XI (XO XH)))))))))))))) :: ((Npos (XI (XO XH))) :: ((Npos (XO
    (XO (XO (XO (XO (XO (XO (XO (XO (XO (XO (XI (XO
    XH)))))))))))))) :: ((Npos (XO (XO (XO (XO (XI (XI (XI (XI (XO (XO (XO
    (XI (XO XH)))))))))))))) :: ((Npos (XO (XO (XO (XI (XO (XI (XI (XO (XO
    (XO (XO (XI (XO XH)))))))))))))) :: ((Npos (XO (XO (XO (XI (XI (XI (XI
    (XO (XI (XO (XO (XI (XO XH)))))))))))))) :: ((Npos (XO (XO (XI (XO (XO
    (XI (XO (XO (XO (XO (XO (XI (XO XH)))))))))))))) :: ((Npos (XO (XO (XI
    (XO (XI (XI (XO (XO (XI (XO (XO (XI (XO XH)))))))))))))) :: ((Npos (XO
    (XO (XI (XI (XO (XI (XO (XI (XO (XO (XO (XI (XO
    XH)))))))))))))) :: ((Npos (XO (XO (XI (XI (XI (XI (XO (XI (XI (XO (XO
    (XI (XO XH)))))))))))))) :: ((Npos (XO (XI (XO (XO (XO (XO (XO (XO (XO
    (XO (XO (XI (XO XH)))))))))))))) :: ((Npos (XO (XI (XO (XO (XI (XO (XO
    (XO (XI (XO (XO (XI (XO XH)))))))))))))) :: ((Npos (XO (XI (XO (XI (XO
    (XO (XO (XI (XO (XO (XO (XI (XO XH)))))))))))))) :: ((Npos (XO (XI (XO
    (XI (XI (XO (XO (XI (XI (XO (XO (XI (XO XH)))))))))))))) :: ((Npos (XO
    (XI (XI (XO (XO (XO (XI (XO (XO (XO (XO (XI (XO
    XH)))))))))))))) :: ((Npos (XO (XI (XI (XO (XI (XO (XI (XO (XI (XO (XO
    (XI (XO XH)))))))))))))) :: ((Npos (XO (XI (XI (XI (XO (XO (XI (XI (XO
    (XO (XO (XI (XO XH)))))))))))))) :: ((Npos (XI (XO XH))) :: ((Npos (XI
    (XO (XO (XO (XO (XO (XO (XO (XO (XO (XO (XI (XO
    XH)))))))))))))) :: ((Npos (XI (XO (XO (XO (XI (XI (XI (XI (XO (XO (XO
    (XI (XO XH)))))))))))))) :: ((Npos (XI (XO (XO (XI (XO (XI (XI (XO (XO
    (XO (XO (XI (XO XH)))))))))))))) :: ((Npos (XI (XO (XO (XI (XI (XI (XI
    (XO (XI (XO (XO (XI (XO XH)))))))))))))) :: ((Npos (XI (XO (XI (XO (XO
    (XI (XO (XO (XO (XO (XO (XI (XO XH)))))))))))))) :: ((Npos (XI (XO (XI
    (XO (XI (XI (XO (XO (XI (XO (XO (XI (XO XH)))))))))))))) :: ((Npos (XI
    (XO (XI (XI (XO (XI (XO (XI (XO (XO (XO (XI (XO
    XH)))))))))))))) :: ((Npos (XI (XO (XI (XI (XI (XI (XO (XI (XI (XO (XO
    (XI (XO XH)))))))))))))) :: ((Npos (XI (XI (XO (XO (XO (XO (XO (XO (XO
    (XO (XO (XI (XO XH)))))))))))))) :: ((Npos (XI (XI (XO (XO (XI (XO (XO
    (XO (XI (XO (XO (XI (XO XH)))))))))))))) :: ((Npos (XI (XI (XO (XI (XO
    (XO (XO (XI (XO (XO (XO (XI (XO XH)))))))))))))) :: ((Npos (XI (XI (XO
    (XI (XI (XO (XO (XI (XI (XO (XO (XI (XO XH)))))))))))))) :: ((Npos (XI
    (XI (XI (XO (XO (XO (XI (XO (XO (XO (XO (XI (XO
    XH)))))))))))))) :: ((Npos (XI (XI (XI (XO (XI (XO (XI (XO (XI (XO (XO
    (XI (XO XH)))))))))))))) :: ((Npos (XI (XI (XI (XI (XO (XO (XI (XI (XO
    (XO (XO (XI (XO XH)))))))))))))) :: ((Npos (XI (XO XH))) :: ((Npos (XO
    (XO (XO (XO (XO (XO (XO (XO (XO (XO (XO (XI (XO
    XH)))))))))))))) :: ((Npos (XO (XO (XO (XO (XI (XI (XI (XI (XO (XO (XO
    (XI (XO XH)))))))))))))) :: ((Npos (XO (XO (XO (XI (XO (XI (XI (XO (XO
    (XO (XO (XI (XO XH)))))))))))))) :: ((Npos (XO (XO (XO (XI (XI (XI (XI
    (XO (XI (XO (XO (XI (XO XH)))))))))))))) :: ((Npos (XO (XO (XI (XO (XO
    (XI (XO (XO (XO (XO (XO (XI (XO XH)))))))))))))) :: ((Npos (XO (XO (XI
    (XO (XI (XI (XO (XO (XI (XO (XO (XI (XO XH)))))))))))))) :: ((Npos (XO
    (XO (XI (XI (XO (XI (XO (XI (XO (XO (XO (XI (XO
    XH)))))))))))))) :: ((Npos (XO (XO (XI (XI (XI (XI (XO (XI (XI (XO (XO
    (XI (XO XH)))))))))))))) :: ((Npos (XO (XI (XO (XO (XO (XO (XO (XO (XO
    (XO (XO (XI (XO XH)))))))))))))) :: ((Npos (XO (XI (XO (XO (XI (XO (XO
    (XO (XI (XO (XO (XI (XO XH)))))))))))))) :: ((Npos (XO (XI (XO (XI (XO
    (XO (XO (XI (XO (XO (XO (XI (XO XH)))))))))))))) :: ((Npos (XO (XI (XO
    (XI (XI (XO (XO (XI (XI (XO (XO (XI (XO XH)))))))))))))) :: ((Npos (XO
    (XI (XI (XO (XO (XO (XI (XO (XO (XO (XO (XI (XO
    XH)))))))))))))) :: ((Npos (XO (XI (XI (XO (XI (XO (XI (XO (XI (XO (XO
    (XI (XO XH)))))))))))))) :: ((Npos (XO (XI (XI (XI (XO (XO (XI (XI (XO
    (XO (XO (XI (XO XH)))))))))))))) :: ((Npos (XI (XO XH))) :: ((Npos (XI
    (XO (XO (XO (XO (XO (XO (XO (XO (XO (XO (XI (XO
    XH)))))))))))))) :: ((Npos (XI (XO (XO (XO (XI (XI (XI (XI (XO (XO (XO
    (XI (XO XH)))))))))))))) :: ((Npos (XI (XO (XO (XI (XO (XI (XI (XO (XO
    (XO (XO (XI (XO XH)))))))))))))) :: ((Npos (XI (XO (XO (XI (XI (XI (XI
    (XO (XI (XO (XO (XI (XO XH)))))))))))))) :: ((Npos (XI (XO (XI (XO (XO
    (XI (XO (XO (XO (XO (XO (XI (XO XH)))))))))))))) :: ((Npos (XI (XO (XI
    (XO (XI (XI (XO (XO (XI (XO (XO (XI (XO XH)))))))))))))) :: ((Npos (XI
    (XO (XI (XI (XO (XI (XO (XI (XO (XO (XO (XI (XO
    XH)))))))))))))) :: ((Npos (XI (XO (XI (XI (XI (XI (XO (XI (XI (XO (XO
    (XI (XO XH)))))))))))))) :: ((Npos (XI (XI (XO (XO (XO (XO (XO (XO (XO
    (XO (XO (XI (XO XH)))))))))))))) :: ((Npos (XI (XI (XO (XO (XI (XO (XO
    (XO (XI (XO (XO (XI (XO XH)))))))))))))) :: ((Npos (XI (XI (XO (XI (XO
    (XO (XO (XI (XO (XO (XO (XI (XO XH)))))))))))))) :: ((Npos (XI (XI (XO
    (XI (XI (XO (XO (XI (XI (XO (XO (XI (XO XH)))))))))))))) :: ((Npos (XI
    (XI (XI (XO (XO (XO (XI (XO (XO (XO (XO (XI (XO
    XH)))))))))))))) :: ((Npos (XI (XI (XI (XO (XI (XO (XI (XO (XI (XO (XO
    (XI (XO XH)))))))))))))) :: ((Npos (XI (XI (XI (XI (XO (XO (XI (XI (XO
    (XO (XO (XI (XO XH)))))))))))))) :: ((Npos (XI (XO XH))) :: ((Npos (XO
    (XO (XO (XO (XO (XO (XO (XO (XO (XO (XO (XI (XO
    XH)))))))))))))) :: ((Npos (XO (XO (XO (XO (XI (XI (XI (XI (XO (XO (XO
    (XI (XO XH)))))))))))))) :: ((Npos (XO (XO (XO (XI (XO (XI (XI (XO (XO
    (XO (XO (XI (XO XH)))))))))))))) :: ((Npos (XO (XO (XO (XI (XI (XI (XI
    (XO (XI (XO (XO (XI (XO XH)))))))))))))) :: ((Npos (XO (XO (XI (XO (XO
    (XI (XO (XO (XO (XO (XO (XI (XO XH)))))))))))))) :: ((Npos (XO (XO (XI
    (XO (XI (XI (XO (XO (XI (XO (XO (XI (XO XH)))))))))))))) :: ((Npos (XO
    (XO (XI (XI (XO (XI (XO (XI (XO (XO (XO (XI (XO
    XH)))))))))))))) :: ((Npos (XO (XO (XI (XI (XI (XI (XO (XI (XI (XO (XO
    (XI (XO XH)))))))))))))) :: ((Npos (XO (XI (XO (XO (XO (XO (XO (XO (XO
    (XO (XO (XI (XO XH)))))))))))))) :: ((Npos (XO (XI (XO (XO (XI (XO (XO
    (XO (XI (XO (XO (XI (XO XH)))))))))))))) :: ((Npos (XO (XI (XO (XI (XO
    (XO (XO (XI (XO (XO (XO (XI (XO XH)))))))))))))) :: ((Npos (XO (XI (XO
    (XI (XI (XO (XO (XI (XI (XO (XO (XI (XO XH)))))))))))))) :: ((Npos (XO
    (XI (XI (XO (XO (XO (XI (XO (XO (XO (XO (XI (XO
    XH)))))))))))))) :: ((Npos (XO (XI (XI (XO (XI (XO (XI (XO (XI (XO (XO
    (XI (XO XH)))))))))))))) :: ((Npos (XO (XI (XI (XI (XO (XO (XI (XI (XO
    (XO (XO (XI (XO XH)))))))))))))) :: ((Npos (XI (XO XH))) :: ((Npos (XI
    (XO (XO (XO (XO (XO (XO (XO (XO (XO (XO (XI (XO
    XH)))))))))))))) :: ((Npos (XI (XO (XO (XO (XI (XI (XI (XI (XO (XO (XO
    (XI (XO XH)))))))))))))) :: ((Npos (XI (XO (XO (XI (XO (XI (XI (XO (XO
    (XO (XO (XI (XO XH)))))))))))))) :: ((Npos (XI (XO (XO (XI (XI (XI (XI
    (XO (XI (XO (XO (XI (XO XH)))))))))))))) :: ((Npos (XI (XO (XI (XO (XO
    (XI (XO (XO (XO (XO (XO (XI (XO XH)))))))))))))) :: ((Npos (XI (XO (XI
    (XO (XI (XI (XO (XO (XI (XO (XO (XI (XO XH)))))))))))))) :: ((Npos (XI
    (XO (XI (XI (XO (XI (XO (XI (XO (XO (XO (XI (XO
    XH)))))))))))))) :: ((Npos (XI (XO (XI (XI (XI (XI (XO (XI (XI (XO (XO
    (XI (XO XH)))))))))))))) :: ((Npos (XI (XI (XO (XO (XO (XO (XO (XO (XO
    (XO (XO (XI (XO XH)))))))))))))) :: ((Npos (XI (XI (XO (XO (XI (XO (XO
    (XO (XI (XO (XO (XI (XO XH)))))))))))))) :: ((Npos (XI (XI (XO (XI (XO
    (XO (XO (XI (XO (XO (XO (XI (XO XH)))))))))))))) :: ((Npos (XI (XI (XO
    (XI (XI (XO (XO (XI (XI (XO (XO (XI (XO XH)))))))))))))) :: ((Npos (XI
    (XI (XI (XO (XO (XO (XI (XO (XO (XO (XO (XI (XO
    XH)))))))))))))) :: ((Npos (XI (XI (XI (XO (XI (XO (XI (XO (XI (XO (XO
    (XI (XO XH)))))))))))))) :: ((Npos (XI (XI (XI (XI (XO (XO (XI (XI (XO
    (XO (XO (XI (XO XH)))))))))))))) :: ((Npos (XI (XO XH))) :: ((Npos (XO
    (XO (XO (XO (XO (XO (XO (XO (XO (XO (XO (XI (XO
    XH)))))))))))))) :: ((Npos (XO (XO (XO (XO (XI (XI (XI (XI (XO (XO (XO
    (XI (XO XH)))))))))))))) :: ((Npos (XO (XO (XO (XI (XO (XI (XI (XO (XO
    (XO (XO (XI (XO XH)))))))))))))) :: ((Npos (XO (XO (XO (XI (XI (XI (XI
    (XO (XI (XO (XO (XI (XO XH)))))))))))))) :: ((Npos (XO (XO (XI (XO (XO
    (XI (XO (XO (XO (XO (XO (XI (XO XH)))))))))))))) :: ((Npos (XO (XO (XI
    (XO (XI (XI (XO (XO (XI (XO (XO (XI (XO XH)))))))))))))) :: ((Npos (XO
    (XO (XI (XI (XO (XI (XO (XI (XO (XO (XO (XI (XO
    XH)))))))))))))) :: ((Npos (XO (XO (XI (XI (XI (XI (XO (XI (XI (XO (XO
    (XI (XO XH)))))))))))))) :: ((Npos (XO (XI (XO (XO (XO (XO (XO (XO (XO
    (XO (XO (XI (XO XH)))))))))))))) :: ((Npos (XO (XI (XO (XO (XI (XO (XO
    (XO (XI (XO (XO (XI (XO XH)))))))))))))) :: ((Npos (XO (XI (XO (XI (XO
    (XO (XO (XI (XO (XO (XO (XI (XO XH)))))))))))))) :: ((Npos (XO (XI (XO
    (XI (XI (XO (XO (XI (XI (XO (XO (XI (XO XH)))))))))))))) :: ((Npos (XO
    (XI (XI (XO (XO (XO (XI (XO (XO (XO (XO (XI (XO
    XH)))))))))))))) :: ((Npos (XO (XI (XI (XO (XI (XO (XI (XO (XI (XO (XO
    (XI (XO XH)))))))))))))) :: ((Npos (XO (XI (XI (XI (XO (XO (XI (XI (XO
    (XO (XO (XI (XO XH)))))))))))))) :: ((Npos (XI (XO XH))) :: ((Npos (XI
    (XO (XO (XO (XO (XO (XO (XO (XO (XO (XO (XI (XO
    XH)))))))))))))) :: ((Npos (XI (XO (XO (XO (XI (XI (XI (XI (XO (XO (XO
    (XI (XO XH)))))))))))))) :: ((Npos (XI (XO (XO (XI (XO (XI (XI (XO (XO
    (XO (XO (XI (XO XH)))))))))))))) :: ((Npos (XI (XO (XO (XI (XI (XI (XI
    (XO (XI (XO (XO (XI (XO XH)))))))))))))) :: ((Npos (XI (XO (XI (XO (XO
    (XI (XO (XO (XO (XO (XO (XI (XO XH)))))))))))))) :: ((Npos (XI (XO (XI
    (XO (XI (XI (XO (XO (XI (XO (XO (XI (XO XH)))))))))))))) :: ((Npos (XI
    (XO (XI (XI (XO (XI (XO (XI (XO (XO (XO (XI (XO
    XH)))))))))))))) :: ((Npos (XI (XO (XI (XI (XI (XI (XO (XI (XI (XO (XO
    (XI (XO XH)))))))))))))) :: ((Npos (XI (XI (XO (XO (XO (XO (XO (XO (XO
    (XO (XO (XI (XO XH)))))))))))))) :: ((Npos (XI (XI (XO (XO (XI (XO (XO
    (XO (XI (XO (XO (XI (XO XH)))))))))))))) :: ((Npos (XI (XI (XO (XI (XO
    (XO (XO (XI (XO (XO (XO (XI (XO XH)))))))))))))) :: ((Npos (XI (XI (XO
    (XI (XI (XO (XO (XI (XI (XO (XO (XI (XO XH)))))))))))))) :: ((Npos (XI
    (XI (XI (XO (XO (XO (XI (XO (XO (XO (XO (XI (XO
    XH)))))))))))))) :: ((Npos (XI (XI (XI (XO (XI (XO (XI (XO (XI (XO (XO
    (XI (XO XH)))))))))))))) :: ((Npos (XI (XI (XI (XI (XO (XO (XI (XI (XO
    (XO (XO (XI (XO XH)))))))))))))) :: ((Npos (XI (XO XH))) :: ((Npos (XO
    (XO (XO (XO (XO (XO (XO (XO (XO (XO (XO (XI (XO
    XH)))))))))))))) :: ((Npos (XO (XO (XO (XO (XI (XI (XI (XI (XO (XO (XO
    (XI (XO XH)))))))))))))) :: ((Npos (XO (XO (XO (XI (XO (XI (XI (XO (XO
    (XO (XO (XI (XO XH)))))))))))))) :: ((Npos (XO (XO (XO (XI (XI (XI (XI
    (XO (XI (XO (XO (XI (XO XH)))))))))))))) :: ((Npos (XO (XO (XI (XO (XO
    (XI (XO (XO (XO (XO (XO (XI (XO XH)))))))))))))) :: ((Npos (XO (XO (XI
    (XO (XI (XI (XO (XO (XI (XO (XO (XI (XO XH)))))))))))))) :: ((Npos (XO
    (XO (XI (XI (XO (XI (XO (XI (XO (XO (XO (XI (XO
    XH)))))))))))))) :: ((Npos (XO (XO (XI (XI (XI (XI (XO (XI (XI (XO (XO
    (XI (XO XH)))))))))))))) :: ((Npos (XO (XI (XO (XO (XO (XO (XO (XO (XO
    (XO (XO (XI (XO XH)))))))))))))) :: ((Npos (XO (XI (XO (XO (XI (XO (XO
    (XO (XI (XO (XO (XI (XO XH)))))))))))))) :: ((Npos (XO (XI (XO (XI (XO
    (XO (XO (XI (XO (XO (XO (XI (XO XH)))))))))))))) :: ((Npos (XO (XI (XO
    (XI (XI (XO (XO (XI (XI (XO (XO (XI (XO XH)))))))))))))) :: ((Npos (XO
    (XI (XI (XO (XO (XO (XI (XO (XO (XO (XO (XI (XO
    XH)))))))))))))) :: ((Npos (XO (XI (XI (XO (XI (XO (XI (XO (XI (XO (XO
    (XI (XO XH)))))))))))))) :: ((Npos (XO (XI (XI (XI (XO (XO (XI (XI (XO
    (XO (XO (XI (XO XH)))))))))))))) :: ((Npos (XI (XO XH))) :: ((Npos (XI
    (XO (XO (XO (XO (XO (XO (XO (XO (XO (XO (XI (XO
    XH)))))))))))))) :: ((Npos (XI (XO (XO (XO (XI (XI (XI (XI (XO (XO (XO
    (XI (XO XH)))))))))))))) :: ((Npos (XI (XO (XO (XI (XO (XI (XI (XO (XO
    (XO (XO (XI (XO XH)))))))))))))) :: ((Npos (XI (XO (XO (XI (XI (XI (XI
    (XO (XI (XO (XO (XI (XO XH)))))))))))))) :: ((Npos (XI (XO (XI (XO (XO
    (XI (XO (XO (XO (XO (XO (XI (XO XH)))))))))))))) :: ((Npos (XI (XO (XI
    (XO (XI (XI (XO (XO (XI (XO (XO (XI (XO XH)))))))))))))) :: ((Npos (XI
    (XO (XI (XI (XO (XI (XO (XI (XO (XO (XO (XI (XO
    XH)))))))))))))) :: ((Npos (XI (XO (XI (XI (XI (XI (XO (XI (XI (XO (XO
    (XI (XO XH)))))))))))))) :: ((Npos (XI (XI (XO (XO (XO (XO (XO (XO (XO
    (XO (XO (XI (XO XH)))))))))))))) :: ((Npos (XI (XI (XO (XO (XI (XO (XO
    (XO (XI (XO (XO (XI (XO XH)))))))))))))) :: ((Npos (XI (XI (XO (XI (XO
    (XO (XO (XI (XO (XO (XO (XI (XO XH)))))))))))))) :: ((Npos (XI (XI (XO
    (XI (XI (XO (XO (XI (XI (XO (XO (XI (XO XH)))))))))))))) :: ((Npos (XI
    (XI (XI (XO (XO (XO (XI (XO (XO (XO (XO (XI (XO
    XH)))))))))))))) :: ((Npos (XI (XI (XI (XO (XI (XO (XI (XO (XI (XO (XO
    (XI (XO XH)))))))))))))) :: ((Npos (XI (XI (XI (XI (XO (XO (XI (XI (XO
    (XO (XO (XI (XO XH)))))))))))))) :: ((Npos (XI (XO XH))) :: ((Npos (XO
    (XO (XO (XO (XO (XO (XO (XO (XO (XO (XO (XI (XO
    XH)))))))))))))) :: ((Npos (XO (XO (XO (XO (XI (XI (XI (XI (XO (XO (XO
    (XI (XO XH)))))))))))))) :: ((Npos (XO (XO (XO (XI (XO (XI (XI (XO (XO
    (XO (XO (XI (XO XH)))))))))))))) :: ((Npos (XO (XO (XO (XI (XI (XI (XI
    (XO (XI (XO (XO (XI (XO XH)))))))))))))) :: ((Npos (XO (XO (XI (XO (XO
    (XI (XO (XO (XO (XO (XO (XI (XO XH)))))))))))))) :: ((Npos (XO (XO (XI
    (XO (XI (XI (XO (XO (XI (XO (XO (XI (XO XH)))))))))))))) :: ((Npos (XO
    (XO (XI (XI (XO (XI (XO (XI (XO (XO (XO (XI (XO
    XH)))))))))))))) :: ((Npos (XO (XO (XI (XI (XI (XI (XO (XI (XI (XO (XO
    (XI (XO XH)))))))))))))) :: ((Npos (XO (XI (XO (XO (XO (XO (XO (XO (XO
    (XO (XO (XI (XO XH)))))))))))))) :: ((Npos (XO (XI (XO (XO (XI (XO (XO
    (XO (XI (XO (XO (XI (XO XH)))))))))))))) :: ((Npos (XO (XI (XO (XI (XO
    (XO (XO (XI (XO (XO (XO (XI (XO XH)))))))))))))) :: ((Npos (XO (XI (XO
    (XI (XI (XO (XO (XI (XI (XO (XO (XI (XO XH)))))))))))))) :: ((Npos (XO
    (XI (XI (XO (XO (XO (XI (XO (XO (XO (XO (XI (XO
    XH)))))))))))))) :: ((Npos (XO (XI (XI (XO (XI (XO (XI (XO (XI (XO (XO
    (XI (XO XH)))))))))))))) :: ((Npos (XO (XI (XI (XI (XO (XO (XI (XI (XO
    (XO (XO (XI (XO XH)))))))))))))) :: ((Npos (XI (XO XH))) :: ((Npos (XI
    (XO (XO (XO (XO (XO (XO (XO (XO (XO (XO (XI (XO
    XH)))))))))))))) :: ((Npos (XI (XO (XO (XO (XI (XI (XI (XI (XO (XO (XO
    (XI (XO XH)))))))))))))) :: ((Npos (XI (XO (XO (XI (XO (XI (XI (XO (XO
    (XO (XO (XI (XO XH)))))))))))))) :: ((Npos (XI (XO (XO (XI (XI (XI (XI
    (XO (XI (XO (XO (XI (XO XH)))))))))))))) :: ((Npos (XI (XO (XI (XO (XO
    (XI (XO (XO (XO (XO (XO (XI (XO XH)))))))))))))) :: ((Npos (XI (XO (XI
    (XO (XI (XI (XO (XO (XI (XO (XO (XI (XO XH)))))))))))))) :: ((Npos (XI
    (XO (XI (XI (XO (XI (XO (XI (XO (XO (XO (XI (XO
    XH)))))))))))))) :: ((Npos (XI (XO (XI (XI (XI (XI (XO (XI (XI (XO (XO
    (XI (XO XH)))))))))))))) :: ((Npos (XI (XI (XO (XO (XO (XO (XO (XO (XO
    (XO (XO (XI (XO XH)))))))))))))) :: ((Npos (XI (XI (XO (XO (XI (XO (XO
    (XO (XI (XO (XO (XI (XO XH)))))))))))))) :: ((Npos (XI (XI (XO (XI (XO
    (XO (XO (XI (XO (XO (XO (XI (XO XH)))))))))))))) :: ((Npos (XI (XI (XO
    (XI (XI (XO (XO (XI (XI (XO (XO (XI (XO XH)))))))))))))) :: ((Npos (XI
    (XI (XI (XO (XO (XO (XI (XO (XO (XO (XO (XI (XO
    XH)))))))))))))) :: ((Npos (XI (XI (XI (XO (XI (XO (XI (XO (XI (XO (XO
    (XI (XO XH)))))))))))))) :: ((Npos (XI (XI (XI (XI (XO (XO (XI (XI (XO
    (XO (XO (XI (XO XH)))))))))))))) :: ((Npos (XI (XO XH))) :: ((Npos (XO
    (XO (XO (XO (XO (XO (XO (XO (XO (XO (XO (XI (XO
    XH)))))))))))))) :: ((Npos (XO (XO (XO (XO (XI (XI (XI (XI (XO (XO (XO
    (XI (XO XH)))))))))))))) :: ((Npos (XO (XO (XO (XI (XO (XI (XI (XO (XO
    (XO (XO (XI (XO XH)))))))))))))) :: ((Npos (XO (XO (XO (XI (XI (XI (XI
    (XO (XI (XO (XO (XI (XO XH)))))))))))))) :: ((Npos (XO (XO (XI (XO (XO
    (XI (XO (XO (XO (XO (XO (XI (XO XH)))))))))))))) :: ((Npos (XO (XO (XI
    (XO (XI (XI (XO (XO (XI (XO (XO (XI (XO XH)))))))))))))) :: ((Npos (XO
    (XO (XI (XI (XO (XI (XO (XI (XO (XO (XO (XI (XO
    XH)))))))))))))) :: ((Npos (XO (XO (XI (XI (XI (XI (XO (XI (XI (XO (XO
    (XI (XO XH)))))))))))))) :: ((Npos (XO (XI (XO (XO (XO (XO (XO (XO (XO
    (XO (XO (XI (XO XH)))))))))))))) :: ((Npos (XO (XI (XO (XO (XI (XO (XO
    (XO (XI (XO (XO (XI (XO XH)))))))))))))) :: ((Npos (XO (XI (XO (XI (XO
    (XO (XO (XI (XO (XO (XO (XI (XO XH)))))))))))))) :: ((Npos (XO (XI (XO
    (XI (XI (XO (XO (XI (XI (XO (XO (XI (XO XH)))))))))))))) :: ((Npos (XO
    (XI (XI (XO (XO (XO (XI (XO (XO (XO (XO (XI (XO
    XH)))))))))))))) :: ((Npos (XO (XI (XI (XO (XI (XO (XI (XO (XI (XO (XO
    (XI (XO XH)))))))))))))) :: ((Npos (XO (XI (XI (XI (XO (XO (XI (XI (XO
    (XO (XO (XI (XO XH)))))))))))))) :: ((Npos (XI (XO XH))) :: ((Npos (XI
    (XO (XO (XO (XO (XO (XO (XO (XO (XO (XO (XI (XO
    XH)))))))))))))) :: ((Npos (XI (XO (XO (XO (XI (XI (XI (XI (XO (XO (XO
    (XI (XO XH)))))))))))))) :: ((Npos (XI (XO (XO (XI (XO (XI (XI (XO (XO
    (XO (XO (XI (XO XH)))))))))))))) :: ((Npos (XI (XO (XO (XI (XI (XI (XI
    (XO (XI (XO (XO (XI (XO XH)))))))))))))) :: ((Npos (XI (XO (XI (XO (XO
    (XI (XO (XO (XO (XO (XO (XI (XO XH)))))))))))))) :: ((Npos (XI (XO (XI
    (XO (XI (XI (XO (XO (XI (XO (XO (XI (XO XH)))))))))))))) :: ((Npos (XI
    (XO (XI (XI (XO (XI (XO (XI (XO (XO (XO (XI (XO
    XH)))))))))))))) :: ((Npos (XI (XO (XI (XI (XI (XI (XO (XI (XI (XO (XO
    (XI (XO XH)))))))))))))) :: ((Npos (XI (XI (XO (XO (XO (XO (XO (XO (XO
    (XO (XO (XI (XO XH)))))))))))))) :: ((Npos (XI (XI (XO (XO (XI (XO (XO
    (XO (XI (XO (XO (XI (XO XH)))))))))))))) :: ((Npos (XI (XI (XO (XI (XO
    (XO (XO (XI (XO (XO (XO (XI (XO XH)))))))))))))) :: ((Npos (XI (XI (XO
    (XI (XI (XO (XO (XI (XI (XO (XO (XI (XO XH)))))))))))))) :: ((Npos (XI
    (XI (XI (XO (XO (XO (XI (XO (XO (XO (XO (XI (XO
    XH)))))))))))))) :: ((Npos (XI (XI (XI (XO (XI (XO (XI (XO (XI (XO (XO
    (XI (XO XH)))))))))))))) :: ((Npos (XI (XI (XI (XI (XO (XO (XI (XI (XO
    (XO (XO (XI (XO XH)))))))))))))) :: ((Npos (XI (XO
    XH))) :: [])))))))))))))))))))))))))))))))))))))))))))))))))))))))))))))))))))))))))))))))))))))))))))))))))))))))))))))))))))))))))))))))))))))))))))))))))))))))))))))))))))))))))))))))))))))))))))))))))))))))))))))))))))))))))))))))))))))))))))))))))))))))))))))))))))))))))))))))))))))))))))))))))))))))))))))))))))))))))))))))))))))))))))))))))))))))))))))))))))))))))))))))))))))))))))))))))))))))))))))))))))))))))))))))))))))))))))))))))))))))))))))))))))))))))))))))))))))))))))))))))))))))))))))))))))))))))))))))))))))))))))))))))))))))))))))))))))))))))))))))))))))))))))))))))))))))))))))))))))))))))))))))))))))))))))))))))))))))))))))))))))))))))))))))))))))))))))))))))))))))))))))))))))))))))))))))))))))))))))))))))))))))))))))))))))))))))))))))))))))))))))))))))))))))))))))))))))))))))))))))))))))))))))))))))))))))))))))))))))))))))))))))))))))))))))))))))))))))))))))))))))))))))))))))))))))))))))))))))))))))))))))))))))))))))))))))))))))))))))))))))))))))))))))))))))))))))))))))))))))))))))))))))))))))))))))))

(** val static_dist_long_l : n list **)

let static_dist_long_l =
  N0 :: (N0 :: (N0 :: (N0 :: (N0 :: (N0 :: (N0 :: (N0 :: (N0 :: (N0 :: (N0 :: (N0 :: (N0 :: (N0 :: (N0 :: (N0 :: (N0 :: (N0 :: (N0 :: (N0 :: (N0 :: (N0 :: (N0 :: (N0 :: (N0 :: (N0 :: (N0 :: (N0 :: (N0 :: (N0 :: (N0 :: (N0 :: (N0 :: (N0 :: (N0 :: (N0 :: (N0 :: (N0 :: (N0 :: (N0 :: (N0 :: (N0 :: (N0 :: (N0 :: (N0 :: (N0 :: (N0 :: (N0 :: (N0 :: (N0 :: (N0 :: (N0 :: (N0 :: (N0 :: (N0 :: (N0 :: (N0 :: (N0 :: (N0 :: (N0 :: (N0 :: (N0 :: (N0 :: (N0 :: (N0 :: (N0 :: (N0 :: (N0 :: (N0 :: (N0 :: (N0 :: (N0 :: (N0 :: (N0 :: (N0 :: (N0 :: (N0 :: (N0 :: (N0 :: (N0 :: [])))))))))))))))))))))))))))))))))))))))))))))))))))))))))))))))))))))))))))))))

(** val rfc_dist_extra_l : n list **)

let rfc_dist_extra_l =
  N0 :: (N0 :: (N0 :: (N0 :: ((Npos XH) :: ((Npos XH) :: ((Npos (XO
    XH)) :: ((Npos (XO XH)) :: ((Npos (XI XH)) :: ((Npos (XI XH)) :: ((Npos
    (XO (XO XH))) :: ((Npos (XO (XO XH))) :: ((Npos (XI (XO XH))) :: ((Npos
    (XI (XO XH))) :: ((Npos (XO (XI XH))) :: ((Npos (XO (XI XH))) :: ((Npos
    (XI (XI XH))) :: ((Npos (XI (XI XH))) :: ((Npos (XO (XO (XO
    XH)))) :: ((Npos (XO (XO (XO XH)))) :: ((Npos (XI (XO (XO
    XH)))) :: ((Npos (XI (XO (XO XH)))) :: ((Npos (XO (XI (XO
    XH)))) :: ((Npos (XO (XI (XO XH)))) :: ((Npos (XI (XI (XO
    XH)))) :: ((Npos (XI (XI (XO XH)))) :: ((Npos (XO (XO (XI
    XH)))) :: ((Npos (XO (XO (XI XH)))) :: ((Npos (XI (XO (XI
    XH)))) :: ((Npos (XI (XO (XI
    XH)))) :: (N0 :: (N0 :: [])))))))))))))))))))))))))))))))

(** val rfc_dist_start_l : n list **)

let rfc_dist_start_l =
  (Npos XH) :: ((Npos (XO XH)) :: ((Npos (XI XH)) :: ((Npos (XO (XO
    XH))) :: ((Npos (XI (XO XH))) :: ((Npos (XI (XI XH))) :: ((Npos (XI (XO
    (XO XH)))) :: ((Npos (XI (XO (XI XH)))) :: ((Npos (XI (XO (XO (XO
    XH))))) :: ((Npos (XI (XO (XO (XI XH))))) :: ((Npos (XI (XO (XO (XO (XO
    XH)))))) :: ((Npos (XI (XO (XO (XO (XI XH)))))) :: ((Npos (XI (XO (XO (XO
    (XO (XO XH))))))) :: ((Npos (XI (XO (XO (XO (XO (XI XH))))))) :: ((Npos
    (XI (XO (XO (XO (XO (XO (XO XH)))))))) :: ((Npos (XI (XO (XO (XO (XO (XO
    (XI XH)))))))) :: ((Npos (XI (XO (XO (XO (XO (XO (XO (XO
    XH))))))))) :: ((Npos (XI (XO (XO (XO (XO (XO (XO (XI
    XH))))))))) :: ((Npos (XI (XO (XO (XO (XO (XO (XO (XO (XO
    XH)))))))))) :: ((Npos (XI (XO (XO (XO (XO (XO (XO (XO (XI
    XH)))))))))) :: ((Npos (XI (XO (XO (XO (XO (XO (XO (XO (XO (XO
    XH))))))))))) :: ((Npos (XI (XO (XO (XO (XO (XO (XO (XO (XO (XI
    XH))))))))))) :: ((Npos (XI (XO (XO (XO (XO (XO (XO (XO (XO (XO (XO
    XH)))))))))))) :: ((Npos (XI (XO (XO (XO (XO (XO (XO (XO (XO (XO (XI
    XH)))))))))))) :: ((Npos (XI (XO (XO (XO (XO (XO (XO (XO (XO (XO (XO (XO
    XH))))))))))))) :: ((Npos (XI (XO (XO (XO (XO (XO (XO (XO (XO (XO (XO (XI
    XH))))))))))))) :: ((Npos (XI (XO (XO (XO (XO (XO (XO (XO (XO (XO (XO (XO
    (XO XH)))))))))))))) :: ((Npos (XI (XO (XO (XO (XO (XO (XO (XO (XO (XO
    (XO (XO (XI XH)))))))))))))) :: ((Npos (XI (XO (XO (XO (XO (XO (XO (XO
    (XO (XO (XO (XO (XO (XO XH))))))))))))))) :: ((Npos (XI (XO (XO (XO (XO
    (XO (XO (XO (XO (XO (XO (XO (XO (XI
    XH))))))))))))))) :: (N0 :: (N0 :: [])))))))))))))))))))))))))))))))

(** val rfc_len_extra_l : n list **)

let rfc_len_extra_l =
  N0 :: (N0 :: (N0 :: (N0 :: (N0 :: (N0 :: (N0 :: (N0 :: ((Npos XH) :: ((Npos
    XH) :: ((Npos XH) :: ((Npos XH) :: ((Npos (XO XH)) :: ((Npos (XO
    XH)) :: ((Npos (XO XH)) :: ((Npos (XO XH)) :: ((Npos (XI XH)) :: ((Npos
    (XI XH)) :: ((Npos (XI XH)) :: ((Npos (XI XH)) :: ((Npos (XO (XO
    XH))) :: ((Npos (XO (XO XH))) :: ((Npos (XO (XO XH))) :: ((Npos (XO (XO
    XH))) :: ((Npos (XI (XO XH))) :: ((Npos (XI (XO XH))) :: ((Npos (XI (XO
    XH))) :: ((Npos (XI (XO
    XH))) :: (N0 :: (N0 :: (N0 :: (N0 :: [])))))))))))))))))))))))))))))))

(** val mask64 : n **)

let mask64 =
  Npos (XI (XI (XI (XI (XI (XI (XI (XI (XI (XI (XI (XI (XI (XI (XI (XI (XI
    (XI (XI (XI (XI (XI (XI (XI (XI (XI (XI (XI (XI (XI (XI (XI (XI (XI (XI
    (XI (XI (XI (XI (XI (XI (XI (XI (XI (XI (XI (XI (XI (XI (XI (XI (XI (XI
    (XI (XI (XI (XI (XI (XI (XI (XI (XI (XI
    XH)))))))))))))))))))))))))))))))))))))))))))))))))))))))))))))))

(** val mask32 : n **)

let mask32 =
  Npos (XI (XI (XI (XI (XI (XI (XI (XI (XI (XI (XI (XI (XI (XI (XI (XI (XI
    (XI (XI (XI (XI (XI (XI (XI (XI (XI (XI (XI (XI (XI (XI
    XH)))))))))))))))))))))))))))))))

(** val mask16 : n **)

let mask16 =
  Npos (XI (XI (XI (XI (XI (XI (XI (XI (XI (XI (XI (XI (XI (XI (XI
    XH)))))))))))))))

(** val u64 : n -> n **)

let u64 x =
  N.coq_land x mask64

(** val u32 : n -> n **)

let u32 x =
  N.coq_land x mask32

(** val u16 : n -> n **)

let u16 x =
  N.coq_land x mask16

(** val u8 : n -> n **)

let u8 x =
  N.coq_land x (Npos (XI (XI (XI (XI (XI (XI (XI XH))))))))

(** val shl64 : n -> n -> n **)

let shl64 x n0 =
  if N.leb (Npos (XO (XO (XO (XO (XO (XO XH))))))) n0
  then N0
  else u64 (N.shiftl x n0)

(** val shl32 : n -> n -> n **)

let shl32 x n0 =
  if N.leb (Npos (XO (XO (XO (XO (XO XH)))))) n0
  then N0
  else u32 (N.shiftl x n0)

(** val shl16 : n -> n -> n **)

let shl16 x n0 =
  if N.leb (Npos (XO (XO (XO (XO XH))))) n0 then N0 else u16 (N.shiftl x n0)

(** val subw : n -> n -> n -> n **)

let subw w a b =
  if N.leb b a then N.sub a b else N.sub (N.add a (N.shiftl (Npos XH) w)) b

(** val sub32 : n -> n -> n **)

let sub32 =
  subw (Npos (XO (XO (XO (XO (XO XH))))))

(** val sub16 : n -> n -> n **)

let sub16 =
  subw (Npos (XO (XO (XO (XO XH)))))

(** val ones32 : n -> n **)

let ones32 k =
  if N.leb (Npos (XO (XO (XO (XO (XO XH)))))) k then mask32 else N.ones k

(** val ones64 : n -> n **)

let ones64 k =
  if N.leb (Npos (XO (XO (XO (XO (XO (XO XH))))))) k then mask64 else N.ones k

(** val big_fuel : nat **)

let big_fuel =
  N.to_nat (Npos (XO (XO (XO (XO (XO (XO (XO (XO (XO (XO (XO (XO (XO (XO (XO
    (XO (XO (XO XH)))))))))))))))))))

(** val small_fuel : nat **)

let small_fuel =
  S (S (S (S (S (S (S (S (S (S (S (S (S (S (S (S (S (S (S (S (S (S (S (S (S
    (S (S (S (S (S (S (S (S (S (S (S (S (S (S (S (S (S (S (S (S (S (S (S (S
    (S (S (S (S (S (S (S (S (S (S (S (S (S (S (S (S (S (S (S (S (S (S (S (S
    (S (S (S (S (S (S (S (S (S (S (S (S (S (S (S (S (S (S (S (S (S (S (S (S
    (S (S (S (S (S (S (S (S (S (S (S (S (S (S (S (S (S (S (S (S (S (S (S (S
    (S (S (S (S (S (S (S (S (S (S (S (S (S (S (S (S (S (S (S (S (S (S (S (S
    (S (S (S (S (S (S (S (S (S (S (S (S (S (S (S (S (S (S (S (S (S (S (S (S
    (S (S (S (S (S (S (S (S (S (S (S (S (S (S (S (S (S (S (S (S (S (S (S (S
    (S (S (S (S (S (S (S (S (S (S (S (S (S (S (S (S (S (S (S (S (S (S (S (S
    (S (S (S (S (S (S (S (S (S (S (S (S (S (S (S (S (S (S (S (S (S (S (S (S
    (S (S (S (S (S (S (S (S (S (S (S (S (S (S (S (S (S (S (S (S (S (S (S (S
    (S (S (S (S (S (S (S (S (S (S (S (S (S (S (S (S (S (S (S (S (S (S (S (S
    (S (S (S (S (S (S (S (S (S (S (S (S (S (S (S (S (S (S (S (S (S (S (S (S
    (S (S (S (S (S (S (S (S (S (S (S (S (S (S (S (S (S (S (S (S (S (S (S (S
    (S (S (S (S (S (S (S (S (S (S (S (S (S (S (S (S (S (S (S (S (S (S (S (S
    (S (S (S (S (S (S (S (S (S (S (S (S (S (S (S (S (S (S (S (S (S (S (S (S
    (S (S (S (S (S (S (S (S (S (S (S (S (S (S (S (S (S (S (S (S (S (S (S (S
    (S (S (S (S (S (S (S (S (S (S (S (S (S (S (S (S (S (S (S (S (S (S (S (S
    (S (S (S (S (S (S (S (S (S (S (S (S (S (S (S (S (S (S (S (S (S (S (S (S
    (S (S (S (S (S (S (S (S (S (S (S (S (S (S (S (S (S (S (S (S (S (S (S (S
    (S (S (S (S (S (S (S (S (S (S (S (S (S (S (S (S (S (S (S (S (S (S (S (S
    (S (S (S (S (S (S (S (S (S (S (S (S (S (S (S (S (S (S (S (S (S (S (S (S
    (S (S (S (S (S (S (S (S (S (S (S (S (S (S (S (S (S (S (S (S (S (S (S (S
    (S (S (S (S (S (S (S (S (S (S (S (S (S (S (S (S (S (S (S (S (S (S (S (S
    (S (S (S (S (S (S (S (S (S (S (S (S (S (S (S (S (S (S (S (S (S (S (S (S
    (S (S (S (S (S (S (S (S (S (S (S (S (S (S (S (S (S (S (S (S (S (S (S (S
    (S (S (S (S (S (S (S (S (S (S (S (S (S (S (S (S (S (S (S (S (S (S (S (S
    (S (S (S (S (S (S (S (S (S (S (S (S (S (S (S (S (S (S (S (S (S (S (S (S
    (S (S (S (S (S (S (S (S (S (S (S (S (S (S (S (S (S (S (S (S (S (S (S (S
    (S (S (S (S (S (S (S (S (S (S (S (S (S (S (S (S (S (S (S (S (S (S (S (S
    (S (S (S (S (S (S (S (S (S (S (S (S (S (S (S (S (S (S (S (S (S (S (S (S
    (S (S (S (S (S (S (S (S (S (S (S (S (S (S (S (S (S (S (S (S (S (S (S (S
    (S (S (S (S (S (S (S (S (S (S (S (S (S (S (S (S (S (S (S (S (S (S (S (S
    (S (S (S (S (S (S (S (S (S (S (S (S (S (S (S (S (S (S (S (S (S (S (S (S
    (S (S (S (S (S (S (S (S (S (S (S (S (S (S (S (S (S (S (S (S (S (S (S (S
    (S (S (S (S (S (S (S (S (S (S (S (S (S (S (S (S (S (S (S (S (S (S (S (S
    (S (S (S (S (S (S (S (S (S (S (S (S (S (S (S (S (S (S (S (S (S (S (S (S
    (S (S (S (S (S (S (S (S (S (S (S (S (S (S (S (S (S (S (S (S (S (S (S (S
    (S (S (S (S (S (S (S (S (S (S (S (S (S (S (S (S (S (S (S (S (S (S (S (S
    (S (S (S (S (S (S (S (S (S (S (S (S (S (S (S (S (S (S (S (S (S (S (S (S
    (S (S (S (S (S (S (S (S (S (S (S (S (S (S (S (S (S (S (S (S (S (S (S (S
    (S (S (S (S (S (S (S (S (S (S (S (S (S (S (S (S (S (S (S (S (S (S (S (S
    (S (S (S (S (S (S (S (S (S (S (S (S (S (S (S
    O)))))))))))))))))))))))))))))))))))))))))))))))))))))))))))))))))))))))))))))))))))))))))))))))))))))))))))))))))))))))))))))))))))))))))))))))))))))))))))))))))))))))))))))))))))))))))))))))))))))))))))))))))))))))))))))))))))))))))))))))))))))))))))))))))))))))))))))))))))))))))))))))))))))))))))))))))))))))))))))))))))))))))))))))))))))))))))))))))))))))))))))))))))))))))))))))))))))))))))))))))))))))))))))))))))))))))))))))))))))))))))))))))))))))))))))))))))))))))))))))))))))))))))))))))))))))))))))))))))))))))))))))))))))))))))))))))))))))))))))))))))))))))))))))))))))))))))))))))))))))))))))))))))))))))))))))))))))))))))))))))))))))))))))))))))))))))))))))))))))))))))))))))))))))))))))))))))))))))))))))))))))))))))))))))))))))))))))))))))))))))))))))))))))))))))))))))))))))))))))))))))))))))))))))))))))))))))))))))))))))))))))))))))))))))))))))))))))))))))))))))))))))))))))))))))))))))))))))))))))))))))))))))))))))))))))))))))))))))))))))))))))))))))))))))))))))))))))))))))))))))))))))))))))))))))))))

(** val iterN : nat -> n -> (n -> 'a1 -> 'a1) -> 'a1 -> 'a1 **)

let rec iterN n0 i f s =
  match n0 with
  | O -> s
  | S k -> iterN k (N.add i (Npos XH)) f (f i s)

(** val forN : n -> n -> (n -> 'a1 -> 'a1) -> 'a1 -> 'a1 **)

let forN lo hi f s =
  iterN (N.to_nat (N.sub hi lo)) lo f s

(** val ainc : arr -> n -> arr **)

let ainc a i =
  aset a i (N.add (aget a i) (Npos XH))

(** val rfc_dist_extra : arr **)

let rfc_dist_extra =
  arr_of_list rfc_dist_extra_l

(** val rfc_dist_start : arr **)

let rfc_dist_start =
  arr_of_list rfc_dist_start_l

(** val rfc_len_extra : arr **)

let rfc_len_extra =
  arr_of_list rfc_len_extra_l

(** val static_lit_short : arr **)

let static_lit_short =
  arr_of_list static_lit_short_l

(** val static_lit_long : arr **)

let static_lit_long =
  arr_of_list static_lit_long_l

(** val static_dist_short : arr **)

let static_dist_short =
  arr_of_list static_dist_short_l

(** val static_dist_long : arr **)

let static_dist_long =
  arr_of_list static_dist_long_l

(** val phaseNewBlock : n **)

let phaseNewBlock =
  N0

(** val phaseDecodingHeader : n **)

let phaseDecodingHeader =
  Npos XH

(** val phaseLitBlock : n **)

let phaseLitBlock =
  Npos (XO XH)

(** val phaseHeaderDecoded : n **)

let phaseHeaderDecoded =
  Npos (XI XH)

(** val phaseStreamEnd : n **)

let phaseStreamEnd =
  Npos (XO (XO XH))

(** val phaseFinish : n **)

let phaseFinish =
  Npos (XI (XO XH))

(** val litLenElems : n **)

let litLenElems =
  Npos (XO (XI (XO (XO (XO (XO (XO (XO (XO XH)))))))))

(** val maxLitLenCount : n **)

let maxLitLenCount =
  Npos (XI (XI (XI (XO XH))))

(** val singleSymFlag : n **)

let singleSymFlag =
  Npos (XO XH)

(** val doubleSymFlag : n **)

let doubleSymFlag =
  Npos XH

(** val defaultSymFlag : n **)

let defaultSymFlag =
  N0

(** val distLen : n **)

let distLen =
  Npos (XO (XI (XI (XI XH))))

(** val litLen : n **)

let litLen =
  Npos (XO (XI (XI (XI (XI (XO (XO (XO XH))))))))

(** val litTableSize : n **)

let litTableSize =
  Npos (XI (XO (XO (XO (XO (XO (XO (XO XH))))))))

(** val litSymbolsSize : n **)

let litSymbolsSize =
  Npos (XI (XO (XO (XO (XO (XO (XO (XO XH))))))))

(** val maxHdrSize : n **)

let maxHdrSize =
  Npos (XO (XO (XO (XI (XO (XO (XI (XO XH))))))))

(** val maxLitLenSym : n **)

let maxLitLenSym =
  Npos (XO (XO (XO (XO (XO (XO (XO (XO (XO XH)))))))))

(** val historySize : n **)

let historySize =
  Npos (XO (XO (XO (XO (XO (XO (XO (XO (XO (XO (XO (XO (XO (XO (XO
    XH)))))))))))))))

(** val outLen : n **)

let outLen =
  Npos (XO (XO (XO (XO (XO (XO (XO (XO (XO (XO (XO (XO (XO (XO (XO (XO
    XH))))))))))))))))

(** val invalidSymbolValue : n **)

let invalidSymbolValue =
  Npos (XI (XI (XI (XI (XI (XI (XI (XI (XI (XI (XI (XI XH))))))))))))

(** val invalidCodeValue : n **)

let invalidCodeValue =
  Npos (XI (XI (XI (XI (XI (XI (XI (XI (XI (XI (XI (XI (XI (XI (XI (XI (XI
    (XI (XI (XI (XI (XI (XI XH)))))))))))))))))))))))

(** val largeFlagBit : n **)

let largeFlagBit =
  Npos (XO (XO (XO (XO (XO (XO (XO (XO (XO (XO (XO (XO (XO (XO (XO (XO (XO
    (XO (XO (XO (XO (XO (XO (XO (XO XH)))))))))))))))))))))))))

(** val largeShortSymMask : n **)

let largeShortSymMask =
  Npos (XI (XI (XI (XI (XI (XI (XI (XI (XI (XI (XI (XI (XI (XI (XI (XI (XI
    (XI (XI (XI (XI (XI (XI (XI XH))))))))))))))))))))))))

(** val smallFlagBit : n **)

let smallFlagBit =
  Npos (XO (XO (XO (XO (XO (XO (XO (XO (XO (XO XH))))))))))

type ierr =
| ENone
| EEndInput
| EOutputOverflow
| EInvalidBlock
| EInvalidSymbol
| EInvalidLookBack
| EPanic
| EFuel

(** val ierr_eqb : ierr -> ierr -> bool **)

let ierr_eqb a b =
  match a with
  | ENone -> (match b with
              | ENone -> true
              | _ -> false)
  | EEndInput -> (match b with
                  | EEndInput -> true
                  | _ -> false)
  | EOutputOverflow -> (match b with
                        | EOutputOverflow -> true
                        | _ -> false)
  | EInvalidBlock -> (match b with
                      | EInvalidBlock -> true
                      | _ -> false)
  | EInvalidSymbol -> (match b with
                       | EInvalidSymbol -> true
                       | _ -> false)
  | EInvalidLookBack -> (match b with
                         | EInvalidLookBack -> true
                         | _ -> false)
  | EPanic -> (match b with
               | EPanic -> true
               | _ -> false)
  | EFuel -> (match b with
              | EFuel -> true
              | _ -> false)

(** val isError : ierr -> bool **)

let isError = function
| EInvalidBlock -> true
| EInvalidSymbol -> true
| EInvalidLookBack -> true
| _ -> false

type bitrd = { r_bits : n; r_len : z; r_in : n list; r_inlen : n }

type ovf = { writeOverflowLits : n; writeOverflowLen : n;
             copyOverflowLength : n; copyOverflowDistance : n }

type tabs = { litShort : arr; litLong : arr; distShort : arr; distLong : arr }

type dynHdr = { litAndDistHuff : arr; clcShort : arr; clcLong : arr;
                codeList : arr; litCount : arr; distCount : arr;
                litExpandCount : arr; nextCode : arr; lenHuffCodes : 
                arr }

type inflate = { rd : bitrd; inputNil : bool; ov : ovf; tb : tabs; phase : 
                 n; bfinal : n; litBlockLength : n; headerBuffered : 
                 n; headerBuffer : n list; dyn : dynHdr; roffset : z }

(** val set_rd : inflate -> bitrd -> inflate **)

let set_rd s v =
  { rd = v; inputNil = s.inputNil; ov = s.ov; tb = s.tb; phase = s.phase;
    bfinal = s.bfinal; litBlockLength = s.litBlockLength; headerBuffered =
    s.headerBuffered; headerBuffer = s.headerBuffer; dyn = s.dyn; roffset =
    s.roffset }

(** val set_inputNil : inflate -> bool -> inflate **)

let set_inputNil s v =
  { rd = s.rd; inputNil = v; ov = s.ov; tb = s.tb; phase = s.phase; bfinal =
    s.bfinal; litBlockLength = s.litBlockLength; headerBuffered =
    s.headerBuffered; headerBuffer = s.headerBuffer; dyn = s.dyn; roffset =
    s.roffset }

(** val set_ov : inflate -> ovf -> inflate **)

let set_ov s v =
  { rd = s.rd; inputNil = s.inputNil; ov = v; tb = s.tb; phase = s.phase;
    bfinal = s.bfinal; litBlockLength = s.litBlockLength; headerBuffered =
    s.headerBuffered; headerBuffer = s.headerBuffer; dyn = s.dyn; roffset =
    s.roffset }

(** val set_tb : inflate -> tabs -> inflate **)

let set_tb s v =
  { rd = s.rd; inputNil = s.inputNil; ov = s.ov; tb = v; phase = s.phase;
    bfinal = s.bfinal; litBlockLength = s.litBlockLength; headerBuffered =
    s.headerBuffered; headerBuffer = s.headerBuffer; dyn = s.dyn; roffset =
    s.roffset }

(** val set_phase : inflate -> n -> inflate **)

let set_phase s v =
  { rd = s.rd; inputNil = s.inputNil; ov = s.ov; tb = s.tb; phase = v;
    bfinal = s.bfinal; litBlockLength = s.litBlockLength; headerBuffered =
    s.headerBuffered; headerBuffer = s.headerBuffer; dyn = s.dyn; roffset =
    s.roffset }

(** val set_bfinal : inflate -> n -> inflate **)

let set_bfinal s v =
  { rd = s.rd; inputNil = s.inputNil; ov = s.ov; tb = s.tb; phase = s.phase;
    bfinal = v; litBlockLength = s.litBlockLength; headerBuffered =
    s.headerBuffered; headerBuffer = s.headerBuffer; dyn = s.dyn; roffset =
    s.roffset }

(** val set_litBlockLength : inflate -> n -> inflate **)

let set_litBlockLength s v =
  { rd = s.rd; inputNil = s.inputNil; ov = s.ov; tb = s.tb; phase = s.phase;
    bfinal = s.bfinal; litBlockLength = v; headerBuffered = s.headerBuffered;
    headerBuffer = s.headerBuffer; dyn = s.dyn; roffset = s.roffset }

(** val set_header : inflate -> n -> n list -> inflate **)

let set_header s n0 b =
  { rd = s.rd; inputNil = s.inputNil; ov = s.ov; tb = s.tb; phase = s.phase;
    bfinal = s.bfinal; litBlockLength = s.litBlockLength; headerBuffered =
    n0; headerBuffer = b; dyn = s.dyn; roffset = s.roffset }

(** val set_dyn : inflate -> dynHdr -> inflate **)

let set_dyn s v =
  { rd = s.rd; inputNil = s.inputNil; ov = s.ov; tb = s.tb; phase = s.phase;
    bfinal = s.bfinal; litBlockLength = s.litBlockLength; headerBuffered =
    s.headerBuffered; headerBuffer = s.headerBuffer; dyn = v; roffset =
    s.roffset }

(** val set_roffset : inflate -> z -> inflate **)

let set_roffset s v =
  { rd = s.rd; inputNil = s.inputNil; ov = s.ov; tb = s.tb; phase = s.phase;
    bfinal = s.bfinal; litBlockLength = s.litBlockLength; headerBuffered =
    s.headerBuffered; headerBuffer = s.headerBuffer; dyn = s.dyn; roffset =
    v }

(** val br0 : bitrd **)

let br0 =
  { r_bits = N0; r_len = Z0; r_in = []; r_inlen = N0 }

(** val ov0 : ovf **)

let ov0 =
  { writeOverflowLits = N0; writeOverflowLen = N0; copyOverflowLength = N0;
    copyOverflowDistance = N0 }

(** val dyn0 : dynHdr **)

let dyn0 =
  { litAndDistHuff = aempty; clcShort = aempty; clcLong = aempty; codeList =
    aempty; litCount = aempty; distCount = aempty; litExpandCount = aempty;
    nextCode = aempty; lenHuffCodes = aempty }

(** val inflate0 : inflate **)

let inflate0 =
  { rd = br0; inputNil = true; ov = ov0; tb = { litShort = aempty; litLong =
    aempty; distShort = aempty; distLong = aempty }; phase = N0; bfinal = N0;
    litBlockLength = N0; headerBuffered = N0; headerBuffer = []; dyn = dyn0;
    roffset = Z0 }

(** val inflate_reset : inflate -> inflate **)

let inflate_reset s =
  { rd = br0; inputNil = true; ov = ov0; tb = s.tb; phase = N0; bfinal = N0;
    litBlockLength = N0; headerBuffered = N0; headerBuffer = []; dyn = s.dyn;
    roffset = Z0 }

(** val br_set_bits : bitrd -> n -> bitrd **)

let br_set_bits b v =
  { r_bits = v; r_len = b.r_len; r_in = b.r_in; r_inlen = b.r_inlen }

(** val br_set_len : bitrd -> z -> bitrd **)

let br_set_len b v =
  { r_bits = b.r_bits; r_len = v; r_in = b.r_in; r_inlen = b.r_inlen }

(** val br_set_in : bitrd -> n list -> n -> bitrd **)

let br_set_in b l n0 =
  { r_bits = b.r_bits; r_len = b.r_len; r_in = l; r_inlen = n0 }

(** val br_drop : bitrd -> n -> bitrd **)

let br_drop b k =
  { r_bits = (N.shiftr b.r_bits k); r_len = (Z.sub b.r_len (Z.of_N k));
    r_in = b.r_in; r_inlen = b.r_inlen }

(** val next_bits : bitrd -> n -> n * bitrd **)

let next_bits b k =
  ((N.coq_land b.r_bits (N.ones k)), (br_drop b k))

(** val le64 : n -> n -> n -> n -> n -> n -> n -> n -> n **)

let le64 a0 a1 a2 a3 a4 a5 a6 a7 =
  N.add
    (N.add
      (N.add
        (N.add
          (N.add
            (N.add (N.add a0 (N.shiftl a1 (Npos (XO (XO (XO XH))))))
              (N.shiftl a2 (Npos (XO (XO (XO (XO XH)))))))
            (N.shiftl a3 (Npos (XO (XO (XO (XI XH)))))))
          (N.shiftl a4 (Npos (XO (XO (XO (XO (XO XH))))))))
        (N.shiftl a5 (Npos (XO (XO (XO (XI (XO XH))))))))
      (N.shiftl a6 (Npos (XO (XO (XO (XO (XI XH))))))))
    (N.shiftl a7 (Npos (XO (XO (XO (XI (XI XH)))))))

(** val load_bytes : nat -> bitrd -> bitrd **)

let rec load_bytes n0 b =
  match n0 with
  | O -> b
  | S k ->
    (match b.r_in with
     | [] -> b
     | x :: rest ->
       load_bytes k { r_bits =
         (N.coq_lor b.r_bits (shl64 x (Z.to_N b.r_len))); r_len =
         (Z.add b.r_len (Zpos (XO (XO (XO XH))))); r_in = rest; r_inlen =
         (N.sub b.r_inlen (Npos XH)) })

(** val load_raw : bitrd -> bitrd option **)

let load_raw b =
  if Z.ltb b.r_len Z0
  then if N.eqb b.r_inlen N0 then Some b else None
  else if Z.ltb (Zpos (XO (XO (XO (XO (XO (XO XH))))))) b.r_len
       then None
       else let n0 = Z.to_N b.r_len in
            if N.leb (Npos (XO (XO (XO XH)))) b.r_inlen
            then (match b.r_in with
                  | [] -> None
                  | a0 :: l ->
                    (match l with
                     | [] -> None
                     | a1 :: l0 ->
                       (match l0 with
                        | [] -> None
                        | a2 :: l1 ->
                          (match l1 with
                           | [] -> None
                           | a3 :: l2 ->
                             (match l2 with
                              | [] -> None
                              | a4 :: l3 ->
                                (match l3 with
                                 | [] -> None
                                 | a5 :: l4 ->
                                   (match l4 with
                                    | [] -> None
                                    | a6 :: l5 ->
                                      (match l5 with
                                       | [] -> None
                                       | a7 :: _ ->
                                         let consumed0 =
                                           N.sub (Npos (XO (XO (XO XH))))
                                             (N.div
                                               (N.add n0 (Npos (XI (XI XH))))
                                               (Npos (XO (XO (XO XH)))))
                                         in
                                         let temp =
                                           le64 a0 a1 a2 a3 a4 a5 a6 a7
                                         in
                                         Some { r_bits =
                                         (N.coq_lor b.r_bits (shl64 temp n0));
                                         r_len =
                                         (Z.add b.r_len
                                           (Z.mul (Zpos (XO (XO (XO XH))))
                                             (Z.of_N consumed0))); r_in =
                                         (skipn (N.to_nat consumed0) b.r_in);
                                         r_inlen =
                                         (N.sub b.r_inlen consumed0) }))))))))
            else let size0 =
                   N.min
                     (N.div
                       (N.sub (Npos (XO (XO (XO (XO (XO (XO XH))))))) n0)
                       (Npos (XO (XO (XO XH))))) b.r_inlen
                 in
                 Some (load_bytes (N.to_nat size0) b)

(** val load_lt57 : bitrd -> bitrd option **)

let load_lt57 b =
  if Z.ltb b.r_len (Zpos (XI (XO (XO (XI (XI XH))))))
  then load_raw b
  else Some b

(** val load_le15 : bitrd -> bitrd option **)

let load_le15 b =
  if Z.leb b.r_len (Zpos (XI (XI (XI XH)))) then load_raw b else Some b

(** val hc_len : n -> n **)

let hc_len h =
  N.shiftr h (Npos (XO (XO (XO (XI XH)))))

(** val hc_code : n -> n **)

let hc_code h =
  N.coq_land h (Npos (XI (XI (XI (XI (XI (XI (XI (XI (XI (XI (XI (XI (XI (XI
    (XI (XI (XI (XI (XI (XI (XI (XI (XI XH))))))))))))))))))))))))

(** val hc_set : n -> n -> n **)

let hc_set code len =
  u32 (N.coq_lor code (N.shiftl len (Npos (XO (XO (XO (XI XH)))))))

(** val hc_setcode : n -> n -> n **)

let hc_setcode h code =
  N.coq_lor
    (N.coq_land h (Npos (XO (XO (XO (XO (XO (XO (XO (XO (XO (XO (XO (XO (XO
      (XO (XO (XO (XO (XO (XO (XO (XO (XO (XO (XO (XI (XI (XI (XI (XI (XI (XI
      XH)))))))))))))))))))))))))))))))))
    (N.coq_land code (Npos (XI (XI (XI (XI (XI (XI (XI (XI (XI (XI (XI (XI
      (XI (XI (XI (XI (XI (XI (XI (XI (XI (XI (XI XH)))))))))))))))))))))))))

(** val rev_bits : nat -> n -> n -> n **)

let rec rev_bits n0 x acc =
  match n0 with
  | O -> acc
  | S k ->
    rev_bits k (N.shiftr x (Npos XH))
      (N.add (N.mul (Npos (XO XH)) acc) (N.coq_land x (Npos XH)))

(** val bitReverse2 : n -> n -> n **)

let bitReverse2 code len =
  N.shiftr
    (rev_bits (S (S (S (S (S (S (S (S (S (S (S (S (S (S (S (S
      O)))))))))))))))) (u16 code) N0)
    (u8
      (subw (Npos (XO (XO (XO XH)))) (Npos (XO (XO (XO (XO XH))))) (u8 len)))

(** val setCodes : arr -> n -> n -> arr -> arr * bool **)

let setCodes table off n0 count =
  let nc =
    forN (Npos (XO XH)) (Npos (XO (XO (XO (XO XH))))) (fun i c ->
      aset c i
        (shl32
          (u32
            (N.add (aget c (N.sub i (Npos XH)))
              (aget count (N.sub i (Npos XH))))) (Npos XH))) aempty
  in
  let mx =
    u32
      (N.add (aget nc (Npos (XI (XI (XI XH)))))
        (aget count (Npos (XI (XI (XI XH))))))
  in
  if N.ltb (Npos (XO (XO (XO (XO (XO (XO (XO (XO (XO (XO (XO (XO (XO (XO (XO
       XH)))))))))))))))) mx
  then (table, true)
  else let (t0, _) =
         forN N0 n0 (fun i st ->
           let (t0, nc0) = st in
           let length = hc_len (aget t0 (N.add off i)) in
           if N.eqb length N0
           then st
           else let code = bitReverse2 (u16 (aget nc0 length)) length in
                ((aset t0 (N.add off i) (hc_set code length)),
                (aset nc0 length (u32 (N.add (aget nc0 length) (Npos XH))))))
           (table, nc)
       in
       (t0, false)

(** val long_fill :
    nat -> n -> n -> arr -> n -> n -> n -> n -> n -> bool -> arr * bool **)

let rec long_fill fuel bound wrap long base longBits lim minInc entry pan =
  match fuel with
  | O -> (long, pan)
  | S f ->
    if N.ltb longBits lim
    then let idx = N.add base longBits in
         if N.leb bound idx
         then (long, true)
         else long_fill f bound wrap (aset long idx entry) base
                (N.coq_land (N.add longBits minInc) wrap) lim minInc entry pan
    else (long, pan)

(** val gen_small :
    bool -> arr -> arr -> arr -> n -> arr -> n -> ((arr * arr) * arr) * ierr **)

let gen_small hdr short long codes ncodes count maxSymbol =
  let ct =
    forN (Npos (XO XH)) (Npos (XI (XO (XO (XO XH))))) (fun i c ->
      aset c i
        (u32
          (N.add (aget c (N.sub i (Npos XH)))
            (aget count (N.sub i (Npos XH)))))) aempty
  in
  let codeListLen = aget ct (Npos (XO (XO (XO (XO XH))))) in
  if N.eqb codeListLen N0
  then (((aempty, long), codes), ENone)
  else let (p, pan0) =
         forN N0 ncodes (fun i st ->
           let (p, pan) = st in
           let (cl, ctt) = p in
           let codeLength = hc_len (aget codes i) in
           if N.eqb codeLength N0
           then st
           else let ins = aget ctt codeLength in
                if N.leb (Npos (XO (XO (XO (XO (XO XH)))))) ins
                then ((cl, ctt), true)
                else (((aset cl ins i),
                       (aset ctt codeLength (N.add ins (Npos XH)))), pan))
           ((aempty, ct), false)
       in
       let (cl, _) = p in
       if pan0
       then (((short, long), codes), EPanic)
       else let lastLength0 = hc_len (aget codes (aget cl N0)) in
            let lastLength =
              if N.ltb (Npos (XO (XI (XO XH)))) lastLength0
              then Npos (XI (XI (XO XH)))
              else lastLength0
            in
            let copySize =
              if N.eqb lastLength N0
              then N0
              else N.shiftl (Npos XH) (N.sub lastLength (Npos XH))
            in
            let short0 = forN N0 copySize (fun i t0 -> aset t0 i N0) short in
            let (short1, _) =
              forN lastLength (Npos (XI (XI (XO XH)))) (fun ll st ->
                let (t0, cs) = st in
                let t1 =
                  forN N0
                    (N.min cs
                      (N.sub (Npos (XO (XO (XO (XO (XO (XO (XO (XO (XO (XO
                        XH))))))))))) cs)) (fun i t1 ->
                    aset t1 (N.add cs i) (aget t1 i)) t0
                in
                let t2 =
                  forN (aget ct ll) (aget ct (N.add ll (Npos XH)))
                    (fun k t2 ->
                    let idx = aget cl k in
                    let h = aget codes idx in
                    if N.leb maxSymbol idx
                    then if hdr
                         then t2
                         else aset t2 (hc_code h) (u16 (hc_len h))
                    else if hdr
                         then aset t2 (hc_code h)
                                (u16
                                  (N.coq_lor idx
                                    (N.shiftl (hc_len h) (Npos (XI (XI (XO
                                      XH)))))))
                         else aset t2 (hc_code h)
                                (u16
                                  (N.coq_lor
                                    (N.coq_lor idx
                                      (N.shiftl (aget rfc_dist_extra idx)
                                        (Npos (XI (XO XH)))))
                                    (N.shiftl (hc_len h) (Npos (XI (XI (XO
                                      XH)))))))) t1
                in
                (t2, (N.mul cs (Npos (XO XH))))) (short0, copySize)
            in
            let longCodeStart = aget ct (Npos (XI (XI (XO XH)))) in
            let longCodeLength = sub32 codeListLen longCodeStart in
            let (p0, pan) =
              forN N0 longCodeLength (fun i st ->
                let (p0, pan) = st in
                let (p1, lcl) = p0 in
                let (p2, codes0) = p1 in
                let (short2, long0) = p2 in
                if negb (ierr_eqb pan ENone)
                then st
                else if N.leb (Npos (XO (XO (XO (XO (XO XH))))))
                          (N.add longCodeStart i)
                     then ((((short2, long0), codes0), lcl), EPanic)
                     else let li = aget cl (N.add longCodeStart i) in
                          if N.eqb (hc_code (aget codes0 li)) (Npos (XI (XI
                               (XI (XI (XI (XI (XI (XI (XI (XI (XI (XI (XI
                               (XI (XI XH))))))))))))))))
                          then st
                          else let maxLength0 = hc_len (aget codes0 li) in
                               let firstBits =
                                 N.coq_land (hc_code (aget codes0 li)) (Npos
                                   (XI (XI (XI (XI (XI (XI (XI (XI (XI
                                   XH))))))))))
                               in
                               let (maxLength, tempRev) =
                                 forN (N.add i (Npos XH)) longCodeLength
                                   (fun j a ->
                                   let (ml, tl) = a in
                                   let lj = aget cl (N.add longCodeStart j) in
                                   if N.eqb
                                        (N.coq_land
                                          (hc_code (aget codes0 lj)) (Npos
                                          (XI (XI (XI (XI (XI (XI (XI (XI (XI
                                          XH))))))))))) firstBits
                                   then let lenj = hc_len (aget codes0 lj) in
                                        ((if hdr
                                          then if N.ltb ml lenj
                                               then lenj
                                               else ml
                                          else lenj), (lj :: tl))
                                   else a) (maxLength0, (li :: []))
                               in
                               let temp = frev tempRev in
                               let grp =
                                 N.shiftl (Npos XH)
                                   (N.sub maxLength (Npos (XO (XI (XO XH)))))
                               in
                               let clrEnd =
                                 N.add lcl
                                   (if hdr
                                    then N.mul (Npos (XO XH)) grp
                                    else grp)
                               in
                               if (&&) (negb hdr)
                                    (N.ltb (Npos (XO (XO (XO (XO (XI (XO
                                      XH))))))) (N.add lcl grp))
                               then ((((short2, long0), codes0), lcl),
                                      EInvalidBlock)
                               else if N.ltb (Npos (XO (XO (XO (XO (XI (XO
                                         XH))))))) clrEnd
                                    then ((((short2, long0), codes0), lcl),
                                           EPanic)
                                    else let long1 =
                                           forN lcl clrEnd (fun x t0 ->
                                             aset t0 x N0) long0
                                         in
                                         let (p3, panb) =
                                           fold_left (fun a sym ->
                                             let (p3, pan1) = a in
                                             let (long2, codes1) = p3 in
                                             let codeLength =
                                               hc_len (aget codes1 sym)
                                             in
                                             let longBits =
                                               u16
                                                 (N.shiftr
                                                   (hc_code (aget codes1 sym))
                                                   (Npos (XO (XI (XO XH)))))
                                             in
                                             let minInc =
                                               shl16 (Npos XH)
                                                 (N.sub codeLength (Npos (XO
                                                   (XI (XO XH)))))
                                             in
                                             let entry =
                                               if hdr
                                               then u16
                                                      (N.coq_lor sym
                                                        (N.shiftl codeLength
                                                          (Npos (XO (XI (XO
                                                          XH))))))
                                               else if N.ltb maxSymbol sym
                                                    then u16 codeLength
                                                    else u16
                                                           (N.coq_lor
                                                             (N.coq_lor sym
                                                               (N.shiftl
                                                                 (aget
                                                                   rfc_dist_extra
                                                                   sym) (Npos
                                                                 (XI (XO
                                                                 XH)))))
                                                             (N.shiftl
                                                               codeLength
                                                               (Npos (XO (XI
                                                               (XO XH))))))
                                             in
                                             let (long3, pan2) =
                                               long_fill small_fuel (Npos (XO
                                                 (XO (XO (XO (XI (XO
                                                 XH))))))) mask16 long2 lcl
                                                 longBits grp minInc entry
                                                 pan1
                                             in
                                             ((long3,
                                             (aset codes1 sym
                                               (hc_setcode (aget codes1 sym)
                                                 (Npos (XI (XI (XI (XI (XI
                                                 (XI (XI (XI (XI (XI (XI (XI
                                                 (XI (XI (XI
                                                 XH))))))))))))))))))), pan2))
                                             temp ((long1, codes0), false)
                                         in
                                         let (long2, codes1) = p3 in
                                         let short3 =
                                           aset short2 firstBits
                                             (u16
                                               (N.coq_lor
                                                 (N.coq_lor lcl
                                                   (N.shiftl maxLength (Npos
                                                     (XI (XI (XO XH))))))
                                                 smallFlagBit))
                                         in
                                         ((((short3, long2), codes1),
                                         (N.add lcl grp)),
                                         (if panb then EPanic else ENone)))
                ((((short1, long), codes), N0), ENone)
            in
            let (p1, _) = p0 in (p1, pan)

(** val setupStaticHeader : inflate -> inflate **)

let setupStaticHeader s =
  set_phase
    (set_tb s { litShort = static_lit_short; litLong = static_lit_long;
      distShort = static_dist_short; distLong = static_dist_long })
    phaseHeaderDecoded

(** val codeLengthOrder : arr **)

let codeLengthOrder =
  arr_of_list ((Npos (XO (XO (XO (XO XH))))) :: ((Npos (XI (XO (XO (XO
    XH))))) :: ((Npos (XO (XI (XO (XO XH))))) :: (N0 :: ((Npos (XO (XO (XO
    XH)))) :: ((Npos (XI (XI XH))) :: ((Npos (XI (XO (XO XH)))) :: ((Npos (XO
    (XI XH))) :: ((Npos (XO (XI (XO XH)))) :: ((Npos (XI (XO XH))) :: ((Npos
    (XI (XI (XO XH)))) :: ((Npos (XO (XO XH))) :: ((Npos (XO (XO (XI
    XH)))) :: ((Npos (XI XH)) :: ((Npos (XI (XO (XI XH)))) :: ((Npos (XO
    XH)) :: ((Npos (XO (XI (XI XH)))) :: ((Npos XH) :: ((Npos (XI (XI (XI
    XH)))) :: [])))))))))))))))))))

(** val loadBits : inflate -> inflate option **)

let loadBits s =
  match load_lt57 s.rd with
  | Some b -> Some (set_rd s b)
  | None -> None

(** val readBits : inflate -> n -> (n * inflate) option **)

let readBits s k =
  match loadBits s with
  | Some s0 -> let (v, b) = next_bits s0.rd k in Some (v, (set_rd s0 b))
  | None -> None

(** val clc_read3 : n -> ((bitrd * arr) * arr) -> (bitrd * arr) * arr **)

let clc_read3 i = function
| (p, codeCount) ->
  let (b, codeHuff) = p in
  let (length, b0) = next_bits b (Npos (XI XH)) in
  ((b0, (aset codeHuff (aget codeLengthOrder i) (hc_set N0 length))),
  (ainc codeCount length))

(** val codeLenCodes : inflate -> n -> inflate * ierr **)

let codeLenCodes s hclen =
  let (p, codeCount) =
    forN N0 (Npos (XO (XO XH))) clc_read3 ((s.rd, aempty), aempty)
  in
  let (b, codeHuff) = p in
  (match load_lt57 b with
   | Some b0 ->
     let (p0, codeCount0) =
       forN (Npos (XO (XO XH))) (N.add hclen (Npos (XO (XO XH)))) clc_read3
         ((b0, codeHuff), codeCount)
     in
     let (b1, codeHuff0) = p0 in
     let s0 = set_rd s b1 in
     if Z.ltb b1.r_len Z0
     then (s0, EEndInput)
     else let (codeHuff1, bad) =
            setCodes codeHuff0 N0 (Npos (XI (XI (XO (XO XH))))) codeCount0
          in
          if bad
          then (s0, EInvalidBlock)
          else let d = s0.dyn in
               let (p1, e) =
                 gen_small true d.clcShort d.clcLong codeHuff1 (Npos (XI (XI
                   (XO (XO XH))))) codeCount0 (Npos (XI (XI (XO (XO XH)))))
               in
               let (p2, _) = p1 in
               let (sh, lg) = p2 in
               let d0 = { litAndDistHuff = d.litAndDistHuff; clcShort = sh;
                 clcLong = lg; codeList = d.codeList; litCount = d.litCount;
                 distCount = d.distCount; litExpandCount = d.litExpandCount;
                 nextCode = d.nextCode; lenHuffCodes = d.lenHuffCodes }
               in
               ((set_dyn s0 d0), e)
   | None -> ((set_rd s b), EPanic))

(** val clc_decode : arr -> arr -> bitrd -> (n * bitrd) option **)

let clc_decode clcS clcL b =
  let nextBits =
    N.coq_land b.r_bits (Npos (XI (XI (XI (XI (XI (XI (XI (XI (XI XH))))))))))
  in
  let nextSym = aget clcS nextBits in
  if N.eqb (N.coq_land nextSym smallFlagBit) N0
  then let bitCount = N.shiftr nextSym (Npos (XI (XI (XO XH)))) in
       let b0 = br_drop b bitCount in
       let nextSym0 =
         if N.eqb bitCount N0 then invalidSymbolValue else nextSym
       in
       Some
       ((N.coq_land nextSym0 (Npos (XI (XI (XI (XI (XI (XI (XI (XI
          XH)))))))))), b0)
  else let bitMask =
         ones32
           (N.shiftr (u32 (N.sub nextSym smallFlagBit)) (Npos (XI (XI (XO
             XH)))))
       in
       let nextBits0 = u16 (N.coq_land (u32 b.r_bits) bitMask) in
       let idx =
         u16
           (N.add
             (N.coq_land nextSym (Npos (XI (XI (XI (XI (XI (XI (XI (XI
               XH)))))))))) (N.shiftr nextBits0 (Npos (XO (XI (XO XH))))))
       in
       if N.leb (Npos (XO (XO (XO (XO (XI (XO XH))))))) idx
       then None
       else let nextSym0 = aget clcL idx in
            let bitCount = N.shiftr nextSym0 (Npos (XO (XI (XO XH)))) in
            Some
            ((N.coq_land nextSym0 (Npos (XI (XI (XI (XI (XI (XI (XI (XI
               XH)))))))))), (br_drop b bitCount))

type rlst = { rl_b : bitrd; rl_h : arr; rl_lc : arr; rl_dc : arr;
              rl_ex : arr; rl_curr : z; rl_prev : z; rl_inDist : bool }

(** val rl_count_inc : rlst -> bool -> n -> arr * arr **)

let rl_count_inc st inDist i =
  if inDist
  then (st.rl_lc, (aset st.rl_dc i (u16 (N.add (aget st.rl_dc i) (Npos XH)))))
  else ((aset st.rl_lc i (u16 (N.add (aget st.rl_lc i) (Npos XH)))), st.rl_dc)

(** val expand_adjust : arr -> n -> z -> arr **)

let expand_adjust ex len prev =
  let extra =
    aget rfc_len_extra
      (Z.to_N (Z.sub prev (Zpos (XI (XO (XO (XO (XO (XO (XO (XO XH)))))))))))
  in
  let ex1 = aset ex len (sub16 (aget ex len) (Npos XH)) in
  aset ex1 (N.add len extra)
    (u16 (N.add (aget ex1 (N.add len extra)) (N.shiftl (Npos XH) extra)))

(** val rl_put : rlst -> z -> z -> n -> rlst option **)

let rl_put st split endv h =
  if Z.eqb st.rl_curr split
  then let curr = Zpos (XO (XI (XI (XI (XI (XO (XO (XO XH)))))))) in
       let inDist = true in
       if Z.leb endv curr
       then None
       else let len = hc_len h in
            let (lc, dc) = rl_count_inc st inDist len in
            let hf = aset st.rl_h (Z.to_N curr) h in
            let ex =
              if (||) ((||) (N.eqb len N0) (Z.leb split curr))
                   (Z.ltb curr (Zpos (XO (XO (XO (XI (XO (XO (XO (XO
                     XH))))))))))
              then st.rl_ex
              else expand_adjust st.rl_ex len curr
            in
            Some { rl_b = st.rl_b; rl_h = hf; rl_lc = lc; rl_dc = dc; rl_ex =
            ex; rl_curr = (Z.add curr (Zpos XH)); rl_prev = curr; rl_inDist =
            inDist }
  else let curr = st.rl_curr in
       let inDist = st.rl_inDist in
       if Z.leb endv curr
       then None
       else let len = hc_len h in
            let (lc, dc) = rl_count_inc st inDist len in
            let hf = aset st.rl_h (Z.to_N curr) h in
            let ex =
              if (||) ((||) (N.eqb len N0) (Z.leb split curr))
                   (Z.ltb curr (Zpos (XO (XO (XO (XI (XO (XO (XO (XO
                     XH))))))))))
              then st.rl_ex
              else expand_adjust st.rl_ex len curr
            in
            Some { rl_b = st.rl_b; rl_h = hf; rl_lc = lc; rl_dc = dc; rl_ex =
            ex; rl_curr = (Z.add curr (Zpos XH)); rl_prev = curr; rl_inDist =
            inDist }

(** val rl_rep : nat -> rlst -> z -> z -> n -> rlst option **)

let rec rl_rep n0 st split endv h =
  match n0 with
  | O -> Some st
  | S k ->
    (match rl_put st split endv h with
     | Some st0 -> rl_rep k st0 split endv h
     | None -> None)

(** val rl_set_b : rlst -> bitrd -> rlst **)

let rl_set_b st b =
  { rl_b = b; rl_h = st.rl_h; rl_lc = st.rl_lc; rl_dc = st.rl_dc; rl_ex =
    st.rl_ex; rl_curr = st.rl_curr; rl_prev = st.rl_prev; rl_inDist =
    st.rl_inDist }

(** val rl_loop : nat -> arr -> arr -> z -> z -> rlst -> rlst * ierr **)

let rec rl_loop fuel clcS clcL split endv st =
  match fuel with
  | O -> (st, EFuel)
  | S f ->
    if Z.ltb st.rl_curr endv
    then (match load_le15 st.rl_b with
          | Some b ->
            (match clc_decode clcS clcL b with
             | Some p ->
               let (symbol, b0) = p in
               let st0 = rl_set_b st b0 in
               if Z.ltb b0.r_len Z0
               then if (&&)
                         (Z.ltb (Zpos (XO (XO (XO (XO (XO (XO (XO (XO
                           XH))))))))) st0.rl_curr)
                         (N.eqb
                           (hc_len
                             (aget st0.rl_h (Npos (XO (XO (XO (XO (XO (XO (XO
                               (XO XH))))))))))) N0)
                    then (st0, EInvalidBlock)
                    else (st0, EEndInput)
               else if N.ltb symbol (Npos (XO (XO (XO (XO XH)))))
                    then (match rl_put st0 split endv (hc_set N0 symbol) with
                          | Some st1 -> rl_loop f clcS clcL split endv st1
                          | None -> (st0, EPanic))
                    else if N.eqb symbol (Npos (XO (XO (XO (XO XH)))))
                         then (match load_raw b0 with
                               | Some b1 ->
                                 let (ret, b2) = next_bits b1 (Npos (XO XH))
                                 in
                                 let st1 = rl_set_b st0 b2 in
                                 let i = Z.of_N (N.add (Npos (XI XH)) ret) in
                                 let curr = st1.rl_curr in
                                 let last = Z.add curr i in
                                 let last0 =
                                   if (&&) (Z.leb curr split)
                                        (Z.ltb split last)
                                   then Z.add last
                                          (Z.sub (Zpos (XO (XI (XI (XI (XI
                                            (XO (XO (XO XH))))))))) split)
                                   else last
                                 in
                                 if (||) (Z.ltb endv last0)
                                      (Z.eqb st1.rl_prev (Zneg XH))
                                 then (st1, EInvalidBlock)
                                 else let repCode =
                                        aget st1.rl_h (Z.to_N st1.rl_prev)
                                      in
                                      (match rl_rep (Z.to_nat i) st1 split
                                               endv repCode with
                                       | Some st2 ->
                                         rl_loop f clcS clcL split endv st2
                                       | None -> (st1, EPanic))
                               | None -> (st0, EPanic))
                         else if (||)
                                   (N.eqb symbol (Npos (XI (XO (XO (XO
                                     XH))))))
                                   (N.eqb symbol (Npos (XO (XI (XO (XO
                                     XH))))))
                              then (match load_raw b0 with
                                    | Some b1 ->
                                      let (ret, b2) =
                                        if N.eqb symbol (Npos (XI (XO (XO (XO
                                             XH)))))
                                        then next_bits b1 (Npos (XI XH))
                                        else next_bits b1 (Npos (XI (XI XH)))
                                      in
                                      let i =
                                        Z.of_N
                                          (N.add
                                            (if N.eqb symbol (Npos (XI (XO
                                                  (XO (XO XH)))))
                                             then Npos (XI XH)
                                             else Npos (XI (XI (XO XH)))) ret)
                                      in
                                      let curr = Z.add st0.rl_curr i in
                                      let prev = Z.sub curr (Zpos XH) in
                                      let (p0, inDist) =
                                        if (&&) (negb st0.rl_inDist)
                                             (Z.ltb split curr)
                                        then let curr0 =
                                               Z.add curr
                                                 (Z.sub (Zpos (XO (XI (XI (XI
                                                   (XI (XO (XO (XO
                                                   XH))))))))) split)
                                             in
                                             ((curr0,
                                             (if Z.ltb (Zpos (XO (XI (XI (XI
                                                   (XI (XO (XO (XO
                                                   XH))))))))) curr0
                                              then Z.sub curr0 (Zpos XH)
                                              else prev)), true)
                                        else ((curr, prev), st0.rl_inDist)
                                      in
                                      let (curr0, prev0) = p0 in
                                      rl_loop f clcS clcL split endv { rl_b =
                                        b2; rl_h = st0.rl_h; rl_lc =
                                        st0.rl_lc; rl_dc = st0.rl_dc; rl_ex =
                                        st0.rl_ex; rl_curr = curr0; rl_prev =
                                        prev0; rl_inDist = inDist }
                                    | None -> (st0, EPanic))
                              else (st0, EInvalidBlock)
             | None -> (st, EPanic))
          | None -> (st, EPanic))
    else if (||) (Z.ltb endv st.rl_curr)
              (N.eqb
                (hc_len
                  (aget st.rl_h (Npos (XO (XO (XO (XO (XO (XO (XO (XO
                    XH))))))))))) N0)
         then (st, EInvalidBlock)
         else (st, ENone)

(** val set_dyn_counts : dynHdr -> arr -> arr -> arr -> arr -> dynHdr **)

let set_dyn_counts d h lc dc ex =
  { litAndDistHuff = h; clcShort = d.clcShort; clcLong = d.clcLong;
    codeList = d.codeList; litCount = lc; distCount = dc; litExpandCount =
    ex; nextCode = d.nextCode; lenHuffCodes = d.lenHuffCodes }

(** val readLitDistLens : inflate -> n -> n -> inflate * ierr **)

let readLitDistLens s hdist hlit =
  let d = s.dyn in
  let endv = Z.of_N (N.add (N.add litLen hdist) (Npos XH)) in
  let split = Z.of_N (N.add litTableSize hlit) in
  let st0 = { rl_b = s.rd; rl_h = d.litAndDistHuff; rl_lc = d.litCount;
    rl_dc = d.distCount; rl_ex = d.litExpandCount; rl_curr = Z0; rl_prev =
    (Zneg XH); rl_inDist = false }
  in
  let (st, err) = rl_loop small_fuel d.clcShort d.clcLong split endv st0 in
  ((set_rd (set_dyn s (set_dyn_counts d st.rl_h st.rl_lc st.rl_dc st.rl_ex))
     st.rl_b), err)

(** val indexToSym : n -> n **)

let indexToSym index =
  if N.eqb index (Npos (XI (XO (XO (XO (XO (XO (XO (XO (XO XH))))))))))
  then Npos (XO (XO (XO (XO (XO (XO (XO (XO (XO XH)))))))))
  else index

(** val calcCodeForLit :
    arr -> arr -> arr -> arr -> (((arr * arr) * arr) * arr) * bool **)

let calcCodeForLit huff cl ex nc =
  forN N0 litSymbolsSize (fun i st ->
    let (p, pan) = st in
    let (p0, nc0) = p in
    let (p1, ex0) = p0 in
    let (huff0, cl0) = p1 in
    let codeLen = hc_len (aget huff0 i) in
    if N.eqb codeLen N0
    then st
    else let code = bitReverse2 (u16 (aget nc0 codeLen)) codeLen in
         let ins = aget ex0 codeLen in
         if N.leb (Npos (XO (XO (XI (XO (XO (XO (XO (XO (XO XH)))))))))) ins
         then ((((huff0, cl0), ex0), nc0), true)
         else (((((aset huff0 i (hc_set code codeLen)), (aset cl0 ins i)),
                (aset ex0 codeLen (u16 (N.add ins (Npos XH))))),
                (aset nc0 codeLen (u32 (N.add (aget nc0 codeLen) (Npos XH))))),
                pan)) ((((huff, cl), ex), nc), false)

(** val expandLenCodes :
    arr -> arr -> arr -> arr -> arr -> (((arr * arr) * arr) * arr) * bool **)

let expandLenCodes huff cl ex nc lenHuff =
  let (p, pan) =
    forN N0 (Npos (XI (XO (XI (XI XH))))) (fun lenSym st ->
      let (p, pan) = st in
      let (p0, expandsIdx) = p in
      let (p1, nc0) = p0 in
      let (p2, ex0) = p1 in
      let extraCount = aget rfc_len_extra lenSym in
      let lenSize = N.shiftl (Npos XH) extraCount in
      let codeLen = hc_len (aget lenHuff lenSym) in
      if N.eqb codeLen N0
      then ((((p2, ex0), nc0), (N.add expandsIdx lenSize)), pan)
      else let code = bitReverse2 (u16 (aget nc0 codeLen)) codeLen in
           let expandLen = N.add codeLen extraCount in
           let nc1 =
             aset nc0 codeLen (u32 (N.add (aget nc0 codeLen) (Npos XH)))
           in
           let ins = aget ex0 expandLen in
           let ex1 = aset ex0 expandLen (u16 (N.add ins lenSize)) in
           let (p3, pan0) =
             forN N0 lenSize (fun extra a ->
               let (p3, pan0) = a in
               let (huff0, cl0) = p3 in
               if (||)
                    (N.leb (Npos (XO (XO (XI (XO (XO (XO (XO (XO (XO
                      XH)))))))))) (N.add ins extra))
                    (N.leb (Npos (XO (XI (XO (XO (XO (XO (XO (XO (XO
                      XH)))))))))) (N.add expandsIdx extra))
               then ((huff0, cl0), true)
               else (((aset huff0 (N.add expandsIdx extra)
                        (hc_set (N.coq_lor code (shl32 extra codeLen))
                          expandLen)),
                      (aset cl0 (N.add ins extra) (N.add expandsIdx extra))),
                      pan0)) (p2, pan)
           in
           ((((p3, ex1), nc1), (N.add expandsIdx lenSize)), pan0)) (((((huff,
      cl), ex), nc), litSymbolsSize), false)
  in
  let (p0, _) = p in (p0, pan)

(** val setAndExpandLitLenHuffCode : dynHdr -> dynHdr * ierr **)

let setAndExpandLitLenHuffCode d =
  let lc = d.litCount in
  let ex = d.litExpandCount in
  let countTmp = aget ex (Npos XH) in
  let nc = aset (aset d.nextCode N0 N0) (Npos XH) N0 in
  let ex0 = aset (aset ex N0 N0) (Npos XH) N0 in
  let (p, countTmp0) =
    forN (Npos XH) (Npos (XI (XI (XI XH)))) (fun i st ->
      let (p, countTmp0) = st in
      let (p0, countTotal) = p in
      let (ex1, nc0) = p0 in
      let countTotal0 = u32 (N.add (N.add (aget lc i) countTmp0) countTotal)
      in
      let countTmp1 = aget ex1 (N.add i (Npos XH)) in
      ((((aset ex1 (N.add i (Npos XH)) (u16 countTotal0)),
      (aset nc0 (N.add i (Npos XH))
        (shl32 (u32 (N.add (aget nc0 i) (aget lc i))) (Npos XH)))),
      countTotal0), countTmp1)) (((ex0, nc), N0), countTmp)
  in
  let (p0, countTotal) = p in
  let (ex1, nc0) = p0 in
  let countTmp1 = u32 (N.add (aget lc (Npos (XI (XI (XI XH))))) countTmp0) in
  let (p1, _) =
    forN (Npos (XI (XI (XI XH)))) (Npos (XO (XI (XI (XO XH))))) (fun i st ->
      let (p1, countTmp2) = st in
      let (ex2, countTotal0) = p1 in
      let countTotal1 = u32 (N.add countTmp2 countTotal0) in
      let countTmp3 = aget ex2 (N.add i (Npos XH)) in
      (((aset ex2 (N.add i (Npos XH)) (u16 countTotal1)), countTotal1),
      countTmp3)) ((ex1, countTotal), countTmp1)
  in
  let (ex2, _) = p1 in
  let mx =
    u32
      (N.add (aget nc0 (Npos (XI (XI (XI XH)))))
        (aget lc (Npos (XI (XI (XI XH))))))
  in
  let d1 = { litAndDistHuff = d.litAndDistHuff; clcShort = d.clcShort;
    clcLong = d.clcLong; codeList = d.codeList; litCount = lc; distCount =
    d.distCount; litExpandCount = ex2; nextCode = nc0; lenHuffCodes =
    d.lenHuffCodes }
  in
  if N.ltb (Npos (XO (XO (XO (XO (XO (XO (XO (XO (XO (XO (XO (XO (XO (XO (XO
       XH)))))))))))))))) mx
  then (d1, EInvalidBlock)
  else let lc0 =
         forN N0 maxLitLenCount (fun i t0 -> aset t0 i (aget ex2 i)) lc
       in
       let huff = d.litAndDistHuff in
       let lenHuff =
         forN N0 (Npos (XI (XO (XI (XI XH))))) (fun i t0 ->
           aset t0 i (aget huff (N.add litSymbolsSize i))) d.lenHuffCodes
       in
       let huff0 =
         forN litSymbolsSize litLenElems (fun i t0 -> aset t0 i N0) huff
       in
       let (p2, pan1) = calcCodeForLit huff0 d.codeList ex2 nc0 in
       let (p3, nc1) = p2 in
       let (p4, ex3) = p3 in
       let (huff1, cl) = p4 in
       let (p5, pan2) = expandLenCodes huff1 cl ex3 nc1 lenHuff in
       let (p6, nc2) = p5 in
       let (p7, ex4) = p6 in
       let (huff2, cl0) = p7 in
       ({ litAndDistHuff = huff2; clcShort = d.clcShort; clcLong = d.clcLong;
       codeList = cl0; litCount = lc0; distCount = d.distCount;
       litExpandCount = ex4; nextCode = nc2; lenHuffCodes = lenHuff },
       (if (||) pan1 pan2 then EPanic else ENone))

(** val encodeSingles : arr -> dynHdr -> n -> arr * bool **)

let encodeSingles short d length =
  let start = aget d.litCount length in
  let endi = aget d.litCount (N.add length (Npos XH)) in
  if (||) (N.ltb endi start)
       (N.ltb (Npos (XO (XO (XI (XO (XO (XO (XO (XO (XO XH)))))))))) endi)
  then (short, true)
  else ((forN start endi (fun k t0 ->
          let index = aget d.codeList k in
          let sym = indexToSym index in
          let h = aget d.litAndDistHuff index in
          if N.ltb maxLitLenSym sym
          then t0
          else aset t0 (hc_code h)
                 (u32
                   (N.coq_lor
                     (N.coq_lor sym
                       (N.shiftl (hc_len h) (Npos (XO (XO (XI (XI XH)))))))
                     (N.shiftl (Npos XH) (Npos (XO (XI (XO (XI XH)))))))))
          short), false)

(** val pairs_loop : nat -> arr -> dynHdr -> n -> n -> n -> arr * ierr **)

let rec pairs_loop fuel short d length index1 iend =
  match fuel with
  | O -> (short, EFuel)
  | S f ->
    if N.ltb index1 iend
    then let sym1Index = aget d.codeList index1 in
         let sym1 = indexToSym sym1Index in
         let h = aget d.litAndDistHuff sym1Index in
         let sym1Len = hc_len h in
         let sym1Code = hc_code h in
         if N.leb (Npos (XO (XO (XO (XO (XO (XO (XO (XO XH))))))))) sym1
         then pairs_loop f short d length
                (u16
                  (N.add
                    (sub16 (aget d.litCount (N.add sym1Len (Npos XH))) (Npos
                      XH)) (Npos XH))) iend
         else let sym2Len = sub32 length sym1Len in
              if N.leb (Npos (XO (XI (XI (XO XH))))) sym2Len
              then (short, EPanic)
              else let start = aget d.litCount sym2Len in
                   let endi = aget d.litCount (N.add sym2Len (Npos XH)) in
                   if (||) (N.ltb endi start)
                        (N.ltb (Npos (XO (XO (XI (XO (XO (XO (XO (XO (XO
                          XH)))))))))) endi)
                   then (short, EPanic)
                   else let (short0, _) =
                          forN start endi (fun k a ->
                            let (t0, stop) = a in
                            if stop
                            then a
                            else let sym2Index = aget d.codeList k in
                                 let sym2 = indexToSym sym2Index in
                                 if N.ltb maxLitLenSym sym2
                                 then (t0, true)
                                 else let sym2Code =
                                        hc_code
                                          (aget d.litAndDistHuff sym2Index)
                                      in
                                      let code =
                                        u32
                                          (N.coq_lor sym1Code
                                            (shl32 sym2Code sym1Len))
                                      in
                                      let codeLen = N.add sym1Len sym2Len in
                                      ((aset t0 code
                                         (u32
                                           (N.coq_lor
                                             (N.coq_lor
                                               (N.coq_lor sym1
                                                 (N.shiftl sym2 (Npos (XO (XO
                                                   (XO XH))))))
                                               (N.shiftl codeLen (Npos (XO
                                                 (XO (XI (XI XH)))))))
                                             (N.shiftl (Npos (XO XH)) (Npos
                                               (XO (XI (XO (XI XH))))))))),
                                      false)) (short, false)
                        in
                        pairs_loop f short0 d length
                          (u16 (N.add index1 (Npos XH))) iend
    else (short, ENone)

(** val encodePairs : arr -> dynHdr -> n -> n -> arr * ierr **)

let encodePairs short d length minLen =
  pairs_loop small_fuel short d length (aget d.litCount minLen)
    (aget d.litCount (N.add (sub32 length minLen) (Npos XH)))

(** val triples_loop2 :
    nat -> arr -> dynHdr -> n -> n -> n -> n -> n -> n -> arr * ierr **)

let rec triples_loop2 fuel short d length sym1 sym1Len sym1Code index2 iend2 =
  match fuel with
  | O -> (short, EFuel)
  | S f ->
    if N.ltb index2 iend2
    then let sym2Index = aget d.codeList index2 in
         let sym2 = indexToSym sym2Index in
         let h2 = aget d.litAndDistHuff sym2Index in
         let sym2Len = hc_len h2 in
         let sym2Code = hc_code h2 in
         if N.leb (Npos (XO (XO (XO (XO (XO (XO (XO (XO XH))))))))) sym2
         then triples_loop2 f short d length sym1 sym1Len sym1Code
                (u16
                  (N.add
                    (sub16 (aget d.litCount (N.add sym2Len (Npos XH))) (Npos
                      XH)) (Npos XH))) iend2
         else let sym3Len = sub32 (sub32 length sym1Len) sym2Len in
              if N.leb (Npos (XO (XI (XI (XO XH))))) sym3Len
              then (short, EPanic)
              else let start = aget d.litCount sym3Len in
                   let endi = aget d.litCount (N.add sym3Len (Npos XH)) in
                   let (short0, _) =
                     forN start endi (fun k a ->
                       let (t0, stop) = a in
                       if stop
                       then a
                       else let sym3Index = aget d.codeList k in
                            let sym3 = indexToSym sym3Index in
                            let sym3Code =
                              hc_code (aget d.litAndDistHuff sym3Index)
                            in
                            if N.ltb (N.sub maxLitLenSym (Npos XH)) sym3
                            then (t0, true)
                            else let code =
                                   u32
                                     (N.coq_lor
                                       (N.coq_lor sym1Code
                                         (shl32 sym2Code sym1Len))
                                       (shl32 sym3Code
                                         (N.add sym2Len sym1Len)))
                                 in
                                 let codeLen =
                                   N.add (N.add sym1Len sym2Len) sym3Len
                                 in
                                 ((aset t0 code
                                    (u32
                                      (N.coq_lor
                                        (N.coq_lor
                                          (N.coq_lor
                                            (N.coq_lor sym1
                                              (N.shiftl sym2 (Npos (XO (XO
                                                (XO XH))))))
                                            (N.shiftl sym3 (Npos (XO (XO (XO
                                              (XO XH)))))))
                                          (N.shiftl codeLen (Npos (XO (XO (XI
                                            (XI XH)))))))
                                        (N.shiftl (Npos (XI XH)) (Npos (XO
                                          (XI (XO (XI XH))))))))), false))
                       (short, false)
                   in
                   triples_loop2 f short0 d length sym1 sym1Len sym1Code
                     (u16 (N.add index2 (Npos XH))) iend2
    else (short, ENone)

(** val triples_loop1 :
    nat -> arr -> dynHdr -> n -> n -> n -> n -> arr * ierr **)

let rec triples_loop1 fuel short d length minLen index1 iend1 =
  match fuel with
  | O -> (short, EFuel)
  | S f ->
    if N.ltb index1 iend1
    then let sym1Index = aget d.codeList index1 in
         let sym1 = indexToSym sym1Index in
         let h1 = aget d.litAndDistHuff sym1Index in
         let sym1Len = hc_len h1 in
         let sym1Code = hc_code h1 in
         if N.leb (Npos (XO (XO (XO (XO (XO (XO (XO (XO XH))))))))) sym1
         then triples_loop1 f short d length minLen
                (u16
                  (N.add
                    (sub16 (aget d.litCount (N.add sym1Len (Npos XH))) (Npos
                      XH)) (Npos XH))) iend1
         else if N.ltb (sub32 length sym1Len) (N.mul (Npos (XO XH)) minLen)
              then (short, ENone)
              else let i2 =
                     N.add (sub32 (sub32 length sym1Len) minLen) (Npos XH)
                   in
                   if N.leb (Npos (XI (XI (XI (XO XH))))) i2
                   then (short, EPanic)
                   else let (short0, e) =
                          triples_loop2 small_fuel short d length sym1
                            sym1Len sym1Code (aget d.litCount minLen)
                            (aget d.litCount i2)
                        in
                        (match e with
                         | ENone ->
                           triples_loop1 f short0 d length minLen
                             (u16 (N.add index1 (Npos XH))) iend1
                         | _ -> (short0, e))
    else (short, ENone)

(** val encodeTriples : arr -> dynHdr -> n -> n -> arr * ierr **)

let encodeTriples short d length minLen =
  triples_loop1 small_fuel short d length minLen (aget d.litCount minLen)
    (aget d.litCount
      (N.add (sub32 length (N.mul (Npos (XO XH)) minLen)) (Npos XH)))

(** val encodeLongCodes :
    arr -> arr -> dynHdr -> n -> ((arr * arr) * arr) * bool **)

let encodeLongCodes short long d codeListLen =
  let idx = aget d.litCount (Npos (XI (XO (XI XH)))) in
  let longCodeLength = sub32 codeListLen idx in
  let cl = d.codeList in
  let (p, pan) =
    forN N0 longCodeLength (fun i st ->
      let (p, pan) = st in
      let (p0, lcl) = p in
      let (p1, huff) = p0 in
      let (short0, long0) = p1 in
      if pan
      then st
      else if N.leb (Npos (XO (XO (XI (XO (XO (XO (XO (XO (XO XH))))))))))
                (N.add idx i)
           then ((((short0, long0), huff), lcl), true)
           else let li = aget cl (N.add idx i) in
                if N.eqb (hc_code (aget huff li)) invalidCodeValue
                then st
                else let maxLen0 = hc_len (aget huff li) in
                     let firstBits =
                       N.coq_land (hc_code (aget huff li)) (Npos (XI (XI (XI
                         (XI (XI (XI (XI (XI (XI (XI (XI XH))))))))))))
                     in
                     let (maxLen, tempRev) =
                       forN (N.add i (Npos XH)) longCodeLength (fun j a ->
                         let (_, tl) = a in
                         let lj = aget cl (N.add idx j) in
                         if N.eqb
                              (N.coq_land (hc_code (aget huff lj)) (Npos (XI
                                (XI (XI (XI (XI (XI (XI (XI (XI (XI (XI
                                XH))))))))))))) firstBits
                         then ((hc_len (aget huff lj)), (lj :: tl))
                         else a) (maxLen0, (li :: []))
                     in
                     let temp = frev tempRev in
                     let grp =
                       shl32 (Npos XH) (N.sub maxLen (Npos (XO (XO (XI XH)))))
                     in
                     if N.ltb (Npos (XO (XO (XO (XO (XI (XI (XI (XI (XO (XO
                          XH))))))))))) (N.add lcl grp)
                     then ((((short0, long0), huff), lcl), true)
                     else let long1 =
                            forN lcl (N.add lcl grp) (fun x t0 ->
                              aset t0 x N0) long0
                          in
                          let (p2, pan0) =
                            fold_left (fun a sym1Index ->
                              let (p2, pan0) = a in
                              let (long2, huff0) = p2 in
                              let sym1 = indexToSym sym1Index in
                              let sym1Len = hc_len (aget huff0 sym1Index) in
                              let sym1Code = hc_code (aget huff0 sym1Index) in
                              let longBits =
                                N.shiftr sym1Code (Npos (XO (XO (XI XH))))
                              in
                              let minInc =
                                shl32 (Npos XH)
                                  (N.sub sym1Len (Npos (XO (XO (XI XH)))))
                              in
                              let entry =
                                u16
                                  (N.coq_lor sym1
                                    (N.shiftl sym1Len (Npos (XO (XI (XO
                                      XH))))))
                              in
                              let (long3, pan1) =
                                long_fill small_fuel (Npos (XO (XO (XO (XO
                                  (XI (XI (XI (XI (XO (XO XH)))))))))))
                                  mask32 long2 lcl longBits grp minInc entry
                                  pan0
                              in
                              ((long3,
                              (aset huff0 sym1Index
                                (hc_setcode (aget huff0 sym1Index)
                                  invalidCodeValue))), pan1)) temp ((long1,
                              huff), pan)
                          in
                          let (long2, huff0) = p2 in
                          let short1 =
                            aset short0 firstBits
                              (u32
                                (N.coq_lor
                                  (N.coq_lor lcl
                                    (N.shiftl maxLen (Npos (XO (XI (XO (XI
                                      XH))))))) largeFlagBit))
                          in
                          ((((short1, long2), huff0), (u32 (N.add lcl grp))),
                          pan0)) ((((short, long), d.litAndDistHuff), N0),
      false)
  in
  let (p0, _) = p in (p0, pan)

(** val set_dyn_huff : dynHdr -> arr -> dynHdr **)

let set_dyn_huff d h =
  { litAndDistHuff = h; clcShort = d.clcShort; clcLong = d.clcLong;
    codeList = d.codeList; litCount = d.litCount; distCount = d.distCount;
    litExpandCount = d.litExpandCount; nextCode = d.nextCode; lenHuffCodes =
    d.lenHuffCodes }

(** val genForLitLen :
    arr -> arr -> dynHdr -> n -> ((arr * arr) * dynHdr) * ierr **)

let genForLitLen short long d multisym =
  let codeListLen = aget d.litCount (N.sub maxLitLenCount (Npos XH)) in
  if N.eqb codeListLen N0
  then (((aempty, long), d), ENone)
  else let lastLen0 = hc_len (aget d.litAndDistHuff (aget d.codeList N0)) in
       let lastLen =
         if N.ltb (Npos (XO (XO (XI XH)))) lastLen0
         then Npos (XI (XO (XI XH)))
         else lastLen0
       in
       let copySize =
         if N.eqb lastLen N0
         then N0
         else N.shiftl (Npos XH) (N.sub lastLen (Npos XH))
       in
       let short0 = forN N0 copySize (fun i t0 -> aset t0 i N0) short in
       let (p, err) =
         forN lastLen (Npos (XI (XO (XI XH)))) (fun ll st ->
           let (p, err) = st in
           let (t0, cs) = p in
           (match err with
            | ENone ->
              let t1 =
                forN N0
                  (N.min cs
                    (N.sub (Npos (XO (XO (XO (XO (XO (XO (XO (XO (XO (XO (XO
                      (XO XH))))))))))))) cs)) (fun i t1 ->
                  aset t1 (N.add cs i) (aget t1 i)) t0
              in
              let cs0 = N.mul cs (Npos (XO XH)) in
              let (t2, pan) = encodeSingles t1 d ll in
              if pan
              then ((t2, cs0), EPanic)
              else if (||) (N.leb singleSymFlag multisym)
                        (N.ltb ll (N.mul (Npos (XO XH)) lastLen))
                   then ((t2, cs0), ENone)
                   else let (t3, e) = encodePairs t2 d ll lastLen in
                        (match e with
                         | ENone ->
                           if (||) (N.leb doubleSymFlag multisym)
                                (N.ltb ll (N.mul (Npos (XI XH)) lastLen))
                           then ((t3, cs0), ENone)
                           else let (t4, e0) = encodeTriples t3 d ll lastLen
                                in
                                ((t4, cs0), e0)
                         | _ -> ((t3, cs0), e))
            | _ -> st)) ((short0, copySize), ENone)
       in
       let (short1, _) = p in
       (match err with
        | ENone ->
          let (p0, pan) = encodeLongCodes short1 long d codeListLen in
          let (p1, huff) = p0 in
          ((p1, (set_dyn_huff d huff)), (if pan then EPanic else ENone))
        | _ -> (((short1, long), d), err))

(** val setupDynamicHeader : inflate -> inflate * ierr **)

let setupDynamicHeader s =
  let d = s.dyn in
  let d0 = { litAndDistHuff = aempty; clcShort = d.clcShort; clcLong =
    d.clcLong; codeList = d.codeList; litCount = aempty; distCount = aempty;
    litExpandCount = aempty; nextCode = d.nextCode; lenHuffCodes =
    d.lenHuffCodes }
  in
  let s0 = set_dyn s d0 in
  let ilen = s0.rd.r_inlen in
  let multisym =
    if (&&) (negb (N.eqb s0.bfinal N0))
         (N.leb ilen (Npos (XO (XO (XO (XO (XO (XO (XO (XO (XO (XO (XO
           XH)))))))))))))
    then singleSymFlag
    else if (&&) (negb (N.eqb s0.bfinal N0))
              (N.leb ilen (Npos (XO (XO (XO (XO (XO (XO (XO (XO (XO (XO (XO
                (XO XH))))))))))))))
         then doubleSymFlag
         else defaultSymFlag
  in
  (match loadBits s0 with
   | Some s1 ->
     if Z.ltb s1.rd.r_len (Zpos (XO (XI (XI XH))))
     then (s1, EEndInput)
     else let (hlit, b) = next_bits s1.rd (Npos (XI (XO XH))) in
          let (hdist, b0) = next_bits b (Npos (XI (XO XH))) in
          let (hclen, b1) = next_bits b0 (Npos (XO (XO XH))) in
          let s2 = set_rd s1 b1 in
          if (||)
               ((||) (N.ltb (Npos (XI (XO (XI (XI XH))))) hlit)
                 (N.ltb (Npos (XI (XO (XI (XI XH))))) hdist))
               (N.ltb (Npos (XI (XI (XI XH)))) hclen)
          then (s2, EInvalidBlock)
          else let (s3, err) = codeLenCodes s2 hclen in
               (match err with
                | ENone ->
                  let (s4, err0) = readLitDistLens s3 hdist hlit in
                  (match err0 with
                   | ENone ->
                     if Z.ltb s4.rd.r_len Z0
                     then (s4, EEndInput)
                     else let d1 = s4.dyn in
                          let (huff, bad) =
                            setCodes d1.litAndDistHuff litLen distLen
                              d1.distCount
                          in
                          let d2 = set_dyn_huff d1 huff in
                          let s5 = set_dyn s4 d2 in
                          if bad
                          then (s5, EInvalidBlock)
                          else let codes =
                                 forN N0 distLen (fun i t0 ->
                                   aset t0 i (aget huff (N.add litLen i)))
                                   aempty
                               in
                               let (p, gerr) =
                                 gen_small false s5.tb.distShort
                                   s5.tb.distLong codes distLen d2.distCount
                                   distLen
                               in
                               let (p0, codes0) = p in
                               let (dsh, dlg) = p0 in
                               let huff0 =
                                 forN N0 distLen (fun i t0 ->
                                   aset t0 (N.add litLen i) (aget codes0 i))
                                   huff
                               in
                               let d3 = set_dyn_huff d2 huff0 in
                               let s6 =
                                 set_dyn
                                   (set_tb s5 { litShort = s5.tb.litShort;
                                     litLong = s5.tb.litLong; distShort =
                                     dsh; distLong = dlg }) d3
                               in
                               if negb (ierr_eqb gerr ENone)
                               then (s6, gerr)
                               else let (d4, err1) =
                                      setAndExpandLitLenHuffCode d3
                                    in
                                    let s7 = set_dyn s6 d4 in
                                    (match err1 with
                                     | ENone ->
                                       let (p1, err2) =
                                         genForLitLen s7.tb.litShort
                                           s7.tb.litLong d4 multisym
                                       in
                                       let (p2, d5) = p1 in
                                       let (lsh, llg) = p2 in
                                       let s8 =
                                         set_dyn
                                           (set_tb s7 { litShort = lsh;
                                             litLong = llg; distShort =
                                             s7.tb.distShort; distLong =
                                             s7.tb.distLong }) d5
                                       in
                                       (match err2 with
                                        | ENone ->
                                          ((set_phase s8 phaseHeaderDecoded),
                                            ENone)
                                        | _ -> (s8, err2))
                                     | _ -> (s7, err1))
                   | _ -> (s4, err0))
                | _ -> (s3, err))
   | None -> (s0, EPanic))

(** val prepareForLitBlock : inflate -> inflate * ierr **)

let prepareForLitBlock s =
  match loadBits s with
  | Some s0 ->
    let b = s0.rd in
    if Z.ltb b.r_len Z0
    then (s0, EPanic)
    else let bl = Z.to_N b.r_len in
         let bytes = u8 (N.div bl (Npos (XO (XO (XO XH))))) in
         if N.ltb bytes (Npos (XO (XO XH)))
         then (s0, EEndInput)
         else let bits =
                N.shiftr b.r_bits (N.modulo bl (Npos (XO (XO (XO XH)))))
              in
              let bl0 = N.mul bytes (Npos (XO (XO (XO XH)))) in
              let len =
                N.coq_land bits (Npos (XI (XI (XI (XI (XI (XI (XI (XI (XI (XI
                  (XI (XI (XI (XI (XI XH))))))))))))))))
              in
              let bits0 = N.shiftr bits (Npos (XO (XO (XO (XO XH))))) in
              let nlen =
                N.coq_land bits0 (Npos (XI (XI (XI (XI (XI (XI (XI (XI (XI
                  (XI (XI (XI (XI (XI (XI XH))))))))))))))))
              in
              let bits1 = N.shiftr bits0 (Npos (XO (XO (XO (XO XH))))) in
              let bl1 = N.sub bl0 (Npos (XO (XO (XO (XO (XO XH)))))) in
              let s1 =
                set_rd s0 { r_bits = bits1; r_len = (Z.of_N bl1); r_in =
                  b.r_in; r_inlen = b.r_inlen }
              in
              if negb
                   (N.eqb len
                     (N.sub (Npos (XI (XI (XI (XI (XI (XI (XI (XI (XI (XI (XI
                       (XI (XI (XI (XI XH)))))))))))))))) nlen))
              then (s1, EInvalidBlock)
              else let rest = N.modulo bl1 (Npos (XO (XO (XO XH)))) in
                   if N.eqb rest N0
                   then let bits2 = N.coq_land bits1 (ones64 bl1) in
                        let s2 =
                          set_rd s0 { r_bits = bits2; r_len = (Z.of_N bl1);
                            r_in = b.r_in; r_inlen = b.r_inlen }
                        in
                        ((set_phase (set_litBlockLength s2 len) phaseLitBlock),
                        ENone)
                   else let bl2 = N.sub bl1 rest in
                        let bits2 = N.shiftr bits1 rest in
                        let bits3 = N.coq_land bits2 (ones64 bl2) in
                        let s2 =
                          set_rd s0 { r_bits = bits3; r_len = (Z.of_N bl2);
                            r_in = b.r_in; r_inlen = b.r_inlen }
                        in
                        ((set_phase (set_litBlockLength s2 len) phaseLitBlock),
                        ENone)
  | None -> (s, EPanic)

(** val tryDecodeHeader : inflate -> inflate * ierr **)

let tryDecodeHeader s =
  match readBits s (Npos XH) with
  | Some p ->
    let (bf, s0) = p in
    let s1 = set_bfinal s0 bf in
    (match readBits s1 (Npos (XO XH)) with
     | Some p0 ->
       let (btype, s2) = p0 in
       if Z.ltb s2.rd.r_len Z0
       then (s2, EEndInput)
       else if N.eqb btype N0
            then prepareForLitBlock s2
            else if N.eqb btype (Npos XH)
                 then ((setupStaticHeader s2), ENone)
                 else if N.eqb btype (Npos (XO XH))
                      then setupDynamicHeader s2
                      else (s2, EInvalidBlock)
     | None -> (s1, EPanic))
  | None -> (s, EPanic)

(** val rOffset : inflate -> z -> z -> inflate **)

let rOffset s inputSize bitsLen0 =
  let start = Z.add (Z.mul inputSize (Zpos (XO (XO (XO XH))))) bitsLen0 in
  let endv =
    Z.add (Z.mul (Z.of_N s.rd.r_inlen) (Zpos (XO (XO (XO XH))))) s.rd.r_len
  in
  set_roffset s
    (Z.add s.roffset (Z.quot (Z.sub start endv) (Zpos (XO (XO (XO XH))))))

(** val readHeader : inflate -> inflate * ierr **)

let readHeader s =
  let b0 = s.rd in
  let phase0 = s.phase in
  let staged = N.eqb phase0 phaseDecodingHeader in
  let hb = s.headerBuffered in
  let copySize = N.min (N.sub maxHdrSize hb) b0.r_inlen in
  let tempLen = N.add copySize hb in
  let s1 =
    if staged
    then set_rd s
           (br_set_in b0
             (app s.headerBuffer (firstn (N.to_nat copySize) b0.r_in))
             tempLen)
    else s
  in
  let (s2, err) = tryDecodeHeader s1 in
  (match err with
   | EPanic -> (s2, err)
   | EFuel -> (s2, err)
   | _ ->
     let read =
       Z.sub (Z.sub (Z.of_N tempLen) (Z.of_N s2.rd.r_inlen)) (Z.of_N hb)
     in
     if (&&) staged ((||) (Z.ltb read Z0) (Z.ltb (Z.of_N b0.r_inlen) read))
     then (s2, EPanic)
     else let s3 =
            if staged
            then set_rd s2
                   (br_set_in s2.rd (skipn (Z.to_nat read) b0.r_in)
                     (N.sub b0.r_inlen (Z.to_N read)))
            else s2
          in
          (match err with
           | EEndInput ->
             let size0 = N.min (N.sub maxHdrSize hb) b0.r_inlen in
             let s4 =
               set_header s3 (N.add hb size0)
                 (app s.headerBuffer (firstn (N.to_nat size0) b0.r_in))
             in
             let s5 =
               set_rd s4 { r_bits = b0.r_bits; r_len = b0.r_len; r_in = [];
                 r_inlen = N0 }
             in
             ((set_phase s5 phaseDecodingHeader), err)
           | _ -> ((set_header s3 N0 []), err)))

(** val byteCopy_nat : nat -> arr -> n -> n -> arr **)

let rec byteCopy_nat n0 hist0 curr dist =
  match n0 with
  | O -> hist0
  | S k ->
    byteCopy_nat k (aset hist0 curr (aget hist0 (N.sub curr dist)))
      (N.add curr (Npos XH)) dist

(** val byteCopy : arr -> n -> n -> n -> arr **)

let byteCopy hist0 curr dist length =
  byteCopy_nat (N.to_nat length) hist0 curr dist

(** val lit_drain :
    nat -> bitrd -> arr -> n -> n -> n -> ((((bitrd * arr) * n) * n) * bool)
    option **)

let rec lit_drain fuel b out written count length =
  match fuel with
  | O -> None
  | S f ->
    if Z.eqb b.r_len Z0
    then Some ((((b, out), written), count), false)
    else let out0 =
           aset out written
             (N.coq_land b.r_bits (Npos (XI (XI (XI (XI (XI (XI (XI
               XH)))))))))
         in
         let b0 = br_drop b (Npos (XO (XO (XO XH)))) in
         let count0 = N.add count (Npos XH) in
         if N.eqb count0 length
         then Some ((((b0, out0), (N.add written (Npos XH))), count0), true)
         else lit_drain f b0 out0 (N.add written (Npos XH)) count0 length

(** val copy_list : n list -> nat -> arr -> n -> arr * n list **)

let rec copy_list l n0 out pos =
  match n0 with
  | O -> (out, l)
  | S k ->
    (match l with
     | [] -> (out, l)
     | x :: r -> copy_list r k (aset out pos x) (N.add pos (Npos XH)))

(** val decodeLiteralBlock :
    inflate -> arr -> n -> ((inflate * arr) * n) * ierr **)

let decodeLiteralBlock s out written =
  let s0 =
    set_phase s
      (if negb (N.eqb s.bfinal N0) then phaseStreamEnd else phaseNewBlock)
  in
  if N.eqb s0.litBlockLength N0
  then (((s0, out), written), ENone)
  else let length = s0.litBlockLength in
       let rest = N.sub outLen written in
       if N.ltb rest length
       then let p = (rest, (set_phase s0 phaseLitBlock)) in
            let err = EOutputOverflow in
            let (length0, s1) = p in
            if (&&) (ierr_eqb err EOutputOverflow) (N.eqb rest N0)
            then (((s1, out), written), err)
            else let b = s1.rd in
                 if Z.ltb b.r_len Z0
                 then (((s1, out), written), EPanic)
                 else let avail =
                        N.add
                          (N.div (Z.to_N b.r_len) (Npos (XO (XO (XO XH)))))
                          b.r_inlen
                      in
                      if N.ltb avail length0
                      then let p0 = (avail, (set_phase s1 phaseLitBlock)) in
                           let err0 = EEndInput in
                           let (length1, s2) = p0 in
                           let s3 =
                             set_litBlockLength s2
                               (N.sub s2.litBlockLength length1)
                           in
                           (match lit_drain (S (S (S (S (S (S (S (S (S (S (S
                                    (S (S (S (S (S O)))))))))))))))) b out
                                    written N0 length1 with
                            | Some p1 ->
                              let (p2, b0) = p1 in
                              let (p3, count) = p2 in
                              let (p4, written0) = p3 in
                              let (b1, out0) = p4 in
                              if b0
                              then ((((set_rd s3 b1), out0), written0), err0)
                              else let n0 = N.sub length1 count in
                                   let (out1, inrest) =
                                     copy_list b1.r_in (N.to_nat n0) out0
                                       written0
                                   in
                                   let num = N.min n0 b1.r_inlen in
                                   ((((set_rd s3 { r_bits = N0; r_len =
                                        b1.r_len; r_in = inrest; r_inlen =
                                        (N.sub b1.r_inlen num) }), out1),
                                   (N.add written0 num)), err0)
                            | None -> (((s3, out), written), EFuel))
                      else let p0 = (length0, s1) in
                           let (length1, s2) = p0 in
                           let s3 =
                             set_litBlockLength s2
                               (N.sub s2.litBlockLength length1)
                           in
                           (match lit_drain (S (S (S (S (S (S (S (S (S (S (S
                                    (S (S (S (S (S O)))))))))))))))) b out
                                    written N0 length1 with
                            | Some p1 ->
                              let (p2, b0) = p1 in
                              let (p3, count) = p2 in
                              let (p4, written0) = p3 in
                              let (b1, out0) = p4 in
                              if b0
                              then ((((set_rd s3 b1), out0), written0), err)
                              else let n0 = N.sub length1 count in
                                   let (out1, inrest) =
                                     copy_list b1.r_in (N.to_nat n0) out0
                                       written0
                                   in
                                   let num = N.min n0 b1.r_inlen in
                                   ((((set_rd s3 { r_bits = N0; r_len =
                                        b1.r_len; r_in = inrest; r_inlen =
                                        (N.sub b1.r_inlen num) }), out1),
                                   (N.add written0 num)), err)
                            | None -> (((s3, out), written), EFuel))
       else let p = (length, s0) in
            let err = ENone in
            let (length0, s1) = p in
            if (&&) (ierr_eqb err EOutputOverflow) (N.eqb rest N0)
            then (((s1, out), written), err)
            else let b = s1.rd in
                 if Z.ltb b.r_len Z0
                 then (((s1, out), written), EPanic)
                 else let avail =
                        N.add
                          (N.div (Z.to_N b.r_len) (Npos (XO (XO (XO XH)))))
                          b.r_inlen
                      in
                      if N.ltb avail length0
                      then let p0 = (avail, (set_phase s1 phaseLitBlock)) in
                           let err0 = EEndInput in
                           let (length1, s2) = p0 in
                           let s3 =
                             set_litBlockLength s2
                               (N.sub s2.litBlockLength length1)
                           in
                           (match lit_drain (S (S (S (S (S (S (S (S (S (S (S
                                    (S (S (S (S (S O)))))))))))))))) b out
                                    written N0 length1 with
                            | Some p1 ->
                              let (p2, b0) = p1 in
                              let (p3, count) = p2 in
                              let (p4, written0) = p3 in
                              let (b1, out0) = p4 in
                              if b0
                              then ((((set_rd s3 b1), out0), written0), err0)
                              else let n0 = N.sub length1 count in
                                   let (out1, inrest) =
                                     copy_list b1.r_in (N.to_nat n0) out0
                                       written0
                                   in
                                   let num = N.min n0 b1.r_inlen in
                                   ((((set_rd s3 { r_bits = N0; r_len =
                                        b1.r_len; r_in = inrest; r_inlen =
                                        (N.sub b1.r_inlen num) }), out1),
                                   (N.add written0 num)), err0)
                            | None -> (((s3, out), written), EFuel))
                      else let p0 = (length0, s1) in
                           let (length1, s2) = p0 in
                           let s3 =
                             set_litBlockLength s2
                               (N.sub s2.litBlockLength length1)
                           in
                           (match lit_drain (S (S (S (S (S (S (S (S (S (S (S
                                    (S (S (S (S (S O)))))))))))))))) b out
                                    written N0 length1 with
                            | Some p1 ->
                              let (p2, b0) = p1 in
                              let (p3, count) = p2 in
                              let (p4, written0) = p3 in
                              let (b1, out0) = p4 in
                              if b0
                              then ((((set_rd s3 b1), out0), written0), err)
                              else let n0 = N.sub length1 count in
                                   let (out1, inrest) =
                                     copy_list b1.r_in (N.to_nat n0) out0
                                       written0
                                   in
                                   let num = N.min n0 b1.r_inlen in
                                   ((((set_rd s3 { r_bits = N0; r_len =
                                        b1.r_len; r_in = inrest; r_inlen =
                                        (N.sub b1.r_inlen num) }), out1),
                                   (N.add written0 num)), err)
                            | None -> (((s3, out), written), EFuel))

(** val set_wov : inflate -> n -> n -> inflate **)

let set_wov s lits len =
  set_ov s { writeOverflowLits = lits; writeOverflowLen = len;
    copyOverflowLength = s.ov.copyOverflowLength; copyOverflowDistance =
    s.ov.copyOverflowDistance }

(** val set_cov : inflate -> n -> n -> inflate **)

let set_cov s len dist =
  set_ov s { writeOverflowLits = s.ov.writeOverflowLits; writeOverflowLen =
    s.ov.writeOverflowLen; copyOverflowLength = len; copyOverflowDistance =
    dist }

(** val end_of_block : inflate -> inflate **)

let end_of_block s =
  set_phase s
    (if N.eqb s.bfinal (Npos XH) then phaseStreamEnd else phaseNewBlock)

type hres =
| HCont of inflate * bitrd * arr * n
| HFin of inflate * bitrd * arr * n * ierr

(** val dist_decode : tabs -> bitrd -> (n * bitrd) option **)

let dist_decode t0 b =
  let nextBits =
    N.coq_land b.r_bits (Npos (XI (XI (XI (XI (XI (XI (XI (XI (XI XH))))))))))
  in
  let nextSym = aget t0.distShort nextBits in
  if N.eqb (N.coq_land nextSym smallFlagBit) N0
  then let bitCount = N.shiftr nextSym (Npos (XI (XI (XO XH)))) in
       let b0 = br_drop b bitCount in
       if N.eqb bitCount N0
       then Some
              ((N.coq_land invalidSymbolValue (Npos (XI (XI (XI (XI XH)))))),
              (br_set_len b0 (Z.sub b0.r_len (Z.of_N nextSym))))
       else Some ((N.coq_land nextSym (Npos (XI (XI (XI (XI XH)))))), b0)
  else let bitMask =
         ones32
           (N.shiftr (sub32 nextSym smallFlagBit) (Npos (XI (XI (XO XH)))))
       in
       let nextBits0 = u16 (N.coq_land b.r_bits bitMask) in
       let idx =
         u16
           (N.add
             (N.coq_land nextSym (Npos (XI (XI (XI (XI (XI (XI (XI (XI
               XH)))))))))) (N.shiftr nextBits0 (Npos (XO (XI (XO XH))))))
       in
       if N.leb (Npos (XO (XO (XO (XO (XI (XO XH))))))) idx
       then None
       else let nextSym0 = aget t0.distLong idx in
            let bitCount = N.shiftr nextSym0 (Npos (XO (XI (XO XH)))) in
            let b0 = br_drop b bitCount in
            if N.eqb bitCount N0
            then Some
                   ((N.coq_land invalidSymbolValue (Npos (XI (XI (XI (XI
                      XH)))))),
                   (br_set_len b0 (Z.sub b0.r_len (Z.of_N nextSym0))))
            else Some ((N.coq_land nextSym0 (Npos (XI (XI (XI (XI XH)))))),
                   b0)

(** val huff_inner :
    nat -> inflate -> bitrd -> arr -> n -> n -> n -> bitrd -> n -> hres **)

let rec huff_inner fuel s b out w symCount nextLits bTemp wTemp =
  match fuel with
  | O -> HFin (s, b, out, w, EFuel)
  | S f ->
    if N.eqb symCount N0
    then HCont (s, b, out, w)
    else let nextLit =
           N.coq_land nextLits (Npos (XI (XI (XI (XI (XI (XI (XI (XI (XI (XI
             (XI (XI (XI (XI (XI XH))))))))))))))))
         in
         if (||)
              (N.ltb nextLit (Npos (XO (XO (XO (XO (XO (XO (XO (XO
                XH)))))))))) (N.ltb (Npos XH) symCount)
         then if N.eqb w outLen
              then let s0 = set_wov s nextLits symCount in
                   let nextLits0 =
                     N.shiftr nextLits
                       (N.mul (Npos (XO (XO (XO XH))))
                         (N.sub symCount (Npos XH)))
                   in
                   if N.ltb nextLits0 (Npos (XO (XO (XO (XO (XO (XO (XO (XO
                        XH)))))))))
                   then HFin (s0, b, out, w, EOutputOverflow)
                   else if N.eqb nextLits0 (Npos (XO (XO (XO (XO (XO (XO (XO
                             (XO XH)))))))))
                        then let s1 =
                               set_wov s0 s0.ov.writeOverflowLits
                                 (N.sub s0.ov.writeOverflowLen (Npos XH))
                             in
                             HFin ((end_of_block s1), b, out, w,
                             EOutputOverflow)
                        else let s1 =
                               set_wov s0 s0.ov.writeOverflowLits
                                 (N.sub s0.ov.writeOverflowLen (Npos XH))
                             in
                             huff_inner f s1 b out w (Npos XH) nextLits0
                               bTemp wTemp
              else huff_inner f s b
                     (aset out w
                       (N.coq_land nextLit (Npos (XI (XI (XI (XI (XI (XI (XI
                         XH)))))))))) (N.add w (Npos XH))
                     (N.sub symCount (Npos XH))
                     (N.shiftr nextLits (Npos (XO (XO (XO XH))))) bTemp wTemp
         else if N.eqb nextLit (Npos (XO (XO (XO (XO (XO (XO (XO (XO
                   XH)))))))))
              then huff_inner f (end_of_block s) b out w
                     (N.sub symCount (Npos XH))
                     (N.shiftr nextLits (Npos (XO (XO (XO XH))))) bTemp wTemp
              else if N.leb nextLit maxLitLenSym
                   then let repeatLength =
                          N.sub nextLit (Npos (XO (XI (XI (XI (XI (XI (XI
                            XH))))))))
                        in
                        (match load_le15 b with
                         | Some b0 ->
                           (match dist_decode s.tb b0 with
                            | Some p ->
                              let (nextDist, b1) = p in
                              let step2 = fun b2 lookBackDist ->
                                if Z.ltb b2.r_len Z0
                                then HFin ((set_wov s N0 N0), bTemp, out,
                                       wTemp, EEndInput)
                                else if N.ltb w lookBackDist
                                     then HFin (s, b2, out, w,
                                            EInvalidLookBack)
                                     else let availOut = N.sub outLen w in
                                          if N.ltb availOut repeatLength
                                          then let s0 =
                                                 set_cov s
                                                   (N.sub repeatLength
                                                     availOut) lookBackDist
                                               in
                                               let out0 =
                                                 byteCopy out w lookBackDist
                                                   availOut
                                               in
                                               let w0 = N.add w availOut in
                                               if N.ltb N0
                                                    s0.ov.copyOverflowLength
                                               then HFin (s0, b2, out0, w0,
                                                      EOutputOverflow)
                                               else huff_inner f s0 b2 out0
                                                      w0
                                                      (N.sub symCount (Npos
                                                        XH))
                                                      (N.shiftr nextLits
                                                        (Npos (XO (XO (XO
                                                        XH))))) bTemp wTemp
                                          else let out0 =
                                                 byteCopy out w lookBackDist
                                                   repeatLength
                                               in
                                               let w0 = N.add w repeatLength
                                               in
                                               if N.ltb N0
                                                    s.ov.copyOverflowLength
                                               then HFin (s, b2, out0, w0,
                                                      EOutputOverflow)
                                               else huff_inner f s b2 out0 w0
                                                      (N.sub symCount (Npos
                                                        XH))
                                                      (N.shiftr nextLits
                                                        (Npos (XO (XO (XO
                                                        XH))))) bTemp wTemp
                              in
                              if Z.leb Z0 b1.r_len
                              then if N.leb distLen nextDist
                                   then HFin (s, b1, out, w, EInvalidSymbol)
                                   else let bitCount =
                                          aget rfc_dist_extra nextDist
                                        in
                                        (match load_lt57 b1 with
                                         | Some b2 ->
                                           let (extraBits, b3) =
                                             next_bits b2 bitCount
                                           in
                                           step2 b3
                                             (N.add
                                               (aget rfc_dist_start nextDist)
                                               extraBits)
                                         | None ->
                                           HFin (s, b1, out, w, EPanic))
                              else step2 b1 N0
                            | None -> HFin (s, b0, out, w, EPanic))
                         | None -> HFin (s, b, out, w, EPanic))
                   else HFin (s, b, out, w, EInvalidSymbol)

(** val litlen_decode : tabs -> bitrd -> ((bitrd * n) * n) option **)

let litlen_decode t0 b =
  let nextBits =
    N.coq_land b.r_bits (Npos (XI (XI (XI (XI (XI (XI (XI (XI (XI (XI (XI
      XH))))))))))))
  in
  let nextSym = aget t0.litShort nextBits in
  if N.eqb (N.coq_land nextSym largeFlagBit) N0
  then let bitCount = N.shiftr nextSym (Npos (XO (XO (XI (XI XH))))) in
       let b0 = br_drop b bitCount in
       let nextSym0 =
         if N.eqb bitCount N0 then invalidSymbolValue else nextSym
       in
       Some ((b0,
       (N.coq_land (N.shiftr nextSym0 (Npos (XO (XI (XO (XI XH)))))) (Npos
         (XI XH)))), (N.coq_land nextSym0 largeShortSymMask))
  else let bitMask = ones32 (N.shiftr nextSym (Npos (XO (XI (XO (XI XH))))))
       in
       let nextBits0 = N.coq_land (u32 b.r_bits) bitMask in
       let idx =
         N.add (N.coq_land nextSym largeShortSymMask)
           (N.shiftr nextBits0 (Npos (XO (XO (XI XH)))))
       in
       if N.leb (Npos (XO (XO (XO (XO (XI (XI (XI (XI (XO (XO XH)))))))))))
            idx
       then None
       else let nextSym0 = aget t0.litLong idx in
            let bitCount = N.shiftr nextSym0 (Npos (XO (XI (XO XH)))) in
            let b0 = br_drop b bitCount in
            let nextSym1 =
              if N.eqb bitCount N0 then invalidSymbolValue else nextSym0
            in
            Some ((b0, (Npos XH)),
            (N.coq_land nextSym1 (Npos (XI (XI (XI (XI (XI (XI (XI (XI (XI
              XH))))))))))))

(** val huff_outer :
    nat -> inflate -> bitrd -> arr -> n ->
    (((inflate * bitrd) * arr) * n) * ierr **)

let rec huff_outer fuel s b out w =
  match fuel with
  | O -> ((((s, b), out), w), EFuel)
  | S f ->
    if N.eqb s.phase phaseHeaderDecoded
    then (match load_lt57 b with
          | Some b0 ->
            (match load_le15 b0 with
             | Some b1 ->
               (match litlen_decode s.tb b1 with
                | Some p ->
                  let (p0, nextLits) = p in
                  let (b2, symCount) = p0 in
                  if N.eqb symCount N0
                  then ((((s, b2), out), w), EInvalidSymbol)
                  else if Z.ltb b2.r_len Z0
                       then ((((s, b0), out), w), EEndInput)
                       else (match huff_inner (S (S (S (S (S (S (S (S
                                     O)))))))) s b2 out w symCount nextLits
                                     b0 w with
                             | HCont (s0, b3, out0, w0) ->
                               huff_outer f s0 b3 out0 w0
                             | HFin (s0, b3, out0, w0, e) ->
                               ((((s0, b3), out0), w0), e))
                | None -> ((((s, b1), out), w), EPanic))
             | None -> ((((s, b0), out), w), EPanic))
          | None -> ((((s, b), out), w), EPanic))
    else ((((s, b), out), w), ENone)

(** val decodeHuffman :
    inflate -> arr -> n -> ((inflate * arr) * n) * ierr **)

let decodeHuffman s out written =
  let s0 = set_cov s N0 N0 in
  let (p, err) = huff_outer big_fuel s0 s0.rd out written in
  let (p0, w) = p in
  let (p1, out0) = p0 in
  let (s1, b) = p1 in
  if Z.ltb b.r_len Z0
  then ((((set_rd s1 b), out0), w),
         (match err with
          | EFuel -> EFuel
          | _ -> EPanic))
  else let bl = Z.to_N b.r_len in
       let bits =
         if N.ltb bl (N.size b.r_bits)
         then N.coq_land b.r_bits (ones64 bl)
         else b.r_bits
       in
       ((((set_rd s1 (br_set_bits b bits)), out0), w), err)

type terminal =
| TEOF
| TErr

type berror =
| BEOF
| BSrc
| BNoProgress
| BBufferFull

type bufrd = { bsize : n; bbuf : n list; blen : n; berr : berror option;
               chunks : n list list; term : terminal; consumed : n }

(** val take_upto : n list -> n -> n list -> n -> (n list * n) * n list **)

let rec take_upto l space acc cnt =
  match l with
  | [] -> (((frev acc), cnt), [])
  | x :: r ->
    if N.eqb space N0
    then (((frev acc), cnt), l)
    else take_upto r (N.sub space (Npos XH)) (x :: acc) (N.add cnt (Npos XH))

(** val src_read :
    n list list -> terminal -> n -> ((n list * n) * berror option) * n list
    list **)

let src_read cs t0 space =
  match cs with
  | [] -> ((([], N0), (Some (match t0 with
                             | TEOF -> BEOF
                             | TErr -> BSrc))), [])
  | c :: rest ->
    let (p, lft) = take_upto c space [] N0 in
    ((p, None), (match lft with
                 | [] -> rest
                 | _ :: _ -> lft :: rest))

(** val fill_loop : nat -> bufrd -> bufrd **)

let rec fill_loop i b =
  match i with
  | O ->
    { bsize = b.bsize; bbuf = b.bbuf; blen = b.blen; berr = (Some
      BNoProgress); chunks = b.chunks; term = b.term; consumed = b.consumed }
  | S k ->
    let (p, cs) = src_read b.chunks b.term (N.sub b.bsize b.blen) in
    let (p0, err) = p in
    let (got, n0) = p0 in
    let b0 = { bsize = b.bsize; bbuf = (app b.bbuf got); blen =
      (N.add b.blen n0); berr = b.berr; chunks = cs; term = b.term;
      consumed = b.consumed }
    in
    (match err with
     | Some e ->
       { bsize = b0.bsize; bbuf = b0.bbuf; blen = b0.blen; berr = (Some e);
         chunks = b0.chunks; term = b0.term; consumed = b0.consumed }
     | None -> if N.ltb N0 n0 then b0 else fill_loop k b0)

(** val bfill : bufrd -> bufrd option **)

let bfill b =
  if N.leb b.bsize b.blen
  then None
  else Some
         (fill_loop (S (S (S (S (S (S (S (S (S (S (S (S (S (S (S (S (S (S (S
           (S (S (S (S (S (S (S (S (S (S (S (S (S (S (S (S (S (S (S (S (S (S
           (S (S (S (S (S (S (S (S (S (S (S (S (S (S (S (S (S (S (S (S (S (S
           (S (S (S (S (S (S (S (S (S (S (S (S (S (S (S (S (S (S (S (S (S (S
           (S (S (S (S (S (S (S (S (S (S (S (S (S (S (S
           O))))))))))))))))))))))))))))))))))))))))))))))))))))))))))))))))))))))))))))))))))))))))))))))))))))
           b)

(** val bBuffered : bufrd -> n **)

let bBuffered b =
  b.blen

(** val peek_loop : nat -> bufrd -> n -> bufrd option **)

let rec peek_loop fuel b n0 =
  match fuel with
  | O -> None
  | S f ->
    if (&&) ((&&) (N.ltb b.blen n0) (N.ltb b.blen b.bsize))
         (match b.berr with
          | Some _ -> false
          | None -> true)
    then (match bfill b with
          | Some b0 -> peek_loop f b0 n0
          | None -> None)
    else Some b

(** val bPeek :
    bufrd -> n -> (((n list * n) * berror option) * bufrd) option **)

let bPeek b n0 =
  match peek_loop big_fuel b n0 with
  | Some b0 ->
    if N.ltb b0.bsize n0
    then Some (((b0.bbuf, b0.blen), (Some BBufferFull)), b0)
    else if N.ltb b0.blen n0
         then let err =
                match b0.berr with
                | Some e -> Some e
                | None -> Some BBufferFull
              in
              Some (((b0.bbuf, b0.blen), err), { bsize = b0.bsize; bbuf =
              b0.bbuf; blen = b0.blen; berr = None; chunks = b0.chunks;
              term = b0.term; consumed = b0.consumed })
         else Some ((((firstn (N.to_nat n0) b0.bbuf), n0), None), b0)
  | None -> None

(** val discard_loop : nat -> bufrd -> n -> (berror option * bufrd) option **)

let rec discard_loop fuel b remain =
  match fuel with
  | O -> None
  | S f ->
    let ob = if N.eqb b.blen N0 then bfill b else Some b in
    (match ob with
     | Some b0 ->
       let skip = N.min b0.blen remain in
       let b1 = { bsize = b0.bsize; bbuf = (skipn (N.to_nat skip) b0.bbuf);
         blen = (N.sub b0.blen skip); berr = b0.berr; chunks = b0.chunks;
         term = b0.term; consumed = (N.add b0.consumed skip) }
       in
       let remain0 = N.sub remain skip in
       if N.eqb remain0 N0
       then Some (None, b1)
       else (match b1.berr with
             | Some e ->
               Some ((Some e), { bsize = b1.bsize; bbuf = b1.bbuf; blen =
                 b1.blen; berr = None; chunks = b1.chunks; term = b1.term;
                 consumed = b1.consumed })
             | None -> discard_loop f b1 remain0)
     | None -> None)

(** val bDiscard : bufrd -> n -> (berror option * bufrd) option **)

let bDiscard b n0 =
  if N.eqb n0 N0 then Some (None, b) else discard_loop big_fuel b n0

type rres =
| ROk
| REOF
| RUnexpectedEOF
| RCorrupt of z
| RSrcErr
| RNoProgress
| RBufferFull
| RPanic
| RStuck

type decompressor = { state : inflate; writePos : n; readPos : n; hist : 
                      arr; rBuf : bufrd; derr : rres option; peekSize : 
                      n; eof : bool; haveBits : bool }

(** val newReader : n -> n list list -> terminal -> decompressor **)

let newReader bufsize cs t0 =
  { state = inflate0; writePos = N0; readPos = N0; hist = aempty; rBuf =
    { bsize = (N.max bufsize (Npos (XO (XO (XO (XO XH)))))); bbuf = [];
    blen = N0; berr = None; chunks = cs; term = t0; consumed = N0 }; derr =
    None; peekSize = N0; eof = false; haveBits = false }

(** val rres_of_berror : berror -> rres **)

let rres_of_berror = function
| BEOF -> REOF
| BSrc -> RSrcErr
| BNoProgress -> RNoProgress
| BBufferFull -> RBufferFull

(** val set_state : decompressor -> inflate -> decompressor **)

let set_state f s =
  { state = s; writePos = f.writePos; readPos = f.readPos; hist = f.hist;
    rBuf = f.rBuf; derr = f.derr; peekSize = f.peekSize; eof = f.eof;
    haveBits = f.haveBits }

(** val decomp_loop :
    nat -> inflate -> arr -> n -> ((inflate * arr) * n) * ierr **)

let rec decomp_loop fuel s out idx =
  match fuel with
  | O -> (((s, out), idx), EFuel)
  | S f ->
    if N.eqb s.phase phaseStreamEnd
    then (((s, out), idx), ENone)
    else let (s0, err) =
           if (||) (N.eqb s.phase phaseNewBlock)
                (N.eqb s.phase phaseDecodingHeader)
           then readHeader s
           else (s, ENone)
         in
         (match err with
          | ENone ->
            let (p, err0) =
              if N.eqb s0.phase phaseLitBlock
              then decodeLiteralBlock s0 out idx
              else decodeHuffman s0 out idx
            in
            let (p0, idx0) = p in
            let (s1, out0) = p0 in
            (match err0 with
             | ENone -> decomp_loop f s1 out0 idx0
             | _ -> (((s1, out0), idx0), err0))
          | _ -> (((s0, out), idx), err))

(** val decomperss : decompressor -> decompressor * ierr **)

let decomperss f =
  let (p, err) = decomp_loop big_fuel f.state f.hist f.writePos in
  let (p0, idx) = p in
  let (s, h) = p0 in
  let (p1, idx0) =
    if negb (N.eqb s.ov.writeOverflowLen N0)
    then let v = u32 s.ov.writeOverflowLits in
         let h0 =
           aset
             (aset
               (aset
                 (aset h idx
                   (N.coq_land v (Npos (XI (XI (XI (XI (XI (XI (XI XH))))))))))
                 (N.add idx (Npos XH))
                 (N.coq_land (N.shiftr v (Npos (XO (XO (XO XH))))) (Npos (XI
                   (XI (XI (XI (XI (XI (XI XH))))))))))
               (N.add idx (Npos (XO XH)))
               (N.coq_land (N.shiftr v (Npos (XO (XO (XO (XO XH)))))) (Npos
                 (XI (XI (XI (XI (XI (XI (XI XH))))))))))
             (N.add idx (Npos (XI XH)))
             (N.shiftr v (Npos (XO (XO (XO (XI XH))))))
         in
         (((set_wov s N0 N0), h0), (N.add idx s.ov.writeOverflowLen))
    else ((s, h), idx)
  in
  let (s0, h0) = p1 in
  if negb (N.eqb s0.ov.copyOverflowLength N0)
  then let p2 = ((set_cov s0 N0 N0),
         (byteCopy h0 idx0 s0.ov.copyOverflowDistance
           s0.ov.copyOverflowLength))
       in
       let idx1 = N.add idx0 s0.ov.copyOverflowLength in
       let (s1, h1) = p2 in
       ({ state = s1; writePos = idx1; readPos = f.readPos; hist = h1; rBuf =
       f.rBuf; derr = f.derr; peekSize = f.peekSize; eof = f.eof; haveBits =
       f.haveBits }, err)
  else let p2 = (s0, h0) in
       let (s1, h1) = p2 in
       ({ state = s1; writePos = idx0; readPos = f.readPos; hist = h1; rBuf =
       f.rBuf; derr = f.derr; peekSize = f.peekSize; eof = f.eof; haveBits =
       f.haveBits }, err)

(** val step_discard :
    decompressor -> (berror option * decompressor) option **)

let step_discard f =
  let s = f.state in
  let discardSize =
    Z.sub (Z.sub (Z.of_N f.peekSize) (Z.of_N s.rd.r_inlen))
      (Z.quot s.rd.r_len (Zpos (XO (XO (XO XH)))))
  in
  let finish = fun f0 ->
    set_state f0
      (set_inputNil (set_rd f0.state (br_set_in f0.state.rd [] N0)) true)
  in
  if Z.ltb Z0 discardSize
  then (match bDiscard f.rBuf (Z.to_N discardSize) with
        | Some p ->
          let (o, rb) = p in
          (match o with
           | Some e ->
             Some ((Some e), { state = f.state; writePos = f.writePos;
               readPos = f.readPos; hist = f.hist; rBuf = rb; derr = f.derr;
               peekSize = f.peekSize; eof = f.eof; haveBits = f.haveBits })
           | None ->
             Some (None,
               (finish { state = f.state; writePos = f.writePos; readPos =
                 f.readPos; hist = f.hist; rBuf = rb; derr = f.derr;
                 peekSize = f.peekSize; eof = f.eof; haveBits = f.haveBits })))
        | None -> None)
  else Some (None, (finish f))

(** val step_discard_at :
    z -> decompressor -> (berror option * decompressor) option **)

let step_discard_at held f =
  let s = f.state in
  let discardSize =
    Z.sub (Z.sub (Z.of_N f.peekSize) (Z.of_N s.rd.r_inlen)) held
  in
  let finish = fun f0 ->
    set_state f0
      (set_inputNil (set_rd f0.state (br_set_in f0.state.rd [] N0)) true)
  in
  if Z.ltb Z0 discardSize
  then (match bDiscard f.rBuf (Z.to_N discardSize) with
        | Some p ->
          let (o, rb) = p in
          (match o with
           | Some e ->
             Some ((Some e), { state = f.state; writePos = f.writePos;
               readPos = f.readPos; hist = f.hist; rBuf = rb; derr = f.derr;
               peekSize = f.peekSize; eof = f.eof; haveBits = f.haveBits })
           | None ->
             Some (None,
               (finish { state = f.state; writePos = f.writePos; readPos =
                 f.readPos; hist = f.hist; rBuf = rb; derr = f.derr;
                 peekSize = f.peekSize; eof = f.eof; haveBits = f.haveBits })))
        | None -> None)
  else Some (None, (finish f))

(** val held_nonneg : decompressor -> z **)

let held_nonneg f =
  let bl = f.state.rd.r_len in
  if Z.ltb Z0 bl then Z.quot bl (Zpos (XO (XO (XO XH)))) else Z0

(** val step : decompressor -> decompressor * rres option **)

let step f =
  if N.eqb f.state.phase phaseFinish
  then (f, (Some REOF))
  else let r1 =
         if f.state.inputNil
         then if Z.ltb f.state.rd.r_len Z0
              then (f, (Some RPanic))
              else let held =
                     Z.to_N (Z.quot f.state.rd.r_len (Zpos (XO (XO (XO XH)))))
                   in
                   let f0 = { state = f.state; writePos = f.writePos;
                     readPos = f.readPos; hist = f.hist; rBuf = f.rBuf;
                     derr = f.derr; peekSize = f.peekSize; eof = false;
                     haveBits = f.haveBits }
                   in
                   let r0 =
                     if (&&) (N.leb (bBuffered f0.rBuf) held)
                          (negb f0.haveBits)
                     then (match bPeek f0.rBuf (N.add held (Npos XH)) with
                           | Some p ->
                             let (p0, rb) = p in
                             let (_, e) = p0 in
                             let f1 = { state = f0.state; writePos =
                               f0.writePos; readPos = f0.readPos; hist =
                               f0.hist; rBuf = rb; derr = f0.derr; peekSize =
                               f0.peekSize; eof = f0.eof; haveBits =
                               f0.haveBits }
                             in
                             (match e with
                              | Some b ->
                                (match b with
                                 | BEOF ->
                                   ({ state = f1.state; writePos =
                                     f1.writePos; readPos = f1.readPos;
                                     hist = f1.hist; rBuf = f1.rBuf; derr =
                                     f1.derr; peekSize = f1.peekSize; eof =
                                     true; haveBits = f1.haveBits }, None)
                                 | BSrc -> (f1, (Some RSrcErr))
                                 | BNoProgress -> (f1, (Some RNoProgress))
                                 | BBufferFull -> (f1, None))
                              | None -> (f1, None))
                           | None -> (f0, (Some RStuck)))
                     else (f0, None)
                   in
                   let (f1, o) = r0 in
                   (match o with
                    | Some e -> (f1, (Some e))
                    | None ->
                      (match bPeek f1.rBuf (bBuffered f1.rBuf) with
                       | Some p ->
                         let (p0, rb) = p in
                         let (p1, _) = p0 in
                         let (bytes, n0) = p1 in
                         if N.ltb n0 held
                         then (f1, (Some RPanic))
                         else let s = f1.state in
                              let s0 =
                                set_inputNil
                                  (set_rd s
                                    (br_set_in s.rd
                                      (skipn (N.to_nat held) bytes)
                                      (N.sub n0 held))) false
                              in
                              ({ state = s0; writePos = f1.writePos;
                              readPos = f1.readPos; hist = f1.hist; rBuf =
                              rb; derr = f1.derr; peekSize = n0; eof =
                              f1.eof; haveBits = f1.haveBits }, None)
                       | None -> (f1, (Some RStuck))))
         else (f, None)
       in
       let (f0, o) = r1 in
       (match o with
        | Some e -> (f0, (Some e))
        | None ->
          let readPos1 = f0.writePos in
          if N.leb (N.mul historySize (Npos (XO XH))) readPos1
          then let p =
                 ((forN N0 historySize (fun i h ->
                    aset h i (aget h (N.add (N.sub readPos1 historySize) i)))
                    f0.hist), historySize)
               in
               let (h, readPos2) = p in
               let f1 = { state = f0.state; writePos = historySize; readPos =
                 readPos2; hist = h; rBuf = f0.rBuf; derr = f0.derr;
                 peekSize = f0.peekSize; eof = f0.eof; haveBits =
                 f0.haveBits }
               in
               let startInputSize = Z.of_N f1.state.rd.r_inlen in
               let startBitsLen = f1.state.rd.r_len in
               let (f2, e) = decomperss f1 in
               let f3 =
                 set_state f2 (rOffset f2.state startInputSize startBitsLen)
               in
               let f4 = { state = f3.state; writePos = f3.writePos; readPos =
                 f3.readPos; hist = f3.hist; rBuf = f3.rBuf; derr = f3.derr;
                 peekSize = f3.peekSize; eof = f3.eof; haveBits =
                 (negb (ierr_eqb e EEndInput)) }
               in
               (match e with
                | EPanic -> (f4, (Some RPanic))
                | EFuel -> (f4, (Some RStuck))
                | _ ->
                  if (||) (isError e) ((&&) (ierr_eqb e EEndInput) f4.eof)
                  then (match step_discard_at (held_nonneg f4) f4 with
                        | Some p0 ->
                          let (o0, f5) = p0 in
                          (match o0 with
                           | Some be -> (f5, (Some (rres_of_berror be)))
                           | None ->
                             if ierr_eqb e EEndInput
                             then (f5, (Some RUnexpectedEOF))
                             else (f5, (Some (RCorrupt f5.state.roffset))))
                        | None -> (f4, (Some RStuck)))
                  else if N.eqb f4.state.phase phaseStreamEnd
                       then let f5 =
                              set_state f4 (set_phase f4.state phaseFinish)
                            in
                            let ret = Some REOF in
                            if (||) (N.eqb f5.state.rd.r_inlen N0)
                                 (N.eqb f5.state.phase phaseFinish)
                            then (match step_discard f5 with
                                  | Some p0 ->
                                    let (o0, f6) = p0 in
                                    (match o0 with
                                     | Some be ->
                                       (f6, (Some (rres_of_berror be)))
                                     | None -> (f6, ret))
                                  | None -> (f5, (Some RStuck)))
                            else (f5, ret)
                       else let ret = None in
                            if (||) (N.eqb f4.state.rd.r_inlen N0)
                                 (N.eqb f4.state.phase phaseFinish)
                            then (match step_discard f4 with
                                  | Some p0 ->
                                    let (o0, f5) = p0 in
                                    (match o0 with
                                     | Some be ->
                                       (f5, (Some (rres_of_berror be)))
                                     | None -> (f5, ret))
                                  | None -> (f4, (Some RStuck)))
                            else (f4, ret))
          else let p = (f0.hist, readPos1) in
               let writePos1 = f0.writePos in
               let (h, readPos2) = p in
               let f1 = { state = f0.state; writePos = writePos1; readPos =
                 readPos2; hist = h; rBuf = f0.rBuf; derr = f0.derr;
                 peekSize = f0.peekSize; eof = f0.eof; haveBits =
                 f0.haveBits }
               in
               let startInputSize = Z.of_N f1.state.rd.r_inlen in
               let startBitsLen = f1.state.rd.r_len in
               let (f2, e) = decomperss f1 in
               let f3 =
                 set_state f2 (rOffset f2.state startInputSize startBitsLen)
               in
               let f4 = { state = f3.state; writePos = f3.writePos; readPos =
                 f3.readPos; hist = f3.hist; rBuf = f3.rBuf; derr = f3.derr;
                 peekSize = f3.peekSize; eof = f3.eof; haveBits =
                 (negb (ierr_eqb e EEndInput)) }
               in
               (match e with
                | EPanic -> (f4, (Some RPanic))
                | EFuel -> (f4, (Some RStuck))
                | _ ->
                  if (||) (isError e) ((&&) (ierr_eqb e EEndInput) f4.eof)
                  then (match step_discard_at (held_nonneg f4) f4 with
                        | Some p0 ->
                          let (o0, f5) = p0 in
                          (match o0 with
                           | Some be -> (f5, (Some (rres_of_berror be)))
                           | None ->
                             if ierr_eqb e EEndInput
                             then (f5, (Some RUnexpectedEOF))
                             else (f5, (Some (RCorrupt f5.state.roffset))))
                        | None -> (f4, (Some RStuck)))
                  else if N.eqb f4.state.phase phaseStreamEnd
                       then let f5 =
                              set_state f4 (set_phase f4.state phaseFinish)
                            in
                            let ret = Some REOF in
                            if (||) (N.eqb f5.state.rd.r_inlen N0)
                                 (N.eqb f5.state.phase phaseFinish)
                            then (match step_discard f5 with
                                  | Some p0 ->
                                    let (o0, f6) = p0 in
                                    (match o0 with
                                     | Some be ->
                                       (f6, (Some (rres_of_berror be)))
                                     | None -> (f6, ret))
                                  | None -> (f5, (Some RStuck)))
                            else (f5, ret)
                       else let ret = None in
                            if (||) (N.eqb f4.state.rd.r_inlen N0)
                                 (N.eqb f4.state.phase phaseFinish)
                            then (match step_discard f4 with
                                  | Some p0 ->
                                    let (o0, f5) = p0 in
                                    (match o0 with
                                     | Some be ->
                                       (f5, (Some (rres_of_berror be)))
                                     | None -> (f5, ret))
                                  | None -> (f4, (Some RStuck)))
                            else (f4, ret)))

(** val hist_slice : nat -> arr -> n -> n list **)

let rec hist_slice n0 h pos =
  match n0 with
  | O -> []
  | S k -> (aget h pos) :: (hist_slice k h (N.add pos (Npos XH)))

(** val set_err : decompressor -> rres option -> decompressor **)

let set_err f e =
  { state = f.state; writePos = f.writePos; readPos = f.readPos; hist =
    f.hist; rBuf = f.rBuf; derr = e; peekSize = f.peekSize; eof = f.eof;
    haveBits = f.haveBits }

(** val read_loop :
    nat -> decompressor -> n -> (decompressor * n list) * rres **)

let rec read_loop fuel f plen =
  match fuel with
  | O -> ((f, []), RStuck)
  | S k ->
    if N.ltb f.readPos f.writePos
    then let num = N.min plen (N.sub f.writePos f.readPos) in
         let bytes = hist_slice (N.to_nat num) f.hist f.readPos in
         let f0 = { state = f.state; writePos = f.writePos; readPos =
           (N.add f.readPos num); hist = f.hist; rBuf = f.rBuf; derr =
           f.derr; peekSize = f.peekSize; eof = f.eof; haveBits = f.haveBits }
         in
         if N.eqb f0.writePos f0.readPos
         then ((f0, bytes), (match f0.derr with
                             | Some e -> e
                             | None -> ROk))
         else ((f0, bytes), ROk)
    else (match f.derr with
          | Some e -> ((f, []), e)
          | None ->
            let (f0, e) = step f in
            let f1 = set_err f0 e in
            (match e with
             | Some e' ->
               if N.leb f1.writePos f1.readPos
               then ((f1, []), e')
               else read_loop k f1 plen
             | None -> read_loop k f1 plen))

(** val dRead : decompressor -> n -> (decompressor * n list) * rres **)

let dRead f plen =
  read_loop big_fuel f plen

(** val erun_loop :
    decompressor -> n list -> (n list * rres) list -> (n list * rres)
    list * decompressor **)

let rec erun_loop f reads acc =
  match reads with
  | [] -> ((frev acc), f)
  | p :: rest ->
    let (p0, r) = dRead f p in
    let (f0, bytes) = p0 in
    (match r with
     | ROk -> erun_loop f0 rest ((bytes, r) :: acc)
     | _ -> ((frev ((bytes, r) :: acc)), f0))

(** val erun_ext :
    n -> n list list -> terminal -> n list -> (n list * rres) list * n **)

let erun_ext bufsize cs t0 reads =
  let (l, f) = erun_loop (newReader bufsize cs t0) reads [] in
  (l, f.rBuf.consumed)

(** val erun :
    n -> n list list -> terminal -> n list -> (n list * rres) list **)

let erun bufsize cs t0 reads =
  fst (erun_ext bufsize cs t0 reads)

(** val rres_code : rres -> n **)

let rres_code = function
| ROk -> N0
| REOF -> Npos XH
| RUnexpectedEOF -> Npos (XO XH)
| RCorrupt _ -> Npos (XI XH)
| RSrcErr -> Npos (XO (XO XH))
| RNoProgress -> Npos (XI (XO XH))
| RBufferFull -> Npos (XO (XI XH))
| RPanic -> Npos (XI (XI XH))
| RStuck -> Npos (XO (XO (XO XH)))

(** val erun_obs :
    n -> n list list -> bool -> n list -> (n list * n) list * n **)

let erun_obs bufsize chunks0 term_is_err reads =
  let (l, c) =
    erun_ext bufsize chunks0 (if term_is_err then TErr else TEOF) reads
  in
  ((frev
     (fold_left (fun acc br -> ((fst br), (rres_code (snd br))) :: acc) l [])),
  c)

(** val mkbufrd : n -> n list list -> terminal -> bufrd **)

let mkbufrd bufsize cs t0 =
  { bsize = (N.max bufsize (Npos (XO (XO (XO (XO XH)))))); bbuf = []; blen =
    N0; berr = None; chunks = cs; term = t0; consumed = N0 }

(** val dReset : decompressor -> bufrd -> decompressor **)

let dReset f rb =
  { state = (inflate_reset f.state); writePos = N0; readPos = N0; hist =
    f.hist; rBuf = rb; derr = None; peekSize = N0; eof = false; haveBits =
    false }

(** val eread_all :
    decompressor -> n list -> (n list * rres) list -> (n list * rres)
    list * decompressor **)

let rec eread_all f reads acc =
  match reads with
  | [] -> ((frev acc), f)
  | p :: rest ->
    let (p0, r) = dRead f p in
    let (f0, bytes) = p0 in eread_all f0 rest ((bytes, r) :: acc)

(** val erun2 :
    n -> n list list -> terminal -> n list -> n -> n list list -> terminal ->
    n list -> ((n list * rres) list * (n list * rres) list) * n **)

let erun2 bufsize1 chunks1 term1 reads1 bufsize2 chunks2 term2 reads2 =
  let (l1, f1) = eread_all (newReader bufsize1 chunks1 term1) reads1 [] in
  let (l2, f2) =
    erun_loop (dReset f1 (mkbufrd bufsize2 chunks2 term2)) reads2 []
  in
  ((l1, l2), f2.rBuf.consumed)

(** val obs_codes : (n list * rres) list -> (n list * n) list **)

let obs_codes l =
  frev
    (fold_left (fun acc br -> ((fst br), (rres_code (snd br))) :: acc) l [])

(** val term_of : bool -> terminal **)

let term_of = function
| true -> TErr
| false -> TEOF

(** val erun2_obs :
    n -> n list list -> bool -> n list -> n -> n list list -> bool -> n list
    -> ((n list * n) list * (n list * n) list) * n **)

let erun2_obs bufsize1 chunks1 term1_is_err reads1 bufsize2 chunks2 term2_is_err reads2 =
  let (p, c) =
    erun2 bufsize1 chunks1 (term_of term1_is_err) reads1 bufsize2 chunks2
      (term_of term2_is_err) reads2
  in
  let (l1, l2) = p in (((obs_codes l1), (obs_codes l2)), c)
