
val negb : bool -> bool

type nat =
| O
| S of nat

val fst : ('a1 * 'a2) -> 'a1

val snd : ('a1 * 'a2) -> 'a2

val app : 'a1 list -> 'a1 list -> 'a1 list

type comparison =
| Eq
| Lt
| Gt

val compOpp : comparison -> comparison

val add : nat -> nat -> nat

val rev_append : 'a1 list -> 'a1 list -> 'a1 list

val fold_left : ('a1 -> 'a2 -> 'a1) -> 'a2 list -> 'a1 -> 'a1

val firstn : nat -> 'a1 list -> 'a1 list

val skipn : nat -> 'a1 list -> 'a1 list

type positive =
| XI of positive
| XO of positive
| XH

type n =
| N0
| Npos of positive

type z =
| Z0
| Zpos of positive
| Zneg of positive

module Pos :
 sig
  type mask =
  | IsNul
  | IsPos of positive
  | IsNeg
 end

module Coq_Pos :
 sig
  val succ : positive -> positive

  val add : positive -> positive -> positive

  val add_carry : positive -> positive -> positive

  val pred_double : positive -> positive

  val pred_N : positive -> n

  type mask = Pos.mask =
  | IsNul
  | IsPos of positive
  | IsNeg

  val succ_double_mask : mask -> mask

  val double_mask : mask -> mask

  val double_pred_mask : positive -> mask

  val sub_mask : positive -> positive -> mask

  val sub_mask_carry : positive -> positive -> mask

  val mul : positive -> positive -> positive

  val iter : ('a1 -> 'a1) -> 'a1 -> positive -> 'a1

  val size : positive -> positive

  val compare_cont : comparison -> positive -> positive -> comparison

  val compare : positive -> positive -> comparison

  val eqb : positive -> positive -> bool

  val coq_Nsucc_double : n -> n

  val coq_Ndouble : n -> n

  val coq_lor : positive -> positive -> positive

  val coq_land : positive -> positive -> n

  val shiftl : positive -> n -> positive

  val iter_op : ('a1 -> 'a1 -> 'a1) -> positive -> 'a1 -> 'a1

  val to_nat : positive -> nat
 end

module N :
 sig
  val succ_double : n -> n

  val double : n -> n

  val pred : n -> n

  val succ_pos : n -> positive

  val add : n -> n -> n

  val sub : n -> n -> n

  val mul : n -> n -> n

  val compare : n -> n -> comparison

  val eqb : n -> n -> bool

  val leb : n -> n -> bool

  val ltb : n -> n -> bool

  val min : n -> n -> n

  val max : n -> n -> n

  val div2 : n -> n

  val size : n -> n

  val pos_div_eucl : positive -> n -> n * n

  val div_eucl : n -> n -> n * n

  val div : n -> n -> n

  val modulo : n -> n -> n

  val coq_lor : n -> n -> n

  val coq_land : n -> n -> n

  val shiftl : n -> n -> n

  val shiftr : n -> n -> n

  val to_nat : n -> nat

  val ones : n -> n
 end

module Z :
 sig
  val double : z -> z

  val succ_double : z -> z

  val pred_double : z -> z

  val pos_sub : positive -> positive -> z

  val add : z -> z -> z

  val opp : z -> z

  val sub : z -> z -> z

  val mul : z -> z -> z

  val compare : z -> z -> comparison

  val leb : z -> z -> bool

  val ltb : z -> z -> bool

  val eqb : z -> z -> bool

  val to_nat : z -> nat

  val to_N : z -> n

  val of_N : n -> z

  val quotrem : z -> z -> z * z

  val quot : z -> z -> z
 end

module PositiveMap :
 sig
  type key = positive

  type 'a tree =
  | Leaf
  | Node of 'a tree * 'a option * 'a tree

  type 'a t = 'a tree

  val empty : 'a1 t

  val find : key -> 'a1 t -> 'a1 option

  val add : key -> 'a1 -> 'a1 t -> 'a1 t
 end

val frev : 'a1 list -> 'a1 list

type arr = n PositiveMap.t

val aempty : arr

val aget : arr -> n -> n

val aset : arr -> n -> n -> arr

val arr_fill : n list -> n -> arr -> arr

val arr_of_list : n list -> arr

val static_lit_short_l : n list

val static_lit_long_l : n list

val static_dist_short_l : n list

val static_dist_long_l : n list

val rfc_dist_extra_l : n list

val rfc_dist_start_l : n list

val rfc_len_extra_l : n list

val mask64 : n

val mask32 : n

val mask16 : n

val u64 : n -> n

val u32 : n -> n

val u16 : n -> n

val u8 : n -> n

val shl64 : n -> n -> n

val shl32 : n -> n -> n

val shl16 : n -> n -> n

val subw : n -> n -> n -> n

val sub32 : n -> n -> n

val sub16 : n -> n -> n

val ones32 : n -> n

val ones64 : n -> n

val big_fuel : nat

val small_fuel : nat

val iterN : nat -> n -> (n -> 'a1 -> 'a1) -> 'a1 -> 'a1

val forN : n -> n -> (n -> 'a1 -> 'a1) -> 'a1 -> 'a1

val ainc : arr -> n -> arr

val rfc_dist_extra : arr

val rfc_dist_start : arr

val rfc_len_extra : arr

val static_lit_short : arr

val static_lit_long : arr

val static_dist_short : arr

val static_dist_long : arr

val phaseNewBlock : n

val phaseDecodingHeader : n

val phaseLitBlock : n

val phaseHeaderDecoded : n

val phaseStreamEnd : n

val phaseFinish : n

val litLenElems : n

val maxLitLenCount : n

val singleSymFlag : n

val doubleSymFlag : n

val defaultSymFlag : n

val distLen : n

val litLen : n

val litTableSize : n

val litSymbolsSize : n

val maxHdrSize : n

val maxLitLenSym : n

val historySize : n

val outLen : n

val invalidSymbolValue : n

val invalidCodeValue : n

val largeFlagBit : n

val largeShortSymMask : n

val smallFlagBit : n

type ierr =
| ENone
| EEndInput
| EOutputOverflow
| EInvalidBlock
| EInvalidSymbol
| EInvalidLookBack
| EPanic
| EFuel

val ierr_eqb : ierr -> ierr -> bool

val isError : ierr -> bool

type bitrd = { r_bits : n; r_len : z; r_in : n list; r_inlen : n }

type ovf = { writeOverflowLits : n; writeOverflowLen : n;
             copyOverflowLength : n; copyOverflowDistance : n }

type tabs = { litShort : arr; litLong : arr; distShort : arr; distLong : arr }

type dynHdr = { litAndDistHuff : arr; clcShort : arr; clcLong : arr;
                codeList : arr; litCount : arr; distCount : arr;
                litExpandCount : arr; nextCode : arr; lenHuffCodes : 
                arr }

type inflate = { rd : bitrd; inputNil : bool; ov : ovf; tb : tabs; phase : 
                 n; bfinal : n; litBlockLength : n; headerBuffered : 
                 n; headerBuffer : n list; dyn : dynHdr; roffset : z }

val set_rd : inflate -> bitrd -> inflate

val set_inputNil : inflate -> bool -> inflate

val set_ov : inflate -> ovf -> inflate

val set_tb : inflate -> tabs -> inflate

val set_phase : inflate -> n -> inflate

val set_bfinal : inflate -> n -> inflate

val set_litBlockLength : inflate -> n -> inflate

val set_header : inflate -> n -> n list -> inflate

val set_dyn : inflate -> dynHdr -> inflate

val set_roffset : inflate -> z -> inflate

val br0 : bitrd

val ov0 : ovf

val dyn0 : dynHdr

val inflate0 : inflate

val inflate_reset : inflate -> inflate

val br_set_bits : bitrd -> n -> bitrd

val br_set_len : bitrd -> z -> bitrd

val br_set_in : bitrd -> n list -> n -> bitrd

val br_drop : bitrd -> n -> bitrd

val next_bits : bitrd -> n -> n * bitrd

val le64 : n -> n -> n -> n -> n -> n -> n -> n -> n

val load_bytes : nat -> bitrd -> bitrd

val load_raw : bitrd -> bitrd option

val load_lt57 : bitrd -> bitrd option

val load_le15 : bitrd -> bitrd option

val hc_len : n -> n

val hc_code : n -> n

val hc_set : n -> n -> n

val hc_setcode : n -> n -> n

val rev_bits : nat -> n -> n -> n

val bitReverse2 : n -> n -> n

val setCodes : arr -> n -> n -> arr -> arr * bool

val long_fill :
  nat -> n -> n -> arr -> n -> n -> n -> n -> n -> bool -> arr * bool

val gen_small :
  bool -> arr -> arr -> arr -> n -> arr -> n -> ((arr * arr) * arr) * ierr

val setupStaticHeader : inflate -> inflate

val codeLengthOrder : arr

val loadBits : inflate -> inflate option

val readBits : inflate -> n -> (n * inflate) option

val clc_read3 : n -> ((bitrd * arr) * arr) -> (bitrd * arr) * arr

val codeLenCodes : inflate -> n -> inflate * ierr

val clc_decode : arr -> arr -> bitrd -> (n * bitrd) option

type rlst = { rl_b : bitrd; rl_h : arr; rl_lc : arr; rl_dc : arr;
              rl_ex : arr; rl_curr : z; rl_prev : z; rl_inDist : bool }

val rl_count_inc : rlst -> bool -> n -> arr * arr

val expand_adjust : arr -> n -> z -> arr

val rl_put : rlst -> z -> z -> n -> rlst option

val rl_rep : nat -> rlst -> z -> z -> n -> rlst option

val rl_set_b : rlst -> bitrd -> rlst

val rl_loop : nat -> arr -> arr -> z -> z -> rlst -> rlst * ierr

val set_dyn_counts : dynHdr -> arr -> arr -> arr -> arr -> dynHdr

val readLitDistLens : inflate -> n -> n -> inflate * ierr

val indexToSym : n -> n

val calcCodeForLit :
  arr -> arr -> arr -> arr -> (((arr * arr) * arr) * arr) * bool

val expandLenCodes :
  arr -> arr -> arr -> arr -> arr -> (((arr * arr) * arr) * arr) * bool

val setAndExpandLitLenHuffCode : dynHdr -> dynHdr * ierr

val encodeSingles : arr -> dynHdr -> n -> arr * bool

val pairs_loop : nat -> arr -> dynHdr -> n -> n -> n -> arr * ierr

val encodePairs : arr -> dynHdr -> n -> n -> arr * ierr

val triples_loop2 :
  nat -> arr -> dynHdr -> n -> n -> n -> n -> n -> n -> arr * ierr

val triples_loop1 : nat -> arr -> dynHdr -> n -> n -> n -> n -> arr * ierr

val encodeTriples : arr -> dynHdr -> n -> n -> arr * ierr

val encodeLongCodes : arr -> arr -> dynHdr -> n -> ((arr * arr) * arr) * bool

val set_dyn_huff : dynHdr -> arr -> dynHdr

val genForLitLen : arr -> arr -> dynHdr -> n -> ((arr * arr) * dynHdr) * ierr

val setupDynamicHeader : inflate -> inflate * ierr

val prepareForLitBlock : inflate -> inflate * ierr

val tryDecodeHeader : inflate -> inflate * ierr

val rOffset : inflate -> z -> z -> inflate

val readHeader : inflate -> inflate * ierr

val byteCopy_nat : nat -> arr -> n -> n -> arr

val byteCopy : arr -> n -> n -> n -> arr

val lit_drain :
  nat -> bitrd -> arr -> n -> n -> n -> ((((bitrd * arr) * n) * n) * bool)
  option

val copy_list : n list -> nat -> arr -> n -> arr * n list

val decodeLiteralBlock : inflate -> arr -> n -> ((inflate * arr) * n) * ierr

val set_wov : inflate -> n -> n -> inflate

val set_cov : inflate -> n -> n -> inflate

val end_of_block : inflate -> inflate

type hres =
| HCont of inflate * bitrd * arr * n
| HFin of inflate * bitrd * arr * n * ierr

val dist_decode : tabs -> bitrd -> (n * bitrd) option

val huff_inner :
  nat -> inflate -> bitrd -> arr -> n -> n -> n -> bitrd -> n -> hres

val litlen_decode : tabs -> bitrd -> ((bitrd * n) * n) option

val huff_outer :
  nat -> inflate -> bitrd -> arr -> n ->
  (((inflate * bitrd) * arr) * n) * ierr

val decodeHuffman : inflate -> arr -> n -> ((inflate * arr) * n) * ierr

type terminal =
| TEOF
| TErr

type berror =
| BEOF
| BSrc
| BNoProgress
| BBufferFull

type bufrd = { bsize : n; bbuf : n list; blen : n; berr : berror option;
               chunks : n list list; term : terminal; consumed : n }

val take_upto : n list -> n -> n list -> n -> (n list * n) * n list

val src_read :
  n list list -> terminal -> n -> ((n list * n) * berror option) * n list list

val fill_loop : nat -> bufrd -> bufrd

val bfill : bufrd -> bufrd option

val bBuffered : bufrd -> n

val peek_loop : nat -> bufrd -> n -> bufrd option

val bPeek : bufrd -> n -> (((n list * n) * berror option) * bufrd) option

val discard_loop : nat -> bufrd -> n -> (berror option * bufrd) option

val bDiscard : bufrd -> n -> (berror option * bufrd) option

type rres =
| ROk
| REOF
| RUnexpectedEOF
| RCorrupt of z
| RSrcErr
| RNoProgress
| RBufferFull
| RPanic
| RStuck

type decompressor = { state : inflate; writePos : n; readPos : n; hist : 
                      arr; rBuf : bufrd; derr : rres option; peekSize : 
                      n; eof : bool; haveBits : bool }

val newReader : n -> n list list -> terminal -> decompressor

val rres_of_berror : berror -> rres

val set_state : decompressor -> inflate -> decompressor

val decomp_loop : nat -> inflate -> arr -> n -> ((inflate * arr) * n) * ierr

val decomperss : decompressor -> decompressor * ierr

val step_discard : decompressor -> (berror option * decompressor) option

val step_discard_at :
  z -> decompressor -> (berror option * decompressor) option

val held_nonneg : decompressor -> z

val step : decompressor -> decompressor * rres option

val hist_slice : nat -> arr -> n -> n list

val set_err : decompressor -> rres option -> decompressor

val read_loop : nat -> decompressor -> n -> (decompressor * n list) * rres

val dRead : decompressor -> n -> (decompressor * n list) * rres

val erun_loop :
  decompressor -> n list -> (n list * rres) list -> (n list * rres)
  list * decompressor

val erun_ext :
  n -> n list list -> terminal -> n list -> (n list * rres) list * n

val erun : n -> n list list -> terminal -> n list -> (n list * rres) list

val rres_code : rres -> n

val erun_obs : n -> n list list -> bool -> n list -> (n list * n) list * n

val mkbufrd : n -> n list list -> terminal -> bufrd

val dReset : decompressor -> bufrd -> decompressor

val eread_all :
  decompressor -> n list -> (n list * rres) list -> (n list * rres)
  list * decompressor

val erun2 :
  n -> n list list -> terminal -> n list -> n -> n list list -> terminal -> n
  list -> ((n list * rres) list * (n list * rres) list) * n

val obs_codes : (n list * rres) list -> (n list * n) list

val term_of : bool -> terminal

val erun2_obs :
  n -> n list list -> bool -> n list -> n -> n list list -> bool -> n list ->
  ((n list * n) list * (n list * n) list) * n
